(* C14, the copy loop: peewee_v2_to_sqlite_v1 copies every bucket and every event exactly
   once and only reads the legacy store.  Lemmas about Model/Migration.v (Part 2), stated
   over the C02 store models Model/PeeweeStore.v and Model/SqliteStore.v. *)
From AwVerif Require Import Base.Prelude Model.StoreBase Model.SqliteStore Model.PeeweeStore
  Model.Migration Proofs.MigrationBase.
From Coq Require Import Permutation.

(* what the property compares: instant, duration, data *)
Definition payload (e : event) : Z * Z * Z := (ts e, dur e, data e).

(* the legacy store's tables are well formed: bucket ids are distinct (id is UNIQUE) *)
Definition PwInv (pw : pwstate) : Prop := NoDup (map pb_id (pw_buckets pw)).

(* ------------------------------------------------------------------ *)
(* legacy side *)

Lemma pw_clip_none : forall e, pw_clip None None e = e.
Proof. intros e. reflexivity. Qed.

Lemma aget_keys : forall l b,
  aget b (map (fun r => (pb_id r, pb_key r)) l) = option_map pb_key (find (fun r => pb_id r =? b) l).
Proof.
  induction l as [|a l IH]; cbn; intros b; [reflexivity|].
  destruct (pb_id a =? b); [reflexivity|apply IH].
Qed.

Definition pw_bucket_rows (pw : pwstate) (k : Z) : list perow :=
  filter (fun e => pe_bucket e =? k) (pw_events pw).

Lemma pw_get_events_all : forall pw b k,
  pw_key pw b = Some k ->
  pw_step pw (GetEvents b (-1) None None) =
  (pw, Ok (OEvents (map prow_event (pw_order_ts_desc (pw_bucket_rows pw k))))).
Proof.
  intros pw b k Hk. unfold pw_step.
  change (-1 =? 0) with false. cbv iota. rewrite Hk.
  unfold sql_limit. change (-1 <? 0) with true. cbv iota.
  unfold select_where, pw_bucket_rows.
  rewrite (filter_ext (fun r => (pe_bucket r =? k) && pw_in_range None None r) (fun e => pe_bucket e =? k)).
  - rewrite (map_ext (fun r => pw_clip None None (prow_event r)) prow_event); [reflexivity|].
    intros r. apply pw_clip_none.
  - intros r. unfold pw_in_range. cbn. apply andb_true_r.
Qed.

Lemma pw_get_events_state : forall c b l st en, fst (pw_step c (GetEvents b l st en)) = c.
Proof.
  intros c b l st en. unfold pw_step. destruct (l =? 0); [reflexivity|].
  destruct (pw_key c b); reflexivity.
Qed.

(* ------------------------------------------------------------------ *)
(* new side *)

(* rowids issued so far are bounded by the sequence, so the next one is fresh *)
Definition SqOk (sq : sqstate) : Prop :=
  Forall (fun r => br_rowid r <= sq_seq_b sq) (sq_buckets sq) /\
  Forall (fun e => er_bucket e <= sq_seq_b sq) (sq_events sq).

(* the rows executemany appends for id-less events es: one row each, ids i+1, i+2, ... *)
Fixpoint ins_rows (rid i : Z) (es : list event) : list erow :=
  match es with
  | [] => []
  | e :: t => mkErow (i + 1) rid (ts e) (ts e + dur e) (data e) :: ins_rows rid (i + 1) t
  end.

Lemma ins_rows_bucket : forall es rid i r, In r (ins_rows rid i es) -> er_bucket r = rid.
Proof.
  induction es as [|e es IH]; cbn; intros rid i r H; [contradiction|].
  destruct H as [<-|H]; [reflexivity|eapply IH; eauto].
Qed.

Lemma ins_rows_length : forall es rid i, length (ins_rows rid i es) = length es.
Proof. induction es; cbn; intros; [reflexivity|f_equal; auto]. Qed.

Lemma ins_rows_ids : forall es rid i r, In r (ins_rows rid i es) -> i < er_id r <= i + Z.of_nat (length es).
Proof.
  induction es as [|e es IH]; intros rid i r H; [contradiction|].
  cbn [ins_rows] in H. cbn [length]. rewrite Nat2Z.inj_succ.
  destruct H as [<-|H]; [cbn; lia|]. apply IH in H. lia.
Qed.

Lemma ins_rows_ids_nodup : forall es rid i, NoDup (map er_id (ins_rows rid i es)).
Proof.
  induction es as [|e es IH]; intros rid i; cbn; constructor; [|apply IH].
  intros H. apply in_map_iff in H. destruct H as [r [E Hr]]. apply ins_rows_ids in Hr. lia.
Qed.

Lemma ins_rows_payload : forall es rid i,
  map payload (map row_event (ins_rows rid i es)) = map payload es.
Proof.
  induction es as [|e es IH]; intros rid i; [reflexivity|].
  cbn [ins_rows map]. rewrite IH. f_equal.
  unfold payload, row_event. cbn. f_equal. f_equal. lia.
Qed.

Lemma executemany_spec : forall es c b rid,
  sql_bucket_rowid c b = Some rid ->
  sq_executemany_insert c b es =
  (with_events c (sq_events c ++ ins_rows rid (sq_seq_e c) es) (sq_seq_e c + Z.of_nat (length es)), Ok ONone).
Proof.
  induction es as [|e es IH]; intros c b rid H.
  - cbn. destruct c; unfold with_events; cbn. rewrite app_nil_r, Z.add_0_r. reflexivity.
  - cbn [sq_executemany_insert]. unfold sql_insert_event. rewrite H.
    rewrite (IH _ b rid); [|exact H].
    unfold with_events. cbn [sq_buckets sq_events sq_seq_b sq_seq_e ins_rows length].
    rewrite <- app_assoc. cbn [app]. rewrite Nat2Z.inj_succ.
    replace (sq_seq_e c + 1 + Z.of_nat (length es)) with (sq_seq_e c + Z.succ (Z.of_nat (length es))) by lia.
    reflexivity.
Qed.

Lemma sq_upserts_stripped : forall es c b, sq_upserts c b (map strip_id es) = c.
Proof. induction es as [|e es IH]; intros c b; [reflexivity|]. cbn. apply IH. Qed.

Lemma filter_no_id_stripped : forall es, filter no_id (map strip_id es) = map strip_id es.
Proof. induction es as [|e es IH]; [reflexivity|]. cbn. f_equal. exact IH. Qed.

Lemma payload_strip : forall es, map payload (map strip_id es) = map payload es.
Proof. intros es. rewrite map_map. reflexivity. Qed.

Lemma fresh_find_none : forall sq b,
  ~ In b (map br_id (sq_buckets sq)) -> find (fun r => br_id r =? b) (sq_buckets sq) = None.
Proof.
  intros sq b H. apply find_none_iff. intros r Hr.
  apply Z.eqb_neq. intros E. apply H. rewrite <- E. apply in_map. exact Hr.
Qed.

Lemma sq_create_fresh : forall sq b m,
  ~ In b (map br_id (sq_buckets sq)) ->
  sq_step sq (CreateBucket b m) =
  (with_buckets sq (sq_buckets sq ++ [mkBrow (sq_seq_b sq + 1) b m]) (sq_seq_b sq + 1), Ok (OMeta b m)).
Proof.
  intros sq b m H. unfold sq_step, sql_insert_bucket.
  assert (E : existsb (fun r => br_id r =? b) (sq_buckets sq) = false).
  { apply existsb_false_iff. intros r Hr. apply Z.eqb_neq. intros E. apply H. rewrite <- E. apply in_map. exact Hr. }
  rewrite E. f_equal.
  unfold sq_get_metadata, sql_select_bucket, with_buckets. cbn [sq_buckets].
  rewrite find_app_none by (apply fresh_find_none; exact H).
  cbn. rewrite Z.eqb_refl. reflexivity.
Qed.

Lemma create_op_ok : forall b m, create_op CREATE_CALL b m = Ok (CreateBucket b m).
Proof. intros b [ty cl ho cr na da]. reflexivity. Qed.

(* the new store after one iteration of the loop for bucket (b, m) with legacy events es *)
Definition sq_after (sq : sqstate) (b : Z) (m : meta) (es : list event) : sqstate :=
  let rid := sq_seq_b sq + 1 in
  mkSq (sq_buckets sq ++ [mkBrow rid b m])
       (sq_events sq ++ ins_rows rid (sq_seq_e sq) es)
       rid (sq_seq_e sq + Z.of_nat (length es)).

(* the events get_events(b, -1) returns, ids stripped *)
Definition copied (pw : pwstate) (k : Z) : list event :=
  map strip_id (map prow_event (pw_order_ts_desc (pw_bucket_rows pw k))).

Lemma run_script_spec : forall pw sq b m k,
  pw_key pw b = Some k ->
  ~ In b (map br_id (sq_buckets sq)) ->
  run_script b m (mkM pw sq None) LOOP_SCRIPT =
  (mkM pw (sq_after sq b m (copied pw k)) (Some (copied pw k)), Ok tt).
Proof.
  intros pw sq b m k Hk Hf. unfold LOOP_SCRIPT.
  cbn [run_script].
  (* create_bucket *)
  unfold run_mstep at 1. rewrite create_op_ok. cbn [ms_sq ms_pw ms_events].
  rewrite sq_create_fresh by exact Hf. cbn [res_unit].
  (* get_events *)
  unfold run_mstep at 1. cbn [ms_sq ms_pw ms_events].
  rewrite (pw_get_events_all pw b k Hk).
  (* strip ids *)
  unfold run_mstep at 1. cbn [ms_sq ms_pw ms_events].
  (* insert_many *)
  unfold run_mstep at 1. cbn [ms_sq ms_pw ms_events].
  fold (copied pw k).
  unfold sq_step. unfold copied at 1 2. rewrite sq_upserts_stripped, filter_no_id_stripped. fold (copied pw k).
  rewrite (executemany_spec _ _ b (sq_seq_b sq + 1)).
  - cbn [res_unit]. unfold sq_after, with_events, with_buckets.
    cbn [sq_buckets sq_events sq_seq_b sq_seq_e]. reflexivity.
  - unfold sql_bucket_rowid, with_buckets. cbn [sq_buckets].
    rewrite find_app_none by (apply fresh_find_none; exact Hf).
    cbn. rewrite Z.eqb_refl. reflexivity.
Qed.

Lemma SqOk_after : forall sq b m es, SqOk sq -> SqOk (sq_after sq b m es).
Proof.
  intros sq b m es [Hb He]. unfold SqOk, sq_after. cbn [sq_buckets sq_events sq_seq_b]. split.
  - apply Forall_app. split.
    + eapply Forall_impl; [|exact Hb]. cbn. intros; lia.
    + constructor; [cbn; lia|constructor].
  - apply Forall_app. split.
    + eapply Forall_impl; [|exact He]. cbn. intros; lia.
    + apply Forall_forall. intros r Hr. apply ins_rows_bucket in Hr. lia.
Qed.

Lemma ids_after : forall sq b m es,
  map br_id (sq_buckets (sq_after sq b m es)) = map br_id (sq_buckets sq) ++ [b].
Proof. intros. unfold sq_after. cbn [sq_buckets]. rewrite map_app. reflexivity. Qed.

Lemma sq_view_after : forall sq b m es b',
  SqOk sq -> ~ In b (map br_id (sq_buckets sq)) ->
  sq_view (sq_after sq b m es) b' =
  if b' =? b then Some (m, map row_event (ins_rows (sq_seq_b sq + 1) (sq_seq_e sq) es))
  else sq_view sq b'.
Proof.
  intros sq b m es b' [Hb He] Hf. unfold sq_view, sq_after. cbn [sq_buckets sq_events].
  destruct (b' =? b) eqn:E.
  - apply Z.eqb_eq in E. subst b'.
    rewrite find_app_none by (apply fresh_find_none; exact Hf).
    cbn [find br_id]. rewrite Z.eqb_refl. cbn [br_meta br_rowid].
    rewrite filter_app.
    rewrite (filter_nil_all _ (sq_events sq)).
    + cbn [app]. rewrite filter_id_all; [reflexivity|].
      intros r Hr. apply ins_rows_bucket in Hr. apply Z.eqb_eq. exact Hr.
    + intros r Hr. apply Z.eqb_neq. rewrite Forall_forall in He. specialize (He r Hr). lia.
  - destruct (find (fun r => br_id r =? b') (sq_buckets sq)) as [r|] eqn:F.
    + rewrite (find_app_some _ _ _ _ F).
      rewrite filter_app.
      rewrite (filter_nil_all _ (ins_rows _ _ _)).
      * rewrite app_nil_r. reflexivity.
      * intros x Hx. apply ins_rows_bucket in Hx. apply Z.eqb_neq.
        apply find_some in F. destruct F as [Hr _]. rewrite Forall_forall in Hb. specialize (Hb r Hr). lia.
    + rewrite (find_app_none _ _ _ F). cbn [find br_id].
      rewrite Z.eqb_sym. rewrite E. reflexivity.
Qed.

(* ------------------------------------------------------------------ *)
(* the loop *)

Lemma migrate_buckets_spec : forall bs pw sq,
  NoDup (map fst bs) ->
  (forall b m, In (b, m) bs ->
     exists r, find (fun r => pb_id r =? b) (pw_buckets pw) = Some r /\ pb_meta r = m /\
               pw_key pw b = Some (pb_key r)) ->
  SqOk sq ->
  (forall b, In b (map fst bs) -> ~ In b (map br_id (sq_buckets sq))) ->
  exists sq',
    migrate_buckets LOOP_SCRIPT pw sq bs = (pw, sq', Ok tt) /\
    SqOk sq' /\
    map br_id (sq_buckets sq') = map br_id (sq_buckets sq) ++ map fst bs /\
    forall b',
      (In b' (map fst bs) ->
         exists m es es', pw_view pw b' = Some (m, es) /\ sq_view sq' b' = Some (m, es') /\
                          Permutation (map payload es') (map payload es)) /\
      (~ In b' (map fst bs) -> sq_view sq' b' = sq_view sq b').
Proof.
  induction bs as [|[b m] bs IH]; intros pw sq ND Hpw Hok Hfresh.
  - exists sq. split; [reflexivity|]. split; [exact Hok|]. split.
    + cbn. rewrite app_nil_r. reflexivity.
    + intros b'. split; [intros []|reflexivity].
  - cbn [map fst] in ND. inversion ND as [|? ? Hnb ND']; subst.
    destruct (Hpw b m (or_introl eq_refl)) as [r [Hfind [Hmeta Hkey]]].
    assert (Hf : ~ In b (map br_id (sq_buckets sq))) by (apply Hfresh; left; reflexivity).
    cbn [migrate_buckets]. rewrite (run_script_spec pw sq b m (pb_key r) Hkey Hf).
    cbn [ms_pw ms_sq].
    set (sq1 := sq_after sq b m (copied pw (pb_key r))).
    destruct (IH pw sq1) as [sq' [Hrun [Hok' [Hids Hviews]]]].
    + exact ND'.
    + intros b0 m0 H0. apply Hpw. right. exact H0.
    + apply SqOk_after. exact Hok.
    + intros b0 H0. unfold sq1. rewrite ids_after. intros Hin. apply in_app_or in Hin.
      destruct Hin as [Hin|[<-|[]]].
      * apply (Hfresh b0); [right; exact H0|exact Hin].
      * apply Hnb. exact H0.
    + exists sq'. split; [exact Hrun|]. split; [exact Hok'|]. split.
      * rewrite Hids. unfold sq1. rewrite ids_after. rewrite <- app_assoc. reflexivity.
      * intros b'. split.
        -- intros [<-|Hin].
           ++ cbn [fst] in *. destruct (Hviews b) as [_ Hrest]. rewrite (Hrest Hnb).
              unfold sq1. rewrite sq_view_after by assumption. rewrite Z.eqb_refl.
              unfold pw_view. rewrite Hfind. rewrite Hmeta.
              eexists m, _, _. split; [reflexivity|]. split; [reflexivity|].
              rewrite ins_rows_payload. unfold copied. rewrite payload_strip.
              apply Permutation_map. apply Permutation_map.
              unfold pw_order_ts_desc, pw_bucket_rows. apply sort_by_perm.
           ++ destruct (Hviews b') as [Hfirst _]. apply Hfirst. exact Hin.
        -- intros Hnot. destruct (Hviews b') as [_ Hrest].
           rewrite Hrest by (intros Hin; apply Hnot; right; exact Hin).
           unfold sq1. rewrite sq_view_after by assumption.
           destruct (b' =? b) eqn:E; [|reflexivity].
           apply Z.eqb_eq in E. exfalso. apply Hnot. left. cbn. symmetry. exact E.
Qed.

(* ------------------------------------------------------------------ *)
(* peewee_v2_to_sqlite_v1 *)

Lemma pw_view_open : forall pw b, pw_view (pw_open pw) b = pw_view pw b.
Proof. reflexivity. Qed.

Theorem migrate_lossless : forall pw,
  PwInv pw ->
  exists sq,
    migrate pw sq_init = (pw_open pw, sq, Ok tt) /\
    map br_id (sq_buckets sq) = map pb_id (pw_buckets pw) /\
    forall b,
      match pw_view pw b with
      | Some (m, es) => exists es', sq_view sq b = Some (m, es') /\
                                    Permutation (map payload es') (map payload es)
      | None => sq_view sq b = None
      end.
Proof.
  intros pw Hinv. unfold migrate, migrate_with.
  change (pw_step (pw_open pw) Buckets)
    with (pw_open pw, @Ok out (OBuckets (map (fun r => (pb_id r, pb_meta r)) (pw_buckets pw)))).
  cbv iota beta.
  set (bs := map (fun r => (pb_id r, pb_meta r)) (pw_buckets pw)).
  assert (Hfst : map fst bs = map pb_id (pw_buckets pw)).
  { unfold bs. rewrite map_map. reflexivity. }
  destruct (migrate_buckets_spec bs (pw_open pw) sq_init) as [sq [Hrun [_ [Hids Hviews]]]].
  - rewrite Hfst. exact Hinv.
  - intros b m Hin. unfold bs in Hin. apply in_map_iff in Hin. destruct Hin as [r [E Hr]].
    inversion E; subst. exists r. split; [|split; [reflexivity|]].
    + apply (find_unique pb_id); assumption.
    + unfold pw_key, pw_open, refresh_keys. cbn [pw_keys]. rewrite aget_keys.
      rewrite (find_unique pb_id) by assumption. reflexivity.
  - split; constructor.
  - intros b _ [].
  - exists sq. split; [exact Hrun|]. split; [rewrite Hids, Hfst; reflexivity|].
    intros b. destruct (Hviews b) as [Hin Hout].
    destruct (pw_view pw b) as [[m es]|] eqn:E.
    + assert (Hb : In b (map fst bs)).
      { rewrite Hfst. unfold pw_view in E.
        destruct (find (fun r => pb_id r =? b) (pw_buckets pw)) as [r|] eqn:F; [|discriminate].
        apply find_some in F. destruct F as [Hr Eb]. apply Z.eqb_eq in Eb. rewrite <- Eb. apply in_map. exact Hr. }
      destruct (Hin Hb) as [m' [es0 [es' [Hv [Hs Hp]]]]].
      rewrite pw_view_open, E in Hv. inversion Hv; subst. exists es'. split; assumption.
    + rewrite Hout; [reflexivity|].
      rewrite Hfst. intros Hb. unfold pw_view in E.
      destruct (find (fun r => pb_id r =? b) (pw_buckets pw)) as [r|] eqn:F; [discriminate|].
      rewrite find_none_iff in F. apply in_map_iff in Hb. destruct Hb as [r [Er Hr]].
      specialize (F r Hr). cbn in F. rewrite Er, Z.eqb_refl in F. discriminate.
Qed.

(* none duplicated, none dropped: every (instant, duration, data) triple occurs in the new
   bucket exactly as often as in the legacy bucket *)
Definition payload_eq_dec : forall a b : Z * Z * Z, {a = b} + {a <> b}.
Proof. repeat decide equality. Defined.

Corollary migrate_counts : forall pw,
  PwInv pw ->
  exists sq,
    migrate pw sq_init = (pw_open pw, sq, Ok tt) /\
    forall b m es, pw_view pw b = Some (m, es) ->
      exists es', sq_view sq b = Some (m, es') /\
                  length es' = length es /\
                  forall p, count_occ payload_eq_dec (map payload es') p =
                            count_occ payload_eq_dec (map payload es) p.
Proof.
  intros pw Hinv. destruct (migrate_lossless pw Hinv) as [sq [Hrun [_ Hv]]].
  exists sq. split; [exact Hrun|]. intros b m es E. specialize (Hv b). rewrite E in Hv.
  destruct Hv as [es' [Hs Hp]]. exists es'. split; [exact Hs|]. split.
  - apply Permutation_length in Hp. rewrite !map_length in Hp. exact Hp.
  - intros p. apply Permutation_count_occ. exact Hp.
Qed.

(* ------------------------------------------------------------------ *)
(* the legacy store is only read: whatever the script, whatever happens on the new side *)

Lemma run_mstep_pw : forall b m s st, ms_pw (fst (run_mstep b m s st)) = ms_pw s.
Proof.
  intros b m s st. destruct st as [cc|limit| |]; cbn [run_mstep].
  - destruct (create_op cc b m); [|reflexivity|reflexivity].
    destruct (sq_step (ms_sq s) a). reflexivity.
  - pose proof (pw_get_events_state (ms_pw s) b limit None None) as H.
    destruct (pw_step (ms_pw s) (GetEvents b limit None None)) as [pw' r]. cbn [fst] in H. subst pw'.
    destruct r as [o| |]; [destruct o|..]; reflexivity.
  - destruct (ms_events s); reflexivity.
  - destruct (ms_events s); [|reflexivity]. destruct (sq_step (ms_sq s) (InsertMany b l)). reflexivity.
Qed.

Lemma run_script_pw : forall script b m s, ms_pw (fst (run_script b m s script)) = ms_pw s.
Proof.
  induction script as [|st script IH]; intros b m s; [reflexivity|].
  cbn [run_script]. pose proof (run_mstep_pw b m s st) as H.
  destruct (run_mstep b m s st) as [s' r]. cbn [fst] in H.
  destruct r; [rewrite IH; exact H|exact H|exact H].
Qed.

Lemma migrate_buckets_pw : forall script bs pw sq, fst (fst (migrate_buckets script pw sq bs)) = pw.
Proof.
  induction bs as [|[b m] bs IH]; intros pw sq; [reflexivity|].
  cbn [migrate_buckets]. pose proof (run_script_pw script b m (mkM pw sq None)) as H.
  destruct (run_script b m (mkM pw sq None) script) as [s' r]. cbn [fst ms_pw] in H.
  destruct r; [rewrite IH; exact H|exact H|exact H].
Qed.

Theorem migrate_readonly : forall script pw sq,
  fst (fst (migrate_with script pw sq)) = pw_open pw.
Proof.
  intros script pw sq. unfold migrate_with.
  change (pw_step (pw_open pw) Buckets)
    with (pw_open pw, @Ok out (OBuckets (map (fun r => (pb_id r, pb_meta r)) (pw_buckets pw)))).
  cbv iota beta. apply migrate_buckets_pw.
Qed.

Corollary migrate_tables_unchanged : forall pw sq,
  let pw' := fst (fst (migrate pw sq)) in
  pw_buckets pw' = pw_buckets pw /\ pw_events pw' = pw_events pw.
Proof. intros pw sq. cbv zeta. unfold migrate. rewrite migrate_readonly. split; reflexivity. Qed.
