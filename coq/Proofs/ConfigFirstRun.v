(* First-run neutrality: the file that load_config_toml writes when none exists
   (_comment_out_toml of the defaults) reads back as a skeleton of empty tables of the
   defaults, and merging a skeleton into the defaults changes nothing. *)
From AwVerif Require Import Base.Prelude Model.Config Proofs.ConfigProofs Proofs.ConfigIO.

(* ------------------------------------------------------------------------------------ *)
(* vocabulary *)

(* every value of the document is written on one line: no line of a multi-line value *)
Definition one_line (l : line) : Prop := match l with Other _ => False | _ => True end.
Definition one_line_values (doc : list line) : Prop := Forall one_line doc.

Fixpoint headers (doc : list line) : list (list Z) :=
  match doc with
  | [] => []
  | Header p :: r => p :: headers r
  | _ :: r => headers r
  end.

Fixpoint array_headers (doc : list line) : list (list Z) :=
  match doc with
  | [] => []
  | ArrayHeader p :: r => p :: array_headers r
  | _ :: r => array_headers r
  end.

(* p names a table of t that is reached through tables only (not through an element of an
   array of tables) *)
Fixpoint tab_path (p : list Z) (t : table) : Prop :=
  match p with
  | [] => True
  | k :: p' => match lookup k t with Some (Tab t') => tab_path p' t' | _ => False end
  end.

(* reading a document that consists of [table] headers, comments and blank lines only *)
Fixpoint skel_from (s : table) (hs : list (list Z)) : res table :=
  match hs with
  | [] => Ok s
  | [] :: _ => Err ParseError
  | p :: hs' => bind (at_path p (fun t => Ok t) s) (fun s' => skel_from s' hs')
  end.

(* ------------------------------------------------------------------------------------ *)
(* the commented-out document is read as the fold of its [table] headers *)

Lemma comment_line_cases : forall l,
  one_line l ->
  (exists p, l = Header p /\ comment_line l = Header p) \/
  ((forall p, l <> Header p) /\ (comment_line l = Blank \/ comment_line l = Comment)).
Proof.
  intros l H. destruct l; cbn in *; try contradiction.
  - right. split; [discriminate|now left].
  - right. split; [discriminate|now right].
  - left. now exists path.
  - right. split; [discriminate|now right].
  - right. split; [discriminate|now right].
Qed.

Lemma parse_commented_from : forall doc s cur,
  one_line_values doc ->
  bind (parse_from (s, cur) (comment_out doc)) (fun st => Ok (fst st)) = skel_from s (headers doc).
Proof.
  induction doc as [|l doc IH]; intros s cur H1.
  - reflexivity.
  - inversion H1 as [|? ? Hl Hdoc]; subst.
    cbn [comment_out map parse_from].
    destruct (comment_line_cases l Hl) as [[p [-> Hc]]|[Hnh Hc]].
    + rewrite Hc. cbn [headers parse_step].
      destruct p as [|k p]; [reflexivity|].
      cbn [skel_from].
      destruct (at_path (k :: p) (fun t => Ok t) s) as [s'| |]; cbn [bind]; [|reflexivity|reflexivity].
      apply IH. assumption.
    + assert (Hh : headers (l :: doc) = headers doc).
      { destruct l; try reflexivity. exfalso. now apply (Hnh path). }
      rewrite Hh.
      destruct Hc as [Hc|Hc]; rewrite Hc; cbn [parse_step bind]; apply IH; assumption.
Qed.

Lemma parse_commented : forall doc,
  one_line_values doc ->
  parse_lines (comment_out doc) = skel_from [] (headers doc).
Proof. intros doc H. unfold parse_lines. now apply parse_commented_from. Qed.

(* a document that parses has no empty [] header *)
Lemma parse_ok_headers_nonempty : forall doc st st',
  parse_from st doc = Ok st' -> Forall (fun p => p <> []) (headers doc).
Proof.
  induction doc as [|l doc IH]; intros st st' H; [constructor|].
  cbn [parse_from] in H.
  destruct (parse_step st l) as [st1| |] eqn:E; cbn [bind] in H; try discriminate.
  destruct l; cbn [headers]; try (now apply (IH st1 st')).
  constructor; [|now apply (IH st1 st')].
  destruct st as [root cur]. cbn [parse_step] in E. destruct path; [discriminate|discriminate].
Qed.

(* ------------------------------------------------------------------------------------ *)
(* sub-skeletons are closed under opening a table that the big table has *)

Lemma sub_skel_app : forall s1 s2 t, sub_skel s1 t -> sub_skel s2 t -> sub_skel (s1 ++ s2) t.
Proof.
  intros s1 s2 t H1 H2. induction H1; cbn [app]; [assumption|].
  econstructor; eauto.
Qed.

Lemma sub_skel_lookup : forall s t k v,
  sub_skel s t -> lookup k s = Some v ->
  exists s1 t1, v = Tab s1 /\ lookup k t = Some (Tab t1) /\ sub_skel s1 t1.
Proof.
  intros s t k v H. induction H as [t|k0 s1 t1 s t Hl H1 _ H2 IH2]; cbn [lookup]; intros Hk.
  - discriminate.
  - destruct (k0 =? k) eqn:E.
    + apply Z.eqb_eq in E. subst k0. inversion Hk; subst. now exists s1, t1.
    + now apply IH2.
Qed.

Lemma sub_skel_set_key : forall s t k s1 t1,
  sub_skel s t -> lookup k t = Some (Tab t1) -> sub_skel s1 t1 ->
  sub_skel (set_key k (Tab s1) s) t.
Proof.
  intros s t k s1 t1 H Hl H1. induction H as [t|k0 s0 t0 s t Hl0 H0 _ H2 IH2]; cbn [set_key].
  - constructor.
  - destruct (k0 =? k) eqn:E.
    + apply Z.eqb_eq in E. subst k0. econstructor; eauto.
    + econstructor; eauto.
Qed.

Lemma at_path_skel : forall p s t,
  sub_skel s t -> tab_path p t ->
  exists s', at_path p (fun x => Ok x) s = Ok s' /\ sub_skel s' t.
Proof.
  induction p as [|k p IH]; intros s t Hs Hp.
  - exists s. split; [reflexivity|assumption].
  - cbn [tab_path] in Hp. destruct (lookup k t) as [[l|t1|xs]|] eqn:Ekt; try contradiction.
    cbn [at_path]. destruct (lookup k s) as [v|] eqn:Eks.
    + destruct (sub_skel_lookup _ _ _ _ Hs Eks) as [s1 [t1' [-> [Hl Hs1]]]].
      rewrite Ekt in Hl. inversion Hl; subst t1'.
      destruct (IH s1 t1 Hs1 Hp) as [s1' [Hat Hs1']].
      rewrite Hat. cbn [bind]. eexists. split; [reflexivity|].
      now apply sub_skel_set_key with t1.
    + destruct (IH [] t1 (ss_nil t1) Hp) as [s1' [Hat Hs1']].
      rewrite Hat. cbn [bind]. eexists. split; [reflexivity|].
      apply sub_skel_app; [assumption|].
      econstructor; eauto. constructor.
Qed.

Lemma skel_from_sub_skel : forall hs s t,
  sub_skel s t ->
  Forall (fun p => p <> []) hs ->
  Forall (fun p => tab_path p t) hs ->
  exists s', skel_from s hs = Ok s' /\ sub_skel s' t.
Proof.
  induction hs as [|p hs IH]; intros s t Hs Hne Htp.
  - exists s. split; [reflexivity|assumption].
  - inversion Hne as [|? ? Hp Hne']; subst. inversion Htp as [|? ? Hpt Htp']; subst.
    destruct p as [|k p]; [contradiction|]. cbn [skel_from].
    destruct (at_path_skel (k :: p) s t Hs Hpt) as [s1 [Hat Hs1]].
    rewrite Hat. cbn [bind]. now apply IH.
Qed.

(* ------------------------------------------------------------------------------------ *)
(* first-run neutrality *)

Lemma first_run_neutral : forall doc t,
  one_line_values doc ->
  parse_lines doc = Ok t ->
  Forall (fun p => tab_path p t) (headers doc) ->
  exists s, parse_lines (comment_out doc) = Ok s /\ merge t s = t.
Proof.
  intros doc t H1 Hparse Htp.
  rewrite parse_commented by assumption.
  assert (Hne : Forall (fun p => p <> []) (headers doc)).
  { unfold parse_lines in Hparse.
    destruct (parse_from ([], []) doc) as [st| |] eqn:E; try discriminate.
    now apply (parse_ok_headers_nonempty doc _ _ E). }
  destruct (skel_from_sub_skel (headers doc) [] t (ss_nil t) Hne Htp) as [s [Hs Hsub]].
  exists s. split; [assumption|]. now apply merge_sub_skel.
Qed.

(* The same through the I/O script on the line model: the first load (no file) returns the
   defaults and writes a file; every later load leaves that file alone and returns the
   defaults again. *)
Lemma first_run_then_later_loads : forall doc t,
  one_line_values doc ->
  parse_lines doc = Ok t ->
  Forall (fun p => tab_path p t) (headers doc) ->
  let r1 := load_lines doc None in
  lr_value r1 = Ok t /\
  lr_file r1 = Some (comment_out doc) /\
  forall r, lr_file r = lr_file r1 ->
    let r2 := load_lines doc (lr_file r) in
    lr_value r2 = Ok t /\ lr_file r2 = lr_file r1 /\ writes (lr_trace r2) = [].
Proof.
  intros doc t H1 Hparse Htp.
  destruct (first_run_neutral doc t H1 Hparse Htp) as [s [Hs Hm]].
  unfold load_lines, load_config. rewrite Hparse. cbn.
  split; [reflexivity|]. split; [reflexivity|].
  intros r Hr. rewrite Hr, Hs. cbn. rewrite Hm. repeat split; reflexivity.
Qed.

(* ------------------------------------------------------------------------------------ *)
(* The statement without the tab_path hypothesis is false of the current code: a [table]
   header below an [[array-of-tables]] header stays live in the written file. *)

Definition aot_witness : list line :=
  [ArrayHeader [1]; KeyVal [2] (Leaf 10); Header [1; 3]; KeyVal [4] (Leaf 11)].

Lemma first_run_not_neutral_witness :
  one_line_values aot_witness /\
  parse_lines aot_witness
    = Ok [(1, Aot [Tab [(2, Leaf 10); (3, Tab [(4, Leaf 11)])]])] /\
  parse_lines (comment_out aot_witness) = Ok [(1, Tab [(3, Tab [])])] /\
  merge [(1, Aot [Tab [(2, Leaf 10); (3, Tab [(4, Leaf 11)])]])] [(1, Tab [(3, Tab [])])]
    = [(1, Tab [(3, Tab [])])].
Proof.
  split; [repeat constructor|]. vm_compute. repeat split; reflexivity.
Qed.

Lemma first_run_neutral_refuted :
  exists doc t s,
    one_line_values doc /\ parse_lines doc = Ok t /\
    parse_lines (comment_out doc) = Ok s /\ merge t s <> t.
Proof.
  destruct first_run_not_neutral_witness as [H1 [H2 [H3 H4]]].
  eexists _, _, _. repeat split; [exact H1|exact H2|exact H3|].
  rewrite H4. discriminate.
Qed.
