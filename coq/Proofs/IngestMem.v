(* C07 on the memory back end model: the three per-operation lemmas, proved from the
   definitions of Model/MemStore.v, and the instantiation of the generic theorem.
   The memory model needs no global representation invariant here: ids are issued per
   bucket and `replace` is addressed by (bucket, id). *)
From Coq Require Import Permutation Sorted ZifyBool.
From AwVerif Require Import Base.Prelude Model.Heartbeat Model.StoreBase Model.MemStore Model.Ingest
  Proofs.HeartbeatProofs Proofs.IngestBase.

Lemma aget_aset_same : forall {V} b (v : V) c, aget b (aset b v c) = Some v.
Proof.
  intros V b v c. induction c as [|[k w] t IH]; cbn [aset aget].
  - rewrite Z.eqb_refl. reflexivity.
  - destruct (k =? b) eqn:E; cbn [aget]; [rewrite Z.eqb_refl; reflexivity|]. rewrite E. exact IH.
Qed.

Lemma aget_aset_other : forall {V} b b' (v : V) c, b' <> b -> aget b' (aset b v c) = aget b' c.
Proof.
  intros V b b' v c Hne. induction c as [|[k w] t IH]; cbn [aset aget].
  - destruct (b =? b') eqn:E; [lia|reflexivity].
  - destruct (k =? b) eqn:E; cbn [aget].
    + assert (k = b) by lia. subst k. destruct (b =? b') eqn:E2; [lia|reflexivity].
    + destruct (k =? b'); [reflexivity|exact IH].
Qed.

Lemma sort_ts_incr : forall es, incr_ts es -> sort_by ts es = es.
Proof. intros es H. apply sort_by_of_perm; [exact H|apply Permutation_refl]. Qed.

Lemma mem_next_id_fresh : forall es, ~ In (Some (mem_next_id es)) (map eid es).
Proof.
  intros es Hin. apply in_map_iff in Hin. destruct Hin as (x & Hx & Hin).
  destruct es as [|e t]; [destruct Hin|]. cbn [mem_next_id] in Hx.
  assert (H : id_or_0 x <= list_max (id_or_0 e) (map id_or_0 t)).
  { apply list_max_ge. destruct Hin as [<-|Hin]; [left; reflexivity|right; apply in_map; exact Hin]. }
  unfold id_or_0 at 1 in H. rewrite Hx in H. lia.
Qed.

Lemma id_matches_other : forall i x, eid x <> Some i -> id_matches (Some i) x = false.
Proof.
  intros i x H. unfold id_matches, option_eqb. destruct (eid x) as [j|]; [|reflexivity].
  destruct (j =? i) eqn:E; [|reflexivity]. exfalso. apply H. f_equal. lia.
Qed.

Lemma mem_replace_events_last : forall es l i e,
  NoDup (map eid (es ++ [l])) -> eid l = Some i ->
  mem_replace_events (Some i) e (es ++ [l]) = es ++ [set_eid e (Some i)].
Proof.
  intros es l i e Hn Hl. unfold mem_replace_events. rewrite map_app. cbn [map]. f_equal.
  - apply map_id_on. intros x Hx. rewrite id_matches_other; [reflexivity|].
    rewrite map_app in Hn. cbn [map] in Hn. apply NoDup_snoc_notin in Hn.
    intros E. apply Hn. rewrite Hl, <- E. apply in_map. exact Hx.
  - unfold id_matches. rewrite Hl. cbn [option_eqb]. rewrite Z.eqb_refl. reflexivity.
Qed.

Definition mem_inv (c : mstate) : Prop := True.
Definition mem_rd (e : event) : Prop := True.

Lemma mem_read : forall st b m es,
  mem_inv st -> mem_view st b = Some (m, es) -> incr_ts es -> Forall mem_rd es ->
  mem_step st (GetEvents b 1 None None) = (st, Ok (OEvents (firstn 1 (rev es)))).
Proof.
  intros st b m es _ Hv Hs _. unfold mem_view in Hv. cbn [mem_step]. rewrite Hv.
  unfold mem_get_events. cbn [opt_filter]. rewrite sort_ts_incr by exact Hs. reflexivity.
Qed.

Lemma mem_replace_last : forall st b m es l i e,
  mem_inv st -> mem_view st b = Some (m, es ++ [l]) -> incr_ts (es ++ [l]) -> ids_ok (es ++ [l]) ->
  eid l = Some i ->
  exists st' o, mem_step st (ReplaceLast b e) = (st', Ok o) /\
                mem_view st' b = Some (m, es ++ [set_eid e (Some i)]) /\
                frame mem_view st st' b /\ mem_inv st'.
Proof.
  intros st b m es l i e _ Hv Hs [Hn _] Hl. unfold mem_view in *. cbn [mem_step]. rewrite Hv.
  rewrite sort_ts_incr by exact Hs. rewrite last_opt_snoc. unfold mem_replace. rewrite Hv, Hl.
  rewrite mem_replace_events_last by assumption.
  eexists _, _. split; [reflexivity|]. unfold mem_set_events. split; [apply aget_aset_same|].
  split; [|exact I]. intros b' Hb. unfold mem_view. apply aget_aset_other. exact Hb.
Qed.

Lemma mem_insert : forall st b m es e,
  mem_inv st -> mem_view st b = Some (m, es) -> eid e = None ->
  exists st' o i, mem_step st (InsertOne b e) = (st', Ok o) /\
                  mem_view st' b = Some (m, es ++ [set_eid e (Some i)]) /\
                  ~ In (Some i) (map eid es) /\ frame mem_view st st' b /\ mem_inv st'.
Proof.
  intros st b m es e _ Hv He. unfold mem_view in *. cbn [mem_step]. unfold mem_insert_one. rewrite He, Hv.
  eexists _, _, (mem_next_id es). split; [reflexivity|]. unfold mem_set_events.
  split; [apply aget_aset_same|]. split; [apply mem_next_id_fresh|]. split; [|exact I].
  intros b' Hb. unfold mem_view. apply aget_aset_other. exact Hb.
Qed.

Lemma mem_rd_eid : forall e i, mem_rd e -> mem_rd (set_eid e i).
Proof. intros; exact I. Qed.
Lemma mem_rd_merge : forall l h p m, mem_rd l -> heartbeat_merge l h p = Some m -> mem_rd m.
Proof. intros; exact I. Qed.

Lemma all_no_id_rd : forall stream,
  Forall (fun h => eid h = None) stream -> Forall (fun h => eid h = None /\ mem_rd h) stream.
Proof. intros stream H. eapply Forall_impl; [|exact H]. intros a Ha. split; [exact Ha|exact I]. Qed.

(* ---- the property on the memory model ---- *)

Lemma mem_ingest_eq_reduce : forall st b p m stream,
  mem_view st b = Some (m, []) ->
  Forall (fun h => eid h = None) stream ->
  StronglySorted (fun a c => ts a < ts c) stream ->
  exists st' o es',
    ingest_stream mem_step st b p stream = (st', Ok o) /\
    mem_view st' b = Some (m, es') /\
    map strip_id es' = heartbeat_reduce stream p /\
    (forall b', b' <> b -> mem_view st' b' = mem_view st b').
Proof.
  intros st b p m stream Hv Hid Hs.
  destruct (ingest_eq_reduce mem_step mem_view mem_inv mem_rd mem_rd_eid mem_rd_merge
              mem_read mem_replace_last mem_insert b p m stream st I Hv (all_no_id_rd _ Hid) Hs)
    as (st' & o & es' & H1 & H2 & H3 & H4 & _).
  exists st', o, es'. tauto.
Qed.

Lemma mem_earlier_untouched : forall st b p m es hb,
  mem_view st b = Some (m, es) ->
  StronglySorted (fun a c => ts a < ts c) es ->
  NoDup (map eid es) -> Forall (fun e => eid e <> None) es ->
  eid hb = None ->
  exists st' o es',
    ingest_step mem_step st b p hb = (st', Ok o) /\ mem_view st' b = Some (m, es') /\
    (forall b', b' <> b -> mem_view st' b' = mem_view st b') /\
    ((exists x, es' = es ++ [x] /\ ts x = ts hb /\ dur x = dur hb /\ data x = data hb) \/
     (exists old l x, es = old ++ [l] /\ es' = old ++ [x] /\
                      eid x = eid l /\ ts x = ts l /\ data x = data l /\ dur l <= dur x)).
Proof.
  intros st b p m es hb Hv Hs Hn Hsome Hid.
  destruct (ingest_step_ok mem_step mem_view mem_inv mem_rd mem_read mem_replace_last mem_insert
              st b p hb m es I Hv Hs (conj Hn Hsome)) as (st' & o & es' & H1 & H2 & H3 & _ & H5);
    [apply Forall_forall; intros; exact I|exact Hid|].
  exists st', o, es'. split; [exact H1|]. split; [exact H2|]. split; [exact H3|].
  eapply step_shape_untouched. exact H5.
Qed.
