(* The separation invariant on states of the MemHeap model: every operation of
   memory.py and every legitimate caller action preserves it, fuel never runs out, caller
   actions never change what the store contains, reads hand out trees equal to the
   stored ones. *)
From AwVerif Require Import Base.Prelude Model.MemHeap
  Proofs.MemHeapBase Proofs.MemHeapCopy Proofs.MemHeapFrame.
From Coq Require Import Arith Relations.
Local Open Scope nat_scope.
Local Arguments deepcopy : simpl never.
Local Arguments content_of : simpl never.
Local Arguments alloc : simpl never.

Definition Sep (s : state) : Prop := Sep2 (heap_of s) (store_roots s) (held s).

(* what a caller action must respect: it only touches and stores what it can reach, and
   it keeps its data acyclic *)
Definition caller_ok (s : state) (a : action) : Prop :=
  match a with
  | CallerAlloc c => forall k, In k (children c) -> reach (heap_of s) (held s) k
  | CallerWrite l c =>
      reach (heap_of s) (held s) l /\
      forall k, In k (children c) -> reach (heap_of s) (held s) k /\ ~ rt (heap_of s) k l
  | _ => True
  end.

Definition post (P : state * ret -> Prop) (o : res (state * ret)) : Prop :=
  match o with Ok sr => P sr | Err _ => True | OutOfFuel => False end.

Lemma post_impl : forall (P Q : state * ret -> Prop) o, (forall x, P x -> Q x) -> post P o -> post Q o.
Proof. intros P Q [x|c|]; cbn; auto. Qed.

(* ------------------------------------------------------------------------- *)
(* small facts *)

Lemma Sep_init : Sep init.
Proof.
  constructor; cbn.
  - intros l c k L. destruct l; discriminate.
  - intros l T. destruct (tc_first _ _ _ T) as (k & (c & L & _) & _). destruct l; discriminate.
  - intros r [].
  - intros r [].
  - intros l (r & [] & _).
Qed.

Lemma Sep2_sub : forall h S C S' C', Sep2 h S C -> incl S' S -> incl C' C -> Sep2 h S' C'.
Proof.
  intros h S C S' C' SP IS IC.
  apply Sep2_weaken with (S := S); [|intros r I; apply reach_root; auto].
  apply Sep2_sym. apply Sep2_weaken with (S := C); [|intros r I; apply reach_root; auto].
  now apply Sep2_sym.
Qed.

Lemma in_store_roots : forall st r,
  In r (flat_map bucket_roots st) <-> exists b, In b st /\ In r (bucket_roots b).
Proof. intros. apply in_flat_map. Qed.

Lemma find_bucket_some : forall st b bk, find_bucket st b = Some bk -> In bk st /\ b_id bk = b.
Proof.
  unfold find_bucket. intros st b bk H. apply find_some in H. destruct H as [I E].
  split; auto. now apply Z.eqb_eq.
Qed.

Lemma bucket_roots_in : forall s b bk r,
  find_bucket (store s) b = Some bk -> In r (bucket_roots bk) -> In r (store_roots s).
Proof.
  intros s b bk r F I. apply in_store_roots. exists bk. split; auto.
  now apply find_bucket_some in F.
Qed.

Lemma roots_set_bucket : forall st nb r,
  In r (flat_map bucket_roots (set_bucket st nb)) ->
  In r (flat_map bucket_roots st) \/ In r (bucket_roots nb).
Proof.
  induction st as [|x st IH]; intros nb r I; cbn [set_bucket] in I; auto.
  destruct (Z.eqb (b_id x) (b_id nb)); cbn [flat_map] in *; apply in_app_or in I.
  - destruct I as [I|I]; auto. left. apply in_or_app. auto.
  - destruct I as [I|I]; [left; apply in_or_app; auto|].
    destruct (IH _ _ I); auto. left. apply in_or_app. auto.
Qed.

Lemma roots_put_bucket : forall st nb r,
  In r (flat_map bucket_roots (put_bucket st nb)) ->
  In r (flat_map bucket_roots st) \/ In r (bucket_roots nb).
Proof.
  unfold put_bucket. intros st nb r I. destruct (find_bucket st (b_id nb)).
  - now apply roots_set_bucket.
  - rewrite flat_map_app in I. apply in_app_or in I. destruct I as [I|I]; auto.
    cbn in I. rewrite app_nil_r in I. auto.
Qed.

Lemma roots_del_bucket : forall st b r,
  In r (flat_map bucket_roots (del_bucket st b)) -> In r (flat_map bucket_roots st).
Proof.
  unfold del_bucket. intros st b r I. apply in_store_roots in I. destruct I as (x & I & R).
  apply filter_In in I. apply in_store_roots. exists x. tauto.
Qed.

Lemma in_set_nth : forall {X} (l : list X) n x y, In y (set_nth l n x) -> In y l \/ y = x.
Proof.
  induction l as [|a l IH]; destruct n; cbn; intros x y I; auto.
  - destruct I; auto.
  - destruct I as [I|I]; auto. destruct (IH _ _ _ I); auto.
Qed.

Lemma in_remove_nth : forall {X} (l : list X) n y, In y (remove_nth l n) -> In y l.
Proof.
  induction l as [|a l IH]; destruct n; cbn; intros y I; auto.
  destruct I as [I|I]; auto. right. eapply IH; eauto.
Qed.

Lemma map_res_view_noof : forall h l, map_res (view h) l <> OutOfFuel.
Proof.
  induction l as [|x l IH]; cbn; [discriminate|].
  unfold view at 1. destruct (lookup h x) as [[[i t d|p] ks]|]; cbn; try discriminate.
  destruct (map_res (view h) l); cbn; try discriminate. congruence.
Qed.

Lemma fresh_rt : forall h h' a b,
  fresh_closed h h' -> length h <= a -> rt h' a b -> length h <= b.
Proof.
  intros h h' a b F A R. apply clos_rt_rtn1 in R. induction R; auto.
  destruct H as (c & L & I). apply (F _ _ _ L IHR I).
Qed.

Lemma wf_content_store_ext : forall h h' st,
  wf h -> allocated h (flat_map bucket_roots st) -> ext h h' ->
  map (bucket_content h') st = map (bucket_content h) st.
Proof.
  intros h h' st W A E. apply map_ext_in. intros b I. unfold bucket_content.
  assert (R : forall r, In r (bucket_roots b) -> content_of h' r = content_of h r).
  { intros r Ir. assert (B : r < length h) by (apply A; apply in_store_roots; eauto).
    destruct (content_of_ok _ _ W B) as (t & T). rewrite T. eapply content_of_ext; eauto. }
  f_equal; [f_equal; apply R; cbn; auto|].
  apply map_ext_in. intros r Ir. apply R. cbn; auto.
Qed.

(* ------------------------------------------------------------------------- *)
(* metadata operations *)

Lemma create_bucket_Sep : forall s b p d, Sep s -> post (fun sr => Sep (fst sr)) (create_bucket s b p d).
Proof.
  unfold Sep, create_bucket. intros s b p d SP.
  assert (STEP : post (fun _ => True) (Ok (s, RNone)) ->
    match (match d with
           | Some d0 => deepcopy (heap_of s) d0
           | None => Ok (alloc (heap_of s) (Cell (TNode EMPTY_DICT) []))
           end) with
    | Ok hd => Sep2 (fst hd) (store_roots s ++ [snd hd]) (held s)
    | Err _ => True
    | OutOfFuel => False
    end).
  { intros _. destruct d as [d0|].
    - pose proof (deepcopy_cases (heap_of s) d0 (Sep2_wf _ _ _ SP)) as D.
      destruct (deepcopy (heap_of s) d0) as [[h1 d1]| |]; cbn in *; auto.
      eapply Sep2_copy; eauto.
    - cbn. apply Sep2_alloc; auto. intros k []. }
  specialize (STEP I).
  destruct (match d with Some d0 => _ | None => _ end) as [[h1 d1]| |]; cbn in *; auto.
  pose proof (Sep2_alloc h1 _ _ (Cell (TNode p) [d1]) STEP) as A.
  eapply Sep2_sub; [apply A| |apply incl_refl].
  - cbn. intros k [<-|[]]. apply reach_root. apply in_or_app. cbn; auto.
  - intros r Ir. apply roots_put_bucket in Ir. cbn in Ir.
    destruct Ir as [Ir|[<-|[]]].
    + apply in_or_app. left. apply in_or_app. auto.
    + apply in_or_app. cbn; auto.
Qed.

Lemma update_bucket_Sep : forall s b p d, Sep s -> post (fun sr => Sep (fst sr)) (update_bucket s b p d).
Proof.
  unfold Sep, update_bucket. intros s b p d SP.
  destruct (find_bucket (store s) b) as [bk|] eqn:F; cbn; auto.
  destruct (lookup (heap_of s) (b_meta bk)) as [[[i t du|p0] [|d0 [|? ?]]]|] eqn:L; cbn; auto.
  assert (RM : In (b_meta bk) (store_roots s)) by (eapply bucket_roots_in; eauto; cbn; auto).
  destruct d as [d1|].
  - pose proof (deepcopy_cases (heap_of s) d1 (Sep2_wf _ _ _ SP)) as D.
    destruct (deepcopy (heap_of s) d1) as [[h1 d2]| |]; cbn in *; auto.
    pose proof D as (E & B & Fr & _).
    apply Sep2_sub with (S := store_roots s ++ [d2]) (C := held s);
      [|apply incl_appl, incl_refl|apply incl_refl].
    apply Sep2_update.
    + eapply Sep2_copy; eauto.
    + apply reach_root. apply in_or_app; auto.
    + cbn. intros k [<-|[]]. split.
      * apply reach_root. apply in_or_app; cbn; auto.
      * intro R. apply (fresh_rt _ _ _ _ Fr) in R; [|lia].
        destruct SP as [_ _ AS _ _]. specialize (AS _ RM). lia.
  - cbn. eapply Sep2_retag; eauto. now apply reach_root.
Qed.

Lemma delete_bucket_Sep : forall s b, Sep s -> post (fun sr => Sep (fst sr)) (delete_bucket s b).
Proof.
  unfold Sep, delete_bucket. intros s b SP.
  destruct (find_bucket (store s) b); cbn; auto.
  eapply Sep2_sub; eauto using incl_refl. intros r I. now apply roots_del_bucket in I.
Qed.

(* a read: the result is a fresh object handed to the caller, the heap only grows, the
   store's roots are untouched *)
Definition read_post (s : state) (sr : state * ret) : Prop :=
  Sep (fst sr) /\ ext (heap_of s) (heap_of (fst sr)) /\ store (fst sr) = store s.

Lemma hold_copy_read : forall s r h' l',
  Sep s -> copy_post content_of (heap_of s) r h' l' ->
  read_post s (hold (set_heap s h') l', RRoot l').
Proof.
  unfold read_post, Sep. intros s r h' l' SP CP. cbn. split; [|split; auto; apply CP].
  apply Sep2_sym. eapply Sep2_copy; eauto. now apply Sep2_sym.
Qed.

Lemma get_metadata_read : forall s b, Sep s -> post (read_post s) (get_metadata s b).
Proof.
  unfold get_metadata. intros s b SP.
  destruct (find_bucket (store s) b) as [bk|]; cbn; auto.
  pose proof (deepcopy_cases (heap_of s) (b_meta bk) (Sep2_wf _ _ _ SP)) as D.
  destruct (deepcopy (heap_of s) (b_meta bk)) as [[h1 r]| |]; cbn in *; auto.
  eapply hold_copy_read; eauto.
Qed.

(* copies of a list of roots handed out under one fresh container cell *)
Lemma hold_copies_read : forall s ks h' ks' p,
  Sep s -> copies_post content_of (heap_of s) ks h' ks' ->
  read_post s (hold (set_heap s (fst (alloc h' (Cell (TNode p) ks')))) (snd (alloc h' (Cell (TNode p) ks'))),
               RRoot (snd (alloc h' (Cell (TNode p) ks')))).
Proof.
  unfold read_post, Sep. intros s ks h' ks' p SP CP. cbn.
  split; [|split; auto; eapply ext_trans; [apply CP|apply ext_alloc]].
  apply Sep2_sym.
  apply Sep2_sub with (S := (held s ++ ks') ++ [length h']) (C := store_roots s);
    [|intros r I; apply in_app_or in I; destruct I as [I|I];
      apply in_or_app; auto; left; apply in_or_app; auto|apply incl_refl].
  apply Sep2_alloc.
  - eapply Sep2_copies; eauto. now apply Sep2_sym.
  - cbn. intros k I. apply reach_root. apply in_or_app; auto.
Qed.

Lemma buckets_read : forall s, Sep s -> post (read_post s) (buckets s).
Proof.
  unfold buckets. intros s SP.
  pose proof (thread_deepcopy_cases (map b_meta (store s)) (heap_of s) (Sep2_wf _ _ _ SP)) as D.
  destruct (thread deepcopy (heap_of s) (map b_meta (store s))) as [[h1 ks]| |]; cbn [bind post] in *; auto.
  eapply hold_copies_read; eauto.
Qed.

(* ------------------------------------------------------------------------- *)
(* events *)

Lemma set_id_cases : forall h r i h',
  set_id h r i = Ok h' -> exists i0 t d ks, lookup h r = Some (Cell (TEv i0 t d) ks) /\
                                       h' = update h r (Cell (TEv i t d) ks).
Proof.
  unfold set_id. intros h r i h' H.
  destruct (lookup h r) as [[[i0 t d|p] ks]|]; try discriminate.
  inversion H; subst. eauto 10.
Qed.

Lemma set_id_noof : forall h r i, set_id h r i <> OutOfFuel.
Proof. unfold set_id. intros. destruct (lookup h r) as [[[i0 t d|p] ks]|]; discriminate. Qed.

Lemma replace_at_Sep : forall S0 C idxs h evs src i,
  Sep2 h (S0 ++ evs) C ->
  match replace_at h evs idxs src i with
  | Ok he => Sep2 (fst he) (S0 ++ snd he) C
  | Err _ => True
  | OutOfFuel => False
  end.
Proof.
  intros S0 C. induction idxs as [|n idxs IH]; cbn [replace_at]; intros h evs src i SP.
  - cbn. auto.
  - pose proof (deepcopy_cases h src (Sep2_wf _ _ _ SP)) as D.
    destruct (deepcopy h src) as [[h1 c]| |]; cbn [bind fst snd] in *; auto.
    destruct (set_id h1 c i) as [h2| |] eqn:SI; cbn [bind]; auto; [|now apply set_id_noof in SI].
    destruct (set_id_cases _ _ _ _ SI) as (i0 & t & d & ks & L & ->).
    apply IH.
    apply Sep2_sub with (S := (S0 ++ evs) ++ [c]) (C := C); [| |apply incl_refl].
    + eapply Sep2_retag; eauto.
      * eapply Sep2_copy; eauto.
      * apply reach_root. apply in_or_app; cbn; auto.
    + intros r I. apply in_app_or in I. destruct I as [I|I].
      * apply in_or_app. left. apply in_or_app. auto.
      * apply in_set_nth in I. destruct I as [I| ->].
        -- apply in_or_app. left. apply in_or_app. auto.
        -- apply in_or_app. cbn; auto.
Qed.

Lemma events_in_roots : forall s b bk,
  find_bucket (store s) b = Some bk -> incl (store_roots s ++ b_events bk) (store_roots s).
Proof.
  intros s b bk F r I. apply in_app_or in I. destruct I as [I|I]; auto.
  eapply bucket_roots_in; eauto. cbn; auto.
Qed.

Lemma roots_after_set : forall s b bk evs,
  find_bucket (store s) b = Some bk ->
  incl (flat_map bucket_roots (set_bucket (store s) (mkBucket b (b_meta bk) evs))) (store_roots s ++ evs).
Proof.
  intros s b bk evs F r I. apply roots_set_bucket in I. cbn in I.
  destruct I as [I|[<-|I]]; apply in_or_app; auto.
  left. eapply bucket_roots_in; eauto. cbn; auto.
Qed.

Lemma replace_Sep : forall s b i e, Sep s -> post (fun sr => Sep (fst sr) /\ held (fst sr) = held s) (replace s b i e).
Proof.
  unfold Sep, replace. intros s b i e SP.
  destruct (find_bucket (store s) b) as [bk|] eqn:F; cbn [post]; auto.
  destruct (map_res (view (heap_of s)) (b_events bk)) as [vs| |] eqn:V; cbn [bind post]; auto;
    [|now apply map_res_view_noof in V].
  pose proof (replace_at_Sep (store_roots s) (held s) (matching_rev vs i) (heap_of s) (b_events bk) e i) as R.
  destruct (replace_at (heap_of s) (b_events bk) (matching_rev vs i) e i) as [[h1 evs]| |];
    cbn [bind post fst snd] in *.
  - split; auto. cbn. eapply Sep2_sub; [apply R| |apply incl_refl].
    + eapply Sep2_sub; eauto using incl_refl. eapply events_in_roots; eauto.
    + eapply roots_after_set; eauto.
  - auto.
  - apply R. eapply Sep2_sub; eauto using incl_refl. eapply events_in_roots; eauto.
Qed.

(* insert_one without the hand-over: the returned copy is separated from the store and
   from everything the caller holds *)
Lemma insert_core_Sep : forall s b e, Sep s ->
  match insert_core s b e with
  | Ok sr => Sep (hold (fst sr) (snd sr)) /\ held (fst sr) = held s
  | Err _ => True
  | OutOfFuel => False
  end.
Proof.
  unfold insert_core. intros s b e SP.
  destruct (lookup (heap_of s) e) as [[[[i|] t d|p] ks]|] eqn:L; auto.
  - (* the event carries an id: replace, then hand out a copy of the caller's event *)
    pose proof (replace_Sep s b (Some i) e SP) as R.
    destruct (replace s b (Some i) e) as [[s1 r1]| |]; cbn [bind post fst snd] in *; auto.
    destruct R as [SP1 HE].
    pose proof (deepcopy_cases (heap_of s1) e (Sep2_wf _ _ _ SP1)) as D.
    destruct (deepcopy (heap_of s1) e) as [[h2 r]| |]; cbn [bind fst snd] in *; auto.
    split; auto. unfold Sep in *. cbn. apply Sep2_sym. eapply Sep2_copy; eauto. now apply Sep2_sym.
  - pose proof (deepcopy_cases (heap_of s) e (Sep2_wf _ _ _ SP)) as D.
    destruct (deepcopy (heap_of s) e) as [[h1 c]| |]; cbn [bind fst snd] in *; auto.
    destruct (find_bucket (store s) b) as [bk|] eqn:F; auto.
    destruct (map_res (view h1) (b_events bk)) as [vs| |] eqn:V; cbn [bind]; auto;
      [|now apply map_res_view_noof in V].
    destruct (set_id h1 c (Some (next_id vs))) as [h2| |] eqn:SI; cbn [bind]; auto;
      [|now apply set_id_noof in SI].
    destruct (set_id_cases _ _ _ _ SI) as (i0 & t0 & d0 & ks0 & L1 & ->).
    assert (SP2 : Sep2 (update h1 c (Cell (TEv (Some (next_id vs)) t0 d0) ks0)) (store_roots s ++ [c]) (held s)).
    { eapply Sep2_retag; eauto.
      - eapply Sep2_copy; eauto.
      - apply reach_root. apply in_or_app; cbn; auto. }
    pose proof (deepcopy_cases _ c (Sep2_wf _ _ _ SP2)) as D2.
    destruct (deepcopy (update h1 c (Cell (TEv (Some (next_id vs)) t0 d0) ks0)) c) as [[h3 r]| |];
      cbn [bind fst snd] in *; auto.
    split; auto. unfold Sep. cbn.
    apply Sep2_sub with (S := store_roots s ++ [c]) (C := held s ++ [r]); [| |apply incl_refl].
    + apply Sep2_sym. eapply Sep2_copy; eauto. now apply Sep2_sym.
    + intros x I. apply roots_after_set with (bk := bk) in I; auto.
      apply in_app_or in I. destruct I as [I|I]; [apply in_or_app; auto|].
      apply in_app_or in I. destruct I as [I|I]; apply in_or_app; auto.
      left. eapply bucket_roots_in; eauto. cbn; auto.
Qed.

Lemma insert_one_Sep : forall s b e, Sep s -> post (fun sr => Sep (fst sr)) (insert_one s b e).
Proof.
  unfold insert_one. intros s b e SP. pose proof (insert_core_Sep s b e SP) as H.
  destruct (insert_core s b e) as [[s1 r]| |]; cbn [bind post fst snd] in *; tauto.
Qed.

Lemma Sep_unhold : forall s r, Sep (hold s r) -> Sep s.
Proof.
  unfold Sep. intros s r SP. cbn in SP. eapply Sep2_sub; eauto using incl_refl.
  apply incl_appl, incl_refl.
Qed.

Lemma insert_many_core_Sep : forall es s b, Sep s ->
  match insert_many_core s b es with
  | Ok s' => Sep s' /\ held s' = held s
  | Err _ => True
  | OutOfFuel => False
  end.
Proof.
  induction es as [|e es IH]; cbn [insert_many_core]; intros s b SP; auto.
  pose proof (insert_core_Sep s b e SP) as H.
  destruct (insert_core s b e) as [[s1 r]| |]; cbn [bind fst snd] in *; auto.
  destruct H as [H HE]. apply Sep_unhold in H. specialize (IH s1 b H).
  destruct (insert_many_core s1 b es); auto. destruct IH; split; congruence.
Qed.

Lemma insert_many_Sep : forall s b es, Sep s -> post (fun sr => Sep (fst sr)) (insert_many s b es).
Proof.
  unfold insert_many. intros s b es SP. pose proof (insert_many_core_Sep es s b SP) as H.
  destruct (insert_many_core s b es); cbn [bind post fst] in *; tauto.
Qed.

Lemma replace_last_Sep : forall s b e, Sep s -> post (fun sr => Sep (fst sr)) (replace_last s b e).
Proof.
  unfold replace_last. intros s b e SP.
  destruct (find_bucket (store s) b) as [bk|]; cbn [post]; auto.
  destruct (map_res (view (heap_of s)) (b_events bk)) as [vs| |] eqn:V; cbn [bind post]; auto;
    [|now apply map_res_view_noof in V].
  destruct (last_max vs None); cbn [post]; auto.
  eapply post_impl; [|apply replace_Sep; auto]. cbn. tauto.
Qed.

Lemma get_event_read : forall s b i, Sep s -> post (read_post s) (get_event s b i).
Proof.
  unfold get_event. intros s b i SP.
  destruct (find_bucket (store s) b) as [bk|]; cbn [post]; auto.
  destruct (map_res (view (heap_of s)) (b_events bk)) as [vs| |] eqn:V; cbn [bind post]; auto;
    [|now apply map_res_view_noof in V].
  destruct (matching_rev vs (Some i)) as [|n ?]; cbn [post].
  - split; [auto|split; [apply ext_refl|auto]].
  - destruct (nth_error (b_events bk) n) as [r|]; cbn [post]; auto.
    pose proof (deepcopy_cases (heap_of s) r (Sep2_wf _ _ _ SP)) as D.
    destruct (deepcopy (heap_of s) r) as [[h1 r1]| |]; cbn [bind post fst snd] in *; auto.
    eapply hold_copy_read; eauto.
Qed.

Lemma get_events_read : forall s b l st en, Sep s -> post (read_post s) (get_events s b l st en).
Proof.
  unfold get_events. intros s b l st en SP.
  destruct (find_bucket (store s) b) as [bk|]; cbn [post]; auto.
  destruct (map_res (view (heap_of s)) (b_events bk)) as [vs| |] eqn:V; cbn [bind post]; auto;
    [|now apply map_res_view_noof in V].
  pose proof (thread_deepcopy_cases (map v_root (select_events vs l st en)) (heap_of s) (Sep2_wf _ _ _ SP)) as D.
  destruct (thread deepcopy (heap_of s) (map v_root (select_events vs l st en))) as [[h1 ks]| |];
    cbn [bind post fst snd] in *; auto.
  eapply hold_copies_read; eauto.
Qed.

Lemma get_eventcount_read : forall s b st en, Sep s -> post (read_post s) (get_eventcount s b st en).
Proof.
  unfold get_eventcount. intros s b st en SP.
  destruct (find_bucket (store s) b) as [bk|]; cbn [post]; auto.
  destruct (map_res (view (heap_of s)) (b_events bk)) as [vs| |] eqn:V; cbn [bind post]; auto;
    [|now apply map_res_view_noof in V].
  split; [auto|split; [apply ext_refl|auto]].
Qed.

Lemma delete_Sep : forall s b i, Sep s -> post (fun sr => Sep (fst sr)) (delete s b i).
Proof.
  unfold delete. intros s b i SP.
  destruct (find_bucket (store s) b) as [bk|] eqn:F; cbn [post]; auto.
  destruct (map_res (view (heap_of s)) (b_events bk)) as [vs| |] eqn:V; cbn [bind post]; auto;
    [|now apply map_res_view_noof in V].
  destruct (matching_rev vs (Some i)) as [|n ?]; cbn [post fst]; auto.
  unfold Sep in *. cbn. eapply Sep2_sub; eauto using incl_refl.
  intros r I. apply roots_set_bucket in I. cbn in I.
  destruct I as [I|[<-|I]]; auto.
  - eapply bucket_roots_in; eauto. cbn; auto.
  - apply in_remove_nth in I. eapply bucket_roots_in; eauto. cbn; auto.
Qed.

(* ------------------------------------------------------------------------- *)
(* the caller *)

Lemma caller_alloc_Sep : forall s c, Sep s -> caller_ok s (CallerAlloc c) -> Sep (caller_alloc s c).
Proof.
  unfold Sep, caller_alloc. cbn. intros s c SP OK.
  apply Sep2_sym. apply Sep2_alloc; auto. now apply Sep2_sym.
Qed.

Lemma caller_write_Sep : forall s l c, Sep s -> caller_ok s (CallerWrite l c) -> Sep (caller_write s l c).
Proof.
  unfold Sep, caller_write. cbn. intros s l c SP [R K].
  apply Sep2_sym. apply Sep2_update; auto. now apply Sep2_sym.
Qed.

Lemma caller_alloc_confined : forall s c, caller_ok s (CallerAlloc c) ->
  confined (heap_of s) (held s) (heap_of (caller_alloc s c)).
Proof. intros s c OK. cbn. now apply confined_alloc. Qed.

Lemma caller_write_confined : forall s l c, caller_ok s (CallerWrite l c) ->
  confined (heap_of s) (held s) (heap_of (caller_write s l c)).
Proof. intros s l c [R K]. cbn. apply confined_update; auto. intros k I. apply K; auto. Qed.

(* whatever is confined to the caller's side leaves the content of the store alone *)
Lemma confined_content_store : forall s h',
  Sep s -> confined (heap_of s) (held s) h' ->
  map (bucket_content h') (store s) = map (bucket_content (heap_of s)) (store s).
Proof.
  intros s h' SP CF. apply map_ext_in. intros b I. unfold bucket_content.
  assert (R : forall r, In r (bucket_roots b) -> content_of h' r = content_of (heap_of s) r).
  { intros r Ir. eapply confined_content_of; eauto. apply reach_root. apply in_store_roots. eauto. }
  f_equal; [f_equal; apply R; cbn; auto|].
  apply map_ext_in. intros r Ir. apply R. cbn; auto.
Qed.

(* ------------------------------------------------------------------------- *)
(* one step, histories *)

Theorem step_Sep : forall s a, Sep s -> caller_ok s a -> post (fun sr => Sep (fst sr)) (step s a).
Proof.
  intros s a SP OK. destruct a; cbn [step].
  - now apply create_bucket_Sep.
  - now apply update_bucket_Sep.
  - now apply delete_bucket_Sep.
  - eapply post_impl; [|now apply get_metadata_read]. intros x H; apply H.
  - eapply post_impl; [|now apply buckets_read]. intros x H; apply H.
  - now apply insert_one_Sep.
  - now apply insert_many_Sep.
  - eapply post_impl; [|now apply replace_Sep]. intros x H; apply H.
  - now apply replace_last_Sep.
  - eapply post_impl; [|now apply get_event_read]. intros x H; apply H.
  - eapply post_impl; [|now apply get_events_read]. intros x H; apply H.
  - eapply post_impl; [|now apply get_eventcount_read]. intros x H; apply H.
  - now apply delete_Sep.
  - cbn. now apply caller_alloc_Sep.
  - cbn. now apply caller_write_Sep.
Qed.

Lemma step_state_Sep : forall s a, Sep s -> caller_ok s a -> Sep (step_state s a).
Proof.
  unfold step_state. intros s a SP OK. pose proof (step_Sep s a SP OK) as H.
  destruct (step s a); cbn in *; auto.
Qed.

Lemma step_never_out_of_fuel : forall s a, Sep s -> caller_ok s a -> step s a <> OutOfFuel.
Proof. intros s a SP OK E. pose proof (step_Sep s a SP OK) as H. now rewrite E in H. Qed.

Fixpoint ok_trace (s : state) (acts : list action) : Prop :=
  match acts with
  | [] => True
  | a :: t => caller_ok s a /\ ok_trace (step_state s a) t
  end.

Lemma run_Sep : forall acts s, Sep s -> ok_trace s acts -> Sep (run acts s).
Proof.
  induction acts as [|a acts IH]; cbn; intros s SP OK; auto.
  destruct OK as [OKa OKt]. apply IH; auto. now apply step_state_Sep.
Qed.

Lemma ok_trace_app : forall a1 s a2, ok_trace s (a1 ++ a2) <-> ok_trace s a1 /\ ok_trace (run a1 s) a2.
Proof.
  induction a1 as [|a a1 IH]; cbn; intros s a2; [tauto|]. rewrite IH. tauto.
Qed.

Lemma run_app : forall a1 a2 s, run (a1 ++ a2) s = run a2 (run a1 s).
Proof. intros. unfold run. now rewrite fold_left_app. Qed.

(* a caller action changes neither the store's roots nor what they unfold to *)
Theorem caller_step_content : forall s a,
  Sep s -> caller_ok s a -> is_caller a = true ->
  store (step_state s a) = store s /\ content_store (step_state s a) = content_store s.
Proof.
  intros s a SP OK IC. destruct a; try discriminate; unfold step_state, content_store; cbn [step fst].
  - split; auto. cbn [store caller_alloc hold set_heap].
    now apply (confined_content_store s _ SP (caller_alloc_confined s c OK)).
  - split; auto. cbn [store caller_write set_heap].
    now apply (confined_content_store s _ SP (caller_write_confined s l c OK)).
Qed.

Theorem store_owns_copy : forall acts a,
  ok_trace init (acts ++ [a]) -> is_caller a = true ->
  Sep (run (acts ++ [a]) init) /\
  content_store (run (acts ++ [a]) init) = content_store (run acts init).
Proof.
  intros acts a OK IC. pose proof OK as OK'. apply ok_trace_app in OK'. destruct OK' as [O1 [O2 _]].
  split; [apply run_Sep; auto using Sep_init|].
  rewrite run_app. cbn. apply caller_step_content; auto. apply run_Sep; auto using Sep_init.
Qed.

(* ------------------------------------------------------------------------- *)
(* reads do not change the content of the store, and what they hand out unfolds to the
   same tree as the stored object *)

Lemma read_content : forall s sr, Sep s -> read_post s sr ->
  content_store (fst sr) = content_store s.
Proof.
  intros s sr SP (SP' & E & ST). unfold content_store. rewrite ST.
  apply wf_content_store_ext; auto.
  - eapply Sep2_wf; eauto.
  - destruct SP; auto.
Qed.

Theorem get_metadata_returns_stored : forall s b s' r bk,
  Sep s -> get_metadata s b = Ok (s', RRoot r) -> find_bucket (store s) b = Some bk ->
  content_of (heap_of s') r = content_of (heap_of s') (b_meta bk) /\
  exists t, content_of (heap_of s') r = Ok t.
Proof.
  unfold get_metadata. intros s b s' r bk SP H F. rewrite F in H.
  destruct (deepcopy (heap_of s) (b_meta bk)) as [[h1 r1]| |] eqn:D; cbn [bind fst snd] in H; try discriminate.
  inversion H; subst. cbn.
  destruct (deepcopy_spec _ _ _ _ D) as (_ & _ & _ & _ & t & T0 & T1).
  rewrite T0, T1. eauto.
Qed.

Theorem get_event_returns_stored : forall s b i s' r,
  get_event s b i = Ok (s', RRoot r) ->
  exists bk stored t, find_bucket (store s) b = Some bk /\ In stored (b_events bk) /\
    content_of (heap_of s') stored = Ok t /\ content_of (heap_of s') r = Ok t.
Proof.
  unfold get_event. intros s b i s' r H.
  destruct (find_bucket (store s) b) as [bk|] eqn:F; try discriminate.
  destruct (map_res (view (heap_of s)) (b_events bk)) as [vs| |]; cbn [bind] in H; try discriminate.
  destruct (matching_rev vs (Some i)) as [|n ?]; try discriminate.
  destruct (nth_error (b_events bk) n) as [stored|] eqn:N; try discriminate.
  destruct (deepcopy (heap_of s) stored) as [[h1 r1]| |] eqn:D; cbn [bind fst snd] in H; try discriminate.
  inversion H; subst. cbn.
  destruct (deepcopy_spec _ _ _ _ D) as (_ & _ & _ & _ & t & T0 & T1).
  exists bk, stored, t. repeat split; auto. eapply nth_error_In; eauto.
Qed.

Theorem get_events_returns_stored : forall s b l st en s' r,
  get_events s b l st en = Ok (s', RRoot r) ->
  exists bk vs ks ts,
    find_bucket (store s) b = Some bk /\
    map_res (view (heap_of s)) (b_events bk) = Ok vs /\
    lookup (heap_of s') r = Some (Cell (TNode EVENT_LIST) ks) /\
    map_res (content_of (heap_of s')) (map v_root (select_events vs l st en)) = Ok ts /\
    map_res (content_of (heap_of s')) ks = Ok ts.
Proof.
  unfold get_events. intros s b l st en s' r H.
  destruct (find_bucket (store s) b) as [bk|] eqn:F; try discriminate.
  destruct (map_res (view (heap_of s)) (b_events bk)) as [vs| |] eqn:V; cbn [bind] in H; try discriminate.
  destruct (thread deepcopy (heap_of s) (map v_root (select_events vs l st en))) as [[h1 ks]| |] eqn:TH;
    cbn [bind fst snd] in H; try discriminate.
  inversion H; subst. cbn.
  destruct (thread_deepcopy_spec _ _ _ _ TH) as (_ & _ & _ & _ & ts & M0 & M1).
  exists bk, vs, ks, ts. repeat split; auto.
  - unfold alloc; cbn. apply lookup_alloc_new.
  - unfold alloc; cbn. eapply map_res_cont_ext; eauto using content_of_ext, ext_alloc.
  - unfold alloc; cbn. eapply map_res_cont_ext; eauto using content_of_ext, ext_alloc.
Qed.

(* ------------------------------------------------------------------------- *)
(* helpers for concrete histories *)

(* changing the scalar members of any object the caller reaches is always legitimate *)
Lemma caller_retag_ok : forall s l t t' ks,
  Sep s -> reach (heap_of s) (held s) l -> lookup (heap_of s) l = Some (Cell t ks) ->
  caller_ok s (CallerWrite l (Cell t' ks)).
Proof.
  intros s l t t' ks SP R L. split; auto. cbn. intros k I. split.
  - eapply reach_step; eauto. exists (Cell t ks); auto.
  - intro P. destruct SP as [_ Ac _ _ _]. apply (Ac l). eapply edge_rt_tc; eauto. exists (Cell t ks); auto.
Qed.

Lemma ok_trace_cons : forall s a t,
  Sep s -> caller_ok s a -> (Sep (step_state s a) -> ok_trace (step_state s a) t) -> ok_trace s (a :: t).
Proof. intros s a t SP OK K. split; auto. apply K. now apply step_state_Sep. Qed.

(* reachability along an explicit path of child indices *)
Fixpoint follow (h : heap) (l : loc) (path : list nat) : option loc :=
  match path with
  | [] => Some l
  | i :: t =>
      match lookup h l with
      | Some c => match nth_error (children c) i with Some k => follow h k t | None => None end
      | None => None
      end
  end.

Lemma follow_rt : forall h path l m, follow h l path = Some m -> rt h l m.
Proof.
  induction path as [|i path IH]; cbn; intros l m H.
  - inversion H. apply rt_here.
  - destruct (lookup h l) as [c|] eqn:L; try discriminate.
    destruct (nth_error (children c) i) as [k|] eqn:N; try discriminate.
    eapply rt_trans'; [apply edge_rt; exists c; split; eauto using nth_error_In|]. auto.
Qed.

Lemma reach_by_path : forall h R n path r l,
  nth_error R n = Some r -> follow h r path = Some l -> reach h R l.
Proof. intros h R n path r l N F. exists r. split; [eapply nth_error_In; eauto|eapply follow_rt; eauto]. Qed.

(* insert_one (event without id): the event handed back unfolds to the same tree as the
   event now stored under the new id *)
Lemma find_bucket_set_bucket : forall st b bk nb,
  find_bucket st b = Some bk -> b_id nb = b -> find_bucket (set_bucket st nb) b = Some nb.
Proof.
  unfold find_bucket. induction st as [|x st IH]; cbn; intros b bk nb F E; [discriminate|].
  destruct (Z.eqb (b_id x) b) eqn:X.
  - apply Z.eqb_eq in X. assert (Y : Z.eqb (b_id x) (b_id nb) = true) by (apply Z.eqb_eq; congruence).
    rewrite Y. cbn. assert (Z.eqb (b_id nb) b = true) by (apply Z.eqb_eq; auto). now rewrite H.
  - assert (Y : Z.eqb (b_id x) (b_id nb) = false) by (rewrite E; auto).
    rewrite Y. cbn. rewrite X. eapply IH; eauto.
Qed.

Theorem insert_one_returns_stored : forall s b e s' r t d ks,
  lookup (heap_of s) e = Some (Cell (TEv None t d) ks) ->
  insert_one s b e = Ok (s', RRoot r) ->
  exists bk' c tr i,
    find_bucket (store s') b = Some bk' /\ In c (b_events bk') /\
    content_of (heap_of s') c = Ok tr /\ content_of (heap_of s') r = Ok tr /\
    option_map ctag (lookup (heap_of s') c) = Some (TEv (Some i) t d).
Proof.
  unfold insert_one, insert_core. intros s b e s' r t d ks L H. rewrite L in H.
  destruct (deepcopy (heap_of s) e) as [[h1 c]| |] eqn:D1; cbn [bind fst snd] in H; try discriminate.
  destruct (find_bucket (store s) b) as [bk|] eqn:F; try discriminate.
  destruct (map_res (view h1) (b_events bk)) as [vs| |]; cbn [bind] in H; try discriminate.
  destruct (set_id h1 c (Some (next_id vs))) as [h2| |] eqn:SI; cbn [bind] in H; try discriminate.
  destruct (deepcopy h2 c) as [[h3 r3]| |] eqn:D2; cbn [bind fst snd] in H; try discriminate.
  inversion H; subst s' r; clear H. cbn [store heap_of hold].
  destruct (deepcopy_spec _ _ _ _ D2) as (E2 & _ & _ & _ & tr & T0 & T1).
  exists (mkBucket b (b_meta bk) (b_events bk ++ [c])), c, tr, (next_id vs).
  split; [eapply find_bucket_set_bucket; eauto|].
  split; [cbn; apply in_or_app; cbn; auto|].
  split; [auto|split; [auto|]].
  (* the stored copy carries the caller's timestamp and duration and the new id *)
  destruct (set_id_cases _ _ _ _ SI) as (i0 & t0 & d0 & ks0 & L1 & ->).
  assert (LC : lookup (update h1 c (Cell (TEv (Some (next_id vs)) t0 d0) ks0)) c
               = Some (Cell (TEv (Some (next_id vs)) t0 d0) ks0)).
  { apply lookup_update_same. eapply lookup_lt; eauto. }
  rewrite (ext_lookup_some _ _ _ _ E2 LC). cbn.
  (* t0, d0 are those of the original: the copy's top cell has the original's tag *)
  unfold deepcopy, fuel_of in D1. cbn [dcopy] in D1. rewrite L in D1.
  destruct (thread (dcopy (length (heap_of s))) (heap_of s) ks) as [[hx ksx]| |]; cbn [bind fst snd] in D1; try discriminate.
  unfold alloc in D1. inversion D1; subst h1 c. rewrite lookup_alloc_new in L1. inversion L1; subst. reflexivity.
Qed.
