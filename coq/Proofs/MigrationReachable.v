(* C14 for every legacy store the API can produce: the hypothesis of migrate_lossless
   (distinct bucket ids) is part of the peewee model's representation invariant, which the
   store proofs (Proofs/StorePeeweeProofs.v, C02/C04) establish for every history. *)
From AwVerif Require Import Base.Prelude Model.StoreBase Model.SqliteStore Model.PeeweeStore
  Model.Migration Proofs.MigrationCopy Proofs.StorePeeweeProofs.
From Coq Require Import Permutation.

Lemma reachable_PwInv : forall h, PwInv (pw_run pw_init h).
Proof. intros h. unfold PwInv. apply pwi_bids. apply pw_run_Inv. apply pw_Inv_init. Qed.

Theorem migrate_lossless_reachable : forall h,
  let pw := pw_run pw_init h in
  exists sq,
    migrate pw sq_init = (pw_open pw, sq, Ok tt) /\
    map br_id (sq_buckets sq) = map pb_id (pw_buckets pw) /\
    forall b,
      match pw_view pw b with
      | Some (m, es) => exists es', sq_view sq b = Some (m, es') /\
                                    Permutation (map payload es') (map payload es)
      | None => sq_view sq b = None
      end.
Proof. intros h. cbv zeta. apply migrate_lossless. apply reachable_PwInv. Qed.
