(* C01 on the memory back end (Model/MemStore.v): an event inserted without an id gets a
   fresh id, is listed and found by id with its instant, duration and data; bulk; ids
   unique in every reachable state. *)
From Coq Require Import Permutation ZifyBool.
From AwVerif Require Import Base.Prelude Model.StoreBase Model.MemStore Model.StoreSpec
  Proofs.StoreBaseFacts Proofs.StoreMemProofs Proofs.StoreMemRefine Proofs.ReadBackBase.

(* ---------- reads, in any state ---------- *)
Lemma mem_listing : forall c b m es,
  mem_view c b = Some (m, es) ->
  exists l, mem_step c (GetEvents b (-1) None None) = (c, Ok (OEvents l)) /\ Permutation l es.
Proof.
  intros c b m es V. unfold mem_view in V. cbn [mem_step]. rewrite V.
  exists (rev (sort_by ts es)). split; [reflexivity|].
  rewrite <- Permutation_rev. apply sort_by_perm.
Qed.

Lemma mem_lookup : forall c b m es x i,
  mem_Inv c -> mem_view c b = Some (m, es) -> In x es -> eid x = Some i ->
  mem_step c (GetEvent b i) = (c, Ok (OEvent (Some x))).
Proof.
  intros c b m es x i [_ W] V Ix Ex. unfold mem_view in V. cbn [mem_step]. rewrite V.
  pose proof (W b m es V) as U.
  destruct (find_last (id_matches (Some i)) es) as [y|] eqn:F.
  - apply find_last_Some in F as [Iy Py]. rewrite id_matches_has_id in Py. apply has_id_true in Py.
    assert (y = x) by (apply (ids_unique_same_id es); congruence). now subst.
  - pose proof (find_last_None _ _ F x Ix) as N. rewrite id_matches_has_id in N.
    apply has_id_false in N. contradiction.
Qed.

(* ---------- single insertion ---------- *)
Lemma mem_insert_fresh : forall c b e m es,
  mem_view c b = Some (m, es) -> eid e = None ->
  exists i, mem_step c (InsertOne b e) =
              (aset b (m, es ++ [set_eid e (Some i)]) c, Ok (OEvent (Some (set_eid e (Some i))))) /\
            ~ is_live i es.
Proof.
  intros c b e m es V Ee. unfold mem_view in V. cbn [mem_step]. unfold mem_insert_one.
  rewrite Ee, V. exists (mem_next_id es). split; [reflexivity|apply mem_next_id_fresh].
Qed.

Theorem insert_fresh_id_mem : forall c b e m es,
  mem_Inv c -> mem_view c b = Some (m, es) -> eid e = None ->
  exists c' e' i,
    mem_step c (InsertOne b e) = (c', Ok (OEvent (Some e'))) /\
    eid e' = Some i /\ (forall x, In x es -> eid x <> Some i) /\
    ts e' = ts e /\ dur e' = dur e /\ data e' = data e /\
    mem_view c' b = Some (m, es ++ [e']) /\ mem_Inv c'.
Proof.
  intros c b e m es I V Ee. destruct (mem_insert_fresh c b e m es V Ee) as [i [S F]].
  exists (aset b (m, es ++ [set_eid e (Some i)]) c), (set_eid e (Some i)), i.
  split; [exact S|]. split; [reflexivity|]. split; [now apply not_live_no_event|].
  repeat (split; [reflexivity|]). split.
  - unfold mem_view. apply aget_aset_same.
  - pose proof (mem_step_Inv c (InsertOne b e) I) as I'. now rewrite S in I'.
Qed.

Theorem listing_returns_mem : forall c b e m es l0,
  mem_Inv c -> mem_view c b = Some (m, es) -> eid e = None ->
  snd (mem_step c (GetEvents b (-1) None None)) = Ok (OEvents l0) ->
  exists c' e' l,
    mem_step c (InsertOne b e) = (c', Ok (OEvent (Some e'))) /\ same_payload e e' /\
    mem_step c' (GetEvents b (-1) None None) = (c', Ok (OEvents l)) /\
    Permutation l (e' :: l0) /\
    (forall x, In x l -> eid x = eid e' -> x = e').
Proof.
  intros c b e m es l0 I V Ee L0.
  destruct (insert_fresh_id_mem c b e m es I V Ee) as (c' & e' & i & S & Ei & F & Ht & Hd & Hx & V' & I').
  destruct (mem_listing c b m es V) as [l0' [R0 P0]]. rewrite R0 in L0. cbn in L0. inversion L0; subst l0'.
  destruct (mem_listing c' b m _ V') as [l [R P]].
  exists c', e', l. split; [exact S|]. split; [repeat split; assumption|]. split; [exact R|]. split.
  - rewrite P. rewrite <- Permutation_cons_append. now apply perm_skip, Permutation_sym.
  - intros x Ix Ex. destruct I' as [_ W]. apply (ids_unique_same_id (es ++ [e'])); [eapply W; exact V'| | |exact Ex].
    + eapply Permutation_in; [exact P|exact Ix].
    + apply in_app_iff. right. now left.
Qed.

Theorem lookup_returns_mem : forall c b e m es,
  mem_Inv c -> mem_view c b = Some (m, es) -> eid e = None ->
  exists c' e' i,
    mem_step c (InsertOne b e) = (c', Ok (OEvent (Some e'))) /\ eid e' = Some i /\ same_payload e e' /\
    mem_step c' (GetEvent b i) = (c', Ok (OEvent (Some e'))).
Proof.
  intros c b e m es I V Ee.
  destruct (insert_fresh_id_mem c b e m es I V Ee) as (c' & e' & i & S & Ei & F & Ht & Hd & Hx & V' & I').
  exists c', e', i. split; [exact S|]. split; [exact Ei|]. split; [repeat split; assumption|].
  apply (mem_lookup c' b m (es ++ [e'])); try assumption. apply in_app_iff. right. now left.
Qed.

(* ---------- ids ---------- *)
Theorem ids_unique_mem : forall c b m es,
  mem_Inv c -> mem_view c b = Some (m, es) -> NoDup (map eid es) /\ forall x, In x es -> eid x <> None.
Proof.
  intros c b m es [_ W] V. pose proof (W b m es V) as U. split; [now apply ids_unique_NoDup_eid|apply U].
Qed.

Theorem ids_unique_reachable_mem : forall h b m es,
  mem_view (mem_run mem_init h) b = Some (m, es) ->
  NoDup (map eid es) /\ forall x, In x es -> eid x <> None.
Proof. intros h b m es. apply ids_unique_mem, mem_run_Inv, mem_Inv_init. Qed.

(* ---------- bulk: AbstractStorage.insert_many = one insert_one per event, in order ---------- *)
Lemma mem_insert_many_new : forall news c b m es,
  mem_view c b = Some (m, es) -> (forall e, In e news -> eid e = None) ->
  exists ids, length ids = length news /\
    mem_insert_many c b news = (aset b (m, es ++ stamp news ids) c, Ok ONone).
Proof.
  induction news as [|e t IH]; intros c b m es V N.
  - exists []. split; [reflexivity|]. cbn. rewrite app_nil_r. unfold mem_view in V. now rewrite aset_same.
  - destruct (mem_insert_fresh c b e m es V (N e (or_introl eq_refl))) as [i [S _]].
    cbn [mem_step] in S. cbn [mem_insert_many]. rewrite S.
    destruct (IH (aset b (m, es ++ [set_eid e (Some i)]) c) b m (es ++ [set_eid e (Some i)]))
      as [ids [L E]]; [unfold mem_view; apply aget_aset_same|intros; apply N; now right|].
    exists (i :: ids). split; [cbn; lia|]. rewrite E, aset_aset, stamp_cons, <- app_assoc. reflexivity.
Qed.

Theorem bulk_mem : forall c b news m es,
  mem_Inv c -> mem_view c b = Some (m, es) -> (forall e, In e news -> eid e = None) ->
  exists c' ids,
    mem_step c (InsertMany b news) = (c', Ok ONone) /\
    length ids = length news /\ NoDup ids /\ (forall i x, In i ids -> In x es -> eid x <> Some i) /\
    mem_view c' b = Some (m, es ++ stamp news ids) /\ mem_Inv c'.
Proof.
  intros c b news m es I V N. destruct (mem_insert_many_new news c b m es V N) as [ids [L E]].
  pose proof (mem_step_Inv c (InsertMany b news) I) as I'. cbn [mem_step] in *. rewrite E in *. cbn [fst] in I'.
  assert (V' : mem_view (aset b (m, es ++ stamp news ids) c) b = Some (m, es ++ stamp news ids))
    by (unfold mem_view; apply aget_aset_same).
  destruct I' as [K W]. destruct (stamp_ids_fresh es news ids L (W b m _ V')) as [ND FR].
  exists (aset b (m, es ++ stamp news ids) c), ids. split; [reflexivity|]. split; [exact L|]. split; [exact ND|].
  split; [intros i x Ii; apply not_live_no_event; now apply FR|]. split; [exact V'|now split].
Qed.

(* after the bulk insert every added event is listed and found by its id *)
Theorem bulk_read_back_mem : forall c b news m es l0,
  mem_Inv c -> mem_view c b = Some (m, es) -> (forall e, In e news -> eid e = None) ->
  snd (mem_step c (GetEvents b (-1) None None)) = Ok (OEvents l0) ->
  exists c' ids l,
    mem_step c (InsertMany b news) = (c', Ok ONone) /\ length ids = length news /\
    mem_step c' (GetEvents b (-1) None None) = (c', Ok (OEvents l)) /\
    Permutation l (l0 ++ stamp news ids) /\
    (forall x i, In x (stamp news ids) -> eid x = Some i ->
       mem_step c' (GetEvent b i) = (c', Ok (OEvent (Some x)))).
Proof.
  intros c b news m es l0 I V N L0.
  destruct (bulk_mem c b news m es I V N) as (c' & ids & S & L & ND & FR & V' & I').
  destruct (mem_listing c b m es V) as [l0' [R0 P0]]. rewrite R0 in L0. cbn in L0. inversion L0; subst l0'.
  destruct (mem_listing c' b m _ V') as [l [R P]].
  exists c', ids, l. split; [exact S|]. split; [exact L|]. split; [exact R|]. split.
  - rewrite P. apply Permutation_app_tail. now apply Permutation_sym.
  - intros x i Ix Ex. apply (mem_lookup c' b m (es ++ stamp news ids)); try assumption.
    apply in_app_iff. now right.
Qed.
