(* Peewee back end: representation invariant (tables + the bucket_keys cache), preserved by
   every op with every argument, per-statement footprint lemmas, frame theorem (C04). *)
From Coq Require Import Permutation Sorted ZifyBool.
From AwVerif Require Import Base.Prelude Model.StoreBase Model.PeeweeStore
  Proofs.StoreBaseFacts.

Record pw_Inv (c : pwstate) : Prop := mkPwInv {
  pwi_keys : NoDup (map pb_key (pw_buckets c));
  pwi_bids : NoDup (map pb_id (pw_buckets c));
  pwi_eids : NoDup (map pe_id (pw_events c));
  pwi_owner : forall r, In r (pw_events c) -> In (pe_bucket r) (map pb_key (pw_buckets c));
  pwi_cache : pw_keys c = map (fun r => (pb_id r, pb_key r)) (pw_buckets c) }.

Lemma pw_Inv_init : pw_Inv pw_init.
Proof. constructor; cbn; try constructor. intros r []. Qed.

(* ---------- the cache and the table ---------- *)
Definition pbucket_row (c : pwstate) (b : Z) : option pbrow :=
  find (fun r => pb_id r =? b) (pw_buckets c).

Lemma aget_cache : forall rows b,
  aget b (map (fun r => (pb_id r, pb_key r)) rows)
  = option_map pb_key (find (fun r => pb_id r =? b) rows).
Proof.
  induction rows as [|r t IH]; intros b; cbn; [reflexivity|].
  destruct (pb_id r =? b); [reflexivity|apply IH].
Qed.

Lemma pw_key_row : forall c b k, pw_Inv c -> pw_key c b = Some k ->
  exists r, pbucket_row c b = Some r /\ In r (pw_buckets c) /\ pb_id r = b /\ pb_key r = k.
Proof.
  intros c b k I H. unfold pw_key in H. rewrite (pwi_cache c I), aget_cache in H.
  unfold pbucket_row. destruct (find _ _) as [r|] eqn:F; [|discriminate]. inversion H; subst.
  exists r. apply find_some in F as [F1 F2]. repeat split; [assumption|lia].
Qed.

Lemma pbucket_row_In : forall c b r, pbucket_row c b = Some r -> In r (pw_buckets c) /\ pb_id r = b.
Proof. unfold pbucket_row. intros c b r H. apply find_some in H as [H1 H2]. split; [assumption|lia]. Qed.

Lemma key_row_unique : forall c r r',
  pw_Inv c -> In r (pw_buckets c) -> In r' (pw_buckets c) -> pb_key r = pb_key r' -> r = r'.
Proof. intros c r r' I. apply NoDup_map_inj. apply (pwi_keys c I). Qed.

Lemma foreign_key : forall c b b' r' k,
  pw_Inv c -> b' <> b -> pbucket_row c b' = Some r' -> pw_key c b = Some k -> k <> pb_key r'.
Proof.
  intros c b b' r' k I D H' H E. apply pw_key_row in H as [r [_ [Ir [Eid Ek]]]]; [|assumption].
  apply pbucket_row_In in H' as [Ir' Eid']. apply D.
  assert (r = r') by (apply (key_row_unique c); congruence). congruence.
Qed.

Lemma pw_view_row : forall c b,
  pw_view c b = match pbucket_row c b with
                | Some r => Some (pb_meta r, map prow_event (filter (fun e => pe_bucket e =? pb_key r) (pw_events c)))
                | None => None
                end.
Proof. reflexivity. Qed.

Lemma pw_view_events_only : forall c c' b',
  pw_buckets c' = pw_buckets c ->
  (forall r', pbucket_row c b' = Some r' ->
     filter (fun e => pe_bucket e =? pb_key r') (pw_events c')
     = filter (fun e => pe_bucket e =? pb_key r') (pw_events c)) ->
  pw_view c' b' = pw_view c b'.
Proof.
  intros c c' b' Hb He. rewrite !pw_view_row. unfold pbucket_row in *. rewrite Hb.
  destruct (find _ (pw_buckets c)) as [r'|]; [|reflexivity]. now rewrite (He r' eq_refl).
Qed.

Lemma new_rowid_fresh : forall ids, ~ In (new_rowid ids) ids.
Proof.
  intros ids H. destruct ids as [|x t]; [destruct H|].
  apply list_max_ge in H. unfold new_rowid in H. lia.
Qed.

(* ---------- statements on eventmodel: invariant and footprint ---------- *)
Lemma pw_select_event_In : forall c k i r,
  pw_select_event c k i = Some r -> In r (pw_events c) /\ pe_id r = i /\ pe_bucket r = k.
Proof.
  unfold pw_select_event. intros c k i r H. apply find_some in H as [H1 H2].
  repeat split; [assumption|lia|lia].
Qed.

Lemma pw_select_last_In : forall c k r,
  pw_select_last c k = Some r -> In r (pw_events c) /\ pe_bucket r = k.
Proof.
  unfold pw_select_last, pw_order_ts_desc. intros c k r H.
  destruct (sort_by _ _) as [|r0 t] eqn:E; [discriminate|]. inversion H; subst; clear H.
  assert (Ir : In r (r :: t)) by now left. rewrite <- E in Ir.
  apply sort_by_In in Ir. unfold select_where in Ir. apply filter_In in Ir as [Ir Q].
  split; [assumption|lia].
Qed.

(* e.save() on a row fetched from the table: same id, same bucket, new cells *)
Lemma pw_Inv_save_event : forall c r0 t d x,
  pw_Inv c -> In r0 (pw_events c) ->
  pw_Inv (pw_save_event c (mkPerow (pe_id r0) (pe_bucket r0) t d x)).
Proof.
  intros c r0 t d x I I0. destruct I as [I1 I2 I3 I4 I5]. unfold pw_save_event.
  constructor; cbn; try assumption.
  - rewrite map_update_where; [assumption|reflexivity].
  - intros y Hy. apply In_update_where in Hy as [r [Ir [->|[_ ->]]]]; [now apply I4|].
    cbn. now apply I4.
Qed.

Lemma pw_save_event_frame : forall c r0 t d x b b' k,
  pw_Inv c -> b' <> b -> pw_key c b = Some k -> In r0 (pw_events c) -> pe_bucket r0 = k ->
  pw_view (pw_save_event c (mkPerow (pe_id r0) (pe_bucket r0) t d x)) b' = pw_view c b'.
Proof.
  intros c r0 t d x b b' k I D K I0 B0. apply pw_view_events_only; [reflexivity|].
  intros r' Hr'. cbn. apply filter_update_where_other. intros r Ir Q. cbn in Q.
  assert (r = r0).
  { eapply NoDup_map_inj; [apply (pwi_eids c I)|assumption|assumption|lia]. }
  subst r. pose proof (foreign_key c b b' r' k I D Hr' K) as N. split; cbn; lia.
Qed.

Lemma pw_Inv_insert_event : forall c k e,
  pw_Inv c -> In k (map pb_key (pw_buckets c)) -> pw_Inv (fst (pw_insert_event c k e)).
Proof.
  intros c k e I Hk. destruct I as [I1 I2 I3 I4 I5]. unfold pw_insert_event.
  constructor; cbn; try assumption.
  - rewrite map_app. cbn. apply NoDup_app_snoc; [assumption|apply new_rowid_fresh].
  - intros y Hy. apply in_app_iff in Hy as [Hy|[<-|[]]]; [now apply I4|assumption].
Qed.

Lemma pw_insert_event_frame : forall c k e b b',
  pw_Inv c -> b' <> b -> pw_key c b = Some k ->
  pw_view (fst (pw_insert_event c k e)) b' = pw_view c b'.
Proof.
  intros c k e b b' I D K. apply pw_view_events_only; [reflexivity|].
  intros r' Hr'. cbn. rewrite filter_app. cbn.
  pose proof (foreign_key c b b' r' k I D Hr' K) as N.
  destruct (k =? pb_key r') eqn:X; [lia|]. apply app_nil_r.
Qed.

Lemma pw_key_In : forall c b k, pw_Inv c -> pw_key c b = Some k -> In k (map pb_key (pw_buckets c)).
Proof.
  intros c b k I H. apply pw_key_row in H as [r [_ [Ir [_ <-]]]]; [|assumption]. now apply in_map.
Qed.

Lemma pw_Inv_delete_event : forall c k i, pw_Inv c -> pw_Inv (fst (pw_delete_event c k i)).
Proof.
  intros c k i I. destruct I as [I1 I2 I3 I4 I5]. unfold pw_delete_event.
  constructor; cbn; try assumption.
  - now apply NoDup_map_delete_where.
  - intros y Hy. apply In_delete_where in Hy as [Hy _]. now apply I4.
Qed.

Lemma pw_delete_event_frame : forall c k i b b',
  pw_Inv c -> b' <> b -> pw_key c b = Some k ->
  pw_view (fst (pw_delete_event c k i)) b' = pw_view c b'.
Proof.
  intros c k i b b' I D K. apply pw_view_events_only; [reflexivity|].
  intros r' Hr'. cbn. apply filter_delete_where_other. intros r Ir Q.
  pose proof (foreign_key c b b' r' k I D Hr' K) as N. lia.
Qed.

(* the cache key of a bucket is untouched by statements on eventmodel *)
Lemma pw_key_with_events : forall c es b, pw_key (pw_with_events c es) b = pw_key c b.
Proof. reflexivity. Qed.

(* ---------- replace / upserts / bulk insert ---------- *)
Lemma pw_replace_Inv : forall c b i e, pw_Inv c -> pw_Inv (fst (pw_replace c b i e)).
Proof.
  intros c b i e I. unfold pw_replace. destruct (pw_key c b) as [k|]; [|assumption].
  destruct (pw_select_event c k i) as [r|] eqn:S; [|assumption]. cbn.
  apply pw_select_event_In in S as [S _]. now apply pw_Inv_save_event.
Qed.

Lemma pw_replace_frame : forall c b i e b', pw_Inv c -> b' <> b ->
  pw_view (fst (pw_replace c b i e)) b' = pw_view c b'.
Proof.
  intros c b i e b' I D. unfold pw_replace. destruct (pw_key c b) as [k|] eqn:K; [|reflexivity].
  destruct (pw_select_event c k i) as [r|] eqn:S; [|reflexivity]. cbn.
  apply pw_select_event_In in S as [S1 [_ S2]]. eapply pw_save_event_frame; eassumption.
Qed.

Lemma pw_replace_key : forall c b i e b0, pw_key (fst (pw_replace c b i e)) b0 = pw_key c b0.
Proof.
  intros. unfold pw_replace. destruct (pw_key c b); [|reflexivity].
  destruct (pw_select_event c z i); reflexivity.
Qed.

Lemma pw_upserts_Inv : forall es c b, pw_Inv c -> pw_Inv (fst (pw_upserts c b es)).
Proof.
  induction es as [|e t IH]; intros c b I; [assumption|]. cbn.
  destruct (eid e) as [i|]; [|now apply IH].
  pose proof (pw_replace_Inv c b i e I) as H.
  destruct (pw_replace c b i e) as [c' [o|k|]]; cbn in *; [now apply IH|assumption|assumption].
Qed.

Lemma pw_upserts_frame : forall es c b b', pw_Inv c -> b' <> b ->
  pw_view (fst (pw_upserts c b es)) b' = pw_view c b'.
Proof.
  induction es as [|e t IH]; intros c b b' I D; [reflexivity|]. cbn.
  destruct (eid e) as [i|]; [|now apply IH].
  pose proof (pw_replace_Inv c b i e I) as HI. pose proof (pw_replace_frame c b i e b' I D) as HF.
  destruct (pw_replace c b i e) as [c' [o|k|]]; cbn in *; [|assumption|assumption].
  rewrite IH; assumption.
Qed.

Lemma pw_upserts_key : forall es c b b0, pw_key (fst (pw_upserts c b es)) b0 = pw_key c b0.
Proof.
  induction es as [|e t IH]; intros c b b0; [reflexivity|]. cbn.
  destruct (eid e) as [i|]; [|apply IH].
  pose proof (pw_replace_key c b i e b0) as HK.
  destruct (pw_replace c b i e) as [c' [o|k|]]; cbn in *; [|assumption|assumption].
  now rewrite IH.
Qed.

Lemma pw_insert_rows_props : forall es c k b b',
  pw_Inv c -> b' <> b -> pw_key c b = Some k ->
  pw_Inv (pw_insert_rows c k es) /\ pw_key (pw_insert_rows c k es) b = Some k /\
  pw_view (pw_insert_rows c k es) b' = pw_view c b'.
Proof.
  unfold pw_insert_rows. induction es as [|e t IH]; intros c k b b' I D K; [auto|]. cbn [fold_left].
  assert (I' : pw_Inv (fst (pw_insert_event c k e))).
  { apply pw_Inv_insert_event; [assumption|]. eapply pw_key_In; eassumption. }
  destruct (IH (fst (pw_insert_event c k e)) k b b' I' D K) as [H1 [H2 H3]].
  split; [assumption|split; [assumption|]]. rewrite H3. eapply pw_insert_event_frame; eassumption.
Qed.

Lemma pw_insert_rows_Inv : forall es c k,
  pw_Inv c -> In k (map pb_key (pw_buckets c)) -> pw_Inv (pw_insert_rows c k es) /\
  pw_buckets (pw_insert_rows c k es) = pw_buckets c.
Proof.
  unfold pw_insert_rows. induction es as [|e t IH]; intros c k I K; [auto|]. cbn [fold_left].
  destruct (IH (fst (pw_insert_event c k e)) k) as [H1 H2];
    [now apply pw_Inv_insert_event|exact K|]. split; [assumption|exact H2].
Qed.

Lemma pw_chunks_props : forall chs c k b b',
  pw_Inv c -> b' <> b -> pw_key c b = Some k ->
  let c' := fold_left (fun c chunk => pw_insert_rows c k chunk) chs c in
  pw_Inv c' /\ pw_view c' b' = pw_view c b'.
Proof.
  induction chs as [|ch t IH]; intros c k b b' I D K; cbn; [auto|].
  destruct (pw_insert_rows_props ch c k b b' I D K) as [H1 [H2 H3]].
  destruct (IH (pw_insert_rows c k ch) k b b' H1 D H2) as [H4 H5]. split; [assumption|].
  cbn in H5. now rewrite H5.
Qed.

Lemma pw_chunks_Inv : forall chs c k,
  pw_Inv c -> In k (map pb_key (pw_buckets c)) ->
  pw_Inv (fold_left (fun c chunk => pw_insert_rows c k chunk) chs c).
Proof.
  induction chs as [|ch t IH]; intros c k I K; cbn; [assumption|].
  destruct (pw_insert_rows_Inv ch c k I K) as [H1 H2]. apply IH; [assumption|]. now rewrite H2.
Qed.

(* ---------- statements on bucketmodel ---------- *)
Lemma pw_Inv_create : forall c b m c',
  pw_insert_bucket c b m = Ok c' -> pw_Inv c -> pw_Inv (refresh_keys c').
Proof.
  intros c b m c' H I. unfold pw_insert_bucket in H.
  destruct (existsb _ _) eqn:X; [discriminate|]. inversion H; subst; clear H.
  destruct I as [I1 I2 I3 I4 I5]. constructor; cbn; try assumption.
  - rewrite map_app. cbn. apply NoDup_app_snoc; [assumption|apply new_rowid_fresh].
  - rewrite map_app. cbn. apply NoDup_app_snoc; [assumption|].
    intro Hin. apply in_map_iff in Hin as [x [Ex Ix]].
    assert (existsb (fun r => pb_id r =? b) (pw_buckets c) = true); [|congruence].
    apply existsb_exists. exists x. split; [assumption|lia].
  - intros y Hy. rewrite map_app. apply in_app_iff. left. now apply I4.
  - reflexivity.
Qed.

Lemma pw_create_frame : forall c b m c' b',
  b' <> b -> pw_insert_bucket c b m = Ok c' -> pw_view (refresh_keys c') b' = pw_view c b'.
Proof.
  intros c b m c' b' D H. unfold pw_insert_bucket in H.
  destruct (existsb _ _); [discriminate|]. inversion H; subst; clear H.
  rewrite !pw_view_row. unfold pbucket_row. cbn. rewrite find_app. cbn.
  destruct (find _ (pw_buckets c)); [reflexivity|].
  destruct (b =? b') eqn:X; [lia|reflexivity].
Qed.

Lemma pw_get_bucket_row : forall c b k r1,
  pw_Inv c -> pw_key c b = Some k -> pw_get_bucket c k = Some r1 ->
  In r1 (pw_buckets c) /\ pb_id r1 = b /\ pb_key r1 = k.
Proof.
  intros c b k r1 I K G. unfold pw_get_bucket in G. apply find_some in G as [G1 G2].
  apply pw_key_row in K as [r [_ [Ir [Eid Ek]]]]; [|assumption].
  assert (r1 = r) by (apply (key_row_unique c); try assumption; lia). subst. auto.
Qed.

Lemma pw_Inv_save_bucket : forall c r1 m,
  pw_Inv c -> In r1 (pw_buckets c) ->
  pw_Inv (pw_save_bucket c (mkPbrow (pb_key r1) (pb_id r1) m)).
Proof.
  intros c r1 m I I1'. pose proof I as [I1 I2 I3 I4 I5]. unfold pw_save_bucket.
  assert (Same : forall r, In r (pw_buckets c) -> (pb_key r =? pb_key r1) = true -> r = r1).
  { intros r Ir Q. apply (key_row_unique c); try assumption. lia. }
  constructor; cbn.
  - rewrite map_update_where; [assumption|reflexivity].
  - rewrite map_update_where_in; [assumption|]. intros r Ir Q. cbn. now rewrite (Same r Ir Q).
  - assumption.
  - intros y Hy. rewrite map_update_where; [now apply I4|reflexivity].
  - rewrite I5. symmetry. apply map_update_where_in. intros r Ir Q. cbn. now rewrite (Same r Ir Q).
Qed.

Lemma pw_save_bucket_frame : forall c r1 m b b',
  pw_Inv c -> b' <> b -> In r1 (pw_buckets c) -> pb_id r1 = b ->
  pw_view (pw_save_bucket c (mkPbrow (pb_key r1) (pb_id r1) m)) b' = pw_view c b'.
Proof.
  intros c r1 m b b' I D I1 E1. rewrite !pw_view_row. unfold pbucket_row, pw_save_bucket. cbn.
  rewrite find_update_where_other; [reflexivity|].
  intros r Ir Q. cbn in Q.
  assert (r = r1) by (apply (key_row_unique c); try assumption; lia). subst r.
  split; cbn; lia.
Qed.

Lemma pw_Inv_delete_bucket : forall c k,
  pw_Inv c -> pw_Inv (refresh_keys (pw_delete_bucket_row (pw_delete_events_of c k) k)).
Proof.
  intros c k I. destruct I as [I1 I2 I3 I4 I5].
  unfold refresh_keys, pw_delete_bucket_row, pw_delete_events_of. constructor; cbn.
  - now apply NoDup_map_delete_where.
  - now apply NoDup_map_delete_where.
  - now apply NoDup_map_delete_where.
  - intros y Hy. apply In_delete_where in Hy as [Hy Q]. specialize (I4 y Hy).
    apply in_map_iff in I4 as [br [Eb Ib]]. apply in_map_iff. exists br. split; [assumption|].
    unfold delete_where. apply filter_In. split; [assumption|]. lia.
  - reflexivity.
Qed.

Lemma pw_delete_bucket_frame : forall c b k b',
  pw_Inv c -> b' <> b -> pw_key c b = Some k ->
  pw_view (refresh_keys (pw_delete_bucket_row (pw_delete_events_of c k) k)) b' = pw_view c b'.
Proof.
  intros c b k b' I D K. rewrite !pw_view_row.
  unfold pbucket_row, refresh_keys, pw_delete_bucket_row, pw_delete_events_of.
  cbn [pw_buckets pw_events pw_with_buckets pw_with_events].
  assert (F : forall r', pbucket_row c b' = Some r' -> k <> pb_key r').
  { intros r' Hr'. eapply foreign_key; eassumption. }
  unfold pbucket_row in F.
  rewrite find_delete_where_other.
  - destruct (find (fun r => pb_id r =? b') (pw_buckets c)) as [r'|] eqn:Fr; [|reflexivity].
    specialize (F r' eq_refl). f_equal. f_equal. f_equal.
    apply filter_delete_where_other. intros r Ir Q. lia.
  - intros r Ir P. destruct (pb_key r =? k) eqn:Q; [|reflexivity]. exfalso.
    apply pw_key_row in K as [r0 [_ [Ir0 [Eid0 Ek0]]]]; [|assumption].
    assert (r = r0) by (apply (key_row_unique c); try assumption; lia). subst r. lia.
Qed.

(* ---------- invariant: every op ---------- *)
Theorem pw_step_Inv : forall c o, pw_Inv c -> pw_Inv (fst (pw_step c o)).
Proof.
  intros c o I. destruct o as [b m|b ty cl ho na da|b| |b|b e|b es|b i e|b e|b i|b i|b l s e|b s e];
    cbn [pw_step].
  - destruct (pw_insert_bucket c b m) as [c'|k|] eqn:E; [|assumption|assumption].
    cbn. eapply pw_Inv_create; eassumption.
  - destruct (pw_key c b) as [k|] eqn:K; [|assumption].
    destruct (pw_get_bucket c k) as [r1|] eqn:G; [|assumption]. cbn.
    apply pw_Inv_save_bucket; [assumption|]. eapply pw_get_bucket_row; eassumption.
  - destruct (pw_key c b) as [k|]; [|assumption]. cbn. now apply pw_Inv_delete_bucket.
  - assumption.
  - destruct (pw_key c b) as [k|]; [|assumption]. destruct (pw_get_bucket c k); assumption.
  - destruct (eid e) as [i|]; [now apply pw_replace_Inv|].
    destruct (pw_key c b) as [k|] eqn:K; [|assumption].
    apply (pw_Inv_insert_event c k e I). eapply pw_key_In; eassumption.
  - pose proof (pw_upserts_Inv es c b I) as H. pose proof (pw_upserts_key es c b b) as HK.
    destruct (pw_upserts c b es) as [c1 [o|k|]]; cbn in *; [|assumption|assumption].
    destruct (filter pno_id es) as [|n ns]; [assumption|].
    destruct (pw_key c1 b) as [k|] eqn:K; [|assumption]. cbn.
    apply pw_chunks_Inv; [assumption|]. eapply pw_key_In; eassumption.
  - now apply pw_replace_Inv.
  - destruct (pw_key c b) as [k|]; [|assumption].
    destruct (pw_select_last c k) as [r|] eqn:S; [|assumption]. cbn.
    apply pw_select_last_In in S as [S _]. now apply pw_Inv_save_event.
  - destruct (pw_key c b) as [k|]; [|assumption]. exact (pw_Inv_delete_event c k i I).
  - destruct (pw_key c b); assumption.
  - destruct (l =? 0); [assumption|]. destruct (pw_key c b); assumption.
  - destruct (pw_key c b); assumption.
Qed.

Lemma pw_run_Inv : forall h c, pw_Inv c -> pw_Inv (pw_run c h).
Proof.
  induction h as [|o t IH]; intros c I; [assumption|]. cbn. apply IH. now apply pw_step_Inv.
Qed.

(* ---------- C04: frame, every op, every argument ---------- *)
Theorem pw_frame : forall c o b', pw_Inv c -> target o <> Some b' ->
  pw_view (fst (pw_step c o)) b' = pw_view c b'.
Proof.
  intros c o b' I T.
  destruct o as [b m|b ty cl ho na da|b| |b|b e|b es|b i e|b e|b i|b i|b l s e|b s e]; cbn in T;
    try (assert (D : b' <> b) by congruence); cbn [pw_step].
  - destruct (pw_insert_bucket c b m) as [c'|k|] eqn:E; [|reflexivity|reflexivity].
    cbn. eapply pw_create_frame; eassumption.
  - destruct (pw_key c b) as [k|] eqn:K; [|reflexivity].
    destruct (pw_get_bucket c k) as [r1|] eqn:G; [|reflexivity]. cbn.
    destruct (pw_get_bucket_row c b k r1 I K G) as [G1 [G2 G3]].
    eapply pw_save_bucket_frame; eassumption.
  - destruct (pw_key c b) as [k|] eqn:K; [|reflexivity]. cbn. eapply pw_delete_bucket_frame; eassumption.
  - reflexivity.
  - destruct (pw_key c b) as [k|]; [|reflexivity]. destruct (pw_get_bucket c k); reflexivity.
  - destruct (eid e) as [i|]; [now apply pw_replace_frame|].
    destruct (pw_key c b) as [k|] eqn:K; [|reflexivity].
    exact (pw_insert_event_frame c k e b b' I D K).
  - pose proof (pw_upserts_Inv es c b I) as H. pose proof (pw_upserts_key es c b b) as HK.
    pose proof (pw_upserts_frame es c b b' I D) as HF.
    destruct (pw_upserts c b es) as [c1 [o|k|]]; cbn in *; [|assumption|assumption].
    destruct (filter pno_id es) as [|n ns]; [assumption|].
    destruct (pw_key c1 b) as [k|] eqn:K; [|assumption]. cbn.
    destruct (pw_chunks_props (chunks 100 (n :: ns)) c1 k b b' H D K) as [_ H2].
    cbn in H2. now rewrite H2.
  - now apply pw_replace_frame.
  - destruct (pw_key c b) as [k|] eqn:K; [|reflexivity].
    destruct (pw_select_last c k) as [r|] eqn:S; [|reflexivity]. cbn.
    apply pw_select_last_In in S as [S1 S2]. eapply pw_save_event_frame; eassumption.
  - destruct (pw_key c b) as [k|] eqn:K; [|reflexivity]. exact (pw_delete_event_frame c k i b b' I D K).
  - destruct (pw_key c b); reflexivity.
  - destruct (l =? 0); [reflexivity|]. destruct (pw_key c b); reflexivity.
  - destruct (pw_key c b); reflexivity.
Qed.

Lemma pw_frame_reachable : forall h o b', target o <> Some b' ->
  pw_view (fst (pw_step (pw_run pw_init h) o)) b' = pw_view (pw_run pw_init h) b'.
Proof. intros h o b'. apply pw_frame, pw_run_Inv, pw_Inv_init. Qed.
