(* Laws of Model/DictHeap.v (the code of a dict skeleton is invertible; zip/unzip; reading a
   dict cell that was just written) and the vocabulary shared by the heap-level models of
   the C16 and C19 transforms:
   [kept h0 h]       FRAME: h has every cell of h0, with the content it had;
   [grown P h0 h]    kept, and a cell allocated since refers only to cells allocated since
                     or to old cells satisfying P (the SHARING statement);
   steps that preserve closedness and acyclicity (for Props/C12's confinement). *)
From AwVerif Require Import Base.Prelude Model.MemHeap Model.TransformHeap Model.DictHeap
  Proofs.MemHeapBase Proofs.MemHeapCopy Proofs.MemHeapFrame Proofs.TransformHeapCopy
  Proofs.TransformHeapBase.
From Coq Require Import Arith Relations.
Local Open Scope nat_scope.

(* ------------------------------------------------------------------------- *)
(* the code *)

Lemma of_sgn_of : forall z, of_sgn (sgn_of z) (Z.abs_nat z) = z.
Proof.
  intro z. unfold sgn_of, of_sgn. rewrite Zabs2Nat.id_abs.
  destruct (Z.ltb_spec z 0); lia.
Qed.

Lemma parse_flat : forall d, parse (flat d) = d.
Proof.
  induction d as [|[k [v|]] t IH]; cbn [flat parse]; auto.
  - rewrite !of_sgn_of, IH. reflexivity.
  - rewrite of_sgn_of, IH. reflexivity.
Qed.

Lemma pdec_ones : forall n p c, pdec (ones n p) c = pdec p (c + n).
Proof.
  induction n as [|n IH]; intros p c; cbn [ones pdec].
  - now rewrite Nat.add_0_r.
  - rewrite IH. f_equal. lia.
Qed.

Lemma pdec_penc : forall l, pdec (penc l) 0 = l.
Proof.
  induction l as [|n t IH]; cbn [penc]; auto.
  rewrite pdec_ones. cbn [pdec]. now rewrite IH.
Qed.

Theorem ddec_denc : forall d, ddec (denc d) = d.
Proof.
  intro d. unfold ddec, denc.
  assert (E : (- Z.pos (penc (flat d)) - 10 <? -10)%Z = true) by (apply Z.ltb_lt; lia).
  rewrite E.
  replace (- (- Z.pos (penc (flat d)) - 10 + 10))%Z with (Z.pos (penc (flat d))) by lia.
  cbn [Z.to_pos]. now rewrite pdec_penc, parse_flat.
Qed.

Lemma denc_lt : forall d, (denc d < -10)%Z.
Proof. intro d. unfold denc. lia. Qed.

Lemma denc_inj : forall a b, denc a = denc b -> a = b.
Proof. intros a b E. rewrite <- (ddec_denc a), <- (ddec_denc b). now rewrite E. Qed.

Lemma ldec_lenc : forall l, ldec (lenc l) = l.
Proof.
  intro l. unfold ldec, lenc. rewrite ddec_denc, map_map. cbn. apply map_id.
Qed.

Lemma ddec_label : forall p, (-10 <= p)%Z -> ddec p = [].
Proof. intros p H. unfold ddec. destruct (Z.ltb_spec p (-10)); auto. lia. Qed.

Global Opaque denc ddec.

(* ------------------------------------------------------------------------- *)
(* zip / unzip *)

Lemma zip_unzip : forall z, zip (unzip_d z) (unzip_k z) = Some z.
Proof.
  induction z as [|[k [v|l]] t IH]; cbn [unzip_d unzip_k zip]; auto; now rewrite IH.
Qed.

Lemma unzip_zip : forall d ks z, zip d ks = Some z -> unzip_d z = d /\ unzip_k z = ks.
Proof.
  induction d as [|[k [v|]] t IH]; cbn [zip]; intros ks z H.
  - destruct ks; inversion H; auto.
  - destruct (zip t ks) as [r|] eqn:E; inversion H; subst. cbn.
    destruct (IH _ _ E) as [-> ->]. auto.
  - destruct ks as [|l ks']; try discriminate.
    destruct (zip t ks') as [r|] eqn:E; inversion H; subst. cbn.
    destruct (IH _ _ E) as [-> ->]. auto.
Qed.

Lemma zget_zset_same : forall k v z, zget k (zset k v z) = Some v.
Proof.
  induction z as [|[k' v'] t IH]; cbn [zset zget].
  - now rewrite Z.eqb_refl.
  - destruct (k' =? k)%Z eqn:E; cbn [zget]; rewrite E; auto.
Qed.

Lemma zget_zset_other : forall k k' v z, k' <> k -> zget k' (zset k v z) = zget k' z.
Proof.
  intros k k' v. induction z as [|[k0 v0] t IH]; cbn [zset zget]; intro N.
  - destruct (Z.eqb_spec k k'); [congruence|auto].
  - destruct (Z.eqb_spec k0 k) as [->|N0]; cbn [zget].
    + destruct (Z.eqb_spec k k'); [congruence|reflexivity].
    + destruct (k0 =? k')%Z; auto.
Qed.

(* the references of a dict after d[k] = v: those it had (minus, possibly, the one
   overwritten) and the one stored *)
Lemma unzip_k_zset : forall k v z l, In l (unzip_k (zset k v z)) ->
  In l (unzip_k z) \/ v = ZK l.
Proof.
  intros k v. induction z as [|[k0 v0] t IH]; cbn [zset]; intros l Hin.
  - destruct v; cbn in Hin; [contradiction|]. destruct Hin as [->|[]]. auto.
  - destruct (k0 =? k)%Z.
    + destruct v as [x|m]; destruct v0 as [x0|m0]; cbn [unzip_k In] in *; intuition (subst; auto).
    + destruct v0 as [x0|m0]; cbn [unzip_k In] in *.
      * apply IH; auto.
      * destruct Hin as [->|Hin]; auto. destruct (IH _ Hin); auto.
Qed.

Lemma zget_unzip_k : forall k z l, zget k z = Some (ZK l) -> In l (unzip_k z).
Proof.
  intros k. induction z as [|[k0 v0] t IH]; cbn [zget]; intros l H; try discriminate.
  destruct (k0 =? k)%Z.
  - inversion H; subst. cbn. auto.
  - destruct v0; cbn [unzip_k]; auto. right; auto.
Qed.

(* ------------------------------------------------------------------------- *)
(* dict cells *)

Lemma rd_dict_inv : forall h d z, rd_dict h d = Ok z ->
  exists p ks, lookup h d = Some (Cell (TNode p) ks) /\ zip (ddec p) ks = Some z /\
               unzip_d z = ddec p /\ unzip_k z = ks.
Proof.
  unfold rd_dict. intros h d z H.
  destruct (lookup h d) as [[[? ? ?|p] ks]|]; try discriminate.
  destruct (zip (ddec p) ks) as [r|] eqn:E; inversion H; subst.
  destruct (unzip_zip _ _ _ E). eauto 6.
Qed.

Lemma rd_dict_cell : forall h d z, lookup h d = Some (dict_cell z) -> rd_dict h d = Ok z.
Proof.
  intros h d z L. unfold rd_dict. rewrite L. unfold dict_cell.
  now rewrite ddec_denc, zip_unzip.
Qed.

Lemma rd_dict_agree : forall h h' d, lookup h' d = lookup h d -> rd_dict h' d = rd_dict h d.
Proof. intros h h' d E. unfold rd_dict. now rewrite E. Qed.

Lemma wr_dict_inv : forall h d z h', wr_dict h d z = Ok h' ->
  exists p ks, lookup h d = Some (Cell (TNode p) ks) /\ h' = update h d (dict_cell z).
Proof.
  unfold wr_dict. intros h d z h' H.
  destruct (lookup h d) as [[[? ? ?|p] ks]|]; inversion H; subst. eauto.
Qed.

Lemma ev_fields_inv : forall h l f, ev_fields h l = Ok f ->
  lookup h l = Some (Cell (TEv (fst (fst (fst f))) (snd (fst (fst f))) (snd (fst f))) [snd f]).
Proof.
  unfold ev_fields. intros h l f H.
  destruct (lookup h l) as [[[i t d|p] [|dl [|? ?]]]|]; inversion H; subst. reflexivity.
Qed.

Lemma rd_data_inv : forall h l dl, rd_data h l = Ok dl ->
  exists i t d, lookup h l = Some (Cell (TEv i t d) [dl]).
Proof.
  unfold rd_data. intros h l dl H. destruct (ev_fields h l) as [f| |] eqn:F; inversion H; subst.
  apply ev_fields_inv in F. eauto.
Qed.

Lemma ev_dict_inv : forall h e z, ev_dict h e = Ok z ->
  exists i t d dl, lookup h e = Some (Cell (TEv i t d) [dl]) /\ rd_dict h dl = Ok z.
Proof.
  unfold ev_dict. intros h e z H. destruct (rd_data h e) as [dl| |] eqn:R; cbn [bind] in H; try discriminate.
  destruct (rd_data_inv _ _ _ R) as (i & t & d & L). eauto 6.
Qed.

Lemma ev_fields_agree : forall h h' l, lookup h' l = lookup h l -> ev_fields h' l = ev_fields h l.
Proof. intros h h' l E. unfold ev_fields. now rewrite E. Qed.

(* ------------------------------------------------------------------------- *)
(* FRAME *)

Definition kept (h0 h : heap) : Prop :=
  length h0 <= length h /\ forall l, l < length h0 -> lookup h l = lookup h0 l.

Lemma kept_refl : forall h, kept h h.
Proof. intro h. split; auto. Qed.

Lemma kept_trans : forall a b c, kept a b -> kept b c -> kept a c.
Proof.
  intros a b c [G1 F1] [G2 F2]. split; [lia|]. intros l B. rewrite F2 by lia. auto.
Qed.

Lemma kept_alloc : forall h0 h c, kept h0 h -> kept h0 (h ++ [c]).
Proof.
  intros h0 h c [G F]. split; [rewrite app_length; cbn; lia|].
  intros l B. rewrite lookup_app_old by lia. auto.
Qed.

Lemma kept_update : forall h0 h l c, kept h0 h -> length h0 <= l -> kept h0 (update h l c).
Proof.
  intros h0 h l c [G F] Ge. split; [rewrite update_length; lia|].
  intros m B. rewrite lookup_update_other by lia. auto.
Qed.

Lemma framed_kept : forall h0 h, framed h0 h -> kept h0 h.
Proof. intros h0 h (G & F & _). split; auto. Qed.

Lemma kept_some : forall h0 h l c, kept h0 h -> lookup h0 l = Some c -> lookup h l = Some c.
Proof. intros h0 h l c [G F] L. rewrite F; auto. eapply lookup_lt; eauto. Qed.

(* an old location reaches only old locations, and the same ones as before *)
Lemma kept_rt_old : forall h0 h a b, kept h0 h -> closed h0 -> a < length h0 -> rt h a b ->
  b < length h0 /\ rt h0 a b.
Proof.
  intros h0 h a b [G F] Cl B R. apply clos_rt_rtn1 in R. induction R.
  - split; auto. apply rt_here.
  - destruct IHR as [Y R0]. destruct H as (c & L & I). rewrite F in L by auto.
    split; [eapply Cl; eauto|]. eapply rt_snoc; eauto. exists c; auto.
Qed.

Lemma kept_content : forall h0 h r f, kept h0 h -> closed h0 -> r < length h0 ->
  content f h r = content f h0 r.
Proof.
  intros h0 h r f [G F] Cl B. apply content_agree. intros m P. apply F. eapply rt_closed; eauto.
Qed.

(* ------------------------------------------------------------------------- *)
(* FRAME + SHARING *)

Definition grown (P : loc -> Prop) (h0 h : heap) : Prop :=
  kept h0 h /\
  forall l c k, length h0 <= l -> lookup h l = Some c -> In k (children c) ->
                k < l /\ (length h0 <= k \/ P k).

Lemma grown_refl : forall P h, grown P h h.
Proof. intros P h. split; [apply kept_refl|]. intros l c k G L. apply lookup_lt in L. lia. Qed.

Lemma grown_kept : forall P h0 h, grown P h0 h -> kept h0 h.
Proof. intros P h0 h [K _]. exact K. Qed.

Lemma grown_mono : forall (P Q : loc -> Prop) h0 h, (forall k, P k -> Q k) -> grown P h0 h -> grown Q h0 h.
Proof.
  intros P Q h0 h M [K S]. split; auto. intros l c k G L I.
  destruct (S l c k G L I) as [B [N|O]]; auto.
Qed.

Lemma grown_alloc : forall (P : loc -> Prop) h0 h c, grown P h0 h ->
  (forall k, In k (children c) -> k < length h /\ (length h0 <= k \/ P k)) ->
  grown P h0 (h ++ [c]).
Proof.
  intros P h0 h c [K S] C. split; [now apply kept_alloc|].
  intros l c' k G L I.
  apply lookup_alloc_inv in L. destruct L as [[_ L]|[-> ->]]; eauto.
Qed.

Lemma grown_update : forall (P : loc -> Prop) h0 h l c, grown P h0 h -> length h0 <= l ->
  (forall k, In k (children c) -> k < l /\ (length h0 <= k \/ P k)) ->
  grown P h0 (update h l c).
Proof.
  intros P h0 h l c [K S] Ge C. split; [now apply kept_update|].
  intros m c' k G L I.
  destruct (Nat.eq_dec m l) as [->|N].
  - pose proof (lookup_lt _ _ _ L) as B. rewrite update_length in B.
    rewrite lookup_update_same in L by auto. inversion L; subst. auto.
  - rewrite lookup_update_other in L by auto. eauto.
Qed.

(* an assignment to an attribute of an Event allocated since *)
Lemma grown_retag : forall (P : loc -> Prop) h0 h l t t' ks, grown P h0 h -> length h0 <= l ->
  lookup h l = Some (Cell t ks) -> grown P h0 (update h l (Cell t' ks)).
Proof.
  intros P h0 h l t t' ks G Ge L. apply grown_update; auto.
  intros k I. destruct G as [K S]. apply (S l _ k Ge L I).
Qed.

(* the statement in the vocabulary of Proofs/MemHeapFrame.v *)
Lemma grown_confined : forall (P : loc -> Prop) h0 h A, grown P h0 h ->
  (forall k, P k -> reach h0 A k) -> confined h0 A h.
Proof.
  intros P h0 h A [[G F] S] M. constructor; auto.
  intros l c k L D I.
  destruct (Nat.lt_ge_cases l (length h0)) as [Y|Y].
  - destruct D as [D|D]; [lia|]. rewrite F in L by auto. congruence.
  - destruct (S l c k Y L I) as [_ [N|O]]; auto.
Qed.

Lemma grown_closed : forall P h0 h, grown P h0 h -> closed h0 -> closed h.
Proof.
  intros P h0 h [[G F] S] Cl l c k L I.
  destruct (Nat.lt_ge_cases l (length h0)) as [Y|Y].
  - rewrite F in L by auto. specialize (Cl _ _ _ L I). lia.
  - destruct (S l c k Y L I) as [B _]. apply lookup_lt in L. lia.
Qed.

(* new cells refer to earlier cells only, old cells are as they were: no new cycle *)
Lemma grown_tc : forall P h0 h, grown P h0 h -> closed h0 ->
  forall a b, tc h a b -> (length h0 <= a -> b < a) /\ (a < length h0 -> b < length h0 /\ tc h0 a b).
Proof.
  intros P h0 h [[G F] S] Cl a b T. induction T as [a b E|a m b T1 IH1 T2 IH2].
  - destruct E as (c & L & I). split; intro Y.
    + apply (S a c b Y L I).
    + rewrite F in L by auto. split; [eapply Cl; eauto|]. apply t_step. exists c; auto.
  - split; intro Y.
    + destruct IH1 as [A1 _]. specialize (A1 Y).
      destruct (Nat.lt_ge_cases m (length h0)) as [M|M].
      * destruct IH2 as [_ B2]. destruct (B2 M). lia.
      * destruct IH2 as [A2 _]. specialize (A2 M). lia.
    + destruct IH1 as [_ B1]. destruct (B1 Y) as [M T1'].
      destruct IH2 as [_ B2]. destruct (B2 M) as [Z T2']. split; auto. eapply t_trans; eauto.
Qed.

Lemma grown_wf : forall P h0 h, grown P h0 h -> wf h0 -> wf h.
Proof.
  intros P h0 h Gr [Cl Ac]. split; [eapply grown_closed; eauto|].
  intros l T. destruct (grown_tc _ _ _ Gr Cl _ _ T) as [A B].
  destruct (Nat.lt_ge_cases l (length h0)) as [Y|Y].
  - destruct (B Y) as [_ T0]. apply (Ac l T0).
  - specialize (A Y). lia.
Qed.

(* ------------------------------------------------------------------------- *)
(* acyclicity of the steps the transforms perform *)

Lemma wf_alloc : forall h c, wf h -> (forall k, In k (children c) -> k < length h) -> wf (h ++ [c]).
Proof. intros h c [C A] K. split; [now apply closed_alloc|now apply acyclic_alloc]. Qed.

Lemma wf_retag : forall h l t t' ks, wf h -> lookup h l = Some (Cell t ks) -> wf (update h l (Cell t' ks)).
Proof.
  intros h l t t' ks [C A] L. split.
  - apply closed_update; auto. cbn. intros k I. eapply C; eauto.
  - intros m T. apply (A m). eapply tc_update_tag; eauto.
Qed.

(* the cell at l gets new members none of which reaches l *)
Lemma wf_update : forall h l c, wf h -> l < length h ->
  (forall k, In k (children c) -> k < length h /\ ~ rt h k l) -> wf (update h l c).
Proof.
  intros h l c [C A] B K. split.
  - apply closed_update; auto. intros k I. apply K; auto.
  - apply acyclic_update; auto. intros k I. apply K; auto.
Qed.

(* a member the cell already has does not reach it *)
Lemma child_not_back : forall h l c k, acyclic h -> lookup h l = Some c -> In k (children c) -> ~ rt h k l.
Proof.
  intros h l c k A L I R. apply (A l). eapply edge_rt_tc; eauto. exists c; auto.
Qed.

(* an object without members reaches only itself *)
Lemma leaf_rt : forall h k t b, lookup h k = Some (Cell t []) -> rt h k b -> b = k.
Proof.
  intros h k t b L R. apply clos_rt_rt1n in R. destruct R as [|y z E R]; auto.
  destruct E as (c & L' & I). rewrite L in L'. inversion L'; subst. destruct I.
Qed.
