(* C11 round trip: parse_tok on the printed text of a well-formed term rebuilds the term
   (parse_tok_exact), for every layout, by induction on terms. *)
From AwVerif Require Import Base.Prelude Model.PyStr Model.Query Model.QueryRef
  Proofs.QueryScan Proofs.QueryTotal Proofs.QueryClasses Proofs.QueryRefStr Proofs.QueryRefScan
  Proofs.QueryRefToken Proofs.QueryRefParse Proofs.QueryRefLoops Proofs.QueryRefDict.
From Coq Require Import ZifyBool Lia.
Open Scope Z_scope.

Lemma digits_val_exact ds : forallb is_digit ds = true ->
  forall acc, digits_val acc ds = Ok (fold_left (fun a c => 10 * a + (c - 48)) ds acc).
Proof.
  induction ds as [|c t IH]; intros H acc; [reflexivity|]. cbn [forallb] in H.
  apply andb_true_iff in H. destruct H as [Hc Ht]. cbn [digits_val fold_left]. rewrite Hc. apply IH. assumption.
Qed.

Lemma py_int_exact md ds : ds <> [] -> forallb is_digit ds = true ->
  (md = 0%nat \/ (length ds <= md)%nat) -> py_int md ds = Ok (num_val ds).
Proof.
  intros Hne Hd Hm. unfold py_int. destruct ds as [|c t]; [congruence|].
  replace (negb (Nat.eqb md 0) && Nat.ltb md (length (c :: t))) with false.
  - apply digits_val_exact. assumption.
  - symmetry. destruct Hm as [->|Hm]; [reflexivity|]. apply andb_false_iff. right. apply Nat.ltb_ge. assumption.
Qed.

Lemma arg_start_name n y : forallb name_char n = true -> arg_start_of (n ++ c_lpar :: y) = length n.
Proof.
  induction n as [|c t IH]; intro H; [reflexivity|]. cbn [forallb] in H. apply andb_true_iff in H.
  destruct H as [Hc Ht]. cbn [app arg_start_of length]. apply name_char_facts in Hc.
  replace (c =? c_lpar) with false by lia. f_equal. apply IH. assumption.
Qed.

Section Term.
  Variable lay : layout.
  Hypothesis Hlay : wf_layout lay.
  Variable md : nat.
  Variable ns : namespace.

  Notation txt := (txt lay).
  Notation ptok := (parse_tok md ns).

  Lemma ptok_fn f s : ptok (S f) TFunction s =
    bind (parse_args md ns f (slice (arg_start_of s + 1) (length s - 1) s))
         (fun args => Ok (QFunction (take (arg_start_of s) s) args)).
  Proof. reflexivity. Qed.
  Lemma ptok_list f s : ptok (S f) TList s = bind (parse_list md ns f (slice_1_m1 s) []) (fun l => Ok (QList l)).
  Proof. reflexivity. Qed.

  Lemma slice_1_m1_wrap o (x : str) c : slice_1_m1 ([o] ++ x ++ [c]) = x.
  Proof. unfold slice_1_m1. cbn [app tl]. apply removelast_last. Qed.

  Lemma parse_args_blank f b : all_space b = true -> parse_args md ns (S f) b = Ok [].
  Proof. intro H. cbn [parse_args]. rewrite strip_all_space by assumption. reflexivity. Qed.
  Lemma parse_list_blank f b acc : all_space b = true -> parse_list md ns (S f) b acc = Ok acc.
  Proof. intro H. cbn [parse_list]. rewrite strip_all_space by assumption. reflexivity. Qed.

  Lemma ptok_dict f s : ptok (S f) TDict s = bind (parse_dict md ns f (slice_1_m1 s) []) (fun d => Ok (QDict d)).
  Proof. reflexivity. Qed.

  Lemma fuel_call (n inn : str) f : (2 * length (n ++ [c_lpar] ++ inn ++ [c_rpar]) + 1 <= S f)%nat ->
    (2 * length inn + 2 <= f)%nat.
  Proof. rewrite !app_length. cbn [length]. lia. Qed.
  Lemma fuel_wrap o (inn : str) c f : (2 * length ([o] ++ inn ++ [c]) + 1 <= S f)%nat ->
    (2 * length inn + 2 <= f)%nat.
  Proof. rewrite !app_length. cbn [length]. lia. Qed.

  (* parse (print t) = t for every well-formed term *)
  Theorem parse_tok_exact t : P lay md ns t.
  Proof.
    induction t as [ds|q s|n|n args IH|l IH|d IH] using term_ind2; unfold P; intros Hw p fuel Hf;
      (destruct fuel as [|f]; [lia|]); cbn [kind tok_of].
    - destruct Hw as (Hne & Hd & Hm). cbn [QueryRef.txt parse_tok]. rewrite py_int_exact by assumption. reflexivity.
    - destruct Hw as (Hq & He & _). cbn [QueryRef.txt parse_tok]. rewrite parse_string_exact by assumption. reflexivity.
    - reflexivity.
    - destruct Hw as [Hn Ha]. apply wf_all_forall in Ha. destruct (wf_name_chars n Hn) as [_ Hnc].
      rewrite ptok_fn. cbn [QueryRef.txt] in *.
      set (inn := inner lay txt p args) in *.
      assert (Eas : arg_start_of (n ++ [c_lpar] ++ inn ++ [c_rpar]) = length n) by (apply arg_start_name; assumption).
      rewrite Eas.
      assert (Et : take (length n) (n ++ [c_lpar] ++ inn ++ [c_rpar]) = n) by apply take_app_exact.
      rewrite Et.
      assert (Esl : slice (length n + 1) (length (n ++ [c_lpar] ++ inn ++ [c_rpar]) - 1)
                          (n ++ [c_lpar] ++ inn ++ [c_rpar]) = inn).
      { unfold slice. replace (n ++ [c_lpar] ++ inn ++ [c_rpar]) with ((n ++ [c_lpar]) ++ inn ++ [c_rpar]) by reassoc.
        rewrite (drop_app_exact' (n ++ [c_lpar]) (inn ++ [c_rpar])) by (rewrite app_length; reflexivity).
        rewrite !app_length. cbn [length].
        replace (length n + 1 + (length inn + 1) - 1 - (length n + 1))%nat with (length inn) by lia.
        apply take_app_exact. }
      rewrite Esl. apply fuel_call in Hf.
      unfold inn, inner in *. destruct args as [|a0 args0].
      + destruct f as [|f']; [lia|]. rewrite parse_args_blank by apply Hlay. reflexivity.
      + rewrite (parse_args_exact lay Hlay md ns (a0 :: args0)); [reflexivity|assumption|assumption|congruence|apply Hlay|apply Hlay|assumption].
    - apply wf_all_forall in Hw.
      rewrite ptok_list. cbn [QueryRef.txt] in *.
      rewrite slice_1_m1_wrap. apply fuel_wrap in Hf.
      unfold inner in *. destruct l as [|a0 l0].
      + destruct f as [|f']; [lia|]. rewrite parse_list_blank by apply Hlay. reflexivity.
      + rewrite (parse_list_exact lay Hlay md ns (a0 :: l0)); [reflexivity|assumption|assumption|congruence| |apply Hlay|assumption].
        left. apply Hlay.
    - destruct Hw as [Hk Hw]. apply wf_entries_forall in Hw. rewrite ptok_dict. cbn [QueryRef.txt] in *.
      rewrite slice_1_m1_wrap. apply fuel_wrap in Hf.
      change (fun pe e => str_txt (fst (fst e)) (snd (fst e)) ++ lay pe 0%nat ++ [c_colon] ++ lay pe 1%nat ++
                txt (0%nat :: pe) (snd e)) with (prd lay) in *.
      unfold inner in *. destruct d as [|a0 d0].
      + destruct f as [|f']; [lia|]. rewrite (parse_dict_blank md ns) by apply Hlay. reflexivity.
      + rewrite (parse_dict_exact lay Hlay md ns (a0 :: d0)); [reflexivity|assumption|assumption|congruence
          |apply Hlay|apply Hlay|assumption| |assumption].
        intros x _ [].
  Qed.
End Term.

(* two layouts of one term give the same token tree *)
Lemma parse_layout_irrelevant lay1 lay2 md ns t p1 p2 f1 f2 :
  wf_layout lay1 -> wf_layout lay2 -> wf md t ->
  (2 * length (txt lay1 p1 t) + 1 <= f1)%nat -> (2 * length (txt lay2 p2 t) + 1 <= f2)%nat ->
  parse_tok md ns f1 (kind t) (txt lay1 p1 t) = parse_tok md ns f2 (kind t) (txt lay2 p2 t).
Proof.
  intros H1 H2 Hw F1 F2.
  rewrite (parse_tok_exact lay1 H1 md ns t Hw p1 f1 F1).
  rewrite (parse_tok_exact lay2 H2 md ns t Hw p2 f2 F2). reflexivity.
Qed.
