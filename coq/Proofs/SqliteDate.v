(* C03 -- SQLite's date arithmetic (Model/SqliteDate.v): the instant that
     strftime('%Y-%m-%d %H:%M:%f+00:00', (julianday(timestamp) - 2440587.5) * 86400.0 + duration, 'unixepoch')
   prints for a stored row is a whole millisecond within 562 us of timestamp + duration
   (timestamps at millisecond granularity from 1970 on, timestamp + duration < 2^52 us, durations
   0 .. 24 h, the duration cell a double within 1/64 us of the duration).  This discharges the
   oracle hypothesis sql_end_ok of Proofs/WindowPeewee.v for the engine MODEL.

   Error budget of the arithmetic core (in ms): julianday = RN(iJD / 86400000) is a number of
   days below 2^22, half an ulp is 2^-32 day = 0.0201 ms; the subtraction, the product, the sum
   with the cell and the product with 1000.0 add 0.0028 ms; adding 210866760000000.0 and 0.5
   happens below 2^48, where half an ulp is 2^-6 ms, twice; in all < 1/16 ms; the cast to an
   integer after + 0.5 is a rounding to the nearest millisecond (another 1/2 ms).
   Flocq; standard-library real-number axioms. *)
From Coq Require Import ZArith Reals Bool List Lia Lra Floats.
From Flocq Require Import Core IEEE754.BinarySingleNaN IEEE754.PrimFloat.
From AwVerif Require Import Base.Prelude Model.PyFloat Model.Codec Model.PeeweeStore Model.Window
  Model.SqliteDate Proofs.PyFloatSpec Proofs.WindowPeewee.
Open Scope Z_scope.

(* one rounding: the result stays far from overflow and within half an ulp *)
Lemma step_bound : forall (x : R) (e : Z), -1021 <= e <= 62 -> (Rabs x < bpow radix2 e)%R ->
  (Rabs (RN x) < bpow radix2 64)%R /\ (Rabs (RN x - x) <= bpow radix2 (e - 54))%R.
Proof.
  intros x e He Hx. pose proof (RN_err x e ltac:(lia) Hx) as E. split; [|exact E].
  replace (RN x) with ((RN x - x) + x)%R by ring. eapply Rle_lt_trans; [apply Rabs_triang|].
  assert (bpow radix2 (e - 54) < bpow radix2 e)%R by (apply bpow_lt; lia).
  assert (bpow radix2 e <= bpow radix2 62)%R by (apply bpow_le; lia).
  assert (2 * bpow radix2 62 < bpow radix2 64)%R.
  { change (2 * bpow radix2 62)%R with (bpow radix2 63). apply bpow_lt. lia. }
  lra.
Qed.

Lemma fmul_step : forall x y e, fin x -> fin y -> -1021 <= e <= 62 ->
  (Rabs (FR x * FR y) < bpow radix2 e)%R ->
  fin (x * y)%float /\ (Rabs (FR (x * y)%float - FR x * FR y) <= bpow radix2 (e - 54))%R.
Proof.
  intros x y e Fx Fy He B. destruct (step_bound _ _ He B) as [B1 E].
  destruct (fmul_spec x y Fx Fy B1) as [F V]. rewrite V. now split.
Qed.
Lemma fadd_step : forall x y e, fin x -> fin y -> -1021 <= e <= 62 ->
  (Rabs (FR x + FR y) < bpow radix2 e)%R ->
  fin (x + y)%float /\ (Rabs (FR (x + y)%float - (FR x + FR y)) <= bpow radix2 (e - 54))%R.
Proof.
  intros x y e Fx Fy He B. destruct (step_bound _ _ He B) as [B1 E].
  destruct (fadd_spec x y Fx Fy B1) as [F V]. rewrite V. now split.
Qed.
Lemma fsub_step : forall x y e, fin x -> fin y -> -1021 <= e <= 62 ->
  (Rabs (FR x - FR y) < bpow radix2 e)%R ->
  fin (x - y)%float /\ (Rabs (FR (x - y)%float - (FR x - FR y)) <= bpow radix2 (e - 54))%R.
Proof.
  intros x y e Fx Fy He B. destruct (step_bound _ _ He B) as [B1 E].
  destruct (fsub_spec x y Fx Fy B1) as [F V]. rewrite V. now split.
Qed.
Lemma fdiv_step : forall x y e, fin x -> fin y -> FR y <> 0%R -> -1021 <= e <= 62 ->
  (Rabs (FR x / FR y) < bpow radix2 e)%R ->
  fin (x / y)%float /\ (Rabs (FR (x / y)%float - FR x / FR y) <= bpow radix2 (e - 54))%R.
Proof.
  intros x y e Fx Fy Ny He B. destruct (step_bound _ _ He B) as [B1 E].
  destruct (fdiv_spec x y Fx Fy Ny B1) as [F V]. rewrite V. now split.
Qed.

(* constants *)
Lemma lit_val : forall f s m e, Prim2SF f = S754_finite s m e ->
  fin f /\ FR f = F2R (Float radix2 (if s then Zneg m else Zpos m) e).
Proof.
  intros f s m e H. cbv [Prim2B]. rewrite B2R_SF2B, is_finite_SF2B, H. split; [reflexivity|].
  unfold SF2R. destruct s; reflexivity.
Qed.

Lemma f2440587_5_spec : fin f2440587_5 /\ FR f2440587_5 = (4881175 / 2)%R.
Proof.
  destruct (lit_val f2440587_5 _ _ _ eq_refl) as [F V]. split; [exact F|]. rewrite V.
  unfold F2R. simpl. lra.
Qed.

Ltac bpv e :=
  match e with
  | Zpos ?p => let v := eval vm_compute in (Zpower_pos 2 p) in
               change (bpow radix2 e) with (IZR v) in *
  | Zneg ?p => let v := eval vm_compute in (Zpower_pos 2 p) in
               change (bpow radix2 e) with (/ IZR v)%R in *
  end.

Lemma ofZ_c : forall z, Z.abs z < 2 ^ 53 -> fin (of_Z z) /\ FR (of_Z z) = IZR z.
Proof. exact of_Z_spec. Qed.

(* the REAL value of (julianday(ts) - 2440587.5) * 86400.0 + duration *)
Lemma sd_expr_bound : forall J cell, EPOCH_MS <= J < EPOCH_MS + 4503599627371 ->
  fin cell -> (-1 <= FR cell <= 86401)%R ->
  fin (sd_expr (sd_julianday J) cell) /\
  (Rabs (FR (sd_expr (sd_julianday J) cell) - ((IZR J - IZR EPOCH_MS) / 1000 + FR cell))
     <= 22 / 1000000)%R.
Proof.
  intros J cell HJ Fc Hc. unfold EPOCH_MS in *.
  assert (Hj : (210866760000000 <= IZR J <= 215370359627370)%R) by (split; apply IZR_le; lia).
  set (j := IZR J) in *.
  destruct (ofZ_c J ltac:(lia)) as [FJ VJ]. fold j in VJ.
  destruct (ofZ_c 86400000 ltac:(lia)) as [Fd Vd]. fold f86400000 in Fd, Vd.
  destruct (ofZ_c 86400 ltac:(lia)) as [Fs Vs]. fold f86400 in Fs, Vs.
  destruct f2440587_5_spec as [Fe Ve].
  unfold sd_expr, sd_julianday.
  (* jd *)
  destruct (fdiv_step (of_Z J) f86400000 22 FJ Fd ltac:(rewrite Vd; lra) ltac:(lia)) as [F1 E1].
  { rewrite VJ, Vd. bpv 22. apply Rabs_lt. lra. }
  rewrite VJ, Vd in E1. change (22 - 54) with (-32) in E1. bpv (-32).
  set (jd := (of_Z J / f86400000)%float) in *. apply Rabs_le_inv in E1.
  (* a = jd - 2440587.5 *)
  destruct (fsub_step jd f2440587_5 16 F1 Fe ltac:(lia)) as [F2 E2].
  { rewrite Ve. bpv 16. apply Rabs_lt. lra. }
  rewrite Ve in E2. change (16 - 54) with (-38) in E2. bpv (-38).
  set (a := (jd - f2440587_5)%float) in *. apply Rabs_le_inv in E2.
  (* b = a * 86400 *)
  destruct (fmul_step a f86400 33 F2 Fs ltac:(lia)) as [F3 E3].
  { rewrite Vs. bpv 33. apply Rabs_lt. lra. }
  rewrite Vs in E3. change (33 - 54) with (-21) in E3. bpv (-21).
  set (b := (a * f86400)%float) in *. apply Rabs_le_inv in E3.
  (* x = b + cell *)
  destruct (fadd_step b cell 34 F3 Fc ltac:(lia)) as [F4 E4].
  { bpv 34. apply Rabs_lt. lra. }
  change (34 - 54) with (-20) in E4. bpv (-20).
  set (x := (b + cell)%float) in *. apply Rabs_le_inv in E4.
  split; [exact F4|]. apply Rabs_le. lra.
Qed.

Lemma f1000_spec : fin f1000 /\ FR f1000 = 1000%R.
Proof. unfold f1000. destruct (ofZ_c 1000 ltac:(lia)) as [F V]. now split. Qed.

(* the 'unixepoch' modifier on a double within 22 us of v seconds *)
Lemma sd_unixepoch_bound : forall x (v : R), fin x -> (-1 <= v <= 4503700000)%R ->
  (Rabs (FR x - v) <= 22 / 1000000)%R ->
  exists J', sd_unixepoch x = Ok J' /\
    (Rabs (IZR J' - (IZR EPOCH_MS + 1000 * v)) <= 1 / 2 + 1 / 16)%R.
Proof.
  intros x v Fx Hv Hx. apply Rabs_le_inv in Hx. unfold sd_unixepoch.
  destruct f1000_spec as [Fk Vk].
  destruct (ofZ_c 210866760000000 ltac:(lia)) as [Fe Ve]. fold fEPOCH_MS in Fe, Ve.
  destruct (ofZ_c 464269060800000 ltac:(lia)) as [Fl Vl]. fold fIJD_LIM in Fl, Vl.
  pose proof fhalf_fin as Fh. pose proof fhalf_val as Vh.
  destruct (fmul_step x f1000 43 Fx Fk ltac:(lia)) as [F1 E1].
  { rewrite Vk. bpv 43. apply Rabs_lt. lra. }
  rewrite Vk in E1. change (43 - 54) with (-11) in E1. bpv (-11).
  set (r1 := (x * f1000)%float) in *. apply Rabs_le_inv in E1.
  destruct (fadd_step r1 fEPOCH_MS 48 F1 Fe ltac:(lia)) as [F2 E2].
  { rewrite Ve. bpv 48. apply Rabs_lt. lra. }
  rewrite Ve in E2. change (48 - 54) with (-6) in E2. bpv (-6).
  set (r := (r1 + fEPOCH_MS)%float) in *. apply Rabs_le_inv in E2.
  rewrite (fleb_spec zero r zero_fin F2), zero_val, (fltb_spec r fIJD_LIM F2 Fl), Vl.
  rewrite Rle_bool_true by lra. rewrite Rlt_bool_true by lra. cbn [andb].
  destruct (fadd_step r fhalf 48 F2 Fh ltac:(lia)) as [F3 E3].
  { rewrite Vh. bpv 48. apply Rabs_lt. lra. }
  rewrite Vh in E3. change (48 - 54) with (-6) in E3. bpv (-6).
  set (r2 := (r + fhalf)%float) in *. apply Rabs_le_inv in E3.
  rewrite (int_of_float_spec r2 F3). cbn [bind].
  rewrite Ztrunc_floor by lra.
  pose proof (Zfloor_lb (FR r2)) as L1. pose proof (Zfloor_ub (FR r2)) as L2.
  set (J' := Zfloor (FR r2)) in *.
  assert (B1 : 0 <= J').
  { assert (-1 < J'); [|lia]. apply lt_IZR. lra. }
  assert (B2 : J' <= IJD_MAX).
  { unfold IJD_MAX. apply le_IZR. lra. }
  replace ((0 <=? J') && (J' <=? IJD_MAX)) with true
    by (symmetry; apply andb_true_intro; split; apply Z.leb_le; assumption).
  exists J'. split; [reflexivity|]. unfold EPOCH_MS. apply Rabs_le. lra.
Qed.

(* the duration cell: a finite double within 1/64 us of the stored duration (the float
   total_seconds() gives is within 2^-37 s = 7.3e-6 us; SQLite's text -> REAL conversion may
   add one ulp, 1.5e-5 us) *)
Definition cell_near (d : Z) (cell : PrimFloat.float) : Prop :=
  fin cell /\ (Rabs (FR cell * 1000000 - IZR d) <= 1 / 64)%R.

Theorem sd_core_bound : forall J cell, EPOCH_MS <= J < EPOCH_MS + 4503599627371 ->
  fin cell -> (-1 <= FR cell <= 86401)%R ->
  exists J', sd_core J cell = Ok J' /\
    (Rabs (IZR J' - (IZR J + 1000 * FR cell)) <= 1 / 2 + 1 / 16)%R.
Proof.
  intros J cell HJ Fc Hc. destruct (sd_expr_bound J cell HJ Fc Hc) as [Fx Ex].
  unfold sd_core.
  assert (Hj : (IZR EPOCH_MS <= IZR J <= IZR EPOCH_MS + 4503599627370)%R).
  { rewrite <- plus_IZR. split; apply IZR_le; lia. }
  destruct (sd_unixepoch_bound _ ((IZR J - IZR EPOCH_MS) / 1000 + FR cell)%R Fx ltac:(lra) Ex)
    as (J' & E & B).
  exists J'. split; [exact E|].
  replace (IZR J + 1000 * FR cell)%R
    with (IZR EPOCH_MS + 1000 * ((IZR J - IZR EPOCH_MS) / 1000 + FR cell))%R by field.
  exact B.
Qed.

Theorem sd_end_us_bound : forall t d cell,
  t mod 1000 = 0 -> 0 <= t -> 0 <= d <= 86400000000 -> t + d < 2 ^ 52 -> cell_near d cell ->
  exists v, sd_end_us t cell = Ok v /\ v mod 1000 = 0 /\ Z.abs (v - (t + d)) <= 562.
Proof.
  intros t d cell Al Ht Hd Htd [Fc Nc]. apply Rabs_le_inv in Nc.
  assert (Et : t = 1000 * (t / 1000)) by (pose proof (Z.div_mod t 1000 ltac:(lia)); lia).
  set (T := t / 1000) in *.
  assert (HT : 0 <= T <= 4503599627370) by (change (2 ^ 52) with 4503599627370496 in Htd; lia).
  assert (Rd : (0 <= IZR d <= 86400000000)%R) by (split; apply IZR_le; lia).
  destruct (sd_core_bound (EPOCH_MS + T) cell ltac:(lia) Fc ltac:(lra)) as (J' & E & B).
  unfold sd_end_us. fold T. rewrite E. cbn [bind]. eexists. split; [reflexivity|].
  split; [apply Z_mod_mult|].
  apply Rabs_le_inv in B. rewrite plus_IZR in B.
  assert (RT : IZR t = (1000 * IZR T)%R) by (rewrite Et at 1; rewrite mult_IZR; reflexivity).
  assert (K : (-563 < IZR ((J' - EPOCH_MS) * 1000 - (t + d)) < 563)%R).
  { rewrite minus_IZR, mult_IZR, minus_IZR, plus_IZR, RT. lra. }
  destruct K as [K1 K2]. apply lt_IZR in K1. apply lt_IZR in K2. lia.
Qed.

(* the cell peewee.py writes: timedelta.total_seconds() (Model/Codec.v) *)
Lemma peewee_cell_near : forall d, 0 <= d <= 86400000000 ->
  exists c, peewee_dur_enc d = Ok c /\ cell_near d c.
Proof.
  intros d Hd. unfold peewee_dur_enc, total_seconds_of_us, us_per_s.
  destruct (div_1e6_near d ltac:(change (2 ^ 33) with 8589934592; lia)) as (c & E & F & V & _).
  exists c. split; [exact E|]. split; [exact F|].
  assert (Rd : (0 <= IZR d <= 86400000000)%R) by (split; apply IZR_le; lia).
  assert (B : (Rabs (IZR d / 1000000) < bpow radix2 17)%R).
  { bpv 17. apply Rabs_lt. lra. }
  pose proof (RN_err _ 17 ltac:(lia) B) as E1. change (17 - 54) with (-37) in E1. bpv (-37).
  rewrite <- V in E1. apply Rabs_le_inv in E1. apply Rabs_le. lra.
Qed.

Definition peewee_cell (d : Z) : PrimFloat.float :=
  match peewee_dur_enc d with Ok c => c | _ => zero end.

(* every duration cell of a store is near the stored duration *)
Definition cells_ok (cellf : Z -> PrimFloat.float) : Prop :=
  forall d, 0 <= d <= DAY_US -> cell_near d (cellf d).

Lemma peewee_cells_ok : cells_ok peewee_cell.
Proof.
  intros d Hd. unfold DAY_US in Hd. destruct (peewee_cell_near d Hd) as (c & E & N).
  unfold peewee_cell. now rewrite E.
Qed.

(* the end instant SQLite prints for a stored row, as a total function: stored timestamps
   are whole milliseconds (Event floors them); elsewhere the value is never consulted *)
Definition sqlite_end_us (cellf : Z -> PrimFloat.float) (t d : Z) : Z :=
  if t mod 1000 =? 0 then
    match sd_end_us t (cellf d) with Ok v => v | _ => sql_end_nearest t d end
  else sql_end_nearest t d.

Theorem sqlite_end_us_ok : forall cellf, cells_ok cellf -> sql_end_ok (sqlite_end_us cellf).
Proof.
  intros cellf C t d Ht Hd Htd. unfold sqlite_end_us.
  destruct (Z.eqb_spec (t mod 1000) 0) as [Al|_]; [|apply sql_end_nearest_err].
  destruct (sd_end_us_bound t d (cellf d) Al Ht ltac:(unfold DAY_US in Hd; lia) Htd (C d Hd))
    as (v & E & _ & B).
  rewrite E. lia.
Qed.

Lemma sqlite_end_us_model : forall cellf t d, cells_ok cellf ->
  t mod 1000 = 0 -> 0 <= t -> 0 <= d <= DAY_US -> t + d < 2 ^ 52 ->
  sd_end_us t (cellf d) = Ok (sqlite_end_us cellf t d) /\
  sqlite_end_us cellf t d mod 1000 = 0 /\ Z.abs (sqlite_end_us cellf t d - (t + d)) <= 562.
Proof.
  intros cellf t d C Al Ht Hd Htd. unfold sqlite_end_us. rewrite Al. cbn [Z.eqb].
  destruct (sd_end_us_bound t d (cellf d) Al Ht ltac:(unfold DAY_US in Hd; lia) Htd (C d Hd))
    as (v & E & M & B).
  rewrite E. auto.
Qed.
