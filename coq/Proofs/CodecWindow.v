(* For C03 (agent-c03): the two integers that SQLite's exact INTEGER-vs-REAL comparison
   makes of the float window parameter t.timestamp() * 1000000 (Model/WindowFloat.v:
   sq_param_ceil / sq_param_floor) are within one microsecond of the instant.  Discharges
   the premise float_param_ok of Proofs/WindowSqlite.v.  Built by the C03 check only
   (it depends on Model/WindowFloat.v, which belongs to C03). *)
From Coq Require Import ZArith Reals Bool List Lia Lra Floats.
From Flocq Require Import Core IEEE754.BinarySingleNaN IEEE754.PrimFloat.
From AwVerif Require Import Base.Prelude Model.PyFloat Model.WindowFloat Proofs.PyFloatSpec.
Open Scope Z_scope.

Lemma Zfloor_F2R : forall n e,
  Zfloor (F2R (Float radix2 n e)) = if 0 <=? e then Z.shiftl n e else Z.shiftr n (- e).
Proof.
  intros n e. destruct (Z.leb_spec 0 e) as [He|He].
  - rewrite Z.shiftl_mul_pow2 by lia. unfold F2R. simpl Fnum. simpl Fexp.
    rewrite <- IZR_Zpower by lia. rewrite <- mult_IZR. apply Zfloor_IZR.
  - rewrite Z.shiftr_div_pow2 by lia. unfold F2R. simpl Fnum. simpl Fexp.
    replace e with (- (- e)) at 1 by lia. rewrite bpow_opp. rewrite <- IZR_Zpower by lia.
    change (Zpower radix2 (- e)) with (2 ^ (- e)).
    apply Zfloor_div. apply Z.pow_nonzero; lia.
Qed.

Lemma float_floor_spec : forall f, fin f -> float_floor f = Ok (Zfloor (FR f)).
Proof.
  intros f Ff. unfold float_floor. rewrite <- B2SF_Prim2B.
  destruct (Prim2B f) as [s|s| |s m e H]; try discriminate; simpl B2SF; cbv iota.
  - simpl. now rewrite Zfloor_IZR.
  - f_equal. simpl B2R. rewrite Zfloor_F2R. now destruct s.
Qed.

Lemma float_ceil_spec : forall f, fin f -> float_ceil f = Ok (Zceil (FR f)).
Proof.
  intros f Ff. unfold float_ceil. rewrite <- B2SF_Prim2B.
  destruct (Prim2B f) as [s|s| |s m e H]; try discriminate; simpl B2SF; cbv iota.
  - simpl. unfold Zceil. rewrite Ropp_0, Zfloor_IZR. reflexivity.
  - f_equal. simpl B2R. unfold Zceil. rewrite <- F2R_Zopp, Zfloor_F2R.
    destruct s; reflexivity.
Qed.

Theorem sq_param_within_1us : forall t, 0 <= t < 2 ^ 52 ->
  exists lo hi, sq_param_ceil t = Ok lo /\ sq_param_floor t = Ok hi /\
                t - 1 <= lo <= t + 1 /\ t - 1 <= hi <= t + 1.
Proof.
  intros t Ht. destruct (sqlite_param_error t Ht) as (p & E & F & B).
  unfold sq_param_ceil, sq_param_floor. rewrite E. cbn [bind].
  rewrite (float_ceil_spec p F), (float_floor_spec p F).
  eexists _, _. split; [reflexivity|]. split; [reflexivity|].
  apply Rabs_le_inv in B.
  pose proof (Zfloor_lb (FR p)) as L1. pose proof (Zfloor_ub (FR p)) as L2.
  pose proof (Zceil_lb (FR p)) as C1. pose proof (Zceil_ub (FR p)) as C2.
  repeat split.
  - assert (t - 1 < Zceil (FR p)); [|lia]. apply lt_IZR. rewrite minus_IZR. simpl. lra.
  - assert (Zceil (FR p) < t + 2); [|lia]. apply lt_IZR. rewrite plus_IZR. simpl. lra.
  - assert (t - 2 < Zfloor (FR p)); [|lia]. apply lt_IZR. rewrite minus_IZR. simpl. lra.
  - assert (Zfloor (FR p) < t + 1); [|lia]. apply lt_IZR. rewrite plus_IZR. simpl. lra.
Qed.

(* sharper: the ceiling never falls below the instant, the floor never exceeds it *)
Theorem sq_param_sides : forall t, 0 <= t < 2 ^ 52 ->
  exists lo hi, sq_param_ceil t = Ok lo /\ sq_param_floor t = Ok hi /\
                t <= lo <= t + 1 /\ t - 1 <= hi <= t.
Proof.
  intros t Ht. destruct (sqlite_param_error t Ht) as (p & E & F & B).
  unfold sq_param_ceil, sq_param_floor. rewrite E. cbn [bind].
  rewrite (float_ceil_spec p F), (float_floor_spec p F).
  eexists _, _. split; [reflexivity|]. split; [reflexivity|].
  apply Rabs_le_inv in B.
  pose proof (Zfloor_lb (FR p)) as L1. pose proof (Zfloor_ub (FR p)) as L2.
  pose proof (Zceil_lb (FR p)) as C1. pose proof (Zceil_ub (FR p)) as C2.
  repeat split.
  - assert (t - 1 < Zceil (FR p)); [|lia]. apply lt_IZR. rewrite minus_IZR. simpl. lra.
  - assert (Zceil (FR p) < t + 2); [|lia]. apply lt_IZR. rewrite plus_IZR. simpl. lra.
  - assert (t - 2 < Zfloor (FR p)); [|lia]. apply lt_IZR. rewrite minus_IZR. simpl. lra.
  - assert (Zfloor (FR p) < t + 1); [|lia]. apply lt_IZR. rewrite plus_IZR. simpl. lra.
Qed.
