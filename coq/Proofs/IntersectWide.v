(* The exactness of the sweep on a wider domain than Appendix A.1's: lists that, after the
   function's own sort, are sorted by start with non-negative durations and in which no two
   events overlap for a POSITIVE time.  This admits a zero-length event anywhere inside (or
   at the start of, in either order) a positive-length event of the same list -- the layout
   the consecutive condition end_i <= start_{i+1} excludes.  No property statements. *)
From AwVerif Require Import Base.Prelude Model.Timeslot Model.Intersect
  Proofs.IntersectSlot Proofs.IntersectSort Proofs.IntersectProofs.
From Coq Require Import ZifyBool.

Fixpoint wchain (l : list event) : Prop :=
  match l with
  | [] => True
  | a :: t =>
      0 <= dur a /\
      (forall b, In b t -> ts a <= ts b /\ ~ pos_overlap a b) /\
      wchain t
  end.

Lemma wchain_tail : forall a t, wchain (a :: t) -> wchain t.
Proof. intros a t H. cbn [wchain] in H. tauto. Qed.

Lemma wchain_nonneg : forall l e, wchain l -> In e l -> 0 <= dur e.
Proof.
  induction l as [|a t IH]; intros e H He; [destruct He|].
  cbn [wchain] in H. destruct H as (Hd & _ & Ht).
  destruct He as [<-|He]; [exact Hd|exact (IH e Ht He)].
Qed.

Lemma wchain_head : forall a t b, wchain (a :: t) -> In b t ->
  ts a <= ts b /\ 0 <= dur a /\ 0 <= dur b /\ (eend a <= ts b \/ dur b = 0).
Proof.
  intros a t b H Hb. pose proof (wchain_nonneg _ b (wchain_tail _ _ H) Hb) as Hdb.
  cbn [wchain] in H. destruct H as (Hd & Hn & _). destruct (Hn b Hb) as [Hs Ho].
  unfold pos_overlap, eend in *. lia.
Qed.

Lemma chain_wchain : forall l, chain l -> wchain l.
Proof.
  induction l as [|a t IH]; intros H; [exact I|].
  pose proof (chain_tail _ _ H) as Ht. cbn [wchain]. repeat split.
  - cbn [chain] in H. tauto.
  - destruct (chain_head_le _ _ _ H H0) as (H1 & H2 & H3). exact H2.
  - destruct (chain_head_le _ _ _ H H0) as (H1 & H2 & H3).
    unfold pos_overlap, eend in *. lia.
  - apply IH. exact Ht.
Qed.

Lemma sweep_exact_wide : forall fuel l1 l2 out,
  wchain l1 -> wchain l2 -> sweep fuel l1 l2 = Ok out ->
  filter pos_pair out = spec_pairs l1 l2.
Proof.
  induction fuel as [|fu IH]; intros l1 l2 out C1 C2 H.
  - destruct l1 as [|e1 r1]; [cbn in H; inversion H; reflexivity|].
    destruct l2 as [|e2 r2]; cbn in H; [inversion H; subst|discriminate].
    rewrite spec_pairs_nil_r. reflexivity.
  - destruct l1 as [|e1 r1]; [cbn in H; inversion H; reflexivity|].
    destruct l2 as [|e2 r2]; [cbn in H; inversion H; subst; rewrite spec_pairs_nil_r; reflexivity|].
    apply sweep_step in H.
    assert (Hrow : spec_pairs (e1 :: r1) (e2 :: r2) = cell e1 e2 ++ row e1 r2 ++ spec_pairs r1 (e2 :: r2)).
    { unfold spec_pairs. cbn [flat_map]. unfold row at 1. cbn [flat_map]. rewrite <- app_assoc. reflexivity. }
    destruct H as [(ip & rest & Hi & Hle & Hr & ->)|[(ip & rest & Hi & Hle & Hr & ->)|[(Hi & Hle & Hr)|(Hi & Hlt & Hle & Hr)]]].
    + rewrite filter_cons_app, (cell_yield _ _ _ Hi), (IH _ _ _ (wchain_tail _ _ C1) C2 Hr), Hrow.
      rewrite row_nil; [reflexivity|].
      intros f Hf. destruct (wchain_head _ _ _ C2 Hf) as (H1 & H2 & H3 & H4).
      unfold pos_overlapb, eend in *. lia.
    + rewrite filter_cons_app, (cell_yield _ _ _ Hi), (IH _ _ _ C1 (wchain_tail _ _ C2) Hr), Hrow.
      rewrite spec_drop_col; [unfold spec_pairs; cbn [flat_map]; reflexivity|].
      intros e He. destruct (wchain_head _ _ _ C1 He) as (H1 & H2 & H3 & H4).
      unfold pos_overlapb, eend in *. lia.
    + rewrite (IH _ _ _ (wchain_tail _ _ C1) C2 Hr), Hrow.
      rewrite (row_nil e1 r2).
      * unfold cell. rewrite (cell_none _ _ Hi). reflexivity.
      * intros f Hf. destruct (wchain_head _ _ _ C2 Hf) as (H1 & H2 & H3 & H4).
        unfold pos_overlapb, eend in *. lia.
    + rewrite (IH _ _ _ C1 (wchain_tail _ _ C2) Hr).
      symmetry. apply spec_drop_col.
      intros e [<-|He]; [apply cell_none; exact Hi|].
      destruct (wchain_head _ _ _ C1 He) as (H1 & H2 & H3 & H4).
      unfold pos_overlapb, eend in *. lia.
Qed.

Lemma fpi_exact_wide : forall a b out,
  wchain (sort_by ts a) -> wchain (sort_by ts b) ->
  Forall aligned a -> Forall aligned b ->
  filter_period_intersect a b = Ok out ->
  filter pos_event out = spec_events (sort_by ts a) (sort_by ts b).
Proof.
  intros a b out Wa Wb Ha Hb H. apply fpi_pairs in H. destruct H as (prs & Hs & ->).
  rewrite filter_map_pos, (sweep_exact_wide _ _ _ _ Wa Wb Hs).
  apply map_pair_event_spec; apply sort_by_forall; assumption.
Qed.

Lemma fpi_complete_wide : forall a b out e f,
  wchain (sort_by ts a) -> wchain (sort_by ts b) ->
  Forall aligned a -> Forall aligned b ->
  filter_period_intersect a b = Ok out ->
  In e a -> In f b -> pos_overlap e f ->
  In (piece_event e f) out.
Proof.
  intros a b out e f Wa Wb Ha Hb H He Hf Hp.
  pose proof (fpi_exact_wide _ _ _ Wa Wb Ha Hb H) as Hx.
  assert (Hin : In (piece_event e f) (filter pos_event out)).
  { rewrite Hx. apply in_spec_events; [apply sort_by_in; exact He|apply sort_by_in; exact Hf|exact Hp]. }
  apply filter_In in Hin. tauto.
Qed.

(* total duration on the wide domain: zero-length pieces add nothing, so it is the sum
   over the positively overlapping pairs *)
Lemma sum_filter_pos : forall l, Forall (fun o => 0 <= dur o) l ->
  sumZ (map dur (filter pos_event l)) = sumZ (map dur l).
Proof.
  induction l as [|o t IH]; intros F; [reflexivity|].
  pose proof (Forall_inv F) as Ho. specialize (IH (Forall_inv_tail F)).
  cbn [filter]. unfold pos_event at 1.
  destruct (0 <? dur o) eqn:E; unfold sumZ in *; cbn [map fold_right]; lia.
Qed.

Lemma fpi_total_duration_wide : forall a b out,
  wchain (sort_by ts a) -> wchain (sort_by ts b) ->
  Forall aligned a -> Forall aligned b ->
  filter_period_intersect a b = Ok out ->
  sumZ (map dur out) = sumZ (map dur (spec_events (sort_by ts a) (sort_by ts b))).
Proof.
  intros a b out Wa Wb Ha Hb H.
  rewrite <- (fpi_exact_wide _ _ _ Wa Wb Ha Hb H). symmetry. apply sum_filter_pos.
  rewrite Forall_forall. intros o Ho.
  destruct (fpi_sound _ _ _ o Ha Hb H Ho) as (e & f & He & Hf & _ & _ & _ & _ & _ & _ & _ & _ & Hv).
  apply Hv; [apply (wchain_nonneg (sort_by ts a))|apply (wchain_nonneg (sort_by ts b))];
    try assumption; apply sort_by_in; assumption.
Qed.

(* decides wchain of a concrete list (used by the non-vacuity example) *)
Ltac wchain_concrete :=
  match goal with |- wchain ?l => let x := eval vm_compute in l in change (wchain x) end;
  cbn [wchain];
  repeat match goal with
  | |- _ /\ _ => split
  | |- True => exact I
  | |- forall b, In b _ -> _ =>
      let b := fresh "b" in let H := fresh "H" in
      intros b H; cbn [In] in H;
      repeat match type of H with _ \/ _ => destruct H as [H|H] end; try (destruct H); subst
  | |- _ <= _ => vm_compute; let H := fresh in intro H; discriminate H
  | |- ~ pos_overlap _ _ => vm_compute; let H := fresh in intro H; discriminate H
  end.
