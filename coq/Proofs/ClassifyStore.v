(* What the in-place C19 transforms compute when listed events share a data dict: the
   reference semantics [sequential] (one pass over the listed events in order; each
   iteration reads the CURRENT content of its event's dict object and overwrites it, so
   events that share the dict see each other's writes), its closed form (an event's data
   ends up as f applied once per listed occurrence of its dict) and the cases in which it
   coincides with the functional models of Model/Classify.v (pairwise distinct dicts; an
   idempotent f).  No heap here: Proofs/ClassifyHeapRefine.v proves that the heap programs
   of Model/ClassifyHeap.v compute exactly [sequential]. *)
From AwVerif Require Import Base.Prelude Model.ClassifyBase Model.Classify.
From Coq Require Import Arith.
Local Open Scope nat_scope.

(* a listed event: its value and the identity (location) of its data dict *)
Definition vd := (cevent * nat)%type.

Fixpoint iter_res (n : nat) (f : dict -> res dict) (d : dict) : res dict :=
  match n with
  | O => Ok d
  | S m => bind (f d) (iter_res m f)
  end.

Lemma Forall2_map_l_inv : forall {X Y Z} (g : X -> Y) (R : Y -> Z -> Prop) l l',
  Forall2 R (map g l) l' -> Forall2 (fun x z => R (g x) z) l l'.
Proof.
  intros X Y Z g R. induction l as [|x l IH]; intros l' F; inversion F; subst; constructor; auto.
Qed.

Lemma Forall2_impl_in : forall {X Y} (R R' : X -> Y -> Prop) l l',
  (forall x y, In x l -> In y l' -> R x y -> R' x y) -> Forall2 R l l' -> Forall2 R' l l'.
Proof.
  intros X Y R R' l l' H F. induction F; constructor.
  - apply H; auto; left; auto.
  - apply IHF. intros a b Ia Ib. apply H; right; auto.
Qed.

Section Store.
  Variable f : dict -> res dict.

  (* the dict object dl now holds d': every event whose data is that object shows it *)
  Definition upd (dl : nat) (d' : dict) (vds : list vd) : list vd :=
    map (fun x => if Nat.eqb (snd x) dl then (set_cdata (fst x) d', snd x) else x) vds.

  Definition content (dl : nat) (vds : list vd) : option dict :=
    match find (fun x => Nat.eqb (snd x) dl) vds with
    | Some x => Some (c_data (fst x))
    | None => None
    end.

  Fixpoint srun (todo : list nat) (vds : list vd) : list vd * res unit :=
    match todo with
    | [] => (vds, Ok tt)
    | dl :: t =>
        match content dl vds with
        | None => (vds, Err KeyError)          (* not reached: dl is the dict of a listed event *)
        | Some d =>
            match f d with
            | Ok d' => srun t (upd dl d' vds)
            | Err c => (vds, Err c)
            | OutOfFuel => (vds, OutOfFuel)
            end
        end
    end.

  Definition sequential (vds : list vd) : list vd * res unit := srun (map snd vds) vds.

  (* events with the same dict object show the same data *)
  Definition consistent (vds : list vd) : Prop :=
    forall a b, In a vds -> In b vds -> snd a = snd b -> c_data (fst a) = c_data (fst b).

  Lemma upd_snd : forall dl d' vds, map snd (upd dl d' vds) = map snd vds.
  Proof.
    intros dl d' vds. unfold upd. rewrite map_map. apply map_ext. intros [v x]. cbn [snd].
    destruct (Nat.eqb x dl); reflexivity.
  Qed.

  Lemma upd_length : forall dl d' vds, length (upd dl d' vds) = length vds.
  Proof. intros. unfold upd. apply map_length. Qed.

  Lemma upd_consistent : forall dl d' vds, consistent vds -> consistent (upd dl d' vds).
  Proof.
    intros dl d' vds C a b Ia Ib E. unfold upd in Ia, Ib.
    apply in_map_iff in Ia. destruct Ia as ([va xa] & <- & Ia).
    apply in_map_iff in Ib. destruct Ib as ([vb xb] & <- & Ib). cbn [fst snd] in *.
    assert (X : xa = xb).
    { destruct (Nat.eqb xa dl), (Nat.eqb xb dl); cbn [snd] in E; auto. }
    subst xb. destruct (Nat.eqb xa dl); cbn [fst snd set_cdata c_data]; auto.
    apply (C (va, xa) (vb, xa)); auto.
  Qed.

  Lemma content_in : forall vds v dl, consistent vds -> In (v, dl) vds -> content dl vds = Some (c_data v).
  Proof.
    intros vds v dl C I. unfold content.
    destruct (find (fun x => Nat.eqb (snd x) dl) vds) as [x|] eqn:F.
    - apply find_some in F. destruct F as [Ix E]. apply Nat.eqb_eq in E.
      f_equal. apply (C x (v, dl)); auto.
    - exfalso. pose proof (find_none _ _ F _ I) as N. cbn [snd] in N. now rewrite Nat.eqb_refl in N.
  Qed.

  (* ---- closed form of a pass that went through ---- *)
  Definition result_of (todo : list nat) (x x' : vd) : Prop :=
    x' = (set_cdata (fst x) (c_data (fst x')), snd x) /\
    iter_res (count_occ Nat.eq_dec todo (snd x)) f (c_data (fst x)) = Ok (c_data (fst x')).

  Lemma srun_closed : forall todo vds vds', consistent vds -> incl todo (map snd vds) ->
    srun todo vds = (vds', Ok tt) -> Forall2 (result_of todo) vds vds'.
  Proof.
    induction todo as [|dl t IH]; intros vds vds' C I H; cbn [srun] in H.
    - inversion H; subst vds'. clear. induction vds as [|[v x] vds IH]; constructor; auto.
      split; [destruct v; reflexivity|reflexivity].
    - assert (Idl : In dl (map snd vds)) by (apply I; left; auto).
      apply in_map_iff in Idl. destruct Idl as ([v0 x0] & E0 & I0). cbn [snd] in E0. subst x0.
      rewrite (content_in _ _ _ C I0) in H.
      destruct (f (c_data v0)) as [d'| |] eqn:F; try (inversion H; fail).
      assert (I' : incl t (map snd (upd dl d' vds))).
      { rewrite upd_snd. intros y Iy. apply I. right; auto. }
      pose proof (IH _ _ (upd_consistent dl d' vds C) I' H) as R. clear IH H I'.
      unfold upd in R. apply Forall2_map_l_inv in R.
      eapply Forall2_impl_in; [|exact R]. clear R.
      intros [v x] [v' x'] Ix _. unfold result_of. cbn [fst snd].
      destruct (Nat.eqb_spec x dl) as [->|N]; cbn [fst snd]; intros (E & IT).
      + split; [rewrite E; destruct v; reflexivity|].
        cbn [count_occ]. destruct (Nat.eq_dec dl dl) as [_|Ne]; [|congruence].
        cbn [iter_res]. assert (Ec : c_data v0 = c_data v) by apply (C (v0, dl) (v, dl) I0 Ix eq_refl).
        rewrite <- Ec, F. exact IT.
      + split; [exact E|]. cbn [count_occ]. destruct (Nat.eq_dec dl x) as [Ee|_]; [congruence|exact IT].
  Qed.

  (* ---- the functional model: every event on its own ---- *)
  Definition fe (x : vd) : res vd :=
    bind (f (c_data (fst x))) (fun d' => Ok (set_cdata (fst x) d', snd x)).

  Lemma find_app_skip : forall {X} (p : X -> bool) pre l,
    (forall x, In x pre -> p x = false) -> find p (pre ++ l) = find p l.
  Proof.
    intros X p. induction pre as [|a pre IH]; intros l H; cbn [app find]; auto.
    rewrite (H a (or_introl eq_refl)). apply IH. intros x I. apply H. right; auto.
  Qed.

  Lemma upd_skip : forall dl d' l, (forall x, In x l -> snd x <> dl) -> upd dl d' l = l.
  Proof.
    intros dl d' l H. unfold upd. rewrite <- (map_id l) at 2. apply map_ext_in.
    intros x I. destruct (Nat.eqb_spec (snd x) dl) as [E|N]; auto. exfalso. eapply H; eauto.
  Qed.

  (* pairwise distinct dict objects: the pass is the functional model, also when it raises *)
  Lemma srun_nodup : forall rest pre, NoDup (map snd (pre ++ rest)) ->
    match map_res fe rest with
    | Ok rest' => srun (map snd rest) (pre ++ rest) = (pre ++ rest', Ok tt)
    | Err c => snd (srun (map snd rest) (pre ++ rest)) = Err c
    | OutOfFuel => snd (srun (map snd rest) (pre ++ rest)) = OutOfFuel
    end.
  Proof.
    induction rest as [|[v dl] r IH]; intros pre ND; cbn [map_res map srun snd].
    - reflexivity.
    - rewrite map_app in ND. cbn [map snd] in ND.
      pose proof (NoDup_remove_2 _ _ _ ND) as NI.
      assert (Npre : forall x, In x pre -> snd x <> dl).
      { intros x I E. apply NI. apply in_or_app. left. rewrite <- E. now apply in_map. }
      assert (Nr : forall x, In x r -> snd x <> dl).
      { intros x I E. apply NI. apply in_or_app. right. rewrite <- E. now apply in_map. }
      unfold content. rewrite find_app_skip.
      2:{ intros x I. apply Nat.eqb_neq. auto. }
      cbn [find snd]. rewrite Nat.eqb_refl. cbn [fst].
      unfold fe at 1. cbn [fst snd].
      destruct (f (c_data v)) as [d'| |]; cbn [bind snd]; auto.
      assert (U : upd dl d' (pre ++ (v, dl) :: r) = (pre ++ [(set_cdata v d', dl)]) ++ r).
      { unfold upd. rewrite map_app. cbn [map snd fst]. rewrite Nat.eqb_refl.
        fold (upd dl d' pre). fold (upd dl d' r). rewrite (upd_skip _ _ _ Npre), (upd_skip _ _ _ Nr).
        now rewrite <- app_assoc. }
      rewrite U. specialize (IH (pre ++ [(set_cdata v d', dl)])).
      assert (ND' : NoDup (map snd ((pre ++ [(set_cdata v d', dl)]) ++ r))).
      { rewrite <- app_assoc. rewrite map_app. exact ND. }
      specialize (IH ND').
      destruct (map_res fe r) as [r'| |]; cbn [bind]; auto.
      rewrite IH. now rewrite <- app_assoc.
  Qed.

  Theorem sequential_nodup : forall vds, NoDup (map snd vds) ->
    match map_res fe vds with
    | Ok vds' => sequential vds = (vds', Ok tt)
    | Err c => snd (sequential vds) = Err c
    | OutOfFuel => snd (sequential vds) = OutOfFuel
    end.
  Proof. intros vds ND. apply (srun_nodup vds [] ND). Qed.

  (* shared dict objects, f idempotent on the dicts concerned (categorize / tag on a dict
     whose `$category` / `$tags` is not a string; split_url_events always): again the
     functional model *)
  Lemma iter_res_idem : forall n d d', f d = Ok d' -> f d' = Ok d' -> iter_res (S n) f d = Ok d'.
  Proof.
    intros n d d' F1 F2. cbn [iter_res]. rewrite F1. cbn [bind].
    induction n as [|n IH]; cbn [iter_res]; auto. rewrite F2. exact IH.
  Qed.

  Lemma Forall2_map_res : forall {X Y} (g : X -> res Y) l l',
    Forall2 (fun x y => g x = Ok y) l l' -> map_res g l = Ok l'.
  Proof.
    intros X Y g l l' F. induction F as [|x y l l' E F IH]; cbn [map_res]; auto.
    rewrite E. cbn [bind]. rewrite IH. reflexivity.
  Qed.

  Theorem sequential_idempotent : forall vds vds', consistent vds ->
    (forall x d', In x vds -> f (c_data (fst x)) = Ok d' -> f d' = Ok d') ->
    sequential vds = (vds', Ok tt) -> map_res fe vds = Ok vds'.
  Proof.
    intros vds vds' C ID H. unfold sequential in H.
    pose proof (srun_closed _ _ _ C (incl_refl _) H) as R.
    apply Forall2_map_res. eapply Forall2_impl_in; [|exact R].
    intros [v x] [v' x'] Ix _. unfold result_of. cbn [fst snd]. intros (E & IT).
    assert (CN : exists n, count_occ Nat.eq_dec (map snd vds) x = S n).
    { assert (Ic : In x (map snd vds)) by (apply in_map_iff; exists (v, x); auto).
      apply (count_occ_In Nat.eq_dec) in Ic. destruct (count_occ Nat.eq_dec (map snd vds) x); [lia|eauto]. }
    destruct CN as (n & CN). rewrite CN in IT.
    unfold fe. cbn [fst snd].
    destruct (f (c_data v)) as [d1| |] eqn:F1; cbn [iter_res] in IT; rewrite F1 in IT; cbn [bind] in IT; try discriminate.
    pose proof (ID (v, x) d1 Ix F1) as F2.
    assert (IT2 : iter_res n f d1 = Ok d1).
    { clear IT CN. induction n as [|n IH]; cbn [iter_res]; auto. rewrite F2. exact IH. }
    rewrite IT2 in IT. inversion IT as [E2]. cbn [bind]. rewrite E, <- E2. reflexivity.
  Qed.
End Store.
