(* Lemmas about sort_by.py (sort_by_timestamp, sort_by_duration, limit_events,
   sum_durations, concat) and filter_keyvals of Model/Group.v. *)
From AwVerif Require Import Base.Prelude Model.Group.
From Coq Require Import Permutation Sorted ZifyBool.

(* ------------------------------------------------------------------ generic stable sort *)
Section SortFacts.
  Context {A : Type} (key : A -> Z).

  Lemma insert_perm : forall x l, Permutation (insert_sorted key x l) (x :: l).
  Proof.
    intros x l. induction l as [|y t IH]; cbn [insert_sorted].
    - apply Permutation_refl.
    - destruct (key y <? key x).
      + apply Permutation_trans with (y :: x :: t).
        * apply perm_skip. exact IH.
        * apply perm_swap.
      + apply Permutation_refl.
  Qed.

  Lemma sort_by_perm : forall l, Permutation (sort_by key l) l.
  Proof.
    induction l as [|x t IH]; cbn [sort_by fold_right].
    - apply perm_nil.
    - apply Permutation_trans with (x :: sort_by key t).
      + apply insert_perm.
      + apply perm_skip. exact IH.
  Qed.

  Definition key_le (a b : A) : Prop := key a <= key b.

  Lemma insert_sorted_ss : forall x l,
    StronglySorted key_le l -> StronglySorted key_le (insert_sorted key x l).
  Proof.
    intros x l Hs. induction Hs as [|y t Hs IH Hf]; cbn [insert_sorted].
    - apply SSorted_cons; [apply SSorted_nil | apply Forall_nil].
    - destruct (key y <? key x) eqn:E.
      + apply SSorted_cons; [exact IH|].
        apply (Permutation_Forall (x := x :: t)).
        * apply Permutation_sym, insert_perm.
        * apply Forall_cons; [unfold key_le; lia | exact Hf].
      + apply SSorted_cons.
        * apply SSorted_cons; assumption.
        * apply Forall_cons; [unfold key_le; lia|].
          eapply Forall_impl; [|exact Hf]. unfold key_le. intros a Ha. lia.
  Qed.

  Lemma sort_by_sorted : forall l, StronglySorted key_le (sort_by key l).
  Proof.
    induction l as [|x t IH]; cbn [sort_by fold_right].
    - apply SSorted_nil.
    - apply insert_sorted_ss. exact IH.
  Qed.

  (* stability: the events carrying any one key value come out in their input order *)
  Lemma insert_filter : forall k x l,
    filter (fun a => key a =? k) (insert_sorted key x l) = filter (fun a => key a =? k) (x :: l).
  Proof.
    intros k x l. induction l as [|y t IH]; cbn [insert_sorted].
    - reflexivity.
    - destruct (key y <? key x) eqn:E; [|reflexivity].
      cbn [filter] in *. rewrite IH.
      destruct (key x =? k) eqn:Ex; destruct (key y =? k) eqn:Ey; try reflexivity.
      exfalso; lia.
  Qed.

  Lemma sort_by_stable : forall k l,
    filter (fun a => key a =? k) (sort_by key l) = filter (fun a => key a =? k) l.
  Proof.
    intros k l. induction l as [|x t IH]; cbn [sort_by fold_right].
    - reflexivity.
    - rewrite insert_filter. cbn [filter]. fold (sort_by key t). rewrite IH. reflexivity.
  Qed.
End SortFacts.

(* ------------------------------------------------------------------ sort_by_timestamp / sort_by_duration *)

Lemma sort_ts_perm : forall l, Permutation (sort_by_timestamp l) l.
Proof. intros l. apply sort_by_perm. Qed.

Lemma sort_ts_sorted : forall l,
  StronglySorted (fun a b => gts a <= gts b) (sort_by_timestamp l).
Proof. intros l. apply (sort_by_sorted gts). Qed.

Lemma sort_ts_stable : forall t l,
  filter (fun e => gts e =? t) (sort_by_timestamp l) = filter (fun e => gts e =? t) l.
Proof. intros t l. apply (sort_by_stable gts). Qed.

Lemma sort_dur_perm : forall l, Permutation (sort_by_duration l) l.
Proof. intros l. apply sort_by_perm. Qed.

Lemma sort_dur_sorted : forall l,
  StronglySorted (fun a b => gdur a >= gdur b) (sort_by_duration l).
Proof.
  intros l. pose proof (sort_by_sorted (fun e => - gdur e) l) as H.
  unfold sort_by_duration.
  induction H as [|y t Hs IH Hf].
  - apply SSorted_nil.
  - apply SSorted_cons; [exact IH|].
    eapply Forall_impl; [|exact Hf]. unfold key_le. intros a Ha. lia.
Qed.

Lemma sort_dur_stable : forall d l,
  filter (fun e => gdur e =? d) (sort_by_duration l) = filter (fun e => gdur e =? d) l.
Proof.
  intros d l.
  assert (E : forall l', filter (fun e => gdur e =? d) l' = filter (fun e => - gdur e =? - d) l').
  { intros l'. apply filter_ext. intros a.
    destruct (gdur a =? d) eqn:E1; destruct (- gdur a =? - d) eqn:E2; try reflexivity; exfalso; lia. }
  rewrite !E. apply (sort_by_stable (fun e => - gdur e)).
Qed.

(* ------------------------------------------------------------------ limit_events *)

Lemma limit_prefix : forall l c, exists rest, l = limit_events l c ++ rest.
Proof.
  intros l c. unfold limit_events. destruct (c <? 0).
  - eexists. symmetry. apply firstn_skipn.
  - eexists. symmetry. apply firstn_skipn.
Qed.

Lemma limit_nonneg : forall l c, 0 <= c -> limit_events l c = firstn (Z.to_nat c) l.
Proof. intros l c H. unfold limit_events. destruct (c <? 0) eqn:E; [exfalso; lia | reflexivity]. Qed.

(* a negative count drops the last |count| events *)
Lemma limit_neg : forall l c, c < 0 ->
  limit_events l c = firstn (length l - Z.to_nat (- c)) l.
Proof.
  intros l c H. unfold limit_events. destruct (c <? 0) eqn:E; [|exfalso; lia].
  f_equal. lia.
Qed.

Lemma limit_length : forall l c,
  Z.of_nat (length (limit_events l c)) =
  if c <? 0 then Z.max 0 (Z.of_nat (length l) + c) else Z.min c (Z.of_nat (length l)).
Proof.
  intros l c. unfold limit_events. destruct (c <? 0) eqn:E; rewrite firstn_length; lia.
Qed.

(* ------------------------------------------------------------------ sum_durations / concat *)

Lemma sumZ_app : forall a b, sumZ (a ++ b) = sumZ a + sumZ b.
Proof.
  induction a as [|x a IH]; intros b; cbn [app sumZ fold_right].
  - reflexivity.
  - fold (sumZ (a ++ b)). fold (sumZ a). rewrite IH. lia.
Qed.

Lemma concat_is_app : forall a b, concat_events a b = a ++ b.
Proof. reflexivity. Qed.

Lemma sum_concat : forall a b, sum_durations (concat_events a b) = sum_durations a + sum_durations b.
Proof. intros a b. unfold sum_durations, concat_events. rewrite map_app. apply sumZ_app. Qed.

(* ------------------------------------------------------------------ filter_keyvals *)

Lemma memZ_In : forall v vals, memZ v vals = true <-> In v vals.
Proof.
  intros v vals. induction vals as [|x t IH]; cbn [memZ In].
  - split; [discriminate | tauto].
  - rewrite Bool.orb_true_iff, IH. split; intros [H|H]; auto; left; lia.
Qed.

(* the predicate is `key in event.data and event.data[key] in vals` *)
Lemma kv_predicate_iff : forall key vals e,
  kv_predicate key vals e = true <-> exists v, lookup key (gdata e) = Some v /\ In v vals.
Proof.
  intros key vals e. unfold kv_predicate. destruct (lookup key (gdata e)) as [v|].
  - rewrite memZ_In. split.
    + intros H. exists v. auto.
    + intros [v' [E H]]. inversion E. subst. exact H.
  - split; [discriminate|]. intros [v [E _]]. discriminate.
Qed.

(* l is an order-preserving interleaving of a and b: every position of l goes to exactly
   one of the two sub-sequences *)
Inductive Interleave {A : Type} : list A -> list A -> list A -> Prop :=
  | il_nil : Interleave [] [] []
  | il_left : forall x a b l, Interleave a b l -> Interleave (x :: a) b (x :: l)
  | il_right : forall x a b l, Interleave a b l -> Interleave a (x :: b) (x :: l).

Lemma filter_interleave : forall {A} (p : A -> bool) l,
  Interleave (filter p l) (filter (fun x => negb (p x)) l) l.
Proof.
  intros A p l. induction l as [|x t IH]; cbn [filter].
  - apply il_nil.
  - destruct (p x); cbn [negb].
    + apply il_left. exact IH.
    + apply il_right. exact IH.
Qed.

Lemma interleave_length : forall {A} (a b l : list A),
  Interleave a b l -> length l = (length a + length b)%nat.
Proof.
  intros A a b l H. induction H; cbn [length]; lia.
Qed.

Lemma filter_keyvals_partition : forall l key vals,
  filter_keyvals l key vals false = filter (kv_predicate key vals) l /\
  filter_keyvals l key vals true = filter (fun e => negb (kv_predicate key vals e)) l /\
  Interleave (filter_keyvals l key vals false) (filter_keyvals l key vals true) l /\
  Forall (fun e => kv_predicate key vals e = true) (filter_keyvals l key vals false) /\
  Forall (fun e => kv_predicate key vals e = false) (filter_keyvals l key vals true).
Proof.
  intros l key vals. unfold filter_keyvals.
  split; [reflexivity|]. split; [reflexivity|]. split; [apply filter_interleave|].
  split; apply Forall_forall; intros e He; apply filter_In in He; destruct He as [_ He].
  - exact He.
  - apply Bool.negb_true_iff. exact He.
Qed.

(* ------------------------------------------------------------------ combined forms used by Props/C16.v *)

Lemma sort_ts_perm_sorted : forall l,
  Permutation (sort_by_timestamp l) l /\
  StronglySorted (fun a b => gts a <= gts b) (sort_by_timestamp l).
Proof. intros l. split; [apply sort_ts_perm | apply sort_ts_sorted]. Qed.

Lemma sort_dur_perm_sorted : forall l,
  Permutation (sort_by_duration l) l /\
  StronglySorted (fun a b => gdur a >= gdur b) (sort_by_duration l).
Proof. intros l. split; [apply sort_dur_perm | apply sort_dur_sorted]. Qed.

Lemma limit_prefix_length : forall l c,
  (exists rest, l = limit_events l c ++ rest) /\
  Z.of_nat (length (limit_events l c)) =
    (if c <? 0 then Z.max 0 (Z.of_nat (length l) + c) else Z.min c (Z.of_nat (length l))).
Proof. intros l c. split; [apply limit_prefix | apply limit_length]. Qed.

Lemma concat_sum : forall a b,
  concat_events a b = a ++ b /\
  sum_durations (concat_events a b) = sum_durations a + sum_durations b.
Proof. intros a b. split; [apply concat_is_app | apply sum_concat]. Qed.

Lemma interleave_length_gev : forall (a b l : list gev),
  Interleave a b l -> length l = (length a + length b)%nat.
Proof. intros a b l. apply interleave_length. Qed.
