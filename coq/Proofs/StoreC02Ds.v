(* C02 through the public API: the Datastore / Bucket layer (Model/Datastore.v) over ANY back end
   that refines the reference list model (Model/StoreSpec.v) refines it too, call by call and
   over whole histories, when every storage operation `o` is issued as the public call
   `api_call o` (Model/DatastoreApi.v: Bucket.insert(Event) for insert_one, Bucket.insert(list)
   for insert_many whatever the length of the list, Bucket.replace, ...).
   Generic part in a Section (a back end = step + abstraction + invariant + its refinement and
   invariance lemmas); instances for memory, sqlite, peewee below. *)
From AwVerif Require Import Base.Prelude Model.StoreBase Model.MemStore Model.SqliteStore
  Model.PeeweeStore Model.StoreSpec Model.Datastore Model.DatastoreApi
  Proofs.StoreBaseFacts Proofs.StoreMemProofs Proofs.StoreMemRefine Proofs.StoreSpecFacts
  Proofs.StoreSqliteProofs Proofs.StoreSqliteRefine Proofs.StorePeeweeProofs Proofs.StorePeeweeRefine.

(* `bucket_id in self.buckets()` on the listing the reference model prescribes *)
Lemma listed_listing : forall b (s : sstate),
  listed b (map (fun kv => (fst kv, fst (snd kv))) s) =
  match aget b s with Some _ => true | None => false end.
Proof.
  induction s as [|[k0 [m0 es0]] t IH]; cbn; [reflexivity|].
  destruct (k0 =? b); [reflexivity|]. apply IH.
Qed.

(* the value a pure write returns is free in the reference model *)
Lemma spec_create_any_out : forall s b m s' o o',
  spec_step s (CreateBucket b m) s' o -> spec_step s (CreateBucket b m) s' o'.
Proof. intros s b m s' o o' H. inversion H; subst. now apply sp_create. Qed.

Lemma spec_create_listed : forall s b m s' o,
  spec_step s (CreateBucket b m) s' o -> aget b s' <> None.
Proof.
  intros s b m s' o H. inversion H; subst. rewrite aget_aset_same. discriminate.
Qed.

Lemma spec_buckets_inv : forall s s' o,
  spec_step s Buckets s' o -> s' = s /\ o = OBuckets (map (fun kv => (fst kv, fst (snd kv))) s).
Proof. intros s s' o H. inversion H; subst. split; reflexivity. Qed.

Section Layer.
  Context {S : Type} (step : S -> op -> S * res out) (abs : S -> sstate)
          (Inv : S -> Prop) (dom : op -> Prop).
  Hypothesis refines : forall c o, Inv c -> pre (abs c) o ->
    exists out, snd (step c o) = Ok out /\ spec_step (abs c) o (abs (fst (step c o))) out.
  Hypothesis inv_step : forall c o, Inv c -> dom o -> Inv (fst (step c o)).
  Hypothesis dom_buckets : dom Buckets.

  (* a call that the layer hands to the storage unchanged *)
  Lemma call_refines : forall d o,
    Inv (ds_store d) -> dom o -> pre (abs (ds_store d)) o ->
    exists r, snd (ds_call step d o) = Ok r /\
              spec_step (abs (ds_store d)) o (abs (ds_store (fst (ds_call step d o)))) (api_out r) /\
              Inv (ds_store (fst (ds_call step d o))).
  Proof.
    intros d o HI HD HP. unfold ds_call.
    destruct (refines _ _ HI HP) as [out [Hs Hsp]].
    pose proof (inv_step _ o HI HD) as HI'.
    destruct (step (ds_store d) o) as [s' r] eqn:E. cbn in *. subst r.
    exists (DOut out). cbn. auto.
  Qed.

  (* the per-bucket calls: what a Bucket method hands to the storage is the operation itself
     (reads inside the quantifier carry no window, so Bucket.get's rounding does not apply) *)
  Lemma hop_of_api : forall o h hop, api_call o = DsVia h hop ->
    (forall b limit st en, o = GetEvents b limit st en -> st = None /\ en = None) ->
    hop_op (h_bucket h) hop = o.
  Proof.
    intros o h hop H W. destruct o; cbn in H; inversion H; subst; cbn; try reflexivity.
    destruct (W _ _ _ _ eq_refl) as [-> ->]. reflexivity.
  Qed.

  Theorem api_refines : forall d o,
    Inv (ds_store d) -> dom o -> pre (abs (ds_store d)) o ->
    exists r, snd (api_step step d o) = Ok r /\
              spec_step (abs (ds_store d)) o (abs (ds_store (fst (api_step step d o)))) (api_out r) /\
              Inv (ds_store (fst (api_step step d o))).
  Proof.
    intros d o HI HD HP. unfold api_step.
    destruct o; cbn [api_call ds_step hop_op api_handle h_bucket option_map];
      try (apply call_refines; assumption).
    - (* create_bucket: the storage call, then self[bucket_id] *)
      destruct (refines _ _ HI HP) as [out [Hs Hsp]].
      pose proof (inv_step _ (CreateBucket b m) HI HD) as HI'.
      destruct (step (ds_store d) (CreateBucket b m)) as [s' r] eqn:E. cbn in Hs, Hsp, HI'. subst r.
      unfold ds_getitem. cbn [with_store ds_store ds_cache ds_next].
      destruct (aget b (ds_cache d)) as [n|].
      + exists (DHandle (mkHandle n b)). cbn. repeat split; try assumption.
        eapply spec_create_any_out; eassumption.
      + destruct (refines s' Buckets HI' I) as [out1 [Hs1 Hsp1]].
        pose proof (inv_step _ Buckets HI' dom_buckets) as HI''.
        destruct (step s' Buckets) as [s'' r1] eqn:E1. cbn in Hs1, Hsp1, HI''. subst r1.
        destruct (spec_buckets_inv _ _ _ Hsp1) as [Habs ->].
        rewrite listed_listing.
        pose proof (spec_create_listed _ _ _ _ _ Hsp) as Hl.
        destruct (aget b (abs s')); [|congruence].
        exists (DHandle (mkHandle (ds_next d) b)). cbn. rewrite Habs. repeat split; try assumption.
        eapply spec_create_any_out; eassumption.
    - (* delete_bucket: the cached handle is dropped, the storage call is the operation *)
      apply (call_refines (mkDs (ds_store d) (adel b (ds_cache d)) (ds_next d)) (DeleteBucket b)); assumption.
    - (* Bucket.get: inside the quantifier the read has no window *)
      cbn in HP. destruct HP as [Hb [-> ->]]. cbn [option_map].
      apply call_refines; [assumption|assumption|]. cbn. auto.
  Qed.

  (* whole histories *)
  Fixpoint api_hist_ok (d : dstate S) (h : list op) : Prop :=
    match h with
    | [] => True
    | o :: t => pre (abs (ds_store d)) o /\ dom o /\ api_hist_ok (fst (api_step step d o)) t
    end.

  Theorem api_refines_run : forall h d,
    Inv (ds_store d) -> api_hist_ok d h ->
    spec_run (abs (ds_store d)) h (abs (ds_store (api_run step d h))) /\
    Inv (ds_store (api_run step d h)).
  Proof.
    induction h as [|o t IH]; intros d HI HOK; cbn.
    - split; [constructor|assumption].
    - destruct HOK as [HP [HD HT]].
      destruct (api_refines d o HI HD HP) as [r [_ [Hsp HI']]].
      destruct (IH _ HI' HT) as [Hrun HIr].
      split; [|exact HIr]. econstructor; eassumption.
  Qed.
End Layer.

(* --- the bulk call: Bucket.insert(list) is the bulk operation of the storage for EVERY list
       (empty, one element, many), Bucket.insert(Event) the single insert --- *)
Lemma api_bulk_is_bulk : forall {S} (step : S -> op -> S * res out) d b es,
  api_step step d (InsertMany b es) = ds_call step d (InsertMany b es).
Proof. reflexivity. Qed.

Lemma api_single_is_single : forall {S} (step : S -> op -> S * res out) d b e,
  api_step step d (InsertOne b e) = ds_call step d (InsertOne b e).
Proof. reflexivity. Qed.

(* --- instances --- *)
Definition all_ops (o : op) : Prop := True.

Lemma mem_api_refines : forall d o, mem_Inv (ds_store d) -> pre (ds_store d) o ->
  exists r, snd (api_step mem_step d o) = Ok r /\
            spec_step (ds_store d) o (ds_store (fst (api_step mem_step d o))) (api_out r) /\
            mem_Inv (ds_store (fst (api_step mem_step d o))).
Proof.
  intros d o HI HP.
  apply (api_refines mem_step (fun c => c) mem_Inv all_ops mem_refines
           (fun c o HI _ => mem_step_Inv c o HI) I d o HI I HP).
Qed.

Lemma pw_api_refines : forall d o, pw_Inv (ds_store d) -> pre (pw_abs (ds_store d)) o ->
  exists r, snd (api_step pw_step d o) = Ok r /\
            spec_step (pw_abs (ds_store d)) o (pw_abs (ds_store (fst (api_step pw_step d o)))) (api_out r) /\
            pw_Inv (ds_store (fst (api_step pw_step d o))).
Proof.
  intros d o HI HP.
  apply (api_refines pw_step pw_abs pw_Inv all_ops pw_refines
           (fun c o HI _ => pw_step_Inv c o HI) I d o HI I HP).
Qed.

Definition sq_InvDom (c : sqstate) : Prop := sq_Inv c /\ sq_Dom c.

Lemma sq_api_refines : forall d o, sq_Inv (ds_store d) -> sq_Dom (ds_store d) -> op_dom o ->
  pre (sq_abs (ds_store d)) o ->
  exists r, snd (api_step sq_step d o) = Ok r /\
            spec_step (sq_abs (ds_store d)) o (sq_abs (ds_store (fst (api_step sq_step d o)))) (api_out r) /\
            sq_Inv (ds_store (fst (api_step sq_step d o))) /\ sq_Dom (ds_store (fst (api_step sq_step d o))).
Proof.
  intros d o HI HDm HD HP.
  apply (api_refines sq_step sq_abs sq_InvDom op_dom
           (fun c o H => sq_refines c o (proj1 H) (proj2 H))
           (fun c o H Ho => conj (sq_step_Inv c o (proj1 H)) (sq_step_Dom c o (proj2 H) Ho))
           I d o (conj HI HDm) HD HP).
Qed.

Lemma mem_api_refines_run : forall h d, mem_Inv (ds_store d) ->
  api_hist_ok mem_step (fun c => c) all_ops d h ->
  spec_run (ds_store d) h (ds_store (api_run mem_step d h)) /\ mem_Inv (ds_store (api_run mem_step d h)).
Proof.
  intros h d HI HOK.
  apply (api_refines_run mem_step (fun c => c) mem_Inv all_ops mem_refines
           (fun c o HI _ => mem_step_Inv c o HI) I h d HI HOK).
Qed.

Lemma pw_api_refines_run : forall h d, pw_Inv (ds_store d) ->
  api_hist_ok pw_step pw_abs all_ops d h ->
  spec_run (pw_abs (ds_store d)) h (pw_abs (ds_store (api_run pw_step d h))) /\
  pw_Inv (ds_store (api_run pw_step d h)).
Proof.
  intros h d HI HOK.
  apply (api_refines_run pw_step pw_abs pw_Inv all_ops pw_refines
           (fun c o HI _ => pw_step_Inv c o HI) I h d HI HOK).
Qed.

Lemma sq_api_refines_run : forall h d, sq_Inv (ds_store d) -> sq_Dom (ds_store d) ->
  api_hist_ok sq_step sq_abs op_dom d h ->
  spec_run (sq_abs (ds_store d)) h (sq_abs (ds_store (api_run sq_step d h))) /\
  sq_InvDom (ds_store (api_run sq_step d h)).
Proof.
  intros h d HI HDm HOK.
  apply (api_refines_run sq_step sq_abs sq_InvDom op_dom
           (fun c o H => sq_refines c o (proj1 H) (proj2 H))
           (fun c o H Ho => conj (sq_step_Inv c o (proj1 H)) (sq_step_Dom c o (proj2 H) Ho))
           I h d (conj HI HDm) HOK).
Qed.

(* non-vacuity: a history through the public API that meets the side condition on sqlite - two
   buckets, single inserts, a ONE-element bulk upsert of a live id, a one-element bulk insert, an
   empty bulk call, a limit-1 read + replace_last whose event carries an id, a replace whose event
   carries another live id *)
Example api_nonvacuous_history :
  let m := mkMeta 1 1 1 0 None 0 in
  api_hist_ok sq_step sq_abs op_dom (ds_init sq_init)
    [CreateBucket 1 m; CreateBucket 2 m; InsertOne 1 (mkEvent None 5 1 1); InsertOne 1 (mkEvent None 6 0 2);
     InsertMany 1 [mkEvent (Some 1) 7 0 4]; InsertMany 1 [mkEvent None 5 2 3]; InsertMany 1 [];
     GetEvents 1 1 None None; ReplaceLast 1 (mkEvent (Some 2) 7 3 5);
     Replace 1 2 (mkEvent (Some 3) 8 0 6); GetEventCount 1 None None].
Proof.
  cbn -[Z.pow]. unfold ev_dom, is_live. cbn -[Z.pow].
  repeat (split; try discriminate; try lia; try reflexivity); try tauto.
  all: try (match goal with H : _ \/ _ |- _ => idtac end;
            repeat match goal with
                   | H : _ \/ _ |- _ => destruct H as [<-|H]
                   | H : False |- _ => destruct H
                   end; cbn -[Z.pow]; lia).
  all: try (eexists; eexists; split; [reflexivity|]; intros e0 i H Hi;
            repeat match goal with
                   | H : _ \/ _ |- _ => destruct H as [<-|H]
                   | H : False |- _ => destruct H
                   end; cbn in Hi; inversion Hi; subst; cbn; tauto).
  all: try (eexists; eexists; split; [reflexivity|]; try discriminate; cbn; tauto).
Qed.

Print Assumptions mem_api_refines.
Print Assumptions sq_api_refines.
Print Assumptions pw_api_refines.
Print Assumptions mem_api_refines_run.
Print Assumptions sq_api_refines_run.
Print Assumptions pw_api_refines_run.
