(* C03 -- Bucket.get's rounding as the code computes it, with binary64 float division and
   int() (Model/WindowFloat.v on Model/PyFloat.v), equals the integer arithmetic of
   Model/Window.v for every aware datetime.  Rests on the exhaustive finite theorems of
   Proofs/PyFloatFinite.v (all 10^6 microsecond fields evaluated by the kernel). *)
From Coq Require Import ZArith Bool List Lia PrimFloat.
From AwVerif Require Import Base.Prelude Model.PyFloat Model.StoreBase Model.Window Model.WindowFloat
  Proofs.PyFloatFinite Proofs.WindowRound.
Open Scope Z_scope.

Lemma us_field_range : forall utc off, 0 <= us_field utc off < 1000000.
Proof. intros. unfold us_field. apply Z.mod_pos_bound. lia. Qed.

Theorem round_start_f_exact : forall utc off,
  round_start_f utc off = Ok (round_start_tz utc off).
Proof.
  intros utc off. unfold round_start_f.
  rewrite (bucket_start_us_exact _ (us_field_range utc off)). cbn [bind]. f_equal.
  rewrite round_start_tz_closed. unfold replace_us.
  pose proof (mod_1000_of_field (utc + off)) as M. unfold us_field in *. lia.
Qed.

Theorem round_end_f_exact : forall utc off,
  round_end_f utc off = Ok (round_end_tz utc off).
Proof.
  intros utc off. unfold round_end_f.
  destruct (bucket_end_parts_exact _ (us_field_range utc off)) as [so [usf [E [_ [_ S]]]]].
  rewrite E. cbn [bind fst snd]. f_equal.
  rewrite round_end_tz_closed. unfold replace_us.
  pose proof (mod_1000_of_field (utc + off)) as M. unfold us_field in *. lia.
Qed.

(* the code: the edge is converted to UTC first, the floats work on the fields of that reading *)
Theorem bucket_round_f_exact : forall utc off,
  bucket_round_start_f utc off = Ok (bucket_round_start_tz utc off) /\
  bucket_round_end_f utc off = Ok (bucket_round_end_tz utc off).
Proof.
  intros utc off. unfold bucket_round_start_f, bucket_round_end_f, bucket_round_start_tz,
    bucket_round_end_tz, astimezone_utc. cbn [fst snd].
  split; [apply round_start_f_exact | apply round_end_f_exact].
Qed.

(* hence: start |-> floor_ms, end |-> floor_ms + 1000 on UTC microseconds for EVERY utcoffset
   (before 49e3288: for whole-millisecond utcoffsets) *)
Corollary bucket_get_float_closed : forall utc off,
  bucket_round_start_f utc off = Ok (floor_ms utc) /\ bucket_round_end_f utc off = Ok (floor_ms utc + 1000).
Proof.
  intros utc off. destruct (bucket_round_f_exact utc off) as [-> ->].
  destruct (bucket_round_tz_closed utc off) as [-> ->]. split; reflexivity.
Qed.
