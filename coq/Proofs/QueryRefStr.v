(* String-level lemmas for the C11 round trip: strip around a token, the escape / unescape
   pair of string literals, exact prefixes. *)
From AwVerif Require Import Base.Prelude Model.PyStr Model.Query Model.QueryRef
  Proofs.QueryScan Proofs.QueryTotal.
From Coq Require Import ZifyBool Lia.
Open Scope Z_scope.

Notation all_space := (forallb is_space).

(* ---------------------------------------------------------------- prefixes *)

Lemma drop_app_exact (a b : str) : drop (length a) (a ++ b) = b.
Proof. induction a as [|x a IH]; [reflexivity|]. cbn [length app drop skipn]. exact IH. Qed.

Lemma take_app_exact (a b : str) : take (length a) (a ++ b) = a.
Proof. induction a as [|x a IH]; [reflexivity|]. cbn [length app take firstn]. f_equal. exact IH. Qed.

Lemma drop_app_exact' (a b : str) n : n = length a -> drop n (a ++ b) = b.
Proof. intros ->. apply drop_app_exact. Qed.
Lemma take_app_exact' (a b : str) n : n = length a -> take n (a ++ b) = a.
Proof. intros ->. apply take_app_exact. Qed.

Lemma all_space_app a b : all_space (a ++ b) = all_space a && all_space b.
Proof. apply forallb_app. Qed.

(* ---------------------------------------------------------------- strip around a token *)

Fixpoint last_nonspace (x : str) : bool :=
  match x with
  | [] => false
  | [c] => negb (is_space c)
  | _ :: t => last_nonspace t
  end.

Definition first_nonspace (x : str) : bool :=
  match x with [] => false | c :: _ => negb (is_space c) end.

Lemma last_nonspace_app x y : y <> [] -> last_nonspace (x ++ y) = last_nonspace y.
Proof.
  intro Hy. induction x as [|c t IH]; [reflexivity|]. cbn [app last_nonspace].
  destruct (t ++ y) eqn:E; [destruct t; cbn in E; [congruence|discriminate]|]. exact IH.
Qed.

Lemma last_nonspace_single_end x c : is_space c = false -> last_nonspace (x ++ [c]) = true.
Proof. intro H. rewrite last_nonspace_app by congruence. cbn. rewrite H. reflexivity. Qed.

Lemma first_nonspace_app x y : x <> [] -> first_nonspace (x ++ y) = first_nonspace x.
Proof. destruct x; [congruence|reflexivity]. Qed.

Lemma lstrip_app_space b y : all_space b = true -> lstrip (b ++ y) = lstrip y.
Proof.
  induction b as [|c t IH]; [reflexivity|]. cbn [forallb app lstrip]. intro H.
  apply andb_true_iff in H. destruct H as [Hc Ht]. rewrite Hc. apply IH; assumption.
Qed.

Lemma lstrip_first_nonspace x : first_nonspace x = true -> lstrip x = x.
Proof. destruct x as [|c t]; [discriminate|]. cbn. destruct (is_space c); [discriminate|reflexivity]. Qed.

Lemma rstrip_app_tok x r : last_nonspace x = true -> rstrip (x ++ r) = x ++ rstrip r.
Proof.
  induction x as [|a t IH]; [discriminate|]. intro H. destruct t as [|b t'].
  - cbn [app rstrip]. cbn in H. destruct (rstrip r); [destruct (is_space a); [discriminate|reflexivity]|reflexivity].
  - change (last_nonspace (a :: b :: t')) with (last_nonspace (b :: t')) in H. specialize (IH H).
    change ((a :: b :: t') ++ r) with (a :: ((b :: t') ++ r)). cbn [rstrip]. rewrite IH.
    cbn [app]. reflexivity.
Qed.

Lemma rstrip_tok x : last_nonspace x = true -> rstrip x = x.
Proof. intro H. rewrite <- (app_nil_r x) at 1. rewrite rstrip_app_tok by assumption. cbn. apply app_nil_r. Qed.

Lemma strip_tok b x r :
  all_space b = true -> first_nonspace x = true -> last_nonspace x = true ->
  strip (b ++ x ++ r) = x ++ rstrip r.
Proof.
  intros Hb Hf Hl. unfold strip. rewrite lstrip_app_space by assumption.
  rewrite lstrip_first_nonspace by (rewrite first_nonspace_app; [assumption|destruct x; [discriminate|congruence]]).
  apply rstrip_app_tok; assumption.
Qed.

Lemma strip_all_space b : all_space b = true -> strip b = [].
Proof.
  intro H. unfold strip. rewrite <- (app_nil_r b). rewrite lstrip_app_space by assumption. reflexivity.
Qed.

Lemma rstrip_all_space e : all_space e = true -> rstrip e = [].
Proof. apply all_space_rstrip_nil. Qed.

(* ---------------------------------------------------------------- string literals *)

Lemma quote_not_bs q : q = c_dq \/ q = c_sq -> q <> c_bs.
Proof. intros [->| ->]; discriminate. Qed.

Lemma ends_ok_tail c s : s <> [] -> ends_ok (c :: s) = ends_ok s.
Proof. destruct s; [congruence|reflexivity]. Qed.

(* QString.check's loop stops exactly at the closing quote *)
Lemma str_scan_escape q s rest : q = c_dq \/ q = c_sq -> ends_ok s = true ->
  forall prev, (s = [] -> prev_not_bs prev = true) ->
  str_scan q prev (escape q s ++ q :: rest) = escape q s ++ [q].
Proof.
  intros Hq. pose proof (quote_not_bs q Hq) as Hb.
  induction s as [|c t IH]; intros He prev Hp.
  - cbn [escape app str_scan]. replace (q =? q) with true by lia. rewrite Hp by reflexivity. reflexivity.
  - cbn [escape]. destruct (c =? q) eqn:Ec.
    + assert (c = q) by lia. subst c. cbn [app str_scan].
      replace (c_bs =? q) with false by lia. cbn [andb]. replace (q =? q) with true by lia.
      cbn [prev_not_bs]. replace (c_bs =? c_bs) with true by reflexivity. cbn [negb andb].
      rewrite IH; [reflexivity| |].
      * destruct t; [reflexivity|]. rewrite ends_ok_tail in He by congruence. exact He.
      * intros _. cbn [prev_not_bs]. replace (q =? c_bs) with false by lia. reflexivity.
    + cbn [app str_scan]. rewrite Ec. cbn [andb]. rewrite IH; [reflexivity| |].
      * destruct t; [reflexivity|]. rewrite ends_ok_tail in He by congruence. exact He.
      * intros ->. cbn [ends_ok] in He. cbn [prev_not_bs]. exact He.
Qed.

(* QString.parse: replace backslash-quote by quote, then drop the delimiters *)
Lemma replace2_escape q s : q = c_dq \/ q = c_sq -> ends_ok s = true ->
  replace2 c_bs q [q] (escape q s ++ [q]) = s ++ [q].
Proof.
  intros Hq. pose proof (quote_not_bs q Hq) as Hb.
  induction s as [|c t IH]; intro He; [reflexivity|].
  assert (Het : ends_ok t = true).
  { destruct t; [reflexivity|]. rewrite ends_ok_tail in He by congruence. exact He. }
  cbn [escape]. destruct (c =? q) eqn:Ec.
  - assert (c = q) by lia. subst c. cbn [app replace2].
    replace (c_bs =? c_bs) with true by reflexivity. replace (q =? q) with true by lia. cbn [andb].
    rewrite IH by assumption. reflexivity.
  - cbn [app]. destruct t as [|c2 t'].
    + cbn [escape app replace2]. cbn [ends_ok] in He.
      replace (c =? c_bs) with false by lia. reflexivity.
    + specialize (IH Het). cbn [escape] in *. destruct (c2 =? q) eqn:Ec2.
      * cbn [app replace2] in *. replace (c_bs =? q) with false by lia.
        rewrite andb_false_r. rewrite IH. reflexivity.
      * cbn [app replace2] in *. rewrite Ec2. rewrite andb_false_r.
        change (c :: replace2 c_bs q [q] (c2 :: escape q t' ++ [q]) = c :: c2 :: t' ++ [q]).
        f_equal. exact IH.
Qed.

Lemma replace2_cons_ne a b new x t : x <> a -> t <> [] ->
  replace2 a b new (x :: t) = x :: replace2 a b new t.
Proof.
  intros Hx Ht. destruct t as [|y t']; [congruence|].
  change (replace2 a b new (x :: y :: t')) with
    (if (x =? a) && (y =? b) then new ++ replace2 a b new t' else x :: replace2 a b new (y :: t')).
  replace (x =? a) with false by lia. reflexivity.
Qed.

Lemma removelast_snoc (s : str) c : removelast (s ++ [c]) = s.
Proof. apply removelast_last. Qed.

Lemma parse_string_exact q s : q = c_dq \/ q = c_sq -> ends_ok s = true ->
  parse_string (str_txt q s) = Ok s.
Proof.
  intros Hq He. pose proof (quote_not_bs q Hq) as Hb. unfold parse_string, str_txt.
  cbn [first_char bind]. f_equal.
  assert (R : replace2 c_bs q [q] (q :: escape q s ++ [q]) = q :: s ++ [q]).
  { rewrite replace2_cons_ne; [|lia|destruct (escape q s); discriminate].
    rewrite replace2_escape by assumption. reflexivity. }
  rewrite R. unfold slice_1_m1. cbn [tl]. apply removelast_snoc.
Qed.

Lemma escape_length_pos q s : (length s <= length (escape q s))%nat.
Proof. induction s as [|c t IH]; cbn [escape length]; [lia|]. destruct (c =? q); cbn [length]; lia. Qed.
