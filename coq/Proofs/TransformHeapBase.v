(* Vocabulary for the heap-level transforms (Model/TransformHeap.v):
   [framed h0 h]   h extends h0: every cell of h0 is as it was, every later cell refers only
                   to later cells (the frame + freshness statement of flood,
                   union_no_overlap, filter_period_intersect);
   [retags S h h'] h' is h after attribute assignments (timestamp/duration) to Events at
                   locations in S;
   reading events back ([ev_at]) across allocation, deepcopy and attribute assignment. *)
From AwVerif Require Import Base.Prelude Model.MemHeap Model.TransformHeap
  Proofs.MemHeapBase Proofs.MemHeapCopy Proofs.MemHeapFrame Proofs.TransformHeapCopy.
From Coq Require Import Arith Relations.
Local Open Scope nat_scope.

Lemma bind_ok : forall {X Y} (r : res X) (f : X -> res Y) y,
  bind r f = Ok y -> exists x, r = Ok x /\ f x = Ok y.
Proof. intros X Y [x|c|] f y H; cbn in H; try discriminate. eauto. Qed.

(* ------------------------------------------------------------------------- *)
(* framed *)

Definition framed (h0 h : heap) : Prop :=
  length h0 <= length h /\
  (forall l, l < length h0 -> lookup h l = lookup h0 l) /\
  fresh_closed h0 h.

Lemma framed_refl : forall h, framed h h.
Proof. intro h. split; [lia|]. split; [auto|apply fresh_closed_refl]. Qed.

Lemma framed_alloc : forall h0 h c,
  framed h0 h -> (forall k, In k (children c) -> length h0 <= k < length h) -> framed h0 (h ++ [c]).
Proof.
  intros h0 h c (G & F & C) K. split; [rewrite app_length; cbn; lia|]. split.
  - intros l B. rewrite lookup_app_old by lia. auto.
  - intros l x k L Ge I. rewrite app_length; cbn.
    apply lookup_alloc_inv in L. destruct L as [[_ L]|[_ ->]].
    + specialize (C _ _ _ L Ge I). lia.
    + specialize (K _ I). lia.
Qed.

Lemma framed_ext : forall h0 h h', framed h0 h -> ext h h' -> fresh_closed h h' -> framed h0 h'.
Proof.
  intros h0 h h' (G & F & C) E FC. pose proof (ext_length _ _ E). split; [lia|]. split.
  - intros l B. rewrite (ext_lookup _ _ _ E) by lia. auto.
  - intros l x k L Ge I. destruct (Nat.lt_ge_cases l (length h)) as [Y|Y].
    + rewrite (ext_lookup _ _ _ E Y) in L. specialize (C _ _ _ L Ge I). lia.
    + specialize (FC _ _ _ L Y I). lia.
Qed.

Lemma framed_copied : forall h0 h l h' m l', framed h0 h -> copied h l h' m l' -> framed h0 h'.
Proof. intros h0 h l h' m l' F C. eapply framed_ext; eauto; apply C. Qed.

(* an update of a later cell that keeps its members *)
Lemma framed_update : forall h0 h l t t' ks,
  framed h0 h -> length h0 <= l -> lookup h l = Some (Cell t ks) ->
  framed h0 (update h l (Cell t' ks)).
Proof.
  intros h0 h l t t' ks (G & F & C) Ge L. pose proof (lookup_lt _ _ _ L) as B.
  split; [rewrite update_length; lia|]. split.
  - intros m Bm. rewrite lookup_update_other by lia. auto.
  - intros m x k Lm Gm I. rewrite update_length.
    destruct (Nat.eq_dec m l) as [->|N].
    + rewrite lookup_update_same in Lm by auto. inversion Lm; subst x.
      apply (C _ _ _ L Ge I).
    + rewrite lookup_update_other in Lm by auto. apply (C _ _ _ Lm Gm I).
Qed.

(* the statement in the vocabulary of Proofs/MemHeapFrame.v: confined to no root at all *)
Lemma framed_confined : forall h0 h, framed h0 h -> confined h0 [] h.
Proof.
  intros h0 h (G & F & C). constructor; auto.
  intros l c k L D I. left.
  destruct (Nat.lt_ge_cases l (length h0)) as [Y|Y].
  - destruct D as [D|D]; [lia|]. rewrite F in L by auto. congruence.
  - apply (C _ _ _ L Y I).
Qed.

(* whatever a later cell reaches is a later cell *)
Lemma framed_reach_fresh : forall h0 h a b, framed h0 h -> length h0 <= a -> rt h a b -> length h0 <= b.
Proof.
  intros h0 h a b (_ & _ & C) Ge R. apply clos_rt_rtn1 in R. induction R; auto.
  destruct H as (c & L & I). apply (C _ _ _ L IHR I).
Qed.

(* an old location reaches afterwards exactly what it reached before (closed heaps) *)
Lemma framed_rt_old : forall h0 h a b, framed h0 h -> closed h0 -> a < length h0 ->
  (rt h a b <-> rt h0 a b).
Proof.
  intros h0 h a b (G & F & C) Cl B. split; intro R.
  - apply clos_rt_rtn1 in R. induction R; [apply rt_here|].
    assert (Y : y < length h0) by (eapply rt_closed; eauto).
    eapply rt_snoc; [exact IHR|]. destruct H as (c & L & I). exists c. rewrite <- F; auto.
  - apply rt_agree with (h := h0); auto. intros l P. apply F. eapply rt_closed; eauto.
Qed.

(* ------------------------------------------------------------------------- *)
(* attribute assignments *)

Inductive retags (S : loc -> Prop) : heap -> heap -> Prop :=
  | retags_refl : forall h, retags S h h
  | retags_step : forall h l i t d i' t' d' ks h'',
      S l -> lookup h l = Some (Cell (TEv i t d) ks) ->
      retags S (update h l (Cell (TEv i' t' d') ks)) h'' -> retags S h h''.

Lemma retags_trans : forall S a b c, retags S a b -> retags S b c -> retags S a c.
Proof. intros S a b c R. induction R; auto. intro. econstructor; eauto. Qed.

Lemma retags_one : forall (S : loc -> Prop) h l i t d i' t' d' ks,
  S l -> lookup h l = Some (Cell (TEv i t d) ks) -> retags S h (update h l (Cell (TEv i' t' d') ks)).
Proof. intros. econstructor; eauto. constructor. Qed.

Lemma retags_mono : forall (S S' : loc -> Prop) h h', (forall l, S l -> S' l) -> retags S h h' -> retags S' h h'.
Proof. intros S S' h h' M R. induction R; [constructor|econstructor; eauto]. Qed.

Lemma retags_length : forall S h h', retags S h h' -> length h' = length h.
Proof. intros S h h' R. induction R; auto. rewrite IHR. apply update_length. Qed.

Lemma retags_other : forall S h h', retags S h h' -> forall l, ~ S l -> lookup h' l = lookup h l.
Proof.
  intros S h h' R. induction R; auto. intros m N. rewrite IHR by auto.
  apply lookup_update_other. intros ->. auto.
Qed.

(* every cell keeps its kind and its members *)
Definition same_shape (c c' : cell) : Prop :=
  children c' = children c /\
  match ctag c, ctag c' with
  | TEv _ _ _, TEv _ _ _ => True
  | TNode p, TNode p' => p = p'
  | _, _ => False
  end.

Lemma same_shape_refl : forall c, same_shape c c.
Proof. intros [[i t d|p] ks]; split; cbn; auto. Qed.

Lemma same_shape_trans : forall a b c, same_shape a b -> same_shape b c -> same_shape a c.
Proof.
  intros [[? ? ?|?] ?] [[? ? ?|?] ?] [[? ? ?|?] ?] [E1 T1] [E2 T2]; cbn in *; try contradiction;
    split; cbn; try congruence; auto.
Qed.

Lemma retags_shape : forall S h h', retags S h h' ->
  forall l c, lookup h l = Some c -> exists c', lookup h' l = Some c' /\ same_shape c c'.
Proof.
  intros S h h' R. induction R; intros m c L.
  - exists c. split; auto. apply same_shape_refl.
  - destruct (Nat.eq_dec m l) as [->|N].
    + rewrite H0 in L. inversion L; subst c.
      assert (LU : lookup (update h l (Cell (TEv i' t' d') ks)) l = Some (Cell (TEv i' t' d') ks)).
      { apply lookup_update_same. eapply lookup_lt; eauto. }
      destruct (IHR l _ LU) as (c' & L' & Sh).
      exists c'. split; [exact L'|exact Sh].
    + apply IHR. rewrite lookup_update_other; auto.
Qed.

Lemma retags_framed : forall (S : loc -> Prop) h0 h h',
  retags S h h' -> (forall l, S l -> length h0 <= l) -> framed h0 h -> framed h0 h'.
Proof.
  intros S h0 h h' R Ge. induction R; intro F; auto.
  apply IHR. eapply framed_update; eauto.
Qed.

Lemma retags_wf : forall S h h', retags S h h' -> wf h -> wf h'.
Proof.
  intros S h h' R. induction R; auto. intros [C A]. apply IHR. split.
  - apply closed_update; auto. cbn. intros k I. eapply C; eauto.
  - intros m T. apply (A m). eapply tc_update_tag; eauto.
Qed.

(* ------------------------------------------------------------------------- *)
(* the primitives, inverted *)

Lemma wr_ts_retag : forall h l t h', wr_ts h l t = Ok h' ->
  exists i t0 d ks, lookup h l = Some (Cell (TEv i t0 d) ks) /\
                    h' = update h l (Cell (TEv i (TransformHeap.floor_ms t) d) ks).
Proof.
  unfold wr_ts. intros h l t h' H. destruct (lookup h l) as [[[i t0 d|p] ks]|]; try discriminate.
  inversion H; subst. eauto 8.
Qed.

Lemma wr_dur_retag : forall h l x h', wr_dur h l x = Ok h' ->
  exists i t d ks, lookup h l = Some (Cell (TEv i t d) ks) /\
                   h' = update h l (Cell (TEv i t x) ks).
Proof.
  unfold wr_dur. intros h l x h' H. destruct (lookup h l) as [[[i t0 d|p] ks]|]; try discriminate.
  inversion H; subst. eauto 8.
Qed.

Lemma wr_ts_retags : forall (S : loc -> Prop) h l t h', wr_ts h l t = Ok h' -> S l -> retags S h h'.
Proof.
  intros S h l t h' H I. destruct (wr_ts_retag _ _ _ _ H) as (i & t0 & d & ks & L & ->).
  eapply retags_one; eauto.
Qed.

Lemma wr_dur_retags : forall (S : loc -> Prop) h l x h', wr_dur h l x = Ok h' -> S l -> retags S h h'.
Proof.
  intros S h l x h' H I. destruct (wr_dur_retag _ _ _ _ H) as (i & t0 & d & ks & L & ->).
  eapply retags_one; eauto.
Qed.

(* ------------------------------------------------------------------------- *)
(* reading events back *)

Lemma ev_at_inv : forall h l v, ev_at h l = Some v ->
  exists dl ks, lookup h l = Some (Cell (TEv (eid v) (ts v) (dur v)) [dl]) /\
                lookup h dl = Some (Cell (TNode (data v)) ks).
Proof.
  unfold ev_at. intros h l v H.
  destruct (lookup h l) as [[[i t d|p] [|dl [|? ?]]]|]; try discriminate.
  destruct (lookup h dl) as [[[? ? ?|p] ks]|] eqn:D; try discriminate.
  inversion H; subst; cbn. eauto.
Qed.

Lemma ev_at_intro : forall h l i t d dl p ks,
  lookup h l = Some (Cell (TEv i t d) [dl]) -> lookup h dl = Some (Cell (TNode p) ks) ->
  ev_at h l = Some (mkEvent i t d p).
Proof. unfold ev_at. intros h l i t d dl p ks L D. now rewrite L, D. Qed.

Lemma ev_at_lt : forall h l v, ev_at h l = Some v -> l < length h.
Proof. intros h l v H. destruct (ev_at_inv _ _ _ H) as (dl & ks & L & _). eapply lookup_lt; eauto. Qed.

Lemma ev_at_ext : forall h h' l v, ext h h' -> ev_at h l = Some v -> ev_at h' l = Some v.
Proof.
  intros h h' l [i t d p] E H. destruct (ev_at_inv _ _ _ H) as (dl & ks & L & D). cbn in *.
  eapply ev_at_intro; eapply ext_lookup_some; eauto.
Qed.

Lemma ev_fields_ok : forall h l v, ev_at h l = Some v ->
  exists dl, ev_fields h l = Ok (eid v, ts v, dur v, dl) /\ data_label h dl = Ok (data v).
Proof.
  intros h l v H. destruct (ev_at_inv _ _ _ H) as (dl & ks & L & D).
  exists dl. unfold ev_fields, data_label. now rewrite L, D.
Qed.

Lemma rd_ts_ok : forall h l v, ev_at h l = Some v -> rd_ts h l = Ok (ts v).
Proof. intros h l v H. destruct (ev_fields_ok _ _ _ H) as (dl & F & _). unfold rd_ts. now rewrite F. Qed.

Lemma rd_dur_ok : forall h l v, ev_at h l = Some v -> rd_dur h l = Ok (dur v).
Proof. intros h l v H. destruct (ev_fields_ok _ _ _ H) as (dl & F & _). unfold rd_dur. now rewrite F. Qed.

Lemma data_eq_ok : forall h a b va vb, ev_at h a = Some va -> ev_at h b = Some vb ->
  data_eq h a b = Ok (Z.eqb (data va) (data vb)).
Proof.
  intros h a b va vb Ha Hb.
  destruct (ev_fields_ok _ _ _ Ha) as (da & Fa & La). destruct (ev_fields_ok _ _ _ Hb) as (db & Fb & Lb).
  unfold data_eq, rd_data. rewrite Fa. cbn. rewrite La. cbn. rewrite Fb. cbn. rewrite Lb. reflexivity.
Qed.

(* an attribute assignment to the Event at l: the event read at l changes accordingly,
   every other event reads as before *)
Lemma ev_at_update_other : forall h l i t d i' t' d' ks m,
  lookup h l = Some (Cell (TEv i t d) ks) -> m <> l ->
  ev_at (update h l (Cell (TEv i' t' d') ks)) m = ev_at h m.
Proof.
  intros h l i t d i' t' d' ks m L N. pose proof (lookup_lt _ _ _ L) as B.
  unfold ev_at. rewrite lookup_update_other by auto.
  destruct (lookup h m) as [[[j u e|p] [|dl [|? ?]]]|]; auto.
  destruct (Nat.eq_dec dl l) as [->|Nd].
  - rewrite lookup_update_same by auto. now rewrite L.
  - now rewrite lookup_update_other by auto.
Qed.

Lemma retags_ev_other : forall S h h', retags S h h' -> forall m, ~ S m -> ev_at h' m = ev_at h m.
Proof.
  intros S h h' R. induction R; auto. intros m N. rewrite IHR by auto.
  eapply ev_at_update_other; eauto. intros ->. auto.
Qed.

Lemma wr_ts_valid : forall h l v t, ev_at h l = Some v ->
  exists h', wr_ts h l t = Ok h' /\ ev_at h' l = Some (set_ts v (TransformHeap.floor_ms t)) /\
             forall m, m <> l -> ev_at h' m = ev_at h m.
Proof.
  intros h l [i t0 d p] t H. destruct (ev_at_inv _ _ _ H) as (dl & ks & L & D). cbn in *.
  pose proof (lookup_lt _ _ _ L) as B.
  unfold wr_ts. rewrite L. eexists. split; [reflexivity|]. split.
  - assert (Nd : dl <> l) by (intros ->; rewrite L in D; discriminate).
    eapply ev_at_intro; [apply lookup_update_same; auto|rewrite lookup_update_other; eauto].
  - intros m N. eapply ev_at_update_other; eauto.
Qed.

Lemma wr_dur_valid : forall h l v x, ev_at h l = Some v ->
  exists h', wr_dur h l x = Ok h' /\ ev_at h' l = Some (set_dur v x) /\
             forall m, m <> l -> ev_at h' m = ev_at h m.
Proof.
  intros h l [i t0 d p] x H. destruct (ev_at_inv _ _ _ H) as (dl & ks & L & D). cbn in *.
  pose proof (lookup_lt _ _ _ L) as B.
  unfold wr_dur. rewrite L. eexists. split; [reflexivity|]. split.
  - assert (Nd : dl <> l) by (intros ->; rewrite L in D; discriminate).
    eapply ev_at_intro; [apply lookup_update_same; auto|rewrite lookup_update_other; eauto].
  - intros m N. eapply ev_at_update_other; eauto.
Qed.

(* deepcopy of a valid event: the copy is a later cell and reads as the same event *)
Lemma copied_ev_at : forall h l h' m l' k k' v,
  copied h l h' m l' -> In (k, k') m -> ev_at h k = Some v -> ev_at h' k' = Some v.
Proof.
  intros h l h' m l' k k' [i t d p] C I H.
  destruct (ev_at_inv _ _ _ H) as (dl & ks & L & D). cbn in *.
  pose proof (cp_ext _ _ _ _ _ C) as E.
  destruct (copied_cell _ _ _ _ _ _ _ C I) as (_ & t1 & ks1 & ks1' & L0 & L1 & F).
  rewrite (ext_lookup_some _ _ _ _ E L) in L0. inversion L0; subst t1 ks1.
  inversion F as [|a b ? ? Rab F' ]; subst. inversion F'; subst.
  destruct (copied_cell _ _ _ _ _ _ _ C Rab) as (_ & t2 & ks2 & ks2' & M0 & M1 & _).
  rewrite (ext_lookup_some _ _ _ _ E D) in M0. inversion M0; subst t2 ks2.
  eapply ev_at_intro; eauto.
Qed.

Lemma pdeepcopy_ev : forall h l h' l' v, pdeepcopy h l = Ok (h', l') -> ev_at h l = Some v ->
  ev_at h' l' = Some v /\ length h <= l' /\ ext h h'.
Proof.
  intros h l h' l' v P H. destruct (pdeepcopy_inv _ _ _ _ P) as (m & C).
  split; [eapply copied_ev_at; eauto; apply C|]. split; [apply (copied_fresh _ _ _ _ _ C)|apply C].
Qed.

(* lists of events *)
Lemma evs_at_cons : forall h k ks, evs_at h (k :: ks) =
  match ev_at h k with
  | Some v => match evs_at h ks with Some vs => Some (v :: vs) | None => None end
  | None => None
  end.
Proof. reflexivity. Qed.

Lemma evs_at_Forall2 : forall h ks vs,
  evs_at h ks = Some vs <-> Forall2 (fun k v => ev_at h k = Some v) ks vs.
Proof.
  intros h. induction ks as [|k ks IH]; intros vs.
  - cbn. split; intro H; [inversion H; constructor|inversion H; auto].
  - rewrite evs_at_cons. split; intro H.
    + destruct (ev_at h k) eqn:E; try discriminate.
      destruct (evs_at h ks) eqn:E2; try discriminate. inversion H; subst.
      constructor; auto. now apply IH.
    + inversion H; subst. rewrite H2. apply IH in H4. now rewrite H4.
Qed.

(* ------------------------------------------------------------------------- *)
(* sorted(), the list comprehension of flood *)

From AwVerif Require Import Proofs.IntersectSort.
From Coq Require Import Sorting.Permutation.

Lemma keyed_snd : forall h ks kl, keyed h ks = Ok kl -> map snd kl = ks.
Proof.
  unfold keyed. intros h. induction ks as [|k ks IH]; cbn [map_res]; intros kl H.
  - inversion H. reflexivity.
  - destruct (rd_ts h k) as [t| |]; cbn [bind] in H; try discriminate.
    destruct (map_res _ ks) as [r| |] eqn:M; cbn [bind] in H; try discriminate.
    inversion H; subst. cbn. f_equal. apply IH. reflexivity.
Qed.

Lemma sorted_ts_perm : forall h ks srt, sorted_ts h ks = Ok srt -> Permutation srt ks.
Proof.
  unfold sorted_ts. intros h ks srt H.
  destruct (keyed h ks) as [kl| |] eqn:K; cbn [bind] in H; try discriminate.
  inversion H; subst. rewrite <- (keyed_snd _ _ _ K). apply Permutation_map. apply sort_by_perm.
Qed.

Lemma sorted_ts_in : forall h ks srt x, sorted_ts h ks = Ok srt -> (In x srt <-> In x ks).
Proof.
  intros h ks srt x H. pose proof (sorted_ts_perm _ _ _ H) as P.
  split; apply Permutation_in; auto. now apply Permutation_sym.
Qed.

(* two lists related element by element, with equal keys, are sorted alike *)
Section SortRel.
  Context {X Y : Type} (kx : X -> Z) (ky : Y -> Z) (R : X -> Y -> Prop).
  Hypothesis Rkey : forall x y, R x y -> kx x = ky y.

  Lemma insert_sorted_rel : forall x y l l', R x y -> Forall2 R l l' ->
    Forall2 R (insert_sorted kx x l) (insert_sorted ky y l').
  Proof.
    intros x y l l' Rxy F. induction F as [|a b l l' Rab F IH]; cbn [insert_sorted].
    - constructor; auto.
    - rewrite (Rkey _ _ Rxy), (Rkey _ _ Rab). destruct (ky b <? ky y)%Z; constructor; auto.
  Qed.

  Lemma sort_by_rel : forall l l', Forall2 R l l' -> Forall2 R (sort_by kx l) (sort_by ky l').
  Proof.
    intros l l' F. induction F; cbn [sort_by fold_right]; [constructor|].
    apply insert_sorted_rel; auto.
  Qed.
End SortRel.

Lemma Forall2_map_l : forall {X Y Z} (f : X -> Y) (R : Y -> Z -> Prop) l l',
  Forall2 (fun x z => R (f x) z) l l' -> Forall2 R (map f l) l'.
Proof. intros X Y Z f R l l' F. induction F; cbn; constructor; auto. Qed.

Lemma keyed_valid : forall h ks vs, Forall2 (fun k v => ev_at h k = Some v) ks vs ->
  exists kl, keyed h ks = Ok kl /\
             Forall2 (fun (p : BinNums.Z * loc) v => ev_at h (snd p) = Some v /\ fst p = ts v) kl vs.
Proof.
  unfold keyed. intros h ks vs F. induction F as [|k v ks vs H F IH]; cbn [map_res].
  - exists []. split; auto.
  - destruct IH as (kl & M & F'). rewrite (rd_ts_ok _ _ _ H). cbn [bind]. rewrite M. cbn [bind].
    exists ((ts v, k) :: kl). split; auto.
Qed.

Lemma sorted_ts_valid : forall h ks vs, evs_at h ks = Some vs ->
  exists srt, sorted_ts h ks = Ok srt /\ evs_at h srt = Some (sort_by ts vs).
Proof.
  intros h ks vs H. apply evs_at_Forall2 in H.
  destruct (keyed_valid _ _ _ H) as (kl & K & F).
  unfold sorted_ts. rewrite K. cbn [bind]. eexists. split; [reflexivity|].
  apply evs_at_Forall2. apply Forall2_map_l.
  pose proof (sort_by_rel fst ts _ (fun p v (Hpv : ev_at h (snd p) = Some v /\ fst p = ts v) => proj2 Hpv) _ _ F) as S.
  clear -S. induction S; constructor; auto. apply H.
Qed.

Lemma filter_res_incl : forall {X} (f : X -> res bool) l out, filter_res f l = Ok out -> incl out l.
Proof.
  intros X f. induction l as [|x l IH]; cbn [filter_res]; intros out H.
  - inversion H. apply incl_refl.
  - destruct (f x) as [b| |]; cbn [bind] in H; try discriminate.
    destruct (filter_res f l) as [r| |]; cbn [bind] in H; try discriminate.
    inversion H; subst. destruct b.
    + intros y [<-|I]; [left; auto|right; apply (IH r eq_refl); auto].
    + intros y I. right. apply (IH r eq_refl); auto.
Qed.

Lemma filter_pos_valid : forall h ks vs, evs_at h ks = Some vs ->
  exists out, filter_pos h ks = Ok out /\ evs_at h out = Some (filter (fun e => (dur e >? 0)%Z) vs).
Proof.
  unfold filter_pos. intros h ks vs H. apply evs_at_Forall2 in H.
  induction H as [|k v ks vs Hk F IH]; cbn [filter_res filter].
  - exists []. split; auto.
  - destruct IH as (out & Fo & Eo). rewrite (rd_dur_ok _ _ _ Hk). cbn [bind]. rewrite Fo. cbn [bind].
    destruct (dur v >? 0)%Z; eexists; split; try reflexivity; auto.
    rewrite evs_at_cons, Hk, Eo. reflexivity.
Qed.

Lemma list_elems_inv : forall h L ks, list_elems h L = Ok ks -> exists p, lookup h L = Some (Cell (TNode p) ks).
Proof.
  unfold list_elems. intros h L ks H. destruct (lookup h L) as [[[? ? ?|p] k]|]; try discriminate.
  inversion H; subst. eauto.
Qed.
