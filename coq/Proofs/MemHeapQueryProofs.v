(* C12 over the MemHeap model: a query changes neither the store's roots nor their
   content, whatever its built-ins do within their confinement and wherever it aborts;
   query_bucket is the windowed read. *)
From AwVerif Require Import Base.Prelude Model.MemHeap Model.MemHeapQuery
  Proofs.MemHeapBase Proofs.MemHeapCopy Proofs.MemHeapFrame Proofs.Ownership.
From Coq Require Import Arith Relations.
Local Arguments deepcopy : simpl never.
Local Arguments content_of : simpl never.
Local Arguments alloc : simpl never.

(* ------------------------------------------------------------------------- *)
(* Bucket.get's rounding: on the UTC reading of the edge (49e3288), hence for every utcoffset
   (before that commit: for offsets that are whole milliseconds) *)

Lemma round_start_floor : forall d, round_start d = 1000 * (fst d / 1000).
Proof.
  intros [u o]; unfold round_start, to_utc, us_field; cbn [fst snd].
  Z.div_mod_to_equations. lia.
Qed.

Lemma round_end_ceil : forall d, round_end d = 1000 * (fst d / 1000) + 1000.
Proof.
  intros [u o]; unfold round_end, to_utc, us_field; cbn [fst snd].
  Z.div_mod_to_equations. lia.
Qed.

Local Open Scope nat_scope.

Section QueryProofs.
  Variable str : Type.
  Variable isoformat : adt -> str.
  Variable parse_date : str -> option adt.
  Variable builtin : Z -> list loc -> heap -> heap * option (list loc).

  (* oracle hypothesis: iso8601.parse_date inverts datetime.isoformat on aware datetimes *)
  Definition parse_inverts_isoformat : Prop := forall d, parse_date (isoformat d) = Some d.

  (* assumption about Python's reference semantics: a built-in changes only cells its
     arguments reach, stores only references it could obtain from them (or to cells it
     allocated), returns only such references, and keeps the data closed and acyclic *)
  Definition outs_of (r : option (list loc)) : list loc := match r with Some o => o | None => [] end.

  Definition builtins_confined : Prop :=
    forall f args h, wf h -> allocated h args ->
      confined h args (fst (builtin f args h)) /\
      wf (fst (builtin f args h)) /\
      forall o, In o (outs_of (snd (builtin f args h))) ->
                o < length (fst (builtin f args h)) /\ (length h <= o \/ reach h args o).

  Notation ns_t := (namespace str).
  Notation q2_query_bucket := (q2_query_bucket str parse_date).
  Notation q2_query_bucket_eventcount := (q2_query_bucket_eventcount str parse_date).
  Notation run_qstep := (run_qstep str parse_date builtin).
  Notation run_query := (run_query str parse_date builtin).

  Theorem query_bucket_is_get : parse_inverts_isoformat ->
    forall s st en b,
      q2_query_bucket s (query_namespace str isoformat st en) b =
        match find_bucket (store s) b with
        | Some _ => bucket_get s b (-1) (Some st) (Some en)
        | None => Err FunctionError
        end
      /\
      q2_query_bucket_eventcount s (query_namespace str isoformat st en) b =
        match find_bucket (store s) b with
        | Some _ => bucket_get_eventcount s b (Some st) (Some en)
        | None => Err FunctionError
        end.
  Proof.
    intros P s st en b. unfold MemHeapQuery.q2_query_bucket, MemHeapQuery.q2_query_bucket_eventcount,
      query_namespace. cbn [ns_start ns_end]. rewrite !P. split; reflexivity.
  Qed.

  (* what one query step keeps *)
  Definition kept (s s' : state) : Prop :=
    Sep s' /\ store s' = store s /\ content_store s' = content_store s.

  Lemma kept_refl : forall s, Sep s -> kept s s.
  Proof. intros s SP. unfold kept. auto. Qed.

  Lemma kept_trans : forall a b c, kept a b -> kept b c -> kept a c.
  Proof. intros a b c (S1 & T1 & C1) (S2 & T2 & C2). unfold kept. split; [auto|split; congruence]. Qed.

  Lemma of_read_kept : forall s o, Sep s -> post (read_post s) o -> kept s (fst (of_read s o)).
  Proof.
    intros s o SP P. destruct o as [sr| |]; cbn in *; try now apply kept_refl.
    pose proof (read_content s sr SP P) as CS. destruct P as (SP' & _ & ST). unfold kept. auto.
  Qed.

  Lemma resolve_in : forall held args ls, resolve held args = Some ls -> incl ls held.
  Proof.
    induction args as [|a args IH]; cbn; intros ls H.
    - inversion H. intros x [].
    - destruct (nth_error held a) as [l|] eqn:N; try discriminate.
      destruct (resolve held args) as [ls'|]; try discriminate. inversion H; subst.
      intros x [<-|I]; [eapply nth_error_In; eauto|apply (IH ls' eq_refl); auto].
  Qed.

  Lemma qstep_kept : builtins_confined -> forall ns s q, Sep s -> kept s (fst (run_qstep ns s q)).
  Proof.
    intros BC ns s q SP. destruct q; cbn [MemHeapQuery.run_qstep].
    - apply of_read_kept; auto. now apply buckets_read.
    - apply of_read_kept; auto. now apply get_metadata_read.
    - apply of_read_kept; auto. unfold MemHeapQuery.q2_query_bucket.
      destruct (find_bucket (store s) b); cbn [post]; auto.
      destruct (parse_date (ns_start str ns)); cbn [post]; auto.
      destruct (parse_date (ns_end str ns)); cbn [post]; auto.
      now apply get_events_read.
    - apply of_read_kept; auto. unfold MemHeapQuery.q2_query_bucket_eventcount.
      destruct (find_bucket (store s) b); cbn [post]; auto.
      destruct (parse_date (ns_start str ns)); cbn [post]; auto.
      destruct (parse_date (ns_end str ns)); cbn [post]; auto.
      now apply get_eventcount_read.
    - destruct (resolve (held s) args) as [ls|] eqn:R; [|now apply kept_refl].
      apply resolve_in in R.
      pose proof (Sep2_wf _ _ _ SP) as W.
      assert (AL : allocated (heap_of s) ls) by (intros x I; destruct SP as [_ _ _ AC _]; auto).
      destruct (BC f ls (heap_of s) W AL) as (CF & [Cl' Ac'] & OUTS).
      assert (CF' : confined (heap_of s) (held s) (fst (builtin f ls (heap_of s)))).
      { apply confined_mono with (A := ls); auto. intros l RL. eapply reach_incl; eauto. }
      assert (SP' : Sep2 (fst (builtin f ls (heap_of s))) (store_roots s)
                         (held s ++ outs_of (snd (builtin f ls (heap_of s))))).
      { apply Sep2_sym. eapply Sep2_confined; eauto.
        - now apply Sep2_sym.
        - intros o I. destruct (OUTS o I) as [B [G|RA]]; split; auto.
          right. eapply reach_incl; eauto. }
      pose proof (confined_content_store s _ SP CF') as CS.
      destruct (snd (builtin f ls (heap_of s))) as [outs|]; cbn [fst outs_of] in *.
      + unfold kept, Sep, content_store. cbn. auto.
      + rewrite app_nil_r in SP'. unfold kept, Sep, content_store. cbn. auto.
    - now apply kept_refl.
  Qed.

  Theorem query_store_unchanged : builtins_confined ->
    forall ns prog s, Sep s ->
      Sep (run_query ns prog s) /\
      store (run_query ns prog s) = store s /\
      content_store (run_query ns prog s) = content_store s.
  Proof.
    intros BC ns. induction prog as [|q prog IH]; cbn [MemHeapQuery.run_query]; intros s SP.
    - now apply kept_refl.
    - pose proof (qstep_kept BC ns s q SP) as K.
      destruct (snd (run_qstep ns s q)); auto.
      eapply kept_trans; [exact K|]. apply IH. apply K.
  Qed.
End QueryProofs.

(* the hypothesis about built-ins is satisfiable: the demo built-in, which mutates its
   arguments, raises midway for f < 0 and otherwise returns a container aliasing them,
   is confined *)
Lemma retag_cases : forall f h l,
  retag f h l = h \/
  exists t t' ks, lookup h l = Some (Cell t ks) /\ retag f h l = update h l (Cell t' ks).
Proof.
  unfold retag. intros f h l. destruct (lookup h l) as [[[i t d|p] ks]|]; eauto 10.
Qed.

Lemma fold_retag_inv : forall f args h A,
  wf h -> (forall a, In a args -> reach h A a) ->
  let h1 := fold_left (retag f) args h in
  confined h A h1 /\ wf h1 /\ length h1 = length h /\ (forall a b, rt h1 a b <-> rt h a b).
Proof.
  intros f. induction args as [|x args IH]; cbn [fold_left]; intros h A W R.
  - split; [|split; [auto|split; [auto|tauto]]].
    constructor; auto. intros l c k L [G|N] I; [apply lookup_lt in L; lia|congruence].
  - destruct (retag_cases f h x) as [E|(t & t' & ks & L & E)]; rewrite E.
    + apply IH; auto. intros a I; apply R; cbn; auto.
    + set (h0 := update h x (Cell t' ks)).
      assert (RT : forall a b, rt h0 a b <-> rt h a b) by (intros; eapply rt_update_tag; eauto).
      assert (W0 : wf h0).
      { destruct W as [C A0]. split.
        - apply closed_update; auto. cbn. intros k I. eapply C; eauto.
        - intros m T. apply (A0 m). eapply tc_update_tag; eauto. }
      assert (R0 : forall a, In a args -> reach h0 A a).
      { intros a I. destruct (R a (or_intror I)) as (r & Ir & P). exists r. split; auto. now apply RT. }
      destruct (IH h0 A W0 R0) as (CF & W1 & LEN & RT1).
      assert (RX : reach h A x) by (apply R; cbn; auto).
      assert (CF0 : confined h A h0).
      { apply confined_update; auto. cbn. intros k I. eapply reach_step; eauto. exists (Cell t ks); auto. }
      assert (RE : forall l, reach h0 A l <-> reach h A l).
      { intros l; split; intros (r & Ir & P); exists r; split; auto; now apply RT. }
      split; [|split; [auto|split; [unfold h0 in LEN; rewrite update_length in LEN; auto|
                                    intros a b; rewrite RT1; apply RT]]].
      destruct CF as [G F P]. destruct CF0 as [G0 F0 P0]. unfold h0 in *. rewrite update_length in *.
      constructor; [lia| |].
      * intros l Ll NR. rewrite F; auto. intro RR. apply NR. now apply RE.
      * intros l c k Lk D I.
        destruct (ocell_eq_dec (lookup (update h x (Cell t' ks)) l) (Some c)) as [Eq|Ne].
        -- destruct (P0 l c k Eq D I); auto.
        -- assert (LL : l < length h) by (apply lookup_lt in Lk; rewrite LEN in Lk; auto).
           destruct (P l c k Lk (or_intror Ne) I) as [G1|R1]; [lia|]. right. now apply RE.
Qed.

Lemma demo_builtin_confined : builtins_confined demo_builtin.
Proof.
  intros f args h W AL. unfold demo_builtin.
  destruct (fold_retag_inv f args h args W) as (CF & W1 & LEN & RT).
  { intros a I. now apply reach_root. }
  destruct (f <? 0)%Z; cbn [fst snd outs_of].
  - split; [auto|split; [auto|intros o []]].
  - set (h1 := fold_left (retag f) args h) in *.
    assert (KB : forall k, In k (children (Cell (TNode f) args)) -> k < length h1).
    { cbn. intros k I. rewrite LEN. auto. }
    split; [|split].
    + destruct CF as [G F P]. constructor.
      * rewrite app_length; cbn; lia.
      * intros l L NR. rewrite lookup_app_old by lia. auto.
      * intros l c k L D I. apply lookup_alloc_inv in L. destruct L as [[Y L]|[-> ->]].
        -- apply (P l c k L); auto.
        -- right. cbn in I. now apply reach_root.
    + destruct W1 as [C1 A1]. split; [apply closed_alloc|apply acyclic_alloc]; auto.
    + intros o [<-|[]]. rewrite app_length; cbn. lia.
Qed.
