(* Numbers of the JSON model: int.__repr__ / int(str) through the standard library's Decimal,
   NUMBER_RE on a token followed by more text. *)
From AwVerif Require Import Base.Prelude Model.Json Proofs.JsonStr.
From Coq Require DecimalFacts DecimalPos DecimalZ.
Open Scope Z_scope.

(* --- digits ---------------------------------------------------------------------- *)
Lemma chars_uint_chars u : chars_uint (uint_chars u) = u.
Proof. induction u; cbn [uint_chars chars_uint]; try reflexivity; rewrite IHu; reflexivity. Qed.

Lemma uint_chars_digits u : Forall (fun c => is_digit c = true) (uint_chars u).
Proof. induction u; cbn [uint_chars]; constructor; try reflexivity; exact IHu. Qed.

Definition nd (rest : list Z) : Prop := match rest with [] => True | c :: _ => is_digit c = false end.

Lemma span_digits_all l rest : Forall (fun c => is_digit c = true) l -> nd rest ->
  span_digits (l ++ rest) = (l, rest).
Proof.
  induction 1 as [|c l Hc Hl IH]; intros Hn.
  - destruct rest as [|x rest]; [reflexivity|]. cbn in Hn. cbn [app span_digits]. rewrite Hn. reflexivity.
  - cbn [app span_digits]. rewrite Hc, (IH Hn). reflexivity.
Qed.

(* --- normal form of Z.to_int ------------------------------------------------------- *)
Definition head_nonzero (u : Decimal.uint) : Prop :=
  match u with Decimal.Nil | Decimal.D0 _ => False | _ => True end.

Lemma unorm_fix u : Decimal.unorm u = u -> u = Decimal.D0 Decimal.Nil \/ head_nonzero u.
Proof.
  destruct u; intros H; try (right; exact I).
  - discriminate H.
  - left. rewrite DecimalFacts.unorm_D0 in H. unfold Decimal.unorm in H.
    destruct (Decimal.nzhead u) eqn:E; try (exfalso; exact (DecimalFacts.nzhead_nonzero _ _ (eq_trans E H))).
    injection H as H. now subst.
Qed.

Lemma to_int_norm n : Decimal.norm (Z.to_int n) = Z.to_int n.
Proof. rewrite <- DecimalZ.to_of, DecimalZ.of_to. reflexivity. Qed.

Lemma to_int_shape n :
  match Z.to_int n with
  | Decimal.Pos u => u = Decimal.D0 Decimal.Nil \/ head_nonzero u
  | Decimal.Neg u => head_nonzero u
  end.
Proof.
  pose proof (to_int_norm n) as H. destruct (Z.to_int n) as [u|u]; cbn [Decimal.norm] in H.
  - injection H as H. now apply unorm_fix.
  - destruct (Decimal.nzhead u) eqn:E; try discriminate H; injection H as H; subst u;
      try exact I; exfalso; exact (DecimalFacts.nzhead_nonzero _ _ E).
Qed.

Lemma scan_digits1_uint u rest : u = Decimal.D0 Decimal.Nil \/ head_nonzero u -> nd rest ->
  scan_digits1 (uint_chars u ++ rest) = Some (uint_chars u, rest).
Proof.
  intros [->|H] Hn; [reflexivity|].
  pose proof (uint_chars_digits u) as Hd.
  destruct u; try contradiction; cbn [uint_chars app scan_digits1] in *;
    inversion Hd as [|? ? _ Hd']; subst;
    (change (_ =? c_0) with false; cbv iota; change (is_digit _) with true; cbv iota;
     rewrite (span_digits_all _ _ Hd' Hn); reflexivity).
Qed.

Lemma scan_intpart_repr n rest : nd rest ->
  scan_intpart (int_repr n ++ rest) = Some (int_repr n, rest).
Proof.
  intros Hn. unfold int_repr. pose proof (to_int_shape n) as H.
  destruct (Z.to_int n) as [u|u]; cbn [int_chars].
  - unfold scan_intpart. destruct (uint_chars u ++ rest) as [|c r] eqn:E.
    + exfalso. destruct H as [->|H]; [discriminate E|]. destruct u; try contradiction; discriminate E.
    + assert (Hc : is_digit c = true).
      { pose proof (uint_chars_digits u) as Hd. destruct H as [->|H]; [cbn in E; now injection E as <- _|].
        destruct u; try contradiction; cbn in E; injection E as <- _; reflexivity. }
      replace (c =? c_minus) with false.
      * rewrite <- E. now apply scan_digits1_uint.
      * symmetry. apply Z.eqb_neq. unfold is_digit in Hc. unfold c_minus. apply andb_prop in Hc. destruct Hc as [Hc _]. apply Z.leb_le in Hc. lia.
  - cbn [app scan_intpart]. change (c_minus =? c_minus) with true. cbv iota.
    rewrite scan_digits1_uint; [reflexivity|now right|exact Hn].
Qed.

Lemma parse_int_repr n : parse_int (int_repr n) = n.
Proof.
  unfold int_repr. rewrite <- (DecimalZ.of_to n) at 2. pose proof (to_int_shape n) as H.
  destruct (Z.to_int n) as [u|u]; cbn [int_chars].
  - unfold parse_int. destruct (uint_chars u) as [|c r] eqn:E.
    + destruct u; try discriminate E. reflexivity.
    + assert (Hc : (c =? c_minus) = false).
      { pose proof (uint_chars_digits u) as Hd. rewrite E in Hd. inversion Hd as [|? ? Hc _]; subst.
        apply Z.eqb_neq. unfold is_digit in Hc. unfold c_minus. apply andb_prop in Hc. destruct Hc as [Hc _]. apply Z.leb_le in Hc. lia. }
      rewrite Hc, <- E, chars_uint_chars. reflexivity.
  - unfold parse_int. change (c_minus =? c_minus) with true. cbv iota. rewrite chars_uint_chars. reflexivity.
Qed.

Lemma int_group_digits_repr n :
  int_group_digits (int_repr n) = length (uint_chars (int_abs (Z.to_int n))).
Proof.
  unfold int_repr. destruct (Z.to_int n) as [u|u]; cbn [int_chars int_abs].
  - unfold int_group_digits. destruct (uint_chars u) as [|c r] eqn:E; [reflexivity|].
    pose proof (uint_chars_digits u) as Hd. rewrite E in Hd. inversion Hd as [|? ? Hc _]; subst.
    replace (c =? c_minus) with false; [reflexivity|].
    symmetry. apply Z.eqb_neq. unfold is_digit in Hc. unfold c_minus. apply andb_prop in Hc. destruct Hc as [Hc _]. apply Z.leb_le in Hc. lia.
  - reflexivity.
Qed.

(* --- a number token followed by more text ------------------------------------------ *)
Definition numchar (c : Z) : bool :=
  is_digit c || (c =? c_dot) || (c =? c_e) || (c =? c_E) || (c =? c_plus) || (c =? c_minus).
(* the text after the token does not continue a number *)
Definition hnn (rest : list Z) : Prop := match rest with [] => True | c :: _ => numchar c = false end.

Lemma numchar_false c : numchar c = false ->
  is_digit c = false /\ (c =? c_dot) = false /\ (c =? c_e) = false /\ (c =? c_E) = false /\
  (c =? c_plus) = false /\ (c =? c_minus) = false.
Proof.
  unfold numchar. intros H. repeat (apply orb_false_elim in H; destruct H as [H ?]). auto 10.
Qed.

Lemma hnn_nd rest : hnn rest -> nd rest.
Proof. destruct rest; [trivial|]. cbn. intros H. now apply numchar_false in H. Qed.

Lemma span_digits_app s rest : forall d r, span_digits s = (d, r) -> nd rest ->
  span_digits (s ++ rest) = (d, r ++ rest).
Proof.
  induction s as [|c s IH]; intros d r H Hn.
  - cbn in H. injection H as <- <-. destruct rest as [|x rest]; [reflexivity|]. cbn in Hn. cbn [app span_digits]. now rewrite Hn.
  - cbn [app span_digits] in *. destruct (is_digit c).
    + destruct (span_digits s) as [d' r'] eqn:E. injection H as <- <-. now rewrite (IH _ _ eq_refl Hn).
    + injection H as <- <-. reflexivity.
Qed.

Lemma span_digits_decomp s : forall d r, span_digits s = (d, r) ->
  s = d ++ r /\ Forall (fun c => is_digit c = true) d.
Proof.
  induction s as [|c s IH]; intros d r H; cbn [span_digits] in H.
  - injection H as <- <-. split; [reflexivity|constructor].
  - destruct (is_digit c) eqn:Hc.
    + destruct (span_digits s) as [d' r'] eqn:E. injection H as <- <-.
      destruct (IH _ _ eq_refl) as [-> Hd]. split; [reflexivity|now constructor].
    + injection H as <- <-. split; [reflexivity|constructor].
Qed.

Lemma scan_digits1_app s rest d r : scan_digits1 s = Some (d, r) -> nd rest ->
  scan_digits1 (s ++ rest) = Some (d, r ++ rest).
Proof.
  destruct s as [|c s]; [discriminate|]. cbn [app scan_digits1]. intros H Hn.
  destruct (c =? c_0); [now injection H as <- <-|].
  destruct (is_digit c); [|discriminate].
  destruct (span_digits s) as [d' r'] eqn:E. injection H as <- <-.
  now rewrite (span_digits_app _ _ _ _ E Hn).
Qed.

Lemma scan_intpart_app s rest d r : scan_intpart s = Some (d, r) -> nd rest ->
  scan_intpart (s ++ rest) = Some (d, r ++ rest).
Proof.
  destruct s as [|c s]; [discriminate|]. unfold scan_intpart. cbn [app]. intros H Hn.
  destruct (c =? c_minus).
  - destruct (scan_digits1 s) as [[d' r']|] eqn:E; [|discriminate]. injection H as <- <-.
    now rewrite (scan_digits1_app _ _ _ _ E Hn).
  - now apply (scan_digits1_app (c :: s)).
Qed.

Lemma scan_frac_app s rest f r : scan_frac s = (f, r) -> hnn rest ->
  scan_frac (s ++ rest) = (f, r ++ rest).
Proof.
  intros H Hn. pose proof (hnn_nd _ Hn) as Hnd.
  destruct s as [|c [|d s]].
  - cbn in H. injection H as <- <-. cbn [app]. destruct rest as [|x [|y rest]]; try reflexivity.
    cbn in Hn. apply numchar_false in Hn. destruct Hn as (_ & Hx & _). unfold scan_frac. now rewrite Hx.
  - cbn in H. injection H as <- <-. cbn [app]. destruct rest as [|x rest]; [reflexivity|].
    cbn in Hnd. unfold scan_frac. rewrite Hnd, andb_false_r. reflexivity.
  - cbn [app]. unfold scan_frac in *. destruct ((c =? c_dot) && is_digit d).
    + destruct (span_digits (d :: s)) as [ds r'] eqn:E. injection H as <- <-.
      change (d :: s ++ rest) with ((d :: s) ++ rest). now rewrite (span_digits_app _ _ _ _ E Hnd).
    + now injection H as <- <-.
Qed.

Lemma scan_exp_app s rest e r : scan_exp s = (e, r) -> hnn rest ->
  scan_exp (s ++ rest) = (e, r ++ rest).
Proof.
  intros H Hn. pose proof (hnn_nd _ Hn) as Hnd.
  destruct s as [|c s].
  - cbn in H. injection H as <- <-. cbn [app]. destruct rest as [|x rest]; [reflexivity|].
    cbn in Hn. apply numchar_false in Hn. destruct Hn as (_ & _ & He & HE & _). unfold scan_exp. now rewrite He, HE.
  - cbn [app]. unfold scan_exp in *. destruct ((c =? c_e) || (c =? c_E)); [|now injection H as <- <-].
    destruct s as [|x s].
    + cbn in H. injection H as <- <-. cbn [app].
      destruct rest as [|y rest]; [reflexivity|]. cbn in Hn. apply numchar_false in Hn.
      destruct Hn as (Hd & _ & _ & _ & Hp & Hm). rewrite Hp, Hm. cbn [orb span_digits]. rewrite Hd. reflexivity.
    + cbn [app]. destruct ((x =? c_plus) || (x =? c_minus)).
      * destruct (span_digits s) as [ds r2] eqn:E. rewrite (span_digits_app _ _ _ _ E Hnd).
        destruct ds; now injection H as <- <-.
      * destruct (span_digits (x :: s)) as [ds r2] eqn:E.
        change (x :: s ++ rest) with ((x :: s) ++ rest). rewrite (span_digits_app _ _ _ _ E Hnd).
        destruct ds; now injection H as <- <-.
Qed.

Lemma match_number_app s rest i f e r : match_number s = Some (i, f, e, r) -> hnn rest ->
  match_number (s ++ rest) = Some (i, f, e, r ++ rest).
Proof.
  unfold match_number. intros H Hn.
  destruct (scan_intpart s) as [[i' r0]|] eqn:E0; [|discriminate].
  destruct (scan_frac r0) as [f' r1] eqn:E1. destruct (scan_exp r1) as [e' r2] eqn:E2.
  injection H as <- <- <- <-.
  rewrite (scan_intpart_app _ _ _ _ E0 (hnn_nd _ Hn)), (scan_frac_app _ _ _ _ E1 Hn), (scan_exp_app _ _ _ _ E2 Hn).
  reflexivity.
Qed.

(* --- what a match consumed ----------------------------------------------------------- *)
Definition numtext (l : list Z) : Prop := Forall (fun c => numchar c = true) l.

Lemma digits_numtext d : Forall (fun c => is_digit c = true) d -> numtext d.
Proof. apply Forall_impl. intros c H. unfold numchar. now rewrite H. Qed.

Lemma scan_digits1_decomp s d r : scan_digits1 s = Some (d, r) ->
  s = d ++ r /\ Forall (fun c => is_digit c = true) d /\ d <> [].
Proof.
  destruct s as [|c s]; [discriminate|]. cbn [scan_digits1].
  destruct (Z.eqb_spec c c_0).
  - intros H. injection H as <- <-. subst c. repeat split; [repeat constructor|discriminate].
  - destruct (is_digit c) eqn:Hc; [|discriminate].
    destruct (span_digits s) as [d' r'] eqn:E. intros H. injection H as <- <-.
    destruct (span_digits_decomp _ _ _ E) as [-> Hd]. repeat split; [now constructor|discriminate].
Qed.

Lemma scan_intpart_decomp s i r : scan_intpart s = Some (i, r) ->
  s = i ++ r /\ numtext i /\ exists c i', i = c :: i' /\ (c = c_minus \/ is_digit c = true).
Proof.
  destruct s as [|c s]; [discriminate|]. unfold scan_intpart.
  destruct (Z.eqb_spec c c_minus).
  - destruct (scan_digits1 s) as [[d' r']|] eqn:E; [|discriminate]. intros H. injection H as <- <-.
    destruct (scan_digits1_decomp _ _ _ E) as (-> & Hd & _). subst c. repeat split.
    + constructor; [reflexivity|now apply digits_numtext].
    + exists c_minus, d'. split; [reflexivity|now left].
  - intros H. destruct (scan_digits1_decomp _ _ _ H) as (E & Hd & Hne). repeat split; [exact E|now apply digits_numtext|].
    destruct i as [|x i']; [contradiction|]. exists x, i'. split; [reflexivity|right]. now inversion Hd.
Qed.

Lemma scan_frac_decomp s f r : scan_frac s = (f, r) -> s = f ++ r /\ numtext f.
Proof.
  unfold scan_frac. destruct s as [|c [|d s]]; try (intros H; injection H as <- <-; split; [reflexivity|constructor]).
  destruct (Z.eqb_spec c c_dot); cbn [andb]; [|intros H; injection H as <- <-; split; [reflexivity|constructor]].
  destruct (is_digit d) eqn:Hd; [|intros H; injection H as <- <-; split; [reflexivity|constructor]].
  destruct (span_digits (d :: s)) as [ds r'] eqn:E. intros H. injection H as <- <-.
  destruct (span_digits_decomp _ _ _ E) as [E' Hds]. rewrite E'. split; [reflexivity|].
  constructor; [subst c; reflexivity|now apply digits_numtext].
Qed.

Lemma scan_exp_decomp s e r : scan_exp s = (e, r) -> s = e ++ r /\ numtext e.
Proof.
  unfold scan_exp. destruct s as [|c s]; [intros H; injection H as <- <-; split; [reflexivity|constructor]|].
  destruct ((c =? c_e) || (c =? c_E)) eqn:Hc; [|intros H; injection H as <- <-; split; [reflexivity|constructor]].
  assert (Hcn : numchar c = true).
  { unfold numchar. apply orb_prop in Hc. destruct Hc as [-> | ->]; now rewrite ?orb_true_r. }
  destruct s as [|x s].
  - cbn. intros H; injection H as <- <-; split; [reflexivity|constructor].
  - destruct ((x =? c_plus) || (x =? c_minus)) eqn:Hx.
    + destruct (span_digits s) as [ds r2] eqn:E. destruct (span_digits_decomp _ _ _ E) as [-> Hds].
      destruct ds as [|y ds]; intros H; injection H as <- <-; (split; [reflexivity|]); [constructor|].
      constructor; [exact Hcn|]. constructor; [|now apply digits_numtext].
      unfold numchar. apply orb_prop in Hx. destruct Hx as [-> | ->]; now rewrite ?orb_true_r.
    + destruct (span_digits (x :: s)) as [ds r2] eqn:E. destruct (span_digits_decomp _ _ _ E) as [E' Hds].
      destruct ds as [|y ds]; intros H; injection H as <- <-; (split; [|]); try reflexivity; try constructor.
      * rewrite E'. reflexivity.
      * exact Hcn.
      * now apply digits_numtext.
Qed.

Lemma match_number_decomp s i f e r : match_number s = Some (i, f, e, r) ->
  s = i ++ f ++ e ++ r /\ numtext (i ++ f ++ e) /\ exists c i', i = c :: i' /\ (c = c_minus \/ is_digit c = true).
Proof.
  unfold match_number.
  destruct (scan_intpart s) as [[i' r0]|] eqn:E0; [|discriminate].
  destruct (scan_frac r0) as [f' r1] eqn:E1. destruct (scan_exp r1) as [e' r2] eqn:E2.
  intros H. injection H as <- <- <- <-.
  destruct (scan_intpart_decomp _ _ _ E0) as (-> & Hi & Hc).
  destruct (scan_frac_decomp _ _ _ E1) as (-> & Hf). destruct (scan_exp_decomp _ _ _ E2) as (-> & He).
  repeat split; [|exact Hc]. unfold numtext. rewrite !Forall_app. auto.
Qed.

(* --- scan_scalar on the tokens dumps writes ------------------------------------------ *)
Lemma str_eqb_eq a : forall b, str_eqb a b = true -> a = b.
Proof.
  induction a as [|x a IH]; destruct b as [|y b]; cbn; intros H; try discriminate; [reflexivity|].
  apply andb_prop in H. destruct H as [H1 H2]. apply Z.eqb_eq in H1. subst. f_equal. now apply IH.
Qed.

Lemma str_eqb_refl a : str_eqb a a = true.
Proof. induction a; cbn; [reflexivity|]. now rewrite Z.eqb_refl. Qed.

Lemma num_first_not_letter c : c = c_minus \/ is_digit c = true -> c < 58.
Proof.
  intros [->|H]; [unfold c_minus; lia|]. unfold is_digit in H. apply andb_prop in H. destruct H as [_ H].
  apply Z.leb_le in H. lia.
Qed.

Lemma scan_scalar_number s i f e r : match_number s = Some (i, f, e, r) ->
  scan_scalar s =
    if is_nil f && is_nil e then
      if Nat.leb (int_group_digits i) max_str_digits then Ok (JInt (parse_int i), r) else Err ValueError
    else Ok (JFloat (i ++ f ++ e), r).
Proof.
  intros H. destruct (match_number_decomp _ _ _ _ _ H) as (E & _ & c & i' & -> & Hc).
  apply num_first_not_letter in Hc. unfold scan_scalar.
  assert (Hn : strip_prefix t_null s = None).
  { rewrite E. unfold t_null. cbn [app strip_prefix]. replace (110 =? c) with false; [reflexivity|symmetry; apply Z.eqb_neq; lia]. }
  assert (Ht : strip_prefix t_true s = None).
  { rewrite E. unfold t_true. cbn [app strip_prefix]. replace (116 =? c) with false; [reflexivity|symmetry; apply Z.eqb_neq; lia]. }
  assert (Hf : strip_prefix t_false s = None).
  { rewrite E. unfold t_false. cbn [app strip_prefix]. replace (102 =? c) with false; [reflexivity|symmetry; apply Z.eqb_neq; lia]. }
  rewrite Hn, Ht, Hf, H. reflexivity.
Qed.

Theorem scan_scalar_int n rest : int_ok n = true -> hnn rest ->
  scan_scalar (int_repr n ++ rest) = Ok (JInt n, rest).
Proof.
  intros Hok Hn.
  assert (H : match_number (int_repr n ++ rest) = Some (int_repr n, [], [], rest)).
  { apply (match_number_app (int_repr n) rest (int_repr n) [] [] []); [|exact Hn].
    unfold match_number. pose proof (scan_intpart_repr n [] I) as H. rewrite app_nil_r in H. rewrite H. reflexivity. }
  rewrite (scan_scalar_number _ _ _ _ _ H). cbn [is_nil andb].
  rewrite int_group_digits_repr. unfold int_ok in Hok. rewrite Hok, parse_int_repr. reflexivity.
Qed.

Theorem scan_scalar_float t rest : float_tok_ok t = true -> hnn rest ->
  scan_scalar (t ++ rest) = Ok (JFloat t, rest).
Proof.
  unfold float_tok_ok. intros H Hn.
  apply orb_prop in H. destruct H as [H|H]; [apply orb_prop in H; destruct H as [H|H]; [apply orb_prop in H; destruct H as [H|H]|]|].
  - apply str_eqb_eq in H. subst t. reflexivity.
  - apply str_eqb_eq in H. subst t. reflexivity.
  - apply str_eqb_eq in H. subst t. reflexivity.
  - destruct (match_number t) as [[[[i f] e] r]|] eqn:E; [|discriminate].
    apply andb_prop in H. destruct H as [Hr Hfe]. destruct r; [|discriminate].
    destruct (match_number_decomp _ _ _ _ _ E) as (Et & _).
    rewrite (scan_scalar_number _ _ _ _ _ (match_number_app _ _ _ _ _ _ E Hn)).
    apply negb_true_iff in Hfe. rewrite Hfe. rewrite Et, !app_nil_r. reflexivity.
Qed.

Lemma numchar_printable c : numchar c = true -> printable c.
Proof.
  unfold numchar, is_digit, printable, c_dot, c_e, c_E, c_plus, c_minus. intros H.
  repeat (apply orb_prop in H; destruct H as [H|H]); try (apply Z.eqb_eq in H; lia).
  apply andb_prop in H. destruct H as [H1 H2]. apply Z.leb_le in H1, H2. lia.
Qed.

Lemma float_tok_printable t : float_tok_ok t = true -> Forall printable t.
Proof.
  unfold float_tok_ok. intros H.
  apply orb_prop in H. destruct H as [H|H]; [apply orb_prop in H; destruct H as [H|H]; [apply orb_prop in H; destruct H as [H|H]|]|].
  - apply str_eqb_eq in H. subst t. repeat constructor; unfold printable; lia.
  - apply str_eqb_eq in H. subst t. repeat constructor; unfold printable; lia.
  - apply str_eqb_eq in H. subst t. repeat constructor; unfold printable, c_minus; lia.
  - destruct (match_number t) as [[[[i f] e] r]|] eqn:E; [|discriminate].
    apply andb_prop in H. destruct H as [Hr _]. destruct r; [|discriminate].
    destruct (match_number_decomp _ _ _ _ _ E) as (Et & Hnum & _).
    rewrite Et, !app_nil_r. revert Hnum. apply Forall_impl. exact numchar_printable.
Qed.

Lemma int_repr_printable n : Forall printable (int_repr n).
Proof.
  unfold int_repr. assert (H : forall u, Forall printable (uint_chars u)).
  { intros u. pose proof (uint_chars_digits u) as Hd. revert Hd. apply Forall_impl. intros c Hc.
    apply numchar_printable. unfold numchar. now rewrite Hc. }
  destruct (Z.to_int n); cbn [int_chars]; [apply H|]. constructor; [unfold printable, c_minus; lia|apply H].
Qed.
