From AwVerif Require Import Base.Prelude Model.Commit Model.CommitReadFault.

Lemma visible_do_commit : forall now s, visible (do_commit now s) = visible s.
Proof. intros now s. cbv [visible do_commit set_n set_last flush]. cbn. rewrite app_nil_r. reflexivity. Qed.

Lemma pending_do_commit : forall now s, pending (do_commit now s) = [].
Proof. reflexivity. Qed.

(* The code's failing read: nothing the storage object could read before is gone, and every
   write is durable (the commit came first). *)
Lemma failing_read_keeps_everything : forall lazy c s,
  let s' := run_f lazy s (with_clk c failing_read_script) in
  visible s' = visible s /\ pending s' = [] /\ committed s' = visible s.
Proof.
  intros lazy c s. cbv zeta.
  change (run_f lazy s (with_clk c failing_read_script)) with (do_commit (r1 c) s).
  repeat split.
  - apply visible_do_commit.
Qed.

(* The same read when it succeeds: same visible data. *)
Lemma successful_read_keeps_everything : forall lazy c s,
  visible (run_f lazy s (with_clk c [M Commit; M Read])) = visible s.
Proof.
  intros lazy c s.
  change (run_f lazy s (with_clk c [M Commit; M Read])) with (do_commit (r1 c) s).
  apply visible_do_commit.
Qed.

(* The variant inside `with conn:` loses exactly the open transaction when the read fails ... *)
Lemma with_block_failing_read_loses_pending : forall lazy c s,
  visible (run_f lazy s (with_clk c failing_read_in_with_block)) = committed s.
Proof.
  intros lazy c s.
  change (run_f lazy s (with_clk c failing_read_in_with_block)) with (rollback s).
  cbv [visible rollback]. cbn. apply app_nil_r.
Qed.

(* ... although it is indistinguishable from the code on every successful read. *)
Lemma with_block_successful_read_same : forall lazy c s,
  visible (run_f lazy s (with_clk c successful_read_in_with_block)) = visible s.
Proof.
  intros lazy c s.
  change (run_f lazy s (with_clk c successful_read_in_with_block)) with (do_commit (r1 c) s).
  apply visible_do_commit.
Qed.

(* After any history of API calls (Model/Commit.v's scripts) a failing read leaves what the
   history wrote. *)
Lemma failing_read_after_history : forall lazy (tr : list (micro * clk)) c s0,
  let s := run lazy s0 tr in
  visible (run_f lazy s (with_clk c failing_read_script)) = visible s.
Proof.
  intros lazy tr c s0. cbv zeta.
  change (run_f lazy (run lazy s0 tr) (with_clk c failing_read_script)) with (do_commit (r1 c) (run lazy s0 tr)).
  apply visible_do_commit.
Qed.
