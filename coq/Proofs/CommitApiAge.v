(* C18 through the public layer (Model/CommitApi.v): the lookup `ds[b]` only reads, so the
   age statements of Proofs/CommitAge.v carry over to the calls a program really makes. *)
From AwVerif Require Import Base.Prelude Model.Commit Model.CommitApi
  Proofs.CommitProofs Proofs.CommitAge.
From Coq Require Import ZifyBool.

Lemma mono_from_app : forall a b t,
  mono_from t (a ++ b) -> exists t', t <= t' /\ mono_from t' b.
Proof.
  induction a as [|[m c] a IH]; intros b t H.
  - exists t. split; [lia|exact H].
  - cbn [app mono_from] in H. destruct H as (H1 & H2 & H3 & H4).
    destruct (IH b (r3 c) H4) as (t' & Hle & Hm). exists t'. split; [lia|exact Hm].
Qed.

Lemma run_lookup : forall lazy cached ta s,
  map fst ta = lookup cached -> run lazy s ta = s.
Proof.
  intros lazy [|] ta s H; cbn [lookup] in H.
  - apply map_eq_nil in H. subst. reflexivity.
  - apply map_fst_cons in H. destruct H as (c & ta' & -> & H).
    apply map_eq_nil in H. subst. reflexivity.
Qed.

Lemma api_age_flush : forall lazy s cached o tro t,
  event_write_op o -> map fst tro = api_expand (ViaBucket cached o) ->
  mono_from t tro -> t - last_commit s > MAX_AGE ->
  pending (run lazy s tro) = [].
Proof.
  intros lazy s cached o tro t Ho Htro Hm Hage.
  cbn [api_expand] in Htro. apply map_fst_app in Htro.
  destruct Htro as (ta & tb & -> & Ha & Hb).
  rewrite run_app, (run_lookup lazy cached ta s Ha).
  destruct (mono_from_app ta tb t Hm) as (t' & Hle & Hm').
  apply (age_flush_op lazy s o tb t' Ho Hb Hm'). lia.
Qed.

Lemma qscript_lookup : forall cached, qscript (lookup cached).
Proof. intros [|]; cbn [lookup]; repeat constructor. Qed.

Lemma qscript_api_expand : forall a, qscript (api_expand a).
Proof.
  destruct a; cbn [api_expand].
  - apply qscript_expand.
  - apply qscript_app; [apply qscript_expand|apply qscript_lookup].
  - apply qscript_app; [apply qscript_lookup|apply qscript_expand].
Qed.

Lemma qscript_api_expand_all : forall h, qscript (api_expand_all h).
Proof.
  induction h as [|a h IH]; [apply q_nil|].
  unfold api_expand_all. cbn [flat_map]. apply qscript_app; [apply qscript_api_expand|exact IH].
Qed.

Lemma api_age_bound : forall lazy c0 t0 h tr t,
  map fst tr = api_expand_all h -> mono_from t tr ->
  let s := run lazy (init c0 t0) tr in
  map fst (pending_stamped c0 tr s) = pending s /\
  forall w ti, In (w, ti) (pending_stamped c0 tr s) -> ti - last_commit s <= MAX_AGE.
Proof.
  intros lazy c0 t0 h tr t Htr Hm s.
  destruct (qscript_age (api_expand_all h) (qscript_api_expand_all h) lazy tr (init c0 t0) [] [] c0 t Htr Hm)
    as (G' & X' & [HG Hage] & Hc & Hiss).
  { split; [reflexivity|]. intros w t' []. }
  { cbn. symmetry. apply app_nil_r. }
  fold s in HG, Hage, Hc. cbn [app] in Hiss.
  assert (E : pending_stamped c0 tr s = G').
  { unfold pending_stamped. rewrite Hc, Hiss, app_length, map_length.
    replace (length c0 + length X' - length c0)%nat with (length X') by lia.
    rewrite skipn_app, skipn_all, Nat.sub_diag. reflexivity. }
  rewrite E. split; assumption.
Qed.

(* the writes of the storage call are the writes of the API call *)
Lemma api_writes : forall cached o,
  writes_of (api_expand (ViaBucket cached o)) = writes_of (expand o).
Proof. intros [|] o; reflexivity. Qed.
