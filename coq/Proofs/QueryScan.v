(* Length / progress facts about Model/PyStr.v and the scanners of Model/Query.v: every
   scanner returns a split of its input, a truthy token has at least one character (so each
   loop iteration of the parsers consumes >= 1 character), and the only exception a scanner
   raises on a non-empty string is the parse error of an unclosed string literal. *)
From AwVerif Require Import Base.Prelude Model.PyStr Model.Query.
From Coq Require Import ZifyBool Lia.
Open Scope Z_scope.

(* ---------------------------------------------------------------- PyStr lengths *)

Lemma lstrip_length s : (length (lstrip s) <= length s)%nat.
Proof. induction s as [|c t IH]; cbn [lstrip]; [lia|]. destruct (is_space c); cbn [length] in *; lia. Qed.

Lemma rstrip_length s : (length (rstrip s) <= length s)%nat.
Proof.
  induction s as [|c t IH]; cbn [rstrip]; [lia|].
  destruct (rstrip t) as [|x r]; [destruct (is_space c)|]; cbn [length] in *; lia.
Qed.

Lemma strip_length s : (length (strip s) <= length s)%nat.
Proof. unfold strip. pose proof (rstrip_length (lstrip s)). pose proof (lstrip_length s). lia. Qed.

Lemma drop_length n s : length (drop n s) = (length s - n)%nat.
Proof. apply skipn_length. Qed.

Lemma take_length n s : length (take n s) = Nat.min n (length s).
Proof. apply firstn_length. Qed.

Lemma take_drop n s : take n s ++ drop n s = s.
Proof. apply firstn_skipn. Qed.

Lemma removelast_length_le {A} (l : list A) : (length (removelast l) <= length l - 1)%nat.
Proof.
  induction l as [|a t IH]; cbn [removelast length]; [lia|].
  destruct t; cbn [length] in *; lia.
Qed.

Lemma slice_1_m1_length s : (length (slice_1_m1 s) <= length s - 1)%nat.
Proof.
  unfold slice_1_m1. pose proof (removelast_length_le (tl s)).
  destruct s; cbn [tl length] in *; lia.
Qed.

Lemma slice_length a b s : (length (slice a b s) <= length s - a)%nat.
Proof. unfold slice. rewrite firstn_length, skipn_length. lia. Qed.

Lemma is_empty_true s : is_empty s = true <-> s = [].
Proof. destruct s; cbn; split; congruence. Qed.
Lemma is_empty_false s : is_empty s = false <-> s <> [].
Proof. destruct s; cbn; split; congruence. Qed.

(* ---------------------------------------------------------------- scanners *)

Lemma take_digits_length s : (length (take_digits s) <= length s)%nat.
Proof. induction s as [|c t IH]; cbn [take_digits length]; [lia|]. destruct (is_digit c); cbn [length]; lia. Qed.

Lemma var_scan_length i s : (length (var_scan i s) <= length s)%nat.
Proof.
  revert i; induction s as [|c t IH]; intro i; cbn [var_scan length]; [lia|].
  destruct (is_alpha c || (c =? c_us)); [cbn [length]; specialize (IH (S i)); lia|].
  destruct (negb (Nat.eqb i 0) && is_digit c); cbn [length]; [specialize (IH (S i))|]; lia.
Qed.

Lemma str_scan_length q prev s : (length (str_scan q prev s) <= length s)%nat.
Proof.
  revert prev; induction s as [|c t IH]; intro prev; cbn [str_scan length]; [lia|].
  destruct ((c =? q) && prev_not_bs prev); cbn [length]; [lia|]. specialize (IH (Some c)). lia.
Qed.

Lemma bscan_bound opn cls dg s : forall i tc sq dq prev i' tc',
  bscan opn cls dg s i tc sq dq prev = (i', tc') -> (i <= i' <= i + length s)%nat.
Proof.
  induction s as [|c t IH]; intros i tc sq dq prev i' tc' H; cbn [bscan length] in *.
  - inversion H; lia.
  - destruct (bstep opn cls dg c (S i) tc sq dq prev) as [[tc1 sq1] dq1].
    destruct (tc1 =? 0).
    + inversion H; lia.
    + apply IH in H. lia.
Qed.

(* the position returned is past at least one character whenever the input is non-empty *)
Lemma bscan_progress opn cls dg s : forall i tc sq dq prev i' tc',
  s <> [] -> bscan opn cls dg s i tc sq dq prev = (i', tc') -> (i < i')%nat.
Proof.
  destruct s as [|c t]; [congruence|]. intros i tc sq dq prev i' tc' _ H. cbn [bscan] in H.
  destruct (bstep opn cls dg c (S i) tc sq dq prev) as [[tc1 sq1] dq1].
  destruct (tc1 =? 0).
  - inversion H; lia.
  - apply bscan_bound in H. lia.
Qed.

Lemma bscan_bound_progress opn cls dg s i tc sq dq prev i' tc' :
  bscan opn cls dg s i tc sq dq prev = (i', tc') ->
  (i <= i' <= i + length s)%nat /\ (s <> [] -> (i < i')%nat).
Proof.
  intro H. split; [eapply bscan_bound; eassumption|]. intro N. eapply bscan_progress; eassumption.
Qed.

Lemma fn_head_bound s : forall i i' b,
  fn_head i s = (i', b) -> (i <= i' <= i + length s)%nat /\ (b = true -> (i < i')%nat).
Proof.
  induction s as [|c t IH]; intros i i' b H; cbn [fn_head length] in *.
  - inversion H; subst; split; [lia|congruence].
  - destruct (is_alpha c || (c =? c_us)).
    { apply IH in H. destruct H as [H1 H2]. split; [lia|]. intro E; specialize (H2 E); lia. }
    destruct (negb (Nat.eqb i 0) && is_digit c).
    { apply IH in H. destruct H as [H1 H2]. split; [lia|]. intro E; specialize (H2 E); lia. }
    destruct (c =? c_lpar); inversion H; subst; split; try lia; congruence.
Qed.

Lemma take_nonempty (i : nat) (s : str) : (1 <= i)%nat -> s <> [] -> take i s <> [].
Proof. destruct i; [lia|]. destruct s; [congruence|]. cbn. congruence. Qed.

Lemma truthy_some_nonempty tok : tok <> [] -> truthy (Some tok) = true.
Proof. destruct tok; [congruence|reflexivity]. Qed.

Lemma take_drop_lengths (i : nat) (s : str) :
  (i <= length s)%nat -> (length (take i s) + length (drop i s) = length s)%nat.
Proof. intro H. rewrite take_length, drop_length. lia. Qed.

(* What a check returns on a non-empty string. *)
Definition check_outcome (s : str) (r : res (option str * str)) : Prop :=
  r = Err ParseError \/
  (exists tok, r = Ok (tok, s) /\ truthy tok = false) \/
  (exists tok rest, r = Ok (Some tok, rest) /\ tok <> [] /\
                    (length tok + length rest = length s)%nat).

Lemma check_integer_outcome s : check_outcome s (Ok (check_integer s)).
Proof.
  unfold check_integer. pose proof (take_digits_length s) as L.
  destruct (take_digits s) as [|c r] eqn:E.
  - right; left. exists (Some []). cbn. split; reflexivity.
  - right; right. exists (c :: r), (drop (length (c :: r)) s).
    split; [reflexivity|]. split; [congruence|]. rewrite drop_length. lia.
Qed.

Lemma check_variable_outcome s : check_outcome s (Ok (check_variable s)).
Proof.
  unfold check_variable. pose proof (var_scan_length 0 s) as L.
  destruct (var_scan 0 s) as [|c r] eqn:E.
  - right; left. exists (Some []). cbn. split; reflexivity.
  - right; right. exists (c :: r), (drop (length (c :: r)) s).
    split; [reflexivity|]. split; [congruence|]. rewrite drop_length. lia.
Qed.

Lemma last_char_nonempty s : s <> [] -> exists c, last_char s = Ok c.
Proof.
  induction s as [|a t IH]; [congruence|]. intros _. destruct t as [|b t'].
  - exists a; reflexivity.
  - destruct IH as [c Hc]; [congruence|]. exists c. cbn [last_char] in *. exact Hc.
Qed.

Lemma check_string_outcome s : s <> [] -> check_outcome s (check_string s).
Proof.
  intro Hne. destruct s as [|q t]; [congruence|]. unfold check_string. cbn [first_char bind].
  destruct (negb (q =? c_dq) && negb (q =? c_sq)).
  - right; left. exists (Some []). split; reflexivity.
  - cbn [drop skipn].
    destruct (last_char_nonempty (q :: str_scan q None t)) as [l Hl]; [congruence|].
    rewrite Hl. cbn [bind].
    destruct (negb (l =? q) || Nat.ltb (length (q :: str_scan q None t)) 2); [left; reflexivity|].
    right; right. eexists; eexists. split; [reflexivity|]. split; [congruence|].
    rewrite drop_length. pose proof (str_scan_length q None t). cbn [length] in *. lia.
Qed.

Lemma check_function_outcome s : s <> [] -> check_outcome s (Ok (check_function s)).
Proof.
  intro Hne. unfold check_function.
  destruct (fn_head 0 s) as [i found] eqn:Eh. apply fn_head_bound in Eh. destruct Eh as [Hb Hf].
  destruct found; cbn [negb].
  - destruct (bscan c_lpar c_rpar true (drop i s) i 1 false false None) as [i' tc] eqn:Eb.
    apply bscan_bound in Eb. rewrite drop_length in Eb.
    destruct (negb (tc =? 0)).
    + right; left. exists None. split; reflexivity.
    + right; right. exists (take i' s), (drop i' s). split; [reflexivity|].
      specialize (Hf eq_refl). split; [apply take_nonempty; [lia|assumption]|].
      apply take_drop_lengths. lia.
  - right; left. exists None. split; reflexivity.
Qed.

Lemma check_bracket_outcome opn cls s : s <> [] -> check_outcome s (check_bracket opn cls s).
Proof.
  intro Hne. destruct s as [|c0 t]; [congruence|]. unfold check_bracket. cbn [first_char bind].
  destruct (negb (c0 =? opn)).
  - right; left. exists None. split; reflexivity.
  - cbn [drop skipn].
    destruct (bscan opn cls false t 1 1 false false None) as [i tc] eqn:Eb.
    apply bscan_bound in Eb.
    right; right. exists (take i (c0 :: t)), (drop i (c0 :: t)). split; [reflexivity|].
    split; [apply take_nonempty; [lia|congruence]|]. apply take_drop_lengths. cbn [length]. lia.
Qed.

Lemma check_outcome_all t s : s <> [] -> check_outcome s (check t s).
Proof.
  intro Hne. destruct t; cbn [check].
  - apply check_string_outcome; assumption.
  - apply check_integer_outcome.
  - apply check_function_outcome; assumption.
  - apply check_bracket_outcome; assumption.
  - apply check_bracket_outcome; assumption.
  - apply check_variable_outcome.
Qed.

(* for t in qtypes: ... *)
Lemma try_types_outcome ts s : s <> [] ->
  try_types ts s = Err ParseError \/
  try_types ts s = Ok (None, s) \/
  (exists t tok rest, try_types ts s = Ok (Some (t, tok), rest) /\ In t ts /\ tok <> [] /\
                      check t s = Ok (Some tok, rest) /\
                      (length tok + length rest = length s)%nat).
Proof.
  intro Hne. induction ts as [|t ts IH]; cbn [try_types].
  - right; left; reflexivity.
  - destruct (check_outcome_all t s Hne) as [E|[(tok & E & F)|(tok & rest & E & N & Len)]]; rewrite E; cbn [bind]; cbv beta iota.
    + left; reflexivity.
    + rewrite F. destruct IH as [IH|[IH|(t' & tok' & rest' & IH & Hin & R)]].
      * left; assumption.
      * right; left; assumption.
      * right; right. exists t', tok', rest'. split; [assumption|]. split; [right; assumption|assumption].
    + destruct tok as [|c0 r0]; [congruence|]. cbn [truthy tok_str]. right; right. exists t, (c0 :: r0), rest.
      split; [reflexivity|]. split; [left; reflexivity|]. split; [assumption|]. split; assumption.
Qed.

(* _parse_token: three outcomes *)
Lemma parse_token_cases s :
  (strip s = [] /\ parse_token s = Ok ((None, []), [])) \/
  (strip s <> [] /\ parse_token s = Err ParseError) \/
  (strip s <> [] /\ exists t tok rest,
      parse_token s = Ok ((Some t, tok), rest) /\ tok <> [] /\
      try_types qtypes (strip s) = Ok (Some (t, tok), rest) /\
      (length tok + length rest = length (strip s))%nat).
Proof.
  unfold parse_token. destruct s as [|c t] eqn:Es.
  - left. split; reflexivity.
  - rewrite <- Es. cbn [is_empty]. replace (is_empty s) with false by (subst; reflexivity).
    destruct (strip s) as [|c' t'] eqn:E.
    + left. split; reflexivity.
    + cbn [is_empty]. right.
      destruct (try_types_outcome qtypes (c' :: t')) as [H|[H|(t0 & tok & rest & H & _ & N & _ & Len)]];
        [congruence| | |]; rewrite H; cbn [bind].
      * left. split; [congruence|reflexivity].
      * left. split; [congruence|reflexivity].
      * right. split; [congruence|]. exists t0, tok, rest. repeat split; assumption.
Qed.

(* progress, in the form the parsers' loops use it *)
Lemma parse_token_progress s t tok rest :
  parse_token s = Ok ((Some t, tok), rest) ->
  tok <> [] /\ (length tok + length rest <= length s)%nat.
Proof.
  intro H. destruct (parse_token_cases s) as [[_ E]|[[_ E]|[_ (t' & tok' & rest' & E & N & _ & Len)]]];
    rewrite E in H; try discriminate.
  inversion H; subst. split; [assumption|]. pose proof (strip_length s). lia.
Qed.
