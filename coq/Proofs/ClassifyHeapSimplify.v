(* simplify_string as a WHOLE call: copy.deepcopy (with its memo) composed with the in-place
   loop on the copies.

   The deep copy preserves sharing (Proofs/TransformHeapCopy.v: the memo is a graph morphism,
   injective, and - on acyclic heaps - a function): two listed events that share one data
   dict get copies that share one copied dict, the same Event listed twice is one copy at
   two positions.  So the loop on the copies computes the reference semantics [sequential]
   (Proofs/ClassifyStore.v) of the ORIGINAL list with the ORIGINAL dict identities:
     (a) a copied Event reads back as the original, its data dict being the memo image;
     (b) the separation hypothesis [sepd] carries over to the copies (memo injective);
     (c) [srun] is invariant under a one-to-one renaming of dict identities.
   Consequences: pairwise distinct data dicts - Model/Classify.v's simplify_string (also the
   exception class); shared dicts - the substitution runs once per listed occurrence of the
   dict.  In every case nothing that existed before the call is written. *)
From AwVerif Require Import Base.Prelude Model.MemHeap Model.TransformHeap Model.DictHeap
  Model.ClassifyBase Model.Classify Model.ClassifyHeap
  Proofs.MemHeapBase Proofs.MemHeapCopy Proofs.MemHeapFrame Proofs.TransformHeapCopy
  Proofs.TransformHeapBase Proofs.DictHeapBase Proofs.ClassifyHeapFrame Proofs.ClassifyStore
  Proofs.ClassifyProofs Proofs.ClassifyHeapRefine.
From Coq Require Import Arith.
Local Open Scope nat_scope.
Local Notation lookup := MemHeap.lookup.

(* ------------------------------------------------------------------------- *)
(* (c) the reference semantics does not depend on WHICH locations the dicts have *)

Section Ren.
  Variable f : dict -> res dict.
  Variable R : nat -> nat -> Prop.
  Hypothesis Rinj : forall a b c, R a c -> R b c -> a = b.
  Hypothesis Rfun : forall a b c, R a b -> R a c -> b = c.

  (* same event values, dict identities related *)
  Definition ren (vds vds1 : list vd) : Prop :=
    Forall2 (fun x x1 => fst x = fst x1 /\ R (snd x) (snd x1)) vds vds1.

  Lemma ren_fst : forall vds vds1, ren vds vds1 -> map fst vds = map fst vds1.
  Proof. intros vds vds1 F. induction F as [|x x1 l l1 (E & _) F IH]; cbn [map]; congruence. Qed.

  Lemma ren_snd : forall vds vds1, ren vds vds1 -> Forall2 R (map snd vds) (map snd vds1).
  Proof. intros vds vds1 F. induction F as [|x x1 l l1 (_ & E) F IH]; cbn [map]; constructor; auto. Qed.

  Lemma ren_content : forall dl dl1 vds vds1, R dl dl1 -> ren vds vds1 -> content dl vds = content dl1 vds1.
  Proof.
    intros dl dl1 vds vds1 Rd F. unfold content.
    induction F as [|x x1 l l1 (E & Rx) F IH]; cbn [find]; auto.
    destruct (Nat.eqb_spec (snd x) dl) as [A|A]; destruct (Nat.eqb_spec (snd x1) dl1) as [B|B]; auto.
    - now rewrite E.
    - exfalso. apply B. subst dl. eapply Rfun; eauto.
    - exfalso. apply A. subst dl1. eapply Rinj; eauto.
  Qed.

  Lemma ren_upd : forall dl dl1 d' vds vds1, R dl dl1 -> ren vds vds1 -> ren (upd dl d' vds) (upd dl1 d' vds1).
  Proof.
    intros dl dl1 d' vds vds1 Rd F. unfold upd.
    induction F as [|x x1 l l1 (E & Rx) F IH]; cbn [map]; constructor; auto.
    destruct (Nat.eqb_spec (snd x) dl) as [A|A]; destruct (Nat.eqb_spec (snd x1) dl1) as [B|B]; cbn [fst snd]; auto.
    - now rewrite E.
    - exfalso. apply B. subst dl. eapply Rfun; eauto.
    - exfalso. apply A. subst dl1. eapply Rinj; eauto.
  Qed.

  Lemma srun_ren : forall todo todo1, Forall2 R todo todo1 -> forall vds vds1, ren vds vds1 ->
    snd (srun f todo vds) = snd (srun f todo1 vds1) /\ ren (fst (srun f todo vds)) (fst (srun f todo1 vds1)).
  Proof.
    intros todo todo1 FT. induction FT as [|dl dl1 t t1 Rd FT IH]; intros vds vds1 F; cbn [srun fst snd]; auto.
    rewrite (ren_content dl dl1 vds vds1 Rd F).
    destruct (content dl1 vds1) as [d|]; cbn [fst snd]; auto.
    destruct (f d) as [d'| |]; cbn [fst snd]; auto.
    apply IH. now apply ren_upd.
  Qed.

  Lemma sequential_ren : forall vds vds1, ren vds vds1 ->
    snd (sequential f vds) = snd (sequential f vds1) /\
    map fst (fst (sequential f vds)) = map fst (fst (sequential f vds1)).
  Proof.
    intros vds vds1 F. unfold sequential.
    destruct (srun_ren _ _ (ren_snd _ _ F) _ _ F) as (E & F'). split; auto. now apply ren_fst.
  Qed.

  Lemma ren_nodup : forall vds vds1, ren vds vds1 -> NoDup (map snd vds) -> NoDup (map snd vds1).
  Proof.
    intros vds vds1 F. induction F as [|x x1 l l1 (_ & Rx) F IH]; cbn [map]; intro ND; [constructor|].
    inversion ND as [|? ? NI ND']; subst. constructor; auto.
    intro I. apply NI. apply in_map_iff in I. destruct I as (y1 & E1 & I1).
    destruct (Forall2_in_r _ _ _ _ F I1) as (y & Iy & (_ & Ry)).
    rewrite E1 in Ry. rewrite (Rinj _ _ _ Rx Ry). now apply in_map.
  Qed.
End Ren.

(* ------------------------------------------------------------------------- *)
(* (a) reading a copy *)

Definition zrel (m : memo) (a b : Z * zval) : Prop :=
  fst a = fst b /\ match snd a, snd b with
                   | ZS x, ZS y => x = y
                   | ZK l, ZK l' => In (l, l') m
                   | _, _ => False
                   end.

Lemma zip_related : forall m d kk kk' z, Forall2 (related m) kk kk' -> zip d kk = Some z ->
  exists z', zip d kk' = Some z' /\ Forall2 (zrel m) z z'.
Proof.
  intros m. induction d as [|[k [v|]] d IH]; cbn [zip]; intros kk kk' z F H.
  - destruct kk; [|discriminate]. inversion F; subst. inversion H; subst. exists []. split; auto.
  - destruct (zip d kk) as [r|] eqn:E; [|discriminate]. inversion H; subst.
    destruct (IH _ _ _ F E) as (r' & E' & F'). rewrite E'. exists ((k, ZS v) :: r'). split; auto.
    constructor; auto. split; reflexivity.
  - destruct kk as [|l kk]; [discriminate|]. inversion F as [|? l' ? kk'' Rl F2]; subst.
    destruct (zip d kk) as [r|] eqn:E; [|discriminate]. inversion H; subst.
    destruct (IH _ _ _ F2 E) as (r' & E' & F'). rewrite E'. eexists. split; [reflexivity|].
    constructor; auto. split; [reflexivity|exact Rl].
Qed.

Section Copied.
  Variables (h : heap) (L : loc) (h1 : heap) (m : memo) (L1 : loc).
  Hypothesis CP : copied h L h1 m L1.

  Lemma copied_old : forall l c, lookup h l = Some c -> lookup h1 l = Some c.
  Proof. intros l c. apply ext_lookup_some. exact (cp_ext _ _ _ _ _ CP). Qed.

  (* what a value shows depends on the tag and on whether there are members: both are kept *)
  Lemma copied_value : forall l l' xv, In (l, l') m -> value_of h (ZK l) = Ok xv -> value_of h1 (ZK l') = Ok xv.
  Proof.
    intros l l' xv I V. cbn [value_of] in *.
    destruct (lookup h l) as [c|] eqn:Lh; [|discriminate].
    pose proof (copied_old _ _ Lh) as Lh1.
    destruct (copied_cell _ _ _ _ _ _ _ CP I) as (_ & t & a & a' & La & La' & F).
    rewrite Lh1 in La. inversion La; subst c. rewrite La'.
    destruct t as [i t0 d|q]; [exact V|].
    destruct F; exact V.
  Qed.

  Lemma copied_cdict : forall z z', Forall2 (zrel m) z z' -> forall cd, cdict_of h z = Ok cd -> cdict_of h1 z' = Ok cd.
  Proof.
    intros z z' F. induction F as [|[k v] [k' v'] z z' (Ek & Rv) F IH]; cbn [cdict_of]; intros cd H; auto.
    cbn [fst snd] in Ek, Rv. subst k'.
    destruct (bind_ok _ _ _ H) as (x & V & H1). destruct (bind_ok _ _ _ H1) as (r & Rr & H2).
    rewrite (IH _ Rr). destruct v as [s|l], v' as [s'|l']; try contradiction.
    - subst s'. cbn [value_of] in *. inversion V; subst. exact H2.
    - rewrite (copied_value _ _ _ Rv V). exact H2.
  Qed.

  Lemma copied_cview : forall e e1 v dl, In (e, e1) m -> cview h e = Some (v, dl) ->
    exists dl1, In (dl, dl1) m /\ cview h1 e1 = Some (v, dl1).
  Proof.
    intros e e1 v dl I C. destruct (cview_inv _ _ _ _ C) as (z & Le & RD & CD).
    destruct (copied_cell _ _ _ _ _ _ _ CP I) as (_ & t & a & a' & La & La' & F).
    rewrite (copied_old _ _ Le) in La. inversion La; subst t a. clear La.
    inversion F as [|? dl1 ? ? Rd F0]; subst. inversion F0; subst. clear F F0.
    exists dl1. split; [exact Rd|].
    destruct (rd_dict_inv _ _ _ RD) as (p & kk & Ld & ZP & _).
    destruct (copied_cell _ _ _ _ _ _ _ CP Rd) as (_ & t2 & b & b' & Lb & Lb' & F2).
    rewrite (copied_old _ _ Ld) in Lb. inversion Lb; subst t2 b. clear Lb.
    destruct (zip_related _ _ _ _ _ F2 ZP) as (z' & ZP' & FZ).
    assert (RD' : rd_dict h1 dl1 = Ok z') by (unfold rd_dict; now rewrite Lb', ZP').
    rewrite (cview_intro _ _ _ _ _ _ _ _ La' RD' (copied_cdict _ _ FZ _ CD)). destruct v; reflexivity.
  Qed.

  Lemma copied_views : forall ks ks1, Forall2 (related m) ks ks1 -> forall vds, views h ks vds ->
    exists vds1, views h1 ks1 vds1 /\ ren (related m) vds vds1.
  Proof.
    intros ks ks1 F. induction F as [|e e1 ks ks1 Re F IH]; intros vds V; inversion V as [|? [v dl] ? vds' C V']; subst.
    - exists []. split; constructor.
    - destruct (IH _ V') as (vds1 & V1 & R1). destruct (copied_cview _ _ _ _ Re C) as (dl1 & Rd & C1).
      exists ((v, dl1) :: vds1). split; constructor; auto.
  Qed.

  Lemma ren_in_r : forall vds vds1 dl1, ren (related m) vds vds1 -> In dl1 (map snd vds1) ->
    exists dl, In dl (map snd vds) /\ In (dl, dl1) m.
  Proof.
    intros vds vds1 dl1 F I. apply in_map_iff in I. destruct I as (x1 & E & I1).
    destruct (Forall2_in_r _ _ _ _ F I1) as (x & Ix & (_ & Rx)). exists (snd x). split; [now apply in_map|].
    now rewrite <- E.
  Qed.

  (* (b) *)
  Lemma copied_sepd : forall ks vds vds1, views h ks vds -> ren (related m) vds vds1 ->
    sepd (map snd vds) h -> sepd (map snd vds1) h1.
  Proof.
    intros ks vds vds1 V F S dl1 p kk1 l1 I Lk Il Il1.
    destruct (ren_in_r _ _ _ F I) as (dl & Id & Rd).
    destruct (ren_in_r _ _ _ F Il1) as (dl' & Id' & Rd').
    destruct (views_nodes _ _ _ V dl Id) as (p0 & kk0 & Ld).
    destruct (copied_cell _ _ _ _ _ _ _ CP Rd) as (_ & t & a & a' & La & La' & F2).
    rewrite (copied_old _ _ Ld) in La. inversion La; subst t a. rewrite Lk in La'. inversion La'; subst p0 a'.
    destruct (Forall2_in_r _ _ _ _ F2 Il) as (l & Il0 & Rl).
    pose proof (cp_inj _ _ _ _ _ CP _ _ _ Rl Rd') as E. subst dl'.
    exact (S dl p kk0 l Id Ld Il0 Id').
  Qed.

  Lemma copied_list : forall p ks, lookup h L = Some (Cell (TNode p) ks) ->
    exists ks1, lookup h1 L1 = Some (Cell (TNode p) ks1) /\ Forall2 (related m) ks ks1.
  Proof.
    intros p ks Lk. destruct (copied_cell _ _ _ _ _ _ _ CP (cp_root _ _ _ _ _ CP)) as (_ & t & a & a' & La & La' & F).
    rewrite (copied_old _ _ Lk) in La. inversion La; subst t a. eauto.
  Qed.

  Lemma copied_list_not_dict : forall vds vds1, ren (related m) vds vds1 ->
    ~ In L (map snd vds) -> ~ In L1 (map snd vds1).
  Proof.
    intros vds vds1 F NL I. destruct (ren_in_r _ _ _ F I) as (dl & Id & Rd).
    rewrite (cp_inj _ _ _ _ _ CP _ _ _ Rd (cp_root _ _ _ _ _ CP)) in Id. contradiction.
  Qed.
End Copied.

(* ------------------------------------------------------------------------- *)
(* the loop writes data dicts of the listed Events only *)

Lemma simplify_loop_other : forall sp sf sd key l ks h,
  (forall e i t d dl, In e ks -> lookup h e = Some (Cell (TEv i t d) [dl]) -> dl <> l) ->
  lookup (fst (each_h (simplify_one_h sp sf sd key) h ks)) l = lookup h l.
Proof.
  intros sp sf sd key l. induction ks as [|e ks IH]; intros h H; cbn [each_h fst]; auto.
  destruct (simplify_one_h sp sf sd key h e) as [h'| |] eqn:S1; cbn [fst]; auto.
  unfold simplify_one_h in S1.
  destruct (bind_ok _ _ _ S1) as (dl & RD & S2). destruct (bind_ok _ _ _ S2) as (z & RZ & S3).
  destruct (bind_ok _ _ _ S3) as (z' & SZ & S4). destruct (wr_dict_inv _ _ _ _ S4) as (p & kk & Ld & ->).
  destruct (rd_data_inv _ _ _ RD) as (i & t & d & Le).
  assert (N : dl <> l) by (eapply H; eauto; left; auto).
  rewrite IH.
  - apply lookup_update_other. auto.
  - intros e' i' t' d' dl' I' L'. destruct (Nat.eq_dec e' dl) as [->|Ne].
    + rewrite lookup_update_same in L' by (eapply lookup_lt; eauto). discriminate.
    + rewrite lookup_update_other in L' by auto. eapply H; eauto. right; auto.
Qed.

Lemma cview_framed : forall h h' e x, framed h h' -> cview h e = Some x -> cview h' e = Some x.
Proof.
  intros h h' e [v dl] (_ & A & _) C. destruct (cview_inv _ _ _ _ C) as (z & Le & R & CD).
  destruct (rd_dict_inv _ _ _ R) as (p & kk & Ld & _).
  assert (Le' : lookup h' e = Some (Cell (TEv (c_eid v) (c_ts v) (c_dur v)) [dl])).
  { rewrite A; auto. eapply lookup_lt; eauto. }
  rewrite (cview_intro h' e _ _ _ dl z (c_data v) Le').
  - destruct v; reflexivity.
  - rewrite <- R. apply rd_dict_agree. apply A. eapply lookup_lt; eauto.
  - rewrite <- CD. apply cdict_of_agree. intros l Il. apply A. eapply cdict_of_lt; eauto.
Qed.

Lemma clist_framed : forall h h' L p ks vds, framed h h' -> lookup h L = Some (Cell (TNode p) ks) ->
  views h ks vds -> clist_at h' L = Some (map fst vds).
Proof.
  intros h h' L p ks vds F Lk V. unfold clist_at.
  pose proof F as (G & A & FC). rewrite A by (eapply lookup_lt; eauto). rewrite Lk.
  apply views_clist. eapply Forall2_impl_in; [|exact V]. intros a b _ _ C.
  eapply cview_framed; eauto.
Qed.

(* ------------------------------------------------------------------------- *)
(* the per-dict function against Model/Classify.v's per-event function *)

Lemma fe_simplify_one : forall sp sf sd key v dl,
  fe (simplify_dict sp sf sd key) (v, dl) = bind (simplify_one sp sf sd key v) (fun v' => Ok (v', dl)).
Proof.
  intros sp sf sd key v dl. unfold fe, simplify_dict, simplify_one. cbn [fst snd].
  destruct (sub_key sp key (c_data v)) as [d1| |]; cbn [bind]; auto.
  destruct ((key =? K_title)%Z && dhas K_app d1); cbn [bind]; auto.
  destruct (sub_key sf key d1) as [d2| |]; cbn [bind]; auto.
  destruct (sub_key sd key d2) as [d3| |]; cbn [bind]; auto.
Qed.

Lemma fe_list : forall (f : dict -> res dict) (g : cevent -> res cevent),
  (forall v dl, fe f (v, dl) = bind (g v) (fun v' => Ok (v', dl))) ->
  forall vds,
  match ClassifyBase.map_res g (map fst vds) with
  | Ok out => exists vds', ClassifyBase.map_res (fe f) vds = Ok vds' /\ map fst vds' = out
  | Err c => ClassifyBase.map_res (fe f) vds = Err c
  | OutOfFuel => ClassifyBase.map_res (fe f) vds = OutOfFuel
  end.
Proof.
  intros f g FG. induction vds as [|[v dl] vds IH]; cbn [map ClassifyBase.map_res fst].
  - exists []. auto.
  - rewrite FG. destruct (g v) as [v'| |]; cbn [bind]; auto.
    destruct (ClassifyBase.map_res g (map fst vds)) as [out| |]; cbn [bind].
    + destruct IH as (vds' & M & E). rewrite M. cbn [bind]. exists ((v', dl) :: vds'). split; auto. cbn. now rewrite E.
    + now rewrite IH.
    + now rewrite IH.
Qed.

Lemma srun_no_oof : forall f, (forall d, f d <> OutOfFuel) ->
  forall todo vds, snd (srun f todo vds) <> OutOfFuel.
Proof.
  intros f NF. induction todo as [|dl t IH]; intros vds; cbn [srun]; [discriminate|].
  destruct (content dl vds) as [d|]; [|discriminate].
  destruct (f d) as [d'| |] eqn:F; [apply IH|discriminate|]. exfalso. eapply NF; eauto.
Qed.

Lemma simplify_dict_no_oof : forall sp sf sd key d, simplify_dict sp sf sd key d <> OutOfFuel.
Proof.
  intros sp sf sd key d. unfold simplify_dict.
  assert (G : forall g x, sub_key g key x <> OutOfFuel).
  { intros g x. unfold sub_key. destruct (dget key x) as [[s|?|?]|]; discriminate. }
  destruct (sub_key sp key d) as [d1| |] eqn:E1; cbn [bind]; [|discriminate|exact (fun _ => G _ _ E1)].
  destruct ((key =? K_title)%Z && dhas K_app d1); [|discriminate].
  destruct (sub_key sf key d1) as [d2| |] eqn:E2; cbn [bind]; [apply G|discriminate|exact (fun _ => G _ _ E2)].
Qed.

(* ------------------------------------------------------------------------- *)
(* the whole call *)

Section SimplifyCall.
  Variables (sp sf sd : Z -> Z) (key : Z).
  Let f := simplify_dict sp sf sd key.

  (* EXACTLY what the call does, any aliasing: outcome and returned events are those of the
     reference semantics on the argument's events with THEIR dict identities; the argument
     reads back unchanged; nothing old is written (framed), the result is new *)
  Theorem simplify_h_sequential : forall h L p ks vds,
    wf h -> lookup h L = Some (Cell (TNode p) ks) -> views h ks vds ->
    sepd (map snd vds) h -> ~ In L (map snd vds) ->
    match snd (sequential f vds) with
    | Ok _ => exists h' L', simplify_string_h sp sf sd h L key = Ok (h', L') /\
                clist_at h' L' = Some (map fst (fst (sequential f vds))) /\
                clist_at h' L = Some (map fst vds) /\
                framed h h' /\ length h <= L' < length h'
    | Err c => simplify_string_h sp sf sd h L key = Err c
    | OutOfFuel => simplify_string_h sp sf sd h L key = OutOfFuel
    end.
  Proof.
    intros h L p ks vds W Lk V S NL.
    destruct (deepcopy_memo_total h L W (lookup_lt _ _ _ Lk)) as (h1 & m & L1 & D).
    assert (PD : pdeepcopy h L = Ok (h1, L1)) by (unfold pdeepcopy; now rewrite D).
    pose proof (deepcopy_memo_spec _ _ _ _ _ D) as CP.
    pose proof (deepcopy_memo_fun _ _ _ _ _ W D) as FU.
    destruct (copied_list _ _ _ _ _ CP _ _ Lk) as (ks1 & Lk1 & FR).
    destruct (copied_views _ _ _ _ _ CP _ _ FR _ V) as (vds1 & V1 & RN).
    pose proof (copied_sepd _ _ _ _ _ CP _ _ _ V RN S) as S1.
    pose proof (copied_list_not_dict _ _ _ _ _ CP _ _ RN NL) as NL1.
    destruct (simplify_loop_sequential sp sf sd key h1 ks1 vds1 V1 S1) as (E1 & V1').
    destruct (sequential_ren f (related m) (cp_inj _ _ _ _ _ CP) FU vds vds1 RN) as (ES & EM).
    fold f in E1, V1'. rewrite ES, EM.
    assert (U : simplify_string_h sp sf sd h L key =
                bind (snd (each_h (simplify_one_h sp sf sd key) h1 ks1))
                     (fun _ => Ok (fst (each_h (simplify_one_h sp sf sd key) h1 ks1), L1))).
    { unfold simplify_string_h. rewrite PD. cbn [bind fst snd]. unfold list_elems. rewrite Lk1. reflexivity. }
    rewrite E1 in U.
    destruct (snd (sequential f vds1)) as [[]| |]; cbn [bind] in U; auto.
    set (h' := fst (each_h (simplify_one_h sp sf sd key) h1 ks1)) in *.
    destruct (simplify_h_framed _ _ _ _ _ _ _ _ U) as (FRM & BL).
    exists h', L1. split; auto. split; [|split; [eapply clist_framed; eauto|auto]].
    unfold clist_at, h'. rewrite simplify_loop_other.
    - rewrite Lk1. now apply views_clist.
    - intros e i t d dl Ie Le E. apply NL1.
      destruct (Forall2_in_l _ _ _ _ V1 Ie) as ([v dl0] & Ix & C).
      destruct (cview_inv _ _ _ _ C) as (z & Le' & _). rewrite Le in Le'.
      assert (E0 : dl = dl0) by (inversion Le'; reflexivity).
      rewrite <- E, E0. apply in_map_iff. exists (v, dl0). auto.
  Qed.

  (* pairwise distinct data dicts among the listed events: Model/Classify.v's simplify_string
     on the read-back argument - the same events or the same exception class *)
  Theorem simplify_h_refines : forall h L p ks vds,
    wf h -> lookup h L = Some (Cell (TNode p) ks) -> views h ks vds ->
    sepd (map snd vds) h -> ~ In L (map snd vds) -> NoDup (map snd vds) ->
    match simplify_string sp sf sd (map fst vds) key with
    | Ok out => exists h' L', simplify_string_h sp sf sd h L key = Ok (h', L') /\
                  clist_at h' L' = Some out /\ clist_at h' L = Some (map fst vds) /\
                  framed h h' /\ length h <= L' < length h'
    | Err c => simplify_string_h sp sf sd h L key = Err c
    | OutOfFuel => simplify_string_h sp sf sd h L key = OutOfFuel
    end.
  Proof.
    intros h L p ks vds W Lk V S NL ND.
    pose proof (simplify_h_sequential h L p ks vds W Lk V S NL) as X.
    pose proof (sequential_nodup f vds ND) as Y.
    pose proof (fe_list f (simplify_one sp sf sd key) (fe_simplify_one sp sf sd key) vds) as Z.
    unfold simplify_string.
    destruct (ClassifyBase.map_res (simplify_one sp sf sd key) (map fst vds)) as [out| |].
    - destruct Z as (vds' & M & E). rewrite M in Y. rewrite Y in X. cbn [fst snd] in X. now rewrite E in X.
    - rewrite Z in Y. now rewrite Y in X.
    - rewrite Z in Y. now rewrite Y in X.
  Qed.

  (* shared data dicts: whenever the call returns, every returned event carries the
     substitution applied once per listed occurrence of the ORIGINAL event's dict object *)
  Theorem simplify_h_shared : forall h L p ks vds,
    wf h -> lookup h L = Some (Cell (TNode p) ks) -> views h ks vds ->
    sepd (map snd vds) h -> ~ In L (map snd vds) ->
    (exists h' L' vds', simplify_string_h sp sf sd h L key = Ok (h', L') /\
        clist_at h' L' = Some (map fst vds') /\ Forall2 (result_of f (map snd vds)) vds vds' /\
        clist_at h' L = Some (map fst vds) /\ framed h h' /\ length h <= L' < length h') \/
    (exists c, simplify_string_h sp sf sd h L key = Err c /\ snd (sequential f vds) = Err c).
  Proof.
    intros h L p ks vds W Lk V S NL.
    pose proof (simplify_h_sequential h L p ks vds W Lk V S NL) as X.
    destruct (sequential f vds) as [vds' [[]| |]] eqn:SQ; cbn [fst snd] in X.
    - left. destruct X as (h' & L' & H & C1 & C2 & FR & B). exists h', L', vds'. split; auto. split; auto. split; [|auto].
      eapply srun_closed; [eapply views_consistent; eauto|apply incl_refl|exact SQ].
    - right. exists c. auto.
    - exfalso. apply (srun_no_oof f (simplify_dict_no_oof sp sf sd key) (map snd vds) vds).
      unfold sequential in SQ. now rewrite SQ.
  Qed.
End SimplifyCall.
