(* C01, first sentence (ids and read-back): vocabulary and list facts shared by the three
   back ends (Proofs/ReadBackMem.v, ReadBackSqlite.v, ReadBackPeewee.v).

   The store models (Model/*Store.v, owned by the C02 agent) carry exact integer
   microseconds (identity time codec) and data labels; the float / text codecs are
   treated in Proofs/Codec.v and tied to the rows of these models in ReadBackCodec.v. *)
From Coq Require Import Permutation ZifyBool.
From AwVerif Require Import Base.Prelude Model.StoreBase Model.StoreSpec
  Proofs.StoreBaseFacts Proofs.StoreMemProofs.

(* what C01 says must come back: instant, duration, data (the id is new) *)
Definition same_payload (e e' : event) : Prop :=
  ts e' = ts e /\ dur e' = dur e /\ data e' = data e.

Lemma same_payload_set_eid : forall e i, same_payload e (set_eid e i).
Proof. intros. repeat split. Qed.

(* the events a bulk insert adds: the k-th new event under the k-th new id, in order *)
Definition stamp (news : list event) (ids : list Z) : list event :=
  map (fun p => set_eid (fst p) (Some (snd p))) (combine news ids).

Lemma stamp_cons : forall e t i ids,
  stamp (e :: t) (i :: ids) = set_eid e (Some i) :: stamp t ids.
Proof. reflexivity. Qed.

Lemma stamp_length : forall news ids, length ids = length news -> length (stamp news ids) = length news.
Proof. intros. unfold stamp. rewrite map_length, combine_length. lia. Qed.

Lemma live_ids_stamp : forall news ids, length ids = length news -> live_ids (stamp news ids) = ids.
Proof.
  induction news as [|e t IH]; intros [|i ids] H; try discriminate; [reflexivity|].
  rewrite stamp_cons, live_ids_cons. cbn [eid set_eid]. f_equal. apply IH. cbn in H. lia.
Qed.

(* the k-th added event carries the k-th inserted event's instant, duration and data *)
Lemma stamp_payload : forall news ids, length ids = length news ->
  Forall2 same_payload news (stamp news ids).
Proof.
  induction news as [|e t IH]; intros [|i ids] H; try discriminate; [constructor|].
  rewrite stamp_cons. constructor; [apply same_payload_set_eid|]. apply IH. cbn in H. lia.
Qed.

Lemma stamp_ids : forall news ids, length ids = length news ->
  map eid (stamp news ids) = map Some ids.
Proof.
  induction news as [|e t IH]; intros [|i ids] H; try discriminate; [reflexivity|].
  rewrite stamp_cons. cbn. f_equal. apply IH. cbn in H. lia.
Qed.

(* ---------- ids ---------- *)
Lemma ids_unique_NoDup_eid : forall es, ids_unique es -> NoDup (map eid es).
Proof.
  induction es as [|x t IH]; intros [N S]; cbn; [constructor|].
  rewrite live_ids_cons in N.
  destruct (eid x) as [j|] eqn:E; [|exfalso; apply (S x); [now left|assumption]].
  inversion N as [|? ? NI ND]; subst. constructor.
  - intro I. apply NI. apply in_map_iff in I as [y [Ey Iy]]. apply In_live_ids. eauto.
  - apply IH. split; [assumption|]. intros e He. apply S. now right.
Qed.

Lemma ids_unique_same_id : forall es x y,
  ids_unique es -> In x es -> In y es -> eid x = eid y -> x = y.
Proof. intros es x y U. apply NoDup_map_inj. now apply ids_unique_NoDup_eid. Qed.

Lemma NoDup_app_split : forall {A} (a b : list A),
  NoDup (a ++ b) -> NoDup a /\ NoDup b /\ forall x, In x b -> ~ In x a.
Proof.
  induction a as [|h t IH]; intros b N; cbn in *.
  - split; [constructor|]. split; [assumption|]. intros x _ [].
  - inversion N as [|? ? NI ND]; subst. destruct (IH b ND) as [Na [Nb D]].
    split; [|split; [assumption|]].
    + constructor; [|assumption]. intro I. apply NI. apply in_app_iff. now left.
    + intros x Ix [<-|I]; [apply NI; apply in_app_iff; now right|exact (D x Ix I)].
Qed.

(* uniqueness of the ids after a bulk insert = the new ids are pairwise distinct and none
   of them named an event of the bucket before *)
Lemma stamp_ids_fresh : forall es news ids,
  length ids = length news -> ids_unique (es ++ stamp news ids) ->
  NoDup ids /\ forall i, In i ids -> ~ is_live i es.
Proof.
  intros es news ids L [N _]. rewrite live_ids_app, (live_ids_stamp news ids L) in N.
  destruct (NoDup_app_split _ _ N) as [_ [Nb D]]. split; [assumption|]. intros i Ii. exact (D i Ii).
Qed.

Lemma not_live_no_event : forall i es, ~ is_live i es -> forall x, In x es -> eid x <> Some i.
Proof. intros i es L x Ix E. apply L. apply In_live_ids. eauto. Qed.

(* ---------- chunking (peewee: `for chunk in chunks(events_dictlist, 100)`) ---------- *)
Lemma chunks_aux_concat : forall {A} (n : nat) (l : list A) (k : nat) (cur : list A),
  concat (chunks_aux n k cur l) = rev cur ++ l.
Proof.
  induction l as [|x t IH]; intros k cur; cbn [chunks_aux].
  - destruct cur as [|c cs]; cbn [concat]; rewrite ?app_nil_r; reflexivity.
  - destruct k as [|[|k']].
    + cbn [concat]. rewrite IH. cbn [rev app]. now rewrite <- app_assoc.
    + cbn [concat]. rewrite IH. cbn [rev app]. now rewrite <- app_assoc.
    + rewrite IH. cbn [rev]. now rewrite <- app_assoc.
Qed.

(* the chunking neither loses nor duplicates nor reorders an element *)
Theorem chunks_concat : forall {A} (n : nat) (l : list A), concat (chunks n l) = l.
Proof. intros. unfold chunks. now rewrite chunks_aux_concat. Qed.

(* every chunk is non-empty and (for n >= 1) holds at most n elements *)
Lemma chunks_aux_sizes : forall {A} (n : nat) (l : list A) (k : nat) (cur : list A) ch,
  (1 <= n)%nat -> (length cur + k = n)%nat -> (1 <= k)%nat ->
  In ch (chunks_aux n k cur l) -> (1 <= length ch <= n)%nat.
Proof.
  induction l as [|x t IH]; intros k cur ch Hn Hk Hk1 I; cbn [chunks_aux] in I.
  - destruct cur as [|c cs]; [destruct I|]. destruct I as [<-|[]]. rewrite rev_length. cbn in *. lia.
  - destruct k as [|[|k']]; [lia| |].
    + destruct I as [<-|I].
      * rewrite rev_length. cbn [length]. lia.
      * apply (IH n [] ch Hn); [cbn; lia|lia|assumption].
    + apply (IH (S k') (x :: cur) ch Hn); [cbn [length]; lia|lia|assumption].
Qed.

Theorem chunks_sizes : forall {A} (n : nat) (l : list A) ch,
  (1 <= n)%nat -> In ch (chunks n l) -> (1 <= length ch <= n)%nat.
Proof. intros A n l ch Hn I. apply (chunks_aux_sizes n l n [] ch Hn); [cbn; lia|lia|exact I]. Qed.

Lemma fold_left_concat : forall {S A} (f : S -> A -> S) (ls : list (list A)) (s : S),
  fold_left (fun s l => fold_left f l s) ls s = fold_left f (concat ls) s.
Proof.
  induction ls as [|l t IH]; intros s; cbn; [reflexivity|]. now rewrite fold_left_app, IH.
Qed.

(* ---------- filters that keep everything ---------- *)
Lemma filter_true : forall {A} (l : list A), filter (fun _ => true) l = l.
Proof. intros. now apply filter_all. Qed.

Lemma find_unique : forall {A} (p : A -> bool) l x,
  In x l -> p x = true -> (forall y, In y l -> p y = true -> y = x) -> find p l = Some x.
Proof.
  intros A p l x I P U. destruct (find p l) as [y|] eqn:F.
  - apply find_some in F as [F1 F2]. f_equal. now apply U.
  - pose proof (find_none _ _ F x I). congruence.
Qed.
