(* C05 — the memory back end provides the lifecycle lemmas (store_ok). *)
From AwVerif Require Import Base.Prelude Model.StoreBase Model.MemStore Model.Datastore
  Proofs.LifecycleBase.
From Coq Require Import ZifyBool.

Definition mem_inv (c : mstate) : Prop := NoDup (map fst c).

Definition memB : backend := mkBackend mstate mem_init mem_step mem_view (fun c => c) mem_inv.

(* what happens to a state under an event operation: the keys and metadata stay *)
Definition mem_same (c c' : mstate) : Prop := listing_of c' = listing_of c.

Lemma mem_same_refl : forall c, mem_same c c.
Proof. reflexivity. Qed.

Lemma mem_same_trans : forall a b c, mem_same a b -> mem_same b c -> mem_same a c.
Proof. unfold mem_same. intros. congruence. Qed.

Lemma mem_same_inv : forall c c', mem_same c c' -> mem_inv c -> mem_inv c'.
Proof.
  unfold mem_same, mem_inv. intros c c' H Hi.
  rewrite <- (keys_listing c'), H, keys_listing. assumption.
Qed.

Lemma mem_set_events_same : forall c b m es es',
  aget b c = Some (m, es) -> mem_same c (mem_set_events c b m es').
Proof. intros. unfold mem_same, mem_set_events. eapply listing_aset_same_meta. eassumption. Qed.

Lemma mem_replace_same : forall c b oi e, mem_same c (fst (mem_replace c b oi e)).
Proof.
  intros. unfold mem_replace. destruct (aget b c) as [[m es]|] eqn:E; cbn.
  - eapply mem_set_events_same. eassumption.
  - apply mem_same_refl.
Qed.

Lemma mem_insert_one_same : forall c b e, mem_same c (fst (mem_insert_one c b e)).
Proof.
  intros. unfold mem_insert_one. destruct (eid e) as [i|].
  - pose proof (mem_replace_same c b (Some i) e) as H.
    destruct (mem_replace c b (Some i) e) as [c' [o|k|]]; exact H.
  - destruct (aget b c) as [[m es]|] eqn:E; cbn.
    + eapply mem_set_events_same. eassumption.
    + apply mem_same_refl.
Qed.

Lemma mem_insert_many_same : forall es c b, mem_same c (fst (mem_insert_many c b es)).
Proof.
  induction es as [|e t IH]; intros c b; cbn; [apply mem_same_refl|].
  pose proof (mem_insert_one_same c b e) as H.
  destruct (mem_insert_one c b e) as [c' [o|k|]]; cbn in *; try exact H.
  eapply mem_same_trans; [exact H|apply IH].
Qed.

Lemma mem_event_op_same : forall c o, lifecycle_write o = false -> mem_same c (fst (mem_step c o)).
Proof.
  intros c o Ho. destruct o; cbn in Ho; try discriminate; cbn [mem_step].
  - apply mem_same_refl.
  - destruct (aget b c) as [[m es]|]; apply mem_same_refl.
  - apply mem_insert_one_same.
  - apply mem_insert_many_same.
  - apply mem_replace_same.
  - destruct (aget b c) as [[m es]|] eqn:E; [|apply mem_same_refl].
    destruct (last_opt (sort_by ts es)); [apply mem_replace_same|apply mem_same_refl].
  - destruct (aget b c) as [[m es]|] eqn:E; [|apply mem_same_refl].
    destruct (remove_last (id_matches (Some id)) es); cbn; [|apply mem_same_refl].
    eapply mem_set_events_same. eassumption.
  - destruct (aget b c) as [[m es]|]; apply mem_same_refl.
  - destruct (aget b c) as [[m es]|]; apply mem_same_refl.
  - destruct (aget b c) as [[m es]|]; apply mem_same_refl.
Qed.

Lemma mem_create_stored_as : forall b m, stored_as m (mem_create_meta b m).
Proof.
  intros b m. unfold stored_as, mem_create_meta. cbn. repeat split.
  intros n Hn Hne. rewrite Hn. cbn. unfold truthy. destruct (n =? 0) eqn:E; [lia|reflexivity].
Qed.

Lemma mem_ok : store_ok memB.
Proof.
  constructor; cbn.
  - constructor.
  - reflexivity.
  - reflexivity.
  - auto.
  - reflexivity.
  - (* invariant *)
    intros c o Hi. destruct (lifecycle_write o) eqn:Ho.
    + destruct o; cbn in Ho; try discriminate; cbn.
      * apply NoDup_keys_aset. assumption.
      * destruct (aget b c) as [[m es]|]; cbn; [apply NoDup_keys_aset|]; assumption.
      * destruct (aget b c); cbn; [apply NoDup_keys_adel|]; assumption.
    + eapply mem_same_inv; [apply mem_event_op_same|]; assumption.
  - intros c o _ Ho. apply mem_event_op_same. assumption.
  - (* keys stay *)
    intros c o b0 _ Ho Hb0. destruct (lifecycle_write o) eqn:Hw.
    + destruct o as [b m|b ty cl ho na da|b| | | | | | | | | | ]; cbn in Hw; try discriminate; cbn.
      * apply aget_aset_stays. assumption.
      * destruct (aget b c) as [[m es]|]; cbn; [apply aget_aset_stays|]; assumption.
      * destruct Ho.
    + eapply listing_same_stays; [apply mem_event_op_same; assumption|assumption].
  - (* create *)
    intros c b m _ Habs. exists (aset b (mem_create_meta b m, []) c), ONone, (mem_create_meta b m).
    split; [reflexivity|]. split; [apply mem_create_stored_as|]. apply aset_absent. assumption.
  - (* update *)
    intros c b ty cl ho na da m es _ Hget Hty Hcl Hho Hna Hda. rewrite Hget.
    eexists _, _. split; [reflexivity|]. split; [left; eexists; reflexivity|].
    rewrite update_meta_truthy by assumption. reflexivity.
  - (* delete *)
    intros c b v _ Hget. rewrite Hget. eexists _, _. split; reflexivity.
  - intros c b m es _ Hget. rewrite Hget. reflexivity.
  - intros c b _ Hget. rewrite Hget. reflexivity.
  - intros c b ty cl ho na da _ Hget. rewrite Hget. reflexivity.
  - intros c b _ Hget. rewrite Hget. reflexivity.
Qed.
