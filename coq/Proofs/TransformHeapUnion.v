(* union_no_overlap at heap level (Model/TransformHeap.v: union_no_overlap_h).
   A. frame and freshness for every heap and every pair of arguments (the same list object
      twice, shared events, shared data: anything): [uno_h_framed].
   B. refinement, again for every aliasing: on a closed acyclic heap whose two argument
      lists hold Events, the heap-level function succeeds or raises exactly as
      Model/UnionNoOverlap.v's [union_no_overlap] on the read-back arguments, and the
      returned list reads back as its result: [uno_h_refines].  No distinctness is needed:
      after the two deep copies the code writes only into objects it has just copied. *)
From AwVerif Require Import Base.Prelude Model.MemHeap Model.TransformHeap Model.UnionNoOverlap
  Proofs.MemHeapBase Proofs.MemHeapCopy Proofs.MemHeapFrame
  Proofs.TransformHeapCopy Proofs.TransformHeapBase Proofs.TransformHeapFlood.
From Coq Require Import Arith Relations.
Local Open Scope nat_scope.

Definition fresh_in (h0 h : heap) (l : loc) : Prop := length h0 <= l < length h.

Lemma fresh_in_grow : forall h0 h h' l, fresh_in h0 h l -> length h <= length h' -> fresh_in h0 h' l.
Proof. unfold fresh_in. intros. lia. Qed.

Lemma framed_length : forall h0 h, framed h0 h -> length h0 <= length h.
Proof. intros h0 h F. apply F. Qed.

(* ------------------------------------------------------------------------- *)
(* A. frame *)

Lemma split_event_framed : forall h0 h e dt h' a ob,
  framed h0 h -> fresh_in h0 h e -> split_event_h h e dt = Ok (h', (a, ob)) ->
  framed h0 h' /\ length h <= length h' /\ fresh_in h0 h' a /\
  (forall b, ob = Some b -> fresh_in h0 h' b).
Proof.
  unfold split_event_h. intros h0 h e dt h' a ob F Fe H.
  destruct (rd_ts h e) as [t| |] eqn:Rt; cbn [bind] in H; try discriminate.
  destruct (rd_dur h e) as [d| |] eqn:Rd; cbn [bind] in H; try discriminate.
  destruct ((t <? dt)%Z && (dt <? t + d)%Z).
  - destruct (pdeepcopy h e) as [[h1 e1]| |] eqn:E1; cbn [bind fst snd] in H; try discriminate.
    destruct (pdeepcopy h1 e) as [[h2 e2]| |] eqn:E2; cbn [bind fst snd] in H; try discriminate.
    destruct (rd_ts h2 e) as [t'| |]; cbn [bind] in H; try discriminate.
    destruct (wr_dur h2 e1 (dt - t')) as [h3| |] eqn:W3; cbn [bind] in H; try discriminate.
    destruct (wr_ts h3 e2 dt) as [h4| |] eqn:W4; cbn [bind] in H; try discriminate.
    destruct (rd_ts h4 e) as [t''| |]; cbn [bind] in H; try discriminate.
    destruct (rd_dur h4 e) as [d''| |]; cbn [bind] in H; try discriminate.
    destruct (wr_dur h4 e2 (t'' + d'' - dt)) as [h5| |] eqn:W5; cbn [bind] in H; try discriminate.
    inversion H; subst h' a ob; clear H.
    destruct (pdeepcopy_inv _ _ _ _ E1) as (m1 & C1). destruct (pdeepcopy_inv _ _ _ _ E2) as (m2 & C2).
    pose proof (copied_fresh _ _ _ _ _ C1) as B1. pose proof (copied_fresh _ _ _ _ _ C2) as B2.
    pose proof (framed_length _ _ F) as G.
    assert (F2 : framed h0 h2) by (eapply framed_copied; [eapply framed_copied; eauto|eauto]).
    assert (R : retags (fun l => l = e1 \/ l = e2) h2 h5) by solve_retags.
    pose proof (retags_length _ _ _ R) as LEN.
    split; [eapply retags_framed; [exact R| |exact F2]; intros l [-> | ->]; lia|].
    split; [lia|]. split; [unfold fresh_in; lia|].
    intros b Eb. inversion Eb; subst. unfold fresh_in; lia.
  - inversion H; subst. split; auto. split; [lia|]. split; auto. intros b Eb. discriminate.
Qed.

Definition all_fresh (h0 h : heap) (ks : list loc) : Prop := forall k, In k ks -> fresh_in h0 h k.

Lemma all_fresh_grow : forall h0 h h' ks, all_fresh h0 h ks -> length h <= length h' -> all_fresh h0 h' ks.
Proof. intros h0 h h' ks A G k I. eapply fresh_in_grow; eauto. Qed.

Lemma all_fresh_cons : forall h0 h k ks, fresh_in h0 h k -> all_fresh h0 h ks -> all_fresh h0 h (k :: ks).
Proof. intros h0 h k ks Fk A x [<-|I]; auto. Qed.

Lemma all_fresh_app : forall h0 h a b, all_fresh h0 h a -> all_fresh h0 h b -> all_fresh h0 h (a ++ b).
Proof. intros h0 h a b A B x I. apply in_app_or in I. destruct I; auto. Qed.

Lemma all_fresh_nil : forall h0 h, all_fresh h0 h [].
Proof. intros h0 h k []. Qed.

Lemma uno_step_framed : forall h0 h e1 r1 e2 r2 h' emit l1 l2,
  framed h0 h -> all_fresh h0 h (e1 :: r1) -> all_fresh h0 h (e2 :: r2) ->
  uno_step_h h e1 r1 e2 r2 = Ok (h', (emit, (l1, l2))) ->
  framed h0 h' /\ length h <= length h' /\
  all_fresh h0 h' emit /\ all_fresh h0 h' l1 /\ all_fresh h0 h' l2.
Proof.
  unfold uno_step_h. intros h0 h e1 r1 e2 r2 h' emit l1 l2 F A1 A2 H.
  assert (Fe1 : fresh_in h0 h e1) by (apply A1; left; auto).
  assert (Fe2 : fresh_in h0 h e2) by (apply A2; left; auto).
  assert (Ar1 : all_fresh h0 h r1) by (intros k I; apply A1; right; auto).
  assert (Ar2 : all_fresh h0 h r2) by (intros k I; apply A2; right; auto).
  destruct (rd_ts h e1) as [t1| |]; cbn [bind] in H; try discriminate.
  destruct (rd_dur h e1) as [d1| |]; cbn [bind] in H; try discriminate.
  destruct (rd_ts h e2) as [t2| |]; cbn [bind] in H; try discriminate.
  destruct (rd_dur h e2) as [d2| |]; cbn [bind] in H; try discriminate.
  cbv zeta in H.
  destruct (t2 + d2 <=? t1)%Z.
  { inversion H; subst. split; auto. split; [lia|]. split; [apply all_fresh_cons; auto; apply all_fresh_nil|].
    split; auto. }
  destruct (t1 + d1 <=? t2)%Z.
  { inversion H; subst. split; auto. split; [lia|]. split; [apply all_fresh_cons; auto; apply all_fresh_nil|].
    split; auto. }
  (* the first (optional) split *)
  match type of H with bind ?r _ = _ => destruct r as [[h1 [em oe2]]| |] eqn:E3 end;
    cbn [bind fst snd] in H; try discriminate.
  assert (S1 : framed h0 h1 /\ length h <= length h1 /\ all_fresh h0 h1 em /\
               (forall b, oe2 = Some b -> fresh_in h0 h1 b)).
  { destruct (t2 <? t1)%Z.
    - destruct (split_event_h h e2 t1) as [[hx [b ob]]| |] eqn:E4; cbn [bind fst snd] in E3; try discriminate.
      inversion E3; subst h1 em oe2; clear E3.
      destruct (split_event_framed _ _ _ _ _ _ _ F Fe2 E4) as (Fx & Gx & Fb & Fob).
      split; auto. split; auto. split; auto. apply all_fresh_cons; auto. apply all_fresh_nil.
    - inversion E3; subst. split; auto. split; [lia|]. split; [apply all_fresh_nil|].
      intros b Eb. inversion Eb; subst. auto. }
  destruct S1 as (F1 & G1 & Aem & Foe).
  destruct (t2 + d2 >? t1 + d1)%Z.
  - destruct oe2 as [e2'|]; [|discriminate].
    destruct (split_event_h h1 e2' (t1 + d1)) as [[h2 [x oa]]| |] eqn:E4; cbn [bind fst snd] in H; try discriminate.
    inversion H; subst h' emit l1 l2; clear H.
    destruct (split_event_framed _ _ _ _ _ _ _ F1 (Foe _ eq_refl) E4) as (F2 & G2 & _ & Foa).
    split; auto. split; [lia|].
    split; [apply all_fresh_app; [eapply all_fresh_grow; eauto|]|].
    { apply all_fresh_cons; [|apply all_fresh_nil]. eapply fresh_in_grow; eauto. lia. }
    split; [eapply all_fresh_grow; eauto; lia|].
    apply all_fresh_cons; [|eapply all_fresh_grow; eauto; lia].
    destruct oa as [a'|]; [apply Foa; auto|]. eapply fresh_in_grow; [apply Foe; auto|lia].
  - inversion H; subst h' emit l1 l2; clear H. split; auto. split; auto. split; auto.
    split; eapply all_fresh_grow; eauto.
Qed.

Lemma uno_loop_framed : forall h0 fuel h l1 l2 out h' res,
  framed h0 h -> all_fresh h0 h l1 -> all_fresh h0 h l2 -> all_fresh h0 h out ->
  uno_loop_h fuel h l1 l2 out = Ok (h', res) ->
  framed h0 h' /\ all_fresh h0 h' res.
Proof.
  intros h0. induction fuel as [|fuel IH]; intros h l1 l2 out h' res F A1 A2 Ao H.
  - destruct l1 as [|e1 r1]; [|destruct l2 as [|e2 r2]]; cbn [uno_loop_h] in H; try discriminate.
    + assert (h' = h) by congruence. assert (res = out ++ [] ++ l2) by congruence. subst.
      split; auto; repeat apply all_fresh_app; auto.
    + assert (h' = h) by congruence. assert (res = out ++ (e1 :: r1) ++ []) by congruence. subst.
      split; auto; repeat apply all_fresh_app; auto.
  - destruct l1 as [|e1 r1]; [|destruct l2 as [|e2 r2]]; cbn [uno_loop_h] in H.
    + assert (h' = h) by congruence. assert (res = out ++ [] ++ l2) by congruence. subst.
      split; auto; repeat apply all_fresh_app; auto.
    + assert (h' = h) by congruence. assert (res = out ++ (e1 :: r1) ++ []) by congruence. subst.
      split; auto; repeat apply all_fresh_app; auto.
    + destruct (uno_step_h h e1 r1 e2 r2) as [[h1 [em [n1 n2]]]| |] eqn:S; cbn [bind fst snd] in H; try discriminate.
      destruct (uno_step_framed _ _ _ _ _ _ _ _ _ _ F A1 A2 S) as (F1 & G1 & Aem & An1 & An2).
      eapply IH; [exact F1| | | |exact H]; auto.
      apply all_fresh_app; auto. eapply all_fresh_grow; eauto.
Qed.

Theorem uno_h_framed : forall h L1 L2 h' L',
  union_no_overlap_h h L1 L2 = Ok (h', L') ->
  framed h h' /\ length h <= L' < length h' /\
  exists out, lookup h' L' = Some (Cell (TNode EVENT_LIST) out) /\
              forall k, In k out -> length h <= k < length h'.
Proof.
  unfold union_no_overlap_h. intros h L1 L2 h' L' H.
  destruct (pdeepcopy h L1) as [[h1 L1']| |] eqn:P1; cbn [bind fst snd] in H; try discriminate.
  destruct (pdeepcopy h1 L2) as [[h2 L2']| |] eqn:P2; cbn [bind fst snd] in H; try discriminate.
  destruct (list_elems h2 L1') as [ks1| |] eqn:LE1; cbn [bind] in H; try discriminate.
  destruct (list_elems h2 L2') as [ks2| |] eqn:LE2; cbn [bind] in H; try discriminate.
  destruct (uno_loop_h _ h2 ks1 ks2 []) as [[h3 out]| |] eqn:LP; cbn [bind fst snd] in H; try discriminate.
  destruct (pdeepcopy_inv _ _ _ _ P1) as (m1 & C1). destruct (pdeepcopy_inv _ _ _ _ P2) as (m2 & C2).
  pose proof (ext_length _ _ (cp_ext _ _ _ _ _ C1)) as G1.
  pose proof (ext_length _ _ (cp_ext _ _ _ _ _ C2)) as G2.
  assert (LE1' : list_elems h1 L1' = Ok ks1).
  { unfold list_elems in *. rewrite <- (ext_lookup _ _ _ (cp_ext _ _ _ _ _ C2)); auto.
    apply (copied_fresh _ _ _ _ _ C1). }
  destruct (copied_list _ _ _ _ _ _ C1 LE1') as (_ & _ & _ & _ & FR1).
  destruct (copied_list _ _ _ _ _ _ C2 LE2) as (_ & _ & _ & _ & FR2).
  assert (F2 : framed h h2) by (eapply framed_copied; [eapply framed_copied; [apply framed_refl|eauto]|eauto]).
  destruct (uno_loop_framed h (length ks1 + length ks2) h2 ks1 ks2 [] h3 out F2) as (F3 & Ao); [| | |exact LP|].
  { intros k I. specialize (FR1 _ I). unfold fresh_in. lia. }
  { intros k I. specialize (FR2 _ I). unfold fresh_in. lia. }
  { apply all_fresh_nil. }
  destruct (new_list_framed h h3 out F3 Ao) as (F4 & B4 & L4).
  inversion H; subst h' L'. split; auto. split; auto. exists out. split; auto.
  intros k I. specialize (Ao _ I). unfold new_list, alloc, fresh_in in *; cbn [fst]. rewrite app_length; cbn. lia.
Qed.

(* ------------------------------------------------------------------------- *)
(* B. refinement *)

(* every event readable in h reads the same in h' *)
Definition keeps (h h' : heap) : Prop := forall l v, ev_at h l = Some v -> ev_at h' l = Some v.

Lemma keeps_refl : forall h, keeps h h.
Proof. intros h l v H. exact H. Qed.

Lemma keeps_trans : forall a b c, keeps a b -> keeps b c -> keeps a c.
Proof. intros a b c K1 K2 l v H. auto. Qed.

Lemma keeps_ext : forall h h', ext h h' -> keeps h h'.
Proof. intros h h' E l v H. eapply ev_at_ext; eauto. Qed.

Lemma keeps_reads : forall h h' ks vs, keeps h h' -> Forall2 (reads h) ks vs -> Forall2 (reads h') ks vs.
Proof. intros h h' ks vs K F. induction F; constructor; auto. apply K. exact H. Qed.

Definition opt_reads (h : heap) (ol : option loc) (ov : option event) : Prop :=
  match ol, ov with
  | Some l, Some v => ev_at h l = Some v
  | None, None => True
  | _, _ => False
  end.

Local Open Scope Z_scope.

Lemma split_event_refines : forall h e dt v,
  wf h -> ev_at h e = Some v ->
  exists h' a ob, split_event_h h e dt = Ok (h', (a, ob)) /\
    ev_at h' a = Some (fst (split_event v dt)) /\ opt_reads h' ob (snd (split_event v dt)) /\
    keeps h h' /\ wf h'.
Proof.
  intros h e dt v W H. unfold split_event_h, split_event.
  rewrite (rd_ts_ok _ _ _ H), (rd_dur_ok _ _ _ H). cbn [bind].
  destruct ((ts v <? dt) && (dt <? ts v + dur v)).
  2:{ exists h, e, None. cbn [fst snd opt_reads]. split; [reflexivity|]. split; [exact H|]. split; [exact I|].
      split; [apply keeps_refl|exact W]. }
  pose proof (ev_at_lt _ _ _ H) as B.
  destruct (pdeepcopy_total h e W B) as (h1 & e1 & P1). rewrite P1. cbn [bind fst snd].
  destruct (pdeepcopy_inv _ _ _ _ P1) as (m1 & C1).
  destruct (pdeepcopy_ev _ _ _ _ _ P1 H) as (H1e1 & G1 & E1).
  pose proof (ev_at_ext _ _ _ _ E1 H) as H1e.
  pose proof (cp_wf _ _ _ _ _ C1 W) as W1. pose proof (ext_length _ _ E1) as LE1.
  assert (B1 : (e < length h1)%nat) by lia.
  destruct (pdeepcopy_total h1 e W1 B1) as (h2 & e2 & P2). rewrite P2. cbn [bind fst snd].
  destruct (pdeepcopy_inv _ _ _ _ P2) as (m2 & C2).
  destruct (pdeepcopy_ev _ _ _ _ _ P2 H1e) as (H2e2 & G2 & E2).
  pose proof (ev_at_ext _ _ _ _ E2 H1e) as H2e. pose proof (ev_at_ext _ _ _ _ E2 H1e1) as H2e1.
  pose proof (cp_wf _ _ _ _ _ C2 W1) as W2.
  pose proof (copied_fresh _ _ _ _ _ C1) as F1. pose proof (copied_fresh _ _ _ _ _ C2) as F2.
  rewrite (rd_ts_ok _ _ _ H2e). cbn [bind].
  (* e1.duration = dt - e.timestamp *)
  destruct (wr_dur_valid h2 e1 v (dt - ts v) H2e1) as (h3 & W3 & H3e1 & O3). rewrite W3. cbn [bind].
  assert (H3e2 : ev_at h3 e2 = Some v) by (rewrite O3 by lia; exact H2e2).
  (* e2.timestamp = dt *)
  destruct (wr_ts_valid h3 e2 v dt H3e2) as (h4 & W4 & H4e2 & O4). rewrite W4. cbn [bind].
  assert (H4e : ev_at h4 e = Some v) by (rewrite O4, O3 by lia; exact H2e).
  rewrite (rd_ts_ok _ _ _ H4e), (rd_dur_ok _ _ _ H4e). cbn [bind].
  destruct (wr_dur_valid h4 e2 _ (ts v + dur v - dt) H4e2) as (h5 & W5 & H5e2 & O5). rewrite W5. cbn [bind].
  exists h5, e1, (Some e2). cbn [fst snd opt_reads]. split; [reflexivity|].
  split; [rewrite O5, O4 by lia; exact H3e1|]. split; [exact H5e2|]. split.
  - intros l x Hl. pose proof (ev_at_lt _ _ _ Hl) as Bl.
    rewrite O5, O4, O3 by lia. eapply ev_at_ext; [exact E2|]. eapply ev_at_ext; [exact E1|exact Hl].
  - assert (R : retags (fun l => l = e1 \/ l = e2) h2 h5) by solve_retags.
    eapply retags_wf; eauto.
Qed.

Local Open Scope nat_scope.

Lemma reads_app : forall h a b va vb, Forall2 (reads h) a va -> Forall2 (reads h) b vb ->
  Forall2 (reads h) (a ++ b) (va ++ vb).
Proof. intros. apply Forall2_app; auto. Qed.

Lemma uno_step_refines : forall h e1 r1 e2 r2 v1 vr1 v2 vr2,
  wf h -> reads h e1 v1 -> Forall2 (reads h) r1 vr1 -> reads h e2 v2 -> Forall2 (reads h) r2 vr2 ->
  match uno_step v1 vr1 v2 vr2 with
  | Next emit l1 l2 =>
      exists h' emit' l1' l2', uno_step_h h e1 r1 e2 r2 = Ok (h', (emit', (l1', l2'))) /\
        Forall2 (reads h') emit' emit /\ Forall2 (reads h') l1' l1 /\ Forall2 (reads h') l2' l2 /\
        keeps h h' /\ wf h'
  | Raise c => uno_step_h h e1 r1 e2 r2 = Err c
  end.
Proof.
  intros h e1 r1 e2 r2 v1 vr1 v2 vr2 W H1 F1 H2 F2.
  unfold uno_step_h, uno_step.
  rewrite (rd_ts_ok _ _ _ H1), (rd_dur_ok _ _ _ H1), (rd_ts_ok _ _ _ H2), (rd_dur_ok _ _ _ H2).
  cbn [bind]. cbv zeta.
  destruct (ts v2 + dur v2 <=? ts v1)%Z.
  { exists h, [e2], (e1 :: r1), r2. split; [reflexivity|].
    split; [constructor; [exact H2|constructor]|]. split; [constructor; auto|]. split; [exact F2|].
    split; [apply keeps_refl|exact W]. }
  destruct (ts v1 + dur v1 <=? ts v2)%Z.
  { exists h, [e1], r1, (e2 :: r2). split; [reflexivity|].
    split; [constructor; [exact H1|constructor]|]. split; [exact F1|]. split; [constructor; auto|].
    split; [apply keeps_refl|exact W]. }
  (* the optional first split, on both sides *)
  assert (S1 : exists h1 em oe2 emv oe2v,
    (if (ts v2 <? ts v1)%Z
     then bind (split_event_h h e2 (ts v1)) (fun r => Ok (fst r, ([fst (snd r)], snd (snd r))))
     else Ok (h, ([], Some e2))) = Ok (h1, (em, oe2)) /\
    (if (ts v2 <? ts v1)%Z
     then let '(e2_before, e2') := split_event v2 (ts v1) in ([e2_before], e2')
     else ([], Some v2)) = (emv, oe2v) /\
    Forall2 (reads h1) em emv /\ opt_reads h1 oe2 oe2v /\ keeps h h1 /\ wf h1).
  { destruct (ts v2 <? ts v1)%Z.
    - destruct (split_event_refines h e2 (ts v1) v2 W H2) as (hx & a & ob & SE & Ra & Rb & K & Wx).
      rewrite SE. cbn [bind fst snd]. destruct (split_event v2 (ts v1)) as [vb ov] eqn:SV. cbn [fst snd] in *.
      exists hx, [a], ob, [vb], ov. split; [reflexivity|]. split; [reflexivity|].
      split; [constructor; [exact Ra|constructor]|]. split; [exact Rb|]. split; [exact K|exact Wx].
    - exists h, [], (Some e2), [], (Some v2). split; [reflexivity|]. split; [reflexivity|].
      split; [constructor|]. split; [exact H2|]. split; [apply keeps_refl|exact W]. }
  destruct S1 as (h1 & em & oe2 & emv & oe2v & Eh & Ev & Rem & Roe & K1 & W1).
  rewrite Eh, Ev. cbn [bind fst snd].
  destruct (ts v2 + dur v2 >? ts v1 + dur v1)%Z.
  - destruct oe2 as [e2'|], oe2v as [v2'|]; cbn [opt_reads] in Roe; try contradiction; [|reflexivity].
    destruct (split_event_refines h1 e2' (ts v1 + dur v1)%Z v2' W1 Roe) as (h2 & x & oa & SE & _ & Ra & K2 & W2).
    rewrite SE. cbn [bind fst snd]. destruct (split_event v2' (ts v1 + dur v1)%Z) as [vx ova] eqn:SV. cbn [fst snd] in *.
    pose proof (keeps_trans _ _ _ K1 K2) as K.
    do 4 eexists. split; [reflexivity|].
    split; [apply reads_app; [apply (keeps_reads _ _ _ _ K2 Rem)|constructor; [apply K; exact H1|constructor]]|].
    split; [apply (keeps_reads _ _ _ _ K F1)|].
    split; [|split; auto].
    constructor; [|apply (keeps_reads _ _ _ _ K F2)].
    destruct oa as [a'|], ova as [va'|]; cbn [opt_reads] in Ra; try contradiction; auto.
    apply K2. exact Roe.
  - do 4 eexists. split; [reflexivity|]. split; [exact Rem|].
    split; [constructor; [apply K1; exact H1|apply (keeps_reads _ _ _ _ K1 F1)]|].
    split; [apply (keeps_reads _ _ _ _ K1 F2)|split; auto].
Qed.

Lemma Forall2_length' : forall {X Y} (R : X -> Y -> Prop) l l', Forall2 R l l' -> length l = length l'.
Proof. intros X Y R l l' F. induction F; cbn; auto. Qed.

Lemma uno_loop_refines : forall fuel h l1 l2 out v1 v2 vout,
  wf h -> Forall2 (reads h) l1 v1 -> Forall2 (reads h) l2 v2 -> Forall2 (reads h) out vout ->
  match uno_loop fuel v1 v2 vout with
  | Ok r => exists h' res, uno_loop_h fuel h l1 l2 out = Ok (h', res) /\ Forall2 (reads h') res r
  | Err c => uno_loop_h fuel h l1 l2 out = Err c
  | OutOfFuel => uno_loop_h fuel h l1 l2 out = OutOfFuel
  end.
Proof.
  induction fuel as [|fuel IH]; intros h l1 l2 out v1 v2 vout W F1 F2 Fo.
  - destruct F1 as [|e1 x1 r1 vr1 H1 F1]; [|destruct F2 as [|e2 x2 r2 vr2 H2 F2]]; cbn [uno_loop uno_loop_h];
      try reflexivity; do 2 eexists; (split; [reflexivity|]); repeat apply reads_app; auto; constructor; auto.
  - destruct F1 as [|e1 x1 r1 vr1 H1 F1]; [|destruct F2 as [|e2 x2 r2 vr2 H2 F2]]; cbn [uno_loop uno_loop_h];
      try (do 2 eexists; (split; [reflexivity|]); repeat apply reads_app; auto; constructor; auto; fail).
    pose proof (uno_step_refines h e1 r1 e2 r2 x1 vr1 x2 vr2 W H1 F1 H2 F2) as S.
    destruct (uno_step x1 vr1 x2 vr2) as [emit n1 n2|c].
    + destruct S as (h1 & em & m1 & m2 & SE & Rem & R1 & R2 & K & W1). rewrite SE. cbn [bind fst snd].
      apply IH; auto. apply reads_app; auto. apply (keeps_reads _ _ _ _ K Fo).
    + rewrite S. reflexivity.
Qed.

Theorem uno_h_refines : forall h L1 L2 vs1 vs2,
  wf h -> list_at h L1 = Some vs1 -> list_at h L2 = Some vs2 ->
  match union_no_overlap vs1 vs2 with
  | Ok r => exists h' L', union_no_overlap_h h L1 L2 = Ok (h', L') /\ list_at h' L' = Some r
  | Err c => union_no_overlap_h h L1 L2 = Err c
  | OutOfFuel => union_no_overlap_h h L1 L2 = OutOfFuel
  end.
Proof.
  intros h L1 L2 vs1 vs2 W A1 A2.
  destruct (list_at_inv _ _ _ A1) as (p1 & ks1 & LL1 & EV1).
  destruct (list_at_inv _ _ _ A2) as (p2 & ks2 & LL2 & EV2).
  unfold union_no_overlap_h, union_no_overlap.
  destruct (pdeepcopy_total h L1 W (lookup_lt _ _ _ LL1)) as (h1 & L1' & P1).
  destruct (pdeepcopy_inv _ _ _ _ P1) as (m1 & C1). rewrite P1. cbn [bind fst snd].
  pose proof (cp_ext _ _ _ _ _ C1) as E1. pose proof (cp_wf _ _ _ _ _ C1 W) as W1.
  pose proof (ext_length _ _ E1) as G1. pose proof (lookup_lt _ _ _ LL2) as B2.
  assert (B2' : L2 < length h1) by lia.
  destruct (pdeepcopy_total h1 L2 W1 B2') as (h2 & L2' & P2).
  destruct (pdeepcopy_inv _ _ _ _ P2) as (m2 & C2). rewrite P2. cbn [bind fst snd].
  pose proof (cp_ext _ _ _ _ _ C2) as E2. pose proof (cp_wf _ _ _ _ _ C2 W1) as W2.
  (* the two copied lists *)
  destruct (copied_cell _ _ _ _ _ _ _ C1 (cp_root _ _ _ _ _ C1)) as (_ & t1 & k1 & ks1' & La & Lb & Fa).
  rewrite (ext_lookup_some _ _ _ _ E1 LL1) in La. inversion La; subst t1 k1.
  destruct (copied_cell _ _ _ _ _ _ _ C2 (cp_root _ _ _ _ _ C2)) as (_ & t2 & k2 & ks2' & Lc & Ld & Fc).
  rewrite (ext_lookup_some _ _ _ _ E2 (ext_lookup_some _ _ _ _ E1 LL2)) in Lc. inversion Lc; subst t2 k2.
  unfold list_elems. rewrite (ext_lookup_some _ _ _ _ E2 Lb), Ld. cbn [bind].
  destruct (copied_elems _ _ _ _ _ _ _ _ C1 Fa EV1) as (EVa & _).
  destruct (copied_elems _ _ _ _ _ _ _ _ C2 Fc (evs_at_ext _ _ _ _ E1 EV2)) as (EVc & _).
  pose proof (evs_at_ext _ _ _ _ E2 EVa) as EVa2.
  apply evs_at_Forall2 in EVa2. apply evs_at_Forall2 in EVc.
  rewrite (Forall2_length' _ _ _ EVa2), (Forall2_length' _ _ _ EVc).
  pose proof (uno_loop_refines (length vs1 + length vs2) h2 ks1' ks2' [] vs1 vs2 [] W2 EVa2 EVc (Forall2_nil _)) as LP.
  destruct (uno_loop (length vs1 + length vs2) vs1 vs2 []) as [r|c|].
  - destruct LP as (h3 & res & LP & R). rewrite LP. cbn [bind fst snd].
    do 2 eexists. split; [reflexivity|]. apply list_at_new_list. now apply evs_at_Forall2.
  - rewrite LP. reflexivity.
  - rewrite LP. reflexivity.
Qed.
