(* union_no_overlap at heap level (Model/TransformHeap.v: union_no_overlap_h).
   A. frame and freshness for every heap and every pair of arguments (the same list object
      twice, shared events, shared data: anything): [uno_h_framed].
   B. refinement, again for every aliasing: on a closed acyclic heap whose two argument
      lists hold Events, the heap-level function succeeds or raises exactly as
      Model/UnionNoOverlap.v's [union_no_overlap] on the read-back arguments, and the
      returned list reads back as its result: [uno_h_refines].  No distinctness is needed:
      after the two deep copies the code writes only into objects it has just copied. *)
From AwVerif Require Import Base.Prelude Model.MemHeap Model.TransformHeap Model.UnionNoOverlap
  Proofs.MemHeapBase Proofs.MemHeapCopy Proofs.MemHeapFrame
  Proofs.TransformHeapCopy Proofs.TransformHeapBase Proofs.TransformHeapFlood.
From Coq Require Import Arith Relations.
Local Open Scope nat_scope.

Definition fresh_in (h0 h : heap) (l : loc) : Prop := length h0 <= l < length h.

Lemma fresh_in_grow : forall h0 h h' l, fresh_in h0 h l -> length h <= length h' -> fresh_in h0 h' l.
Proof. unfold fresh_in. intros. lia. Qed.

Lemma framed_length : forall h0 h, framed h0 h -> length h0 <= length h.
Proof. intros h0 h F. apply F. Qed.

(* ------------------------------------------------------------------------- *)
(* A. frame *)

Lemma split_event_framed : forall h0 h e dt h' a ob,
  framed h0 h -> fresh_in h0 h e -> split_event_h h e dt = Ok (h', (a, ob)) ->
  framed h0 h' /\ length h <= length h' /\ fresh_in h0 h' a /\
  (forall b, ob = Some b -> fresh_in h0 h' b).
Proof.
  unfold split_event_h. intros h0 h e dt h' a ob F Fe H.
  destruct (rd_ts h e) as [t| |] eqn:Rt; cbn [bind] in H; try discriminate.
  destruct (rd_dur h e) as [d| |] eqn:Rd; cbn [bind] in H; try discriminate.
  destruct ((t <? dt)%Z && (dt <? t + d)%Z).
  - destruct (pdeepcopy h e) as [[h1 e1]| |] eqn:E1; cbn [bind fst snd] in H; try discriminate.
    destruct (pdeepcopy h1 e) as [[h2 e2]| |] eqn:E2; cbn [bind fst snd] in H; try discriminate.
    destruct (rd_ts h2 e) as [t'| |]; cbn [bind] in H; try discriminate.
    destruct (wr_dur h2 e1 (dt - t')) as [h3| |] eqn:W3; cbn [bind] in H; try discriminate.
    destruct (wr_ts h3 e2 dt) as [h4| |] eqn:W4; cbn [bind] in H; try discriminate.
    destruct (rd_ts h4 e) as [t''| |]; cbn [bind] in H; try discriminate.
    destruct (rd_dur h4 e) as [d''| |]; cbn [bind] in H; try discriminate.
    destruct (wr_dur h4 e2 (t'' + d'' - dt)) as [h5| |] eqn:W5; cbn [bind] in H; try discriminate.
    inversion H; subst h' a ob; clear H.
    destruct (pdeepcopy_inv _ _ _ _ E1) as (m1 & C1). destruct (pdeepcopy_inv _ _ _ _ E2) as (m2 & C2).
    pose proof (copied_fresh _ _ _ _ _ C1) as B1. pose proof (copied_fresh _ _ _ _ _ C2) as B2.
    pose proof (framed_length _ _ F) as G.
    assert (F2 : framed h0 h2) by (eapply framed_copied; [eapply framed_copied; eauto|eauto]).
    assert (R : retags (fun l => l = e1 \/ l = e2) h2 h5) by solve_retags.
    pose proof (retags_length _ _ _ R) as LEN.
    split; [eapply retags_framed; [exact R| |exact F2]; intros l [-> | ->]; lia|].
    split; [lia|]. split; [unfold fresh_in; lia|].
    intros b Eb. inversion Eb; subst. unfold fresh_in; lia.
  - inversion H; subst. split; auto. split; [lia|]. split; auto. intros b Eb. discriminate.
Qed.

Definition all_fresh (h0 h : heap) (ks : list loc) : Prop := forall k, In k ks -> fresh_in h0 h k.

Lemma all_fresh_grow : forall h0 h h' ks, all_fresh h0 h ks -> length h <= length h' -> all_fresh h0 h' ks.
Proof. intros h0 h h' ks A G k I. eapply fresh_in_grow; eauto. Qed.

Lemma all_fresh_cons : forall h0 h k ks, fresh_in h0 h k -> all_fresh h0 h ks -> all_fresh h0 h (k :: ks).
Proof. intros h0 h k ks Fk A x [<-|I]; auto. Qed.

Lemma all_fresh_app : forall h0 h a b, all_fresh h0 h a -> all_fresh h0 h b -> all_fresh h0 h (a ++ b).
Proof. intros h0 h a b A B x I. apply in_app_or in I. destruct I; auto. Qed.

Lemma all_fresh_nil : forall h0 h, all_fresh h0 h [].
Proof. intros h0 h k []. Qed.

Lemma uno_step_framed : forall h0 h e1 r1 e2 r2 h' emit l1 l2,
  framed h0 h -> all_fresh h0 h (e1 :: r1) -> all_fresh h0 h (e2 :: r2) ->
  uno_step_h h e1 r1 e2 r2 = Ok (h', (emit, (l1, l2))) ->
  framed h0 h' /\ length h <= length h' /\
  all_fresh h0 h' emit /\ all_fresh h0 h' l1 /\ all_fresh h0 h' l2.
Proof.
  unfold uno_step_h. intros h0 h e1 r1 e2 r2 h' emit l1 l2 F A1 A2 H.
  assert (Fe1 : fresh_in h0 h e1) by (apply A1; left; auto).
  assert (Fe2 : fresh_in h0 h e2) by (apply A2; left; auto).
  assert (Ar1 : all_fresh h0 h r1) by (intros k I; apply A1; right; auto).
  assert (Ar2 : all_fresh h0 h r2) by (intros k I; apply A2; right; auto).
  destruct (rd_ts h e1) as [t1| |]; cbn [bind] in H; try discriminate.
  destruct (rd_dur h e1) as [d1| |]; cbn [bind] in H; try discriminate.
  destruct (rd_ts h e2) as [t2| |]; cbn [bind] in H; try discriminate.
  destruct (rd_dur h e2) as [d2| |]; cbn [bind] in H; try discriminate.
  cbv zeta in H.
  destruct (t2 + d2 <=? t1)%Z.
  { inversion H; subst. split; auto. split; [lia|]. split; [apply all_fresh_cons; auto; apply all_fresh_nil|].
    split; auto. }
  destruct (t1 + d1 <=? t2)%Z.
  { inversion H; subst. split; auto. split; [lia|]. split; [apply all_fresh_cons; auto; apply all_fresh_nil|].
    split; auto. }
  (* the first (optional) split *)
  match type of H with bind ?r _ = _ => destruct r as [[h1 [em oe2]]| |] eqn:E3 end;
    cbn [bind fst snd] in H; try discriminate.
  assert (S1 : framed h0 h1 /\ length h <= length h1 /\ all_fresh h0 h1 em /\
               (forall b, oe2 = Some b -> fresh_in h0 h1 b)).
  { destruct (t2 <? t1)%Z.
    - destruct (split_event_h h e2 t1) as [[hx [b ob]]| |] eqn:E4; cbn [bind fst snd] in E3; try discriminate.
      inversion E3; subst h1 em oe2; clear E3.
      destruct (split_event_framed _ _ _ _ _ _ _ F Fe2 E4) as (Fx & Gx & Fb & Fob).
      split; auto. split; auto. split; auto. apply all_fresh_cons; auto. apply all_fresh_nil.
    - inversion E3; subst. split; auto. split; [lia|]. split; [apply all_fresh_nil|].
      intros b Eb. inversion Eb; subst. auto. }
  destruct S1 as (F1 & G1 & Aem & Foe).
  destruct (t2 + d2 >? t1 + d1)%Z.
  - destruct oe2 as [e2'|]; [|discriminate].
    destruct (split_event_h h1 e2' (t1 + d1)) as [[h2 [x oa]]| |] eqn:E4; cbn [bind fst snd] in H; try discriminate.
    inversion H; subst h' emit l1 l2; clear H.
    destruct (split_event_framed _ _ _ _ _ _ _ F1 (Foe _ eq_refl) E4) as (F2 & G2 & _ & Foa).
    split; auto. split; [lia|].
    split; [apply all_fresh_app; [eapply all_fresh_grow; eauto|]|].
    { apply all_fresh_cons; [|apply all_fresh_nil]. eapply fresh_in_grow; eauto. lia. }
    split; [eapply all_fresh_grow; eauto; lia|].
    apply all_fresh_cons; [|eapply all_fresh_grow; eauto; lia].
    destruct oa as [a'|]; [apply Foa; auto|]. eapply fresh_in_grow; [apply Foe; auto|lia].
  - inversion H; subst h' emit l1 l2; clear H. split; auto. split; auto. split; auto.
    split; eapply all_fresh_grow; eauto.
Qed.

Lemma uno_loop_framed : forall h0 fuel h l1 l2 out h' res,
  framed h0 h -> all_fresh h0 h l1 -> all_fresh h0 h l2 -> all_fresh h0 h out ->
  uno_loop_h fuel h l1 l2 out = Ok (h', res) ->
  framed h0 h' /\ all_fresh h0 h' res.
Proof.
  intros h0. induction fuel as [|fuel IH]; intros h l1 l2 out h' res F A1 A2 Ao H.
  - destruct l1 as [|e1 r1]; [|destruct l2 as [|e2 r2]]; cbn [uno_loop_h] in H; try discriminate;
      inversion H; subst; split; auto; repeat apply all_fresh_app; auto.
  - destruct l1 as [|e1 r1]; [|destruct l2 as [|e2 r2]]; cbn [uno_loop_h] in H;
      try (inversion H; subst; split; auto; repeat apply all_fresh_app; auto; fail).
    destruct (uno_step_h h e1 r1 e2 r2) as [[h1 [em [n1 n2]]]| |] eqn:S; cbn [bind fst snd] in H; try discriminate.
    destruct (uno_step_framed _ _ _ _ _ _ _ _ _ _ F A1 A2 S) as (F1 & G1 & Aem & An1 & An2).
    eapply IH; [exact F1| | | |exact H]; auto.
    apply all_fresh_app; auto. eapply all_fresh_grow; eauto.
Qed.

Theorem uno_h_framed : forall h L1 L2 h' L',
  union_no_overlap_h h L1 L2 = Ok (h', L') ->
  framed h h' /\ length h <= L' < length h' /\
  exists out, lookup h' L' = Some (Cell (TNode EVENT_LIST) out) /\
              forall k, In k out -> length h <= k < length h'.
Proof.
  unfold union_no_overlap_h. intros h L1 L2 h' L' H.
  destruct (pdeepcopy h L1) as [[h1 L1']| |] eqn:P1; cbn [bind fst snd] in H; try discriminate.
  destruct (pdeepcopy h1 L2) as [[h2 L2']| |] eqn:P2; cbn [bind fst snd] in H; try discriminate.
  destruct (list_elems h2 L1') as [ks1| |] eqn:LE1; cbn [bind] in H; try discriminate.
  destruct (list_elems h2 L2') as [ks2| |] eqn:LE2; cbn [bind] in H; try discriminate.
  destruct (uno_loop_h _ h2 ks1 ks2 []) as [[h3 out]| |] eqn:LP; cbn [bind fst snd] in H; try discriminate.
  destruct (pdeepcopy_inv _ _ _ _ P1) as (m1 & C1). destruct (pdeepcopy_inv _ _ _ _ P2) as (m2 & C2).
  pose proof (ext_length _ _ (cp_ext _ _ _ _ _ C1)) as G1.
  pose proof (ext_length _ _ (cp_ext _ _ _ _ _ C2)) as G2.
  assert (LE1' : list_elems h1 L1' = Ok ks1).
  { unfold list_elems in *. rewrite <- (ext_lookup _ _ _ (cp_ext _ _ _ _ _ C2)); auto.
    apply (copied_fresh _ _ _ _ _ C1). }
  destruct (copied_list _ _ _ _ _ _ C1 LE1') as (_ & _ & _ & _ & FR1).
  destruct (copied_list _ _ _ _ _ _ C2 LE2) as (_ & _ & _ & _ & FR2).
  assert (F2 : framed h h2) by (eapply framed_copied; [eapply framed_copied; [apply framed_refl|eauto]|eauto]).
  destruct (uno_loop_framed h _ h2 ks1 ks2 [] h3 out F2) as (F3 & Ao); auto.
  { intros k I. specialize (FR1 _ I). unfold fresh_in. lia. }
  { intros k I. specialize (FR2 _ I). unfold fresh_in. lia. }
  { apply all_fresh_nil. }
  destruct (new_list_framed h h3 out F3 Ao) as (F4 & B4 & L4).
  inversion H; subst h' L'. split; auto. split; auto. exists out. split; auto.
  intros k I. specialize (Ao _ I). unfold new_list, alloc, fresh_in in *; cbn [fst]. rewrite app_length; cbn. lia.
Qed.
