(* Memory back end: representation invariant, frame (C04) and refinement of the
   reference list model (C02).  mstate and sstate are the same type and the abstraction
   is the identity, so the invariant is StoreSpec.spec_wf. *)
From Coq Require Import Permutation Sorted ZifyBool.
From AwVerif Require Import Base.Prelude Model.StoreBase Model.MemStore Model.StoreSpec
  Proofs.StoreBaseFacts.

Definition mem_Inv (c : mstate) : Prop := spec_wf c.

Lemma mem_Inv_init : mem_Inv mem_init.
Proof. split; [constructor|]. intros b m es H. discriminate. Qed.

(* ---------- ids ---------- *)
Lemma id_matches_has_id : forall i x, id_matches (Some i) x = has_id i x.
Proof. intros i x. unfold id_matches, has_id. now destruct (eid x). Qed.

Lemma mem_replace_events_spec : forall i e es,
  mem_replace_events (Some i) e es = spec_replace i e es.
Proof.
  intros. unfold mem_replace_events, spec_replace. apply map_ext. intro x.
  now rewrite id_matches_has_id.
Qed.

Lemma has_id_true : forall i x, has_id i x = true -> eid x = Some i.
Proof. unfold has_id. intros i x H. destruct (eid x); [f_equal; lia|discriminate]. Qed.

Lemma has_id_false : forall i x, has_id i x = false -> eid x <> Some i.
Proof. unfold has_id. intros i x H E. rewrite E in H. lia. Qed.

Lemma live_ids_app : forall a b, live_ids (a ++ b) = live_ids a ++ live_ids b.
Proof. intros. unfold live_ids. now rewrite flat_map_app. Qed.

Lemma live_ids_cons : forall x t,
  live_ids (x :: t) = match eid x with Some j => j :: live_ids t | None => live_ids t end.
Proof. intros. unfold live_ids. cbn. now destruct (eid x). Qed.

Lemma live_ids_replace : forall i e es, live_ids (spec_replace i e es) = live_ids es.
Proof.
  induction es as [|x t IH]; [reflexivity|].
  change (spec_replace i e (x :: t)) with
    ((if has_id i x then set_eid e (Some i) else x) :: spec_replace i e t).
  rewrite !live_ids_cons, IH. destruct (has_id i x) eqn:E; [|reflexivity].
  apply has_id_true in E. now rewrite E.
Qed.

Lemma In_live_ids : forall i es, In i (live_ids es) <-> exists x, In x es /\ eid x = Some i.
Proof.
  intros i es. unfold live_ids. rewrite in_flat_map. split.
  - intros [x [I H]]. exists x. split; [assumption|]. destruct (eid x); [|destruct H].
    destruct H as [->|[]]. reflexivity.
  - intros [x [I H]]. exists x. split; [assumption|]. rewrite H. now left.
Qed.

Lemma ids_unique_replace : forall i e es, ids_unique es -> ids_unique (spec_replace i e es).
Proof.
  intros i e es [N S]. split; [now rewrite live_ids_replace|].
  intros x Hx. unfold spec_replace in Hx. apply in_map_iff in Hx as [y [E I]].
  destruct (has_id i y); subst; [discriminate|now apply S].
Qed.

Lemma ids_unique_snoc : forall es e i,
  ids_unique es -> ~ is_live i es -> ids_unique (es ++ [set_eid e (Some i)]).
Proof.
  intros es e i [N S] F. split.
  - rewrite live_ids_app. cbn. now apply NoDup_app_snoc.
  - intros x Hx. apply in_app_iff in Hx as [Hx|[<-|[]]]; [now apply S|discriminate].
Qed.

Lemma ids_unique_filter : forall p es, ids_unique es -> ids_unique (filter p es).
Proof.
  intros p es [N S]. split.
  - clear S. induction es as [|x t IH]; [constructor|].
    rewrite live_ids_cons in N. cbn [filter]. destruct (p x).
    + rewrite live_ids_cons. destruct (eid x) as [j|]; [|now apply IH].
      inversion N as [|? ? NI ND]; subst. constructor; [|now apply IH].
      intro I. apply NI. apply In_live_ids in I as [y [Iy Ey]]. apply filter_In in Iy as [Iy _].
      apply In_live_ids. eauto.
    + apply IH. destruct (eid x); [now inversion N|assumption].
  - intros x Hx. apply filter_In in Hx as [Hx _]. now apply S.
Qed.

Lemma mem_next_id_fresh : forall es, ~ is_live (mem_next_id es) es.
Proof.
  intros es H. apply In_live_ids in H as [x [I E]].
  destruct es as [|e t]; [destruct I|]. cbn in E.
  assert (id_or_0 x <= list_max (id_or_0 e) (map id_or_0 t)).
  { apply list_max_ge. destruct I as [<-|I]; [now left|right; now apply in_map]. }
  unfold id_or_0 at 1 in H. rewrite E in H. unfold mem_next_id in H. lia.
Qed.

(* ---------- remove_last / find_last under unique ids ---------- *)
Lemma remove_last_ext : forall {A} (p q : A -> bool) l,
  (forall x, p x = q x) -> remove_last p l = remove_last q l.
Proof.
  induction l as [|a t IH]; intros H; [reflexivity|]. cbn. rewrite IH by assumption. now rewrite H.
Qed.

Lemma find_last_ext : forall {A} (p q : A -> bool) l,
  (forall x, p x = q x) -> find_last p l = find_last q l.
Proof.
  induction l as [|a t IH]; intros H; [reflexivity|]. cbn. rewrite IH by assumption. now rewrite H.
Qed.

Lemma remove_last_None : forall {A} (p : A -> bool) l,
  remove_last p l = None -> forall x, In x l -> p x = false.
Proof.
  induction l as [|a t IH]; intros H x I; [destruct I|]. cbn in H.
  destruct (remove_last p t) eqn:E; [discriminate|]. destruct (p a) eqn:Pa; [discriminate|].
  destruct I as [<-|I]; [assumption|now apply IH].
Qed.

Lemma find_last_None : forall {A} (p : A -> bool) l,
  find_last p l = None -> forall x, In x l -> p x = false.
Proof.
  induction l as [|a t IH]; intros H x I; [destruct I|]. cbn in H.
  destruct (find_last p t) eqn:E; [discriminate|]. destruct (p a) eqn:Pa; [discriminate|].
  destruct I as [<-|I]; [assumption|now apply IH].
Qed.

Lemma find_last_Some : forall {A} (p : A -> bool) l x,
  find_last p l = Some x -> In x l /\ p x = true.
Proof.
  induction l as [|a t IH]; intros x H; [discriminate|]. cbn in H.
  destruct (find_last p t) eqn:E.
  - inversion H; subst. destruct (IH x eq_refl). split; [now right|assumption].
  - destruct (p a) eqn:Pa; [|discriminate]. inversion H; subst. split; [now left|assumption].
Qed.

Lemma not_live_has_id : forall i es, ~ is_live i es -> forall x, In x es -> has_id i x = false.
Proof.
  intros i es H x I. destruct (has_id i x) eqn:E; [|reflexivity].
  exfalso. apply H. apply In_live_ids. exists x. split; [assumption|now apply has_id_true].
Qed.

Lemma has_id_all_false_not_live : forall i es,
  (forall x, In x es -> has_id i x = false) -> ~ is_live i es.
Proof.
  intros i es H L. apply In_live_ids in L as [x [I E]]. specialize (H x I).
  unfold has_id in H. rewrite E in H. lia.
Qed.

Lemma remove_last_unique : forall i es es',
  NoDup (live_ids es) -> remove_last (has_id i) es = Some es' ->
  is_live i es /\ es' = spec_delete i es.
Proof.
  induction es as [|x t IH]; intros es' N H; [discriminate|]. cbn in H.
  rewrite live_ids_cons in N.
  assert (Nt : NoDup (live_ids t)).
  { destruct (eid x); [now inversion N|assumption]. }
  destruct (remove_last (has_id i) t) as [t'|] eqn:E.
  - inversion H; subst. destruct (IH t' Nt eq_refl) as [L ->]. split.
    + apply In_live_ids in L as [y [Iy Ey]]. apply In_live_ids. exists y. split; [now right|assumption].
    + unfold spec_delete. cbn [filter]. destruct (has_id i x) eqn:Hx; [|reflexivity]. exfalso.
      apply has_id_true in Hx. rewrite Hx in N. inversion N as [|? ? NI _]; subst. apply NI, L.
  - destruct (has_id i x) eqn:Hx; [|discriminate]. inversion H; subst. split.
    + apply In_live_ids. exists x. split; [now left|now apply has_id_true].
    + unfold spec_delete. cbn [filter]. rewrite Hx. cbn [negb]. symmetry. apply filter_all.
      intros y Iy. rewrite (remove_last_None _ _ E y Iy). reflexivity.
Qed.

(* ---------- aset on the state ---------- *)
Lemma aget_aset_case : forall {V} (l : list (Z * V)) k k' v,
  aget k' (aset k v l) = if k =? k' then Some v else aget k' l.
Proof.
  intros. destruct (k =? k') eqn:E.
  - assert (k = k') by lia. subst. apply aget_aset_same.
  - apply aget_aset_other. lia.
Qed.

Lemma mem_Inv_aset : forall c b m es,
  mem_Inv c -> ids_unique es -> mem_Inv (aset b (m, es) c).
Proof.
  intros c b m es [N W] U. split; [now apply NoDup_akeys_aset|].
  intros b' m' es' H. rewrite aget_aset_case in H. destruct (b =? b').
  - inversion H; subst. assumption.
  - eauto.
Qed.

Lemma mem_Inv_adel : forall c b, mem_Inv c -> mem_Inv (adel b c).
Proof.
  intros c b [N W]. split; [now apply NoDup_akeys_adel|].
  intros b' m es H. destruct (Z.eq_dec b' b) as [->|D].
  - rewrite aget_adel_same in H. discriminate.
  - rewrite aget_adel_other in H by assumption. eauto.
Qed.

Lemma ids_unique_nil : ids_unique [].
Proof. split; [constructor|]. intros e []. Qed.

(* ---------- invariant preservation, every op, every argument ---------- *)
Lemma mem_replace_Inv : forall c b i e, mem_Inv c -> mem_Inv (fst (mem_replace c b (Some i) e)).
Proof.
  intros c b i e I. unfold mem_replace. destruct (aget b c) as [[m es]|] eqn:E; [|assumption].
  cbn. apply mem_Inv_aset; [assumption|]. rewrite mem_replace_events_spec.
  apply ids_unique_replace. destruct I as [_ W]. eauto.
Qed.

Lemma mem_insert_one_Inv : forall c b e, mem_Inv c -> mem_Inv (fst (mem_insert_one c b e)).
Proof.
  intros c b e I. unfold mem_insert_one. destruct (eid e) as [i|] eqn:Ee.
  - pose proof (mem_replace_Inv c b i e I) as H.
    destruct (mem_replace c b (Some i) e) as [c' [o|k|]]; assumption.
  - destruct (aget b c) as [[m es]|] eqn:E; [|assumption]. cbn.
    apply mem_Inv_aset; [assumption|]. apply ids_unique_snoc; [|apply mem_next_id_fresh].
    destruct I as [_ W]. eauto.
Qed.

Lemma mem_insert_many_Inv : forall es c b, mem_Inv c -> mem_Inv (fst (mem_insert_many c b es)).
Proof.
  induction es as [|e t IH]; intros c b I; [assumption|]. cbn.
  pose proof (mem_insert_one_Inv c b e I) as H.
  destruct (mem_insert_one c b e) as [c' [o|k|]]; cbn in *; [now apply IH|assumption|assumption].
Qed.

Theorem mem_step_Inv : forall c o, mem_Inv c -> mem_Inv (fst (mem_step c o)).
Proof.
  intros c o I. destruct o as [b m|b ty cl ho na da|b| |b|b e|b es|b i e|b e|b i|b i|b l s e|b s e]; cbn.
  - apply mem_Inv_aset; [assumption|apply ids_unique_nil].
  - destruct (aget b c) as [[m es]|] eqn:E; [|assumption]. cbn.
    apply mem_Inv_aset; [assumption|]. destruct I as [_ W]. eauto.
  - destruct (aget b c); [|assumption]. cbn. now apply mem_Inv_adel.
  - assumption.
  - destruct (aget b c) as [[m es]|]; assumption.
  - now apply mem_insert_one_Inv.
  - now apply mem_insert_many_Inv.
  - now apply mem_replace_Inv.
  - destruct (aget b c) as [[m es]|] eqn:E; [|assumption].
    destruct (last_opt (sort_by ts es)) as [l|] eqn:L; [|assumption].
    destruct (eid l) as [i|] eqn:El; [now apply mem_replace_Inv|].
    exfalso. apply (sort_by_last_max ts) in L as [L _]. destruct I as [_ W].
    destruct (W b m es E) as [_ S]. now apply (S l L).
  - destruct (aget b c) as [[m es]|] eqn:E; [|assumption].
    destruct (remove_last (id_matches (Some i)) es) as [es'|] eqn:R; [|assumption]. cbn.
    apply mem_Inv_aset; [assumption|].
    destruct I as [_ W]. pose proof (W b m es E) as U.
    rewrite (remove_last_ext _ (has_id i)) in R by (intro; apply id_matches_has_id).
    destruct U as [N S]. destruct (remove_last_unique i es es' N R) as [_ ->].
    apply ids_unique_filter. now split.
  - destruct (aget b c) as [[m es]|]; assumption.
  - destruct (aget b c) as [[m es]|]; assumption.
  - destruct (aget b c) as [[m es]|]; assumption.
Qed.

Lemma mem_run_Inv : forall h c, mem_Inv c -> mem_Inv (mem_run c h).
Proof.
  induction h as [|o t IH]; intros c I; [assumption|]. cbn. apply IH. now apply mem_step_Inv.
Qed.

(* ---------- C04: frame ---------- *)
Lemma mem_replace_frame : forall c b oi e b', b' <> b ->
  mem_view (fst (mem_replace c b oi e)) b' = mem_view c b'.
Proof.
  intros c b oi e b' D. unfold mem_replace, mem_view.
  destruct (aget b c) as [[m es]|]; [|reflexivity]. cbn. now apply aget_aset_other.
Qed.

Lemma mem_insert_one_frame : forall c b e b', b' <> b ->
  mem_view (fst (mem_insert_one c b e)) b' = mem_view c b'.
Proof.
  intros c b e b' D. unfold mem_insert_one. destruct (eid e) as [i|].
  - pose proof (mem_replace_frame c b (Some i) e b' D) as H.
    destruct (mem_replace c b (Some i) e) as [c' [o|k|]]; assumption.
  - unfold mem_view. destruct (aget b c) as [[m es]|]; [|reflexivity]. cbn. now apply aget_aset_other.
Qed.

Lemma mem_insert_many_frame : forall es c b b', b' <> b ->
  mem_view (fst (mem_insert_many c b es)) b' = mem_view c b'.
Proof.
  induction es as [|e t IH]; intros c b b' D; [reflexivity|]. cbn.
  pose proof (mem_insert_one_frame c b e b' D) as H.
  destruct (mem_insert_one c b e) as [c' [o|k|]]; cbn in *; [|assumption|assumption].
  rewrite IH by assumption. assumption.
Qed.

Theorem mem_frame : forall c o b', mem_Inv c -> target o <> Some b' ->
  mem_view (fst (mem_step c o)) b' = mem_view c b'.
Proof.
  intros c o b' _ T.
  destruct o as [b m|b ty cl ho na da|b| |b|b e|b es|b i e|b e|b i|b i|b l s e|b s e]; cbn in T;
    try (assert (D : b' <> b) by congruence); cbn.
  - unfold mem_view. now apply aget_aset_other.
  - destruct (aget b c) as [[m es]|]; [|reflexivity]. cbn. unfold mem_view. now apply aget_aset_other.
  - destruct (aget b c); [|reflexivity]. cbn. unfold mem_view. now apply aget_adel_other.
  - reflexivity.
  - destruct (aget b c) as [[m es]|]; reflexivity.
  - now apply mem_insert_one_frame.
  - now apply mem_insert_many_frame.
  - now apply mem_replace_frame.
  - destruct (aget b c) as [[m es]|]; [|reflexivity].
    destruct (last_opt (sort_by ts es)); [|reflexivity]. now apply mem_replace_frame.
  - destruct (aget b c) as [[m es]|]; [|reflexivity].
    destruct (remove_last (id_matches (Some i)) es); [|reflexivity]. cbn.
    unfold mem_view. now apply aget_aset_other.
  - destruct (aget b c) as [[m es]|]; reflexivity.
  - destruct (aget b c) as [[m es]|]; reflexivity.
  - destruct (aget b c) as [[m es]|]; reflexivity.
Qed.

Lemma mem_frame_reachable : forall h o b', target o <> Some b' ->
  mem_view (fst (mem_step (mem_run mem_init h) o)) b' = mem_view (mem_run mem_init h) b'.
Proof. intros h o b'. apply mem_frame, mem_run_Inv, mem_Inv_init. Qed.
