(* Lemmas about Model/Classify.v: dict algebra, the frame vocabulary, Rule.match,
   tag, _pick_category.  No property statements here (Props/C19.v). *)
From AwVerif Require Import Base.Prelude Model.ClassifyBase Model.Classify.
From Coq Require Import ZifyBool Permutation.

(* ------------------------------------------------------------------ *)
(* dicts *)

Lemma dget_dset_same : forall k v d, dget k (dset k v d) = Some v.
Proof.
  intros k v d. induction d as [|[k' v'] t IH]; cbn [dset dget].
  - rewrite Z.eqb_refl. reflexivity.
  - destruct (Z.eqb_spec k' k) as [E|E]; cbn [dget].
    + rewrite Z.eqb_refl. reflexivity.
    + destruct (Z.eqb_spec k' k); [contradiction|]. exact IH.
Qed.

Lemma dget_dset_other : forall k k' v d, k' <> k -> dget k' (dset k v d) = dget k' d.
Proof.
  intros k k' v d Hne. induction d as [|[k0 v0] t IH]; cbn [dset dget].
  - destruct (Z.eqb_spec k k'); [congruence|reflexivity].
  - destruct (Z.eqb_spec k0 k) as [E|E]; cbn [dget].
    + subst k0. destruct (Z.eqb_spec k k'); [congruence|reflexivity].
    + destruct (Z.eqb_spec k0 k'); [reflexivity|exact IH].
Qed.

Lemma dhas_dset_other : forall k k' v d, k' <> k -> dhas k' (dset k v d) = dhas k' d.
Proof. intros. unfold dhas. rewrite dget_dset_other by assumption. reflexivity. Qed.

Lemma dhas_dset_same : forall k v d, dhas k (dset k v d) = true.
Proof. intros. unfold dhas. rewrite dget_dset_same. reflexivity. Qed.

(* the part of a dict outside a set of keys, in dict order *)
Definition is_owned (owned : list Z) (k : Z) : bool := existsb (Z.eqb k) owned.
Definition others (owned : list Z) (d : dict) : dict :=
  filter (fun kv => negb (is_owned owned (fst kv))) d.

Lemma is_owned_true : forall owned k, is_owned owned k = true <-> In k owned.
Proof.
  intros owned k. unfold is_owned. rewrite existsb_exists. split.
  - intros [x [Hin E]]. apply Z.eqb_eq in E. subst. exact Hin.
  - intros Hin. exists k. split; [exact Hin|apply Z.eqb_refl].
Qed.

Lemma is_owned_false : forall owned k, is_owned owned k = false <-> ~ In k owned.
Proof.
  intros owned k. rewrite <- is_owned_true. destruct (is_owned owned k); split; congruence.
Qed.

Lemma others_nil : forall d, others [] d = d.
Proof.
  intros d. unfold others. induction d as [|kv t IH]; cbn; [reflexivity|]. f_equal. exact IH.
Qed.

Lemma others_dset : forall owned k v d, In k owned -> others owned (dset k v d) = others owned d.
Proof.
  intros owned k v d Hin. apply is_owned_true in Hin.
  induction d as [|[k' v'] t IH]; unfold others in *; cbn [dset filter fst].
  - rewrite Hin. reflexivity.
  - destruct (Z.eqb_spec k' k) as [E|E]; cbn [filter fst].
    + subst k'. rewrite Hin. reflexivity.
    + rewrite IH. reflexivity.
Qed.

Lemma dget_others : forall owned k d, ~ In k owned -> dget k (others owned d) = dget k d.
Proof.
  intros owned k d Hn. apply is_owned_false in Hn.
  induction d as [|[k' v'] t IH]; unfold others in *; cbn [filter dget fst]; [reflexivity|].
  destruct (Z.eqb_spec k' k) as [E|E].
  - subst k'. rewrite Hn. cbn [negb dget]. rewrite Z.eqb_refl. reflexivity.
  - destruct (negb (is_owned owned k')); cbn [dget].
    + destruct (Z.eqb_spec k' k); [contradiction|exact IH].
    + exact IH.
Qed.

Lemma others_eq_dget : forall owned d d',
  others owned d' = others owned d -> forall k, ~ In k owned -> dget k d' = dget k d.
Proof.
  intros owned d d' H k Hn.
  rewrite <- (dget_others owned k d') by exact Hn.
  rewrite <- (dget_others owned k d) by exact Hn. rewrite H. reflexivity.
Qed.

Lemma keys_dset_present : forall k v d, dhas k d = true -> map fst (dset k v d) = map fst d.
Proof.
  intros k v d. unfold dhas. induction d as [|[k' v'] t IH]; cbn [dget dset map fst].
  - discriminate.
  - destruct (Z.eqb_spec k' k) as [E|E]; cbn [map fst]; intros H.
    + subst. reflexivity.
    + f_equal. exact (IH H).
Qed.

Lemma dset_absent : forall k v d, dhas k d = false -> dset k v d = d ++ [(k, v)].
Proof.
  intros k v d. unfold dhas. induction d as [|[k' v'] t IH]; cbn [dget dset app].
  - reflexivity.
  - destruct (Z.eqb_spec k' k) as [E|E]; intros H; [discriminate|].
    f_equal. exact (IH H).
Qed.

Lemma dget_none_notin : forall k d, dget k d = None -> ~ In k (map fst d).
Proof.
  intros k d. induction d as [|[k' v'] t IH]; cbn [dget map fst]; intros H Hin.
  - exact Hin.
  - destruct (Z.eqb_spec k' k) as [E|E]; [discriminate|].
    destruct Hin as [Hin|Hin]; [contradiction|]. exact (IH H Hin).
Qed.

Lemma dset_nodup : forall k v d, NoDup (map fst d) -> NoDup (map fst (dset k v d)).
Proof.
  intros k v d Hnd. destruct (dhas k d) eqn:E.
  - rewrite keys_dset_present by exact E. exact Hnd.
  - rewrite dset_absent by exact E. rewrite map_app. cbn [map fst].
    unfold dhas in E. destruct (dget k d) eqn:G; [discriminate|].
    apply dget_none_notin in G.
    apply (Permutation.Permutation_NoDup (l := k :: map fst d)).
    + apply Permutation.Permutation_cons_append.
    + constructor; assumption.
Qed.

Lemma dget_in : forall k v d, dget k d = Some v -> In (k, v) d.
Proof.
  intros k v d. induction d as [|[k' v'] t IH]; cbn [dget]; [discriminate|].
  destruct (Z.eqb_spec k' k) as [E|E]; intros H.
  - inversion H. subst. left. reflexivity.
  - right. exact (IH H).
Qed.

Lemma in_dget_nodup : forall k v d, NoDup (map fst d) -> In (k, v) d -> dget k d = Some v.
Proof.
  intros k v d. induction d as [|[k' v'] t IH]; cbn [dget map fst]; intros Hnd Hin; [contradiction|].
  inversion Hnd as [|x l Hnotin Hnd']. subst.
  destruct Hin as [Hin|Hin].
  - inversion Hin. subst. rewrite Z.eqb_refl. reflexivity.
  - destruct (Z.eqb_spec k' k) as [E|E].
    + subst k'. exfalso. apply Hnotin. apply (in_map fst) in Hin. exact Hin.
    + exact (IH Hnd' Hin).
Qed.

(* ------------------------------------------------------------------ *)
(* frame vocabulary *)

(* e' is e with only the keys of [owned e] touched: id, timestamp, duration equal, and the
   rest of the dict equal as a list (same keys, same values, same relative order) *)
Definition frame_ev (owned : cevent -> list Z) (e e' : cevent) : Prop :=
  c_eid e' = c_eid e /\ c_ts e' = c_ts e /\ c_dur e' = c_dur e /\
  others (owned e) (c_data e') = others (owned e) (c_data e).

Definition frame (owned : cevent -> list Z) (es es' : list cevent) : Prop :=
  Forall2 (frame_ev owned) es es'.

(* what [frame] says, spelled out: same number of events, in the same order (position by
   position), same ids / timestamps / durations, and every key outside the owned ones
   reads the same *)
Lemma frame_unfold : forall owned es es',
  frame owned es es' ->
  length es' = length es /\
  map c_eid es' = map c_eid es /\ map c_ts es' = map c_ts es /\ map c_dur es' = map c_dur es /\
  (forall i e e', nth_error es i = Some e -> nth_error es' i = Some e' ->
     others (owned e) (c_data e') = others (owned e) (c_data e) /\
     forall k, ~ In k (owned e) -> dget k (c_data e') = dget k (c_data e)).
Proof.
  intros owned es es' H. induction H as [|e e' es es' Hee Hrest IH].
  - split; [reflexivity|]. split; [reflexivity|]. split; [reflexivity|]. split; [reflexivity|].
    intros i x x' H1. destruct i; discriminate.
  - destruct IH as (Hl & Hi & Ht & Hd & Hn). destruct Hee as (Ei & Et & Ed & Eo).
    cbn [length map].
    split; [congruence|]. split; [congruence|]. split; [congruence|]. split; [congruence|].
    intros i x x' H1 H2. destruct i as [|i]; cbn [nth_error] in H1, H2.
    + inversion H1. inversion H2. subst. split; [exact Eo|].
      intros k Hk. exact (others_eq_dget _ _ _ Eo k Hk).
    + exact (Hn i x x' H1 H2).
Qed.

Lemma frame_map : forall owned (f : cevent -> cevent),
  (forall e, frame_ev owned e (f e)) -> forall es, frame owned es (map f es).
Proof.
  intros owned f Hf es. induction es as [|e t IH]; cbn [map]; constructor; auto.
Qed.

Lemma map_res_ok : forall {A B} (f : A -> res B) l l',
  map_res f l = Ok l' -> Forall2 (fun x y => f x = Ok y) l l'.
Proof.
  intros A B f l. induction l as [|x t IH]; cbn [map_res]; intros l' H.
  - inversion H. constructor.
  - destruct (f x) as [y| |] eqn:Fx; cbn [bind] in H; try discriminate.
    destruct (map_res f t) as [r| |] eqn:Ft; cbn [bind] in H; try discriminate.
    inversion H. subst. constructor; [exact Fx|]. apply IH. reflexivity.
Qed.

Lemma map_res_ok_iff : forall {A B} (f : A -> res B) l,
  (exists l', map_res f l = Ok l') <-> (forall x, In x l -> exists y, f x = Ok y).
Proof.
  intros A B f l. induction l as [|x t IH]; cbn [map_res].
  - split; [intros _ x []|intros _; eexists; reflexivity].
  - split.
    + intros [l' H]. destruct (f x) as [y| |] eqn:Fx; cbn [bind] in H; try discriminate.
      destruct (map_res f t) as [r| |] eqn:Ft; cbn [bind] in H; try discriminate.
      intros z [Hz|Hz]; [subst; eauto|]. apply (proj1 IH); eauto.
    + intros H. destruct (H x (or_introl eq_refl)) as [y Fx]. rewrite Fx. cbn [bind].
      destruct (proj2 IH (fun z Hz => H z (or_intror Hz))) as [r Ft]. rewrite Ft. cbn [bind].
      eexists; reflexivity.
Qed.

(* the first element on which f raises decides what map_res raises *)
Lemma map_res_first_err : forall {A B} (f : A -> res B) l1 x l2 c,
  (forall a, In a l1 -> exists b, f a = Ok b) -> f x = Err c ->
  map_res f (l1 ++ x :: l2) = Err c.
Proof.
  intros A B f l1 x l2 c. induction l1 as [|a t IH]; intros Hok Hx; cbn [app map_res].
  - rewrite Hx. reflexivity.
  - destruct (Hok a (or_introl eq_refl)) as [b Hb]. rewrite Hb. cbn [bind].
    rewrite IH; [reflexivity| |exact Hx]. intros a' Ha'. apply Hok. right. exact Ha'.
Qed.

Lemma frame_map_res : forall owned (f : cevent -> res cevent),
  (forall e e', f e = Ok e' -> frame_ev owned e e') ->
  forall es es', map_res f es = Ok es' -> frame owned es es'.
Proof.
  intros owned f Hf es es' H. apply map_res_ok in H.
  induction H; constructor; auto.
Qed.

(* ------------------------------------------------------------------ *)
(* Rule.match *)

(* the values Rule.match looks at: with a non-empty select_keys the values of those keys
   that are present, otherwise every value of the dict *)
Definition selected (sel : option (list Z)) (d : dict) (v : value) : Prop :=
  match sel with
  | Some (k :: ks) => exists key, In key (k :: ks) /\ dget key d = Some v
  | _ => In v (dvalues d)
  end.

Lemma rule_match_iff : forall re spec d,
  rule_match re (rule_init spec) d = true <->
  exists p, s_regex spec = Some p /\ p <> S_empty /\
    exists s, selected (s_select spec) d (VStr s) /\ re p (s_icase spec) s = true.
Proof.
  intros re spec d. unfold rule_match, rule_init. cbn [r_regex r_select r_icase].
  destruct (s_regex spec) as [p|].
  2:{ split; [discriminate|]. intros (p & H & _). discriminate. }
  unfold str_truthy. destruct (Z.eqb_spec p S_empty) as [E|E]; cbn [negb].
  { split; [discriminate|]. intros (p' & H & Hne & _). inversion H. congruence. }
  rewrite existsb_exists. unfold rule_values. cbn [r_select]. split.
  - intros (val & Hin & Hhit). exists p. split; [reflexivity|]. split; [exact E|].
    destruct val as [[s| |]|]; cbn [val_hit] in Hhit; try discriminate.
    exists s. split; [|exact Hhit].
    unfold selected. destruct (s_select spec) as [[|k ks]|]; cbn [optlist_truthy optlist_items] in *.
    + apply in_map_iff in Hin. destruct Hin as (v & Hv & Hin). inversion Hv. subst. exact Hin.
    + apply in_map_iff in Hin. destruct Hin as (key & Hk & Hin). exists key. split; assumption.
    + apply in_map_iff in Hin. destruct Hin as (v & Hv & Hin). inversion Hv. subst. exact Hin.
  - intros (p' & Hp & _ & s & Hsel & Hre). inversion Hp. subst p'.
    exists (Some (VStr s)). split; [|exact Hre].
    unfold selected in Hsel.
    destruct (s_select spec) as [[|k ks]|]; cbn [optlist_truthy optlist_items].
    + apply in_map_iff. exists (VStr s). split; [reflexivity|exact Hsel].
    + destruct Hsel as (key & Hk & Hg). apply in_map_iff. exists key. split; assumption.
    + apply in_map_iff. exists (VStr s). split; [reflexivity|exact Hsel].
Qed.

(* ------------------------------------------------------------------ *)
(* the matching classes, in rule order *)

Inductive picks {C : Type} (P : rule -> bool) : list (C * rule) -> list C -> Prop :=
  | picks_nil : picks P [] []
  | picks_hit : forall c r cl l, P r = true -> picks P cl l -> picks P ((c, r) :: cl) (c :: l)
  | picks_miss : forall c r cl l, P r = false -> picks P cl l -> picks P ((c, r) :: cl) l.

Lemma matching_picks : forall {C} re (classes : list (C * rule)) d,
  picks (fun r => rule_match re r d) classes (matching re classes d).
Proof.
  intros C re classes d. unfold matching.
  induction classes as [|[c r] t IH]; cbn [filter map fst snd].
  - constructor.
  - destruct (rule_match re r d) eqn:E; cbn [map fst].
    + apply picks_hit; assumption.
    + apply picks_miss; assumption.
Qed.

Lemma picks_functional : forall {C} P (classes : list (C * rule)) l1 l2,
  picks P classes l1 -> picks P classes l2 -> l1 = l2.
Proof.
  intros C P classes l1 l2 H1. revert l2.
  induction H1 as [|c r cl l Hp H1 IH|c r cl l Hp H1 IH]; intros l2 H2; inversion H2; subst;
    try congruence.
  - f_equal. apply IH. assumption.
  - apply IH. assumption.
Qed.

Lemma matching_in : forall {C} re (classes : list (C * rule)) d c,
  In c (matching re classes d) <-> exists r, In (c, r) classes /\ rule_match re r d = true.
Proof.
  intros C re classes d c. unfold matching. rewrite in_map_iff. split.
  - intros ([c' r] & E & Hin). cbn [fst] in E. subst c'. apply filter_In in Hin.
    destruct Hin as [Hin Hm]. exists r. split; assumption.
  - intros (r & Hin & Hm). exists (c, r). split; [reflexivity|]. apply filter_In. split; assumption.
Qed.

Lemma matching_app : forall {C} re (l1 l2 : list (C * rule)) d,
  matching re (l1 ++ l2) d = matching re l1 d ++ matching re l2 d.
Proof. intros. unfold matching. rewrite filter_app, map_app. reflexivity. Qed.

(* a decomposition of the matching list comes from a decomposition of the rule list *)
Lemma matching_split : forall {C} re (classes : list (C * rule)) d m1 c m2,
  matching re classes d = m1 ++ c :: m2 ->
  exists k1 r k2, classes = k1 ++ (c, r) :: k2 /\ rule_match re r d = true /\
                  matching re k1 d = m1 /\ matching re k2 d = m2.
Proof.
  intros C re classes d. induction classes as [|[c0 r0] t IH]; intros m1 c m2 H.
  - destruct m1; discriminate.
  - unfold matching in H. cbn [filter snd] in H. destruct (rule_match re r0 d) eqn:E.
    + cbn [map fst] in H. destruct m1 as [|x m1].
      * cbn [app] in H. inversion H. subst. exists [], r0, t. repeat split; try reflexivity. exact E.
      * cbn [app] in H. inversion H. subst x.
        destruct (IH m1 c m2 H2) as (k1 & r & k2 & Hc & Hm & H1' & H2').
        exists ((c0, r0) :: k1), r, k2. subst t. repeat split; try assumption.
        unfold matching. cbn [filter snd]. rewrite E. cbn [map fst]. f_equal. exact H1'.
    + destruct (IH m1 c m2 H) as (k1 & r & k2 & Hc & Hm & H1' & H2').
      exists ((c0, r0) :: k1), r, k2. subst t. repeat split; try assumption.
      unfold matching. cbn [filter snd]. rewrite E. exact H1'.
Qed.

(* ------------------------------------------------------------------ *)
(* _pick_category *)

Definition clen (c : category) : Z := Z.of_nat (length c).

Lemma pick_deepest_cases : forall acc c,
  (clen acc <= clen c /\ pick_deepest_cat acc c = c) \/
  (clen c < clen acc /\ pick_deepest_cat acc c = acc).
Proof.
  intros acc c. unfold pick_deepest_cat. fold (clen c). fold (clen acc).
  destruct (clen c >=? clen acc) eqn:E; [left|right]; split; try reflexivity; lia.
Qed.

Definition fold_spec (cats : list category) (acc r : category) : Prop :=
  (r = acc /\ forall c, In c cats -> clen c < clen acc) \/
  (exists l1 l2, cats = l1 ++ r :: l2 /\ clen acc <= clen r /\
                 (forall c, In c l1 -> clen c <= clen r) /\
                 (forall c, In c l2 -> clen c < clen r)).

Lemma pick_fold_spec : forall cats acc,
  fold_spec cats acc (fold_left pick_deepest_cat cats acc).
Proof.
  induction cats as [|c t IH]; intros acc; cbn [fold_left].
  - left. split; [reflexivity|]. intros c [].
  - specialize (IH (pick_deepest_cat acc c)).
    destruct (pick_deepest_cases acc c) as [[Hge Hp]|[Hlt Hp]]; rewrite Hp in *;
      remember (fold_left pick_deepest_cat t _) as r eqn:Heqr; clear Heqr; unfold fold_spec in *.
    + right. destruct IH as [[Hr Hall]|(l1 & l2 & Hc & Hle & H1 & H2)].
      * exists [], t. rewrite Hr. split; [reflexivity|]. split; [exact Hge|].
        split; [intros x []|exact Hall].
      * exists (c :: l1), l2. split; [cbn [app]; f_equal; exact Hc|]. split; [lia|].
        split; [|exact H2]. intros x [Hx|Hx]; [subst; exact Hle|exact (H1 x Hx)].
    + destruct IH as [[Hr Hall]|(l1 & l2 & Hc & Hle & H1 & H2)].
      * left. split; [exact Hr|]. intros x [Hx|Hx]; [subst; lia|exact (Hall x Hx)].
      * right. exists (c :: l1), l2. split; [cbn [app]; f_equal; exact Hc|]. split; [exact Hle|].
        split; [|exact H2]. intros x [Hx|Hx]; [subst; lia|exact (H1 x Hx)].
Qed.

(* c is the last element of maximal length of l *)
Definition last_deepest (l : list category) (c : category) : Prop :=
  exists l1 l2, l = l1 ++ c :: l2 /\
    (forall x, In x l1 -> (length x <= length c)%nat) /\
    (forall x, In x l2 -> (length x < length c)%nat).

Lemma pick_category_nonempty : forall cats,
  (exists c, In c cats /\ c <> []) -> last_deepest cats (pick_category cats).
Proof.
  intros cats (c & Hin & Hne). unfold pick_category.
  destruct (pick_fold_spec cats uncategorized) as [[_ Hall]|(l1 & l2 & Hc & _ & H1 & H2)].
  - exfalso. specialize (Hall c Hin). unfold clen, uncategorized in Hall. cbn [length] in Hall.
    destruct c; [congruence|cbn [length] in Hall; lia].
  - exists l1, l2. split; [exact Hc|]. unfold clen in *. split; intros x Hx.
    + specialize (H1 x Hx). lia.
    + specialize (H2 x Hx). lia.
Qed.

Lemma pick_category_all_empty : forall cats,
  (forall c, In c cats -> c = []) -> pick_category cats = uncategorized.
Proof.
  intros cats Hall. unfold pick_category.
  destruct (pick_fold_spec cats uncategorized) as [[Hr _]|(l1 & l2 & Hc & Hle & _ & _)].
  - exact Hr.
  - exfalso. assert (Hin : In (fold_left pick_deepest_cat cats uncategorized) cats).
    { rewrite Hc at 2. apply in_or_app. right. left. reflexivity. }
    apply Hall in Hin. rewrite Hin in Hle. unfold clen, uncategorized in Hle. cbn [length] in Hle. lia.
Qed.

(* the decomposition is unique: "the last of the deepest" names one position *)
Lemma last_deepest_unique_length : forall l c c',
  last_deepest l c -> last_deepest l c' -> length c = length c'.
Proof.
  intros l c c' (a1 & a2 & Ha & Ha1 & Ha2) (b1 & b2 & Hb & Hb1 & Hb2).
  assert (Hc : In c l) by (rewrite Ha; apply in_or_app; right; left; reflexivity).
  assert (Hc' : In c' l) by (rewrite Hb; apply in_or_app; right; left; reflexivity).
  assert (L1 : (length c' <= length c)%nat).
  { rewrite Ha in Hc'. apply in_app_or in Hc'. destruct Hc' as [H|[H|H]].
    - exact (Ha1 _ H). - subst; lia. - specialize (Ha2 _ H); lia. }
  assert (L2 : (length c <= length c')%nat).
  { rewrite Hb in Hc. apply in_app_or in Hc. destruct Hc as [H|[H|H]].
    - exact (Hb1 _ H). - subst; lia. - specialize (Hb2 _ H); lia. }
  lia.
Qed.
