(* Corollaries of the heap-level theorems in the form the property files state them:
   what an old location denotes is unchanged ([framed_content], [framed_list_at]);
   everything the result reaches is new ([framed_result_fresh]); the refinements combined
   with the totality theorems of the functional models; one transfer of an existing
   property theorem to the heap level; concrete heaps for the non-vacuity examples. *)
From AwVerif Require Import Base.Prelude Model.MemHeap Model.Timeslot Model.TransformHeap
  Model.Flood Model.UnionNoOverlap Model.Intersect
  Proofs.MemHeapBase Proofs.MemHeapCopy Proofs.MemHeapFrame
  Proofs.TransformHeapCopy Proofs.TransformHeapBase Proofs.TransformHeapFlood
  Proofs.TransformHeapUnion Proofs.TransformHeapIntersect
  Proofs.FloodStep Proofs.FloodWalk Proofs.UnionNoOverlapProofs Proofs.IntersectProofs Proofs.IntersectUnion.
From Coq Require Import Arith Relations.
Local Open Scope nat_scope.

(* ------------------------------------------------------------------------- *)
(* the frame, read on values *)

Lemma framed_content : forall h0 h r f, framed h0 h -> closed h0 -> r < length h0 ->
  content f h r = content f h0 r.
Proof.
  intros h0 h r f F C B.
  apply (frame_content h0 h [] [r] C (framed_confined _ _ F)).
  - intros x [<-|[]]. exact B.
  - intros l (a & [] & _) _.
  - apply reach_root. left. reflexivity.
Qed.

Lemma framed_ev_at : forall h0 h l v, framed h0 h -> ev_at h0 l = Some v -> ev_at h l = Some v.
Proof.
  intros h0 h l [i t d p] (G & P & _) H. destruct (ev_at_inv _ _ _ H) as (dl & ks & L & D). cbn in L, D.
  eapply ev_at_intro; rewrite P; eauto; eapply lookup_lt; eauto.
Qed.

(* an argument list (and any other list of events that existed) reads after the call
   exactly as before it *)
Lemma framed_list_at : forall h0 h L vs, framed h0 h -> list_at h0 L = Some vs -> list_at h L = Some vs.
Proof.
  intros h0 h L vs F H. destruct (list_at_inv _ _ _ H) as (p & ks & LL & EV).
  unfold list_at. pose proof F as (G & P & FC). rewrite P by (eapply lookup_lt; eauto). rewrite LL.
  apply evs_at_Forall2. apply evs_at_Forall2 in EV.
  clear H LL. induction EV; constructor; auto. eapply framed_ev_at; [exact F|assumption].
Qed.

Lemma framed_result_fresh : forall h0 h L l, framed h0 h -> length h0 <= L -> rt h L l -> length h0 <= l.
Proof. intros. eapply framed_reach_fresh; eauto. Qed.

(* deepcopy's memo is a bijection between the objects it copied and their copies: two
   references in the copy are the same object exactly when the originals were *)
Theorem deepcopy_memo_bijective : forall h l h' m l',
  wf h -> deepcopy_memo h l = Ok (h', m, l') ->
  forall a a' b b', In (a, a') m -> In (b, b') m -> (a = b <-> a' = b').
Proof.
  intros h l h' m l' W H a a' b b' Ia Ib.
  pose proof (deepcopy_memo_fun _ _ _ _ _ W H) as FU.
  pose proof (cp_inj _ _ _ _ _ (deepcopy_memo_spec _ _ _ _ _ H)) as INJ.
  split; intro; subst; [eapply FU|eapply INJ]; eauto.
Qed.

(* ------------------------------------------------------------------------- *)
(* refinement + totality of the functional models *)

Theorem uno_h_total : forall h L1 L2 vs1 vs2,
  wf h -> list_at h L1 = Some vs1 -> list_at h L2 = Some vs2 ->
  exists h' L' r, union_no_overlap_h h L1 L2 = Ok (h', L') /\ list_at h' L' = Some r /\
                  union_no_overlap vs1 vs2 = Ok r.
Proof.
  intros h L1 L2 vs1 vs2 W A1 A2. pose proof (uno_h_refines h L1 L2 vs1 vs2 W A1 A2) as R.
  destruct (union_no_overlap_total vs1 vs2) as (r & E). rewrite E in R.
  destruct R as (h' & L' & H & LA). eauto 6.
Qed.

Theorem fpi_h_total : forall h L1 L2 vs1 vs2,
  wf h -> list_at h L1 = Some vs1 -> list_at h L2 = Some vs2 ->
  exists h' L' r, filter_period_intersect_h h L1 L2 = Ok (h', L') /\ list_at h' L' = Some r /\
                  filter_period_intersect vs1 vs2 = Ok r.
Proof.
  intros h L1 L2 vs1 vs2 W A1 A2. pose proof (fpi_h_refines h L1 L2 vs1 vs2 W A1 A2) as R.
  destruct (fpi_total vs1 vs2) as (r & E). rewrite E in R.
  destruct R as (h' & L' & H & LA). eauto 6.
Qed.

Theorem pu_h_total : forall h L1 L2 vs1 vs2,
  wf h -> list_at h L1 = Some vs1 -> list_at h L2 = Some vs2 ->
  exists h' L' r, period_union_h h L1 L2 = Ok (h', L') /\ list_at h' L' = Some r /\
                  period_union EMPTY_DICT vs1 vs2 = Ok r.
Proof.
  intros h L1 L2 vs1 vs2 W A1 A2. pose proof (pu_h_refines h L1 L2 vs1 vs2 W A1 A2) as R.
  destruct (pu_total EMPTY_DICT vs1 vs2) as (r & E). rewrite E in R.
  destruct R as (h' & L' & H & LA). eauto 6.
Qed.

(* the arguments of filter_period_intersect read after the call as before it *)
Theorem fpi_h_inputs_unchanged : forall h L1 L2 h' L' vs1 vs2,
  filter_period_intersect_h h L1 L2 = Ok (h', L') ->
  list_at h L1 = Some vs1 -> list_at h L2 = Some vs2 ->
  list_at h' L1 = Some vs1 /\ list_at h' L2 = Some vs2.
Proof.
  intros h L1 L2 h' L' vs1 vs2 H A1 A2. destruct (fpi_h_framed _ _ _ _ _ H) as (F & _).
  split; eapply framed_list_at; eauto.
Qed.

(* one existing property theorem carried over to the heap level (all others transfer the
   same way): C10_out_nonoverlapping_positive *)
Theorem flood_h_out_nonoverlapping_positive : forall h L pt vs,
  wf h -> list_at h L = Some vs ->
  (forall p ks, lookup h L = Some (Cell (TNode p) ks) -> NoDup ks) ->
  flood_domain vs ->
  exists h' L' out, flood_h h L pt = Ok (h', L') /\ list_at h' L' = Some out /\
                    list_at h' L = Some vs /\
                    FloodStep.nonoverlapping out /\ Forall (fun e => (0 < dur e)%Z) out.
Proof.
  intros h L pt vs W LA ND D. destruct (flood_h_refines h L pt vs W LA ND) as (h' & L' & H & R).
  destruct (flood_h_framed _ _ _ _ _ H) as (F & _).
  destruct (flood_nonoverlapping_positive vs pt D) as (N & P).
  exists h', L', (flood vs pt). split; [exact H|]. split; [exact R|]. split; [eapply framed_list_at; eauto|].
  split; [exact N|exact P].
Qed.

(* C10's own domain asks for distinct timestamps; two positions holding the same object read
   the same timestamp, so in that domain the elements are distinct objects whatever else is
   shared, and the refinement needs no hypothesis about aliasing *)
Lemma distinct_ts_distinct_objects : forall h ks vs,
  evs_at h ks = Some vs -> NoDup (map ts vs) -> NoDup ks.
Proof.
  intros h ks vs H. apply evs_at_Forall2 in H. induction H as [|k v ks vs Hk F IH]; cbn [map]; intro ND.
  - constructor.
  - inversion ND as [|? ? NI ND']; subst. constructor; auto.
    intro I. apply NI. clear -F I Hk. induction F as [|k2 v2 ks vs Hk2 F IH]; [destruct I|].
    destruct I as [->|I]; [left; congruence|right; auto].
Qed.

Theorem flood_h_refines_distinct_ts : forall h L pt vs,
  wf h -> list_at h L = Some vs -> NoDup (map ts vs) ->
  exists h' L', flood_h h L pt = Ok (h', L') /\ list_at h' L' = Some (flood vs pt) /\ list_at h' L = Some vs.
Proof.
  intros h L pt vs W LA ND.
  destruct (flood_h_refines h L pt vs W LA) as (h' & L' & H & R).
  { intros p ks LL. unfold list_at in LA. rewrite LL in LA. eapply distinct_ts_distinct_objects; eauto. }
  exists h', L'. split; auto. split; auto.
  destruct (flood_h_framed _ _ _ _ _ H) as (F & _). eapply framed_list_at; eauto.
Qed.

(* ------------------------------------------------------------------------- *)
(* concrete heaps: a heap in which every reference points to an earlier cell is closed
   and acyclic *)

Fixpoint ordered_from (n : nat) (h : heap) : bool :=
  match h with
  | [] => true
  | c :: t => forallb (fun k => Nat.ltb k n) (children c) && ordered_from (S n) t
  end.

Lemma ordered_from_spec : forall h n, ordered_from n h = true ->
  forall l c k, nth_error h l = Some c -> In k (children c) -> k < n + l.
Proof.
  induction h as [|c0 t IH]; intros n H l c k L I; [destruct l; discriminate|].
  cbn [ordered_from] in H. apply andb_true_iff in H. destruct H as [H0 Ht].
  destruct l as [|l]; cbn in L.
  - inversion L; subst. rewrite forallb_forall in H0. specialize (H0 _ I). apply Nat.ltb_lt in H0. lia.
  - specialize (IH _ Ht _ _ _ L I). lia.
Qed.

Lemma ordered_wf : forall h, ordered_from 0 h = true -> wf h.
Proof.
  intros h H.
  assert (O : forall l c k, lookup h l = Some c -> In k (children c) -> k < l).
  { intros l c k L I. apply (ordered_from_spec h 0 H l c k L I). }
  split.
  - intros l c k L I. specialize (O _ _ _ L I). apply lookup_lt in L. lia.
  - assert (T : forall a b, tc h a b -> b < a).
    { intros a b R. induction R as [a b (c & L & I)|a b c _ IH1 _ IH2]; [eapply O; eauto|lia]. }
    intros l R. specialize (T _ _ R). lia.
Qed.

Local Open Scope Z_scope.

(* data dict {..} (label 5) shared by two events a, b; the list [a; b] (location 3); the list
   [a; b; a] (4); an empty list (5) *)
Definition ex_heap : heap :=
  [ Cell (TNode 5) [];
    Cell (TEv (Some 1) 1000 2000 ) [0%nat];
    Cell (TEv (Some 2) 4000 1000) [0%nat];
    Cell (TNode EVENT_LIST) [1%nat; 2%nat];
    Cell (TNode EVENT_LIST) [1%nat; 2%nat; 1%nat];
    Cell (TNode EVENT_LIST) [] ].

Lemma ex_heap_wf : wf ex_heap.
Proof. apply ordered_wf. reflexivity. Qed.
