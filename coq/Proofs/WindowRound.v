(* C03 -- Bucket.get's rounding of the window (Model/Window.v) in closed form:
   start |-> floor to the millisecond, end |-> floor to the millisecond + 1 ms of the UTC
   instant, for EVERY utcoffset (bucket_round_tz_closed: since 49e3288 the code converts an
   aware edge to UTC before rounding).  The rounding arithmetic on a reading at offset off
   (round_start_tz / round_end_tz, what the code did before on the local reading) floors on
   that reading's clock: the same instants for whole-millisecond offsets only.
   Pure integer arithmetic. *)
From Coq Require Import ZifyBool.
From AwVerif Require Import Base.Prelude Model.StoreBase Model.Window.

Lemma mod_1000_of_field : forall x, (x mod 1000000) mod 1000 = x mod 1000.
Proof.
  intros x. replace 1000000 with (1000 * 1000) by reflexivity.
  rewrite Z.rem_mul_r by lia.
  rewrite (Z.mul_comm 1000 ((x / 1000) mod 1000)), Z.mod_add by lia. apply Z.mod_mod. lia.
Qed.

Lemma field_split : forall f, f = 1000 * (f / 1000) + f mod 1000.
Proof. intros. apply Z.div_mod. lia. Qed.

Lemma round_start_tz_closed : forall utc off,
  round_start_tz utc off = utc - (utc + off) mod 1000.
Proof.
  intros utc off. unfold round_start_tz, replace_us, us_field.
  set (f := (utc + off) mod 1000000).
  pose proof (field_split f) as D. pose proof (mod_1000_of_field (utc + off)) as M.
  fold f in M. lia.
Qed.

Lemma round_end_tz_closed : forall utc off,
  round_end_tz utc off = utc - (utc + off) mod 1000 + 1000.
Proof.
  intros utc off. unfold round_end_tz, replace_us, us_field.
  set (f := (utc + off) mod 1000000).
  assert (F : 0 <= f < 1000000) by (apply Z.mod_pos_bound; lia).
  pose proof (field_split f) as D. pose proof (mod_1000_of_field (utc + off)) as M.
  fold f in M. rewrite <- M.
  pose proof (Z.mod_pos_bound f 1000 ltac:(lia)) as B.
  assert (Q : 0 <= f / 1000 < 1000) by (split; [apply Z.div_pos; lia | apply Z.div_lt_upper_bound; lia]).
  set (q := f / 1000) in *.
  destruct (Z.eq_dec q 999) as [E|E].
  - rewrite E. change ((1 + 999) / 1000) with 1. change ((1000 * (1 + 999)) mod 1000000) with 0. lia.
  - rewrite (Z.div_small (1 + q) 1000) by lia.
    rewrite (Z.mod_small (1000 * (1 + q)) 1000000) by lia. lia.
Qed.

Lemma floor_ms_mod : forall t, floor_ms t = t - t mod 1000.
Proof. intros. unfold floor_ms. pose proof (Z.div_mod t 1000). lia. Qed.

Theorem round_start_closed : forall t, round_start t = floor_ms t.
Proof. intros. unfold round_start. rewrite round_start_tz_closed, floor_ms_mod, Z.add_0_r. reflexivity. Qed.

Theorem round_end_closed : forall t, round_end t = floor_ms t + 1000.
Proof. intros. unfold round_end. rewrite round_end_tz_closed, floor_ms_mod, Z.add_0_r. reflexivity. Qed.

Theorem bucket_get_round_closed : forall ws we,
  bucket_get_round ws we =
  (option_map floor_ms ws, option_map (fun t => floor_ms t + 1000) we).
Proof.
  intros [ws|] [we|]; unfold bucket_get_round; cbn [option_map];
    rewrite ?round_start_closed, ?round_end_closed; reflexivity.
Qed.

(* every whole-millisecond utcoffset (all IANA zones: whole minutes, historically whole
   seconds) gives the same UTC instants as offset 0 *)
Theorem round_tz_whole_ms : forall utc off, off mod 1000 = 0 ->
  round_start_tz utc off = round_start utc /\ round_end_tz utc off = round_end utc.
Proof.
  intros utc off H. unfold round_start, round_end.
  rewrite !round_start_tz_closed, !round_end_tz_closed, Z.add_0_r.
  assert (E : (utc + off) mod 1000 = utc mod 1000).
  { rewrite Z.add_mod by lia. rewrite H, Z.add_0_r. apply Z.mod_mod. lia. }
  rewrite E. split; reflexivity.
Qed.

(* any utcoffset: the start moves down by less than 1 ms, the end up by at most 1 ms and by
   at least 1 us *)
Theorem round_tz_bounds : forall utc off,
  utc - 1000 < round_start_tz utc off <= utc /\ utc < round_end_tz utc off <= utc + 1000.
Proof.
  intros utc off. rewrite round_start_tz_closed, round_end_tz_closed.
  pose proof (Z.mod_pos_bound (utc + off) 1000 ltac:(lia)). lia.
Qed.

(* the code (UTC reading first): every utcoffset, closed form on the instant *)
Theorem bucket_round_tz_instant : forall utc off,
  bucket_round_start_tz utc off = round_start utc /\ bucket_round_end_tz utc off = round_end utc.
Proof. intros. split; reflexivity. Qed.

Theorem bucket_round_tz_closed : forall utc off,
  bucket_round_start_tz utc off = floor_ms utc /\ bucket_round_end_tz utc off = floor_ms utc + 1000.
Proof.
  intros utc off. destruct (bucket_round_tz_instant utc off) as [-> ->].
  now rewrite round_start_closed, round_end_closed.
Qed.

(* sensitivity: rounding on the local reading (the code before 49e3288) is NOT a function of the
   instant alone once the offset is not a whole millisecond ... *)
Lemma round_tz_sub_ms_differs :
  round_start_tz 1600000000000600 500 <> round_start 1600000000000600 /\
  round_end_tz 1600000000000600 500 <> round_end 1600000000000600.
Proof. split; vm_compute; discriminate. Qed.

(* ... and the old end rounding of an edge in the second reading of a repeated wall-clock hour
   lands one offset change early: exactly off0 - off1 before the present result *)
Theorem old_round_end_fold_early : forall utc off1 off0, off1 mod 1000 = 0 ->
  old_round_end_fold utc off1 off0 = bucket_round_end_tz utc off1 - (off0 - off1).
Proof.
  intros utc off1 off0 H. unfold old_round_end_fold.
  destruct (round_tz_whole_ms utc off1 H) as [_ ->].
  destruct (bucket_round_tz_instant utc off1) as [_ ->]. lia.
Qed.

Lemma floor_ms_bounds : forall t, t - 1000 < floor_ms t <= t.
Proof. intros. rewrite floor_ms_mod. pose proof (Z.mod_pos_bound t 1000 ltac:(lia)). lia. Qed.

Lemma floor_ms_idem : forall t, floor_ms (floor_ms t) = floor_ms t.
Proof.
  intros. unfold floor_ms at 1 3. f_equal. unfold floor_ms.
  rewrite Z.mul_comm, Z.div_mul by lia. reflexivity.
Qed.

Lemma floor_ms_aligned : forall t, t mod 1000 = 0 -> floor_ms t = t.
Proof. intros. rewrite floor_ms_mod. lia. Qed.

Lemma floor_ms_mod_0 : forall t, floor_ms t mod 1000 = 0.
Proof. intros. unfold floor_ms. rewrite Z.mul_comm. apply Z.mod_mul. lia. Qed.
