(* Peewee back end: what each statement does to the ADDRESSED bucket's view, the
   abstraction to the reference state, and the refinement of the reference list model. *)
From Coq Require Import Permutation Sorted ZifyBool.
From AwVerif Require Import Base.Prelude Model.StoreBase Model.PeeweeStore Model.StoreSpec
  Proofs.StoreBaseFacts Proofs.StoreMoreFacts Proofs.StoreMemProofs Proofs.StoreMemRefine
  Proofs.StoreSpecFacts Proofs.StorePeeweeProofs.

(* ---------- rows and events ---------- *)
Definition cells (r : perow) (e : event) : perow :=
  mkPerow (pe_id r) (pe_bucket r) (ts e) (dur e) (data e).

Lemma prow_event_cells : forall r e, prow_event (cells r e) = set_eid e (Some (pe_id r)).
Proof. reflexivity. Qed.

Lemma map_prow_event_replace : forall i e (f : perow -> perow) X,
  (forall r, prow_event (f r) = set_eid e (Some (pe_id r))) ->
  map prow_event (update_where (fun r => pe_id r =? i) f X) = spec_replace i e (map prow_event X).
Proof.
  intros i e f X Hf. unfold update_where, spec_replace. induction X as [|r t IH]; [reflexivity|].
  cbn [map]. rewrite IH. f_equal. change (has_id i (prow_event r)) with (pe_id r =? i).
  destruct (pe_id r =? i) eqn:E; [|reflexivity]. rewrite Hf. f_equal. f_equal. lia.
Qed.

Lemma map_prow_event_delete : forall i X,
  map prow_event (delete_where (fun r => pe_id r =? i) X) = spec_delete i (map prow_event X).
Proof.
  unfold delete_where, spec_delete. induction X as [|r t IH]; [reflexivity|]. cbn.
  destruct (pe_id r =? i); cbn; now rewrite IH.
Qed.

Lemma live_ids_prows : forall X, live_ids (map prow_event X) = map pe_id X.
Proof. induction X as [|r t IH]; [reflexivity|]. rewrite map_cons, live_ids_cons. cbn. now rewrite IH. Qed.

(* ---------- the addressed bucket ---------- *)
Definition prows_of (c : pwstate) (k : Z) : list perow :=
  filter (fun e => pe_bucket e =? k) (pw_events c).

Lemma pw_view_Some : forall c b m es,
  pw_Inv c -> pw_view c b = Some (m, es) ->
  exists r, pbucket_row c b = Some r /\ In r (pw_buckets c) /\ pb_id r = b /\ m = pb_meta r /\
            es = map prow_event (prows_of c (pb_key r)) /\ pw_key c b = Some (pb_key r).
Proof.
  intros c b m es I H. rewrite pw_view_row in H.
  destruct (pbucket_row c b) as [r|] eqn:Hr; [|discriminate]. inversion H; subst. exists r.
  destruct (pbucket_row_In c b r Hr) as [Ir Eid]. repeat split; try assumption; try reflexivity.
  unfold pw_key. rewrite (pwi_cache c I), aget_cache. unfold pbucket_row in Hr. now rewrite Hr.
Qed.

Lemma pw_view_None_key : forall c b, pw_Inv c -> pw_view c b = None -> pw_key c b = None.
Proof.
  intros c b I H. rewrite pw_view_row in H. unfold pw_key. rewrite (pwi_cache c I), aget_cache.
  unfold pbucket_row in H. now destruct (find _ (pw_buckets c)).
Qed.

(* a statement that leaves bucketmodel alone: the view of b through its row *)
Lemma pw_view_with_events : forall c es b r,
  pbucket_row c b = Some r ->
  pw_view (pw_with_events c es) b
  = Some (pb_meta r, map prow_event (filter (fun e => pe_bucket e =? pb_key r) es)).
Proof. intros c es b r H. rewrite pw_view_row. unfold pbucket_row in *. cbn. now rewrite H. Qed.

(* e.save() on a fetched row of this bucket = replace-by-id on the bucket's list *)
Lemma pw_view_save_event : forall c b m es r0 e,
  pw_Inv c -> pw_view c b = Some (m, es) -> In r0 (pw_events c) -> pw_key c b = Some (pe_bucket r0) ->
  pw_view (pw_save_event c (mkPerow (pe_id r0) (pe_bucket r0) (ts e) (dur e) (data e))) b
  = Some (m, spec_replace (pe_id r0) e es).
Proof.
  intros c b m es r0 e I V I0 K. apply pw_view_Some in V as [r [Hr [Ir [Eid [-> [-> Kr]]]]]]; [|assumption].
  assert (Ek : pe_bucket r0 = pb_key r) by congruence.
  unfold pw_save_event. rewrite (pw_view_with_events _ _ _ _ Hr). f_equal. f_equal. cbn [pe_id pe_bucket pe_ts pe_dur pe_data].
  rewrite filter_update_where_comm_in.
  - apply map_prow_event_replace. reflexivity.
  - intros x Ix Q. cbn. assert (x = r0).
    { eapply NoDup_map_inj; [apply (pwi_eids c I)|assumption|assumption|lia]. }
    subst x. reflexivity.
Qed.

(* DELETE ... WHERE id = ? AND bucket_id = ? *)
Lemma pw_view_delete_event : forall c b m es i k,
  pw_Inv c -> pw_view c b = Some (m, es) -> pw_key c b = Some k ->
  pw_view (fst (pw_delete_event c k i)) b = Some (m, spec_delete i es).
Proof.
  intros c b m es i k I V K. apply pw_view_Some in V as [r [Hr [Ir [Eid [-> [-> Kr]]]]]]; [|assumption].
  assert (k = pb_key r) by congruence. subst k.
  unfold pw_delete_event. cbn [fst]. rewrite (pw_view_with_events _ _ _ _ Hr). f_equal. f_equal.
  rewrite filter_delete_where_comm. rewrite <- map_prow_event_delete. f_equal.
  apply delete_where_ext_in. intros x Hx. apply In_filter_all in Hx. rewrite Hx. apply andb_true_r.
Qed.

Lemma pw_delete_event_count : forall c b m es i k,
  pw_Inv c -> pw_view c b = Some (m, es) -> pw_key c b = Some k ->
  (0 <? snd (pw_delete_event c k i)) = (if in_dec Z.eq_dec i (live_ids es) then true else false).
Proof.
  intros c b m es i k I V K. apply pw_view_Some in V as [r [Hr [Ir [Eid [-> [-> Kr]]]]]]; [|assumption].
  assert (k = pb_key r) by congruence. subst k. unfold pw_delete_event, rowcount. cbn [snd].
  rewrite live_ids_prows. destruct (in_dec _ _ _) as [L|L].
  - apply in_map_iff in L as [x [Ex Ix]]. unfold prows_of in Ix. apply filter_In in Ix as [Ix Bx].
    assert (In x (filter (fun r0 => (pe_id r0 =? i) && (pe_bucket r0 =? pb_key r)) (pw_events c))).
    { apply filter_In. split; [assumption|lia]. }
    destruct (filter _ (pw_events c)); [destruct H|]. cbn [length]. lia.
  - destruct (filter _ (pw_events c)) as [|y t] eqn:F; [reflexivity|]. exfalso. apply L.
    assert (Iy : In y (y :: t)) by now left. rewrite <- F in Iy. apply filter_In in Iy as [Iy Q].
    apply in_map_iff. exists y. split; [lia|]. unfold prows_of. apply filter_In. split; [assumption|lia].
Qed.

(* INSERT with a fresh rowid *)
Lemma pw_view_insert_event : forall c b m es k e,
  pw_Inv c -> pw_view c b = Some (m, es) -> pw_key c b = Some k ->
  pw_view (fst (pw_insert_event c k e)) b
  = Some (m, es ++ [set_eid e (Some (new_rowid (map pe_id (pw_events c))))]) /\
  ~ is_live (new_rowid (map pe_id (pw_events c))) es.
Proof.
  intros c b m es k e I V K. apply pw_view_Some in V as [r [Hr [Ir [Eid [-> [-> Kr]]]]]]; [|assumption].
  assert (k = pb_key r) by congruence. subst k. split.
  - unfold pw_insert_event. cbn [fst]. rewrite (pw_view_with_events _ _ _ _ Hr). f_equal. f_equal.
    rewrite filter_app, map_app. cbn. rewrite Z.eqb_refl. reflexivity.
  - unfold is_live. rewrite live_ids_prows. intro L. apply (new_rowid_fresh (map pe_id (pw_events c))).
    apply in_map_iff in L as [x [Ex Ix]]. unfold prows_of in Ix. apply filter_In in Ix as [Ix _].
    rewrite <- Ex. now apply in_map.
Qed.

(* the row a live id of this bucket selects *)
Lemma pw_select_event_live : forall c b m es k i,
  pw_Inv c -> pw_view c b = Some (m, es) -> pw_key c b = Some k -> is_live i es ->
  exists r0, pw_select_event c k i = Some r0.
Proof.
  intros c b m es k i I V K L. apply pw_view_Some in V as [r [Hr [Ir [Eid [-> [-> Kr]]]]]]; [|assumption].
  assert (k = pb_key r) by congruence. subst k. unfold is_live in L. rewrite live_ids_prows in L.
  apply in_map_iff in L as [x [Ex Ix]]. unfold prows_of in Ix. apply filter_In in Ix as [Ix Bx].
  unfold pw_select_event. eapply find_exists; [eassumption|]. lia.
Qed.

Lemma pw_select_event_none : forall c b m es k i,
  pw_Inv c -> pw_view c b = Some (m, es) -> pw_key c b = Some k ->
  pw_select_event c k i = None -> ~ is_live i es.
Proof.
  intros c b m es k i I V K N L. destruct (pw_select_event_live c b m es k i I V K L). congruence.
Qed.

(* replace on a live id *)
Lemma pw_replace_live : forall c b m es i e,
  pw_Inv c -> pw_view c b = Some (m, es) -> is_live i es ->
  exists c', pw_replace c b i e = (c', Ok (OEvent (Some (set_eid e (Some i))))) /\
             pw_view c' b = Some (m, spec_replace i e es) /\ pw_Inv c'.
Proof.
  intros c b m es i e I V L.
  destruct (pw_view_Some c b m es I V) as [r [_ [_ [_ [_ [_ K]]]]]].
  destruct (pw_select_event_live c b m es _ i I V K L) as [r0 S].
  pose proof (pw_replace_Inv c b i e I) as I'. unfold pw_replace in *. rewrite K, S in *.
  apply pw_select_event_In in S as [S1 [S2 S3]]. subst i. eexists. split; [reflexivity|].
  split; [|exact I']. apply pw_view_save_event; try assumption. congruence.
Qed.

(* the newest row *)
Lemma pw_select_last_spec : forall c b m es k,
  pw_Inv c -> pw_view c b = Some (m, es) -> pw_key c b = Some k ->
  match pw_select_last c k with
  | Some r0 => In r0 (pw_events c) /\ pe_bucket r0 = k /\ is_newest (prow_event r0) es /\
               pw_order_ts_desc (prows_of c k) = r0 :: tl (pw_order_ts_desc (prows_of c k))
  | None => es = []
  end.
Proof.
  intros c b m es k I V K. apply pw_view_Some in V as [r [Hr [Ir [Eid [-> [-> Kr]]]]]]; [|assumption].
  assert (k = pb_key r) by congruence. subst k.
  unfold pw_select_last, select_where. fold (prows_of c (pb_key r)). unfold pw_order_ts_desc.
  destruct (sort_by _ (prows_of c (pb_key r))) as [|r0 t] eqn:E.
  - apply sort_by_nil in E. now rewrite E.
  - pose proof (sort_by_head_min _ _ _ _ E) as [I0 M0].
    pose proof I0 as I0'. unfold prows_of in I0'. apply filter_In in I0' as [I1 B1].
    repeat split; try assumption; try lia.
    + now apply in_map.
    + intros x Hx. apply in_map_iff in Hx as [rx [<- Ix]]. cbn. specialize (M0 rx Ix). cbn in M0. lia.
Qed.

(* ---------- bulk: upserts (every id live => none raises), then chunked inserts ---------- *)
Lemma pw_upserts_spec : forall es c b m cur,
  pw_Inv c -> pw_view c b = Some (m, cur) ->
  (forall e i, In e es -> eid e = Some i -> is_live i cur) ->
  exists c', pw_upserts c b es = (c', Ok ONone) /\ pw_view c' b = Some (m, ups cur es) /\ pw_Inv c'.
Proof.
  unfold ups. induction es as [|e t IH]; intros c b m cur I V L.
  - exists c. split; [reflexivity|split; assumption].
  - cbn [pw_upserts fold_left]. destruct (eid e) as [i|] eqn:E.
    + destruct (pw_replace_live c b m cur i e I V (L e i (or_introl eq_refl) E)) as [c1 [R1 [V1 I1]]].
      rewrite R1. apply IH; try assumption.
      intros e' i' I' E'. unfold is_live. rewrite live_ids_replace. apply (L e' i'); [now right|assumption].
    + apply IH; try assumption. intros e' i' I' E'. apply (L e' i'); [now right|assumption].
Qed.

Lemma pw_insert_rows_spec : forall news c b m cur k,
  pw_Inv c -> pw_view c b = Some (m, cur) -> pw_key c b = Some k ->
  (forall e, In e news -> eid e = None) ->
  exists R, pw_view (pw_insert_rows c k news) b = Some (m, R) /\ spec_many cur news R /\
            pw_Inv (pw_insert_rows c k news) /\ pw_key (pw_insert_rows c k news) b = Some k.
Proof.
  unfold pw_insert_rows. induction news as [|e t IH]; intros c b m cur k I V K N.
  - exists cur. split; [assumption|]. split; [constructor|]. split; assumption.
  - cbn [fold_left]. destruct (pw_view_insert_event c b m cur k e I V K) as [V1 F1].
    assert (I1 : pw_Inv (fst (pw_insert_event c k e))).
    { apply pw_Inv_insert_event; [assumption|]. eapply pw_key_In; eassumption. }
    destruct (IH (fst (pw_insert_event c k e)) b m _ k I1 V1 K (fun e' He' => N e' (or_intror He')))
      as [R [H1 [H2 [H3 H4]]]].
    exists R. split; [assumption|]. split; [|split; assumption].
    eapply sm_insert; [apply N; now left|exact F1|exact H2].
Qed.

Lemma pw_chunks_spec : forall chs c b m cur k,
  pw_Inv c -> pw_view c b = Some (m, cur) -> pw_key c b = Some k ->
  (forall e, In e (concat chs) -> eid e = None) ->
  exists R, pw_view (fold_left (fun c chunk => pw_insert_rows c k chunk) chs c) b = Some (m, R) /\
            spec_many cur (concat chs) R.
Proof.
  induction chs as [|ch t IH]; intros c b m cur k I V K N; cbn [fold_left concat].
  - exists cur. split; [assumption|constructor].
  - destruct (pw_insert_rows_spec ch c b m cur k I V K) as [R1 [V1 [S1 [I1 K1]]]].
    { intros e He. apply N. cbn. apply in_app_iff. now left. }
    destruct (IH (pw_insert_rows c k ch) b m R1 k I1 V1 K1) as [R [V2 S2]].
    { intros e He. apply N. cbn. apply in_app_iff. now right. }
    exists R. split; [assumption|]. eapply spec_many_app; eassumption.
Qed.

Lemma pno_id_noid : forall es, filter pno_id es = filter noid es.
Proof. intros. apply filter_ext. intro e. reflexivity. Qed.

(* statements on eventmodel leave bucketmodel alone *)
Lemma pw_replace_buckets : forall c b i e, pw_buckets (fst (pw_replace c b i e)) = pw_buckets c.
Proof.
  intros. unfold pw_replace. destruct (pw_key c b); [|reflexivity].
  destruct (pw_select_event c z i); reflexivity.
Qed.

Lemma pw_upserts_buckets : forall es c b, pw_buckets (fst (pw_upserts c b es)) = pw_buckets c.
Proof.
  induction es as [|e t IH]; intros c b; [reflexivity|]. cbn.
  destruct (eid e) as [i|]; [|apply IH]. pose proof (pw_replace_buckets c b i e) as H.
  destruct (pw_replace c b i e) as [c' [o|k|]]; cbn in *; [|assumption|assumption]. now rewrite IH.
Qed.

Lemma pw_insert_rows_buckets : forall es c k, pw_buckets (pw_insert_rows c k es) = pw_buckets c.
Proof.
  unfold pw_insert_rows. induction es as [|e t IH]; intros c k; [reflexivity|]. cbn [fold_left].
  now rewrite IH.
Qed.

Lemma pw_chunks_buckets : forall chs c k,
  pw_buckets (fold_left (fun c chunk => pw_insert_rows c k chunk) chs c) = pw_buckets c.
Proof.
  induction chs as [|ch t IH]; intros c k; [reflexivity|]. cbn [fold_left].
  now rewrite IH, pw_insert_rows_buckets.
Qed.

(* ---------- abstraction ---------- *)
Definition pw_abs (c : pwstate) : sstate :=
  map (fun r => (pb_id r, (pb_meta r, map prow_event (prows_of c (pb_key r))))) (pw_buckets c).

Lemma aget_map_prows : forall {V} (F : pbrow -> V) bs b,
  aget b (map (fun r => (pb_id r, F r)) bs)
  = match find (fun r => pb_id r =? b) bs with Some r => Some (F r) | None => None end.
Proof.
  induction bs as [|r t IH]; intros b; cbn; [reflexivity|].
  destruct (pb_id r =? b); [reflexivity|apply IH].
Qed.

Lemma aget_pw_abs : forall c b, aget b (pw_abs c) = pw_view c b.
Proof. intros. unfold pw_abs. rewrite aget_map_prows. reflexivity. Qed.

Lemma akeys_pw_abs : forall c, akeys (pw_abs c) = map pb_id (pw_buckets c).
Proof. intros. unfold pw_abs, akeys. rewrite map_map. reflexivity. Qed.

Lemma pw_abs_aset : forall c c' b v,
  pw_Inv c -> map pb_id (pw_buckets c') = map pb_id (pw_buckets c) ->
  pw_view c b <> None -> pw_view c' b = Some v ->
  (forall k, k <> b -> pw_view c' k = pw_view c k) ->
  pw_abs c' = aset b v (pw_abs c).
Proof.
  intros c c' b v I K E V F.
  assert (Inb : In b (akeys (pw_abs c))).
  { rewrite <- aget_pw_abs in E. destruct (aget b (pw_abs c)) eqn:G; [|congruence].
    eapply aget_In_keys; eassumption. }
  apply alist_ext.
  - rewrite akeys_aset_present by assumption. now rewrite !akeys_pw_abs.
  - rewrite akeys_pw_abs, K. apply (pwi_bids c I).
  - intros k _. rewrite aget_aset_case, !aget_pw_abs. destruct (b =? k) eqn:X.
    + assert (b = k) by lia. now subst.
    + apply F. lia.
Qed.

(* on the table, "key = key of b's row" and "id = b" select the same rows *)
Lemma key_is_id : forall c b r, pw_Inv c -> In r (pw_buckets c) -> pb_id r = b ->
  forall x, In x (pw_buckets c) -> (pb_key x =? pb_key r) = (pb_id x =? b).
Proof.
  intros c b r I Ir Eid x Ix. destruct (pb_key x =? pb_key r) eqn:K.
  - assert (x = r) by (apply (key_row_unique c); try assumption; lia). subst. lia.
  - destruct (pb_id x =? b) eqn:Y; [|reflexivity]. exfalso.
    assert (x = r). { eapply NoDup_map_inj; [apply (pwi_bids c I)|assumption|assumption|lia]. }
    subst. lia.
Qed.

Lemma pw_frame_others : forall c o b, pw_Inv c -> target o = Some b ->
  forall k, k <> b -> pw_view (fst (pw_step c o)) k = pw_view c k.
Proof. intros c o b I T k D. apply pw_frame; [assumption|]. rewrite T. congruence. Qed.

Lemma pw_order_perm : forall X, Permutation (pw_order_ts_desc X) X.
Proof. intros. unfold pw_order_ts_desc. apply sort_by_perm. Qed.

Lemma SSorted_map' : forall {A B} (R : A -> A -> Prop) (R' : B -> B -> Prop) (f : A -> B) l,
  (forall a b, R a b -> R' (f a) (f b)) -> StronglySorted R l -> StronglySorted R' (map f l).
Proof.
  induction l as [|a t IH]; intros H S; cbn; [constructor|].
  inversion S as [|? ? St F]; subst. constructor; [now apply IH|].
  rewrite Forall_forall in *. intros y Hy. apply in_map_iff in Hy as [x [<- Ix]]. apply H, F, Ix.
Qed.

Lemma pw_order_sorted : forall X, sorted_desc (map prow_event (pw_order_ts_desc X)).
Proof.
  intros. apply StronglySorted_Sorted. unfold pw_order_ts_desc.
  eapply SSorted_map'; [|apply sort_by_ssorted]. intros a b H. unfold key_le in H. cbn. lia.
Qed.

Lemma pw_clip_none : forall e, pw_clip None None e = e.
Proof. reflexivity. Qed.

Lemma pw_rows_nowindow : forall c k,
  select_where (fun r => (pe_bucket r =? k) && pw_in_range None None r) (pw_events c) = prows_of c k.
Proof. intros. unfold select_where, prows_of. apply filter_ext. intro r. apply andb_true_r. Qed.

Lemma count_unique_pid : forall (l : list pbrow) r,
  NoDup (map pb_id l) -> In r l -> length (filter (fun x => pb_id x =? pb_id r) l) = 1%nat.
Proof.
  induction l as [|a t IH]; intros r N Ir; [destruct Ir|]. inversion N as [|? ? NI ND]; subst. cbn.
  destruct Ir as [<-|Ir].
  - rewrite Z.eqb_refl. cbn. rewrite filter_none; [reflexivity|]. intros x Ix.
    destruct (pb_id x =? pb_id a) eqn:Y; [|reflexivity]. exfalso. apply NI.
    replace (pb_id a) with (pb_id x) by lia. now apply in_map.
  - destruct (pb_id a =? pb_id r) eqn:Y.
    + exfalso. apply NI. replace (pb_id a) with (pb_id r) by lia. now apply in_map.
    + now apply IH.
Qed.

(* frame of a step whose result is known *)
Lemma pw_step_frame_of : forall c o b c' r, pw_Inv c -> pw_step c o = (c', r) -> target o = Some b ->
  forall k, k <> b -> pw_view c' k = pw_view c k.
Proof.
  intros c o b c' r I E T k D. pose proof (pw_frame_others c o b I T k D) as F. now rewrite E in F.
Qed.

(* ---------- one step ---------- *)
Theorem pw_refines : forall c o, pw_Inv c -> pre (pw_abs c) o ->
  exists out, snd (pw_step c o) = Ok out /\ spec_step (pw_abs c) o (pw_abs (fst (pw_step c o))) out.
Proof.
  intros c o I P.
  destruct o as [b m|b ty cl ho na da|b| |b|b e|b es|b i e|b e|b i|b i|b l s e|b s e]; cbn in P;
    rewrite ?aget_pw_abs in P.
  - (* create *)
    assert (Pr : pbucket_row c b = None).
    { rewrite pw_view_row in P. now destruct (pbucket_row c b). }
    assert (X : existsb (fun r => pb_id r =? b) (pw_buckets c) = false).
    { destruct (existsb _ _) eqn:X; [|reflexivity]. apply existsb_exists in X as [x [Ix Ex]].
      unfold pbucket_row in Pr. pose proof (find_none _ _ Pr x Ix) as N. cbn in N. congruence. }
    set (k := new_rowid (map pb_key (pw_buckets c))).
    set (c' := refresh_keys (pw_with_buckets c (pw_buckets c ++ [mkPbrow k b m]))).
    assert (E : pw_step c (CreateBucket b m) = (c', Ok ONone)).
    { cbn [pw_step]. unfold pw_insert_bucket. now rewrite X. }
    rewrite E. cbn [fst snd]. exists ONone. split; [reflexivity|].
    assert (V : pw_view c' b = Some (m, [])).
    { rewrite pw_view_row. unfold pbucket_row, c'. cbn. rewrite find_app.
      unfold pbucket_row in Pr. rewrite Pr. cbn. rewrite Z.eqb_refl. f_equal. f_equal.
      rewrite filter_none; [reflexivity|]. intros x Ix. cbn.
      pose proof (pwi_owner c I x Ix) as O. pose proof (new_rowid_fresh (map pb_key (pw_buckets c))) as Fr.
      fold k in Fr. destruct (pe_bucket x =? k) eqn:Y; [|reflexivity]. exfalso. apply Fr.
      replace k with (pe_bucket x) by lia. assumption. }
    assert (G : aget b (pw_abs c) = None) by now rewrite aget_pw_abs.
    replace (pw_abs c') with (aset b (m, []) (pw_abs c)).
    + apply sp_create; [assumption|]. unfold created_meta. repeat split.
    + rewrite (aset_absent _ _ _ G). symmetry. apply alist_ext.
      * rewrite akeys_pw_abs. unfold akeys. rewrite map_app. cbn. unfold c'. cbn.
        rewrite map_app. cbn. f_equal. fold (akeys (pw_abs c)). now rewrite akeys_pw_abs.
      * rewrite akeys_pw_abs. unfold c'. cbn. rewrite map_app. cbn.
        apply NoDup_app_snoc; [apply (pwi_bids c I)|].
        intro Hin. apply in_map_iff in Hin as [x [Ex Ix]].
        unfold pbucket_row in Pr. pose proof (find_none _ _ Pr x Ix) as N. cbn in N. lia.
      * intros k0 _. rewrite <- (aset_absent _ _ _ G), aget_aset_case, !aget_pw_abs.
        destruct (b =? k0) eqn:Y; [assert (b = k0) by lia; now subst|].
        eapply (pw_step_frame_of c (CreateBucket b m) b c' (Ok ONone)); [assumption|exact E|reflexivity|lia].
  - (* update_bucket *)
    destruct P as [E _]. destruct (pw_view c b) as [[m es]|] eqn:V; [|congruence].
    destruct (pw_view_Some c b m es I V) as [r [Hr [Ir [Eid [-> [-> K]]]]]].
    assert (G : pw_get_bucket c (pb_key r) = Some r).
    { unfold pw_get_bucket. destruct (find_exists (fun x => pb_key x =? pb_key r) _ r Ir (Z.eqb_refl _)) as [r1 F].
      rewrite F. f_equal. apply find_some in F as [F1 F2]. apply (key_row_unique c); try assumption. lia. }
    set (m' := update_meta not_none ty cl ho na da (pb_meta r)).
    set (c' := pw_save_bucket c (mkPbrow (pb_key r) (pb_id r) m')).
    assert (Es : pw_step c (UpdateBucket b ty cl ho na da) = (c', Ok ONone)).
    { cbn [pw_step]. now rewrite K, G. }
    rewrite Es. cbn [fst snd]. exists ONone. split; [reflexivity|].
    assert (Same : forall x, In x (pw_buckets c) -> (pb_key x =? pb_key r) = true -> x = r).
    { intros x Ix Q. apply (key_row_unique c); try assumption. lia. }
    assert (V' : pw_view c' b = Some (m', map prow_event (prows_of c (pb_key r)))).
    { rewrite pw_view_row. unfold pbucket_row, c', pw_save_bucket. cbn [pw_buckets pw_with_buckets pw_events pb_key pb_id pb_meta].
      rewrite (update_where_ext_in _ (fun x => pb_id x =? b)) by (intros x Ix; now apply (key_is_id c b r)).
      rewrite find_update_where_same by (intros x Px; cbn; lia).
      unfold pbucket_row in Hr. rewrite Hr. reflexivity. }
    replace (pw_abs c') with (aset b (m', map prow_event (prows_of c (pb_key r))) (pw_abs c)).
    + apply sp_update. now rewrite aget_pw_abs.
    + symmetry. apply pw_abs_aset; try assumption.
      * unfold c', pw_save_bucket. cbn [pw_buckets pw_with_buckets pb_key].
        apply map_update_where_in. intros x Ix Q. cbn. now rewrite (Same x Ix Q).
      * congruence.
      * eapply (pw_step_frame_of c _ b c'); [assumption|exact Es|reflexivity].
  - (* delete_bucket *)
    destruct (pw_view c b) as [[m es]|] eqn:V; [|congruence].
    destruct (pw_view_Some c b m es I V) as [r [Hr [Ir [Eid [-> [-> K]]]]]].
    set (k := pb_key r) in *.
    set (c' := refresh_keys (pw_delete_bucket_row (pw_delete_events_of c k) k)).
    assert (Es : pw_step c (DeleteBucket b) = (c', Ok ONone)) by (cbn [pw_step]; now rewrite K).
    rewrite Es. cbn [fst snd]. exists ONone. split; [reflexivity|].
    assert (Bk : pw_buckets c' = delete_where (fun x => pb_id x =? b) (pw_buckets c)).
    { unfold c'. cbn. apply delete_where_ext_in. intros x Ix. now apply (key_is_id c b r). }
    replace (pw_abs c') with (adel b (pw_abs c)).
    + eapply sp_delete_bucket. rewrite aget_pw_abs. eassumption.
    + symmetry. apply alist_ext.
      * rewrite akeys_adel, !akeys_pw_abs, Bk. unfold delete_where.
        generalize (pw_buckets c). induction l as [|a t IH]; [reflexivity|].
        cbn. destruct (pb_id a =? b); cbn; now rewrite IH.
      * rewrite akeys_pw_abs, Bk. apply NoDup_map_delete_where. apply (pwi_bids c I).
      * intros k0 _. rewrite aget_pw_abs. destruct (Z.eq_dec k0 b) as [->|Dk].
        -- rewrite aget_adel_same. rewrite pw_view_row. unfold pbucket_row. rewrite Bk.
           destruct (find _ _) as [x|] eqn:F; [|reflexivity]. apply find_some in F as [F1 F2].
           apply In_delete_where in F1 as [_ F1]. congruence.
        -- rewrite aget_adel_other by assumption. rewrite aget_pw_abs.
           eapply (pw_step_frame_of c _ b c'); [assumption|exact Es|reflexivity|assumption].
  - (* buckets *)
    eexists. split; [reflexivity|]. cbn.
    replace (map (fun r => (pb_id r, pb_meta r)) (pw_buckets c))
      with (map (fun kv : Z * (meta * list event) => (fst kv, fst (snd kv))) (pw_abs c)).
    + apply sp_buckets.
    + unfold pw_abs. rewrite map_map. reflexivity.
  - (* get_metadata *)
    destruct (pw_view c b) as [[m es]|] eqn:V; [|congruence].
    destruct (pw_view_Some c b m es I V) as [r [Hr [Ir [Eid [-> [-> K]]]]]].
    assert (G : pw_get_bucket c (pb_key r) = Some r).
    { unfold pw_get_bucket. destruct (find_exists (fun x => pb_key x =? pb_key r) _ r Ir (Z.eqb_refl _)) as [r1 F].
      rewrite F. f_equal. apply find_some in F as [F1 F2]. apply (key_row_unique c); try assumption. lia. }
    cbn [pw_step]. rewrite K, G. eexists. split; [reflexivity|]. cbn. rewrite Eid.
    eapply sp_metadata. rewrite aget_pw_abs. eassumption.
  - (* insert_one *)
    destruct P as [E Ee]. destruct (pw_view c b) as [[m es]|] eqn:V; [|congruence].
    destruct (pw_view_Some c b m es I V) as [r [_ [_ [_ [_ [_ K]]]]]].
    destruct (pw_view_insert_event c b m es _ e I V K) as [V1 F1].
    set (j := new_rowid (map pe_id (pw_events c))) in *.
    assert (Es : pw_step c (InsertOne b e) = (fst (pw_insert_event c (pb_key r) e), Ok (OEvent (Some (set_eid e (Some j)))))).
    { cbn [pw_step]. rewrite Ee, K. reflexivity. }
    rewrite Es. cbn [fst snd]. eexists. split; [reflexivity|].
    replace (pw_abs (fst (pw_insert_event c (pb_key r) e))) with (aset b (m, es ++ [set_eid e (Some j)]) (pw_abs c)).
    + apply sp_insert_one; [now rewrite aget_pw_abs|assumption|assumption].
    + symmetry. apply pw_abs_aset; try assumption; [reflexivity|congruence|].
      eapply (pw_step_frame_of c _ b); [assumption|exact Es|reflexivity].
  - (* insert_many *)
    destruct P as [m [cur [V L]]]. rewrite ?aget_pw_abs in V.
    destruct (pw_upserts_spec es c b m cur I V L) as [c1 [E1 [V1 I1]]].
    assert (exists c' R, pw_step c (InsertMany b es) = (c', Ok ONone) /\ pw_view c' b = Some (m, R) /\
                         spec_many (ups cur es) (filter noid es) R /\ pw_buckets c' = pw_buckets c1)
      as [c' [R [Es [V' [S B']]]]].
    { cbn [pw_step]. rewrite E1. change (filter noid es) with (filter pno_id es). destruct (filter pno_id es) as [|n ns] eqn:F.
      - exists c1, (ups cur es). repeat split; try assumption. constructor.
      - destruct (pw_view_Some c1 b m _ I1 V1) as [r [_ [_ [_ [_ [_ K1]]]]]]. rewrite K1.
        destruct (pw_chunks_spec (chunks 100 (n :: ns)) c1 b m (ups cur es) _ I1 V1 K1) as [R [V2 S2]].
        { rewrite concat_chunks. intros e0 He. rewrite <- F in He. apply filter_In in He as [_ He].
          unfold pno_id in He. now destruct (eid e0). }
        rewrite concat_chunks in S2. eexists. exists R. repeat split; try eassumption.
        apply pw_chunks_buckets. }
    rewrite Es. cbn [fst snd]. exists ONone. split; [reflexivity|].
    replace (pw_abs c') with (aset b (m, R) (pw_abs c)).
    + apply (sp_insert_many (pw_abs c) b es m cur R ONone); [rewrite aget_pw_abs; exact V|].
      now apply spec_many_reorder.
    + symmetry. apply pw_abs_aset; try assumption.
      * rewrite B'. pose proof (pw_upserts_buckets es c b) as Bu. rewrite E1 in Bu. cbn in Bu. now rewrite Bu.
      * congruence.
      * eapply (pw_step_frame_of c _ b); [assumption|exact Es|reflexivity].
  - (* replace *)
    destruct P as [m [cur [V L]]]. rewrite ?aget_pw_abs in V.
    destruct (pw_replace_live c b m cur i e I V L) as [c' [Er [V' I']]].
    assert (Es : pw_step c (Replace b i e) = (c', Ok (OEvent (Some (set_eid e (Some i)))))) by exact Er.
    rewrite Es. cbn [fst snd]. eexists. split; [reflexivity|].
    replace (pw_abs c') with (aset b (m, spec_replace i e cur) (pw_abs c)).
    + apply sp_replace; [now rewrite aget_pw_abs|assumption].
    + symmetry. apply pw_abs_aset; try assumption.
      * pose proof (pw_replace_buckets c b i e) as Bu. rewrite Er in Bu. cbn in Bu. now rewrite Bu.
      * congruence.
      * eapply (pw_step_frame_of c _ b); [assumption|exact Es|reflexivity].
  - (* replace_last *)
    destruct P as [m [cur [V N]]]. rewrite ?aget_pw_abs in V.
    destruct (pw_view_Some c b m cur I V) as [r [_ [_ [_ [_ [_ K]]]]]].
    pose proof (pw_select_last_spec c b m cur _ I V K) as S.
    destruct (pw_select_last c (pb_key r)) as [r0|] eqn:Sl; [|congruence].
    destruct S as [I0 [B0 [Nw _]]].
    set (c' := pw_save_event c (mkPerow (pe_id r0) (pe_bucket r0) (ts e) (dur e) (data e))).
    assert (Es : pw_step c (ReplaceLast b e) = (c', Ok (OEvent (Some (set_eid e (Some (pe_id r0))))))).
    { cbn [pw_step]. now rewrite K, Sl. }
    rewrite Es. cbn [fst snd]. eexists. split; [reflexivity|].
    assert (V' : pw_view c' b = Some (m, spec_replace (pe_id r0) e cur)).
    { apply pw_view_save_event; try assumption. congruence. }
    replace (pw_abs c') with (aset b (m, spec_replace (pe_id r0) e cur) (pw_abs c)).
    + eapply sp_replace_last; [now rewrite aget_pw_abs|eassumption|reflexivity].
    + symmetry. apply pw_abs_aset; try assumption; [reflexivity|congruence|].
      eapply (pw_step_frame_of c _ b); [assumption|exact Es|reflexivity].
  - (* delete *)
    destruct (pw_view c b) as [[m es]|] eqn:V; [|congruence].
    destruct (pw_view_Some c b m es I V) as [r [_ [_ [_ [_ [_ K]]]]]].
    pose proof (pw_view_delete_event c b m es i _ I V K) as V'.
    pose proof (pw_delete_event_count c b m es i _ I V K) as Cn.
    set (c' := fst (pw_delete_event c (pb_key r) i)) in *.
    assert (Es : pw_step c (Delete b i) = (c', Ok (OBool (0 <? snd (pw_delete_event c (pb_key r) i))))).
    { cbn [pw_step]. rewrite K. reflexivity. }
    rewrite Es. cbn [fst snd]. rewrite Cn.
    assert (A : pw_abs c' = aset b (m, spec_delete i es) (pw_abs c)).
    { apply pw_abs_aset; try assumption; [reflexivity|congruence|].
      eapply (pw_step_frame_of c _ b); [assumption|exact Es|reflexivity]. }
    destruct (in_dec Z.eq_dec i (live_ids es)) as [L|L].
    + eexists. split; [reflexivity|]. rewrite A. apply sp_delete_live; [now rewrite aget_pw_abs|assumption].
    + eexists. split; [reflexivity|].
      replace (pw_abs c') with (pw_abs c).
      * eapply sp_delete_absent; [rewrite aget_pw_abs; eassumption|assumption].
      * rewrite A. symmetry. apply aset_same. rewrite aget_pw_abs, V. f_equal. f_equal.
        unfold spec_delete. symmetry. apply filter_all. intros x Ix.
        rewrite (not_live_has_id i es L x Ix). reflexivity.
  - (* get_event *)
    destruct (pw_view c b) as [[m es]|] eqn:V; [|congruence].
    destruct (pw_view_Some c b m es I V) as [r [_ [_ [_ [_ [Hes K]]]]]].
    cbn [pw_step]. rewrite K. eexists. split; [reflexivity|]. cbn [fst].
    destruct (pw_select_event c (pb_key r) i) as [r0|] eqn:S; cbn [option_map].
    + apply pw_select_event_In in S as [S1 [S2 S3]].
      eapply sp_get_event_live; [rewrite aget_pw_abs; eassumption| |cbn; now rewrite S2].
      rewrite Hes. apply in_map. unfold prows_of. apply filter_In. split; [assumption|lia].
    + eapply sp_get_event_absent; [rewrite aget_pw_abs; eassumption|].
      eapply pw_select_event_none; eassumption.
  - (* get_events *)
    destruct P as [E [-> ->]]. destruct (pw_view c b) as [[m es]|] eqn:V; [|congruence].
    destruct (pw_view_Some c b m es I V) as [r [_ [_ [_ [_ [Hes K]]]]]].
    cbn [pw_step]. destruct (l =? 0) eqn:L0.
    + eexists. split; [reflexivity|]. cbn. eapply sp_get_events; [rewrite aget_pw_abs; eassumption|].
      unfold spec_read. now rewrite L0.
    + rewrite K. eexists. split; [reflexivity|]. cbn [fst].
      eapply sp_get_events; [rewrite aget_pw_abs; eassumption|].
      unfold spec_read. rewrite L0. rewrite pw_rows_nowindow.
      rewrite (map_ext _ prow_event) by (intro; apply pw_clip_none).
      exists (map prow_event (pw_order_ts_desc (prows_of c (pb_key r)))). split; [|split].
      * rewrite Hes. apply Permutation_map, pw_order_perm.
      * apply pw_order_sorted.
      * unfold sql_limit. destruct (l <? 0); [reflexivity|]. symmetry. apply firstn_map.
  - (* get_eventcount *)
    destruct P as [E [-> ->]]. destruct (pw_view c b) as [[m es]|] eqn:V; [|congruence].
    destruct (pw_view_Some c b m es I V) as [r [_ [_ [_ [_ [Hes K]]]]]].
    cbn [pw_step]. rewrite K. eexists. split; [reflexivity|]. cbn [fst]. unfold rowcount.
    pose proof (pw_rows_nowindow c (pb_key r)) as Rw. unfold select_where in Rw. rewrite Rw.
    replace (length (prows_of c (pb_key r))) with (length es) by (rewrite Hes; apply map_length).
    eapply sp_count. rewrite aget_pw_abs. eassumption.
Qed.
