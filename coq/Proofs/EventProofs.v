(* Facts about Model/EventModel.v: normalisation of timestamps and durations, JSON round
   trip.  The float facts come from Proofs/PyFloatSpec.v (Flocq) and Proofs/PyFloatFinite.v
   (exhaustive), the text facts from Proofs/IsoTimeProofs.v. *)
From Coq Require Import ZArith Reals Bool List Lia Ascii PrimFloat.
From Flocq Require Import IEEE754.BinarySingleNaN IEEE754.PrimFloat.
From AwVerif Require Import Base.Prelude Model.PyFloat Model.IsoTime Model.EventModel
  Proofs.PyFloatFinite Proofs.PyFloatSpec Proofs.IsoTimeProofs.
Open Scope Z_scope.

Definition floor_ms (t : Z) : Z := 1000 * (t / 1000).
Definition ms_aligned (t : Z) : Prop := t mod 1000 = 0.

Lemma floor_ms_mod : forall t, floor_ms t = t - t mod 1000.
Proof. intros t. unfold floor_ms. pose proof (Z.div_mod t 1000). lia. Qed.

Lemma floor_ms_aligned : forall t, ms_aligned t -> floor_ms t = t.
Proof. intros t H. rewrite floor_ms_mod. unfold ms_aligned in H. lia. Qed.

Lemma mod_mod_1000 : forall a, (a mod 1000000) mod 1000 = a mod 1000.
Proof.
  intros a. symmetry. replace 1000000 with (1000 * 1000) by reflexivity.
  rewrite Z.rem_mul_r by lia. rewrite Z.add_mod by lia.
  rewrite (Z.mul_comm 1000), Z.mod_mul by lia. rewrite Z.add_0_r. now rewrite !Z.mod_mod by lia.
Qed.

(* _timestamp_parse on an aware datetime: the local time is floored to the millisecond,
   the zone is kept *)
Lemma timestamp_parse_dt : forall u off,
  timestamp_parse (TsDt u off) = Ok (floor_ms (u + off) - off, off).
Proof.
  intros u off. unfold timestamp_parse. cbn [bind fst snd].
  rewrite ms_floor_float_exact by (apply Z.mod_pos_bound; lia).
  cbn [bind]. rewrite mod_mod_1000, floor_ms_mod. f_equal. f_equal. lia.
Qed.

Lemma timestamp_parse_naive : forall l, timestamp_parse (TsNaive l) = Ok (floor_ms l, 0).
Proof.
  intros l. unfold timestamp_parse. cbn [bind fst snd].
  rewrite ms_floor_float_exact by (apply Z.mod_pos_bound; lia).
  cbn [bind]. rewrite mod_mod_1000, Z.add_0_r, floor_ms_mod. f_equal. f_equal. lia.
Qed.

Lemma timestamp_parse_str : forall s u off, parse_iso s = Ok (u, off) ->
  timestamp_parse (TsStr s) = Ok (floor_ms (u + off) - off, off).
Proof.
  intros s u off H. unfold timestamp_parse. rewrite H. cbn [bind fst snd].
  rewrite ms_floor_float_exact by (apply Z.mod_pos_bound; lia).
  cbn [bind]. rewrite mod_mod_1000, floor_ms_mod. f_equal. f_equal. lia.
Qed.

(* when the offset is a whole number of milliseconds, flooring the local time is
   flooring the instant *)
Lemma floor_ms_shift : forall u off, off mod 1000 = 0 -> floor_ms (u + off) - off = floor_ms u.
Proof.
  intros u off H. rewrite !floor_ms_mod.
  assert ((u + off) mod 1000 = u mod 1000).
  { rewrite Z.add_mod by lia. rewrite H, Z.add_0_r. now rewrite Z.mod_mod by lia. }
  lia.
Qed.

(* 1.0000015 as a binary64: just below 1000001.5 us *)
Definition example_float : float := 0x1.0000192a73711p+0%float.

Definition y2100 : Z := 4102444800000000.
Definition max_off : Z := 50400000000.       (* 14 h *)

Lemma dt_check_ok : forall u, min_us <= u <= max_us -> dt_check u = Ok u.
Proof.
  intros u H. unfold dt_check.
  replace ((min_us <=? u) && (u <=? max_us)) with true; [reflexivity|].
  symmetry. apply andb_true_iff. split; apply Z.leb_le; lia.
Qed.

Lemma floor_ms_range : forall u, 0 <= u <= y2100 -> min_us <= floor_ms u <= max_us.
Proof.
  intros u H. rewrite floor_ms_mod. pose proof (Z.mod_pos_bound u 1000 ltac:(lia)).
  unfold y2100, min_us, max_us in *. lia.
Qed.

Theorem normalise_dt : forall u off, 0 <= u <= y2100 -> off mod 1000 = 0 ->
  set_timestamp (TsDt u off) = Ok (floor_ms u).
Proof.
  intros u off Hu Ho. unfold set_timestamp. rewrite timestamp_parse_dt. cbn [bind fst].
  rewrite (floor_ms_shift u off Ho). apply dt_check_ok. now apply floor_ms_range.
Qed.

Theorem normalise_naive : forall l, 0 <= l <= y2100 -> set_timestamp (TsNaive l) = Ok (floor_ms l).
Proof.
  intros l Hl. unfold set_timestamp. rewrite timestamp_parse_naive. cbn [bind fst].
  apply dt_check_ok. now apply floor_ms_range.
Qed.

Theorem normalise_str : forall s u off, parse_iso s = Ok (u, off) ->
  0 <= u <= y2100 -> off mod 1000 = 0 ->
  set_timestamp (TsStr s) = Ok (floor_ms u).
Proof.
  intros s u off Hs Hu Ho. unfold set_timestamp. rewrite (timestamp_parse_str s u off Hs). cbn [bind fst].
  rewrite (floor_ms_shift u off Ho). apply dt_check_ok. now apply floor_ms_range.
Qed.

(* a sub-millisecond utcoffset breaks the statement: the local time is floored, not the
   instant (datetime.timezone accepts microsecond offsets; no tz database zone and no
   ISO-8601 text has one) *)
Lemma normalise_sub_ms_offset_witness :
  set_timestamp (TsDt 1600000000000999 1) = Ok 1600000000000999
  /\ floor_ms 1600000000000999 = 1600000000000000.
Proof. split; vm_compute; reflexivity. Qed.

(* durations *)
Theorem duration_td : forall k, set_duration (DurTd k) = Ok k.
Proof. reflexivity. Qed.

Theorem duration_int : forall s, Z.abs s <= 86399999913600 ->
  set_duration (DurInt s) = Ok (s * 1000000).
Proof.
  intros s H. cbn [set_duration]. unfold td_us_of_int_seconds, us_per_s.
  apply td_check_ok. unfold max_days, us_per_day. lia.
Qed.

(* any float within 31/64 us of a whole number k of microseconds becomes exactly k *)
Theorem duration_float_near : forall x k, fin x ->
  Z.abs k <= 86399999913600000000 ->
  (Rabs (FR x * 1000000 - IZR k) <= 31 / 64)%R ->
  set_duration (DurFloat x) = Ok k.
Proof.
  intros x k Fx Hk Hn. cbn [set_duration]. apply td_near; [exact Fx| |exact Hn].
  unfold max_days, us_per_day. lia.
Qed.

(* the float nearest to k / 10^6 seconds becomes exactly k microseconds *)
Theorem duration_float_roundtrip : forall k, Z.abs k < 2 ^ 33 * 1000000 ->
  bind (total_seconds_of_us k) (fun f => set_duration (DurFloat f)) = Ok k.
Proof. intros k H. exact (td_roundtrip k H). Qed.

(* Event applied to an Event *)
Theorem rebuild_id : forall e, ms_aligned (ts e) -> 0 <= ts e <= y2100 -> rebuild e = Ok e.
Proof.
  intros [i t d x] A R. cbn [ts] in *. unfold rebuild, mk_event. cbn [eid ts dur data].
  rewrite (normalise_dt t 0 R) by reflexivity. cbn [bind set_duration].
  now rewrite (floor_ms_aligned t A).
Qed.

(* JSON round trip, given that the timestamp text reads back *)
Lemma json_roundtrip_of_iso : forall e,
  ms_aligned (ts e) -> 0 <= ts e <= y2100 -> Z.abs (dur e) < 2 ^ 33 * 1000000 ->
  parse_iso (isoformat_utc (ts e)) = Ok (ts e, 0) ->
  json_roundtrip e = Ok e.
Proof.
  intros [i t d x] A R D P. cbn [ts dur] in *. unfold json_roundtrip, to_json. cbn [eid ts dur data].
  assert (Rg : min_us <= t <= max_us) by (unfold y2100, min_us, max_us in *; lia).
  rewrite (dt_check_ok t Rg). cbn [bind].
  destruct (total_seconds_finite d D) as (f & Ef & _ & _). rewrite Ef. cbn [bind].
  unfold from_json, mk_event. cbn [j_id j_ts j_dur j_data].
  rewrite (normalise_str _ t 0 P R) by reflexivity. cbn [bind set_duration].
  pose proof (td_roundtrip d D) as T. rewrite Ef in T. cbn [bind] in T. rewrite T. cbn [bind].
  now rewrite (floor_ms_aligned t A).
Qed.

(* every offset iso8601.parse_date can produce is whole minutes, so for strings the
   statement needs no assumption on the offset *)
Theorem normalise_str_any_offset : forall s u off, parse_iso s = Ok (u, off) ->
  0 <= u <= y2100 -> set_timestamp (TsStr s) = Ok (floor_ms u).
Proof.
  intros s u off Hs Hu. apply (normalise_str s u off Hs Hu).
  pose proof (parse_iso_minutes s u off Hs) as M.
  replace 60000000 with (1000 * 60000) in M by reflexivity.
  rewrite Z.rem_mul_r in M by lia. pose proof (Z.mod_pos_bound off 1000 ltac:(lia)).
  pose proof (Z.mod_pos_bound (off / 1000) 60000 ltac:(lia)). lia.
Qed.

Theorem json_roundtrip_ok : forall e,
  ms_aligned (ts e) -> 0 <= ts e <= y2100 -> Z.abs (dur e) < 2 ^ 33 * 1000000 ->
  json_roundtrip e = Ok e.
Proof.
  intros e A R D. apply json_roundtrip_of_iso; try assumption.
  apply parse_isoformat; [now left | exact R].
Qed.

(* the JSON form: timestamp text of the published shape, a finite duration number equal
   to the correctly rounded quotient, id and data untouched *)
Theorem json_shape : forall e,
  ms_aligned (ts e) -> 0 <= ts e <= y2100 -> Z.abs (dur e) < 2 ^ 33 * 1000000 ->
  exists j, to_json e = Ok j /\ iso_utc_shape (j_ts j) = true /\
            is_finite (Prim2B (j_dur j)) = true /\
            B2R (Prim2B (j_dur j)) = RN (IZR (dur e) / 1000000) /\
            j_id j = eid e /\ j_data j = data e.
Proof.
  intros [i t d x] A R D. cbn [ts dur eid data] in *. unfold to_json. cbn [eid ts dur data].
  assert (Rg : min_us <= t <= max_us) by (unfold y2100, min_us, max_us in *; lia).
  rewrite (dt_check_ok t Rg). cbn [bind].
  destruct (total_seconds_finite d D) as (f & Ef & Ff & Vf). rewrite Ef. cbn [bind].
  eexists. split; [reflexivity|]. cbn [j_ts j_dur j_id j_data].
  split; [apply isoformat_shape; assumption|]. repeat split; assumption.
Qed.

(* the bound is sharp: at 2^33 * 10^6 + 1 us (272 years) a timedelta does not survive the
   float seconds of the JSON form *)
Lemma json_roundtrip_huge_duration_witness :
  json_roundtrip (mkEvent None 1600000000000000 (2 ^ 33 * 1000000 + 1) 0)
  = Ok (mkEvent None 1600000000000000 (2 ^ 33 * 1000000 + 2) 0).
Proof. vm_compute. reflexivity. Qed.

Lemma normalise_sub_ms_offset_refuted : exists u off,
  0 <= u <= y2100 /\ Z.abs off <= max_off /\
  exists t, set_timestamp (TsDt u off) = Ok t /\ t <> floor_ms u.
Proof.
  exists 1600000000000999, 1. split; [vm_compute; split; discriminate|].
  split; [vm_compute; discriminate|]. exists 1600000000000999.
  split; [exact (proj1 normalise_sub_ms_offset_witness)|]. vm_compute. discriminate.
Qed.

Lemma json_roundtrip_unbounded_refuted : exists e,
  ms_aligned (ts e) /\ 0 <= ts e <= y2100 /\ exists e', json_roundtrip e = Ok e' /\ dur e' <> dur e.
Proof.
  exists (mkEvent None 1600000000000000 (2 ^ 33 * 1000000 + 1) 0).
  split; [reflexivity|]. split; [vm_compute; split; discriminate|].
  eexists. split; [exact json_roundtrip_huge_duration_witness|]. vm_compute. discriminate.
Qed.

Lemma iso_text_roundtrip : forall t, 0 <= t <= y2100 -> parse_iso (isoformat_utc t) = Ok (t, 0).
Proof. intros t H. exact (parse_isoformat "T"%char t (or_introl eq_refl) H). Qed.
