From AwVerif Require Import Base.Prelude Model.UnionNoOverlap.
From Coq Require Import ZifyBool.

Ltac split_ifs :=
  repeat match goal with
  | |- context [if ?b then _ else _] => let E := fresh "E" in destruct b eqn:E
  | H : context [if ?b then _ else _] |- _ => let E := fresh "E" in destruct b eqn:E
  end.

(* ---- one iteration never raises and consumes exactly one list element ---- *)

Lemma uno_step_next : forall e1 r1 e2 r2,
  exists emit l1 l2, uno_step e1 r1 e2 r2 = Next emit l1 l2 /\
    (length l1 + length l2 + 1 = length (e1 :: r1) + length (e2 :: r2))%nat.
Proof.
  intros e1 r1 e2 r2. unfold uno_step, split_event.
  split_ifs; cbn [length]; try (do 3 eexists; split; [reflexivity | cbn [length]; lia]);
    exfalso; lia.
Qed.

Lemma uno_loop_total : forall fuel l1 l2 out,
  (length l1 + length l2 <= fuel)%nat ->
  exists r, uno_loop fuel l1 l2 out = Ok r.
Proof.
  induction fuel as [|fuel IH]; intros l1 l2 out Hf.
  - destruct l1 as [|e1 r1]; [eexists; reflexivity|].
    destruct l2 as [|e2 r2]; [eexists; reflexivity|]. cbn [length] in Hf. lia.
  - destruct l1 as [|e1 r1]; [eexists; reflexivity|].
    destruct l2 as [|e2 r2]; [eexists; reflexivity|].
    cbn [uno_loop].
    destruct (uno_step_next e1 r1 e2 r2) as (emit & l1' & l2' & -> & Hlen).
    apply IH. cbn [length] in *. lia.
Qed.

Lemma union_no_overlap_total : forall a b, exists r, union_no_overlap a b = Ok r.
Proof. intros a b. apply uno_loop_total. lia. Qed.

(* ---- specification vocabulary ---- *)

(* half-open point sets *)
Definition inside (e : event) (t : Z) : Prop := ts e <= t < eend e.
Definition covers (l : list event) (t : Z) : Prop := exists e, In e l /\ inside e t.
Definition disjoint (x y : event) : Prop := forall t, ~ (inside x t /\ inside y t).

(* time-sorted, internally non-overlapping, durations >= 0: consecutive end <= next start *)
Fixpoint sorted_nonoverlap (l : list event) : Prop :=
  match l with
  | [] => True
  | e :: t => 0 <= dur e /\ match t with [] => True | f :: _ => eend e <= ts f end /\ sorted_nonoverlap t
  end.

(* the same with every later event named (equivalent, lemma sorted_nonoverlap_chain) *)
Fixpoint chain (l : list event) : Prop :=
  match l with
  | [] => True
  | e :: t => 0 <= dur e /\ Forall (fun f => eend e <= ts f) t /\ chain t
  end.

Definition ms_aligned (e : event) : Prop := ts e mod 1000 = 0 /\ dur e mod 1000 = 0.

(* z is an order-preserving merge of x and y: every element of x and of y occurs in z exactly
   once (at its own position), nothing else does, and both keep their relative order *)
Inductive Interleave {X : Type} : list X -> list X -> list X -> Prop :=
  | il_nil : Interleave [] [] []
  | il_l : forall x xs ys zs, Interleave xs ys zs -> Interleave (x :: xs) ys (x :: zs)
  | il_r : forall y xs ys zs, Interleave xs ys zs -> Interleave xs (y :: ys) (y :: zs).

(* p is a piece of f: same id and data, lies inside f *)
Definition piece_of (f p : event) : Prop :=
  eid p = eid f /\ data p = data f /\ ts f <= ts p /\ eend p <= eend f /\ 0 <= dur p.

(* pf are the pieces of list-two event f left uncovered by list one a *)
Definition pieces_ok (a : list event) (f : event) (pf : list event) : Prop :=
  Forall (piece_of f) pf /\ chain pf /\ (forall t, covers pf t <-> inside f t /\ ~ covers a t).

(* ---- generalities ---- *)

Lemma sorted_nonoverlap_chain : forall l, sorted_nonoverlap l <-> chain l.
Proof.
  induction l as [|e t IH]; [tauto|].
  cbn [sorted_nonoverlap chain]. split.
  - intros (Hd & Hn & Ht). apply IH in Ht. repeat split; auto.
    destruct t as [|f t']; [constructor|].
    cbn [chain] in Ht. destruct Ht as (Hdf & Hall & _).
    constructor; [exact Hn|].
    eapply Forall_impl; [|exact Hall]. cbn beta. intros g Hg. unfold eend in *. lia.
  - intros (Hd & Hall & Ht). apply IH in Ht. repeat split; auto.
    destruct t as [|f t']; [exact I|]. inversion Hall; auto.
Qed.

Lemma covers_nil : forall t, ~ covers [] t.
Proof. intros t (e & [] & _). Qed.

Lemma covers_cons : forall e l t, covers (e :: l) t <-> inside e t \/ covers l t.
Proof.
  intros e l t. unfold covers. split.
  - intros (x & [<- | Hin] & Hx); [left; exact Hx | right; eauto].
  - intros [He | (x & Hin & Hx)]; [exists e | exists x]; cbn [In]; auto.
Qed.

Lemma covers_app : forall l1 l2 t, covers (l1 ++ l2) t <-> covers l1 t \/ covers l2 t.
Proof.
  intros l1 l2 t. unfold covers. split.
  - intros (x & Hin & Hx). apply in_app_or in Hin. destruct Hin; [left | right]; eauto.
  - intros [(x & Hin & Hx) | (x & Hin & Hx)]; exists x; split; auto; apply in_or_app; auto.
Qed.

Lemma covers_dec : forall l t, covers l t \/ ~ covers l t.
Proof.
  induction l as [|e l IH]; intros t.
  - right. apply covers_nil.
  - rewrite covers_cons. destruct (IH t) as [H | H]; [tauto|].
    unfold inside.
    destruct (Z_le_dec (ts e) t); destruct (Z_lt_dec t (eend e)); try tauto; right; intros [? | ?]; try tauto; lia.
Qed.

Lemma chain_tail_lb : forall e l t, chain (e :: l) -> covers l t -> eend e <= t.
Proof.
  intros e l t (Hd & Hall & _) (x & Hin & Hx).
  rewrite Forall_forall in Hall. specialize (Hall x Hin). unfold inside in Hx. lia.
Qed.

Lemma chain_covers_lb : forall e l t, chain (e :: l) -> covers (e :: l) t -> ts e <= t.
Proof.
  intros e l t Hc Hcov. apply covers_cons in Hcov. destruct Hcov as [Hi | Hl].
  - unfold inside in Hi. lia.
  - pose proof (chain_tail_lb _ _ _ Hc Hl). destruct Hc as (Hd & _). unfold eend in *. lia.
Qed.

Lemma chain_tail : forall e l, chain (e :: l) -> chain l.
Proof. intros e l (_ & _ & H). exact H. Qed.

Lemma floor_ms_aligned : forall t, t mod 1000 = 0 -> floor_ms t = t.
Proof. intros t H. unfold floor_ms. pose proof (Z.div_mod t 1000). lia. Qed.

Lemma aligned_end : forall e, ms_aligned e -> eend e mod 1000 = 0.
Proof.
  intros e [H1 H2]. unfold eend.
  rewrite Z.add_mod by lia. rewrite H1, H2. reflexivity.
Qed.

(* ---- one iteration, in closed form (needs list one's current event ms-aligned, dur >= 0) ---- *)

Definition before_piece (e1 e2 : event) : list event :=
  if ts e2 <? ts e1 then [set_dur e2 (ts e1 - ts e2)] else [].

(* what is left of e2 after e1 when e2 ends later *)
Definition after_piece (e1 e2 : event) : event :=
  mkEvent (eid e2) (eend e1) (eend e2 - eend e1) (data e2).

Definition uno_step_closed (e1 : event) (r1 : list event) (e2 : event) (r2 : list event) : step_result :=
  if eend e2 <=? ts e1 then Next [e2] (e1 :: r1) r2
  else if eend e1 <=? ts e2 then Next [e1] r1 (e2 :: r2)
  else if eend e2 >? eend e1 then Next (before_piece e1 e2 ++ [e1]) r1 (after_piece e1 e2 :: r2)
  else Next (before_piece e1 e2) (e1 :: r1) r2.

Lemma event_eq : forall i t d x i' t' d' x',
  i = i' -> t = t' -> d = d' -> x = x' -> mkEvent i t d x = mkEvent i' t' d' x'.
Proof. intros; subst; reflexivity. Qed.

Lemma uno_step_is_closed : forall e1 r1 e2 r2,
  ms_aligned e1 -> 0 <= dur e1 ->
  uno_step e1 r1 e2 r2 = uno_step_closed e1 r1 e2 r2.
Proof.
  intros e1 r1 e2 r2 Hal Hd.
  pose proof (floor_ms_aligned _ (proj1 Hal)) as Hf1.
  pose proof (floor_ms_aligned _ (aligned_end _ Hal)) as Hf2.
  unfold eend in Hf2.
  unfold uno_step, uno_step_closed, before_piece, after_piece, split_event, eend.
  destruct (ts e2 + dur e2 <=? ts e1) eqn:E1; [reflexivity|].
  destruct (ts e1 + dur e1 <=? ts e2) eqn:E2; [reflexivity|].
  destruct (ts e2 <? ts e1) eqn:E3.
  - (* part of e2 before e1 *)
    cbn [andb].
    destruct (ts e1 <? ts e2 + dur e2) eqn:E4; [|exfalso; lia].
    destruct (ts e2 + dur e2 >? ts e1 + dur e1) eqn:E5; [|reflexivity].
    cbn [set_dur set_ts ts dur eid data].
    rewrite Hf1.
    destruct ((ts e1 <? ts e1 + dur e1) && (ts e1 + dur e1 <? ts e1 + (ts e2 + dur e2 - ts e1))) eqn:E6.
    + cbn [set_dur set_ts ts dur eid data]. rewrite Hf2.
      do 2 f_equal. apply event_eq; try reflexivity; lia.
    + do 2 f_equal. unfold set_dur, set_ts; cbn [ts dur eid data].
      apply event_eq; try reflexivity; lia.
  - destruct (ts e2 + dur e2 >? ts e1 + dur e1) eqn:E5; [|reflexivity].
    destruct ((ts e2 <? ts e1 + dur e1) && (ts e1 + dur e1 <? ts e2 + dur e2)) eqn:E6; [|exfalso; lia].
    cbn [set_dur set_ts ts dur eid data app]. rewrite Hf2. reflexivity.
Qed.

(* ---- Interleave ---- *)

Lemma interleave_nil_l : forall {X} (l : list X), Interleave [] l l.
Proof. induction l; constructor; auto. Qed.

Lemma interleave_nil_r : forall {X} (l : list X), Interleave l [] l.
Proof. induction l; constructor; auto. Qed.

Lemma interleave_front_r : forall {X} (p xs ys zs : list X),
  Interleave xs ys zs -> Interleave xs (p ++ ys) (p ++ zs).
Proof. induction p; intros; cbn [app]; [|constructor]; auto. Qed.

Lemma interleave_in : forall {X} (xs ys zs : list X) (e : X),
  Interleave xs ys zs -> (In e zs <-> In e xs \/ In e ys).
Proof.
  intros X xs ys zs e H. induction H; cbn [In]; tauto.
Qed.

(* ---- pieces ---- *)

Lemma pieces_ok_cons_before : forall e1 r1 f pf,
  pieces_ok r1 f pf -> eend e1 <= ts f -> pieces_ok (e1 :: r1) f pf.
Proof.
  intros e1 r1 f pf (Hp & Hc & Hcov) Hle.
  split; [exact Hp | split; [exact Hc | intros t; split]].
  - intros H. apply Hcov in H. destruct H as [Hi Hn]. split; [exact Hi|]. intros Hc1.
    apply covers_cons in Hc1. destruct Hc1 as [Hi1 | Hr]; [|tauto].
    unfold inside in *. lia.
  - intros [Hi Hn]. apply Hcov. split; [exact Hi|].
    intros Hr. apply Hn. apply covers_cons. right. exact Hr.
Qed.

Lemma pieces_all_cons_before : forall e1 r1 l2 ps,
  Forall2 (pieces_ok r1) l2 ps -> Forall (fun f => eend e1 <= ts f) l2 ->
  Forall2 (pieces_ok (e1 :: r1)) l2 ps.
Proof.
  intros e1 r1 l2 ps H. induction H as [|f pf l2 ps Hf _ IH]; intros Hall; constructor.
  - inversion Hall; subst. apply pieces_ok_cons_before; auto.
  - inversion Hall; subst. auto.
Qed.

Lemma piece_of_refl : forall f, 0 <= dur f -> piece_of f f.
Proof. intros f H. unfold piece_of. repeat split; auto; lia. Qed.

Lemma pieces_self : forall l1 e2,
  0 <= dur e2 -> (forall t, covers l1 t -> eend e2 <= t) -> pieces_ok l1 e2 [e2].
Proof.
  intros l1 e2 Hd Hlb.
  split; [|split; [|intros t; split]].
  - constructor; [apply piece_of_refl; exact Hd | constructor].
  - cbn [chain]. split; [exact Hd | split; [constructor | exact I]].
  - intros H. apply covers_cons in H. destruct H as [H | H]; [|destruct (covers_nil _ H)].
    split; [exact H|].
    intros Hc. apply Hlb in Hc. unfold inside in H. lia.
  - intros [Hi _]. apply covers_cons. left. exact Hi.
Qed.

Lemma pieces_singletons : forall l2,
  chain l2 -> Forall2 (pieces_ok []) l2 (map (fun f => [f]) l2).
Proof.
  induction l2 as [|f l2 IH]; intros Hc; cbn [map]; constructor.
  - apply pieces_self; [apply Hc|]. intros t H. destruct (covers_nil _ H).
  - apply IH. eapply chain_tail; eauto.
Qed.

Lemma concat_singletons : forall {X} (l : list X), concat (map (fun f => [f]) l) = l.
Proof. induction l; cbn [map concat app]; congruence. Qed.

Lemma covers_before_piece : forall e1 e2 t,
  covers (before_piece e1 e2) t <-> ts e2 <= t < ts e1.
Proof.
  intros e1 e2 t. unfold before_piece. destruct (ts e2 <? ts e1) eqn:E.
  - rewrite covers_cons. unfold inside, eend, set_dur; cbn [ts dur]. split.
    + intros [H | H]; [lia | destruct (covers_nil _ H)].
    + intros H. left. lia.
  - split; [intros H; destruct (covers_nil _ H) | lia].
Qed.

Lemma before_piece_pieces : forall e1 e2,
  0 <= dur e2 -> ts e1 < eend e2 -> Forall (piece_of e2) (before_piece e1 e2).
Proof.
  intros e1 e2 Hd Hlt. unfold before_piece. destruct (ts e2 <? ts e1) eqn:E; constructor; [|constructor].
  unfold piece_of, eend, set_dur in *; cbn [ts dur eid data]. repeat split; lia.
Qed.

(* chain of (before piece ++ later pieces) *)
Lemma before_piece_chain : forall e1 e2 p0,
  chain p0 -> Forall (fun p => ts e1 <= ts p) p0 -> chain (before_piece e1 e2 ++ p0).
Proof.
  intros e1 e2 p0 Hc Hall. unfold before_piece. destruct (ts e2 <? ts e1) eqn:E; cbn [app]; [|exact Hc].
  cbn [chain]. unfold eend, set_dur; cbn [ts dur]. repeat split; [lia | | exact Hc].
  eapply Forall_impl; [|exact Hall]. cbn beta. intros; lia.
Qed.

Lemma piece_of_trans_after : forall e1 e2 p,
  ts e2 <= eend e1 -> eend e1 <= eend e2 ->
  piece_of (after_piece e1 e2) p -> piece_of e2 p.
Proof.
  intros e1 e2 p H1 H2 (Hi & Hx & Hs & He & Hd).
  unfold after_piece, piece_of, eend in *; cbn [ts dur eid data] in *. repeat split; auto; lia.
Qed.

(* ---- the loop invariant is preserved backwards through one iteration ---- *)

Definition decomposes (l1 l2 out : list event) : Prop :=
  exists ps, Forall2 (pieces_ok l1) l2 ps /\ Interleave l1 (concat ps) out.

Lemma Next_inj : forall a b c a' b' c',
  Next a b c = Next a' b' c' -> a = a' /\ b = b' /\ c = c'.
Proof. intros a b c a' b' c' H. injection H. auto. Qed.

Lemma step_chain : forall e1 r1 e2 r2 emit l1' l2',
  chain (e1 :: r1) -> chain (e2 :: r2) ->
  uno_step_closed e1 r1 e2 r2 = Next emit l1' l2' ->
  chain l1' /\ chain l2' /\ (forall P : event -> Prop, Forall P (e1 :: r1) -> Forall P l1').
Proof.
  intros e1 r1 e2 r2 emit l1' l2' Hc1 Hc2. unfold uno_step_closed.
  assert (Ht : forall P : event -> Prop, Forall P (e1 :: r1) -> Forall P r1)
    by (intros P HP; inversion HP; auto).
  pose proof (chain_tail _ _ Hc1) as Hcr1. pose proof (chain_tail _ _ Hc2) as Hcr2.
  destruct (eend e2 <=? ts e1) eqn:E1; cbv iota.
  { intros Heq; apply Next_inj in Heq; destruct Heq as (<- & <- & <-). auto. }
  destruct (eend e1 <=? ts e2) eqn:E2; cbv iota.
  { intros Heq; apply Next_inj in Heq; destruct Heq as (<- & <- & <-). auto. }
  destruct (eend e2 >? eend e1) eqn:E3; cbv iota;
    intros Heq; apply Next_inj in Heq; destruct Heq as (<- & <- & <-).
  - split; [exact Hcr1|]. split; [|exact Ht].
    destruct Hc2 as (Hd2 & Hall & Hc2). cbn [chain]. unfold after_piece, eend in *; cbn [ts dur].
    split; [lia|]. split; [|exact Hc2].
    eapply Forall_impl; [|exact Hall]. cbn beta. intros; lia.
  - auto.
Qed.

Lemma step_decomposes : forall e1 r1 e2 r2 emit l1' l2' out',
  chain (e1 :: r1) -> chain (e2 :: r2) ->
  uno_step_closed e1 r1 e2 r2 = Next emit l1' l2' ->
  decomposes l1' l2' out' ->
  decomposes (e1 :: r1) (e2 :: r2) (emit ++ out').
Proof.
  intros e1 r1 e2 r2 emit l1' l2' out' Hc1 Hc2. unfold uno_step_closed.
  pose proof Hc1 as (Hd1 & Hall1 & Hcr1). pose proof Hc2 as (Hd2 & Hall2 & Hcr2).
  destruct (eend e2 <=? ts e1) eqn:E1; cbv iota.
  { (* e2 entirely before e1 *)
    intros Heq; apply Next_inj in Heq; destruct Heq as (<- & <- & <-); intros (ps & Hps & Hil).
    exists ([e2] :: ps). split.
    - constructor; [|exact Hps]. apply pieces_self; [exact Hd2|].
      intros t Ht. pose proof (chain_covers_lb _ _ _ Hc1 Ht). lia.
    - cbn [concat app]. constructor. exact Hil. }
  destruct (eend e1 <=? ts e2) eqn:E2; cbv iota.
  { (* e1 entirely before e2 (and before everything after e2) *)
    intros Heq; apply Next_inj in Heq; destruct Heq as (<- & <- & <-); intros (ps & Hps & Hil).
    exists ps. split.
    - apply pieces_all_cons_before; [exact Hps|].
      constructor; [lia|]. eapply Forall_impl; [|exact Hall2]. cbn beta. unfold eend in *. intros; lia.
    - cbn [app]. constructor. exact Hil. }
  destruct (eend e2 >? eend e1) eqn:E3; cbv iota.
  - (* overlap, e2 continues after e1: e1 is emitted, the rest of e2 stays current *)
    intros Heq; apply Next_inj in Heq; destruct Heq as (<- & <- & <-); intros (ps & Hps & Hil).
    inversion Hps as [|h p0 r2' pst Hp0 Hpst]; subst. clear Hps.
    destruct Hp0 as (Hpc & Hch & Hcov).
    exists ((before_piece e1 e2 ++ p0) :: pst). split.
    + constructor.
      * (* the pieces of e2 *)
        assert (Hlb : Forall (fun p => ts e1 <= ts p) p0).
        { eapply Forall_impl; [|exact Hpc]. cbn beta. intros p (_ & _ & Hs & _).
          unfold after_piece, eend in *; cbn [ts] in Hs. lia. }
        split; [|split; [|intros t; split]].
        -- apply Forall_app. split; [apply before_piece_pieces; [exact Hd2 | lia]|].
           eapply Forall_impl; [|exact Hpc]. cbn beta. intros p Hp.
           eapply piece_of_trans_after; [| |exact Hp]; lia.
        -- apply before_piece_chain; assumption.
        -- intros H. apply covers_app in H. destruct H as [H | H].
           ++ apply covers_before_piece in H. split; [unfold inside; lia|].
              intros Hc. pose proof (chain_covers_lb _ _ _ Hc1 Hc). lia.
           ++ apply Hcov in H. destruct H as [Hi Hn].
              unfold inside, after_piece, eend in Hi; cbn [ts dur] in Hi.
              split; [unfold inside, eend in *; lia|].
              intros Hc. apply covers_cons in Hc. destruct Hc as [Hc | Hc]; [|tauto].
              unfold inside, eend in *. lia.
        -- intros [Hi Hn]. apply covers_app.
           destruct (Z_lt_dec t (ts e1)) as [Hlt | Hge].
           ++ left. apply covers_before_piece. unfold inside in Hi. lia.
           ++ right. apply Hcov. split.
              ** unfold inside, after_piece, eend in *; cbn [ts dur].
                 assert (~ (ts e1 <= t < ts e1 + dur e1)).
                 { intros Hin. apply Hn. apply covers_cons. left. exact Hin. }
                 lia.
              ** intros Hc. apply Hn. apply covers_cons. right. exact Hc.
      * apply pieces_all_cons_before; [exact Hpst|].
        eapply Forall_impl; [|exact Hall2]. cbn beta. intros; lia.
    + cbn [concat]. rewrite <- !app_assoc. apply interleave_front_r.
      cbn [app]. constructor. exact Hil.
  - (* overlap, e2 ends inside e1: only the part before e1 survives, e1 stays current *)
    intros Heq; apply Next_inj in Heq; destruct Heq as (<- & <- & <-); intros (ps & Hps & Hil).
    exists (before_piece e1 e2 :: ps). split.
    + constructor; [|exact Hps].
      split; [|split; [|intros t; split]].
      * apply before_piece_pieces; [exact Hd2 | lia].
      * rewrite <- (app_nil_r (before_piece e1 e2)). apply before_piece_chain; [exact I | constructor].
      * intros H. apply covers_before_piece in H. split; [unfold inside; lia|].
        intros Hc. pose proof (chain_covers_lb _ _ _ Hc1 Hc). lia.
      * intros [Hi Hn]. apply covers_before_piece.
        assert (~ inside e1 t) by (intros Hin; apply Hn; apply covers_cons; left; exact Hin).
        unfold inside, eend in *. lia.
    + cbn [concat]. apply interleave_front_r. exact Hil.
Qed.

(* ---- the loop ---- *)

Lemma decomposes_nil_l : forall l2, chain l2 -> decomposes [] l2 ([] ++ l2).
Proof.
  intros l2 Hc. exists (map (fun f => [f]) l2). split.
  - apply pieces_singletons. exact Hc.
  - rewrite concat_singletons. apply interleave_nil_l.
Qed.

Lemma decomposes_nil_r : forall l1, decomposes l1 [] (l1 ++ []).
Proof.
  intros l1. exists []. split; [constructor|]. rewrite app_nil_r. apply interleave_nil_r.
Qed.

Lemma uno_loop_decomposes : forall fuel l1 l2 acc r,
  chain l1 -> chain l2 -> Forall ms_aligned l1 ->
  uno_loop fuel l1 l2 acc = Ok r ->
  exists out', r = acc ++ out' /\ decomposes l1 l2 out'.
Proof.
  induction fuel as [|fuel IH]; intros l1 l2 acc r Hc1 Hc2 Hal Hrun.
  - destruct l1 as [|e1 r1].
    { cbn [uno_loop] in Hrun. injection Hrun as <-. eexists; split; [reflexivity|].
      apply decomposes_nil_l; exact Hc2. }
    destruct l2 as [|e2 r2]; [|discriminate Hrun].
    cbn [uno_loop] in Hrun. injection Hrun as <-. eexists; split; [reflexivity|].
    apply decomposes_nil_r.
  - destruct l1 as [|e1 r1].
    { cbn [uno_loop] in Hrun. injection Hrun as <-. eexists; split; [reflexivity|].
      apply decomposes_nil_l; exact Hc2. }
    destruct l2 as [|e2 r2].
    { cbn [uno_loop] in Hrun. injection Hrun as <-. eexists; split; [reflexivity|].
      apply decomposes_nil_r. }
    cbn [uno_loop] in Hrun.
    rewrite uno_step_is_closed in Hrun
      by (try (inversion Hal; assumption); apply Hc1).
    destruct (uno_step_closed e1 r1 e2 r2) as [emit l1' l2'|c] eqn:Es; [|discriminate Hrun].
    destruct (step_chain _ _ _ _ _ _ _ Hc1 Hc2 Es) as (Hc1' & Hc2' & HP).
    destruct (IH _ _ _ _ Hc1' Hc2' (HP _ Hal) Hrun) as (out'' & -> & Hdec).
    exists (emit ++ out''). split; [rewrite app_assoc; reflexivity|].
    eapply step_decomposes; eassumption.
Qed.

(* ---- the theorems ---- *)

(* (1)+(2): the result is an order-preserving merge of list one (unchanged) with, for each
   list-two event in turn, its uncovered pieces *)
Theorem uno_decomposition : forall a b out,
  sorted_nonoverlap a -> sorted_nonoverlap b -> Forall ms_aligned a ->
  union_no_overlap a b = Ok out ->
  exists ps, Interleave a (concat ps) out /\ Forall2 (pieces_ok a) b ps.
Proof.
  intros a b out Ha Hb Hal Hrun. apply sorted_nonoverlap_chain in Ha, Hb.
  destruct (uno_loop_decomposes _ _ _ _ _ Ha Hb Hal Hrun) as (out' & -> & ps & Hps & Hil).
  exists ps. cbn [app]. auto.
Qed.

Theorem uno_list_one_intact : forall a b out,
  sorted_nonoverlap a -> sorted_nonoverlap b -> Forall ms_aligned a ->
  union_no_overlap a b = Ok out ->
  exists rest, Interleave a rest out.
Proof.
  intros a b out Ha Hb Hal Hrun.
  destruct (uno_decomposition _ _ _ Ha Hb Hal Hrun) as (ps & Hil & _). eauto.
Qed.

Lemma covers_concat_pieces : forall a b ps t,
  Forall2 (pieces_ok a) b ps -> (covers (concat ps) t <-> covers b t /\ ~ covers a t).
Proof.
  intros a b ps t H. induction H as [|f pf b ps (_ & _ & Hcov) _ IH]; cbn [concat].
  - split; [intros H; destruct (covers_nil _ H) | intros [H _]; destruct (covers_nil _ H)].
  - rewrite covers_app, covers_cons, IH, Hcov. tauto.
Qed.

Lemma interleave_covers : forall xs ys zs t,
  Interleave xs ys zs -> (covers zs t <-> covers xs t \/ covers ys t).
Proof.
  intros xs ys zs t H. unfold covers. split.
  - intros (e & Hin & He). apply (interleave_in _ _ _ e H) in Hin. destruct Hin; [left | right]; eauto.
  - intros [(e & Hin & He) | (e & Hin & He)]; exists e; split; auto;
      apply (interleave_in _ _ _ e H); auto.
Qed.

(* (4) the covered time is the union of both inputs *)
Theorem uno_cover_is_union : forall a b out,
  sorted_nonoverlap a -> sorted_nonoverlap b -> Forall ms_aligned a ->
  union_no_overlap a b = Ok out ->
  forall t, covers out t <-> covers a t \/ covers b t.
Proof.
  intros a b out Ha Hb Hal Hrun t.
  destruct (uno_decomposition _ _ _ Ha Hb Hal Hrun) as (ps & Hil & Hps).
  rewrite (interleave_covers _ _ _ t Hil), (covers_concat_pieces _ _ _ t Hps).
  destruct (covers_dec a t); tauto.
Qed.

(* (3) no two returned events overlap for a positive time *)

Lemma disjoint_sym : forall x y, disjoint x y -> disjoint y x.
Proof. unfold disjoint. intros x y H t [H1 H2]. apply (H t). auto. Qed.

Lemma FOP_app : forall {X} (R : X -> X -> Prop) l1 l2,
  ForallOrdPairs R l1 -> ForallOrdPairs R l2 ->
  (forall u v, In u l1 -> In v l2 -> R u v) -> ForallOrdPairs R (l1 ++ l2).
Proof.
  intros X R l1 l2 H1 H2 Hx. induction H1 as [|x l1 Hall H1 IH]; cbn [app]; [exact H2|].
  constructor.
  - apply Forall_app. split; [exact Hall|]. apply Forall_forall. intros v Hv.
    apply Hx; cbn [In]; auto.
  - apply IH. intros u v Hu Hv. apply Hx; cbn [In]; auto.
Qed.

Lemma FOP_interleave : forall {X} (R : X -> X -> Prop) xs ys zs,
  (forall u v, R u v -> R v u) ->
  ForallOrdPairs R xs -> ForallOrdPairs R ys ->
  (forall u v, In u xs -> In v ys -> R u v) ->
  Interleave xs ys zs -> ForallOrdPairs R zs.
Proof.
  intros X R xs ys zs Hsym Hxs Hys Hx Hil. induction Hil as [|x xs ys zs Hil IH|y xs ys zs Hil IH].
  - constructor.
  - inversion Hxs as [|? ? Hall Hxs']; subst. constructor.
    + apply Forall_forall. intros w Hw. apply (interleave_in _ _ _ w Hil) in Hw.
      destruct Hw as [Hw | Hw].
      * rewrite Forall_forall in Hall. auto.
      * apply Hx; cbn [In]; auto.
    + apply IH; auto. intros u v Hu Hv. apply Hx; cbn [In]; auto.
  - inversion Hys as [|? ? Hall Hys']; subst. constructor.
    + apply Forall_forall. intros w Hw. apply (interleave_in _ _ _ w Hil) in Hw.
      destruct Hw as [Hw | Hw].
      * apply Hsym. apply Hx; cbn [In]; auto.
      * rewrite Forall_forall in Hall. auto.
    + apply IH; auto. intros u v Hu Hv. apply Hx; cbn [In]; auto.
Qed.

Lemma chain_FOP_disjoint : forall l, chain l -> ForallOrdPairs disjoint l.
Proof.
  induction l as [|e l IH]; intros Hc; constructor.
  - destruct Hc as (_ & Hall & _). eapply Forall_impl; [|exact Hall]. cbn beta.
    intros f Hf t [H1 H2]. unfold inside in *. lia.
  - apply IH. eapply chain_tail; eauto.
Qed.

Lemma piece_inside : forall f p t, piece_of f p -> inside p t -> inside f t.
Proof. intros f p t (_ & _ & Hs & He & _) H. unfold inside in *. lia. Qed.

Lemma pieces_source : forall a b ps v,
  Forall2 (pieces_ok a) b ps -> In v (concat ps) ->
  exists f pf, In f b /\ pieces_ok a f pf /\ In v pf.
Proof.
  intros a b ps v H. induction H as [|f pf b ps Hf _ IH]; cbn [concat]; [intros []|].
  intros Hin. apply in_app_or in Hin. destruct Hin as [Hin | Hin].
  - exists f, pf. cbn [In]. auto.
  - destruct (IH Hin) as (f' & pf' & Hf' & Hok & Hv). exists f', pf'. cbn [In]. auto.
Qed.

Lemma pieces_FOP_disjoint : forall a b ps,
  chain b -> Forall2 (pieces_ok a) b ps -> ForallOrdPairs disjoint (concat ps).
Proof.
  intros a b ps Hc H. induction H as [|f pf b ps Hf Hrest IH]; cbn [concat]; [constructor|].
  apply FOP_app.
  - apply chain_FOP_disjoint. apply Hf.
  - apply IH. eapply chain_tail; eauto.
  - intros u v Hu Hv t [H1 H2].
    destruct Hf as (Hpc & _ & _). rewrite Forall_forall in Hpc.
    pose proof (piece_inside _ _ _ (Hpc u Hu) H1) as Hif.
    destruct (pieces_source _ _ _ _ Hrest Hv) as (f' & pf' & Hf' & (Hpc' & _ & _) & Hv').
    rewrite Forall_forall in Hpc'.
    pose proof (piece_inside _ _ _ (Hpc' v Hv') H2) as Hif'.
    destruct Hc as (_ & Hall & _). rewrite Forall_forall in Hall. specialize (Hall f' Hf').
    unfold inside in *. lia.
Qed.

Theorem uno_no_overlap : forall a b out,
  sorted_nonoverlap a -> sorted_nonoverlap b -> Forall ms_aligned a ->
  union_no_overlap a b = Ok out ->
  ForallOrdPairs disjoint out.
Proof.
  intros a b out Ha Hb Hal Hrun.
  destruct (uno_decomposition _ _ _ Ha Hb Hal Hrun) as (ps & Hil & Hps).
  apply sorted_nonoverlap_chain in Ha, Hb.
  eapply FOP_interleave; [exact disjoint_sym | | | | exact Hil].
  - apply chain_FOP_disjoint; exact Ha.
  - eapply pieces_FOP_disjoint; eauto.
  - intros u v Hu Hv t [H1 H2].
    destruct (pieces_source _ _ _ _ Hps Hv) as (f & pf & _ & (_ & _ & Hcov) & Hv').
    assert (Hcp : covers pf t) by (exists v; auto).
    apply Hcov in Hcp. apply (proj2 Hcp). exists u; auto.
Qed.

(* (1)+(2) with the per-event clause spelled out (pairwise disjointness instead of [chain]) *)
Definition uncovered_pieces (a : list event) (f : event) (pf : list event) : Prop :=
  Forall (piece_of f) pf /\ ForallOrdPairs disjoint pf /\
  (forall t, covers pf t <-> inside f t /\ ~ covers a t).

Theorem uno_list_two_uncovered_parts : forall a b out,
  sorted_nonoverlap a -> sorted_nonoverlap b -> Forall ms_aligned a ->
  union_no_overlap a b = Ok out ->
  exists ps, Interleave a (concat ps) out /\ Forall2 (uncovered_pieces a) b ps.
Proof.
  intros a b out Ha Hb Hal Hrun.
  destruct (uno_decomposition _ _ _ Ha Hb Hal Hrun) as (ps & Hil & Hps).
  exists ps. split; [exact Hil|]. clear Hil Hrun Hb.
  induction Hps as [|f pf b' ps' (H1 & H2 & H3) _ IH]; constructor; [|exact IH].
  split; [exact H1 | split; [apply chain_FOP_disjoint; exact H2 | exact H3]].
Qed.

(* the millisecond hypothesis on list one cannot be dropped: Event.timestamp floors the start
   of the trimmed remainder, so a list-one event ending off the millisecond grid yields an
   overlapping result (and a lost tail) *)
Lemma uno_alignment_needed :
  let a := [mkEvent None 0 1500 1] in
  let b := [mkEvent None 0 3000 2] in
  sorted_nonoverlap a /\ sorted_nonoverlap b /\
  union_no_overlap a b = Ok [mkEvent None 0 1500 1; mkEvent None 1000 1500 2] /\
  ~ ForallOrdPairs disjoint [mkEvent None 0 1500 1; mkEvent None 1000 1500 2].
Proof.
  cbv zeta. split; [cbn; lia|]. split; [cbn; lia|]. split; [vm_compute; reflexivity|].
  intros H. inversion H as [|? ? Hall _]; subst. inversion Hall as [|? ? Hd _]; subst.
  apply (Hd 1200). unfold inside, eend; cbn [ts dur]. lia.
Qed.
