(* REFINEMENT of the heap-level C19 transforms (Model/ClassifyHeap.v): the in-place programs
   categorize_h, tag_h, split_url_events_h compute exactly the reference semantics
   [sequential] of Proofs/ClassifyStore.v on the listed events WITH the identity of their
   data dicts, for every aliasing Python allows: the same Event several times in the list,
   one data dict shared by several Events, rule category lists shared with data values.
   Consequences (with Proofs/ClassifyStore.v): pairwise distinct data dicts - the result
   reads back as the functional model of Model/Classify.v; shared dicts - the data of an
   event ends up as f applied once per listed occurrence of its dict (later iterations see
   earlier writes), which is again the functional model whenever f is idempotent on it.

   Hypotheses, all about TYPES of objects (a data dict of a listed event is written; so it
   must not also serve as something that is read as a value):
     sepd    no member (nested list / dict value) of a listed data dict is itself a listed
             data dict                                   (Python allows it; see the notes)
     cats    a rule's category list object is not a listed data dict   (list vs dict)
   No closedness / acyclicity hypothesis. *)
From AwVerif Require Import Base.Prelude Model.MemHeap Model.TransformHeap Model.DictHeap
  Model.ClassifyBase Model.Classify Model.ClassifyHeap
  Proofs.MemHeapBase Proofs.MemHeapCopy Proofs.MemHeapFrame Proofs.TransformHeapCopy
  Proofs.TransformHeapBase Proofs.DictHeapBase Proofs.ClassifyHeapFrame Proofs.ClassifyStore
  Proofs.ClassifyProofs.
From Coq Require Import Arith.
Local Open Scope nat_scope.
Local Notation lookup := MemHeap.lookup.

(* ------------------------------------------------------------------------- *)
(* reading values and dicts *)

Lemma value_of_agree : forall h h' v, (forall l, v = ZK l -> lookup h' l = lookup h l) ->
  value_of h' v = value_of h v.
Proof. intros h h' [x|l] A; cbn [value_of]; auto. now rewrite (A l eq_refl). Qed.

Lemma cdict_of_agree : forall h h' z, (forall l, In l (unzip_k z) -> lookup h' l = lookup h l) ->
  cdict_of h' z = cdict_of h z.
Proof.
  intros h h'. induction z as [|[k v] z IH]; cbn [cdict_of]; intro A; auto.
  rewrite (value_of_agree h h' v).
  - rewrite IH; auto. intros l I. apply A. destruct v; cbn [unzip_k]; auto. right; auto.
  - intros l ->. apply A. cbn. auto.
Qed.

Lemma cdict_of_lt : forall h z cd, cdict_of h z = Ok cd -> forall l, In l (unzip_k z) -> l < length h.
Proof.
  intros h. induction z as [|[k v] z IH]; cbn [cdict_of unzip_k]; intros cd H l I; [destruct I|].
  destruct (bind_ok _ _ _ H) as (x & V & H1). destruct (bind_ok _ _ _ H1) as (r & R & _).
  destruct v as [s|m]; [eapply IH; eauto|].
  destruct I as [<-|I]; [|eapply IH; eauto].
  cbn [value_of] in V. destruct (lookup h m) as [c|] eqn:L; try discriminate. eapply lookup_lt; eauto.
Qed.

Lemma cdict_of_zset : forall h k x xv z cd, cdict_of h z = Ok cd -> value_of h x = Ok xv ->
  cdict_of h (zset k x z) = Ok (dset k xv cd).
Proof.
  intros h k x xv. induction z as [|[k' v'] z IH]; cbn [cdict_of zset]; intros cd H V.
  - inversion H; subst. cbn [dset cdict_of]. rewrite V. reflexivity.
  - destruct (bind_ok _ _ _ H) as (y & Vy & H1). destruct (bind_ok _ _ _ H1) as (r & R & H2).
    inversion H2; subst cd. cbn [dset].
    destruct (Z.eqb_spec k' k) as [->|N]; cbn [cdict_of].
    + rewrite V, R. reflexivity.
    + rewrite Vy, (IH _ R V). reflexivity.
Qed.

Lemma cdict_of_zget : forall h k z cd, cdict_of h z = Ok cd ->
  match zget k z with
  | None => dget k cd = None
  | Some x => exists xv, value_of h x = Ok xv /\ dget k cd = Some xv
  end.
Proof.
  intros h k. induction z as [|[k' v'] z IH]; cbn [cdict_of zget]; intros cd H.
  - inversion H. reflexivity.
  - destruct (bind_ok _ _ _ H) as (y & Vy & H1). destruct (bind_ok _ _ _ H1) as (r & R & H2).
    inversion H2; subst cd. cbn [dget]. destruct (k' =? k)%Z; [eauto|]. apply IH. exact R.
Qed.

Definition is_list (v : value) : bool := match v with VList _ => true | _ => false end.

Lemma value_of_zs : forall h x, is_list x = false -> value_of h (zs_of_value x) = Ok x.
Proof.
  intros h [s|l|ls] N; try discriminate; cbn [zs_of_value value_of]; unfold sval.
  - rewrite Z.even_mul. cbn [Z.even orb]. f_equal. f_equal. rewrite Z.mul_comm. apply Z.div_mul. lia.
  - rewrite Z.add_comm, Z.even_add_mul_2. cbn [Z.even]. f_equal. f_equal.
    rewrite (Z.add_comm 1).
    replace (2 * l + 1 - 1)%Z with (l * 2)%Z by lia. apply Z.div_mul. lia.
Qed.

(* ------------------------------------------------------------------------- *)
(* a listed event with the identity of its data dict *)

Definition cview (h : heap) (e : loc) : option vd :=
  match lookup h e with
  | Some (Cell (TEv i t d) [dl]) =>
      match rd_dict h dl with
      | Ok z => match cdict_of h z with Ok cd => Some (mkCE i t d cd, dl) | _ => None end
      | _ => None
      end
  | _ => None
  end.

Lemma cview_cev : forall h e, cev_at h e = option_map fst (cview h e).
Proof.
  intros h e. unfold cev_at, cview. destruct (lookup h e) as [[[i t d|p] [|dl [|? ?]]]|]; auto.
  destruct (rd_dict h dl) as [z| |]; auto. destruct (cdict_of h z); auto.
Qed.

Lemma cview_inv : forall h e v dl, cview h e = Some (v, dl) ->
  exists z, lookup h e = Some (Cell (TEv (c_eid v) (c_ts v) (c_dur v)) [dl]) /\
            rd_dict h dl = Ok z /\ cdict_of h z = Ok (c_data v).
Proof.
  unfold cview. intros h e v dl H.
  destruct (lookup h e) as [[[i t d|p] [|dl' [|? ?]]]|]; try discriminate.
  destruct (rd_dict h dl') as [z| |] eqn:R; try discriminate.
  destruct (cdict_of h z) as [cd| |] eqn:C; try discriminate. inversion H; subst. cbn. eauto.
Qed.

Lemma cview_intro : forall h e i t d dl z cd, lookup h e = Some (Cell (TEv i t d) [dl]) ->
  rd_dict h dl = Ok z -> cdict_of h z = Ok cd -> cview h e = Some (mkCE i t d cd, dl).
Proof. intros h e i t d dl z cd L R C. unfold cview. now rewrite L, R, C. Qed.

Definition views (h : heap) (ks : list loc) (vds : list vd) : Prop :=
  Forall2 (fun e x => cview h e = Some x) ks vds.

Lemma views_clist : forall h ks vds, views h ks vds -> opt_list (map (cev_at h) ks) = Some (map fst vds).
Proof.
  intros h ks vds F. induction F as [|e x ks vds E F IH]; cbn [map opt_list]; auto.
  rewrite cview_cev, E, IH. reflexivity.
Qed.

Lemma Forall2_in_l : forall {X Y} (R : X -> Y -> Prop) l l' x, Forall2 R l l' -> In x l -> exists y, In y l' /\ R x y.
Proof.
  intros X Y R l l' x F. induction F as [|a b l l' Rab F IH]; intros I; [destruct I|].
  destruct I as [->|I]; [exists b; split; auto; left; auto|].
  destruct (IH I) as (y & Iy & Ry). exists y. split; auto. right; auto.
Qed.

Lemma Forall2_in_r : forall {X Y} (R : X -> Y -> Prop) l l' y, Forall2 R l l' -> In y l' -> exists x, In x l /\ R x y.
Proof.
  intros X Y R l l' y F. induction F as [|a b l l' Rab F IH]; intros I; [destruct I|].
  destruct I as [->|I]; [exists a; split; auto; left; auto|].
  destruct (IH I) as (x & Ix & Rx). exists x. split; auto. right; auto.
Qed.

Lemma Forall2_map_r' : forall {X Y Z} (g : Y -> Z) (R : X -> Z -> Prop) l l',
  Forall2 (fun x y => R x (g y)) l l' -> Forall2 R l (map g l').
Proof. intros X Y Z g R l l' F. induction F; cbn; constructor; auto. Qed.

Lemma cview_same_dict : forall h e1 e2 v1 v2 dl, cview h e1 = Some (v1, dl) -> cview h e2 = Some (v2, dl) ->
  c_data v1 = c_data v2.
Proof.
  intros h e1 e2 v1 v2 dl H1 H2.
  destruct (cview_inv _ _ _ _ H1) as (z1 & _ & R1 & C1). destruct (cview_inv _ _ _ _ H2) as (z2 & _ & R2 & C2).
  rewrite R1 in R2. inversion R2; subst z2. rewrite C1 in C2. now inversion C2.
Qed.

Lemma views_consistent : forall h ks vds, views h ks vds -> consistent vds.
Proof.
  intros h ks vds F [va xa] [vb xb] Ia Ib E. cbn [fst snd] in *. subst xb.
  destruct (Forall2_in_r _ _ _ _ F Ia) as (ea & _ & Ha). destruct (Forall2_in_r _ _ _ _ F Ib) as (eb & _ & Hb).
  eapply cview_same_dict; eauto.
Qed.

(* ------------------------------------------------------------------------- *)
(* the generic loop *)

Section Sim.
  Variables (step : heap -> loc -> res heap) (f : dict -> res dict).
  Variable Inv : heap -> Prop.
  Variable dls : list loc.

  (* no member of a listed data dict is a listed data dict *)
  Definition sepd (h : heap) : Prop :=
    forall dl p kk l, In dl dls -> lookup h dl = Some (Cell (TNode p) kk) -> In l kk -> ~ In l dls.

  Definition step_ok : Prop := forall h e v dl, Inv h -> sepd h -> cview h e = Some (v, dl) -> In dl dls ->
    match f (c_data v) with
    | Ok d' => exists h', step h e = Ok h' /\ Inv h' /\ sepd h' /\
                 forall e' v' dl', cview h e' = Some (v', dl') -> In dl' dls ->
                   cview h' e' = Some (if Nat.eqb dl' dl then (set_cdata v' d', dl') else (v', dl'))
    | Err c => step h e = Err c
    | OutOfFuel => step h e = OutOfFuel
    end.
  Hypothesis Hstep : step_ok.

  Lemma each_sim : forall ks todo tdls,
    Forall2 (fun e (dl : loc) => In e ks) todo tdls ->
    forall h vds, map snd vds = dls -> Inv h -> sepd h -> views h ks vds ->
    Forall2 (fun e dl => exists v, cview h e = Some (v, dl)) todo tdls ->
    snd (each_h step h todo) = snd (srun f tdls vds) /\
    views (fst (each_h step h todo)) ks (fst (srun f tdls vds)) /\
    Inv (fst (each_h step h todo)) /\ sepd (fst (each_h step h todo)).
  Proof.
    intros ks todo tdls F0. induction F0 as [|e dl todo tdls Ie F0 IH]; intros h vds MS I S V F; cbn [each_h srun fst snd].
    - auto.
    - inversion F as [|? ? ? ? (v & Ce) F']; subst.
      destruct (Forall2_in_l _ _ _ _ V Ie) as (x & Ix & Cx). rewrite Ce in Cx. inversion Cx; subst x.
      assert (Idl : In dl dls) by (rewrite <- MS; apply in_map_iff; exists (v, dl); auto).
      rewrite (content_in _ _ _ (views_consistent _ _ _ V) Ix).
      pose proof (Hstep h e v dl I S Ce Idl) as HS.
      destruct (f (c_data v)) as [d'| |].
      + destruct HS as (h' & ST & I' & S' & K). rewrite ST. apply IH; auto.
        * now rewrite upd_snd.
        * unfold upd. apply Forall2_map_r'. eapply Forall2_impl_in; [|exact V].
          intros e' [v' dl'] _ Iv C'. cbn [fst snd]. rewrite (K _ _ _ C').
          -- destruct (Nat.eqb dl' dl); reflexivity.
          -- rewrite <- MS. apply in_map_iff. exists (v', dl'). auto.
        * clear IH. revert F' F0. clear -K V MS. intros F'. induction F' as [|e1 d1 t1 t2 (v1 & C1) F' IH]; intro F0; constructor.
          -- inversion F0; subst. destruct (Forall2_in_l _ _ _ _ V H2) as (x & Ix & Cx).
             rewrite C1 in Cx. inversion Cx; subst x.
             assert (I1 : In d1 (map snd vds)) by (apply in_map_iff; exists (v1, d1); auto).
             rewrite (K _ _ _ C1 I1). destruct (Nat.eqb d1 dl); eauto.
          -- apply IH. inversion F0; auto.
      + rewrite HS. cbn [fst snd]. auto.
      + rewrite HS. cbn [fst snd]. auto.
  Qed.
End Sim.

(* ------------------------------------------------------------------------- *)
(* one iteration's effect: allocations, then the dict object at dl overwritten *)

Lemma write_lookup_other : forall h news dl c l, l < length h -> l <> dl ->
  lookup (update (h ++ news) dl c) l = lookup h l.
Proof. intros. rewrite lookup_update_other by auto. now apply lookup_app_old. Qed.

Section WriteStep.
  Variable dls : list loc.

  (* the listed data dicts are dict / list cells *)
  Definition nodes (h : heap) : Prop :=
    forall x, In x dls -> exists p kk, lookup h x = Some (Cell (TNode p) kk).

  Lemma write_step : forall h news dl z z' d',
    In dl dls -> sepd dls h -> nodes h -> rd_dict h dl = Ok z ->
    cdict_of (update (h ++ news) dl (dict_cell z')) z' = Ok d' ->
    (forall l, In l (unzip_k z') -> ~ In l dls) ->
    sepd dls (update (h ++ news) dl (dict_cell z')) /\ nodes (update (h ++ news) dl (dict_cell z')) /\
    forall e' v' dl', cview h e' = Some (v', dl') -> In dl' dls ->
      cview (update (h ++ news) dl (dict_cell z')) e' =
      Some (if Nat.eqb dl' dl then (set_cdata v' d', dl') else (v', dl')).
  Proof.
    intros h news dl z z' d' Idl S N RD CD KZ.
    set (h' := update (h ++ news) dl (dict_cell z')) in *.
    destruct (rd_dict_inv _ _ _ RD) as (p0 & kk0 & Ldl & _).
    pose proof (lookup_lt _ _ _ Ldl) as Bdl.
    assert (Ldl' : lookup h' dl = Some (dict_cell z')).
    { unfold h'. apply lookup_update_same. rewrite app_length. lia. }
    assert (A : forall l, l < length h -> l <> dl -> lookup h' l = lookup h l)
      by (intros; unfold h'; now apply write_lookup_other).
    assert (Blt : forall x, In x dls -> x < length h).
    { intros x I. destruct (N x I) as (p & kk & L). eapply lookup_lt; eauto. }
    split; [|split].
    - intros dl0 p kk l I0 L Il. destruct (Nat.eq_dec dl0 dl) as [->|Ne].
      + rewrite Ldl' in L. unfold dict_cell in L. inversion L; subst. auto.
      + rewrite A in L by auto. eapply S; eauto.
    - intros x I. destruct (Nat.eq_dec x dl) as [->|Ne].
      + rewrite Ldl'. unfold dict_cell. eauto.
      + rewrite A by auto. auto.
    - intros e' v' dl' C' I'. destruct (cview_inv _ _ _ _ C') as (z0 & Le & R0 & C0).
      assert (Le' : lookup h' e' = Some (Cell (TEv (c_eid v') (c_ts v') (c_dur v')) [dl'])).
      { rewrite A; auto; [eapply lookup_lt; eauto|]. intros ->. rewrite Ldl in Le. discriminate. }
      destruct (Nat.eqb_spec dl' dl) as [->|Ne].
      + rewrite (cview_intro _ _ _ _ _ _ _ _ Le' (rd_dict_cell _ _ _ Ldl') CD). destruct v'; reflexivity.
      + destruct (rd_dict_inv _ _ _ R0) as (p1 & kk1 & L1 & _ & _ & UK1).
        assert (R0' : rd_dict h' dl' = Ok z0).
        { rewrite <- R0. apply rd_dict_agree. apply A; auto. }
        assert (C0' : cdict_of h' z0 = Ok (c_data v')).
        { rewrite <- C0. apply cdict_of_agree. intros l Il. apply A.
          - eapply cdict_of_lt; eauto.
          - intros ->. rewrite UK1 in Il. eapply S; eauto. }
        rewrite (cview_intro _ _ _ _ _ _ _ _ Le' R0' C0'). destruct v'; reflexivity.
  Qed.
End WriteStep.

(* ------------------------------------------------------------------------- *)
(* categorize *)

Definition cat_at (h : heap) (c : loc) (g : category) : Prop :=
  exists q, lookup h c = Some (Cell (TNode q) []) /\ ldec q = g.

(* the rule list: category list OBJECTS on the heap side, their contents on the model side *)
Definition classes_at (h : heap) (classes : list (loc * rule)) (gclasses : list (category * rule)) : Prop :=
  Forall2 (fun cr gr => snd cr = snd gr /\ cat_at h (fst cr) (fst gr)) classes gclasses.

Lemma cat_at_app : forall h news c g, cat_at h c g -> cat_at (h ++ news) c g.
Proof. intros h news c g (q & L & E). exists q. split; auto. now apply lookup_app_some. Qed.

Lemma matching_at : forall re h classes gclasses d, classes_at h classes gclasses ->
  Forall2 (cat_at h) (matching re classes d) (matching re gclasses d).
Proof.
  intros re h classes gclasses d F. unfold matching.
  induction F as [|[c r] [g r'] cl gl (E & A) F IH]; cbn [filter map]; [constructor|].
  cbn [fst snd] in *. subst r'. destruct (rule_match re r d); cbn [map]; auto.
Qed.

Lemma pick_h_spec : forall h cats gcats, Forall2 (cat_at h) cats gcats ->
  forall acc gacc, cat_at h acc gacc ->
  exists c, pick_h h cats acc = Ok c /\ cat_at h c (fold_left pick_deepest_cat gcats gacc) /\
            (c = acc \/ In c cats).
Proof.
  intros h cats gcats F. induction F as [|c g cats gcats A F IH]; intros acc gacc Aa; cbn [pick_h fold_left].
  - exists acc. auto.
  - destruct A as (q & L & E). destruct Aa as (qa & La & Ea).
    unfold cat_len. rewrite L, La. cbn [bind]. rewrite E, Ea.
    unfold pick_deepest_cat at 2.
    destruct (Z.of_nat (length g) >=? Z.of_nat (length gacc))%Z.
    + destruct (IH c g) as (c' & P & A' & O); [exists q; auto|].
      exists c'. split; auto. split; auto. destruct O as [->|O]; right; [left|right]; auto.
    + destruct (IH acc gacc) as (c' & P & A' & O); [exists qa; auto|].
      exists c'. split; auto. split; auto. destruct O as [->|O]; [left|right; right]; auto.
Qed.

Definition fcat (re : Z -> bool -> Z -> bool) (gclasses : list (category * rule)) (d : dict) : res dict :=
  Ok (dset K_category (VList (pick_category (matching re gclasses d))) d).

Section CategorizeSim.
  Variable re : Z -> bool -> Z -> bool.
  Variables (classes : list (loc * rule)) (gclasses : list (category * rule)) (dls : list loc).
  Hypothesis Hcats : forall c, In c (map fst classes) -> ~ In c dls.

  Definition cat_inv (h : heap) : Prop := classes_at h classes gclasses /\ nodes dls h.

  Lemma categorize_step_ok : step_ok (categorize_one_h re classes) (fcat re gclasses) cat_inv dls.
  Proof.
    intros h e v dl (CA & N) S Ce Idl. unfold fcat.
    destruct (cview_inv _ _ _ _ Ce) as (z & Le & RD & CD).
    destruct (rd_dict_inv _ _ _ RD) as (p0 & kk0 & Ldl & _ & _ & UK).
    pose proof (lookup_lt _ _ _ Ldl) as Bdl.
    assert (Blt : forall x, In x dls -> x < length h).
    { intros x I. destruct (N x I) as (p & kk & L). eapply lookup_lt; eauto. }
    unfold categorize_one_h, rd_data, ev_fields. rewrite Le. cbn [bind snd]. rewrite RD. cbn [bind].
    rewrite CD. cbn [bind alloc fst snd].
    set (hu := h ++ [Cell (TNode (lenc [S_uncategorized])) []]).
    assert (CAu : classes_at hu classes gclasses).
    { clear -CA. induction CA as [|x y l l' (E & A) F IH]; constructor; auto. split; auto. now apply cat_at_app. }
    assert (Au : cat_at hu (length h) uncategorized).
    { exists (lenc [S_uncategorized]). split; [apply lookup_alloc_new|apply ldec_lenc]. }
    destruct (pick_h_spec hu _ _ (matching_at re hu _ _ (c_data v) CAu) _ _ Au) as (c & PK & Ac & Oc).
    rewrite PK. cbn [bind]. fold (pick_category (matching re gclasses (c_data v))) in Ac.
    assert (Nc : ~ In c dls).
    { destruct Oc as [->|Ic]; [intro I; apply Blt in I; lia|].
      apply Hcats. eapply ClassifyHeapFrame.matching_in; eauto. }
    destruct (Nat.eqb_spec c dl) as [->|Ncd]; [contradiction|].
    unfold wr_dict. unfold hu at 1. rewrite (lookup_app_some _ _ _ _ Ldl).
    set (z' := zset K_category (ZK c) z).
    set (h' := update hu dl (dict_cell z')).
    assert (A : forall l, l < length h -> l <> dl -> lookup h' l = lookup h l)
      by (intros; unfold h', hu; now apply write_lookup_other).
    assert (CD' : cdict_of h' z' = Ok (dset K_category (VList (pick_category (matching re gclasses (c_data v)))) (c_data v))).
    { unfold z'. apply cdict_of_zset.
      - rewrite <- CD. apply cdict_of_agree. intros l Il. apply A; [eapply cdict_of_lt; eauto|].
        intros ->. rewrite UK in Il. eapply S; eauto.
      - destruct Ac as (q & Lc & Eq). cbn [value_of]. unfold h'. rewrite lookup_update_other by auto.
        rewrite Lc, Eq. reflexivity. }
    destruct (write_step dls h _ dl z z' _ Idl S N RD CD') as (S' & N' & K).
    { intros l Il. unfold z' in Il. destruct (unzip_k_zset _ _ _ _ Il) as [Old|E].
      - rewrite UK in Old. eapply S; eauto.
      - inversion E; subst l. exact Nc. }
    exists h'. split; [reflexivity|]. split; [|split; auto].
    split; auto.
    clear -CA A Hcats Blt Idl. assert (H : forall c, In c (map fst classes) -> ~ In c dls) by exact Hcats. clear Hcats.
    induction CA as [|[c0 r0] y l l' (E & q & L & Eq) F IH]; constructor.
    - split; auto. exists q. split; auto. cbn [fst] in *. rewrite A; auto; [eapply lookup_lt; eauto|].
      intros ->. apply (H dl); auto. left; auto.
    - apply IH. intros c1 I1. apply H. right; auto.
  Qed.
End CategorizeSim.

(* ------------------------------------------------------------------------- *)
(* tag *)

Definition ftag (re : Z -> bool -> Z -> bool) (classes : list (Z * rule)) (d : dict) : res dict :=
  Ok (dset K_tags (VList (matching re classes d)) d).

Lemma tag_step_ok : forall re classes dls,
  step_ok (tag_one_h re classes) (ftag re classes) (nodes dls) dls.
Proof.
  intros re classes dls h e v dl N S Ce Idl. unfold ftag.
  destruct (cview_inv _ _ _ _ Ce) as (z & Le & RD & CD).
  destruct (rd_dict_inv _ _ _ RD) as (p0 & kk0 & Ldl & _ & _ & UK).
  pose proof (lookup_lt _ _ _ Ldl) as Bdl.
  assert (Blt : forall x, In x dls -> x < length h).
  { intros x I. destruct (N x I) as (p & kk & L). eapply lookup_lt; eauto. }
  unfold tag_one_h, rd_data, ev_fields. rewrite Le. cbn [bind snd]. rewrite RD. cbn [bind].
  rewrite CD. cbn [bind alloc fst snd].
  set (ht := h ++ [Cell (TNode (lenc (matching re classes (c_data v)))) []]).
  unfold wr_dict. unfold ht at 1. rewrite (lookup_app_some _ _ _ _ Ldl).
  set (z' := zset K_tags (ZK (length h)) z).
  set (h' := update ht dl (dict_cell z')).
  assert (A : forall l, l < length h -> l <> dl -> lookup h' l = lookup h l)
    by (intros; unfold h', ht; now apply write_lookup_other).
  assert (CD' : cdict_of h' z' = Ok (dset K_tags (VList (matching re classes (c_data v))) (c_data v))).
  { unfold z'. apply cdict_of_zset.
    - rewrite <- CD. apply cdict_of_agree. intros l Il. apply A; [eapply cdict_of_lt; eauto|].
      intros ->. rewrite UK in Il. eapply S; eauto.
    - cbn [value_of]. unfold h'. rewrite lookup_update_other by lia. unfold ht. rewrite lookup_alloc_new.
      now rewrite ldec_lenc. }
  destruct (write_step dls h _ dl z z' _ Idl S N RD CD') as (S' & N' & K).
  { intros l Il. unfold z' in Il. destruct (unzip_k_zset _ _ _ _ Il) as [Old|E].
    - rewrite UK in Old. eapply S; eauto.
    - inversion E; subst l. intro I. apply Blt in I. lia. }
  exists h'. split; [reflexivity|]. auto.
Qed.

(* ------------------------------------------------------------------------- *)
(* split_url_events *)

Section SplitSim.
  Variable urlparse : value -> res urlparts.
  Variable starts_www : value -> bool.
  Variable drop4 : value -> value.

  Definition split_dict (d : dict) : res dict :=
    match dget K_url d with
    | None => Ok d
    | Some url =>
        bind (urlparse url) (fun p =>
          let d1 := dset K_protocol (u_scheme p) d in
          let d2 := dset K_domain (if starts_www (u_netloc p) then drop4 (u_netloc p) else u_netloc p) d1 in
          let d3 := dset K_path (u_path p) d2 in
          let d4 := dset K_params (u_params p) d3 in
          let d5 := dset K_options (u_query p) d4 in
          Ok (dset K_identifier (u_fragment p) d5))
    end.

  (* urlparse returns str or bytes components, never a list of strings *)
  Definition scalar_parts (p : urlparts) : Prop :=
    is_list (u_scheme p) = false /\
    is_list (if starts_www (u_netloc p) then drop4 (u_netloc p) else u_netloc p) = false /\
    is_list (u_path p) = false /\ is_list (u_params p) = false /\
    is_list (u_query p) = false /\ is_list (u_fragment p) = false.
  Hypothesis Hparts : forall u p, urlparse u = Ok p -> scalar_parts p.

  Lemma split_step_ok : forall dls,
    step_ok (split_one_h urlparse starts_www drop4) split_dict (nodes dls) dls.
  Proof.
    intros dls h e v dl N S Ce Idl. unfold split_dict.
    destruct (cview_inv _ _ _ _ Ce) as (z & Le & RD & CD).
    destruct (rd_dict_inv _ _ _ RD) as (p0 & kk0 & Ldl & _ & _ & UK).
    unfold split_one_h, rd_data, ev_fields. rewrite Le. cbn [bind snd]. rewrite RD. cbn [bind].
    pose proof (cdict_of_zget h K_url z _ CD) as X.
    destruct (zget K_url z) as [u|].
    2:{ rewrite X. exists h. split; auto. split; auto. split; auto.
        intros e' v' dl' C' I'. rewrite C'. destruct (Nat.eqb_spec dl' dl) as [->|Ne]; auto.
        rewrite <- (cview_same_dict _ _ _ _ _ _ C' Ce). destruct v'; reflexivity. }
    destruct X as (url & V & ->). rewrite V. cbn [bind].
    destruct (urlparse url) as [p| |] eqn:UP; cbn [bind]; auto.
    destruct (Hparts _ _ UP) as (P1 & P2 & P3 & P4 & P5 & P6).
    unfold wr_dict. rewrite Ldl.
    set (z' := split_zdict starts_www drop4 p z).
    replace (update h dl (dict_cell z')) with (update (h ++ []) dl (dict_cell z')) by now rewrite app_nil_r.
    set (h' := update (h ++ []) dl (dict_cell z')).
    assert (A : forall l, l < length h -> l <> dl -> lookup h' l = lookup h l)
      by (intros; unfold h'; now apply write_lookup_other).
    match goal with |- exists _, _ /\ _ /\ _ /\ forall _ _ _, _ -> _ -> _ = Some (if _ then (set_cdata _ ?d, _) else _) => set (d' := d) end.
    assert (CD' : cdict_of h' z' = Ok d').
    { unfold z', d', split_zdict.
      repeat (apply cdict_of_zset; [|apply value_of_zs; assumption]).
      rewrite <- CD. apply cdict_of_agree. intros l Il. apply A; [eapply cdict_of_lt; eauto|].
      intros ->. rewrite UK in Il. eapply S; eauto. }
    destruct (write_step dls h _ dl z z' _ Idl S N RD CD') as (S' & N' & K).
    { intros l Il. unfold z' in Il. apply split_zdict_kids in Il. rewrite UK in Il. eapply S; eauto. }
    exists h'. split; [reflexivity|]. auto.
  Qed.
End SplitSim.

(* ------------------------------------------------------------------------- *)
(* the whole calls *)

Lemma cview_app : forall h news e x, cview h e = Some x -> cview (h ++ news) e = Some x.
Proof.
  intros h news e [v dl] C. destruct (cview_inv _ _ _ _ C) as (z & Le & R & CD).
  destruct (rd_dict_inv _ _ _ R) as (p & kk & Ld & _).
  rewrite (cview_intro (h ++ news) e _ _ _ dl z (c_data v) (lookup_app_some _ _ _ _ Le)).
  - destruct v; reflexivity.
  - rewrite <- R. apply rd_dict_agree. rewrite Ld. now apply lookup_app_some.
  - rewrite <- CD. apply cdict_of_agree. intros l Il. apply lookup_app_old. eapply cdict_of_lt; eauto.
Qed.

Lemma views_nodes : forall h ks vds, views h ks vds -> nodes (map snd vds) h.
Proof.
  intros h ks vds V x I. apply in_map_iff in I. destruct I as ([v dl] & <- & I). cbn [snd].
  destruct (Forall2_in_r _ _ _ _ V I) as (e & _ & C). destruct (cview_inv _ _ _ _ C) as (z & _ & R & _).
  destruct (rd_dict_inv _ _ _ R) as (p & kk & L & _). eauto.
Qed.

Lemma views_todo : forall h ks vds, views h ks vds ->
  Forall2 (fun e (dl : loc) => In e ks) ks (map snd vds) /\
  Forall2 (fun e dl => exists v, cview h e = Some (v, dl)) ks (map snd vds).
Proof.
  intros h ks vds V. split.
  - assert (G : forall l, incl l ks -> forall l' : list vd, length l = length l' ->
                Forall2 (fun e (dl : loc) => In e ks) l (map snd l')).
    { induction l as [|a l IH]; intros I [|b l'] E; try discriminate; cbn [map]; constructor.
      - apply I. left; auto.
      - apply IH; [intros x Ix; apply I; right; auto|]. cbn in E. lia. }
    apply G; [apply incl_refl|]. clear -V. induction V; cbn; auto.
  - clear -V. induction V as [|e [v dl] ks vds C V IH]; cbn [map]; constructor; eauto.
Qed.

Lemma srun_total : forall f, (forall d, exists d', f d = Ok d') ->
  forall todo vds, incl todo (map snd vds) -> snd (srun f todo vds) = Ok tt.
Proof.
  intros f T. induction todo as [|dl t IH]; intros vds I; cbn [srun snd]; auto.
  unfold content. destruct (find (fun x => Nat.eqb (snd x) dl) vds) as [x|] eqn:F.
  - destruct (T (c_data (fst x))) as (d' & E). rewrite E. apply IH. rewrite upd_snd.
    intros y Iy. apply I. right; auto.
  - exfalso. assert (Idl : In dl (map snd vds)) by (apply I; left; auto).
    apply in_map_iff in Idl. destruct Idl as (x & E & Ix). pose proof (find_none _ _ F _ Ix) as N.
    cbn beta in N. rewrite E, Nat.eqb_refl in N. discriminate.
Qed.

(* categorize: for every aliasing; vds' is what the reference semantics computes *)
Theorem categorize_h_sequential : forall re h L classes gclasses p ks vds,
  lookup h L = Some (Cell (TNode p) ks) -> views h ks vds -> classes_at h classes gclasses ->
  sepd (map snd vds) h -> (forall c, In c (map fst classes) -> ~ In c (map snd vds)) ->
  exists h' L' vds',
    categorize_h re h L classes = (h', Ok L') /\
    sequential (fcat re gclasses) vds = (vds', Ok tt) /\
    lookup h' L' = Some (Cell (TNode EVENT_LIST) ks) /\ views h' ks vds' /\
    clist_at h' L' = Some (map fst vds').
Proof.
  intros re h L classes gclasses p ks vds Lk V CA S HC.
  destruct (views_todo _ _ _ V) as [T1 T2].
  destruct (each_sim _ _ _ _ (categorize_step_ok re classes gclasses (map snd vds) HC) ks ks (map snd vds) T1
              h vds eq_refl (conj CA (views_nodes _ _ _ V)) S V T2) as (E1 & V1 & _ & _).
  fold (sequential (fcat re gclasses) vds) in E1, V1.
  assert (OK : snd (sequential (fcat re gclasses) vds) = Ok tt).
  { apply srun_total; [intro d; unfold fcat; eauto|apply incl_refl]. }
  rewrite OK in E1.
  unfold categorize_h, list_elems. rewrite Lk, E1. cbn [new_list alloc fst snd].
  eexists _, _, (fst (sequential (fcat re gclasses) vds)). split; [reflexivity|].
  split; [rewrite <- OK; apply surjective_pairing|].
  split; [apply lookup_alloc_new|].
  assert (V2 : views (fst (each_h (categorize_one_h re classes) h ks) ++ [Cell (TNode EVENT_LIST) ks]) ks
                 (fst (sequential (fcat re gclasses) vds))).
  { eapply Forall2_impl_in; [|exact V1]. intros a b _ _ C. now apply cview_app. }
  split; auto. unfold clist_at. rewrite lookup_alloc_new. now apply views_clist.
Qed.

Theorem tag_h_sequential : forall re h L classes p ks vds,
  lookup h L = Some (Cell (TNode p) ks) -> views h ks vds -> sepd (map snd vds) h ->
  exists h' L' vds',
    tag_h re h L classes = (h', Ok L') /\
    sequential (ftag re classes) vds = (vds', Ok tt) /\
    lookup h' L' = Some (Cell (TNode EVENT_LIST) ks) /\ views h' ks vds' /\
    clist_at h' L' = Some (map fst vds').
Proof.
  intros re h L classes p ks vds Lk V S.
  destruct (views_todo _ _ _ V) as [T1 T2].
  destruct (each_sim _ _ _ _ (tag_step_ok re classes (map snd vds)) ks ks (map snd vds) T1
              h vds eq_refl (views_nodes _ _ _ V) S V T2) as (E1 & V1 & _ & _).
  fold (sequential (ftag re classes) vds) in E1, V1.
  assert (OK : snd (sequential (ftag re classes) vds) = Ok tt).
  { apply srun_total; [intro d; unfold ftag; eauto|apply incl_refl]. }
  rewrite OK in E1.
  unfold tag_h, list_elems. rewrite Lk, E1. cbn [new_list alloc fst snd].
  eexists _, _, (fst (sequential (ftag re classes) vds)). split; [reflexivity|].
  split; [rewrite <- OK; apply surjective_pairing|].
  split; [apply lookup_alloc_new|].
  assert (V2 : views (fst (each_h (tag_one_h re classes) h ks) ++ [Cell (TNode EVENT_LIST) ks]) ks
                 (fst (sequential (ftag re classes) vds))).
  { eapply Forall2_impl_in; [|exact V1]. intros a b _ _ C. now apply cview_app. }
  split; auto. unfold clist_at. rewrite lookup_alloc_new. now apply views_clist.
Qed.

(* split_url_events: same outcome (returned / exception class) as the reference semantics;
   the heap reached shows its state (also when raising midway: the events handled so far
   are annotated); the argument list object itself is returned *)
Theorem split_h_sequential : forall up sw d4 h L p ks vds,
  (forall u q, up u = Ok q -> scalar_parts sw d4 q) ->
  lookup h L = Some (Cell (TNode p) ks) -> views h ks vds -> sepd (map snd vds) h ->
  exists h' vds',
    fst (split_url_events_h up sw d4 h L) = h' /\
    fst (sequential (split_dict up sw d4) vds) = vds' /\
    views h' ks vds' /\
    match snd (sequential (split_dict up sw d4) vds) with
    | Ok _ => snd (split_url_events_h up sw d4 h L) = Ok L
    | Err c => snd (split_url_events_h up sw d4 h L) = Err c
    | OutOfFuel => snd (split_url_events_h up sw d4 h L) = OutOfFuel
    end.
Proof.
  intros up sw d4 h L p ks vds HP Lk V S.
  destruct (views_todo _ _ _ V) as [T1 T2].
  destruct (each_sim _ _ _ _ (split_step_ok up sw d4 HP (map snd vds)) ks ks (map snd vds) T1
              h vds eq_refl (views_nodes _ _ _ V) S V T2) as (E1 & V1 & _ & _).
  fold (sequential (split_dict up sw d4) vds) in E1, V1.
  unfold split_url_events_h, list_elems. rewrite Lk.
  eexists _, _. split; [reflexivity|]. split; [reflexivity|].
  rewrite E1. destruct (snd (sequential (split_dict up sw d4) vds)) as [[]| |]; cbn [fst snd]; auto.
Qed.

(* ------------------------------------------------------------------------- *)
(* simplify_string: the loop that follows the deep copy (it runs on the copies) *)

Section SimplifySim.
  Variables (sp sf sd : Z -> Z).

  Definition simplify_dict (key : Z) (d : dict) : res dict :=
    bind (sub_key sp key d) (fun d1 =>
      if (key =? K_title)%Z && dhas K_app d1
      then bind (sub_key sf key d1) (fun d2 => sub_key sd key d2)
      else Ok d1).

  Lemma zsub_spec : forall h g key z cd, cdict_of h z = Ok cd ->
    match zsub g key z with
    | Ok z' => exists cd', sub_key g key cd = Ok cd' /\ cdict_of h z' = Ok cd' /\
                           (forall l, In l (unzip_k z') -> In l (unzip_k z))
    | Err c => sub_key g key cd = Err c
    | OutOfFuel => False
    end.
  Proof.
    intros h g key z cd CD. unfold zsub, sub_key. pose proof (cdict_of_zget h key z cd CD) as X.
    destruct (zget key z) as [[v|l]|].
    - destruct X as (xv & V & ->). cbn [value_of] in V. inversion V; subst xv. unfold sval.
      destruct (Z.even v) eqn:EV; auto.
      exists (dset key (VStr (g (v / 2)%Z)) cd). split; auto. split.
      + apply cdict_of_zset; auto. cbn [value_of]. unfold sval. rewrite Z.even_mul. cbn [Z.even orb].
        do 2 f_equal. rewrite Z.mul_comm. apply Z.div_mul. lia.
      + intros l I. apply unzip_k_zset in I. destruct I as [I|I]; [auto|discriminate].
    - destruct X as (xv & V & ->). cbn [value_of] in V.
      destruct (lookup h l) as [[[? ? ?|q] [|? ?]]|]; inversion V; subst; reflexivity.
    - now rewrite X.
  Qed.

  Lemma zhas_dhas : forall h k z cd, cdict_of h z = Ok cd -> zhas k z = dhas k cd.
  Proof.
    intros h k z cd CD. unfold zhas, dhas. pose proof (cdict_of_zget h k z cd CD) as X.
    destruct (zget k z); [destruct X as (xv & _ & ->); reflexivity|now rewrite X].
  Qed.

  Lemma simplify_zdict_spec : forall h key z cd, cdict_of h z = Ok cd ->
    match simplify_zdict sp sf sd key z with
    | Ok z' => exists cd', simplify_dict key cd = Ok cd' /\ cdict_of h z' = Ok cd' /\
                           (forall l, In l (unzip_k z') -> In l (unzip_k z))
    | Err c => simplify_dict key cd = Err c
    | OutOfFuel => False
    end.
  Proof.
    intros h key z cd CD. unfold simplify_zdict, simplify_dict.
    pose proof (zsub_spec h sp key z cd CD) as X1.
    destruct (zsub sp key z) as [z1| |]; cbn [bind]; [|rewrite X1; reflexivity|contradiction].
    destruct X1 as (cd1 & S1 & C1 & K1). rewrite S1. cbn [bind]. rewrite (zhas_dhas h _ _ _ C1).
    destruct ((key =? K_title)%Z && dhas K_app cd1); [|eauto].
    pose proof (zsub_spec h sf key z1 cd1 C1) as X2.
    destruct (zsub sf key z1) as [z2| |]; cbn [bind]; [|rewrite X2; reflexivity|contradiction].
    destruct X2 as (cd2 & S2 & C2 & K2). rewrite S2. cbn [bind].
    pose proof (zsub_spec h sd key z2 cd2 C2) as X3.
    destruct (zsub sd key z2) as [z3| |]; [|auto|contradiction].
    destruct X3 as (cd3 & S3 & C3 & K3). eauto 8.
  Qed.

  Lemma simplify_step_ok : forall key dls,
    step_ok (simplify_one_h sp sf sd key) (simplify_dict key) (nodes dls) dls.
  Proof.
    intros key dls h e v dl N S Ce Idl.
    destruct (cview_inv _ _ _ _ Ce) as (z & Le & RD & CD).
    destruct (rd_dict_inv _ _ _ RD) as (p0 & kk0 & Ldl & _ & _ & UK).
    unfold simplify_one_h, rd_data, ev_fields. rewrite Le. cbn [bind snd]. rewrite RD. cbn [bind].
    pose proof (simplify_zdict_spec h key z _ CD) as X.
    destruct (simplify_zdict sp sf sd key z) as [z'| |]; cbn [bind]; [|rewrite X; reflexivity|contradiction].
    destruct X as (d' & SD & CD1 & KZ). rewrite SD.
    unfold wr_dict. rewrite Ldl.
    replace (update h dl (dict_cell z')) with (update (h ++ []) dl (dict_cell z')) by now rewrite app_nil_r.
    set (h' := update (h ++ []) dl (dict_cell z')).
    assert (A : forall l, l < length h -> l <> dl -> lookup h' l = lookup h l)
      by (intros; unfold h'; now apply write_lookup_other).
    assert (CD' : cdict_of h' z' = Ok d').
    { rewrite <- CD1. apply cdict_of_agree. intros l Il. apply A; [eapply cdict_of_lt; eauto|].
      intros ->. apply KZ in Il. rewrite UK in Il. eapply S; eauto. }
    destruct (write_step dls h _ dl z z' _ Idl S N RD CD') as (S' & N' & K).
    { intros l Il. apply KZ in Il. rewrite UK in Il. eapply S; eauto. }
    exists h'. split; [reflexivity|]. auto.
  Qed.

  (* the loop of simplify_string on any list of Events (in the call: the deep copies) *)
  Theorem simplify_loop_sequential : forall key h ks vds, views h ks vds -> sepd (map snd vds) h ->
    snd (each_h (simplify_one_h sp sf sd key) h ks) = snd (sequential (simplify_dict key) vds) /\
    views (fst (each_h (simplify_one_h sp sf sd key) h ks)) ks (fst (sequential (simplify_dict key) vds)).
  Proof.
    intros key h ks vds V S. destruct (views_todo _ _ _ V) as [T1 T2].
    destruct (each_sim _ _ _ _ (simplify_step_ok key (map snd vds)) ks ks (map snd vds) T1
                h vds eq_refl (views_nodes _ _ _ V) S V T2) as (E1 & V1 & _ & _).
    split; auto.
  Qed.
End SimplifySim.

(* ------------------------------------------------------------------------- *)
(* consequences: pairwise distinct data dicts = the functional models of Model/Classify.v *)

Lemma fe_total : forall (g : dict -> dict) vds,
  map_res (fe (fun d => Ok (g d))) vds = Ok (map (fun x => (set_cdata (fst x) (g (c_data (fst x))), snd x)) vds).
Proof.
  intros g. induction vds as [|[v dl] vds IH]; cbn [ClassifyBase.map_res map]; auto.
  unfold fe at 1. cbn [fst snd bind]. rewrite IH. reflexivity.
Qed.

Theorem categorize_h_refines : forall re h L classes gclasses p ks vds,
  lookup h L = Some (Cell (TNode p) ks) -> views h ks vds -> classes_at h classes gclasses ->
  sepd (map snd vds) h -> (forall c, In c (map fst classes) -> ~ In c (map snd vds)) ->
  NoDup (map snd vds) ->
  exists h' L', categorize_h re h L classes = (h', Ok L') /\
                clist_at h' L' = Some (categorize re (map fst vds) gclasses).
Proof.
  intros re h L classes gclasses p ks vds Lk V CA S HC ND.
  destruct (categorize_h_sequential re h L classes gclasses p ks vds Lk V CA S HC)
    as (h' & L' & vds' & H & SQ & _ & _ & CL).
  exists h', L'. split; auto. rewrite CL. f_equal.
  pose proof (sequential_nodup (fcat re gclasses) vds ND) as X. unfold fcat in X at 1.
  rewrite fe_total in X. cbv beta iota in X. rewrite SQ in X. inversion X; subst vds'.
  rewrite map_map. unfold categorize. rewrite map_map. reflexivity.
Qed.

Theorem tag_h_refines : forall re h L classes p ks vds,
  lookup h L = Some (Cell (TNode p) ks) -> views h ks vds -> sepd (map snd vds) h ->
  NoDup (map snd vds) ->
  exists h' L', tag_h re h L classes = (h', Ok L') /\
                clist_at h' L' = Some (tag re (map fst vds) classes).
Proof.
  intros re h L classes p ks vds Lk V S ND.
  destruct (tag_h_sequential re h L classes p ks vds Lk V S) as (h' & L' & vds' & H & SQ & _ & _ & CL).
  exists h', L'. split; auto. rewrite CL. f_equal.
  pose proof (sequential_nodup (ftag re classes) vds ND) as X. unfold ftag in X at 1.
  rewrite fe_total in X. cbv beta iota in X. rewrite SQ in X. inversion X; subst vds'.
  rewrite map_map. unfold tag. rewrite map_map. reflexivity.
Qed.

(* shared data dicts: f once per listed occurrence of the dict *)
Theorem categorize_h_shared : forall re h L classes gclasses p ks vds,
  lookup h L = Some (Cell (TNode p) ks) -> views h ks vds -> classes_at h classes gclasses ->
  sepd (map snd vds) h -> (forall c, In c (map fst classes) -> ~ In c (map snd vds)) ->
  exists h' L' vds', categorize_h re h L classes = (h', Ok L') /\ clist_at h' L' = Some (map fst vds') /\
                     Forall2 (result_of (fcat re gclasses) (map snd vds)) vds vds'.
Proof.
  intros re h L classes gclasses p ks vds Lk V CA S HC.
  destruct (categorize_h_sequential re h L classes gclasses p ks vds Lk V CA S HC)
    as (h' & L' & vds' & H & SQ & _ & _ & CL).
  exists h', L', vds'. split; auto. split; auto.
  eapply srun_closed; [eapply views_consistent; eauto|apply incl_refl|exact SQ].
Qed.

Theorem tag_h_shared : forall re h L classes p ks vds,
  lookup h L = Some (Cell (TNode p) ks) -> views h ks vds -> sepd (map snd vds) h ->
  exists h' L' vds', tag_h re h L classes = (h', Ok L') /\ clist_at h' L' = Some (map fst vds') /\
                     Forall2 (result_of (ftag re classes) (map snd vds)) vds vds'.
Proof.
  intros re h L classes p ks vds Lk V S.
  destruct (tag_h_sequential re h L classes p ks vds Lk V S) as (h' & L' & vds' & H & SQ & _ & _ & CL).
  exists h', L', vds'. split; auto. split; auto.
  eapply srun_closed; [eapply views_consistent; eauto|apply incl_refl|exact SQ].
Qed.

(* ------------------------------------------------------------------------- *)
(* split_url_events against the functional model *)

Lemma fe_split_one : forall up sw d4 v dl,
  fe (split_dict up sw d4) (v, dl) = bind (split_one up sw d4 v) (fun v' => Ok (v', dl)).
Proof.
  intros up sw d4 v dl. unfold fe, split_dict, split_one. cbn [fst snd].
  destruct (dget K_url (c_data v)) as [url|]; [|destruct v; reflexivity].
  destruct (up url); reflexivity.
Qed.

Lemma fe_split : forall up sw d4 vds,
  match split_url_events up sw d4 (map fst vds) with
  | Ok out => exists vds', map_res (fe (split_dict up sw d4)) vds = Ok vds' /\ map fst vds' = out
  | Err c => map_res (fe (split_dict up sw d4)) vds = Err c
  | OutOfFuel => map_res (fe (split_dict up sw d4)) vds = OutOfFuel
  end.
Proof.
  intros up sw d4. unfold split_url_events. induction vds as [|[v dl] vds IH]; cbn [map ClassifyBase.map_res fst].
  - exists []. auto.
  - rewrite fe_split_one. destruct (split_one up sw d4 v) as [v'| |]; cbn [bind]; auto.
    destruct (ClassifyBase.map_res (split_one up sw d4) (map fst vds)) as [out| |]; cbn [bind].
    + destruct IH as (vds' & M & E). rewrite M. cbn [bind]. exists ((v', dl) :: vds'). split; auto. cbn. now rewrite E.
    + now rewrite IH.
    + now rewrite IH.
Qed.

Lemma dset_same_id : forall k v d, dget k d = Some v -> dset k v d = d.
Proof.
  intros k v. induction d as [|[k' v'] d IH]; cbn [dget dset]; intro H; try discriminate.
  destruct (Z.eqb_spec k' k) as [->|N]; [now inversion H|]. now rewrite IH.
Qed.

Lemma split_dict_idem : forall up sw d4 d d', split_dict up sw d4 d = Ok d' -> split_dict up sw d4 d' = Ok d'.
Proof.
  intros up sw d4 d d' H. unfold split_dict in H.
  destruct (dget K_url d) as [url|] eqn:U.
  - destruct (up url) as [p| |] eqn:UP; cbn [bind] in H; try discriminate. injection H as E.
    unfold split_dict.
    assert (U' : dget K_url d' = Some url).
    { rewrite <- E. repeat (rewrite dget_dset_other by (intro Q; vm_compute in Q; discriminate Q)). exact U. }
    rewrite U', UP. cbn [bind]. f_equal.
    assert (G : forall k v, dget k d' = Some v -> dset k v d' = d') by (intros; now apply dset_same_id).
    repeat (rewrite G; [|rewrite <- E;
      repeat (first [apply dget_dset_same | rewrite dget_dset_other by (intro Q; vm_compute in Q; discriminate Q)])]).
    reflexivity.
  - inversion H; subst d'. unfold split_dict. now rewrite U.
Qed.

Lemma data_of_views : forall h ks vds l, views h ks vds -> data_of h ks l -> In l (map snd vds).
Proof.
  intros h ks vds l V (e & i & t & d & Ie & Le).
  destruct (Forall2_in_l _ _ _ _ V Ie) as ([v dl] & Ix & C).
  destruct (cview_inv _ _ _ _ C) as (z & Le' & _). rewrite Le in Le'. inversion Le'; subst.
  apply in_map_iff. exists (v, dl). auto.
Qed.

Lemma split_h_list_kept : forall up sw d4 h L p ks vds, lookup h L = Some (Cell (TNode p) ks) ->
  views h ks vds -> ~ In L (map snd vds) ->
  lookup (fst (split_url_events_h up sw d4 h L)) L = Some (Cell (TNode p) ks).
Proof.
  intros up sw d4 h L p ks vds Lk V NL.
  destruct (split_h_frame up sw d4 h L _ _ (surjective_pairing _)) as [(NO & _)|(p' & ks' & Lk' & RW & _)].
  - exfalso. eapply NO; eauto.
  - rewrite Lk in Lk'. inversion Lk'; subst p' ks'.
    rewrite (rewrites_other _ _ _ _ _ RW L); auto; [eapply lookup_lt; eauto|].
    intro D. apply NL. eapply data_of_views; eauto.
Qed.

(* pairwise distinct data dicts: outcome and result of the functional model *)
Theorem split_h_refines : forall up sw d4 h L p ks vds,
  (forall u q, up u = Ok q -> scalar_parts sw d4 q) ->
  lookup h L = Some (Cell (TNode p) ks) -> views h ks vds -> sepd (map snd vds) h ->
  ~ In L (map snd vds) -> NoDup (map snd vds) ->
  match split_url_events up sw d4 (map fst vds) with
  | Ok out => snd (split_url_events_h up sw d4 h L) = Ok L /\
              clist_at (fst (split_url_events_h up sw d4 h L)) L = Some out
  | Err c => snd (split_url_events_h up sw d4 h L) = Err c
  | OutOfFuel => snd (split_url_events_h up sw d4 h L) = OutOfFuel
  end.
Proof.
  intros up sw d4 h L p ks vds HP Lk V S NL ND.
  destruct (split_h_sequential up sw d4 h L p ks vds HP Lk V S) as (h' & vds' & E1 & E2 & V' & ST).
  pose proof (sequential_nodup (split_dict up sw d4) vds ND) as X.
  pose proof (fe_split up sw d4 vds) as Y.
  destruct (split_url_events up sw d4 (map fst vds)) as [out| |].
  - destruct Y as (vds2 & M & EO). rewrite M in X. rewrite X in ST, E2. cbn [fst snd] in *. subst vds2.
    split; auto. unfold clist_at. rewrite (split_h_list_kept _ _ _ _ _ _ _ _ Lk V NL).
    rewrite E1. rewrite <- EO. now apply views_clist.
  - rewrite Y in X. now rewrite X in ST.
  - rewrite Y in X. now rewrite X in ST.
Qed.

(* any aliasing: split_dict is idempotent, so whenever the call returns the result is the
   functional model's *)
Theorem split_h_refines_shared : forall up sw d4 h L p ks vds L',
  (forall u q, up u = Ok q -> scalar_parts sw d4 q) ->
  lookup h L = Some (Cell (TNode p) ks) -> views h ks vds -> sepd (map snd vds) h ->
  ~ In L (map snd vds) ->
  snd (split_url_events_h up sw d4 h L) = Ok L' ->
  L' = L /\ exists out, split_url_events up sw d4 (map fst vds) = Ok out /\
                        clist_at (fst (split_url_events_h up sw d4 h L)) L = Some out.
Proof.
  intros up sw d4 h L p ks vds L' HP Lk V S NL OK.
  destruct (split_h_sequential up sw d4 h L p ks vds HP Lk V S) as (h' & vds' & E1 & E2 & V' & ST).
  destruct (snd (sequential (split_dict up sw d4) vds)) as [[]| |] eqn:SS;
    rewrite ST in OK; inversion OK; subst L'. split; auto.
  assert (SQ : sequential (split_dict up sw d4) vds = (vds', Ok tt)).
  { rewrite <- E2, <- SS. apply surjective_pairing. }
  pose proof (sequential_idempotent _ vds vds' (views_consistent _ _ _ V)
                (fun x d' _ H => split_dict_idem up sw d4 _ _ H) SQ) as M.
  pose proof (fe_split up sw d4 vds) as Y.
  destruct (split_url_events up sw d4 (map fst vds)) as [out| |]; try (rewrite Y in M; discriminate).
  destruct Y as (vds2 & M2 & EO). rewrite M in M2. inversion M2; subst vds2.
  exists out. split; auto. unfold clist_at. rewrite (split_h_list_kept _ _ _ _ _ _ _ _ Lk V NL).
  rewrite E1, <- EO. now apply views_clist.
Qed.

(* ------------------------------------------------------------------------- *)
(* categorize / tag are idempotent on a dict whose `$category` / `$tags` is not a string:
   with shared dicts the result is then the functional model's as well *)

Lemma val_hit_dset : forall re pat ic k c d,
  (forall s, dget k d <> Some (VStr s)) ->
  existsb (val_hit re pat ic) (map (fun v => Some v) (dvalues (dset k (VList c) d))) =
  existsb (val_hit re pat ic) (map (fun v => Some v) (dvalues d)).
Proof.
  intros re pat ic k c. unfold dvalues. induction d as [|[k' v'] d IH]; cbn [dset dget map existsb]; intro H.
  - reflexivity.
  - destruct (Z.eqb_spec k' k) as [->|N]; cbn [map existsb snd].
    + f_equal. cbn [val_hit]. destruct v'; auto. exfalso. eapply H; eauto.
    + f_equal. apply IH. exact H.
Qed.

Lemma rule_match_dset : forall re r k c d, (forall s, dget k d <> Some (VStr s)) ->
  rule_match re r (dset k (VList c) d) = rule_match re r d.
Proof.
  intros re r k c d H. unfold rule_match. destruct (r_regex r) as [[pat ic]|]; auto.
  unfold rule_values. destruct (optlist_truthy (r_select r)).
  - induction (optlist_items (r_select r)) as [|key l IH]; cbn [map existsb]; auto.
    rewrite IH. f_equal. destruct (Z.eq_dec key k) as [->|N].
    + rewrite dget_dset_same. cbn [val_hit]. destruct (dget k d) as [[s| |]|] eqn:G; auto.
      exfalso. eapply H; eauto.
    + now rewrite dget_dset_other.
  - now apply val_hit_dset.
Qed.

Lemma matching_dset : forall re {C} (classes : list (C * rule)) k c d, (forall s, dget k d <> Some (VStr s)) ->
  matching re classes (dset k (VList c) d) = matching re classes d.
Proof.
  intros re C classes k c d H. unfold matching. f_equal. apply filter_ext. intros [x r]. cbn [snd].
  now apply rule_match_dset.
Qed.

Lemma fcat_idem : forall re gclasses d d', (forall s, dget K_category d <> Some (VStr s)) ->
  fcat re gclasses d = Ok d' -> fcat re gclasses d' = Ok d'.
Proof.
  intros re gclasses d d' H E. unfold fcat in *. inversion E; subst d'. clear E.
  rewrite (matching_dset re gclasses _ _ _ H). f_equal. apply dset_same_id. apply dget_dset_same.
Qed.

Lemma ftag_idem : forall re classes d d', (forall s, dget K_tags d <> Some (VStr s)) ->
  ftag re classes d = Ok d' -> ftag re classes d' = Ok d'.
Proof.
  intros re classes d d' H E. unfold ftag in *. inversion E; subst d'. clear E.
  rewrite (matching_dset re classes _ _ _ H). f_equal. apply dset_same_id. apply dget_dset_same.
Qed.

Theorem categorize_h_refines_shared : forall re h L classes gclasses p ks vds,
  lookup h L = Some (Cell (TNode p) ks) -> views h ks vds -> classes_at h classes gclasses ->
  sepd (map snd vds) h -> (forall c, In c (map fst classes) -> ~ In c (map snd vds)) ->
  (forall x s, In x vds -> dget K_category (c_data (fst x)) <> Some (VStr s)) ->
  exists h' L', categorize_h re h L classes = (h', Ok L') /\
                clist_at h' L' = Some (categorize re (map fst vds) gclasses).
Proof.
  intros re h L classes gclasses p ks vds Lk V CA S HC NS.
  destruct (categorize_h_sequential re h L classes gclasses p ks vds Lk V CA S HC)
    as (h' & L' & vds' & H & SQ & _ & _ & CL).
  exists h', L'. split; auto. rewrite CL. f_equal.
  pose proof (sequential_idempotent _ vds vds' (views_consistent _ _ _ V)
                (fun x d' I E => fcat_idem re gclasses _ _ (fun s => NS x s I) E) SQ) as M.
  unfold fcat in M at 1. rewrite fe_total in M. inversion M; subst vds'.
  rewrite map_map. unfold categorize. rewrite map_map. reflexivity.
Qed.

Theorem tag_h_refines_shared : forall re h L classes p ks vds,
  lookup h L = Some (Cell (TNode p) ks) -> views h ks vds -> sepd (map snd vds) h ->
  (forall x s, In x vds -> dget K_tags (c_data (fst x)) <> Some (VStr s)) ->
  exists h' L', tag_h re h L classes = (h', Ok L') /\
                clist_at h' L' = Some (tag re (map fst vds) classes).
Proof.
  intros re h L classes p ks vds Lk V S NS.
  destruct (tag_h_sequential re h L classes p ks vds Lk V S) as (h' & L' & vds' & H & SQ & _ & _ & CL).
  exists h', L'. split; auto. rewrite CL. f_equal.
  pose proof (sequential_idempotent _ vds vds' (views_consistent _ _ _ V)
                (fun x d' I E => ftag_idem re classes _ _ (fun s => NS x s I) E) SQ) as M.
  unfold ftag in M at 1. rewrite fe_total in M. inversion M; subst vds'.
  rewrite map_map. unfold tag. rewrite map_map. reflexivity.
Qed.
