(* FRAME and SHARING of the heap-level C16 transforms (Model/GroupHeap.v).
   sort / limit / filter / concat: the heap grows by exactly one cell, the returned list,
   whose elements are elements of the argument list(s).
   merge_events_by_keys / chunk_events_by_key: [kept] for every heap; on heaps without
   dangling references [grown P]: what the new cells refer to. *)
From AwVerif Require Import Base.Prelude Model.MemHeap Model.TransformHeap Model.DictHeap Model.Group
  Model.GroupHeap
  Proofs.MemHeapBase Proofs.MemHeapCopy Proofs.MemHeapFrame Proofs.TransformHeapCopy
  Proofs.TransformHeapBase Proofs.DictHeapBase Proofs.IntersectSort.
From Coq Require Import Arith Relations Sorting.Permutation.
Local Open Scope nat_scope.
Local Notation lookup := MemHeap.lookup.

(* ------------------------------------------------------------------------- *)
(* one new cell: the returned list *)

Definition one_new_list (h : heap) (h' : heap) (L' : loc) (out : list loc) : Prop :=
  h' = h ++ [Cell (TNode EVENT_LIST) out] /\ L' = length h.

Lemma new_list_one : forall h out, one_new_list h (fst (new_list h out)) (snd (new_list h out)) out.
Proof. intros. split; reflexivity. Qed.

Lemma one_new_list_kept : forall h h' L' out, one_new_list h h' L' out -> kept h h'.
Proof. intros h h' L' out [-> _]. apply kept_alloc, kept_refl. Qed.

Lemma one_new_list_grown : forall (P : loc -> Prop) h h' L' out, one_new_list h h' L' out ->
  (forall k, In k out -> k < length h /\ P k) -> grown P h h'.
Proof.
  intros P h h' L' out [-> _] I. apply grown_alloc; [apply grown_refl|].
  cbn. intros k Ik. destruct (I k Ik). auto.
Qed.

Lemma keyed_by_snd : forall rd h ks kl, keyed_by rd h ks = Ok kl -> map snd kl = ks.
Proof.
  unfold keyed_by. intros rd h. induction ks as [|k ks IH]; cbn [map_res]; intros kl H.
  - inversion H. reflexivity.
  - destruct (rd h k) as [t| |]; cbn [bind] in H; try discriminate.
    destruct (map_res _ ks) as [r| |] eqn:M; cbn [bind] in H; try discriminate.
    inversion H; subst. cbn. f_equal. apply IH. reflexivity.
Qed.

Lemma sorted_by_perm : forall rd h ks srt, sorted_by rd h ks = Ok srt -> Permutation srt ks.
Proof.
  unfold sorted_by. intros rd h ks srt H.
  destruct (keyed_by rd h ks) as [kl| |] eqn:K; cbn [bind] in H; try discriminate.
  inversion H; subst. rewrite <- (keyed_by_snd _ _ _ _ K). apply Permutation_map. apply sort_by_perm.
Qed.

Theorem sort_ts_h_shape : forall h L h' L', sort_by_timestamp_h h L = Ok (h', L') ->
  exists p ks out, lookup h L = Some (Cell (TNode p) ks) /\ one_new_list h h' L' out /\ Permutation out ks.
Proof.
  unfold sort_by_timestamp_h. intros h L h' L' H.
  destruct (bind_ok _ _ _ H) as (ks & E & H1). destruct (list_elems_inv _ _ _ E) as (p & Lk).
  destruct (bind_ok _ _ _ H1) as (s & S & H2). inversion H2; subst.
  exists p, ks, s. split; auto. split; [split; reflexivity|eapply sorted_by_perm; eauto].
Qed.

Theorem sort_dur_h_shape : forall h L h' L', sort_by_duration_h h L = Ok (h', L') ->
  exists p ks out, lookup h L = Some (Cell (TNode p) ks) /\ one_new_list h h' L' out /\ Permutation out ks.
Proof.
  unfold sort_by_duration_h. intros h L h' L' H.
  destruct (bind_ok _ _ _ H) as (ks & E & H1). destruct (list_elems_inv _ _ _ E) as (p & Lk).
  destruct (bind_ok _ _ _ H1) as (s & S & H2). inversion H2; subst.
  exists p, ks, s. split; auto. split; [split; reflexivity|eapply sorted_by_perm; eauto].
Qed.

Theorem limit_h_shape : forall h L c h' L', limit_events_h h L c = Ok (h', L') ->
  exists p ks, lookup h L = Some (Cell (TNode p) ks) /\ one_new_list h h' L' (limit_l ks c).
Proof.
  unfold limit_events_h. intros h L c h' L' H.
  destruct (bind_ok _ _ _ H) as (ks & E & H1). destruct (list_elems_inv _ _ _ E) as (p & Lk).
  inversion H1; subst. exists p, ks. split; auto. split; reflexivity.
Qed.

Lemma limit_l_incl : forall {X} (l : list X) c, incl (limit_l l c) l.
Proof.
  intro X. assert (F : forall n (l : list X) x, In x (firstn n l) -> In x l).
  { intros n l x I. rewrite <- (firstn_skipn n l). apply in_or_app. left. exact I. }
  intros l c x I. unfold limit_l in I. destruct (c <? 0)%Z; eapply F; eauto.
Qed.

Theorem concat_h_shape : forall h L1 L2 h' L', concat_h h L1 L2 = Ok (h', L') ->
  exists p1 ks1 p2 ks2, lookup h L1 = Some (Cell (TNode p1) ks1) /\ lookup h L2 = Some (Cell (TNode p2) ks2) /\
                        one_new_list h h' L' (ks1 ++ ks2).
Proof.
  unfold concat_h. intros h L1 L2 h' L' H.
  destruct (bind_ok _ _ _ H) as (ks1 & E1 & H1). destruct (list_elems_inv _ _ _ E1) as (p1 & Lk1).
  destruct (bind_ok _ _ _ H1) as (ks2 & E2 & H2). destruct (list_elems_inv _ _ _ E2) as (p2 & Lk2).
  inversion H2; subst. exists p1, ks1, p2, ks2. repeat split; auto.
Qed.

Theorem filter_h_shape : forall h L key vals ex h' L', filter_keyvals_h h L key vals ex = Ok (h', L') ->
  exists p ks out, lookup h L = Some (Cell (TNode p) ks) /\ one_new_list h h' L' out /\ incl out ks.
Proof.
  unfold filter_keyvals_h. intros h L key vals ex h' L' H.
  destruct (bind_ok _ _ _ H) as (ks & E & H1). destruct (list_elems_inv _ _ _ E) as (p & Lk).
  destruct (bind_ok _ _ _ H1) as (out & F & H2). inversion H2; subst.
  exists p, ks, out. split; auto. split; [split; reflexivity|eapply filter_res_incl; eauto].
Qed.

(* ------------------------------------------------------------------------- *)
(* merge_events_by_keys *)

(* an object that is a member of the data dict of an element of the argument list *)
Definition data_member (h : heap) (ks : list loc) (k : loc) : Prop :=
  exists e i t d dl p kk, In e ks /\ lookup h e = Some (Cell (TEv i t d) [dl]) /\
                          lookup h dl = Some (Cell (TNode p) kk) /\ In k kk.

(* ... that has no mutable members itself (a flat list) *)
Definition flat_member (h : heap) (ks : list loc) (k : loc) : Prop :=
  data_member h ks k /\ exists q, lookup h k = Some (Cell (TNode q) []).

Lemma unzip_k_zselect : forall keys z l, In l (unzip_k (zselect keys z)) ->
  exists k, In k keys /\ zget k z = Some (ZK l).
Proof.
  unfold zselect. intros keys z.
  assert (G : forall acc l, In l (unzip_k (fold_left (fun acc k => match zget k z with Some v => zset k v acc | None => acc end) keys acc)) ->
                            In l (unzip_k acc) \/ exists k, In k keys /\ zget k z = Some (ZK l)).
  { induction keys as [|k keys IH]; cbn [fold_left]; intros acc l I; auto.
    destruct (IH _ _ I) as [J|(k' & Ik & E)].
    - destruct (zget k z) as [v|] eqn:Z; auto.
      destruct (unzip_k_zset _ _ _ _ J) as [J'| ->]; auto.
      right. exists k. split; [left; auto|auto].
    - right. exists k'. split; [right; auto|auto]. }
  intros l I. destruct (G [] l I) as [[]|X]; auto.
Qed.

Lemma ckey_h_flat : forall h keys z ck, ckey_h h keys z = Ok ck ->
  forall k l, In k keys -> zget k z = Some (ZK l) -> exists q, lookup h l = Some (Cell (TNode q) []).
Proof.
  intros h. induction keys as [|k0 keys IH]; cbn [ckey_h]; intros z ck H k l I Z; [destruct I|].
  destruct I as [->|I].
  - rewrite Z in H. destruct (bind_ok _ _ _ H) as (q & Hq & _). cbn in Hq.
    destruct (lookup h l) as [[[? ? ?|q'] [|? ?]]|]; try discriminate. eauto.
  - destruct (zget k0 z) as [v|].
    + destruct (bind_ok _ _ _ H) as (q & _ & H1). destruct (bind_ok _ _ _ H1) as (r & R & _). eapply IH; eauto.
    + eapply IH; eauto.
Qed.

Section Merge.
  Variables (keys : list Z) (h0 : heap) (ks : list loc).
  Hypothesis Hks : closed h0 -> forall e, In e ks -> e < length h0.

  Definition minv (h : heap) (m : groups) : Prop :=
    kept h0 h /\ (forall c g, In (c, g) m -> length h0 <= g < length h) /\
    (closed h0 -> grown (flat_member h0 ks) h0 h).

  Lemma gfind_In : forall ck m g, gfind ck m = Some g -> exists c, In (c, g) m.
  Proof.
    induction m as [|[c g'] m IH]; cbn [gfind]; intros g H; try discriminate.
    destruct (ckey_eqb c ck).
    - inversion H; subst. exists c. left; auto.
    - destruct (IH _ H) as (c' & I). exists c'. right; auto.
  Qed.

  Lemma merge_step_inv : forall h m e h' m', In e ks -> minv h m ->
    merge_step_h keys (h, m) e = Ok (h', m') -> minv h' m'.
  Proof.
    intros h m e h' m' Ie (K & GF & GR) H. unfold merge_step_h in H. cbn [fst snd] in H.
    destruct (bind_ok _ _ _ H) as (z & EZ & H1). clear H.
    destruct (bind_ok _ _ _ H1) as (ck & CK & H2). clear H1.
    destruct (ev_dict_inv _ _ _ EZ) as (i & t & d & dl & Le & RD).
    destruct (rd_dict_inv _ _ _ RD) as (p & kk & Ld & _ & _ & UK).
    destruct (gfind ck m) as [g|] eqn:GFI.
    - (* an existing group: += on a new Event *)
      destruct (bind_ok _ _ _ H2) as (dg & _ & H3). destruct (bind_ok _ _ _ H3) as (de & _ & H4).
      destruct (bind_ok _ _ _ H4) as (h1 & W & H5). inversion H5; subst h1 m'. clear H2 H3 H4 H5.
      destruct (wr_dur_retag _ _ _ _ W) as (i1 & t1 & d1 & ks1 & Lg & ->).
      destruct (gfind_In _ _ _ GFI) as (c & Ic). destruct (GF _ _ Ic) as [Fg Bg].
      split; [now apply kept_update|]. split.
      + intros c' g' I'. rewrite update_length. apply (GF _ _ I').
      + intro Cl. eapply grown_retag; eauto.
    - (* a new group *)
      destruct (bind_ok _ _ _ H2) as (t1 & _ & H3). destruct (bind_ok _ _ _ H3) as (d1 & _ & H4).
      inversion H4; subst h' m'. clear H2 H3 H4. cbn [alloc fst snd].
      split; [now apply kept_alloc, kept_alloc|]. split.
      + intros c' g' I'. rewrite !app_length; cbn [length]. apply in_app_or in I'. destruct I' as [I'|[I'|[]]].
        * specialize (GF _ _ I'). lia.
        * inversion I'; subst. rewrite app_length; cbn [length]. destruct K. lia.
      + intro Cl. specialize (GR Cl). pose proof (Hks Cl e Ie) as Be.
        destruct K as [G F].
        assert (Le0 : lookup h0 e = Some (Cell (TEv i t d) [dl])) by (rewrite <- F; auto).
        assert (Bd : dl < length h0) by (eapply Cl; eauto; cbn; auto).
        assert (Ld0 : lookup h0 dl = Some (Cell (TNode p) kk)) by (rewrite <- F; auto).
        apply grown_alloc; [apply grown_alloc; auto|].
        * unfold dict_cell. cbn [children]. intros k Ik.
          destruct (unzip_k_zselect _ _ _ Ik) as (k0 & Ik0 & Z0).
          assert (Ikk : In k kk) by (rewrite <- UK; eapply zget_unzip_k; eauto).
          assert (Bk : k < length h0) by (eapply Cl; eauto).
          split; [lia|]. right. split.
          -- exists e, i, t, d, dl, p, kk. auto.
          -- destruct (ckey_h_flat _ _ _ _ CK _ _ Ik0 Z0) as (q & Lq). exists q. rewrite <- F; auto.
        * cbn [children]. intros k [<-|[]]. rewrite app_length; cbn [length]. split; [lia|left; lia].
  Qed.

  Lemma merge_fold_inv : forall evs h m h' m', incl evs ks -> minv h m ->
    fold_res (merge_step_h keys) evs (h, m) = Ok (h', m') -> minv h' m'.
  Proof.
    induction evs as [|e evs IH]; cbn [fold_res]; intros h m h' m' I M H.
    - inversion H; subst. auto.
    - destruct (bind_ok _ _ _ H) as ([h1 m1] & S1 & H1).
      eapply IH; [|eapply merge_step_inv; eauto|eauto].
      + intros x Ix. apply I. right; auto.
      + apply I. left; auto.
  Qed.

  (* the second pass: Event( **merged) *)
  Definition rinv (gs : list loc) (h : heap) (outs : list loc) : Prop :=
    kept h0 h /\ (forall g, In g gs -> length h0 <= g < length h) /\
    (forall o, In o outs -> length h0 <= o < length h) /\
    (closed h0 -> grown (flat_member h0 ks) h0 h).

  Lemma rebuild_inv : forall gs h outs g h' outs', In g gs -> rinv gs h outs ->
    rebuild_h (h, outs) g = Ok (h', outs') -> rinv gs h' outs'.
  Proof.
    intros gs h outs g h' outs' Ig (K & GF & OF & GR) H. unfold rebuild_h in H. cbn [fst snd] in H.
    destruct (bind_ok _ _ _ H) as (f & F & H1). clear H.
    destruct (bind_ok _ _ _ H1) as (z & RD & H2). clear H1.
    pose proof (ev_fields_inv _ _ _ F) as Lg. destruct (GF _ Ig) as [Fg Bg].
    destruct z as [|zz z].
    - inversion H2; subst h' outs'. clear H2. cbn [alloc fst snd].
      split; [now apply kept_alloc, kept_alloc|]. split; [|split].
      + intros g' I'. specialize (GF _ I'). rewrite !app_length; cbn [length]. lia.
      + intros o I'. rewrite !app_length; cbn [length]. apply in_app_or in I'. destruct I' as [I'|[<-|[]]].
        * specialize (OF _ I'). lia.
        * rewrite app_length; cbn [length]. destruct K. lia.
      + intro Cl. specialize (GR Cl). apply grown_alloc; [apply grown_alloc; auto|].
        * cbn. intros k [].
        * cbn [children]. intros k [<-|[]]. rewrite app_length; cbn [length]. destruct K. split; [lia|left; lia].
    - inversion H2; subst h' outs'. clear H2. cbn [alloc fst snd].
      split; [now apply kept_alloc|]. split; [|split].
      + intros g' I'. specialize (GF _ I'). rewrite !app_length; cbn [length]. lia.
      + intros o I'. rewrite !app_length; cbn [length]. apply in_app_or in I'. destruct I' as [I'|[<-|[]]].
        * specialize (OF _ I'). lia.
        * destruct K. lia.
      + intro Cl. specialize (GR Cl). apply grown_alloc; auto.
        cbn [children]. intros k [<-|[]]. destruct GR as [_ S].
        destruct (S g _ (snd f) Fg Lg) as [B O]; [left; auto|]. split; [lia|auto].
  Qed.

  Lemma rebuild_fold_inv : forall gs gs0 h outs h' outs', incl gs gs0 -> rinv gs0 h outs ->
    fold_res rebuild_h gs (h, outs) = Ok (h', outs') -> rinv gs0 h' outs'.
  Proof.
    induction gs as [|g gs IH]; cbn [fold_res]; intros gs0 h outs h' outs' I M H.
    - inversion H; subst. auto.
    - destruct (bind_ok _ _ _ H) as ([h1 o1] & S1 & H1).
      eapply IH; [|eapply rebuild_inv; eauto|eauto].
      + intros x Ix. apply I. right; auto.
      + apply I. left; auto.
  Qed.
End Merge.

Theorem merge_h_shape : forall h L keys h' L', merge_events_by_keys_h h L keys = Ok (h', L') ->
  (keys = [] /\ h' = h /\ L' = L) \/
  (keys <> [] /\ exists p ks out,
     lookup h L = Some (Cell (TNode p) ks) /\
     kept h h' /\ length h <= L' < length h' /\
     lookup h' L' = Some (Cell (TNode EVENT_LIST) out) /\
     (forall o, In o out -> length h <= o < length h') /\
     (closed h -> grown (flat_member h ks) h h')).
Proof.
  unfold merge_events_by_keys_h. intros h L keys h' L' H.
  destruct keys as [|k0 keys].
  - cbn in H. inversion H; subst. left. auto.
  - right. split; [discriminate|].
    replace (Z.of_nat (length (k0 :: keys)) <? 1)%Z with false in H
      by (symmetry; apply Z.ltb_ge; cbn [length]; lia).
    destruct (bind_ok _ _ _ H) as (ks & E & H1). clear H. destruct (list_elems_inv _ _ _ E) as (p & Lk).
    destruct (bind_ok _ _ _ H1) as ([h1 m1] & F1 & H2). clear H1.
    destruct (bind_ok _ _ _ H2) as ([h2 outs] & F2 & H3). clear H2. cbn [fst snd] in *.
    inversion H3; subst h' L'. clear H3.
    assert (Hks : closed h -> forall e, In e ks -> e < length h) by (intros Cl e I; eapply Cl; eauto).
    assert (M0 : minv h ks h []).
    { split; [apply kept_refl|]. split; [intros c g []|]. intro. apply grown_refl. }
    destruct (merge_fold_inv (k0 :: keys) h ks Hks ks h [] h1 m1 (incl_refl _) M0 F1) as (K1 & GF1 & GR1).
    assert (R0 : rinv h ks (map snd m1) h1 []).
    { split; auto. split; [|split; [intros o []|auto]].
      intros g Ig. apply in_map_iff in Ig. destruct Ig as ([c g'] & <- & I). eapply GF1; eauto. }
    destruct (rebuild_fold_inv h ks (map snd m1) (map snd m1) h1 [] h2 outs (incl_refl _) R0 F2) as (K2 & _ & OF2 & GR2).
    exists p, ks, outs. split; auto. cbn [alloc fst snd].
    split; [now apply kept_alloc|]. rewrite app_length; cbn [length].
    split; [destruct K2; lia|]. split; [apply lookup_alloc_new|]. split.
    + intros o I. specialize (OF2 _ I). lia.
    + intro Cl. apply grown_alloc; auto. cbn [children]. intros o I. specialize (OF2 _ I). split; [lia|left; lia].
Qed.

(* ------------------------------------------------------------------------- *)
(* chunk_events_by_key *)

Local Opaque zset.

Section Chunk.
  Variables (sub_key key pulse : Z) (h0 : heap) (ks : list loc).
  Hypothesis Hks : closed h0 -> forall e, In e ks -> e < length h0.

  Definition chunk_shares (k : loc) : Prop := In k ks \/ data_member h0 ks k.

  (* a chunk Event under construction: new Event, new dict, new sub-event list *)
  Definition chunk_ok (h : heap) (c : loc) : Prop :=
    exists i t d D zc S es,
      length h0 <= c /\ lookup h c = Some (Cell (TEv i t d) [D]) /\
      length h0 <= D /\ lookup h D = Some (dict_cell zc) /\
      zget sub_key zc = Some (ZK S) /\ length h0 <= S /\ lookup h S = Some (Cell (TNode EVENT_LIST) es).

  Lemma chunk_ok_alloc : forall h c x, chunk_ok h c -> chunk_ok (h ++ [x]) c.
  Proof.
    intros h c x (i & t & d & D & zc & S & es & Fc & Lc & FD & LD & Z & FS & LS).
    exists i, t, d, D, zc, S, es. repeat split; auto; now apply lookup_app_some.
  Qed.

  (* an attribute assignment to an Event *)
  Lemma chunk_ok_retag : forall h c l i t d i' t' d' kk, chunk_ok h c ->
    lookup h l = Some (Cell (TEv i t d) kk) -> chunk_ok (update h l (Cell (TEv i' t' d') kk)) c.
  Proof.
    intros h c l i t d i' t' d' kk (i1 & t1 & d1 & D & zc & S & es & Fc & Lc & FD & LD & Z & FS & LS) Ll.
    pose proof (lookup_lt _ _ _ Ll) as Bl.
    assert (ND : D <> l) by (intros ->; rewrite Ll in LD; discriminate).
    assert (NS : S <> l) by (intros ->; rewrite Ll in LS; discriminate).
    destruct (Nat.eq_dec c l) as [->|N].
    - rewrite Ll in Lc. inversion Lc; subst.
      exists i', t', d', D, zc, S, es. repeat split; auto.
      + now apply lookup_update_same.
      + now rewrite lookup_update_other.
      + now rewrite lookup_update_other.
    - exists i1, t1, d1, D, zc, S, es. repeat split; auto; now rewrite lookup_update_other.
  Qed.

  (* .append on a sub-event list *)
  Lemma chunk_ok_append : forall h c s es e, chunk_ok h c ->
    lookup h s = Some (Cell (TNode EVENT_LIST) es) ->
    chunk_ok (update h s (Cell (TNode EVENT_LIST) (es ++ [e]))) c.
  Proof.
    intros h c s es0 e (i1 & t1 & d1 & D & zc & S & es & Fc & Lc & FD & LD & Z & FS & LS) Ls.
    pose proof (lookup_lt _ _ _ Ls) as Bs.
    assert (Nc : c <> s) by (intros ->; rewrite Ls in Lc; discriminate).
    assert (ND : D <> s).
    { intros ->. rewrite Ls in LD. unfold dict_cell in LD.
      assert (E1 : EVENT_LIST = denc (unzip_d zc)) by congruence.
      pose proof (denc_lt (unzip_d zc)) as LT. rewrite <- E1 in LT. unfold EVENT_LIST in LT. lia. }
    destruct (Nat.eq_dec S s) as [->|N].
    - exists i1, t1, d1, D, zc, s, (es0 ++ [e]). repeat split; auto.
      + now rewrite lookup_update_other.
      + now rewrite lookup_update_other.
      + now apply lookup_update_same.
    - exists i1, t1, d1, D, zc, S, es. repeat split; auto; now rewrite lookup_update_other.
  Qed.

  Definition cinv (h : heap) (acc : list loc) : Prop :=
    kept h0 h /\ (forall c, In c acc -> chunk_ok h c) /\ (closed h0 -> grown chunk_shares h0 h).

  Lemma new_chunk_inv : forall h acc e v z h' c, In e ks -> cinv h acc ->
    ev_dict h e = Ok z -> zget key z = Some v ->
    new_chunk_h sub_key key h e v = Ok (h', c) -> cinv h' (c :: acc).
  Proof.
    intros h acc e v z h' c Ie (K & CO & GR) EZ Z H. unfold new_chunk_h in H.
    destruct (bind_ok _ _ _ H) as (t & _ & H1). destruct (bind_ok _ _ _ H1) as (d & _ & H2).
    inversion H2; subst h' c. clear H H1 H2. cbn [alloc fst snd].
    destruct (ev_dict_inv _ _ _ EZ) as (i & t0 & d0 & dl & Le & RD).
    destruct (rd_dict_inv _ _ _ RD) as (p & kk & Ld & _ & _ & UK).
    set (S := length h). set (zc := zset sub_key (ZK S) (zset key v [])).
    set (h1 := h ++ [Cell (TNode EVENT_LIST) [e]]).
    set (h2 := h1 ++ [dict_cell zc]).
    assert (L1 : length h1 = Datatypes.S (length h)) by (unfold h1; rewrite app_length; cbn; lia).
    assert (L2 : length h2 = Datatypes.S (length h1)) by (unfold h2; rewrite app_length; cbn; lia).
    split; [now apply kept_alloc, kept_alloc, kept_alloc|]. split.
    - intros c [<-|Ic].
      + exists None, (TransformHeap.floor_ms t), d, (length h1), zc, S, [e].
        destruct K as [G _].
        split; [fold h1; fold h2; lia|]. split; [fold h1; fold h2; apply lookup_alloc_new|].
        split; [lia|]. split; [fold h1; apply lookup_app_some; unfold h2; apply lookup_alloc_new|].
        split; [unfold zc; apply zget_zset_same|]. split; [unfold S; lia|].
        apply lookup_app_some. apply lookup_app_some. unfold S. apply lookup_alloc_new.
      + apply chunk_ok_alloc, chunk_ok_alloc, chunk_ok_alloc. auto.
    - intro Cl. specialize (GR Cl). pose proof (Hks Cl e Ie) as Be. destruct K as [G F].
      assert (Le0 : lookup h0 e = Some (Cell (TEv i t0 d0) [dl])) by (rewrite <- F; auto).
      assert (Bd : dl < length h0) by (eapply Cl; eauto; cbn; auto).
      assert (Ld0 : lookup h0 dl = Some (Cell (TNode p) kk)) by (rewrite <- F; auto).
      apply grown_alloc; [apply grown_alloc; [apply grown_alloc; auto|]|].
      + cbn [children]. intros k [<-|[]]. split; [lia|]. right. left. auto.
      + unfold dict_cell. cbn [children]. fold h1. intros k Ik. unfold zc in Ik.
        destruct (unzip_k_zset _ _ _ _ Ik) as [J|J].
        * destruct (unzip_k_zset _ _ _ _ J) as [[]|J'].
          subst v. assert (Ikk : In k kk) by (rewrite <- UK; eapply zget_unzip_k; eauto).
          assert (Bk : k < length h0) by (eapply Cl; eauto).
          split; [lia|]. right. right. exists e, i, t0, d0, dl, p, kk. auto.
        * inversion J; subst k. unfold S. split; [lia|left; lia].
      + cbn [children]. fold h1. fold h2. intros k [<-|[]]. split; [lia|left; lia].
  Qed.

  Lemma append_sub_inv : forall h acc c e h', In e ks -> In c acc -> cinv h acc ->
    lookup h e <> None ->
    append_sub sub_key h c e = Ok h' -> cinv h' acc.
  Proof.
    intros h acc c e h' Ie Ic (K & CO & GR) Ne H.
    destruct (CO _ Ic) as (i & t & d & D & zc & S & es & Fc & Lc & FD & LD & Z & FS & LS).
    unfold append_sub, ev_dict, rd_data, ev_fields in H. rewrite Lc in H. cbn [bind snd] in H.
    rewrite (rd_dict_cell _ _ _ LD) in H. cbn [bind] in H. rewrite Z, LS in H. inversion H; subst h'. clear H.
    split; [now apply kept_update|]. split.
    - intros c' I'. apply chunk_ok_append; auto.
    - intro Cl. specialize (GR Cl). pose proof (Hks Cl e Ie) as Be.
      apply grown_update; auto. cbn [children]. intros k Ik. apply in_app_or in Ik.
      destruct Ik as [Ik|[<-|[]]].
      + destruct GR as [_ P]. apply (P S _ k FS LS Ik).
      + split; [lia|]. right. left. auto.
  Qed.

  Lemma chunk_loop_inv : forall last evs h acc h' out, incl evs ks -> cinv h acc ->
    chunk_loop_h sub_key key pulse last h evs acc = Ok (h', out) ->
    cinv h' out.
  Proof.
    intros last. induction evs as [|e evs IH]; cbn [chunk_loop_h]; intros h acc h' out I C H.
    - inversion H; subst. destruct C as (K & CO & GR). split; auto. split; auto.
      intros c Ic. apply CO. now apply in_rev.
    - assert (Ie : In e ks) by (apply I; left; auto).
      assert (I' : incl evs ks) by (intros x Ix; apply I; right; auto).
      destruct (bind_ok _ _ _ H) as (z & EZ & H1). clear H.
      destruct (zget key z) as [v|] eqn:Z.
      2:{ inversion H1; subst. destruct C as (K & CO & GR). split; auto. split; auto.
          intros c Ic. apply CO. now apply in_rev. }
      destruct acc as [|c older].
      + destruct (bind_ok _ _ _ H1) as ([h1 c1] & N & H2). cbn [fst snd] in H2.
        eapply IH; [auto| |exact H2]. eapply new_chunk_inv; eauto.
      + destruct (bind_ok _ _ _ H1) as (te & _ & H2). clear H1.
        destruct (bind_ok _ _ _ H2) as (tl & _ & H3). clear H2.
        destruct (bind_ok _ _ _ H3) as (dl & _ & H4). clear H3.
        destruct (bind_ok _ _ _ H4) as (zc & _ & H5). clear H4.
        destruct (zget key zc) as [vc|]; try discriminate.
        destruct (bind_ok _ _ _ H5) as (same & _ & H6). clear H5.
        destruct (same && (te - (tl + dl) <? pulse)%Z).
        * destruct (bind_ok _ _ _ H6) as (dc & _ & H7). clear H6.
          destruct (bind_ok _ _ _ H7) as (de & RDe & H8). clear H7.
          destruct (bind_ok _ _ _ H8) as (h1 & W & H9). clear H8.
          destruct (bind_ok _ _ _ H9) as (h2 & AP & H10). clear H9.
          destruct (wr_dur_retag _ _ _ _ W) as (i1 & t1 & d1 & ks1 & Lc & ->).
          assert (C1 : cinv (update h c (Cell (TEv i1 t1 (dc + de)%Z) ks1)) (c :: older)).
          { destruct C as (K & CO & GR).
            destruct (CO c (or_introl eq_refl)) as (i2 & t2 & d2 & D & zc2 & S & es & Fc & _).
            split; [now apply kept_update|]. split.
            - intros c' I2. eapply chunk_ok_retag; eauto.
            - intro Cl. eapply grown_retag; eauto. }
          eapply IH; [auto| |exact H10].
          eapply append_sub_inv; [exact Ie|left; reflexivity|exact C1| |exact AP].
          destruct (ev_dict_inv _ _ _ EZ) as (i & t & d & dl' & Le & _).
          destruct (Nat.eq_dec e c) as [->|Nec].
          -- rewrite lookup_update_same by (eapply lookup_lt; eauto). discriminate.
          -- rewrite lookup_update_other by auto. rewrite Le. discriminate.
        * destruct (bind_ok _ _ _ H6) as ([h1 c1] & N & H7). cbn [fst snd] in H7.
          eapply IH; [auto| |exact H7]. eapply new_chunk_inv; eauto.
  Qed.
End Chunk.

Theorem chunk_h_shape : forall sub_key h L key pulse h' L',
  chunk_events_by_key_h sub_key h L key pulse = Ok (h', L') ->
  exists p ks out,
    lookup h L = Some (Cell (TNode p) ks) /\
    kept h h' /\ length h <= L' < length h' /\
    lookup h' L' = Some (Cell (TNode EVENT_LIST) out) /\
    (forall c, In c out -> chunk_ok sub_key h h' c) /\
    (closed h -> grown (chunk_shares h ks) h h').
Proof.
  unfold chunk_events_by_key_h. intros sub_key h L key pulse h' L' H.
  destruct (bind_ok _ _ _ H) as (ks & E & H1). clear H. destruct (list_elems_inv _ _ _ E) as (p & Lk).
  exists p, ks.
  assert (Hks : closed h -> forall e, In e ks -> e < length h) by (intros Cl e I; eapply Cl; eauto).
  destruct (rev ks) as [|last rest] eqn:RV.
  - inversion H1; subst h' L'. exists []. cbn [new_list alloc fst snd]. rewrite app_length; cbn [length].
    split; auto. split; [apply kept_alloc, kept_refl|]. split; [lia|]. split; [apply lookup_alloc_new|].
    split; [intros c []|]. intro. apply grown_alloc; [apply grown_refl|]. intros k [].
  - destruct (bind_ok _ _ _ H1) as ([h1 out] & LP & H2). clear H1. cbn [fst snd] in H2.
    inversion H2; subst h' L'. clear H2.
    assert (C0 : cinv sub_key h ks h []).
    { split; [apply kept_refl|]. split; [intros c []|]. intro. apply grown_refl. }
    destruct (chunk_loop_inv sub_key key pulse h ks Hks last ks h [] h1 out (incl_refl _) C0 LP) as (K & CO & GR).
    exists out. cbn [new_list alloc fst snd]. rewrite app_length; cbn [length].
    split; auto. split; [now apply kept_alloc|]. split; [destruct K; lia|]. split; [apply lookup_alloc_new|].
    split.
    + intros c Ic. apply chunk_ok_alloc. auto.
    + intro Cl. apply grown_alloc; auto. cbn [children]. intros c Ic.
      destruct (CO c Ic) as (i & t & d & D & zc & S & es & Fc & Lc & _). apply lookup_lt in Lc. split; [lia|left; lia].
Qed.
