(* C12, second sentence, at EVERY position of a program and under every window the program
   is run with: whatever ran before a read -- earlier reads of the same bucket, built-ins
   that changed the earlier results in place, a statement that assigned another window --
   query_bucket(b) hands out a fresh list whose elements unfold to the trees that the
   events selected from the store AS IT WAS WHEN THE QUERY STARTED unfold to, and
   query_bucket_eventcount(b) their number.  Hence two reads of one bucket under the same
   window hand out equal trees (there is nothing to memoise). *)
From AwVerif Require Import Base.Prelude Model.MemHeap Model.MemHeapQuery
  Proofs.MemHeapBase Proofs.MemHeapCopy Proofs.MemHeapFrame Proofs.Ownership
  Proofs.MemHeapQueryProofs Proofs.IntersectSort.
From Coq Require Import Arith Relations.
Local Arguments deepcopy : simpl never.
Local Arguments content_of : simpl never.
Local Arguments alloc : simpl never.
Local Open Scope nat_scope.

(* the scalar fields the store reads off an event are part of its tree *)
Lemma content_of_root : forall h r t kids,
  content_of h r = Ok (T t kids) -> exists ks, lookup h r = Some (Cell t ks).
Proof.
  unfold content_of, fuel_of. intros h r t kids H. cbn [content] in H.
  destruct (lookup h r) as [[t' ks]|]; [|discriminate].
  destruct (map_res (content (length h) h) ks); cbn [bind] in H; try discriminate.
  inversion H; subst. eauto.
Qed.

Lemma view_agree : forall h0 h1 r tr,
  content_of h0 r = Ok tr -> content_of h1 r = content_of h0 r -> view h1 r = view h0 r.
Proof.
  intros h0 h1 r [t kids] C0 E. rewrite C0 in E.
  destruct (content_of_root _ _ _ _ C0) as (k0 & L0).
  destruct (content_of_root _ _ _ _ E) as (k1 & L1).
  unfold view. rewrite L0, L1. destruct t; reflexivity.
Qed.

Lemma select_all_in : forall vs st en v, In v (select_events vs (-1) st en) -> In v vs.
Proof.
  unfold select_events. intros vs st en v H. cbn in H.
  assert (S0 : forall x, In x (rev (sort_by v_ts vs)) -> In x vs).
  { intros x I. apply in_rev in I. exact (proj1 (sort_by_in v_ts vs x) I). }
  destruct en as [t1|]; [apply filter_In in H; destruct H as [H _]|];
    (destruct st as [t0|]; [apply filter_In in H; destruct H as [H _]|]); auto.
Qed.

Lemma map_res_view_root : forall h l vs v,
  map_res (view h) l = Ok vs -> In v vs -> In (v_root v) l.
Proof.
  induction l as [|x l IH]; cbn [map_res]; intros vs v H I.
  - inversion H; subst. destruct I.
  - destruct (view h x) as [vx| |] eqn:V; cbn [bind] in H; try discriminate.
    destruct (map_res (view h) l) as [vl| |] eqn:M; cbn [bind] in H; try discriminate.
    inversion H; subst. destruct I as [<-|I].
    + left. unfold view in V. destruct (lookup h x) as [[[i t d|p] ks]|]; try discriminate.
      inversion V; reflexivity.
    + right. eapply IH; eauto.
Qed.

Section Repeat.
  Variable str : Type.
  Variable isoformat : adt -> str.
  Variable parse_date : str -> option adt.
  Variable builtin : Z -> list loc -> heap -> heap * option (list loc).

  Notation ns_t := (namespace str).
  Notation q2_query_bucket := (q2_query_bucket str parse_date).
  Notation q2_query_bucket_eventcount := (q2_query_bucket_eventcount str parse_date).
  Notation run_qstep := (run_qstep str parse_date builtin).
  Notation run_query := (run_query str parse_date builtin).
  Notation run_query_b := (run_query_b str parse_date builtin).
  Notation run_windows := (run_windows str parse_date builtin).
  Notation kept := MemHeapQueryProofs.kept.

  (* the events of a bucket, as the store sees them, are the same in two states that hold
     the same store roots with the same content *)
  Lemma kept_views : forall s0 s1 b bk,
    Sep s0 -> kept s0 s1 -> find_bucket (store s0) b = Some bk ->
    (forall r, In r (b_events bk) -> content_of (heap_of s1) r = content_of (heap_of s0) r) /\
    map_res (view (heap_of s1)) (b_events bk) = map_res (view (heap_of s0)) (b_events bk).
  Proof.
    intros s0 s1 b bk SP (SP1 & ST & CS) F.
    assert (C : forall r, In r (b_events bk) -> content_of (heap_of s1) r = content_of (heap_of s0) r).
    { intros r Ir. unfold content_store in CS. rewrite ST in CS.
      destruct (find_bucket_some _ _ _ F) as (Ib & _).
      pose proof (proj1 map_ext_in_iff CS bk Ib) as EB. unfold bucket_content in EB.
      injection EB as _ EV. exact (proj1 map_ext_in_iff EV r Ir). }
    split; auto.
    apply map_res_ext. intros r Ir.
    assert (A : r < length (heap_of s0)).
    { destruct SP as [_ _ AS _ _]. apply AS. eapply bucket_roots_in; eauto. cbn; auto. }
    destruct (content_of_ok (heap_of s0) r (Sep2_wf _ _ _ SP) A) as (tr & C0).
    eapply view_agree; eauto.
  Qed.

  (* query_bucket in any state that keeps the initial store *)
  Theorem query_bucket_after_kept : forall s0 s1 (ns : ns_t) st en b s2 r,
    Sep s0 -> kept s0 s1 ->
    parse_date (ns_start str ns) = Some st -> parse_date (ns_end str ns) = Some en ->
    q2_query_bucket s1 ns b = Ok (s2, RRoot r) ->
    exists bk vs ks ts,
      find_bucket (store s0) b = Some bk /\
      map_res (view (heap_of s0)) (b_events bk) = Ok vs /\
      lookup (heap_of s2) r = Some (Cell (TNode EVENT_LIST) ks) /\
      map_res (content_of (heap_of s2)) ks = Ok ts /\
      map_res (content_of (heap_of s0))
        (map v_root (select_events vs (-1) (Some (round_start st)) (Some (round_end en)))) = Ok ts.
  Proof.
    intros s0 s1 ns st en b s2 r SP K PS PE H.
    pose proof K as (SP1 & ST & CS).
    unfold MemHeapQuery.q2_query_bucket in H. rewrite ST in H.
    destruct (find_bucket (store s0) b) as [bk0|] eqn:F; [|discriminate].
    rewrite PS, PE in H. unfold bucket_get in H. cbn [option_map] in H.
    destruct (get_events_returns_stored _ _ _ _ _ _ _ H) as (bk & vs & ks & ts & F1 & V1 & L & M1 & M2).
    rewrite ST, F in F1. inversion F1; subst bk0.
    destruct (kept_views s0 s1 b bk SP K F) as (C & VE).
    exists bk, vs, ks, ts. rewrite <- VE. repeat split; auto.
    rewrite <- M1. apply map_res_ext. intros x Ix.
    apply in_map_iff in Ix. destruct Ix as (v & <- & Iv).
    apply select_all_in in Iv.
    assert (Ir : In (v_root v) (b_events bk)) by (eapply map_res_view_root; eauto).
    assert (A : v_root v < length (heap_of s0)).
    { destruct SP as [_ _ AS _ _]. apply AS. eapply bucket_roots_in; eauto. cbn; auto. }
    destruct (content_of_ok (heap_of s0) _ (Sep2_wf _ _ _ SP) A) as (tr & C0).
    rewrite C0. symmetry.
    assert (EX : ext (heap_of s1) (heap_of s2)).
    { pose proof (get_events_read s1 b (-1) (Some (round_start st)) (Some (round_end en)) SP1) as P.
      rewrite H in P. cbn [post] in P. destruct P as (_ & E & _). exact E. }
    eapply content_of_ext; eauto. rewrite C; auto.
  Qed.

  Theorem eventcount_after_kept : forall s0 s1 (ns : ns_t) st en b s2 n,
    Sep s0 -> kept s0 s1 ->
    parse_date (ns_start str ns) = Some st -> parse_date (ns_end str ns) = Some en ->
    q2_query_bucket_eventcount s1 ns b = Ok (s2, RInt n) ->
    exists bk vs,
      find_bucket (store s0) b = Some bk /\
      map_res (view (heap_of s0)) (b_events bk) = Ok vs /\
      s2 = s1 /\ n = count_events vs (Some (fst st)) (Some (fst en)).
  Proof.
    intros s0 s1 ns st en b s2 n SP K PS PE H.
    pose proof K as (SP1 & ST & CS).
    unfold MemHeapQuery.q2_query_bucket_eventcount in H. rewrite ST in H.
    destruct (find_bucket (store s0) b) as [bk|] eqn:F; [|discriminate].
    rewrite PS, PE in H. unfold bucket_get_eventcount, get_eventcount in H. cbn [option_map] in H.
    rewrite ST, F in H.
    destruct (kept_views s0 s1 b bk SP K F) as (_ & VE). rewrite VE in H.
    destruct (map_res (view (heap_of s0)) (b_events bk)) as [vs| |] eqn:V; cbn [bind] in H; try discriminate.
    inversion H; subst. exists bk, vs. auto.
  Qed.

  (* --------------------------------------------------------------------- *)
  (* A program that assigns STARTTIME / ENDTIME runs its following statements under
     another namespace: Model/MemHeapQuery.v [run_windows] (a list of segments, each with
     the namespace in force). *)
  Lemma run_query_b_fst : forall ns prog s, fst (run_query_b ns prog s) = run_query ns prog s.
  Proof.
    intros ns. induction prog as [|q t IH]; cbn [MemHeapQuery.run_query_b MemHeapQuery.run_query]; intros s; auto.
    destruct (snd (run_qstep ns s q)); auto.
  Qed.

  Hypothesis BC : builtins_confined builtin.

  Lemma run_query_kept : forall ns prog s, Sep s -> kept s (run_query ns prog s).
  Proof. intros ns prog s SP. unfold MemHeapQueryProofs.kept. now apply query_store_unchanged. Qed.

  Theorem run_windows_kept : forall segs s, Sep s -> kept s (run_windows segs s).
  Proof.
    induction segs as [|[ns prog] t IH]; cbn [MemHeapQuery.run_windows fst snd]; intros s SP.
    - now apply kept_refl.
    - pose proof (run_query_kept ns prog s SP) as K. rewrite <- run_query_b_fst in K.
      destruct (snd (run_query_b ns prog s)); auto.
      eapply kept_trans; [exact K|]. apply IH. apply K.
  Qed.

  (* the read at any position: after any segments (any windows) and any prefix of the
     current segment *)
  Theorem query_bucket_any_position : parse_inverts_isoformat str isoformat parse_date ->
    forall segs st en pre s0 b s2 r,
      Sep s0 ->
      let ns := query_namespace str isoformat st en in
      q2_query_bucket (run_query ns pre (run_windows segs s0)) ns b = Ok (s2, RRoot r) ->
      exists bk vs ks ts,
        find_bucket (store s0) b = Some bk /\
        map_res (view (heap_of s0)) (b_events bk) = Ok vs /\
        lookup (heap_of s2) r = Some (Cell (TNode EVENT_LIST) ks) /\
        map_res (content_of (heap_of s2)) ks = Ok ts /\
        map_res (content_of (heap_of s0))
          (map v_root (select_events vs (-1) (Some (round_start st)) (Some (round_end en)))) = Ok ts.
  Proof.
    intros P segs st en pre s0 b s2 r SP ns H.
    pose proof (run_windows_kept segs s0 SP) as K1.
    pose proof (run_query_kept ns pre _ (proj1 K1)) as K2.
    eapply query_bucket_after_kept with (ns := ns) (s1 := run_query ns pre (run_windows segs s0)); eauto.
    - eapply kept_trans; eauto.
    - unfold ns, query_namespace; cbn [ns_start]. apply P.
    - unfold ns, query_namespace; cbn [ns_end]. apply P.
  Qed.

  Theorem eventcount_any_position : parse_inverts_isoformat str isoformat parse_date ->
    forall segs st en pre s0 b s2 n,
      Sep s0 ->
      let ns := query_namespace str isoformat st en in
      q2_query_bucket_eventcount (run_query ns pre (run_windows segs s0)) ns b = Ok (s2, RInt n) ->
      exists bk vs,
        find_bucket (store s0) b = Some bk /\
        map_res (view (heap_of s0)) (b_events bk) = Ok vs /\
        n = count_events vs (Some (fst st)) (Some (fst en)).
  Proof.
    intros P segs st en pre s0 b s2 n SP ns H.
    pose proof (run_windows_kept segs s0 SP) as K1.
    pose proof (run_query_kept ns pre _ (proj1 K1)) as K2.
    destruct (eventcount_after_kept s0 (run_query ns pre (run_windows segs s0)) ns st en b s2 n) as (bk & vs & F & V & _ & N); auto.
    - eapply kept_trans; eauto.
    - unfold ns, query_namespace; cbn [ns_start]. apply P.
    - unfold ns, query_namespace; cbn [ns_end]. apply P.
    - eauto.
  Qed.

  (* two reads of one bucket under one window, anything in between: equal trees *)
  Corollary query_bucket_repeatable : parse_inverts_isoformat str isoformat parse_date ->
    forall segs1 pre1 segs2 pre2 st en s0 b sa ra sb rb,
      Sep s0 ->
      let ns := query_namespace str isoformat st en in
      q2_query_bucket (run_query ns pre1 (run_windows segs1 s0)) ns b = Ok (sa, RRoot ra) ->
      q2_query_bucket (run_query ns pre2 (run_windows segs2 s0)) ns b = Ok (sb, RRoot rb) ->
      exists ka kb ts,
        lookup (heap_of sa) ra = Some (Cell (TNode EVENT_LIST) ka) /\
        lookup (heap_of sb) rb = Some (Cell (TNode EVENT_LIST) kb) /\
        map_res (content_of (heap_of sa)) ka = Ok ts /\
        map_res (content_of (heap_of sb)) kb = Ok ts.
  Proof.
    intros P segs1 pre1 segs2 pre2 st en s0 b sa ra sb rb SP ns HA HB.
    destruct (query_bucket_any_position P segs1 st en pre1 s0 b sa ra SP HA) as (bk & vs & ka & ts & F & V & LA & MA & M0).
    destruct (query_bucket_any_position P segs2 st en pre2 s0 b sb rb SP HB) as (bk' & vs' & kb & ts' & F' & V' & LB & MB & M0').
    rewrite F in F'. inversion F'; subst bk'. rewrite V in V'. inversion V'; subst vs'.
    rewrite M0 in M0'. inversion M0'; subst ts'. exists ka, kb, ts. auto.
  Qed.
End Repeat.
