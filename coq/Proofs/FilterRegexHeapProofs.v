(* filter_keyvals_regex (Model/FilterRegexHeap.v): FRAME + SHARING (one new cell, the returned
   list; its elements are a sub-sequence, in order, of the argument's own elements) for every
   heap and every engine, and REFINEMENT to the functional model (same outcome - returned /
   exception class -, the result reads back as the model's, the argument reads back
   unchanged) for every aliasing. *)
From AwVerif Require Import Base.Prelude Model.MemHeap Model.TransformHeap Model.DictHeap Model.Group
  Model.GroupHeap Model.FilterRegexHeap
  Proofs.MemHeapBase Proofs.MemHeapCopy Proofs.MemHeapFrame Proofs.TransformHeapBase Proofs.DictHeapBase
  Proofs.GroupHeapFrame Proofs.GroupHeapRefine.
From Coq Require Import Arith.
Local Open Scope nat_scope.
Local Notation lookup := MemHeap.lookup.

Inductive subseq {X} : list X -> list X -> Prop :=
  | ss_nil : subseq [] []
  | ss_take : forall x a b, subseq a b -> subseq (x :: a) (x :: b)
  | ss_skip : forall x a b, subseq a b -> subseq a (x :: b).

Lemma subseq_incl : forall {X} (a b : list X), subseq a b -> incl a b.
Proof.
  intros X a b S. induction S; intros y I.
  - destruct I.
  - destruct I as [<-|I]; [left; auto|right; auto].
  - right; auto.
Qed.

Lemma subseq_length : forall {X} (a b : list X), subseq a b -> length a <= length b.
Proof. intros X a b S. induction S; cbn; lia. Qed.

Lemma filter_res_subseq : forall {X} (f : X -> res bool) l out, filter_res f l = Ok out -> subseq out l.
Proof.
  intros X f. induction l as [|x l IH]; cbn [filter_res]; intros out H.
  - inversion H. constructor.
  - destruct (f x) as [b| |]; cbn [bind] in H; try discriminate.
    destruct (filter_res f l) as [r| |]; cbn [bind] in H; try discriminate.
    inversion H; subst. destruct b; constructor; auto.
Qed.

(* FRAME + SHARING, every heap, any aliasing, every engine *)
Theorem fregex_h_shape : forall c fa h L key h' L',
  filter_keyvals_regex_h c fa h L key = Ok (h', L') ->
  c = true /\
  exists p ks out, lookup h L = Some (Cell (TNode p) ks) /\ one_new_list h h' L' out /\ subseq out ks.
Proof.
  unfold filter_keyvals_regex_h. intros c fa h L key h' L' H. destruct c; [|discriminate]. split; auto.
  destruct (bind_ok _ _ _ H) as (ks & E & H1). destruct (list_elems_inv _ _ _ E) as (p & Lk).
  destruct (bind_ok _ _ _ H1) as (out & F & H2). inversion H2; subst.
  exists p, ks, out. split; auto. split; [split; reflexivity|eapply filter_res_subseq; eauto].
Qed.

(* an invalid pattern raises before anything is read *)
Lemma fregex_h_not_compiled : forall fa h L key, filter_keyvals_regex_h false fa h L key = Err OtherError.
Proof. reflexivity. Qed.

(* REFINEMENT *)
Lemma rx_predicate_h_gev : forall fa h key e v, gev_at h e = Some v ->
  rx_predicate_h fa h key e = rx_predicate fa key v.
Proof.
  intros fa h key e v H. destruct (ev_dict_gev _ _ _ H) as (z & EZ & GD).
  unfold rx_predicate_h, rx_predicate. rewrite EZ. cbn [bind].
  pose proof (gdict_at_lookup h z _ key GD) as X.
  destruct (zget key z) as [zv|].
  - destruct X as (q & V & ->). rewrite V. reflexivity.
  - now rewrite X.
Qed.

Lemma fregex_filter_sim : forall fa h key ks vs, Forall2 (fun k v => gev_at h k = Some v) ks vs ->
  match filter_res (rx_predicate fa key) vs with
  | Ok out => exists outl, filter_res (rx_predicate_h fa h key) ks = Ok outl /\ gevs_at h outl = Some out
  | Err e => filter_res (rx_predicate_h fa h key) ks = Err e
  | OutOfFuel => filter_res (rx_predicate_h fa h key) ks = OutOfFuel
  end.
Proof.
  intros fa h key ks vs F. induction F as [|k v ks vs Hk F IH]; cbn [filter_res].
  - exists []. auto.
  - rewrite (rx_predicate_h_gev fa h key k v Hk).
    destruct (rx_predicate fa key v) as [b| |]; cbn [bind]; auto.
    destruct (filter_res (rx_predicate fa key) vs) as [out| |]; cbn [bind].
    + destruct IH as (outl & Fo & Eo). rewrite Fo. cbn [bind]. unfold gevs_at in *.
      destruct b; eexists; (split; [reflexivity|]); auto. cbn [map opt_list]. now rewrite Hk, Eo.
    + now rewrite IH.
    + now rewrite IH.
Qed.

Theorem fregex_h_refines : forall c fa h L key vs, glist_at h L = Some vs ->
  match filter_keyvals_regex c fa vs key with
  | Ok out => exists h' L', filter_keyvals_regex_h c fa h L key = Ok (h', L') /\
                            glist_at h' L' = Some out /\ glist_at h' L = Some vs
  | Err e => filter_keyvals_regex_h c fa h L key = Err e
  | OutOfFuel => filter_keyvals_regex_h c fa h L key = OutOfFuel
  end.
Proof.
  intros c fa h L key vs H. destruct (glist_at_inv _ _ _ H) as (p & ks & Lk & G).
  unfold filter_keyvals_regex, filter_keyvals_regex_h. destruct c; auto.
  unfold list_elems. rewrite Lk. cbn [bind].
  unfold gevs_at in G. apply opt_list_Forall2 in G.
  pose proof (fregex_filter_sim fa h key ks vs G) as X.
  destruct (filter_res (rx_predicate fa key) vs) as [out| |].
  - destruct X as (outl & Fo & Eo). rewrite Fo. cbn [bind].
    eexists _, _. split; [reflexivity|]. split; [now apply glist_at_new|].
    eapply glist_at_kept; eauto. apply kept_alloc, kept_refl.
  - now rewrite X.
  - now rewrite X.
Qed.
