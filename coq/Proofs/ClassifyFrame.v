(* Transform-level lemmas for C19: frame and owned keys of categorize, tag,
   split_url_events, simplify_string; what categorize and tag write. *)
From AwVerif Require Import Base.Prelude Model.ClassifyBase Model.Classify Proofs.ClassifyProofs.
From Coq Require Import ZifyBool.

(* where a written key lands: in place when present, at the end when new *)
Definition placed (k : Z) (v : value) (d d' : dict) : Prop :=
  dget k d' = Some v /\
  (dhas k d = true -> map fst d' = map fst d) /\
  (dhas k d = false -> d' = d ++ [(k, v)]).

Lemma dset_placed : forall k v d, placed k v d (dset k v d).
Proof.
  intros k v d. split; [apply dget_dset_same|]. split.
  - apply keys_dset_present.
  - apply dset_absent.
Qed.

Lemma frame_ev_dset : forall e k v,
  frame_ev (fun _ => [k]) e (set_cdata e (dset k v (c_data e))).
Proof.
  intros e k v. unfold frame_ev, set_cdata. cbn [c_eid c_ts c_dur c_data].
  repeat split. apply others_dset. left. reflexivity.
Qed.

(* ------------------------------------------------------------------ *)
(* categorize, tag *)

Section WithRe.
  Variable re : Z -> bool -> Z -> bool.

  Lemma categorize_frame : forall evs classes,
    frame (fun _ => [K_category]) evs (categorize re evs classes).
  Proof.
    intros evs classes. unfold categorize. apply frame_map. intros e. apply frame_ev_dset.
  Qed.

  Lemma tag_frame : forall evs classes,
    frame (fun _ => [K_tags]) evs (tag re evs classes).
  Proof.
    intros evs classes. unfold tag. apply frame_map. intros e. apply frame_ev_dset.
  Qed.

  Lemma categorize_nth : forall evs classes i e,
    nth_error evs i = Some e ->
    nth_error (categorize re evs classes) i = Some (categorize_one re classes e).
  Proof. intros. unfold categorize. apply map_nth_error. assumption. Qed.

  Lemma tag_nth : forall evs classes i e,
    nth_error evs i = Some e ->
    nth_error (tag re evs classes) i = Some (tag_one re classes e).
  Proof. intros. unfold tag. apply map_nth_error. assumption. Qed.

  Lemma categorize_one_placed : forall classes e,
    placed K_category (VList (pick_category (matching re classes (c_data e))))
           (c_data e) (c_data (categorize_one re classes e)).
  Proof. intros. unfold categorize_one, set_cdata. cbn [c_data]. apply dset_placed. Qed.

  Lemma tag_one_placed : forall classes e,
    placed K_tags (VList (matching re classes (c_data e)))
           (c_data e) (c_data (tag_one re classes e)).
  Proof. intros. unfold tag_one, set_cdata. cbn [c_data]. apply dset_placed. Qed.

  (* the rule-list reading of "deepest matching category, the later rule wins ties" *)
  Definition deepest_last_rule (classes : list (category * rule)) (d : dict) (c : category) : Prop :=
    exists k1 r k2, classes = k1 ++ (c, r) :: k2 /\ rule_match re r d = true /\
      (forall c' r', In (c', r') k1 -> rule_match re r' d = true -> (length c' <= length c)%nat) /\
      (forall c' r', In (c', r') k2 -> rule_match re r' d = true -> (length c' < length c)%nat).

  Lemma pick_deepest_last_rule : forall classes d,
    (exists c r, In (c, r) classes /\ rule_match re r d = true /\ c <> []) ->
    deepest_last_rule classes d (pick_category (matching re classes d)).
  Proof.
    intros classes d (c & r & Hin & Hm & Hne).
    assert (Hex : exists c, In c (matching re classes d) /\ c <> []).
    { exists c. split; [|exact Hne]. apply matching_in. exists r. split; assumption. }
    destruct (pick_category_nonempty _ Hex) as (m1 & m2 & Hdec & H1 & H2).
    destruct (matching_split re classes d m1 _ m2 Hdec) as (k1 & r0 & k2 & Hc & Hr0 & Hk1 & Hk2).
    exists k1, r0, k2. split; [exact Hc|]. split; [exact Hr0|]. split.
    - intros c' r' Hin' Hm'. apply H1. rewrite <- Hk1. apply matching_in. exists r'. split; assumption.
    - intros c' r' Hin' Hm'. apply H2. rewrite <- Hk2. apply matching_in. exists r'. split; assumption.
  Qed.

  Lemma pick_uncategorized : forall classes d,
    (forall c r, In (c, r) classes -> rule_match re r d = true -> c = []) ->
    pick_category (matching re classes d) = uncategorized.
  Proof.
    intros classes d H. apply pick_category_all_empty. intros c Hc.
    apply matching_in in Hc. destruct Hc as (r & Hin & Hm). exact (H c r Hin Hm).
  Qed.
  Lemma nothing_matches_uncategorized : forall classes e,
    (forall c r, In (c, r) classes -> rule_match re r (c_data e) = false) ->
    dget K_category (c_data (categorize_one re classes e)) = Some (VList uncategorized).
  Proof.
    intros classes e H. unfold categorize_one, set_cdata. cbn [c_data]. rewrite dget_dset_same.
    rewrite pick_uncategorized; [reflexivity|].
    intros c r Hin Hm. rewrite (H c r Hin) in Hm. discriminate.
  Qed.

  (* event-list level: what categorize / tag write at position i *)
  Lemma categorize_writes : forall evs classes i e,
    nth_error evs i = Some e ->
    exists e' c, nth_error (categorize re evs classes) i = Some e' /\
      placed K_category (VList c) (c_data e) (c_data e') /\
      ((exists c0 r, In (c0, r) classes /\ rule_match re r (c_data e) = true /\ c0 <> []) ->
       deepest_last_rule classes (c_data e) c) /\
      ((forall c0 r, In (c0, r) classes -> rule_match re r (c_data e) = true -> c0 = []) ->
       c = uncategorized).
  Proof.
    intros evs classes i e H.
    exists (categorize_one re classes e), (pick_category (matching re classes (c_data e))).
    split; [apply categorize_nth; exact H|]. split; [apply categorize_one_placed|]. split.
    - apply pick_deepest_last_rule.
    - apply pick_uncategorized.
  Qed.

  Lemma tag_writes : forall evs classes i e,
    nth_error evs i = Some e ->
    exists e' l, nth_error (tag re evs classes) i = Some e' /\
      placed K_tags (VList l) (c_data e) (c_data e') /\
      picks (fun r => rule_match re r (c_data e)) classes l.
  Proof.
    intros evs classes i e H.
    exists (tag_one re classes e), (matching re classes (c_data e)).
    split; [apply tag_nth; exact H|]. split; [apply tag_one_placed|]. apply matching_picks.
  Qed.
End WithRe.

(* ------------------------------------------------------------------ *)
(* split_url_events *)

Definition url_keys : list Z := [K_protocol; K_domain; K_path; K_params; K_options; K_identifier].
Definition split_owned (e : cevent) : list Z := if dhas K_url (c_data e) then url_keys else [].

Section WithUrl.
  Variable urlparse : value -> res urlparts.
  Variable starts_www : value -> bool.
  Variable drop4 : value -> value.

  Definition domain_of (p : urlparts) : value :=
    if starts_www (u_netloc p) then drop4 (u_netloc p) else u_netloc p.

  Definition url_written (p : urlparts) (d' : dict) : Prop :=
    dget K_protocol d' = Some (u_scheme p) /\ dget K_domain d' = Some (domain_of p) /\
    dget K_path d' = Some (u_path p) /\ dget K_params d' = Some (u_params p) /\
    dget K_options d' = Some (u_query p) /\ dget K_identifier d' = Some (u_fragment p).

  Lemma split_one_no_url : forall e,
    dget K_url (c_data e) = None -> split_one urlparse starts_www drop4 e = Ok e.
  Proof. intros e H. unfold split_one. rewrite H. reflexivity. Qed.

  Lemma split_one_url : forall e u e',
    dget K_url (c_data e) = Some u ->
    split_one urlparse starts_www drop4 e = Ok e' ->
    exists p, urlparse u = Ok p /\ url_written p (c_data e') /\ dget K_url (c_data e') = Some u.
  Proof.
    intros e u e' Hu H. unfold split_one in H. rewrite Hu in H.
    destruct (urlparse u) as [p| |]; cbn [bind] in H; try discriminate.
    inversion H. subst e'. clear H. exists p. split; [reflexivity|].
    unfold set_cdata. cbn [c_data]. fold (domain_of p).
    unfold url_written, K_protocol, K_domain, K_path, K_params, K_options, K_identifier, K_url in *.
    repeat split;
      repeat first [ rewrite dget_dset_same; reflexivity
                   | rewrite dget_dset_other by lia ].
    exact Hu.
  Qed.

  Lemma split_one_err : forall e u c,
    dget K_url (c_data e) = Some u -> urlparse u = Err c ->
    split_one urlparse starts_www drop4 e = Err c.
  Proof. intros e u c Hu Hp. unfold split_one. rewrite Hu, Hp. reflexivity. Qed.

  Lemma split_one_frame : forall e e',
    split_one urlparse starts_www drop4 e = Ok e' -> frame_ev split_owned e e'.
  Proof.
    intros e e' H. unfold split_one in H. unfold frame_ev, split_owned, dhas.
    destruct (dget K_url (c_data e)) as [u|].
    - destruct (urlparse u) as [p| |]; cbn [bind] in H; try discriminate.
      inversion H. subst e'. unfold set_cdata. cbn [c_eid c_ts c_dur c_data].
      repeat split. unfold url_keys.
      repeat (rewrite others_dset; [|cbn [In]; tauto]). reflexivity.
    - inversion H. subst e'. repeat split.
  Qed.

  Lemma split_frame : forall evs evs',
    split_url_events urlparse starts_www drop4 evs = Ok evs' -> frame split_owned evs evs'.
  Proof.
    intros evs evs'. unfold split_url_events. apply frame_map_res. exact split_one_frame.
  Qed.

  Lemma split_pointwise : forall evs evs',
    split_url_events urlparse starts_www drop4 evs = Ok evs' ->
    Forall2 (fun e e' => split_one urlparse starts_www drop4 e = Ok e') evs evs'.
  Proof. intros evs evs'. unfold split_url_events. apply map_res_ok. Qed.

  (* split_url_events returns iff urlparse returns on every url it is given *)
  Lemma split_ok_iff : forall evs,
    (exists evs', split_url_events urlparse starts_www drop4 evs = Ok evs') <->
    (forall e u, In e evs -> dget K_url (c_data e) = Some u -> exists p, urlparse u = Ok p).
  Proof.
    intros evs. unfold split_url_events. rewrite map_res_ok_iff. split.
    - intros H e u Hin Hu. destruct (H e Hin) as [e' He'].
      destruct (split_one_url e u e' Hu He') as (p & Hp & _). eauto.
    - intros H e Hin. unfold split_one.
      destruct (dget K_url (c_data e)) as [u|] eqn:Hu; [|eauto].
      destruct (H e u Hin Hu) as [p Hp]. rewrite Hp. cbn [bind]. eauto.
  Qed.
  (* position by position: an event without "url" is returned as it is; with a url the six
     keys hold the components urlparse returned (the domain without a leading www.) and
     "url" itself is unchanged *)
  Lemma split_writes : forall evs evs',
    split_url_events urlparse starts_www drop4 evs = Ok evs' ->
    Forall2 (fun e e' => match dget K_url (c_data e) with
                         | None => e' = e
                         | Some u => exists p, urlparse u = Ok p /\ url_written p (c_data e') /\
                                               dget K_url (c_data e') = Some u
                         end) evs evs'.
  Proof.
    intros evs evs' H. apply split_pointwise in H.
    induction H as [|e e' l l' He Hrest IH]; constructor; [|exact IH].
    destruct (dget K_url (c_data e)) as [u|] eqn:Hu.
    - exact (split_one_url e u e' Hu He).
    - rewrite (split_one_no_url e Hu) in He. inversion He. reflexivity.
  Qed.
  Lemma split_raises : forall l1 e l2 u c,
    (forall a w, In a l1 -> dget K_url (c_data a) = Some w -> exists p, urlparse w = Ok p) ->
    dget K_url (c_data e) = Some u -> urlparse u = Err c ->
    split_url_events urlparse starts_www drop4 (l1 ++ e :: l2) = Err c.
  Proof.
    intros l1 e l2 u c Hok Hu Hp. unfold split_url_events. apply map_res_first_err.
    - intros a Ha. unfold split_one. destruct (dget K_url (c_data a)) as [w|] eqn:Hw; [|eauto].
      destruct (Hok a w Ha Hw) as [p Hpw]. rewrite Hpw. cbn [bind]. eauto.
    - exact (split_one_err e u c Hu Hp).
  Qed.
End WithUrl.

(* ------------------------------------------------------------------ *)
(* simplify_string *)

Section WithSubs.
  Variables sub_parens sub_fps sub_dot : Z -> Z.

  (* what the key holds afterwards *)
  Definition simplified (key : Z) (d : dict) (s : Z) : Z :=
    if (key =? K_title) && dhas K_app d then sub_dot (sub_fps (sub_parens s)) else sub_parens s.

  Lemma sub_key_ok : forall f key d s,
    dget key d = Some (VStr s) -> sub_key f key d = Ok (dset key (VStr (f s)) d).
  Proof. intros f key d s H. unfold sub_key. rewrite H. reflexivity. Qed.

  Lemma dset_dset : forall k v v' d, dset k v' (dset k v d) = dset k v' d.
  Proof.
    intros k v v' d. induction d as [|[k0 v0] t IH]; cbn [dset].
    - rewrite Z.eqb_refl. reflexivity.
    - destruct (Z.eqb_spec k0 k) as [E|E]; cbn [dset].
      + rewrite Z.eqb_refl. reflexivity.
      + destruct (Z.eqb_spec k0 k); [contradiction|]. f_equal. exact IH.
  Qed.

  Lemma simplify_one_str : forall key e s,
    dget key (c_data e) = Some (VStr s) ->
    simplify_one sub_parens sub_fps sub_dot key e
    = Ok (set_cdata e (dset key (VStr (simplified key (c_data e) s)) (c_data e))).
  Proof.
    intros key e s H. unfold simplify_one, simplified.
    rewrite (sub_key_ok _ _ _ _ H). cbn [bind].
    destruct (Z.eqb_spec key K_title) as [E|E]; cbn [andb]; [|reflexivity].
    assert (Hne : K_app <> key) by (subst key; unfold K_app, K_title; lia).
    rewrite dhas_dset_other by exact Hne.
    destruct (dhas K_app (c_data e)); [|reflexivity].
    rewrite (sub_key_ok _ _ _ (sub_parens s)) by apply dget_dset_same. cbn [bind].
    rewrite (sub_key_ok _ _ _ (sub_fps (sub_parens s))) by apply dget_dset_same. cbn [bind].
    rewrite !dset_dset. reflexivity.
  Qed.

  Lemma simplify_one_missing : forall key e,
    dget key (c_data e) = None -> simplify_one sub_parens sub_fps sub_dot key e = Err KeyError.
  Proof. intros key e H. unfold simplify_one, sub_key. rewrite H. reflexivity. Qed.

  Lemma simplify_one_nonstr : forall key e v,
    dget key (c_data e) = Some v -> (forall s, v <> VStr s) ->
    simplify_one sub_parens sub_fps sub_dot key e = Err TypeError.
  Proof.
    intros key e v H Hv. unfold simplify_one, sub_key. rewrite H.
    destruct v as [s| |]; [exfalso; exact (Hv s eq_refl)|reflexivity|reflexivity].
  Qed.

  Lemma simplify_one_ok_inv : forall key e e',
    simplify_one sub_parens sub_fps sub_dot key e = Ok e' ->
    exists s, dget key (c_data e) = Some (VStr s) /\
              e' = set_cdata e (dset key (VStr (simplified key (c_data e) s)) (c_data e)).
  Proof.
    intros key e e' H. destruct (dget key (c_data e)) as [[s| |]|] eqn:G.
    - exists s. split; [reflexivity|]. rewrite (simplify_one_str key e s G) in H. inversion H. reflexivity.
    - rewrite (simplify_one_nonstr key e _ G) in H; [discriminate|]. intros s; discriminate.
    - rewrite (simplify_one_nonstr key e _ G) in H; [discriminate|]. intros s; discriminate.
    - rewrite (simplify_one_missing key e G) in H. discriminate.
  Qed.

  Lemma simplify_one_frame : forall key e e',
    simplify_one sub_parens sub_fps sub_dot key e = Ok e' -> frame_ev (fun _ => [key]) e e'.
  Proof.
    intros key e e' H. destruct (simplify_one_ok_inv key e e' H) as (s & _ & He'). subst e'.
    apply frame_ev_dset.
  Qed.

  Lemma simplify_frame : forall key evs evs',
    simplify_string sub_parens sub_fps sub_dot evs key = Ok evs' -> frame (fun _ => [key]) evs evs'.
  Proof.
    intros key evs evs'. unfold simplify_string. apply frame_map_res. apply simplify_one_frame.
  Qed.

  (* position by position: the key held a string, now holds its simplification, and the
     dict has the same keys in the same order *)
  Lemma simplify_pointwise : forall key evs evs',
    simplify_string sub_parens sub_fps sub_dot evs key = Ok evs' ->
    Forall2 (fun e e' => exists s, dget key (c_data e) = Some (VStr s) /\
                          dget key (c_data e') = Some (VStr (simplified key (c_data e) s)) /\
                          map fst (c_data e') = map fst (c_data e)) evs evs'.
  Proof.
    intros key evs evs' H. unfold simplify_string in H. apply map_res_ok in H.
    induction H as [|e e' l l' He Hrest IH]; constructor; [|exact IH].
    destruct (simplify_one_ok_inv key e e' He) as (s & G & He'). exists s. split; [exact G|].
    subst e'. unfold set_cdata. cbn [c_data]. split; [apply dget_dset_same|].
    apply keys_dset_present. unfold dhas. rewrite G. reflexivity.
  Qed.

  (* simplify_string returns iff every event holds a string under the key *)
  Lemma simplify_ok_iff : forall key evs,
    (exists evs', simplify_string sub_parens sub_fps sub_dot evs key = Ok evs') <->
    (forall e, In e evs -> exists s, dget key (c_data e) = Some (VStr s)).
  Proof.
    intros key evs. unfold simplify_string. rewrite map_res_ok_iff. split.
    - intros H e Hin. destruct (H e Hin) as [e' He'].
      destruct (simplify_one_ok_inv key e e' He') as (s & G & _). eauto.
    - intros H e Hin. destruct (H e Hin) as [s G]. rewrite (simplify_one_str key e s G). eauto.
  Qed.
  (* the first event without a string under the key decides the exception *)
  Lemma simplify_raises : forall key l1 e l2,
    (forall a, In a l1 -> exists s, dget key (c_data a) = Some (VStr s)) ->
    (dget key (c_data e) = None ->
     simplify_string sub_parens sub_fps sub_dot (l1 ++ e :: l2) key = Err KeyError) /\
    (forall v, dget key (c_data e) = Some v -> (forall s, v <> VStr s) ->
     simplify_string sub_parens sub_fps sub_dot (l1 ++ e :: l2) key = Err TypeError).
  Proof.
    intros key l1 e l2 Hok.
    assert (Hok' : forall a, In a l1 -> exists b, simplify_one sub_parens sub_fps sub_dot key a = Ok b).
    { intros a Ha. destruct (Hok a Ha) as [s G]. rewrite (simplify_one_str key a s G). eauto. }
    unfold simplify_string. split.
    - intros G. apply map_res_first_err; [exact Hok'|]. apply simplify_one_missing. exact G.
    - intros v G Hv. apply map_res_first_err; [exact Hok'|]. exact (simplify_one_nonstr key e v G Hv).
  Qed.
End WithSubs.

(* ------------------------------------------------------------------ *)
(* a toy engine for witnesses: pattern p is found in string s iff s = p, or ignore_case
   and s = p + 100 *)
Definition toy_re (p : Z) (ic : bool) (s : Z) : bool := (s =? p) || (ic && (s =? p + 100)).

(* a rule that matches but carries the empty category loses to the default *)
Lemma empty_category_loses :
  exists re classes e, (exists r, In ([], r) classes /\ rule_match re r (c_data e) = true) /\
    dget K_category (c_data (categorize_one re classes e)) = Some (VList [S_uncategorized]).
Proof.
  exists toy_re, [([], rule_init (mkSpec (Some 5) None false))], (mkCE None 0 0 [(K_app, VStr 5)]).
  split; [|vm_compute; reflexivity].
  eexists. split; [left; reflexivity|vm_compute; reflexivity].
Qed.
