(* Facts about the I/O script with a read that may fail (Model/ConfigFaults.v). *)
From AwVerif Require Import Base.Prelude Model.Config Model.ConfigFaults.

Definition is_write_f {text} (e : io_event_f text) : bool :=
  match e with FWrite _ => true | _ => false end.

Definition writes_f {text} (tr : list (io_event_f text)) : list (io_event_f text) := filter is_write_f tr.

Section IOF.
  Context {text : Type}.
  Variable parse : text -> res table.
  Variable comment : text -> text.

  (* The extension is conservative: when the read succeeds the script is Model/Config.v's. *)
  Lemma load_f_faultless : forall default file,
    load_config_f parse comment default file ReadOk = lift_result (load_config parse comment default file).
  Proof.
    intros default file. cbv [load_config_f load_config lift_result].
    destruct (parse default); [destruct file as [user|]; [destruct (parse user)|]| |]; reflexivity.
  Qed.

  (* Without a file the outcome of a read is irrelevant (no read is attempted). *)
  Lemma load_f_no_file : forall default ro,
    load_config_f parse comment default None ro = lift_result (load_config parse comment default None).
  Proof.
    intros default ro. cbv [load_config_f load_config lift_result].
    destruct (parse default); reflexivity.
  Qed.

  (* An existing file, whatever the read answers: the file afterwards is the file before and
     there is no write operation. *)
  Lemma load_f_existing_untouched : forall default user ro,
    let r := load_config_f parse comment default (Some user) ro in
    lf_file r = Some user /\ writes_f (lf_trace r) = [].
  Proof.
    intros default user ro. cbv [load_config_f].
    destruct (parse default); [destruct ro; [destruct (parse user)|]| |]; cbn; split; reflexivity.
  Qed.

  (* The read of an existing file fails: the exception leaves the function (its class is the
     result), the trace ends with the failed read, nothing is written. *)
  Lemma load_f_read_fails : forall default user c d,
    parse default = Ok d ->
    let r := load_config_f parse comment default (Some user) (ReadFails c) in
    lf_value r = Err c /\ lf_file r = Some user /\
    lf_trace r = [FIsFile true; FReadFailed c] /\ writes_f (lf_trace r) = [].
  Proof.
    intros default user c d Hd. cbv [load_config_f]. rewrite Hd. cbn. repeat split; reflexivity.
  Qed.

  (* Afterwards (the fault gone) the user's values are all still there: the next load is the
     ordinary load of the same file. *)
  Lemma load_f_after_fault : forall default user c,
    let r1 := load_config_f parse comment default (Some user) (ReadFails c) in
    load_config_f parse comment default (lf_file r1) ReadOk
    = lift_result (load_config parse comment default (Some user)).
  Proof.
    intros default user c. cbv zeta.
    destruct (load_f_existing_untouched default user (ReadFails c)) as [Hf _].
    cbv zeta in Hf. rewrite Hf. apply load_f_faultless.
  Qed.

  (* The variant that takes a failed read for "no file yet" overwrites the file. *)
  Lemma load_eafp_overwrites : forall default user c d,
    parse default = Ok d ->
    let r := load_config_eafp parse comment default (Some user) (ReadFails c) in
    lf_file r = Some (comment default) /\ writes_f (lf_trace r) = [FWrite (comment default)].
  Proof.
    intros default user c d Hd. cbv [load_config_eafp]. rewrite Hd. cbn. split; reflexivity.
  Qed.
End IOF.
