(* C02: refinement lifted to histories (sqlite; memory is in StoreMemRefine) and the
   corollaries the property text names, proved directly on the back end models for ALL
   arguments where no side condition is needed. *)
From Coq Require Import Permutation Sorted ZifyBool.
From AwVerif Require Import Base.Prelude Model.StoreBase Model.MemStore Model.SqliteStore
  Model.PeeweeStore Model.StoreSpec
  Proofs.StoreBaseFacts Proofs.StoreMemProofs Proofs.StoreMemRefine Proofs.StoreSpecFacts
  Proofs.StoreSqliteProofs Proofs.StoreSqliteRefine Proofs.StorePeeweeProofs.

(* ---------- sqlite: all histories ---------- *)
Fixpoint sq_hist_ok (c : sqstate) (h : list op) : Prop :=
  match h with
  | [] => True
  | o :: t => pre (sq_abs c) o /\ op_dom o /\ sq_hist_ok (fst (sq_step c o)) t
  end.

Theorem sq_refines_run : forall h c, sq_Inv c -> sq_Dom c -> sq_hist_ok c h ->
  spec_run (sq_abs c) h (sq_abs (sq_run c h)) /\ sq_Inv (sq_run c h) /\ sq_Dom (sq_run c h).
Proof.
  induction h as [|o t IH]; intros c I D H.
  - split; [constructor|split; assumption].
  - destruct H as [P [Od H]]. destruct (sq_refines c o I D P) as [out [_ S]].
    pose proof (sq_step_Inv c o I) as I'. pose proof (sq_step_Dom c o D Od) as D'.
    destruct (IH _ I' D' H) as [R [I2 D2]]. split; [|split; assumption].
    cbn. eapply sr_cons; eassumption.
Qed.

Lemma sq_refines_from_empty : forall h, sq_hist_ok sq_init h -> spec_run spec_init h (sq_abs (sq_run sq_init h)).
Proof. intros h H. apply (sq_refines_run h sq_init sq_Inv_init sq_Dom_init H). Qed.

Lemma mem_refines_from_empty : forall h, mem_hist_ok mem_init h -> spec_run spec_init h (mem_run mem_init h).
Proof. intros h H. apply (mem_refines_run h mem_init mem_Inv_init H). Qed.

(* both back ends, fed a history that meets the side condition on each, end in states the
   reference model reaches from the empty store by that same history *)
Lemma mem_sqlite_same_spec : forall h,
  mem_hist_ok mem_init h -> sq_hist_ok sq_init h ->
  spec_run spec_init h (mem_run mem_init h) /\ spec_run spec_init h (sq_abs (sq_run sq_init h)).
Proof. intros h H1 H2. split; [now apply mem_refines_from_empty|now apply sq_refines_from_empty]. Qed.

(* ---------- ids never name two live events ---------- *)
Lemma mem_ids_unique_reachable : forall h b m es,
  mem_view (mem_run mem_init h) b = Some (m, es) -> ids_unique es.
Proof.
  intros h b m es H. destruct (mem_run_Inv h mem_init mem_Inv_init) as [_ W]. eapply W. exact H.
Qed.

Lemma sq_ids_unique_reachable : forall h b m es,
  sq_view (sq_run sq_init h) b = Some (m, es) -> ids_unique es.
Proof. intros h b m es H. eapply sq_view_ids_unique; [apply sq_run_Inv, sq_Inv_init|exact H]. Qed.

Lemma NoDup_map_filter : forall {A B} (g : A -> B) (p : A -> bool) l,
  NoDup (map g l) -> NoDup (map g (filter p l)).
Proof.
  intros A B g p l N. pose proof (NoDup_map_delete_where g (fun x => negb (p x)) l N) as H.
  unfold delete_where in H. erewrite filter_ext in H; [exact H|]. intro x. cbn. now destruct (p x).
Qed.

Lemma live_ids_prow_events : forall X, live_ids (map prow_event X) = map pe_id X.
Proof. induction X as [|r t IH]; [reflexivity|]. rewrite map_cons, live_ids_cons. cbn. now rewrite IH. Qed.

Lemma pw_view_ids_unique : forall c b m es, pw_Inv c -> pw_view c b = Some (m, es) -> ids_unique es.
Proof.
  intros c b m es I H. rewrite pw_view_row in H. destruct (pbucket_row c b) as [r|]; [|discriminate].
  inversion H; subst; clear H. split.
  - rewrite live_ids_prow_events. apply NoDup_map_filter. apply (pwi_eids c I).
  - intros e He. apply in_map_iff in He as [x [<- _]]. discriminate.
Qed.

Lemma pw_ids_unique_reachable : forall h b m es,
  pw_view (pw_run pw_init h) b = Some (m, es) -> ids_unique es.
Proof. intros h b m es H. eapply pw_view_ids_unique; [apply pw_run_Inv, pw_Inv_init|exact H]. Qed.

(* replace / replace_last never change an id: the live ids of a replaced list are the same *)
Lemma replace_keeps_ids : forall i e es, live_ids (spec_replace i e es) = live_ids es.
Proof. exact live_ids_replace. Qed.

(* ---------- delete removes exactly the addressed event (any id, any state) ---------- *)
Lemma spec_delete_not_live : forall i es, ~ is_live i es -> spec_delete i es = es.
Proof.
  intros i es L. unfold spec_delete. apply filter_all. intros x Ix.
  now rewrite (not_live_has_id i es L x Ix).
Qed.

Lemma mem_delete_exact : forall c b i m es,
  mem_Inv c -> mem_view c b = Some (m, es) ->
  mem_view (fst (mem_step c (Delete b i))) b = Some (m, spec_delete i es) /\
  snd (mem_step c (Delete b i)) = Ok (OBool (if in_dec Z.eq_dec i (live_ids es) then true else false)).
Proof.
  intros c b i m es I V. unfold mem_view in V. cbn [mem_step]. rewrite V.
  rewrite (remove_last_ext _ (has_id i)) by (intro; apply id_matches_has_id).
  destruct I as [_ W]. destruct (W b m es V) as [N S].
  destruct (remove_last (has_id i) es) as [es'|] eqn:R.
  - destruct (remove_last_unique i es es' N R) as [L ->]. cbn. unfold mem_view, mem_set_events.
    rewrite aget_aset_same. split; [reflexivity|]. destruct (in_dec _ _ _); [reflexivity|contradiction].
  - assert (L : ~ is_live i es) by (apply has_id_all_false_not_live; now apply remove_last_None).
    cbn. unfold mem_view. rewrite V, (spec_delete_not_live i es L). split; [reflexivity|].
    destruct (in_dec _ _ _); [contradiction|reflexivity].
Qed.

Lemma sq_delete_exact : forall c b i m es,
  sq_Inv c -> sq_view c b = Some (m, es) ->
  sq_view (fst (sq_step c (Delete b i))) b = Some (m, spec_delete i es) /\
  snd (sq_step c (Delete b i)) = Ok (OBool (if in_dec Z.eq_dec i (live_ids es) then true else false)).
Proof.
  intros c b i m es I V. destruct (sq_delete_event_count c b i m es I V) as [C1 C0].
  pose proof (sq_view_delete_event c b i m es V) as V'. cbn [sq_step].
  destruct (sql_delete_event c b i) as [c' n]. cbn [fst snd] in *. split; [assumption|].
  destruct (in_dec Z.eq_dec i (live_ids es)) as [L|L]; [now rewrite (C1 L)|now rewrite (C0 L)].
Qed.

(* ---------- replace_last rewrites exactly the event the limit-1 read returned ---------- *)
Lemma firstn1_rev_last : forall {A} (l : list A) x, firstn 1 (rev l) = [x] -> last_opt l = Some x.
Proof.
  intros A l x H. destruct (rev l) as [|y t] eqn:E; [discriminate|]. cbn in H. inversion H; subst.
  apply (f_equal (@rev A)) in E. rewrite rev_involutive in E. cbn in E. rewrite E. apply last_opt_app.
Qed.

Lemma mem_replace_last_hits_limit1 : forall c b e x m es,
  mem_Inv c -> mem_view c b = Some (m, es) ->
  snd (mem_step c (GetEvents b 1 None None)) = Ok (OEvents [x]) ->
  exists i, eid x = Some i /\ In x es /\
            mem_view (fst (mem_step c (ReplaceLast b e))) b = Some (m, spec_replace i e es).
Proof.
  intros c b e x m es I V G. unfold mem_view in V. cbn [mem_step] in *. rewrite V in *. cbn in G.
  inversion G as [G1]. apply firstn1_rev_last in G1. rewrite G1.
  pose proof (sort_by_last_max ts es x G1) as [Ix _].
  destruct I as [_ W]. destruct (W b m es V) as [_ S].
  destruct (eid x) as [i|] eqn:Ex; [|exfalso; now apply (S x Ix)].
  exists i. split; [reflexivity|split; [assumption|]].
  unfold mem_replace. rewrite V. cbn. unfold mem_view, mem_set_events.
  now rewrite aget_aset_same, mem_replace_events_spec.
Qed.

Lemma sq_select_rows : forall c b rid,
  sq_Dom c -> sql_bucket_rowid c b = Some rid ->
  select_where (fun x => eq_nullable (er_bucket x) (sql_bucket_rowid c b) && sq_in_window 0 MAX_TIMESTAMP x)
               (sq_events c) = rows_of c rid.
Proof.
  intros c b rid D H. rewrite H. unfold select_where, rows_of. apply filter_ext_in. intros x Ix.
  rewrite (D x Ix), eq_nullable_Some. apply andb_true_r.
Qed.

Lemma sq_newest_rows : forall c b rid,
  sql_bucket_rowid c b = Some rid ->
  sql_newest_id c b = match sql_order_start_desc_id_desc (rows_of c rid) with
                      | r0 :: _ => Some (er_id r0) | [] => None end.
Proof. intros c b rid H. unfold sql_newest_id. rewrite H. reflexivity. Qed.

Lemma sq_get1 : forall c b,
  snd (sq_step c (GetEvents b 1 None None))
  = Ok (OEvents (map row_event (sql_select_events c b 0 MAX_TIMESTAMP 1))).
Proof. reflexivity. Qed.

Lemma sq_step_replace_last : forall c b e, fst (sq_step c (ReplaceLast b e)) = sql_update_newest c b e.
Proof. reflexivity. Qed.

Lemma sq_replace_last_hits_limit1 : forall c b e x m es,
  sq_Dom c -> sq_view c b = Some (m, es) ->
  snd (sq_step c (GetEvents b 1 None None)) = Ok (OEvents [x]) ->
  exists i, eid x = Some i /\ In x es /\
            sq_view (fst (sq_step c (ReplaceLast b e))) b = Some (m, spec_replace i e es).
Proof.
  intros c b e x m es D V G. pose proof (sq_view_update_newest c b e m es V) as V'.
  apply sq_view_Some in V as [r [Hr [-> [-> Hrid]]]].
  rewrite sq_get1 in G. rewrite sq_step_replace_last. unfold sql_select_events in G.
  rewrite (sq_select_rows c b _ D Hrid) in G. rewrite (sq_newest_rows c b _ Hrid) in V'.
  unfold sql_limit in G. change (1 <? 0) with false in G. change (Z.to_nat 1) with 1%nat in G.
  destruct (sql_order_start_desc_id_desc (rows_of c (br_rowid r))) as [|r0 t] eqn:O; [discriminate|].
  cbn [firstn map] in G. inversion G; subst. exists (er_id r0). split; [reflexivity|]. split; [|exact V'].
  apply in_map. eapply Permutation_in; [apply sq_order_perm|]. rewrite O. now left.
Qed.
