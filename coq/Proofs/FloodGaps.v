(* C10, part 3: long gaps stay intact; the domain stated without reference to the sort. *)
From AwVerif Require Import Base.Prelude Model.Flood Proofs.FloodStep Proofs.FloodWalk.
From Coq Require Import ZifyBool Permutation.

(* ---- inside a non-overlapping chain ---- *)

Lemma chain_lower : forall rest c e,
  chain c rest -> Forall ev_ok rest -> In e rest -> eend c <= ts e.
Proof.
  induction rest as [|n r IH]; intros c e Hch Hok Hin; [destruct Hin|].
  cbn [chain] in Hch. destruct Hch as [Hs Hch]. inversion Hok as [|? ? Hn Hr]; subst.
  destruct Hin as [<-|Hin]; [exact Hs|].
  specialize (IH n e Hch Hr Hin). destruct Hn as (Hd & _). unfold eend in *. lia.
Qed.

Lemma gapcover_lower : forall p rest c t,
  chain c rest -> Forall ev_ok rest -> gapcover p c rest t -> eend c <= t.
Proof.
  induction rest as [|n r IH]; intros c t Hch Hok Hg; cbn [gapcover] in Hg; [destruct Hg|].
  cbn [chain] in Hch. destruct Hch as [Hs Hch]. inversion Hok as [|? ? Hn Hr]; subst.
  destruct Hg as [[_ Ht]|Hg]; [lia|].
  specialize (IH n t Hch Hr Hg). destruct Hn as (Hd & _). unfold eend in *. lia.
Qed.

(* a point strictly inside the gap between two neighbours is covered by no event *)
Lemma gap_not_covered : forall a b l2 t l1 c rest,
  c :: rest = l1 ++ a :: b :: l2 -> chain c rest -> Forall ev_ok (c :: rest) ->
  eend a <= t < ts b -> ~ covers (c :: rest) t.
Proof.
  intros a b l2 t. induction l1 as [|x l1 IH]; intros c rest E Hch Hok Ht Hcov; cbn [app] in E.
  - injection E as -> ->. inversion Hok as [|? ? Ha Hr]; subst.
    apply covers_cons in Hcov. destruct Hcov as [Hc|(e & Hin & He)].
    + unfold covers1 in Hc. lia.
    + destruct Hin as [<-|Hin]; [lia|].
      cbn [chain] in Hch. destruct Hch as [_ Hch]. inversion Hr as [|? ? Hb Hl2]; subst.
      pose proof (chain_lower _ _ _ Hch Hl2 Hin). destruct Hb as (Hd & _). unfold eend in *. lia.
  - injection E as -> E. pose proof (Forall_inv Hok) as Hc. pose proof (Forall_inv_tail Hok) as Hr.
    assert (Hain : In a rest) by (rewrite E; apply in_or_app; right; left; reflexivity).
    pose proof (chain_lower _ _ _ Hch Hr Hain) as Hlo.
    assert (Hda : 0 <= dur a) by (rewrite Forall_forall in Hr; apply Hr in Hain; destruct Hain; assumption).
    apply covers_cons in Hcov. destruct Hcov as [Hcv|Hcov].
    + unfold covers1, eend in *. lia.
    + destruct rest as [|n r]; [destruct l1; discriminate|].
      cbn [chain] in Hch. destruct Hch as [_ Hch]. exact (IH n r E Hch Hr Ht Hcov).
Qed.

(* ... and belongs to no other gap *)
Lemma gap_is_that_gap : forall p a b l2 t l1 c rest,
  c :: rest = l1 ++ a :: b :: l2 -> chain c rest -> Forall ev_ok (c :: rest) ->
  eend a <= t < ts b -> gapcover p c rest t -> ts b - eend a <= p.
Proof.
  intros p a b l2 t. induction l1 as [|x l1 IH]; intros c rest E Hch Hok Ht Hg; cbn [app] in E.
  - injection E as -> ->. inversion Hok as [|? ? Ha Hr]; subst. inversion Hr as [|? ? Hb Hl2]; subst.
    cbn [gapcover] in Hg. destruct Hg as [[Hs _]|Hg]; [exact Hs|].
    cbn [chain] in Hch. destruct Hch as [_ Hch].
    pose proof (gapcover_lower _ _ _ _ Hch Hl2 Hg). destruct Hb as (Hd & _). unfold eend in *. lia.
  - injection E as -> E. pose proof (Forall_inv Hok) as Hc. pose proof (Forall_inv_tail Hok) as Hr.
    destruct rest as [|n r]; [destruct l1; discriminate|].
    cbn [gapcover] in Hg. cbn [chain] in Hch. destruct Hch as [Hs Hch].
    destruct Hg as [[_ Hg]|Hg]; [|exact (IH n r E Hch Hr Ht Hg)].
    exfalso.
    assert (Hain : In a (n :: r)) by (rewrite E; apply in_or_app; right; left; reflexivity).
    assert (Hda : 0 <= dur a) by (rewrite Forall_forall in Hr; apply Hr in Hain; destruct Hain; assumption).
    inversion Hr as [|? ? Hn Hr']; subst.
    destruct Hain as [<-|Hain]; [unfold eend in *; lia|].
    pose proof (chain_lower _ _ _ Hch Hr' Hain). destruct Hn as (Hd & _). unfold eend in *. lia.
Qed.

Lemma covers_sort : forall l t, covers (sort_by ts l) t <-> covers l t.
Proof.
  intros l t. unfold covers. split; intros (e & Hin & H); exists e; (split; [|exact H]);
    apply sort_by_In; exact Hin.
Qed.

(* Every gap longer than the pulsetime is intact. *)
Lemma flood_long_gaps_intact : forall l p a b t,
  flood_domain l -> adjacent a b (sort_by ts l) -> p < ts b - eend a ->
  eend a <= t < ts b -> ~ covers (flood l p) t.
Proof.
  intros l p a b t Hd (l1 & l2 & E) Hlong Ht Hcov.
  apply flood_new_cover_only_in_short_gaps in Hcov; [|exact Hd].
  destruct Hd as [Hok Hno]. apply (sort_by_Forall _ _) in Hok.
  rewrite <- covers_sort in Hcov.
  destruct (sort_by ts l) as [|c r]; [destruct l1; discriminate|].
  cbn [nonoverlapping] in Hno. destruct Hcov as [Hcov|Hg].
  - exact (gap_not_covered a b l2 t l1 c r E Hno Hok Ht Hcov).
  - apply gapcover_short_gap in Hg.
    pose proof (gap_is_that_gap p a b l2 t l1 c r E Hno Hok Ht Hg). lia.
Qed.

(* ---- the domain without reference to the sort: pairwise disjoint, distinct starts ---- *)

(* whichever of two events starts first ends before the other starts *)
Definition pairwise_disjoint (l : list event) : Prop :=
  forall a b, In a l -> In b l -> ts a < ts b -> eend a <= ts b.

Fixpoint sorted_from (lo : Z) (l : list event) : Prop :=
  match l with
  | [] => True
  | e :: t => lo <= ts e /\ sorted_from (ts e) t
  end.

Lemma insert_sorted_sorted : forall l lo x,
  sorted_from lo l -> lo <= ts x -> sorted_from lo (insert_sorted ts x l).
Proof.
  induction l as [|y l IH]; intros lo x Hs Hx; cbn [insert_sorted sorted_from] in *; [tauto|].
  destruct Hs as [Hy Hs]. destruct (ts y <? ts x) eqn:E; cbn [sorted_from].
  - split; [exact Hy|]. apply IH; [exact Hs|lia].
  - repeat split; [exact Hx|lia|exact Hs].
Qed.

Lemma sort_by_sorted : forall l lo,
  (forall e, In e l -> lo <= ts e) -> sorted_from lo (sort_by ts l).
Proof.
  induction l as [|y l IH]; intros lo H; [exact I|].
  change (sort_by ts (y :: l)) with (insert_sorted ts y (sort_by ts l)).
  apply insert_sorted_sorted; [apply IH; intros e He; apply H; right; exact He|apply H; left; reflexivity].
Qed.

Lemma insert_sorted_perm : forall (x : event) l, Permutation (insert_sorted ts x l) (x :: l).
Proof.
  intros x l. induction l as [|y l IH]; cbn [insert_sorted]; [apply Permutation_refl|].
  destruct (ts y <? ts x); [|apply Permutation_refl].
  eapply perm_trans; [apply perm_skip; exact IH|apply perm_swap].
Qed.

Lemma sort_by_perm : forall l : list event, Permutation (sort_by ts l) l.
Proof.
  induction l as [|y l IH]; [apply perm_nil|].
  change (sort_by ts (y :: l)) with (insert_sorted ts y (sort_by ts l)).
  eapply perm_trans; [apply insert_sorted_perm|apply perm_skip; exact IH].
Qed.

Lemma sorted_distinct_chain : forall l r c,
  pairwise_disjoint l -> sorted_from (ts c) r -> NoDup (map ts (c :: r)) ->
  (forall e, In e (c :: r) -> In e l) -> chain c r.
Proof.
  intros l. induction r as [|n r IH]; intros c Hdis Hs Hnd Hin; cbn [chain]; [exact I|].
  cbn [sorted_from] in Hs. destruct Hs as [Hle Hs].
  cbn [map] in Hnd. inversion Hnd as [|? ? Hnotin Hnd']; subst.
  split.
  - apply Hdis; [apply Hin; left; reflexivity|apply Hin; right; left; reflexivity|].
    assert (ts c <> ts n) by (intro Heq; apply Hnotin; left; symmetry; exact Heq). lia.
  - apply IH; [exact Hdis|exact Hs|exact Hnd'|intros e He; apply Hin; right; exact He].
Qed.

Lemma lower_bound_exists : forall l : list event, exists lo, forall e, In e l -> lo <= ts e.
Proof.
  induction l as [|y l [lo H]]; [exists 0; intros e []|].
  exists (Z.min lo (ts y)). intros e [<-|He]; [lia|specialize (H e He); lia].
Qed.

(* The property's own wording of the domain implies the one the theorems use. *)
Lemma text_domain_is_domain : forall l,
  Forall ev_ok l -> NoDup (map ts l) -> pairwise_disjoint l -> flood_domain l.
Proof.
  intros l Hok Hnd Hdis. split; [exact Hok|].
  pose proof (sort_by_perm l) as Hp.
  assert (Hnd' : NoDup (map ts (sort_by ts l))).
  { eapply Permutation_NoDup; [apply Permutation_map; apply Permutation_sym; exact Hp|exact Hnd]. }
  assert (Hin : forall e, In e (sort_by ts l) -> In e l) by (intros e; apply sort_by_In).
  destruct (lower_bound_exists l) as [lo Hlo].
  pose proof (sort_by_sorted l lo Hlo) as Hs.
  destruct (sort_by ts l) as [|c r]; [exact I|]. cbn [nonoverlapping].
  cbn [sorted_from] in Hs. destruct Hs as [_ Hs].
  apply (sorted_distinct_chain l); [exact Hdis|exact Hs|exact Hnd'|exact Hin].
Qed.

(* ---- statements that Props/C10.v quotes ---- *)

Lemma flood_domain_unfold : forall l,
  flood_domain l <->
  (Forall (fun e => 0 <= dur e /\ ts e mod 1000 = 0 /\ dur e mod 1000 = 0) l /\
   nonoverlapping (sort_by ts l)).
Proof. intros l. unfold flood_domain, ev_ok, ms_aligned. tauto. Qed.

Lemma step_keeps_right_end : forall p c n,
  ev_ok c -> ev_ok n -> eend c <= ts n ->
  let c' := fst (fill_step p c n) in
  let n' := snd (fill_step p c n) in
  eend n' = eend n /\ ts c' = ts c /\ data c' = data c /\ data n' = data n /\
  ev_ok c' /\ ev_ok n' /\ eend c' <= ts n'.
Proof.
  intros p c n Hc Hn Hs. destruct (fill_step_spec p c n Hc Hn Hs). cbv zeta. tauto.
Qed.

(* inside the domain the two negative-gap branches and the trim of small overlaps are never
   taken: the model's walk equals a walk whose step only has `continue` and the four fill
   branches *)
Definition fill_only_step (p : Z) (e1 e2 : event) : event * event :=
  let gap := ts e2 - eend e1 in
  if (0 <? gap) && (gap <=? p) then
    let e2_end := eend e2 in
    if dur e1 >=? dur e2 then
      if data e1 =? data e2
      then (set_dur e1 (e2_end - ts e1), mkEvent (eid e2) e2_end 0 (data e2))
      else (set_dur e1 (ts e2 - ts e1), e2)
    else
      if data e1 =? data e2
      then (set_dur e1 0, mkEvent (eid e2) (ts e1) (e2_end - ts e1) (data e2))
      else (e1, mkEvent (eid e2) (eend e1) (e2_end - eend e1) (data e2))
  else (e1, e2).

Lemma fill_step_in_domain : forall p c n,
  ev_ok c -> ev_ok n -> eend c <= ts n -> fill_step p c n = fill_only_step p c n.
Proof.
  intros p c n (Hdc & Hac1 & Hac2) (Hdn & Han1 & Han2) Hsep.
  pose proof (floor_ms_id (ts c) Hac1) as F1.
  pose proof (floor_ms_id (ts c + dur c) (aligned_add _ _ Hac1 Hac2)) as F2.
  pose proof (floor_ms_id (ts n + dur n) (aligned_add _ _ Han1 Han2)) as F3.
  unfold eend in Hsep.
  unfold fill_step, fill_only_step, flood_step, negative_gap_trim_thres, eend, assign_ts, set_dur, set_ts.
  cbn [ts dur data eid].
  split_ifs; cbn [fst ts dur data eid]; rewrite ?F1, ?F2, ?F3; try reflexivity; try (exfalso; lia).
  all: destruct c, n; cbn [ts dur data eid] in *; reflexivity.
Qed.

(* ---- the millisecond-grid hypothesis cannot be dropped ---- *)

(* Event floors every timestamp it is assigned to the millisecond but stores durations to
   the microsecond.  With one duration off the grid, extending the right-hand event "back to
   the end of e1" lands on the floor of that end: the output overlaps (by < 1 ms). *)
Lemma off_grid_overlap :
  exists l p,
    Forall (fun e => 0 <= dur e /\ ts e mod 1000 = 0) l /\ NoDup (map ts l) /\
    nonoverlapping (sort_by ts l) /\ 0 <= p /\
    ~ nonoverlapping (flood l p).
Proof.
  exists [mkEvent None 0 1500 1; mkEvent None 2000 3000 2], 1000000.
  split; [repeat constructor; vm_compute; congruence|].
  split; [repeat constructor; cbn; intuition discriminate|].
  split; [vm_compute; intuition congruence|].
  split; [lia|].
  vm_compute. intros [H _]. apply H. reflexivity.
Qed.

(* ---- every output event is an input event with another start/duration ---- *)

Lemma walk_origin : forall p rest c o,
  ev_ok c -> Forall ev_ok rest -> chain c rest ->
  In o (walk p c rest) -> exists e, In e (c :: rest) /\ eid o = eid e /\ data o = data e.
Proof.
  intros p. induction rest as [|n r IH]; intros c o Hc Hr Hch Hin.
  - destruct Hin as [<-|[]]. exists c. split; [left; reflexivity|split; reflexivity].
  - rewrite walk_cons in Hin. pose proof (Forall_inv Hr) as Hn. pose proof (Forall_inv_tail Hr) as Hr'.
    cbn [chain] in Hch. destruct Hch as [Hsep Hch].
    pose proof (fill_step_spec p c n Hc Hn Hsep) as S.
    destruct S as [_ Hend Hdc Hdn Hic Hin' _ Hokn _ _ _ _ _ _].
    destruct Hin as [<-|Hin].
    + exists c. split; [left; reflexivity|split; assumption].
    + assert (Hch' : chain (snd (fill_step p c n)) r) by (eapply chain_end_eq; eassumption).
      destruct (IH _ o Hokn Hr' Hch' Hin) as (e & [<-|He] & Hi & Hd).
      * exists n. split; [right; left; reflexivity|split; congruence].
      * exists e. split; [right; right; exact He|split; assumption].
Qed.

Lemma flood_origin : forall l p o,
  flood_domain l -> In o (flood l p) ->
  exists e, In e l /\ eid o = eid e /\ data o = data e.
Proof.
  intros l p o [Hok Hno] Hin. rewrite flood_unfold in Hin. apply (sort_by_Forall _ _) in Hok.
  assert (Hs : forall e, In e (sort_by ts l) -> In e l) by (intros e; apply sort_by_In).
  destruct (sort_by ts l) as [|c r]; [destruct Hin|].
  apply filter_In in Hin. destruct Hin as [Hin _].
  destruct (walk_origin p r c o (Forall_inv Hok) (Forall_inv_tail Hok) Hno Hin) as (e & He & H).
  exists e. split; [apply Hs; exact He|exact H].
Qed.
