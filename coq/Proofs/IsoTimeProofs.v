(* Facts about Model/IsoTime.v: the text isoformat() prints for a UTC instant of
   1970..2100 has the published shape and iso8601.parse_date (covered subset) reads it back
   as the same instant with offset 0.  The calendar part is an exhaustive kernel
   evaluation over the 47483 days 1970-01-01 .. 2100-01-01; digits by exhaustive evaluation
   (2 and 4 digits) and linear arithmetic (6 digits).  No axiom. *)
From Coq Require Import ZArith Bool List Lia Ascii.
From AwVerif Require Import Base.Prelude Model.IsoTime Proofs.PyFloatFinite.
Open Scope char_scope.
Open Scope Z_scope.

Ltac Zify.zify_post_hook ::= Z.to_euclidean_division_equations.

Definition opt_is (o : option Z) (v : Z) : bool := match o with Some a => a =? v | None => false end.
Lemma opt_is_eq : forall o v, opt_is o v = true -> o = Some v.
Proof. intros [a|] v H; cbn in H; try discriminate. apply Z.eqb_eq in H. now subst. Qed.

Lemma digit_val_digit : forall n, 0 <= n <= 9 -> digit_val (digit n) = Some n.
Proof.
  intros n H.
  assert (C : n = 0 \/ n = 1 \/ n = 2 \/ n = 3 \/ n = 4 \/ n = 5 \/ n = 6 \/ n = 7 \/ n = 8 \/ n = 9) by lia.
  repeat (destruct C as [->|C]; [reflexivity|]). subst. reflexivity.
Qed.

Lemma num2_all : check_upto (fun n => opt_is (num [digit (n / 10); digit (n mod 10)]) n) (Z.to_nat 100) 0 = true.
Proof. vm_cast_no_check (eq_refl true). Qed.
Lemma num2 : forall n, 0 <= n < 100 -> num [digit (n / 10); digit (n mod 10)] = Some n.
Proof. intros n H. apply opt_is_eq. apply (check_upto_spec _ _ _ num2_all). rewrite Z2Nat.id; lia. Qed.

Lemma num4_all : check_upto (fun n => opt_is (num [digit (n / 1000); digit (n / 100 mod 10); digit (n / 10 mod 10); digit (n mod 10)]) n)
                   (Z.to_nat 10000) 0 = true.
Proof. vm_cast_no_check (eq_refl true). Qed.
Lemma num4 : forall n, 0 <= n < 10000 ->
  num [digit (n / 1000); digit (n / 100 mod 10); digit (n / 10 mod 10); digit (n mod 10)] = Some n.
Proof. intros n H. apply opt_is_eq. apply (check_upto_spec _ _ _ num4_all). rewrite Z2Nat.id; lia. Qed.

Lemma span_digit_cons : forall a r, 0 <= a <= 9 ->
  span_digits (digit a :: r) = (a :: fst (span_digits r), snd (span_digits r)).
Proof.
  intros a r H. cbn [span_digits]. rewrite (digit_val_digit a H). now destruct (span_digits r).
Qed.

Lemma span_pad6 : forall us, 0 <= us < 1000000 ->
  span_digits (pad6 us ++ utc_suffix) =
  ([us / 100000; us / 10000 mod 10; us / 1000 mod 10; us / 100 mod 10; us / 10 mod 10; us mod 10], utc_suffix).
Proof.
  intros us H. unfold pad6. cbn [app].
  rewrite !span_digit_cons by lia. reflexivity.
Qed.

Lemma frac6 : forall us, 0 <= us < 1000000 ->
  frac_us [us / 100000; us / 10000 mod 10; us / 1000 mod 10; us / 100 mod 10; us / 10 mod 10; us mod 10] 6 = us.
Proof. intros us H. cbn [frac_us Z.of_nat Pos.of_succ_nat Pos.succ]. change (10 ^ 5) with 100000.
  change (10 ^ 4) with 10000. change (10 ^ 3) with 1000. change (10 ^ 2) with 100. change (10 ^ 1) with 10.
  change (10 ^ 0) with 1. lia. Qed.

(* the calendar, exhaustively *)
Definition civil_ok (d : Z) : bool :=
  let '(y, m, dd) := civil_from_days d in
  (1970 <=? y) && (y <=? 2100) && (1 <=? m) && (m <=? 12) && (1 <=? dd) && (dd <=? days_in_month y m)
  && (days_from_civil y m dd =? d).

Lemma civil_all : check_upto civil_ok (Z.to_nat 47483) 0 = true.
Proof. vm_cast_no_check (eq_refl true). Qed.

Lemma civil_spec : forall d, 0 <= d <= 47482 ->
  exists y m dd, civil_from_days d = (y, m, dd) /\ 1970 <= y <= 2100 /\ 1 <= m <= 12 /\
                 1 <= dd <= days_in_month y m /\ days_from_civil y m dd = d.
Proof.
  intros d H. pose proof (check_upto_spec _ _ _ civil_all d) as K.
  rewrite Z2Nat.id in K by lia. specialize (K ltac:(lia)). unfold civil_ok in K.
  destruct (civil_from_days d) as [[y m] dd]. exists y, m, dd. split; [reflexivity|].
  repeat (apply andb_prop in K; destruct K as [K ?]).
  repeat match goal with H : (_ <=? _) = true |- _ => apply Z.leb_le in H
                       | H : (_ =? _) = true |- _ => apply Z.eqb_eq in H end.
  lia.
Qed.

Lemma days_in_month_le : forall y m, days_in_month y m <= 31.
Proof. intros y m. unfold days_in_month. repeat match goal with |- context [if ?b then _ else _] => destruct b end; lia. Qed.

Definition y2100_us : Z := 4102444800000000.

Lemma parse_tz_utc : parse_tz utc_suffix = Ok 0.
Proof. reflexivity. Qed.

(* isoformat / str of a UTC instant reads back as that instant, offset 0 *)
Theorem parse_isoformat : forall sep t, sep = "T"%char \/ sep = " "%char ->
  0 <= t <= y2100_us -> parse_iso (isoformat_sep sep t) = Ok (t, 0).
Proof.
  intros sep t Hsep Ht. unfold isoformat_sep, y2100_us in *.
  set (days := t / day_us). set (rem := t mod day_us).
  assert (Hd : 0 <= days <= 47482).
  { unfold days, day_us. split; [apply Z.div_pos; lia|]. apply Z.div_le_upper_bound; lia. }
  assert (Hrem : 0 <= rem < 86400000000) by (apply Z.mod_pos_bound; reflexivity).
  assert (Et : t = days * 86400000000 + rem).
  { unfold days, rem, day_us. pose proof (Z.div_mod t 86400000000). lia. }
  pose proof (civil_spec days Hd) as CS. destruct CS as (y & m & dd & C & Hy & Hm & Hdd & Inv). rewrite C.
  pose proof (days_in_month_le y m) as D31.
  set (hh := rem / 3600000000). set (mi := rem / 60000000 mod 60). set (ss := rem / 1000000 mod 60).
  set (us := rem mod 1000000).
  assert (Hhh : 0 <= hh < 24) by (unfold hh; lia).
  assert (Hmi : 0 <= mi < 60) by (unfold mi; lia).
  assert (Hss : 0 <= ss < 60) by (unfold ss; lia).
  assert (Hus : 0 <= us < 1000000) by (unfold us; lia).
  assert (Erem : rem = ((hh * 60 + mi) * 60 + ss) * 1000000 + us) by (unfold hh, mi, ss, us; lia).
  unfold pad4, pad2. cbn [app]. unfold parse_iso.
  assert (Sep : negb ((sep =? "T")%char || (sep =? " ")%char) = false) by (destruct Hsep as [->| ->]; reflexivity).
  rewrite Sep.
  rewrite (num4 y) by lia. rewrite (num2 m), (num2 dd), (num2 hh), (num2 mi), (num2 ss) by lia.
  assert (Valid : (1 <=? y) && (1 <=? m) && (m <=? 12) && (1 <=? dd) && (dd <=? days_in_month y m)
                  && (hh <=? 23) && (mi <=? 59) && (ss <=? 59) = true).
  { repeat (apply andb_true_intro; split); apply Z.leb_le; lia. }
  destruct (Z.eqb_spec us 0) as [U0|U0].
  - cbn [app]. unfold utc_suffix at 1. cbv beta iota. fold utc_suffix.
    cbn [bind]. rewrite parse_tz_utc. cbn [bind]. rewrite Valid. f_equal. f_equal. unfold day_us. lia.
  - cbn [app]. cbv beta iota. rewrite (span_pad6 us Hus). cbv beta iota. cbn [length Z.of_nat Pos.of_succ_nat Pos.succ].
    change (6 <=? 20) with true. cbv iota. cbn [bind]. rewrite parse_tz_utc. cbn [bind]. rewrite Valid.
    rewrite (frac6 us Hus). f_equal. f_equal. unfold day_us. lia.
Qed.

(* ------------------------------------------------------------------------- *)
(* shape of the JSON timestamp: YYYY-MM-DDTHH:MM:SS[.fff000]+00:00 *)

Definition is_digit (c : ascii) : bool := match digit_val c with Some _ => true | None => false end.
Definition all_digits (l : list ascii) : bool := forallb is_digit l.

Definition iso_utc_shape (s : list ascii) : bool :=
  match s with
  | y1 :: y2 :: y3 :: y4 :: "-" :: m1 :: m2 :: "-" :: d1 :: d2 :: "T" ::
    h1 :: h2 :: ":" :: i1 :: i2 :: ":" :: s1 :: s2 :: rest =>
      all_digits [y1; y2; y3; y4; m1; m2; d1; d2; h1; h2; i1; i2; s1; s2] &&
      match rest with
      | ["+"; "0"; "0"; ":"; "0"; "0"] => true
      | ["."; f1; f2; f3; "0"; "0"; "0"; "+"; "0"; "0"; ":"; "0"; "0"] => all_digits [f1; f2; f3]
      | _ => false
      end
  | _ => false
  end.

Lemma is_digit_digit : forall n, 0 <= n <= 9 -> is_digit (digit n) = true.
Proof. intros n H. unfold is_digit. now rewrite (digit_val_digit n H). Qed.

Theorem isoformat_shape : forall t, 0 <= t <= y2100_us -> t mod 1000 = 0 ->
  iso_utc_shape (isoformat_utc t) = true.
Proof.
  intros t Ht Hms. unfold isoformat_utc, isoformat_sep, y2100_us in *.
  set (days := t / day_us). set (rem := t mod day_us).
  assert (Hd : 0 <= days <= 47482).
  { unfold days, day_us. split; [apply Z.div_pos; lia|]. apply Z.div_le_upper_bound; lia. }
  assert (Hrem : 0 <= rem < 86400000000) by (apply Z.mod_pos_bound; reflexivity).
  assert (Rms : rem mod 1000 = 0).
  { unfold rem, day_us. pose proof (Z.div_mod t 86400000000). lia. }
  pose proof (civil_spec days Hd) as CS. destruct CS as (y & m & dd & C & Hy & Hm & Hdd & Inv). rewrite C.
  pose proof (days_in_month_le y m) as D31.
  set (hh := rem / 3600000000). set (mi := rem / 60000000 mod 60). set (ss := rem / 1000000 mod 60).
  set (us := rem mod 1000000).
  assert (Hhh : 0 <= hh < 24) by (unfold hh; lia).
  assert (Hmi : 0 <= mi < 60) by (unfold mi; lia).
  assert (Hss : 0 <= ss < 60) by (unfold ss; lia).
  assert (Hus : 0 <= us < 1000000) by (unfold us; lia).
  assert (Ums : us mod 1000 = 0) by (unfold us; lia).
  unfold pad4, pad2. cbn [app]. unfold iso_utc_shape, all_digits. cbn [forallb].
  rewrite !is_digit_digit by lia. cbn [andb].
  destruct (Z.eqb_spec us 0) as [U0|U0].
  - reflexivity.
  - unfold pad6. cbn [app].
    replace (us / 100 mod 10) with 0 by lia. replace (us / 10 mod 10) with 0 by lia.
    replace (us mod 10) with 0 by lia.
    change (digit 0) with "0"%char. unfold utc_suffix. cbv beta iota.
    rewrite !is_digit_digit by lia. reflexivity.
Qed.

(* ------------------------------------------------------------------------- *)
(* every offset parse_date can produce is a whole number of minutes *)

Lemma parse_tz_minutes : forall l off, parse_tz l = Ok off -> off mod 60000000 = 0.
Proof.
  intros l off H. unfold parse_tz in H.
  repeat match type of H with
         | context [match ?x with _ => _ end] => destruct x; try discriminate H
         end;
  injection H as <-; try reflexivity; apply Z.mod_mul; lia.
Qed.

Lemma parse_iso_minutes : forall s u off, parse_iso s = Ok (u, off) -> off mod 60000000 = 0.
Proof.
  intros s u off H. unfold parse_iso, bind in H.
  repeat match type of H with
         | context [match parse_tz ?r with _ => _ end] => destruct (parse_tz r) eqn:TZ; try discriminate H
         | context [match ?x with _ => _ end] => destruct x; try discriminate H
         end;
  injection H as _ <-; eapply parse_tz_minutes; eassumption.
Qed.
