(* Finite facts about the float expressions aw-core uses for millisecond rounding: for
   every microsecond field 0 <= us < 10^6 the float computation int(us / 1000) (and the
   expressions of Bucket.get built on it) equals the integer computation.
   [int_div_1000_exact] is proved through Flocq (Proofs/PyFloatSpec.v): the correctly
   rounded quotient of us = 1000 k + r by 1000 lies in [k, k + 0.999 + 2^-44], so its
   truncation is k.  The same statement is proved a second time, axiom-free, by exhaustive
   kernel evaluation over the 10^6 values in Proofs/PyFloatExhaustive.v.
   Also here: [check_upto] / [check_upto_spec], the helper that lifts a kernel-evaluated
   bounded check to a quantified statement. *)
From Coq Require Import ZArith Reals Bool List Lia Lra Floats.
From Flocq Require Import Core IEEE754.BinarySingleNaN IEEE754.PrimFloat.
From AwVerif Require Import Base.Prelude Model.PyFloat Proofs.PyFloatSpec.
Open Scope Z_scope.

Fixpoint check_upto (f : Z -> bool) (k : nat) (z : Z) : bool :=
  match k with
  | O => true
  | S k' => f z && check_upto f k' (z + 1)
  end.

Lemma check_upto_spec : forall f k z,
  check_upto f k z = true -> forall x, z <= x < z + Z.of_nat k -> f x = true.
Proof.
  induction k as [|k IH]; intros z H x Hx.
  - simpl in Hx. lia.
  - cbn [check_upto] in H. apply andb_prop in H. destruct H as [H0 H1].
    destruct (Z.eq_dec x z) as [->|Hne]; [exact H0|].
    apply (IH (z + 1) H1). lia.
Qed.

Definition res_Z_is (r : res Z) (v : Z) : bool :=
  match r with Ok a => a =? v | _ => false end.
Definition res_ZZ_is (r : res (Z * Z)) (v : Z * Z) : bool :=
  match r with Ok a => (fst a =? fst v) && (snd a =? snd v) | _ => false end.

Lemma res_Z_is_eq : forall r v, res_Z_is r v = true -> r = Ok v.
Proof. intros [a|c|] v H; cbn in H; try discriminate. apply Z.eqb_eq in H. now subst. Qed.
Lemma res_ZZ_is_eq : forall r v, res_ZZ_is r v = true -> r = Ok v.
Proof.
  intros [[a b]|c|] [v w] H; cbn in H; try discriminate.
  apply andb_prop in H. destruct H as [H1 H2]. apply Z.eqb_eq in H1, H2. now subst.
Qed.

Lemma bind_assoc : forall {A B C} (r : res A) (f : A -> res B) (g : B -> res C),
  bind r (fun a => bind (f a) g) = bind (bind r f) g.
Proof. intros A B C [a|c|] f g; reflexivity. Qed.

(* int(us / 1000) == us // 1000 for every microsecond field *)
Theorem int_div_1000_exact : forall us, 0 <= us < 1000000 ->
  bind (fdiv_int_int us 1000) int_of_float = Ok (us / 1000).
Proof.
  intros us H. unfold fdiv_int_int. change (1000 =? 0) with false. cbv iota.
  assert (T : (Z.abs us <=? two53) && (Z.abs 1000 <=? two53) = true).
  { apply andb_true_iff. split; apply Z.leb_le; unfold two53; simpl Z.abs; lia. }
  rewrite T. cbn [bind].
  destruct (of_Z_spec us ltac:(lia)) as [Fu Vu].
  destruct (of_Z_spec 1000 ltac:(simpl; lia)) as [Fk Vk].
  set (k := us / 1000). set (x := (IZR us / 1000)%R).
  pose proof (Z.div_mod us 1000 ltac:(lia)) as DM.
  pose proof (Z.mod_pos_bound us 1000 ltac:(lia)) as MB. fold k in DM.
  assert (Hk : 0 <= k < 1000) by (unfold k; split; [apply Z.div_pos; lia | apply Z.div_lt_upper_bound; lia]).
  assert (X1 : (IZR k <= x)%R).
  { unfold x. assert (IZR (1000 * k) <= IZR us)%R by (apply IZR_le; lia). rewrite mult_IZR in H0. lra. }
  assert (X2 : (x <= IZR k + 999 / 1000)%R).
  { unfold x. assert (IZR us <= IZR (1000 * k + 999))%R by (apply IZR_le; lia).
    rewrite plus_IZR, mult_IZR in H0. lra. }
  assert (K0 : (0 <= IZR k)%R) by (apply IZR_le; lia).
  assert (K1 : (IZR k <= 999)%R) by (apply IZR_le; lia).
  assert (Xb : (Rabs x < bpow radix2 10)%R).
  { rewrite Rabs_pos_eq by lra. change (bpow radix2 10) with 1024%R. lra. }
  pose proof (RN_err x 10 ltac:(lia) Xb) as E. change (10 - 54) with (-44) in E.
  assert (M : (bpow radix2 (-44) <= 1 / 2000)%R).
  { change (bpow radix2 (-44)) with (/ IZR (Zpower_pos 2 44))%R. simpl. lra. }
  apply Rabs_le_inv in E.
  assert (Lo : (IZR k <= RN x)%R).
  { apply round_ge_generic; [apply FLT_exp_valid; reflexivity | apply valid_rnd_N | apply fmt_IZR; lia | exact X1]. }
  destruct (fdiv_spec (of_Z us) (of_Z 1000) Fu Fk) as [Fq Vq].
  - rewrite Vk. lra.
  - rewrite Vu, Vk. fold x. rewrite Rabs_pos_eq by lra.
    eapply Rlt_trans; [|apply (bpow_lt radix2 10 64); lia]. change (bpow radix2 10) with 1024%R. lra.
  - rewrite Vu, Vk in Vq. fold x in Vq.
    rewrite (int_of_float_spec _ Fq), Vq. f_equal.
    rewrite Ztrunc_floor by lra. apply Zfloor_imp. rewrite plus_IZR. simpl. lra.
Qed.

(* models.py:  int(ts.microsecond / 1000) * 1000  is the field floored to the millisecond *)
Theorem ms_floor_float_exact : forall us, 0 <= us < 1000000 ->
  ms_floor_float us = Ok (us - us mod 1000).
Proof.
  intros us H. unfold ms_floor_float. rewrite bind_assoc, (int_div_1000_exact us H).
  cbn [bind]. f_equal. pose proof (Z.div_mod us 1000). lia.
Qed.

(* datastore.py Bucket.get, window start *)
Theorem bucket_start_us_exact : forall us, 0 <= us < 1000000 ->
  bucket_start_us us = Ok (us - us mod 1000).
Proof.
  intros us H. unfold bucket_start_us. rewrite bind_assoc, (int_div_1000_exact us H).
  cbn [bind]. f_equal. pose proof (Z.div_mod us 1000). lia.
Qed.

(* datastore.py Bucket.get, window end: the next whole millisecond, split into a carry
   of whole seconds and the new microsecond field *)
Theorem bucket_end_parts_exact : forall us, 0 <= us < 1000000 ->
  exists so usf, bucket_end_parts us = Ok (so, usf)
    /\ 0 <= usf < 1000000 /\ (so = 0 \/ so = 1)
    /\ so * 1000000 + usf = (us - us mod 1000) + 1000.
Proof.
  intros us H.
  pose proof (Z.div_mod us 1000 ltac:(lia)) as D.
  pose proof (Z.mod_pos_bound us 1000 ltac:(lia)) as B.
  assert (Q : 0 <= us / 1000 < 1000) by (split; [apply Z.div_pos; lia | apply Z.div_lt_upper_bound; lia]).
  unfold bucket_end_parts. rewrite bind_assoc, (int_div_1000_exact us H). cbn [bind].
  set (q := us / 1000) in *.
  rewrite bind_assoc, (int_div_1000_exact (1 + q)) by lia. cbn [bind].
  eexists _, _. split; [reflexivity|].
  destruct (Z.eq_dec q 999) as [->|Hq].
  - vm_compute ((1 + 999) / 1000). vm_compute ((1000 * (1 + 999)) mod 1000000). lia.
  - rewrite (Z.div_small (1 + q) 1000) by lia.
    rewrite (Z.mod_small (1000 * (1 + q)) 1000000) by lia. lia.
Qed.
