(* Exhaustive finite facts about the float expressions aw-core uses for millisecond
   rounding: for every microsecond field 0 <= us < 10^6 the float computation
   int(us / 1000) (and the expressions of Bucket.get built on it) equals the integer
   computation.  Each is a proof: the kernel evaluates the boolean check on all 10^6
   values (ten chunks of 10^5; [vm_cast_no_check] leaves the evaluation to the kernel's vm
   at Qed, so each chunk is evaluated once) and the result is lifted to the quantified
   statement by [check_upto_spec].  The other expressions (models.py ms floor, Bucket.get
   window start / end) are derived from it by unfolding.  No axiom is used. *)
From Coq Require Import ZArith Bool List Lia PrimFloat.
From AwVerif Require Import Base.Prelude Model.PyFloat.
Open Scope Z_scope.

Fixpoint check_upto (f : Z -> bool) (k : nat) (z : Z) : bool :=
  match k with
  | O => true
  | S k' => f z && check_upto f k' (z + 1)
  end.

Lemma check_upto_spec : forall f k z,
  check_upto f k z = true -> forall x, z <= x < z + Z.of_nat k -> f x = true.
Proof.
  induction k as [|k IH]; intros z H x Hx.
  - simpl in Hx. lia.
  - cbn [check_upto] in H. apply andb_prop in H. destruct H as [H0 H1].
    destruct (Z.eq_dec x z) as [->|Hne]; [exact H0|].
    apply (IH (z + 1) H1). lia.
Qed.

Definition res_Z_is (r : res Z) (v : Z) : bool :=
  match r with Ok a => a =? v | _ => false end.
Definition res_ZZ_is (r : res (Z * Z)) (v : Z * Z) : bool :=
  match r with Ok a => (fst a =? fst v) && (snd a =? snd v) | _ => false end.

Lemma res_Z_is_eq : forall r v, res_Z_is r v = true -> r = Ok v.
Proof. intros [a|c|] v H; cbn in H; try discriminate. apply Z.eqb_eq in H. now subst. Qed.
Lemma res_ZZ_is_eq : forall r v, res_ZZ_is r v = true -> r = Ok v.
Proof.
  intros [[a b]|c|] [v w] H; cbn in H; try discriminate.
  apply andb_prop in H. destruct H as [H1 H2]. apply Z.eqb_eq in H1, H2. now subst.
Qed.

Definition ok_us (us : Z) : bool :=
  res_Z_is (bind (fdiv_int_int us 1000) int_of_float) (us / 1000).

Definition chunk : nat := Z.to_nat 100000.

Lemma ok_chunk_0 : check_upto ok_us chunk 0 = true.
Proof. vm_cast_no_check (eq_refl true). Qed.
Lemma ok_chunk_1 : check_upto ok_us chunk 100000 = true.
Proof. vm_cast_no_check (eq_refl true). Qed.
Lemma ok_chunk_2 : check_upto ok_us chunk 200000 = true.
Proof. vm_cast_no_check (eq_refl true). Qed.
Lemma ok_chunk_3 : check_upto ok_us chunk 300000 = true.
Proof. vm_cast_no_check (eq_refl true). Qed.
Lemma ok_chunk_4 : check_upto ok_us chunk 400000 = true.
Proof. vm_cast_no_check (eq_refl true). Qed.
Lemma ok_chunk_5 : check_upto ok_us chunk 500000 = true.
Proof. vm_cast_no_check (eq_refl true). Qed.
Lemma ok_chunk_6 : check_upto ok_us chunk 600000 = true.
Proof. vm_cast_no_check (eq_refl true). Qed.
Lemma ok_chunk_7 : check_upto ok_us chunk 700000 = true.
Proof. vm_cast_no_check (eq_refl true). Qed.
Lemma ok_chunk_8 : check_upto ok_us chunk 800000 = true.
Proof. vm_cast_no_check (eq_refl true). Qed.
Lemma ok_chunk_9 : check_upto ok_us chunk 900000 = true.
Proof. vm_cast_no_check (eq_refl true). Qed.

Lemma ok_us_all : forall us, 0 <= us < 1000000 -> ok_us us = true.
Proof.
  intros us H.
  assert (Hc : Z.of_nat chunk = 100000) by (unfold chunk; rewrite Z2Nat.id; lia).
  destruct (Z_lt_le_dec us 100000); [apply (check_upto_spec _ _ _ ok_chunk_0); lia|].
  destruct (Z_lt_le_dec us 200000); [apply (check_upto_spec _ _ _ ok_chunk_1); lia|].
  destruct (Z_lt_le_dec us 300000); [apply (check_upto_spec _ _ _ ok_chunk_2); lia|].
  destruct (Z_lt_le_dec us 400000); [apply (check_upto_spec _ _ _ ok_chunk_3); lia|].
  destruct (Z_lt_le_dec us 500000); [apply (check_upto_spec _ _ _ ok_chunk_4); lia|].
  destruct (Z_lt_le_dec us 600000); [apply (check_upto_spec _ _ _ ok_chunk_5); lia|].
  destruct (Z_lt_le_dec us 700000); [apply (check_upto_spec _ _ _ ok_chunk_6); lia|].
  destruct (Z_lt_le_dec us 800000); [apply (check_upto_spec _ _ _ ok_chunk_7); lia|].
  destruct (Z_lt_le_dec us 900000); [apply (check_upto_spec _ _ _ ok_chunk_8); lia|].
  apply (check_upto_spec _ _ _ ok_chunk_9); lia.
Qed.

Lemma bind_assoc : forall {A B C} (r : res A) (f : A -> res B) (g : B -> res C),
  bind r (fun a => bind (f a) g) = bind (bind r f) g.
Proof. intros A B C [a|c|] f g; reflexivity. Qed.

(* int(us / 1000) == us // 1000 for every microsecond field *)
Theorem int_div_1000_exact : forall us, 0 <= us < 1000000 ->
  bind (fdiv_int_int us 1000) int_of_float = Ok (us / 1000).
Proof. intros us H. apply res_Z_is_eq. exact (ok_us_all us H). Qed.

(* models.py:  int(ts.microsecond / 1000) * 1000  is the field floored to the millisecond *)
Theorem ms_floor_float_exact : forall us, 0 <= us < 1000000 ->
  ms_floor_float us = Ok (us - us mod 1000).
Proof.
  intros us H. unfold ms_floor_float. rewrite bind_assoc, (int_div_1000_exact us H).
  cbn [bind]. f_equal. pose proof (Z.div_mod us 1000). lia.
Qed.

(* datastore.py Bucket.get, window start *)
Theorem bucket_start_us_exact : forall us, 0 <= us < 1000000 ->
  bucket_start_us us = Ok (us - us mod 1000).
Proof.
  intros us H. unfold bucket_start_us. rewrite bind_assoc, (int_div_1000_exact us H).
  cbn [bind]. f_equal. pose proof (Z.div_mod us 1000). lia.
Qed.

(* datastore.py Bucket.get, window end: the next whole millisecond, split into a carry
   of whole seconds and the new microsecond field *)
Theorem bucket_end_parts_exact : forall us, 0 <= us < 1000000 ->
  exists so usf, bucket_end_parts us = Ok (so, usf)
    /\ 0 <= usf < 1000000 /\ (so = 0 \/ so = 1)
    /\ so * 1000000 + usf = (us - us mod 1000) + 1000.
Proof.
  intros us H.
  pose proof (Z.div_mod us 1000 ltac:(lia)) as D.
  pose proof (Z.mod_pos_bound us 1000 ltac:(lia)) as B.
  assert (Q : 0 <= us / 1000 < 1000) by (split; [apply Z.div_pos; lia | apply Z.div_lt_upper_bound; lia]).
  unfold bucket_end_parts. rewrite bind_assoc, (int_div_1000_exact us H). cbn [bind].
  set (q := us / 1000) in *.
  rewrite bind_assoc, (int_div_1000_exact (1 + q)) by lia. cbn [bind].
  eexists _, _. split; [reflexivity|].
  destruct (Z.eq_dec q 999) as [->|Hq].
  - vm_compute ((1 + 999) / 1000). vm_compute ((1000 * (1 + 999)) mod 1000000). lia.
  - rewrite (Z.div_small (1 + q) 1000) by lia.
    rewrite (Z.mod_small (1000 * (1 + q)) 1000000) by lia. lia.
Qed.
