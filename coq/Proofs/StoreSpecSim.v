(* The reference model is deterministic up to the choice of ids: two runs fed histories
   that correspond (same ops, ids corresponding by position in the bucket's list) end in
   states with the same buckets and, per bucket, the same event list up to an injective
   renaming of ids -- provided every replace_last is issued when all newest events of the
   bucket carry one id (unambiguous).  Combined with the three refinements this is the
   interchangeability of the back ends. *)
From Coq Require Import Permutation Sorted ZifyBool.
From AwVerif Require Import Base.Prelude Model.StoreBase Model.StoreSpec
  Proofs.StoreBaseFacts Proofs.StoreMemProofs Proofs.StoreMemRefine.

Definition rename (f : Z -> Z) (e : event) : event := set_eid e (option_map f (eid e)).
Definition inj_on (f : Z -> Z) (l : list Z) : Prop :=
  forall a b, In a l -> In b l -> f a = f b -> a = b.

(* same contents up to an id renaming *)
Definition sim_list (es1 es2 : list event) : Prop :=
  exists f, inj_on f (live_ids es1) /\ es2 = map (rename f) es1.

Definition meta_sim (m1 m2 : meta) : Prop :=
  m_type m1 = m_type m2 /\ m_client m1 = m_client m2 /\ m_hostname m1 = m_hostname m2 /\
  m_created m1 = m_created m2 /\ m_data m1 = m_data m2.

Definition entry_sim (a b : Z * (meta * list event)) : Prop :=
  fst a = fst b /\ meta_sim (fst (snd a)) (fst (snd b)) /\ sim_list (snd (snd a)) (snd (snd b)).

Definition sim (s1 s2 : sstate) : Prop := Forall2 entry_sim s1 s2.

Definition same_content (e1 e2 : event) : Prop := ts e1 = ts e2 /\ dur e1 = dur e2 /\ data e1 = data e2.

(* i1 in es1 and i2 in es2 name the event at the same position, or neither names any *)
Definition id_corr (es1 es2 : list event) (i1 i2 : Z) : Prop :=
  (exists n x1 x2, nth_error es1 n = Some x1 /\ nth_error es2 n = Some x2 /\
                   eid x1 = Some i1 /\ eid x2 = Some i2)
  \/ (~ is_live i1 es1 /\ ~ is_live i2 es2).

Definition evs_of (s : sstate) (b : Z) : list event :=
  match aget b s with Some (_, es) => es | None => [] end.

Definition ev_sim (es1 es2 : list event) (e1 e2 : event) : Prop :=
  same_content e1 e2 /\
  match eid e1, eid e2 with
  | None, None => True
  | Some i1, Some i2 => id_corr es1 es2 i1 i2
  | _, _ => False
  end.

(* corresponding operations *)
Definition op_sim (s1 s2 : sstate) (o1 o2 : op) : Prop :=
  match o1, o2 with
  | CreateBucket b1 m1, CreateBucket b2 m2 => b1 = b2 /\ m1 = m2
  | UpdateBucket b1 t1 c1 h1 n1 d1, UpdateBucket b2 t2 c2 h2 n2 d2 =>
      b1 = b2 /\ t1 = t2 /\ c1 = c2 /\ h1 = h2 /\ n1 = n2 /\ d1 = d2
  | DeleteBucket b1, DeleteBucket b2 => b1 = b2
  | Buckets, Buckets => True
  | GetMetadata b1, GetMetadata b2 => b1 = b2
  | InsertOne b1 e1, InsertOne b2 e2 => b1 = b2 /\ same_content e1 e2
  | InsertMany b1 l1, InsertMany b2 l2 =>
      b1 = b2 /\ Forall2 (ev_sim (evs_of s1 b1) (evs_of s2 b2)) l1 l2
  | Replace b1 i1 e1, Replace b2 i2 e2 =>
      b1 = b2 /\ id_corr (evs_of s1 b1) (evs_of s2 b2) i1 i2 /\ same_content e1 e2
  | ReplaceLast b1 e1, ReplaceLast b2 e2 => b1 = b2 /\ same_content e1 e2
  | Delete b1 i1, Delete b2 i2 => b1 = b2 /\ id_corr (evs_of s1 b1) (evs_of s2 b2) i1 i2
  | GetEvent b1 _, GetEvent b2 _ => b1 = b2
  | GetEvents b1 _ _ _, GetEvents b2 _ _ _ => b1 = b2
  | GetEventCount b1 _ _, GetEventCount b2 _ _ => b1 = b2
  | _, _ => False
  end.

(* replace_last is unambiguous: all newest events of the bucket carry one id *)
Definition unamb (s : sstate) (o : op) : Prop :=
  match o with
  | ReplaceLast b _ => forall l l', is_newest l (evs_of s b) -> is_newest l' (evs_of s b) -> eid l = eid l'
  | _ => True
  end.

(* ---------- renaming ---------- *)
Lemma eid_rename : forall f e, eid (rename f e) = option_map f (eid e).
Proof. reflexivity. Qed.

Lemma live_ids_rename : forall f es, live_ids (map (rename f) es) = map f (live_ids es).
Proof.
  induction es as [|x t IH]; [reflexivity|]. rewrite map_cons, !live_ids_cons, eid_rename, IH.
  destruct (eid x); reflexivity.
Qed.

Lemma live_In : forall x es j, In x es -> eid x = Some j -> is_live j es.
Proof. intros. apply In_live_ids. eauto. Qed.

Lemma has_id_rename : forall f es i x,
  inj_on f (live_ids es) -> In x es -> is_live i es -> has_id (f i) (rename f x) = has_id i x.
Proof.
  intros f es i x Inj Ix L. unfold has_id. rewrite eid_rename. destruct (eid x) as [j|] eqn:E; [|reflexivity].
  cbn. destruct (j =? i) eqn:Y.
  - assert (j = i) by lia. subst. apply Z.eqb_refl.
  - destruct (f j =? f i) eqn:Z1; [|reflexivity]. exfalso.
    assert (j = i); [|lia]. apply Inj; [eapply live_In; eassumption|assumption|lia].
Qed.

Lemma rename_set_eid : forall f e1 e2 i, same_content e1 e2 ->
  rename f (set_eid e1 (Some i)) = set_eid e2 (Some (f i)).
Proof. intros f e1 e2 i [H1 [H2 H3]]. unfold rename, set_eid. cbn. now rewrite H1, H2, H3. Qed.

Lemma inj_on_incl : forall f l l', inj_on f l -> (forall a, In a l' -> In a l) -> inj_on f l'.
Proof. intros f l l' H S a b Ia Ib. apply H; auto. Qed.

Lemma spec_replace_not_live : forall i e es, ~ is_live i es -> spec_replace i e es = es.
Proof.
  intros i e es L. unfold spec_replace. rewrite <- (map_id es) at 2. apply map_ext_in. intros x Ix.
  now rewrite (not_live_has_id i es L x Ix).
Qed.

Lemma spec_delete_not_live' : forall i es, ~ is_live i es -> spec_delete i es = es.
Proof.
  intros i es L. unfold spec_delete. apply filter_all. intros x Ix.
  now rewrite (not_live_has_id i es L x Ix).
Qed.

(* what corresponding ids mean under a renaming *)
Lemma id_corr_f : forall f es1 i1 i2,
  id_corr es1 (map (rename f) es1) i1 i2 ->
  (is_live i1 es1 /\ i2 = f i1) \/ (~ is_live i1 es1 /\ ~ is_live i2 (map (rename f) es1)).
Proof.
  intros f es1 i1 i2 [[n [x1 [x2 [N1 [N2 [E1 E2]]]]]]|H]; [left|now right].
  rewrite (map_nth_error _ _ _ N1) in N2. inversion N2; subst. rewrite eid_rename, E1 in E2. cbn in E2.
  inversion E2. split; [|reflexivity]. eapply live_In; [eapply nth_error_In; eassumption|assumption].
Qed.

Lemma replace_rename : forall g cur i e1 e2,
  inj_on g (live_ids cur) -> is_live i cur -> same_content e1 e2 ->
  spec_replace (g i) e2 (map (rename g) cur) = map (rename g) (spec_replace i e1 cur).
Proof.
  intros g cur i e1 e2 Inj L Sc. unfold spec_replace. rewrite !map_map. apply map_ext_in. intros x Ix.
  rewrite (has_id_rename g cur i x Inj Ix L). destruct (has_id i x); [|reflexivity].
  symmetry. now apply rename_set_eid.
Qed.

Lemma delete_rename : forall g cur i,
  inj_on g (live_ids cur) -> is_live i cur ->
  spec_delete (g i) (map (rename g) cur) = map (rename g) (spec_delete i cur).
Proof.
  intros g cur i Inj L. unfold spec_delete.
  assert (H : forall l, (forall x, In x l -> In x cur) ->
              filter (fun x => negb (has_id (g i) x)) (map (rename g) l)
              = map (rename g) (filter (fun x => negb (has_id i x)) l)).
  { induction l as [|x t IH]; intros S; [reflexivity|]. cbn.
    rewrite (has_id_rename g cur i x Inj (S x (or_introl eq_refl)) L).
    destruct (has_id i x); cbn; rewrite IH; auto; intros; apply S; now right. }
  apply H. auto.
Qed.

Lemma snoc_rename : forall g cur1 j1 j2 e1 e2,
  inj_on g (live_ids cur1) -> ~ is_live j1 cur1 -> ~ is_live j2 (map (rename g) cur1) ->
  same_content e1 e2 ->
  let g' := fun x => if x =? j1 then j2 else g x in
  inj_on g' (live_ids (cur1 ++ [set_eid e1 (Some j1)])) /\
  map (rename g) cur1 ++ [set_eid e2 (Some j2)] = map (rename g') (cur1 ++ [set_eid e1 (Some j1)]) /\
  (forall i, is_live i cur1 -> g' i = g i).
Proof.
  intros g cur1 j1 j2 e1 e2 Inj N1 N2 Sc g'.
  assert (Agree : forall i, is_live i cur1 -> g' i = g i).
  { intros i L. unfold g'. destruct (i =? j1) eqn:Y; [|reflexivity]. exfalso. apply N1.
    assert (i = j1) by lia. now subst. }
  split; [|split; [|exact Agree]].
  - rewrite live_ids_app. cbn. intros a b Ia Ib E.
    unfold is_live in N2. rewrite live_ids_rename in N2.
    apply in_app_iff in Ia as [Ia|[<-|[]]]; apply in_app_iff in Ib as [Ib|[<-|[]]].
    + rewrite (Agree a Ia), (Agree b Ib) in E. now apply Inj.
    + exfalso. apply N2. rewrite (Agree a Ia) in E. unfold g' in E. rewrite Z.eqb_refl in E.
      rewrite <- E. now apply in_map.
    + exfalso. apply N2. rewrite (Agree b Ib) in E. unfold g' in E. rewrite Z.eqb_refl in E.
      rewrite E. now apply in_map.
    + reflexivity.
  - rewrite map_app. cbn [map]. f_equal.
    + apply map_ext_in. intros x Ix. unfold rename. f_equal. destruct (eid x) as [j|] eqn:E; [|reflexivity].
      cbn. f_equal. symmetry. apply Agree. eapply live_In; eassumption.
    + f_equal. rewrite (rename_set_eid g' e1 e2 j1 Sc). unfold g'. now rewrite Z.eqb_refl.
Qed.

(* ---------- lists ---------- *)
Lemma SL_nil : sim_list [] [].
Proof. exists (fun x => x). split; [intros a b []|reflexivity]. Qed.

Lemma SL_live_iff : forall f es1 i1 i2,
  id_corr es1 (map (rename f) es1) i1 i2 ->
  (is_live i1 es1 <-> is_live i2 (map (rename f) es1)).
Proof.
  intros f es1 i1 i2 H. destruct (id_corr_f f es1 i1 i2 H) as [[L ->]|[N1 N2]]; [|tauto].
  split; [|tauto]. intros _. unfold is_live. rewrite live_ids_rename. now apply in_map.
Qed.

Lemma SL_replace : forall es1 es2 i1 i2 e1 e2,
  sim_list es1 es2 -> id_corr es1 es2 i1 i2 -> same_content e1 e2 ->
  sim_list (spec_replace i1 e1 es1) (spec_replace i2 e2 es2).
Proof.
  intros es1 es2 i1 i2 e1 e2 [f [Inj ->]] C Sc.
  destruct (id_corr_f f es1 i1 i2 C) as [[L ->]|[N1 N2]].
  - exists f. split; [now rewrite live_ids_replace|]. now apply replace_rename.
  - rewrite !spec_replace_not_live by assumption. exists f. auto.
Qed.

Lemma SL_delete : forall es1 es2 i1 i2,
  sim_list es1 es2 -> id_corr es1 es2 i1 i2 ->
  sim_list (spec_delete i1 es1) (spec_delete i2 es2).
Proof.
  intros es1 es2 i1 i2 [f [Inj ->]] C.
  destruct (id_corr_f f es1 i1 i2 C) as [[L ->]|[N1 N2]].
  - exists f. split; [|now apply delete_rename].
    eapply inj_on_incl; [exact Inj|]. intros a Ia. apply In_live_ids in Ia as [x [Ix Ex]].
    unfold spec_delete in Ix. apply filter_In in Ix as [Ix _]. eapply live_In; eassumption.
  - rewrite !spec_delete_not_live' by assumption. exists f. auto.
Qed.

Lemma SL_snoc : forall es1 es2 j1 j2 e1 e2,
  sim_list es1 es2 -> ~ is_live j1 es1 -> ~ is_live j2 es2 -> same_content e1 e2 ->
  sim_list (es1 ++ [set_eid e1 (Some j1)]) (es2 ++ [set_eid e2 (Some j2)]).
Proof.
  intros es1 es2 j1 j2 e1 e2 [f [Inj ->]] N1 N2 Sc.
  destruct (snoc_rename f es1 j1 j2 e1 e2 Inj N1 N2 Sc) as [H1 [H2 _]]. eexists. split; eassumption.
Qed.

Lemma SL_many : forall cur1 evs1 R1, spec_many cur1 evs1 R1 ->
  forall f g cur2 evs2 R2,
  spec_many cur2 evs2 R2 ->
  inj_on g (live_ids cur1) -> cur2 = map (rename g) cur1 ->
  Forall2 (fun e1 e2 => same_content e1 e2 /\ eid e2 = option_map f (eid e1)) evs1 evs2 ->
  (forall e i, In e evs1 -> eid e = Some i -> is_live i cur1 /\ g i = f i) ->
  sim_list R1 R2.
Proof.
  induction 1 as [cur|cur e i t r Ee S IH|cur e j1 t r Ee NL S IH];
    intros f g cur2 evs2 R2 H2 Inj Ecur F2 Ups.
  - inversion F2; subst. inversion H2; subst. exists g. auto.
  - inversion F2 as [|? e2 ? t2 [Sc Ee2] Ft]; subst. rewrite Ee in Ee2. cbn in Ee2.
    destruct (Ups e i (or_introl eq_refl) Ee) as [L Eg].
    inversion H2 as [|? ? i2 ? ? Ee2' S2|? ? ? ? ? Ee2' _ _]; subst; [|congruence].
    assert (i2 = g i) by congruence. subst i2.
    eapply (IH f g); [exact S2| | |exact Ft|].
    + now rewrite live_ids_replace.
    + now apply replace_rename.
    + intros e' i' I' E'. destruct (Ups e' i' (or_intror I') E') as [L' Eg']. split; [|assumption].
      unfold is_live. now rewrite live_ids_replace.
  - inversion F2 as [|? e2 ? t2 [Sc Ee2] Ft]; subst. rewrite Ee in Ee2. cbn in Ee2.
    inversion H2 as [|? ? ? ? ? Ee2' _|? ? j2 ? ? Ee2' NL2 S2]; subst; [congruence|].
    destruct (snoc_rename g cur j1 j2 e e2 Inj NL NL2 Sc) as [Inj' [Eq' Agree]].
    eapply (IH f _); [exact S2|exact Inj'|exact Eq'|exact Ft|].
    intros e' i' I' E'. destruct (Ups e' i' (or_intror I') E') as [L' Eg']. split.
    + unfold is_live. rewrite live_ids_app. apply in_app_iff. now left.
    + now rewrite (Agree i' L').
Qed.

(* the newest events correspond when the choice is unambiguous *)
Lemma SL_newest : forall es1 es2 l1 l2 i1 i2,
  sim_list es1 es2 -> is_newest l1 es1 -> is_newest l2 es2 ->
  (forall l l', is_newest l es1 -> is_newest l' es1 -> eid l = eid l') ->
  eid l1 = Some i1 -> eid l2 = Some i2 -> id_corr es1 es2 i1 i2.
Proof.
  intros es1 es2 l1 l2 i1 i2 [f [Inj ->]] [I1 M1] [I2 M2] U E1 E2.
  apply in_map_iff in I2 as [x [Ex Ix]]. subst l2.
  assert (Nx : is_newest x es1).
  { split; [assumption|]. intros y Iy. specialize (M2 (rename f y) (in_map _ _ _ Iy)). cbn in M2. exact M2. }
  pose proof (U x l1 Nx (conj I1 M1)) as Eq. rewrite E1 in Eq. rewrite eid_rename, Eq in E2. cbn in E2.
  inversion E2; subst. left. apply In_nth_error in Ix as [n Hn].
  exists n, x, (rename f x). repeat split; try assumption.
  - now apply map_nth_error.
  - rewrite eid_rename, Eq. reflexivity.
Qed.

(* ---------- states ---------- *)
Lemma sim_aget : forall s1 s2 b, sim s1 s2 ->
  match aget b s1, aget b s2 with
  | Some (m1, es1), Some (m2, es2) => meta_sim m1 m2 /\ sim_list es1 es2
  | None, None => True
  | _, _ => False
  end.
Proof.
  intros s1 s2 b H. induction H as [|[k1 [m1 es1]] [k2 [m2 es2]] t1 t2 [K [M L]] F IH]; cbn; [exact I|].
  cbn in K, M, L. subst k2. destruct (k1 =? b); [auto|exact IH].
Qed.

Lemma sim_aget_Some : forall s1 s2 b m1 es1 m2 es2, sim s1 s2 ->
  aget b s1 = Some (m1, es1) -> aget b s2 = Some (m2, es2) -> meta_sim m1 m2 /\ sim_list es1 es2.
Proof. intros s1 s2 b m1 es1 m2 es2 H A1 A2. pose proof (sim_aget s1 s2 b H) as X. now rewrite A1, A2 in X. Qed.

Lemma sim_aset : forall s1 s2 b m1 es1 m2 es2, sim s1 s2 -> meta_sim m1 m2 -> sim_list es1 es2 ->
  sim (aset b (m1, es1) s1) (aset b (m2, es2) s2).
Proof.
  intros s1 s2 b m1 es1 m2 es2 H M L.
  induction H as [|[k1 v1] [k2 v2] t1 t2 [K R] F IH]; cbn.
  - constructor; [|constructor]. split; [reflexivity|split; assumption].
  - cbn in K. subst k2. destruct (k1 =? b).
    + constructor; [|assumption]. split; [reflexivity|split; assumption].
    + constructor; [|assumption]. split; [reflexivity|exact R].
Qed.

Lemma sim_adel : forall s1 s2 b, sim s1 s2 -> sim (adel b s1) (adel b s2).
Proof.
  intros s1 s2 b H. unfold adel. induction H as [|[k1 v1] [k2 v2] t1 t2 [K R] F IH]; cbn; [constructor|].
  cbn in K. subst k2. destruct (k1 =? b); cbn; [assumption|]. constructor; [|assumption].
  split; [reflexivity|exact R].
Qed.

Lemma evs_of_Some : forall s b m es, aget b s = Some (m, es) -> evs_of s b = es.
Proof. intros s b m es H. unfold evs_of. now rewrite H. Qed.

Lemma meta_sim_update : forall ty cl ho na da m1 m2, meta_sim m1 m2 ->
  meta_sim (update_meta not_none ty cl ho na da m1) (update_meta not_none ty cl ho na da m2).
Proof.
  intros ty cl ho na da m1 m2 [H1 [H2 [H3 [H4 H5]]]]. unfold update_meta, meta_sim.
  destruct ty, cl, ho, na, da; cbn; repeat split; assumption.
Qed.

Lemma aset_self : forall (s : sstate) b v, aget b s = Some v -> s = aset b v s.
Proof. intros. symmetry. now apply aset_same. Qed.

(* ---------- one step ---------- *)
Theorem spec_step_sim : forall s1 s2 o1 o2 s1' s2' out1 out2,
  sim s1 s2 -> op_sim s1 s2 o1 o2 -> unamb s1 o1 -> pre s1 o1 ->
  spec_step s1 o1 s1' out1 -> spec_step s2 o2 s2' out2 -> sim s1' s2'.
Proof.
  intros s1 s2 o1 o2 s1' s2' out1 out2 S Os U P H1 H2.
  inversion H1; subst; inversion H2; subst; cbn in Os; try contradiction; try exact S.
  - (* create *)
    destruct Os as [<- <-]. apply sim_aset; [assumption| |apply SL_nil].
    match goal with A : created_meta _ _, B : created_meta _ _ |- _ =>
      destruct A as [A1 [A2 [A3 [A4 [A5 _]]]]]; destruct B as [B1 [B2 [B3 [B4 [B5 _]]]]] end.
    unfold meta_sim. repeat split; congruence.
  - (* update *)
    destruct Os as [<- [<- [<- [<- [<- <-]]]]].
    match goal with A : aget _ s1 = Some _, B : aget _ s2 = Some _ |- _ =>
      destruct (sim_aget_Some _ _ _ _ _ _ _ S A B) as [M L] end.
    apply sim_aset; [assumption|now apply meta_sim_update|assumption].
  - (* delete_bucket *)
    subst. now apply sim_adel.
  - (* insert_one *)
    destruct Os as [<- Sc].
    match goal with A : aget _ s1 = Some _, B : aget _ s2 = Some _ |- _ =>
      destruct (sim_aget_Some _ _ _ _ _ _ _ S A B) as [M L] end.
    apply sim_aset; [assumption|assumption|]. now apply SL_snoc.
  - (* insert_many *)
    destruct Os as [<- F2]. destruct P as [mP [curP [A0 Lv]]].
    match goal with A : aget _ s1 = Some _, B : aget _ s2 = Some _ |- _ =>
      destruct (sim_aget_Some _ _ _ _ _ _ _ S A B) as [M L];
      rewrite (evs_of_Some _ _ _ _ A), (evs_of_Some _ _ _ _ B) in F2; rewrite A in A0 end.
    inversion A0; subst mP curP. apply sim_aset; [assumption|assumption|].
    destruct L as [f [Inj ->]].
    match goal with X : spec_many es _ _, Y : spec_many (map (rename f) es) _ _ |- _ =>
      eapply (SL_many _ _ _ X f f _ _ _ Y Inj eq_refl) end.
    + clear - F2 Lv. induction F2 as [|e1 e2 t1 t2 [Sc Hid] Ft IH]; constructor.
      * split; [assumption|]. destruct (eid e1) as [i1|] eqn:E1, (eid e2) as [i2|] eqn:E2; try contradiction; [|reflexivity].
        cbn. f_equal. destruct (id_corr_f f es i1 i2 Hid) as [[_ ->]|[N _]]; [reflexivity|].
        exfalso. apply N. apply (Lv e1 i1); [now left|assumption].
      * apply IH. intros e i I' E'. apply (Lv e i); [now right|assumption].
    + intros e i I' E'. split; [|reflexivity]. now apply (Lv e i).
  - (* replace *)
    destruct Os as [<- [C Sc]].
    match goal with A : aget _ s1 = Some _, B : aget _ s2 = Some _ |- _ =>
      destruct (sim_aget_Some _ _ _ _ _ _ _ S A B) as [M L];
      rewrite (evs_of_Some _ _ _ _ A), (evs_of_Some _ _ _ _ B) in C end.
    apply sim_aset; [assumption|assumption|]. now apply SL_replace.
  - (* replace_last *)
    destruct Os as [<- Sc].
    match goal with A : aget _ s1 = Some _, B : aget _ s2 = Some _ |- _ =>
      destruct (sim_aget_Some _ _ _ _ _ _ _ S A B) as [M L];
      cbn in U; rewrite (evs_of_Some _ _ _ _ A) in U end.
    apply sim_aset; [assumption|assumption|]. apply SL_replace; [assumption| |assumption].
    eapply SL_newest; eassumption.
  - (* delete live / live *)
    destruct Os as [<- C].
    match goal with A : aget _ s1 = Some _, B : aget _ s2 = Some _ |- _ =>
      destruct (sim_aget_Some _ _ _ _ _ _ _ S A B) as [M L];
      rewrite (evs_of_Some _ _ _ _ A), (evs_of_Some _ _ _ _ B) in C end.
    apply sim_aset; [assumption|assumption|]. now apply SL_delete.
  - (* delete live / absent *)
    destruct Os as [<- C].
    match goal with A : aget _ s1 = Some _, B : aget _ s2' = Some _ |- _ =>
      destruct (sim_aget_Some _ _ _ _ _ _ _ S A B) as [M L];
      rewrite (evs_of_Some _ _ _ _ A), (evs_of_Some _ _ _ _ B) in C;
      rewrite (aset_self s2' _ _ B) end.
    apply sim_aset; [assumption|assumption|].
    match goal with N : ~ is_live _ _ |- _ => rewrite <- (spec_delete_not_live' _ _ N) end.
    now apply SL_delete.
  - (* delete absent / live *)
    destruct Os as [<- C].
    match goal with A : aget _ s1' = Some _, B : aget _ s2 = Some _ |- _ =>
      destruct (sim_aget_Some _ _ _ _ _ _ _ S A B) as [M L];
      rewrite (evs_of_Some _ _ _ _ A), (evs_of_Some _ _ _ _ B) in C;
      rewrite (aset_self s1' _ _ A) end.
    apply sim_aset; [assumption|assumption|].
    match goal with N : ~ is_live _ _ |- _ => rewrite <- (spec_delete_not_live' _ _ N) end.
    now apply SL_delete.
Qed.

(* ---------- paired runs of two systems that refine the reference model ---------- *)
Section Pair.
  Context {SA SB : Type}.
  Variables (stepA : SA -> op -> SA * res out) (absA : SA -> sstate) (InvA : SA -> Prop)
            (okA : SA -> op -> Prop).
  Variables (stepB : SB -> op -> SB * res out) (absB : SB -> sstate) (InvB : SB -> Prop)
            (okB : SB -> op -> Prop).
  Hypothesis refA : forall c o, InvA c -> okA c o ->
    pre (absA c) o /\ InvA (fst (stepA c o)) /\
    exists out, spec_step (absA c) o (absA (fst (stepA c o))) out.
  Hypothesis refB : forall c o, InvB c -> okB c o ->
    pre (absB c) o /\ InvB (fst (stepB c o)) /\
    exists out, spec_step (absB c) o (absB (fst (stepB c o))) out.

  Definition runA (c : SA) (h : list op) : SA := fold_left (fun c o => fst (stepA c o)) h c.
  Definition runB (c : SB) (h : list op) : SB := fold_left (fun c o => fst (stepB c o)) h c.

  (* the two histories correspond step by step, each step meets its back end's side
     condition, and every replace_last is unambiguous *)
  Fixpoint pair_ok (cA : SA) (cB : SB) (hA hB : list op) : Prop :=
    match hA, hB with
    | [], [] => True
    | oA :: tA, oB :: tB =>
        okA cA oA /\ okB cB oB /\ op_sim (absA cA) (absB cB) oA oB /\ unamb (absA cA) oA /\
        pair_ok (fst (stepA cA oA)) (fst (stepB cB oB)) tA tB
    | _, _ => False
    end.

  Theorem pair_sim : forall hA hB cA cB,
    InvA cA -> InvB cB -> sim (absA cA) (absB cB) -> pair_ok cA cB hA hB ->
    sim (absA (runA cA hA)) (absB (runB cB hB)).
  Proof.
    induction hA as [|oA tA IH]; intros [|oB tB] cA cB IA IB S H; cbn in H; try contradiction.
    - exact S.
    - destruct H as [OA [OB [Os [U H]]]].
      destruct (refA cA oA IA OA) as [PA [IA' [outA SA']]].
      destruct (refB cB oB IB OB) as [PB [IB' [outB SB']]].
      cbn. apply IH; try assumption.
      eapply spec_step_sim; eassumption.
  Qed.
End Pair.
