(* C14, "the legacy file itself is left untouched": lemmas about Model/PeeweeOpen.v, the
   I/O script of PeeweeStorage.__init__ (statement sequence, pragmas of the shared handle,
   auto_migrate) over an abstract file system. *)
From Coq Require Import Ascii String.
From AwVerif Require Import Base.Prelude Model.StoreBase Model.SqliteStore Model.PeeweeStore
  Model.Migration Proofs.MigrationBase Proofs.MigrationNames Model.PeeweeOpen.

(* the code-point constants are the expected text *)
Lemma open_names_text :
  N_BUCKETMODEL = codes "bucketmodel" /\ N_EVENTMODEL = codes "eventmodel" /\ N_DATASTR = codes "datastr" /\
  table_columns TBucket = map codes ["key"; "id"; "created"; "name"; "type"; "client"; "hostname"; "datastr"]%string /\
  table_columns TEvent = map codes ["id"; "bucket_id"; "timestamp"; "duration"; "datastr"]%string /\
  table_indexes TBucket = map codes ["bucketmodel_id"]%string /\
  table_indexes TEvent = map codes ["eventmodel_bucket_id"; "eventmodel_timestamp"]%string.
Proof. repeat split; reflexivity. Qed.

(* ---- file system ---- *)

Lemma fs_set_same : forall fs f s, fs_set fs f s f = Some s.
Proof. intros. unfold fs_set. rewrite Z.eqb_refl. reflexivity. Qed.

Lemma fs_set_other : forall fs f s g, g <> f -> fs_set fs f s g = fs g.
Proof.
  intros fs f s g H. unfold fs_set. destruct (g =? f) eqn:E; [apply Z.eqb_eq in E; contradiction|reflexivity].
Qed.

Lemma fs_schema_some : forall fs f s, fs f = Some s -> fs_schema fs f = s.
Proof. intros fs f s H. unfold fs_schema. rewrite H. reflexivity. Qed.

(* ---- schema membership ---- *)

Lemma sobj_eqb_refl : forall o, sobj_eqb o o = true.
Proof. intros [t|i|t c]; cbn [sobj_eqb]; rewrite ?name_eqb_refl; reflexivity. Qed.

Lemma has_cons : forall o s o', has (o :: s) o' = sobj_eqb o' o || has s o'.
Proof. reflexivity. Qed.

Lemma has_app : forall l s o, has (l ++ s) o = has l o || has s o.
Proof. intros. unfold has. apply existsb_app. Qed.

Definition mono (s s' : schema) : Prop := forall o, has s o = true -> has s' o = true.

Lemma mono_refl : forall s, mono s s.
Proof. intros s o H. exact H. Qed.

Lemma mono_trans : forall a b c, mono a b -> mono b c -> mono a c.
Proof. intros a b c H1 H2 o H. apply H2, H1, H. Qed.

Lemma mono_cons : forall o s, mono s (o :: s).
Proof. intros o s o' H. rewrite has_cons, H. apply orb_true_r. Qed.

(* an effect that is a write to f *)
Definition wr (f : file) (e : effect) : Prop := is_write e = true /\ effect_file e = f.

(* ---- CREATE TABLE / INDEX IF NOT EXISTS ---- *)

Lemma create_table_safe : forall t f s,
  exists s1 e1, create_table_stmt true t f s = Ok (s1, e1) /\ mono s s1 /\
    has s1 (STable (table_name t)) = true /\ Forall (wr f) e1 /\
    (has s (STable (table_name t)) = true -> s1 = s /\ e1 = []).
Proof.
  intros t f s. unfold create_table_stmt.
  destruct (has s (STable (table_name t))) eqn:E.
  - exists s, []. repeat split; auto using mono_refl.
  - eexists _, _. split; [reflexivity|]. split; [|split; [|split]].
    + intros o H. rewrite has_cons, has_app, H, !orb_true_r. reflexivity.
    + rewrite has_cons, sobj_eqb_refl. reflexivity.
    + constructor; [split; reflexivity|constructor].
    + discriminate.
Qed.

Lemma create_indexes_safe : forall f is s,
  exists s2 e2, create_index_stmts true f is s = Ok (s2, e2) /\ mono s s2 /\ Forall (wr f) e2 /\
    ((forall i, In i is -> has s (SIndex i) = true) -> s2 = s /\ e2 = []).
Proof.
  intros f is. induction is as [|i rest IH]; intros s.
  - exists s, []. cbn [create_index_stmts]. repeat split; auto using mono_refl.
  - cbn [create_index_stmts]. destruct (has s (SIndex i)) eqn:E.
    + destruct (IH s) as [s2 [e2 [H1 [H2 [H3 H4]]]]]. exists s2, e2. repeat split; auto;
        apply H4; intros j Hj; apply H; right; exact Hj.
    + destruct (IH (SIndex i :: s)) as [s2 [e2 [H1 [H2 [H3 H4]]]]]. rewrite H1.
      eexists _, _. split; [reflexivity|]. split; [|split].
      * eapply mono_trans; [apply mono_cons|exact H2].
      * constructor; [split; reflexivity|exact H3].
      * intros H. rewrite (H i (or_introl eq_refl)) in E. discriminate.
Qed.

(* ---- steps of __init__ ----
   A world is described pointwise (no functional extensionality): handle, content of the
   requested file, the other files as in fs0, trace. *)

Definition sat (fs0 : fsys) (f : file) (w : world) (h : hstate) (o : option schema) (tr : list effect) : Prop :=
  w_h w = h /\ w_fs w f = o /\ (forall g, g <> f -> w_fs w g = fs0 g) /\ w_tr w = tr.

Section Steps.
  Variable AM : list amstep.
  Variable fs0 : fsys.
  Variable f : file.
  Local Notation step := (run_ostep [] AM f).

  (* init: whatever the handle was (deferred, closed or open, on any file) it now holds f *)
  Lemma step_init : forall w h o tr, sat fs0 f w h o tr ->
    exists w', step OInit w = (w', Ok tt) /\ sat fs0 f w' (HClosed f) o tr.
  Proof.
    intros w h o tr [_ [H2 [H3 H4]]]. eexists. split; [reflexivity|]. repeat split; assumption.
  Qed.

  Definition created (o : option schema) : list effect :=
    match o with Some _ => [] | None => [ECreateFile f] end.
  Definition schema_of (o : option schema) : schema := match o with Some s => s | None => [] end.

  Lemma step_connect : forall w o tr, sat fs0 f w (HClosed f) o tr ->
    exists w', step OConnect w = (w', Ok tt) /\ sat fs0 f w' (HOpen f) (Some (schema_of o)) (tr ++ created o).
  Proof.
    intros w o tr [H1 [H2 [H3 H4]]]. cbn [run_ostep]. rewrite H1. unfold connect_io. cbn [map]. rewrite H2.
    destruct o as [s|]; (eexists; split; [reflexivity|]); unfold sat; cbn [w_h w_fs w_tr created schema_of].
    - rewrite H4. repeat split; auto.
    - rewrite H4, app_nil_r. repeat split; auto using fs_set_same.
      intros g Hg. rewrite fs_set_other by exact Hg. auto.
  Qed.

  Lemma step_close : forall w o tr, sat fs0 f w (HOpen f) o tr ->
    exists w', step OClose w = (w', Ok tt) /\ sat fs0 f w' (HClosed f) o tr.
  Proof.
    intros w o tr [H1 [H2 [H3 H4]]]. cbn [run_ostep]. rewrite H1.
    eexists; split; [reflexivity|]. repeat split; assumption.
  Qed.

  Lemma step_create_table : forall w s tr t, sat fs0 f w (HOpen f) (Some s) tr ->
    exists w' s2 e, step (OCreateTable t true) w = (w', Ok tt) /\ sat fs0 f w' (HOpen f) (Some s2) (tr ++ e) /\
      mono s s2 /\ has s2 (STable (table_name t)) = true /\ Forall (wr f) e /\
      (has s (STable (table_name t)) = true ->
       (forall i, In i (table_indexes t) -> has s (SIndex i) = true) -> s2 = s /\ e = []).
  Proof.
    intros w s tr t [H1 [H2 [H3 H4]]]. cbn [run_ostep]. unfold ensure_open. rewrite H1.
    rewrite (fs_schema_some _ _ _ H2).
    destruct (create_table_safe t f s) as [s1 [e1 [A1 [A2 [A3 [A4 A5]]]]]]. rewrite A1.
    destruct (create_indexes_safe f (table_indexes t) s1) as [s2 [e2 [B1 [B2 [B3 B4]]]]]. rewrite B1.
    eexists _, s2, (e1 ++ e2). split; [reflexivity|]. split; [|split; [|split; [|split]]].
    - unfold sat; cbn [w_h w_fs w_tr]. rewrite H4. repeat split; auto using fs_set_same.
      intros g Hg. rewrite fs_set_other by exact Hg. auto.
    - eapply mono_trans; eassumption.
    - apply B2, A3.
    - apply Forall_app. split; assumption.
    - intros Ht Hi. destruct (A5 Ht) as [-> ->]. destruct (B4 Hi) as [-> ->]. split; reflexivity.
  Qed.

  Lemma step_refresh : forall w s tr, sat fs0 f w (HOpen f) (Some s) tr -> has s (STable N_BUCKETMODEL) = true ->
    exists w', step ORefreshKeys w = (w', Ok tt) /\ sat fs0 f w' (HOpen f) (Some s) (tr ++ [ESelectBuckets f]).
  Proof.
    intros w s tr [H1 [H2 [H3 H4]]] Hb. cbn [run_ostep]. unfold ensure_open. rewrite H1.
    rewrite (fs_schema_some _ _ _ H2), Hb.
    eexists; split; [reflexivity|]. unfold sat; cbn [w_h w_fs w_tr]. rewrite H4. repeat split; auto.
  Qed.
End Steps.

(* auto_migrate(f) on a file that has the bucketmodel table: adds the datastr column iff it
   is missing; the shared handle is not involved *)
Definition am_schema (s : schema) : schema :=
  if has s (SColumn N_BUCKETMODEL N_DATASTR) then s else SColumn N_BUCKETMODEL N_DATASTR :: s.
Definition am_effects (f : file) (s : schema) : list effect :=
  if has s (SColumn N_BUCKETMODEL N_DATASTR) then [] else [EAddColumn f N_BUCKETMODEL N_DATASTR].

Lemma step_auto_migrate : forall fs0 f w h s tr,
  sat fs0 f w h (Some s) tr -> has s (STable N_BUCKETMODEL) = true ->
  exists w', run_ostep [] AM_SCRIPT f OAutoMigrate w = (w', Ok tt) /\
             sat fs0 f w' h (Some (am_schema s)) (tr ++ am_effects f s).
Proof.
  intros fs0 f w h s tr [H1 [H2 [H3 H4]]] Hb. cbn [run_ostep]. unfold AM_SCRIPT, am_schema, am_effects.
  cbn [run_am run_amstep am_ensure am_db am_conn am_fs am_tr am_has connect_io map].
  rewrite H2. cbn [am_ensure am_db am_conn am_fs am_tr am_has app].
  rewrite (fs_schema_some _ _ _ H2).
  destruct (has s (SColumn N_BUCKETMODEL N_DATASTR)) eqn:E;
    cbn [run_am run_amstep am_ensure am_db am_conn am_fs am_tr am_has connect_io map].
  - eexists; split; [reflexivity|]. unfold sat; cbn [w_h w_fs w_tr]. rewrite !app_nil_r. repeat split; auto.
  - rewrite Hb.
    cbn [run_am run_amstep am_ensure am_db am_conn am_fs am_tr am_has connect_io map].
    eexists; split; [reflexivity|]. unfold sat; cbn [w_h w_fs w_tr am_fs am_tr]. rewrite app_nil_r, H4.
    repeat split; auto using fs_set_same. intros g Hg. rewrite fs_set_other by exact Hg. auto.
Qed.

Lemma am_mono : forall s, mono s (am_schema s).
Proof. intros s. unfold am_schema. destruct (has s _); [apply mono_refl|apply mono_cons]. Qed.

Lemma am_effects_wr : forall f s, Forall (wr f) (am_effects f s).
Proof. intros f s. unfold am_effects. destruct (has s _); repeat constructor. Qed.

(* ---- the whole constructor ---- *)

Lemma current_schema_has : forall s, current_schema s = true ->
  forall o, In o CURRENT_OBJECTS -> has s o = true.
Proof. intros s H o Ho. unfold current_schema in H. rewrite forallb_forall in H. apply H. exact Ho. Qed.

Lemma open_io_spec : forall fs h f,
  exists w es s',
    pw_open_io fs h f = (w, Ok tt) /\ w_h w = HOpen f /\ w_fs w f = Some s' /\
    (forall g, g <> f -> w_fs w g = fs g) /\
    w_tr w = es ++ [ESelectBuckets f] /\ Forall (wr f) es /\
    (forall s, fs f = Some s -> current_schema s = true -> es = [] /\ s' = s).
Proof.
  intros fs h f. unfold pw_open_io, INIT_SCRIPT, DB_PRAGMAS.
  assert (S0 : sat fs f (mkW fs h []) h (fs f) []) by (repeat split; reflexivity).
  cbn [run_osteps].
  destruct (step_init AM_SCRIPT fs f _ _ _ _ S0) as [w1 [E1 S1]]. rewrite E1.
  destruct (step_connect AM_SCRIPT fs f _ _ _ S1) as [w2 [E2 S2]]. rewrite E2.
  destruct (step_create_table AM_SCRIPT fs f _ _ _ TBucket S2) as [w3 [s3 [e3 [E3 [S3 [M3 [T3 [W3 C3]]]]]]]]. rewrite E3.
  destruct (step_create_table AM_SCRIPT fs f _ _ _ TEvent S3) as [w4 [s4 [e4 [E4 [S4 [M4 [T4 [W4 C4]]]]]]]]. rewrite E4.
  destruct (step_close AM_SCRIPT fs f _ _ _ S4) as [w5 [E5 S5]]. rewrite E5.
  assert (Hb4 : has s4 (STable N_BUCKETMODEL) = true) by (apply M4, T3).
  destruct (step_auto_migrate fs f _ _ _ _ S5 Hb4) as [w6 [E6 S6]]. rewrite E6.
  destruct (step_connect AM_SCRIPT fs f _ _ _ S6) as [w7 [E7 S7]]. rewrite E7.
  cbn [created schema_of] in S7. rewrite app_nil_r in S7.
  assert (Hb7 : has (am_schema s4) (STable N_BUCKETMODEL) = true) by (apply am_mono, Hb4).
  destruct (step_refresh AM_SCRIPT fs f _ _ _ S7 Hb7) as [w8 [E8 S8]]. rewrite E8.
  destruct S8 as [H1 [H2 [H3 H4]]].
  exists w8, ((((([] ++ created f (fs f)) ++ e3) ++ e4) ++ am_effects f s4)), (am_schema s4).
  repeat split; auto.
  - repeat (apply Forall_app; split); auto using am_effects_wr.
    unfold created. destruct (fs f); repeat constructor.
  - pose proof (current_schema_has s H0) as Hh. rewrite H in *. cbn [schema_of created] in *.
    destruct C3 as [-> ->]; [apply Hh; cbn; tauto|intros i Hi; apply Hh; cbn in Hi |- *; intuition (subst; tauto)|].
    destruct C4 as [-> ->]; [apply Hh; cbn; tauto|intros i Hi; apply Hh; cbn in Hi |- *; intuition (subst; tauto)|].
    unfold am_effects. rewrite (Hh (SColumn N_BUCKETMODEL N_DATASTR)) by (cbn; tauto). reflexivity.
  - pose proof (current_schema_has s H0) as Hh. rewrite H in *. cbn [schema_of created] in *.
    destruct C3 as [-> _]; [apply Hh; cbn; tauto|intros i Hi; apply Hh; cbn in Hi |- *; intuition (subst; tauto)|].
    destruct C4 as [-> _]; [apply Hh; cbn; tauto|intros i Hi; apply Hh; cbn in Hi |- *; intuition (subst; tauto)|].
    unfold am_schema. rewrite (Hh (SColumn N_BUCKETMODEL N_DATASTR)) by (cbn; tauto). reflexivity.
Qed.

(* ---- the statements of Props/C14.v ---- *)

Lemma wr_writes : forall f es, Forall (wr f) es -> writes es = es /\ reads es = [].
Proof.
  intros f es H. induction H as [|e l [Hw _] _ [IH1 IH2]]; [split; reflexivity|].
  unfold writes, reads in *. cbn [filter]. rewrite Hw. cbn [negb]. rewrite IH1, IH2. split; reflexivity.
Qed.

(* Every construction (re)initialises the shared handle with the requested file: whatever
   state an earlier store of the process left it in (never initialised, closed, open on any
   file), the constructor returns normally, the handle is open on the requested file, the
   one read (the bucket_keys refresh) and every write go to that file, no other file
   changes. *)
Lemma open_is_unconditional : forall fs h f,
  let '(w, r) := pw_open_io fs h f in
  r = Ok tt /\ w_h w = HOpen f /\ reads (w_tr w) = [ESelectBuckets f] /\
  (forall e, In e (w_tr w) -> effect_file e = f) /\ (forall g, g <> f -> w_fs w g = fs g).
Proof.
  intros fs h f. destruct (open_io_spec fs h f) as [w [es [s' [E [H1 [H2 [H3 [H4 [H5 _]]]]]]]]]. rewrite E.
  split; [reflexivity|]. split; [exact H1|]. split; [|split; [|exact H3]].
  - rewrite H4. unfold reads. rewrite filter_app. fold (reads es).
    rewrite (proj2 (wr_writes f es H5)). reflexivity.
  - intros e He. rewrite H4 in He. apply in_app_or in He. destruct He as [He|[<-|[]]]; [|reflexivity].
    rewrite Forall_forall in H5. apply (H5 e He).
Qed.

(* A file that has the current schema: the constructor writes nothing, anywhere; its only
   statement that reaches the file is the read of the bucket list; the file system is what
   it was. *)
Lemma open_current_schema_writes_nothing : forall fs h f s,
  fs f = Some s -> current_schema s = true ->
  let '(w, r) := pw_open_io fs h f in
  r = Ok tt /\ w_tr w = [ESelectBuckets f] /\ writes (w_tr w) = [] /\ writes_to f (w_tr w) = [] /\
  (forall g, w_fs w g = fs g).
Proof.
  intros fs h f s Hf Hs. destruct (open_io_spec fs h f) as [w [es [s' [E [H1 [H2 [H3 [H4 [H5 H6]]]]]]]]]. rewrite E.
  destruct (H6 s Hf Hs) as [-> ->]. cbn [app] in H4. rewrite H4.
  repeat split; try reflexivity.
  intros g. destruct (Z.eq_dec g f) as [->|Hg]; [rewrite H2, Hf; reflexivity|apply H3, Hg].
Qed.

(* ---- sensitivity: variants that are NOT the code ---- *)

(* "set the handle up only when it is closed" (the constructor's statements under
   `if self.db.is_closed():`, then the refresh): with the handle open on ANOTHER file g the
   construction for f returns normally and reads g. *)
Definition GUARDED_SCRIPT : list ostep :=
  [OIfClosed [OInit; OConnect; OCreateTable TBucket true; OCreateTable TEvent true; OClose; OAutoMigrate; OConnect];
   ORefreshKeys].

Lemma guarded_open_reads_stale_file : forall fs g f s,
  fs g = Some s -> has s (STable N_BUCKETMODEL) = true ->
  let '(w, r) := run_osteps DB_PRAGMAS AM_SCRIPT f GUARDED_SCRIPT (mkW fs (HOpen g) []) in
  r = Ok tt /\ w_h w = HOpen g /\ w_tr w = [ESelectBuckets g].
Proof.
  intros fs g f s Hg Hb. unfold GUARDED_SCRIPT.
  cbn [run_osteps run_ostep w_h ensure_open w_fs w_tr app].
  rewrite (fs_schema_some _ _ _ Hg), Hb. repeat split; reflexivity.
Qed.
