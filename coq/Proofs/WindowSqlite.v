(* C03 -- sqlite back end: Bucket.get / Bucket.get_eventcount over Model/SqliteStore.v with the
   float window parameters as Section variables [plo] (ceiling of the start parameter) and
   [phi] (floor of the end parameter) within 1 us of the instant. *)
From Coq Require Import Permutation Sorted ZifyBool.
From AwVerif Require Import Base.Prelude Model.StoreBase Model.SqliteStore Model.Window
  Proofs.WindowRound Proofs.WindowBase Proofs.WindowSpec.

(* rows of the addressed bucket, in table order; the stored events are their images *)
Definition sq_rows (c : sqstate) (rid : Z) : list erow :=
  filter (fun e => er_bucket e =? rid) (sq_events c).

Lemma sq_view_rows : forall c b m es, sq_view c b = Some (m, es) ->
  exists rid, sql_bucket_rowid c b = Some rid /\ es = map row_event (sq_rows c rid).
Proof.
  intros c b m es V. unfold sq_view in V. unfold sql_bucket_rowid.
  destruct (find (fun r => br_id r =? b) (sq_buckets c)) as [r|]; [|discriminate].
  injection V as _ <-. exists (br_rowid r). split; reflexivity.
Qed.

(* the window test on events *)
Definition sq_pred (lo hi : Z) (e : event) : bool := (lo <=? eend e) && (ts e <=? hi).

Lemma sq_in_window_pred : forall lo hi r, sq_in_window lo hi r = sq_pred lo hi (row_event r).
Proof.
  intros. unfold sq_in_window, sq_pred, row_event, eend. cbn [ts dur].
  f_equal. f_equal. lia.
Qed.

Definition sq_unl (rows : list erow) (lo hi : Z) : list event :=
  map row_event (sql_order_start_desc_id_desc (filter (sq_in_window lo hi) rows)).

Lemma sq_unl_perm : forall rows lo hi,
  Permutation (sq_unl rows lo hi) (filter (sq_pred lo hi) (map row_event rows)).
Proof.
  intros. unfold sq_unl, sql_order_start_desc_id_desc. rewrite w_filter_map.
  apply Permutation_map. rewrite !w_sort_perm.
  erewrite filter_ext; [reflexivity|]. intros r. apply sq_in_window_pred.
Qed.

Lemma sq_unl_desc : forall rows lo hi, desc ts (sq_unl rows lo hi).
Proof.
  intros. unfold sq_unl, sql_order_start_desc_id_desc. apply ss_map.
  exact (w_sort_neg_desc er_start _).
Qed.

Lemma sq_unl_In : forall rows lo hi e,
  In e (sq_unl rows lo hi) <-> In e (map row_event rows) /\ sq_pred lo hi e = true.
Proof.
  intros. split; intro H.
  - apply (Permutation_in _ (sq_unl_perm rows lo hi)) in H. now apply filter_In in H.
  - apply (Permutation_in _ (Permutation_sym (sq_unl_perm rows lo hi))). now apply filter_In.
Qed.

Lemma sq_select_shape : forall c b rid lo hi limit,
  sql_bucket_rowid c b = Some rid ->
  sql_select_events c b lo hi limit =
  sql_limit limit (sql_order_start_desc_id_desc (filter (sq_in_window lo hi) (sq_rows c rid))).
Proof.
  intros c b rid lo hi limit R. unfold sql_select_events, select_where, sq_rows. rewrite R.
  cbn [eq_nullable]. now rewrite w_filter_andb.
Qed.

Lemma sq_count_shape : forall c b rid lo hi,
  sql_bucket_rowid c b = Some rid ->
  sql_count_events c b lo hi =
  Z.of_nat (length (filter (sq_pred lo hi) (map row_event (sq_rows c rid)))).
Proof.
  intros c b rid lo hi R. unfold sql_count_events, rowcount, sq_rows. rewrite R.
  cbn [eq_nullable]. rewrite w_filter_andb, w_filter_map, map_length. do 2 f_equal.
  apply filter_ext. intros r. apply sq_in_window_pred.
Qed.

Section Sqlite.
  Variables plo phi : Z -> Z.
  Hypothesis plo_err : forall t, 0 <= t < 2 ^ 52 -> t - 1 <= plo t <= t + 1.
  Hypothesis phi_err : forall t, 0 <= t < 2 ^ 52 -> t - 1 <= phi t <= t + 1.

  (* an edge whose rounded images stay inside the float lemma's range (1970 .. beyond 2100) *)
  Definition edge_dom (o : option Z) : Prop := forall w, o = Some w -> 0 <= w /\ w + 1000 < 2 ^ 52.
  (* stored events the integer bounds of an open-ended query keep: not ending before 1970 *)
  Definition ev_dom (e : event) : Prop := 0 <= eend e /\ ts e <= MAX_TIMESTAMP.

  Lemma edge_dom_round : forall ws we, edge_dom ws -> edge_dom we ->
    (forall w, fst (bucket_get_round ws we) = Some w -> 0 <= w < 2 ^ 52) /\
    (forall w, snd (bucket_get_round ws we) = Some w -> 0 <= w < 2 ^ 52).
  Proof.
    intros ws we Ds De. rewrite round_fst, round_snd. split; intros w E.
    - destruct ws as [w0|]; [|discriminate]. cbn [option_map] in E. injection E as <-.
      specialize (Ds w0 eq_refl). pose proof (floor_ms_bounds w0).
      assert (0 <= floor_ms w0) by (unfold floor_ms; apply Z.mul_nonneg_nonneg; [lia|apply Z.div_pos; lia]).
      lia.
    - destruct we as [w0|]; [|discriminate]. cbn [option_map] in E. injection E as <-.
      specialize (De w0 eq_refl). pose proof (floor_ms_bounds w0).
      assert (0 <= floor_ms w0) by (unfold floor_ms; apply Z.mul_nonneg_nonneg; [lia|apply Z.div_pos; lia]).
      lia.
  Qed.

  (* the SQL predicate with float parameters against the exact one, margin 1 us *)
  Lemma sq_pred_complete : forall st en e,
    (forall w, st = Some w -> 0 <= w < 2 ^ 52) -> (forall w, en = Some w -> 0 <= w < 2 ^ 52) ->
    ev_dom e -> meets 1 st en e = true -> sq_pred (sqx_lo plo st) (sqx_hi phi en) e = true.
  Proof.
    intros st en e Ds De [D1 D2] M. apply meets_unfold in M. destruct M as [M1 M2].
    unfold sq_pred, sqx_lo, sqx_hi. apply andb_true_iff. split.
    - destruct st as [w|]; [|lia]. specialize (M1 w eq_refl). specialize (plo_err w (Ds w eq_refl)). lia.
    - destruct en as [w|]; [|lia]. specialize (M2 w eq_refl). specialize (phi_err w (De w eq_refl)). lia.
  Qed.

  Lemma sq_pred_sound : forall st en e,
    (forall w, st = Some w -> 0 <= w < 2 ^ 52) -> (forall w, en = Some w -> 0 <= w < 2 ^ 52) ->
    sq_pred (sqx_lo plo st) (sqx_hi phi en) e = true -> meets (-1) st en e = true.
  Proof.
    intros st en e Ds De P. unfold sq_pred, sqx_lo, sqx_hi in P. apply andb_true_iff in P.
    destruct P as [P1 P2]. apply meets_unfold. split; intros w ->.
    - specialize (plo_err w (Ds w eq_refl)). lia.
    - specialize (phi_err w (De w eq_refl)). lia.
  Qed.

  Lemma sqx_get_shape : forall c b rid limit st en,
    sql_bucket_rowid c b = Some rid ->
    sqx_get plo phi c b limit st en =
    Ok (OEvents (take limit (sq_unl (sq_rows c rid) (sqx_lo plo st) (sqx_hi phi en)))).
  Proof.
    intros c b rid limit st en R. unfold sqx_get.
    destruct (limit =? 0) eqn:E0.
    - unfold take. rewrite E0. reflexivity.
    - rewrite (sq_select_shape _ _ _ _ _ _ R), sql_limit_take by lia.
      unfold sq_unl. now rewrite take_map.
  Qed.

  Variables (c : sqstate) (b : Z) (m : meta) (es : list event).
  Hypothesis V : sq_view c b = Some (m, es).
  Variables ws we : option Z.
  Hypothesis Dws : edge_dom ws.
  Hypothesis Dwe : edge_dom we.
  Let ws' := fst (bucket_get_round ws we).
  Let we' := snd (bucket_get_round ws we).

  Lemma sq_read_shape : forall limit, exists rid,
    es = map row_event (sq_rows c rid) /\
    sq_read plo phi c b limit ws we =
    Ok (OEvents (take limit (sq_unl (sq_rows c rid) (sqx_lo plo ws') (sqx_hi phi we')))).
  Proof.
    intros limit. destruct (sq_view_rows _ _ _ _ V) as [rid [R E]]. exists rid. split; [assumption|].
    unfold sq_read, read. now apply sqx_get_shape.
  Qed.

  Theorem sq_unlimited : exists U,
    sq_read plo phi c b (-1) ws we = Ok (OEvents U) /\
    Permutation U (filter (sq_pred (sqx_lo plo ws') (sqx_hi phi we')) es).
  Proof.
    destruct (sq_read_shape (-1)) as [rid [E R]]. eexists. split; [exact R|].
    change (take (-1) ?l) with l. rewrite E. apply sq_unl_perm.
  Qed.

  Theorem sq_complete : forall e, In e es -> ev_dom e -> meets 1 ws we e = true ->
    exists U, sq_read plo phi c b (-1) ws we = Ok (OEvents U) /\ In e U.
  Proof.
    intros e I D M. destruct (sq_read_shape (-1)) as [rid [E R]]. eexists. split; [exact R|].
    change (take (-1) ?l) with l. apply sq_unl_In. rewrite <- E. split; [assumption|].
    destruct (edge_dom_round ws we Dws Dwe) as [D1 D2].
    apply sq_pred_complete; try assumption. now apply meets_to_rounded.
  Qed.

  Theorem sq_sound : forall limit L e,
    sq_read plo phi c b limit ws we = Ok (OEvents L) -> In e L ->
    In e es /\ meets (-1) ws' we' e = true /\ meets (-1001) ws we e = true.
  Proof.
    intros limit L e R I. destruct (sq_read_shape limit) as [rid [E R']].
    rewrite R' in R. injection R as <-.
    apply take_In, sq_unl_In in I. rewrite <- E in I. destruct I as [I P].
    destruct (edge_dom_round ws we Dws Dwe) as [D1 D2].
    pose proof (sq_pred_sound _ _ _ D1 D2 P) as M. repeat split; try assumption.
    apply (meets_from_rounded (-1)). exact M.
  Qed.

  Theorem sq_sorted_desc : forall limit L,
    sq_read plo phi c b limit ws we = Ok (OEvents L) -> desc ts L.
  Proof.
    intros limit L R. destruct (sq_read_shape limit) as [rid [E R']].
    rewrite R' in R. injection R as <-. apply take_desc, sq_unl_desc.
  Qed.

  Theorem sq_limit : forall limit, exists U,
    sq_read plo phi c b (-1) ws we = Ok (OEvents U) /\ desc ts U /\
    sq_read plo phi c b limit ws we = Ok (OEvents (take limit U)).
  Proof.
    intros limit. destruct (sq_view_rows _ _ _ _ V) as [rid [R E]].
    eexists. split; [unfold sq_read, read; apply (sqx_get_shape _ _ _ _ _ _ R)|].
    change (take (-1) ?l) with l. split; [apply sq_unl_desc|].
    unfold sq_read, read. apply (sqx_get_shape _ _ _ _ _ _ R).
  Qed.

  (* get_eventcount (raw edges) *)
  Theorem sq_count_exact :
    sq_readcount plo phi c b ws we =
    Ok (OCount (Z.of_nat (length (filter (sq_pred (sqx_lo plo ws) (sqx_hi phi we)) es)))).
  Proof.
    destruct (sq_view_rows _ _ _ _ V) as [rid [R E]].
    unfold sq_readcount, count, sqx_getcount. rewrite (sq_count_shape _ _ _ _ _ R), E. reflexivity.
  Qed.

  Lemma edge_dom_raw : forall o, edge_dom o -> forall w, o = Some w -> 0 <= w < 2 ^ 52.
  Proof. intros o D w E. specialize (D w E). lia. Qed.

  Theorem sq_count_bounds : Forall ev_dom es -> exists n,
    sq_readcount plo phi c b ws we = Ok (OCount (Z.of_nat n)) /\
    (length (filter (meets 1 ws we) es) <= n <= length (filter (meets (-1) ws we) es))%nat.
  Proof.
    intros D. eexists. split; [apply sq_count_exact|]. rewrite Forall_forall in D. split.
    - apply w_filter_length_le. intros e I M.
      apply sq_pred_complete; [exact (edge_dom_raw _ Dws)|exact (edge_dom_raw _ Dwe)|now apply D|exact M].
    - apply w_filter_length_le. intros e I P.
      apply (sq_pred_sound ws we); [exact (edge_dom_raw _ Dws)|exact (edge_dom_raw _ Dwe)|exact P].
  Qed.

  Theorem sq_count_same_edges : exists U0,
    sqx_get plo phi c b (-1) ws we = Ok (OEvents U0) /\
    sq_readcount plo phi c b ws we = Ok (OCount (Z.of_nat (length U0))).
  Proof.
    destruct (sq_view_rows _ _ _ _ V) as [rid [R E]].
    eexists. split; [apply (sqx_get_shape _ _ _ _ _ _ R)|].
    change (take (-1) ?l) with l. rewrite sq_count_exact. do 3 f_equal.
    rewrite E. symmetry. apply Permutation_length, sq_unl_perm.
  Qed.

  Theorem sq_read_bounds : Forall ev_dom es -> exists U,
    sq_read plo phi c b (-1) ws we = Ok (OEvents U) /\
    (length (filter (meets 1 ws we) es) <= length U <= length (filter (meets (-1001) ws we) es))%nat.
  Proof.
    intros D. destruct sq_unlimited as [U [R P]]. exists U. split; [assumption|].
    rewrite (Permutation_length P). rewrite Forall_forall in D.
    destruct (edge_dom_round ws we Dws Dwe) as [D1 D2]. split.
    - apply w_filter_length_le. intros e I M. apply sq_pred_complete; auto.
      now apply meets_to_rounded.
    - apply w_filter_length_le. intros e I Pe.
      apply (meets_from_rounded (-1)). now apply sq_pred_sound.
  Qed.
End Sqlite.

(* with exact parameters the refined read is Model/SqliteStore.v's own *)
Lemma sqx_get_id : forall c b limit st en,
  sqx_get (fun t => t) (fun t => t) c b limit st en = snd (sq_step c (GetEvents b limit st en)).
Proof.
  intros. unfold sqx_get. cbn [sq_step]. destruct (limit =? 0); reflexivity.
Qed.
Lemma sqx_getcount_id : forall c b st en,
  sqx_getcount (fun t => t) (fun t => t) c b st en = snd (sq_step c (GetEventCount b st en)).
Proof. reflexivity. Qed.

(* the hypothesis on a float window parameter, as one named predicate *)
Definition float_param_ok (p : Z -> Z) : Prop := forall t, 0 <= t < 2 ^ 52 -> t - 1 <= p t <= t + 1.

Lemma float_param_ok_id : float_param_ok (fun t => t).
Proof. intros t H. lia. Qed.
