(* C02, second part: peewee lifted to histories, the peewee corollaries, and the
   interchangeability of the three back ends (instances of StoreSpecSim.pair_sim). *)
From Coq Require Import Permutation Sorted ZifyBool.
From AwVerif Require Import Base.Prelude Model.StoreBase Model.MemStore Model.SqliteStore
  Model.PeeweeStore Model.StoreSpec
  Proofs.StoreBaseFacts Proofs.StoreMoreFacts Proofs.StoreMemProofs Proofs.StoreMemRefine
  Proofs.StoreSpecFacts Proofs.StoreSqliteProofs Proofs.StoreSqliteRefine Proofs.StorePeeweeProofs
  Proofs.StorePeeweeRefine Proofs.StoreC02 Proofs.StoreSpecSim.

(* ---------- peewee: all histories ---------- *)
Fixpoint pw_hist_ok (c : pwstate) (h : list op) : Prop :=
  match h with
  | [] => True
  | o :: t => pre (pw_abs c) o /\ pw_hist_ok (fst (pw_step c o)) t
  end.

Theorem pw_refines_run : forall h c, pw_Inv c -> pw_hist_ok c h ->
  spec_run (pw_abs c) h (pw_abs (pw_run c h)) /\ pw_Inv (pw_run c h).
Proof.
  induction h as [|o t IH]; intros c I H.
  - split; [constructor|assumption].
  - destruct H as [P H]. destruct (pw_refines c o I P) as [out [_ S]].
    pose proof (pw_step_Inv c o I) as I'. destruct (IH _ I' H) as [R I2].
    split; [|assumption]. cbn. eapply sr_cons; eassumption.
Qed.

Lemma pw_refines_from_empty : forall h, pw_hist_ok pw_init h -> spec_run spec_init h (pw_abs (pw_run pw_init h)).
Proof. intros h H. apply (pw_refines_run h pw_init pw_Inv_init H). Qed.

(* ---------- delete removes exactly the addressed event (any id) ---------- *)
Lemma pw_delete_exact : forall c b i m es,
  pw_Inv c -> pw_view c b = Some (m, es) ->
  pw_view (fst (pw_step c (Delete b i))) b = Some (m, spec_delete i es) /\
  snd (pw_step c (Delete b i)) = Ok (OBool (if in_dec Z.eq_dec i (live_ids es) then true else false)).
Proof.
  intros c b i m es I V. destruct (pw_view_Some c b m es I V) as [r [_ [_ [_ [_ [_ K]]]]]].
  pose proof (pw_view_delete_event c b m es i _ I V K) as V'.
  pose proof (pw_delete_event_count c b m es i _ I V K) as Cn.
  assert (Es : pw_step c (Delete b i)
               = (fst (pw_delete_event c (pb_key r) i), Ok (OBool (0 <? snd (pw_delete_event c (pb_key r) i))))).
  { cbn [pw_step]. rewrite K. reflexivity. }
  rewrite Es. cbn [fst snd]. rewrite Cn. split; [assumption|reflexivity].
Qed.

(* ---------- replace_last rewrites exactly the event the limit-1 read returned ---------- *)
Lemma pw_select_last_head : forall c k,
  pw_select_last c k = match pw_order_ts_desc (prows_of c k) with r0 :: _ => Some r0 | [] => None end.
Proof. reflexivity. Qed.

Lemma pw_replace_last_hits_limit1 : forall c b e x m es,
  pw_Inv c -> pw_view c b = Some (m, es) ->
  snd (pw_step c (GetEvents b 1 None None)) = Ok (OEvents [x]) ->
  exists i, eid x = Some i /\ In x es /\
            pw_view (fst (pw_step c (ReplaceLast b e))) b = Some (m, spec_replace i e es).
Proof.
  intros c b e x m es I V G. destruct (pw_view_Some c b m es I V) as [r [_ [_ [_ [_ [Hes K]]]]]].
  assert (G' : snd (pw_step c (GetEvents b 1 None None))
               = Ok (OEvents (map prow_event (firstn 1 (pw_order_ts_desc (prows_of c (pb_key r))))))).
  { cbn [pw_step]. change (1 =? 0) with false. cbv iota. rewrite K. cbn [snd]. rewrite pw_rows_nowindow.
    rewrite (map_ext _ prow_event) by (intro; apply pw_clip_none). reflexivity. }
  rewrite G' in G.
  pose proof (pw_select_last_spec c b m es _ I V K) as S. rewrite pw_select_last_head in S.
  destruct (pw_order_ts_desc (prows_of c (pb_key r))) as [|r0 t] eqn:O; [discriminate|].
  cbn [firstn map] in G. inversion G; subst x. destruct S as [I0 [B0 [[Nw _] _]]].
  exists (pe_id r0). split; [reflexivity|]. split; [assumption|].
  assert (Es : pw_step c (ReplaceLast b e)
               = (pw_save_event c (mkPerow (pe_id r0) (pe_bucket r0) (ts e) (dur e) (data e)),
                  Ok (OEvent (Some (set_eid e (Some (pe_id r0))))))).
  { cbn [pw_step]. rewrite K, pw_select_last_head, O. reflexivity. }
  rewrite Es. cbn [fst]. apply pw_view_save_event; try assumption. congruence.
Qed.

(* ---------- interchangeability ---------- *)
(* each back end as a system that refines the reference model *)
Lemma mem_system : forall c o, mem_Inv c -> pre c o ->
  pre c o /\ mem_Inv (fst (mem_step c o)) /\ exists out, spec_step c o (fst (mem_step c o)) out.
Proof.
  intros c o I P. split; [assumption|]. split; [now apply mem_step_Inv|].
  destruct (mem_refines c o I P) as [out [_ S]]. eauto.
Qed.

Definition sq_Inv2 (c : sqstate) : Prop := sq_Inv c /\ sq_Dom c.
Definition sq_ok (c : sqstate) (o : op) : Prop := pre (sq_abs c) o /\ op_dom o.

Lemma sq_system : forall c o, sq_Inv2 c -> sq_ok c o ->
  pre (sq_abs c) o /\ sq_Inv2 (fst (sq_step c o)) /\
  exists out, spec_step (sq_abs c) o (sq_abs (fst (sq_step c o))) out.
Proof.
  intros c o [I D] [P Od]. split; [assumption|]. split.
  - split; [now apply sq_step_Inv|now apply sq_step_Dom].
  - destruct (sq_refines c o I D P) as [out [_ S]]. eauto.
Qed.

Lemma pw_system : forall c o, pw_Inv c -> pre (pw_abs c) o ->
  pre (pw_abs c) o /\ pw_Inv (fst (pw_step c o)) /\
  exists out, spec_step (pw_abs c) o (pw_abs (fst (pw_step c o))) out.
Proof.
  intros c o I P. split; [assumption|]. split; [now apply pw_step_Inv|].
  destruct (pw_refines c o I P) as [out [_ S]]. eauto.
Qed.

Definition ident (c : mstate) : sstate := c.

Definition ms_ok := pair_ok mem_step ident (fun c o => pre c o) sq_step sq_abs sq_ok.
Definition mp_ok := pair_ok mem_step ident (fun c o => pre c o) pw_step pw_abs (fun c o => pre (pw_abs c) o).
Definition sp_ok := pair_ok sq_step sq_abs sq_ok pw_step pw_abs (fun c o => pre (pw_abs c) o).

Lemma sim_empty : sim [] [].
Proof. constructor. Qed.

Theorem interchangeable_mem_sqlite : forall hM hS,
  ms_ok mem_init sq_init hM hS -> sim (mem_run mem_init hM) (sq_abs (sq_run sq_init hS)).
Proof.
  intros hM hS H.
  exact (pair_sim mem_step ident mem_Inv (fun c o => pre c o) sq_step sq_abs sq_Inv2 sq_ok
           mem_system sq_system hM hS mem_init sq_init mem_Inv_init (conj sq_Inv_init sq_Dom_init)
           sim_empty H).
Qed.

Theorem interchangeable_mem_peewee : forall hM hP,
  mp_ok mem_init pw_init hM hP -> sim (mem_run mem_init hM) (pw_abs (pw_run pw_init hP)).
Proof.
  intros hM hP H.
  exact (pair_sim mem_step ident mem_Inv (fun c o => pre c o) pw_step pw_abs pw_Inv
           (fun c o => pre (pw_abs c) o) mem_system pw_system hM hP mem_init pw_init
           mem_Inv_init pw_Inv_init sim_empty H).
Qed.

Theorem interchangeable_sqlite_peewee : forall hS hP,
  sp_ok sq_init pw_init hS hP -> sim (sq_abs (sq_run sq_init hS)) (pw_abs (pw_run pw_init hP)).
Proof.
  intros hS hP H.
  exact (pair_sim sq_step sq_abs sq_Inv2 sq_ok pw_step pw_abs pw_Inv
           (fun c o => pre (pw_abs c) o) sq_system pw_system hS hP sq_init pw_init
           (conj sq_Inv_init sq_Dom_init) pw_Inv_init sim_empty H).
Qed.

(* what `sim` says, bucket by bucket, through the read-backs *)
Lemma sim_views : forall s1 s2 b, sim s1 s2 ->
  match aget b s1, aget b s2 with
  | Some (m1, es1), Some (m2, es2) =>
      meta_sim m1 m2 /\ exists f, inj_on f (live_ids es1) /\ es2 = map (rename f) es1
  | None, None => True
  | _, _ => False
  end.
Proof. exact (fun s1 s2 b H => sim_aget s1 s2 b H). Qed.

(* all three reach states of the one reference model *)
Lemma three_same_spec : forall h,
  mem_hist_ok mem_init h -> sq_hist_ok sq_init h -> pw_hist_ok pw_init h ->
  spec_run spec_init h (mem_run mem_init h) /\ spec_run spec_init h (sq_abs (sq_run sq_init h)) /\
  spec_run spec_init h (pw_abs (pw_run pw_init h)).
Proof.
  intros h H1 H2 H3. split; [now apply mem_refines_from_empty|].
  split; [now apply sq_refines_from_empty|now apply pw_refines_from_empty].
Qed.

Theorem interchangeable_all : forall hM hS hP,
  ms_ok mem_init sq_init hM hS -> mp_ok mem_init pw_init hM hP -> sp_ok sq_init pw_init hS hP ->
  sim (mem_run mem_init hM) (sq_abs (sq_run sq_init hS)) /\
  sim (mem_run mem_init hM) (pw_abs (pw_run pw_init hP)) /\
  sim (sq_abs (sq_run sq_init hS)) (pw_abs (pw_run pw_init hP)).
Proof.
  intros hM hS hP H1 H2 H3. split; [now apply interchangeable_mem_sqlite|].
  split; [now apply interchangeable_mem_peewee|now apply interchangeable_sqlite_peewee].
Qed.
