(* Memory back end refines the reference list model (C02): one step, then all histories.
   The abstraction is the identity (mstate = sstate). *)
From Coq Require Import Permutation Sorted ZifyBool.
From AwVerif Require Import Base.Prelude Model.StoreBase Model.MemStore Model.StoreSpec
  Proofs.StoreBaseFacts Proofs.StoreMemProofs.

(* ---------- small facts shared with the other refinements ---------- *)
Lemma upd_if_guard : forall o set m, supplied_ok o -> upd_if opt_truthy o set m = upd_if not_none o set m.
Proof.
  intros [v|] set m H; [|reflexivity]. cbn in *. unfold truthy.
  destruct (v =? 0) eqn:E; [lia|reflexivity].
Qed.

Lemma update_meta_guard : forall ty cl ho na da m,
  supplied_ok ty -> supplied_ok cl -> supplied_ok ho -> supplied_ok na -> supplied_ok da ->
  update_meta opt_truthy ty cl ho na da m = update_meta not_none ty cl ho na da m.
Proof. intros. unfold update_meta. now rewrite !upd_if_guard. Qed.

Lemma aset_same : forall {V} (l : list (Z * V)) k v, aget k l = Some v -> aset k v l = l.
Proof.
  induction l as [|[k0 v0] t IH]; intros k v H; cbn in *; [discriminate|].
  destruct (k0 =? k) eqn:E.
  - inversion H; subst. f_equal. f_equal. lia.
  - f_equal. now apply IH.
Qed.

Lemma aset_aset : forall {V} (l : list (Z * V)) k v v', aset k v' (aset k v l) = aset k v' l.
Proof.
  induction l as [|[k0 v0] t IH]; intros k v v'; cbn.
  - now rewrite Z.eqb_refl.
  - destruct (k0 =? k) eqn:E; cbn.
    + now rewrite Z.eqb_refl.
    + rewrite E. f_equal. apply IH.
Qed.

Lemma SSorted_snoc : forall {A} (R : A -> A -> Prop) l a,
  StronglySorted R l -> Forall (fun x => R x a) l -> StronglySorted R (l ++ [a]).
Proof.
  induction l as [|x t IH]; intros a S F; cbn.
  - constructor; constructor.
  - inversion S as [|? ? St Fx]; subst. inversion F as [|? ? Rx Ft]; subst.
    constructor; [now apply IH|]. apply Forall_app. split; [assumption|]. constructor; [assumption|constructor].
Qed.

Lemma SSorted_rev : forall {A} (R : A -> A -> Prop) l,
  StronglySorted R l -> StronglySorted (fun a b => R b a) (rev l).
Proof.
  induction l as [|x t IH]; intros S; cbn; [constructor|].
  inversion S as [|? ? St Fx]; subst. apply SSorted_snoc; [now apply IH|].
  rewrite Forall_forall in *. intros y Hy. apply in_rev in Hy. now apply Fx.
Qed.

Lemma sorted_desc_rev_sort : forall es, sorted_desc (rev (sort_by ts es)).
Proof.
  intros es. apply StronglySorted_Sorted.
  apply (SSorted_rev (key_le ts)). apply sort_by_ssorted.
Qed.

Lemma sort_by_nil : forall {A} (key : A -> Z) l, sort_by key l = [] -> l = [].
Proof.
  intros A key l H. apply (f_equal (@length A)) in H. rewrite sort_by_length in H.
  destruct l; [reflexivity|discriminate].
Qed.

(* ---------- insert_many = spec_many on the bucket's list ---------- *)
Lemma mem_insert_one_list : forall c b e m es,
  aget b c = Some (m, es) ->
  exists es', mem_insert_one c b e = (aset b (m, es') c,
                                      Ok (OEvent (Some (match eid e with
                                                        | Some _ => e
                                                        | None => set_eid e (Some (mem_next_id es))
                                                        end)))) /\
              es' = match eid e with
                    | Some i => spec_replace i e es
                    | None => es ++ [set_eid e (Some (mem_next_id es))]
                    end.
Proof.
  intros c b e m es H. unfold mem_insert_one, mem_replace. destruct (eid e) as [i|]; rewrite H.
  - eexists. split; [|reflexivity]. unfold mem_set_events. now rewrite mem_replace_events_spec.
  - eexists. split; reflexivity.
Qed.

Lemma mem_insert_many_spec : forall evs c b m es,
  aget b c = Some (m, es) ->
  exists es', spec_many es evs es' /\ mem_insert_many c b evs = (aset b (m, es') c, Ok ONone).
Proof.
  induction evs as [|e t IH]; intros c b m es H.
  - exists es. split; [constructor|]. cbn. now rewrite aset_same.
  - destruct (mem_insert_one_list c b e m es H) as [es1 [E1 E2]]. cbn. rewrite E1.
    destruct (IH (aset b (m, es1) c) b m es1 (aget_aset_same _ _ _)) as [es' [S E]].
    exists es'. rewrite E, aset_aset. split; [|reflexivity].
    destruct (eid e) as [i|] eqn:Ee; subst es1.
    + eapply sm_upsert; eassumption.
    + eapply sm_insert; [eassumption|apply mem_next_id_fresh|eassumption].
Qed.

(* ---------- one step ---------- *)
Theorem mem_refines : forall c o, mem_Inv c -> pre c o ->
  exists out, snd (mem_step c o) = Ok out /\ spec_step c o (fst (mem_step c o)) out.
Proof.
  intros c o I P.
  destruct o as [b m|b ty cl ho na da|b| |b|b e|b es|b i e|b e|b i|b i|b l s e|b s e]; cbn in P; cbn [mem_step].
  - eexists. split; [reflexivity|]. cbn. apply sp_create; [assumption|].
    unfold created_meta, mem_create_meta. cbn. repeat split.
    intro T. rewrite T. destruct (m_name m) as [n|]; [reflexivity|discriminate].
  - destruct P as [E [P1 [P2 [P3 [P4 [P5 _]]]]]].
    destruct (aget b c) as [[m es]|] eqn:G; [|congruence].
    eexists. split; [reflexivity|]. cbn. rewrite update_meta_guard by assumption. now apply sp_update.
  - destruct (aget b c) as [v|] eqn:G; [|congruence].
    eexists. split; [reflexivity|]. cbn. eapply sp_delete_bucket; eassumption.
  - eexists. split; [reflexivity|]. apply sp_buckets.
  - destruct (aget b c) as [[m es]|] eqn:G; [|congruence].
    eexists. split; [reflexivity|]. cbn. eapply sp_metadata; eassumption.
  - destruct P as [E Ee]. destruct (aget b c) as [[m es]|] eqn:G; [|congruence].
    destruct (mem_insert_one_list c b e m es G) as [es' [E1 E2]]. rewrite Ee in *. rewrite E1. subst es'.
    eexists. split; [reflexivity|]. cbn. apply sp_insert_one; [assumption|assumption|apply mem_next_id_fresh].
  - destruct P as [m [cur [G _]]].
    destruct (mem_insert_many_spec es c b m cur G) as [es' [S E]]. rewrite E.
    eexists. split; [reflexivity|]. cbn. eapply sp_insert_many; eassumption.
  - destruct P as [m [cur [G L]]]. unfold mem_replace. rewrite G. unfold mem_set_events.
    eexists. split; [reflexivity|]. cbn. rewrite mem_replace_events_spec. now apply sp_replace.
  - destruct P as [m [cur [G N]]]. rewrite G.
    destruct (last_opt (sort_by ts cur)) as [l|] eqn:L.
    + pose proof (sort_by_last_max ts cur l L) as [Il Ml].
      destruct I as [_ W]. destruct (W b m cur G) as [_ S].
      destruct (eid l) as [i|] eqn:El; [|exfalso; now apply (S l Il)].
      unfold mem_replace. rewrite G. unfold mem_set_events.
      eexists. split; [reflexivity|]. cbn. rewrite mem_replace_events_spec.
      eapply sp_replace_last; [eassumption| |eassumption]. split; assumption.
    + exfalso. apply N. apply last_opt_None in L. eapply sort_by_nil; eassumption.
  - destruct (aget b c) as [[m es]|] eqn:G; [|congruence].
    rewrite (remove_last_ext _ (has_id i)) by (intro; apply id_matches_has_id).
    destruct I as [_ W]. destruct (W b m es G) as [N S].
    destruct (remove_last (has_id i) es) as [es'|] eqn:R.
    + destruct (remove_last_unique i es es' N R) as [L ->].
      eexists. split; [reflexivity|]. cbn. now apply sp_delete_live.
    + eexists. split; [reflexivity|]. cbn. eapply sp_delete_absent; [eassumption|].
      apply has_id_all_false_not_live. now apply remove_last_None.
  - destruct (aget b c) as [[m es]|] eqn:G; [|congruence].
    rewrite (find_last_ext _ (has_id i)) by (intro; apply id_matches_has_id).
    destruct (find_last (has_id i) es) as [x|] eqn:F.
    + apply find_last_Some in F as [F1 F2].
      eexists. split; [reflexivity|]. cbn. eapply sp_get_event_live; [eassumption|assumption|].
      now apply has_id_true.
    + eexists. split; [reflexivity|]. cbn. eapply sp_get_event_absent; [eassumption|].
      apply has_id_all_false_not_live. now apply find_last_None.
  - destruct P as [E [-> ->]]. destruct (aget b c) as [[m es]|] eqn:G; [|congruence].
    eexists. split; [reflexivity|]. cbn. eapply sp_get_events; [eassumption|].
    unfold spec_read, mem_get_events. cbn. destruct (l =? 0); [reflexivity|].
    exists (rev (sort_by ts es)). split; [|split].
    + rewrite <- Permutation_rev. apply sort_by_perm.
    + apply sorted_desc_rev_sort.
    + reflexivity.
  - destruct P as [E [-> ->]]. destruct (aget b c) as [[m es]|] eqn:G; [|congruence].
    eexists. split; [reflexivity|]. cbn. unfold mem_count. cbn.
    rewrite filter_all by reflexivity. eapply sp_count; eassumption.
Qed.

(* ---------- all histories ---------- *)
(* `hist_ok step c h`: the side condition holds at every step of the history *)
Fixpoint mem_hist_ok (c : mstate) (h : list op) : Prop :=
  match h with
  | [] => True
  | o :: t => pre c o /\ mem_hist_ok (fst (mem_step c o)) t
  end.

Theorem mem_refines_run : forall h c, mem_Inv c -> mem_hist_ok c h ->
  spec_run c h (mem_run c h) /\ mem_Inv (mem_run c h).
Proof.
  induction h as [|o t IH]; intros c I H.
  - split; [constructor|assumption].
  - destruct H as [P H]. destruct (mem_refines c o I P) as [out [_ S]].
    pose proof (mem_step_Inv c o I) as I'. destruct (IH _ I' H) as [R I2].
    split; [|assumption]. cbn. eapply sr_cons; eassumption.
Qed.
