(* flood at heap level (Model/TransformHeap.v: flood_h).
   A. frame and freshness, for every heap and every argument (any aliasing):
      [flood_h_framed]: the heap after the call extends the heap before it; every cell
      that existed is unchanged; every new cell refers to new cells only; the returned list
      is new and so is everything it reaches.
   B. refinement: if the argument list holds pairwise distinct Event objects (their data
      dicts may be shared at will), reading the returned list gives Model/Flood.v's [flood] of
      the read-back argument.  ([flood_h_aliased_differs]: with the same object twice in the
      list the in-place walk sees its own writes through the other position, so the
      functional model, which speaks of values, is not what the code computes.) *)
From AwVerif Require Import Base.Prelude Model.MemHeap Model.TransformHeap Model.Flood
  Proofs.MemHeapBase Proofs.MemHeapCopy Proofs.MemHeapFrame
  Proofs.TransformHeapCopy Proofs.TransformHeapBase Proofs.IntersectSort.
From Coq Require Import Arith Relations Sorting.Permutation.
Local Open Scope nat_scope.

(* ------------------------------------------------------------------------- *)
(* A. what is written *)

Ltac step_ok H :=
  match type of H with
  | bind ?r _ = Ok _ =>
      let E := fresh "E" in destruct r eqn:E; cbn [bind] in H; [|discriminate|discriminate]
  | (if ?b then _ else _) = Ok _ => destruct b eqn:?
  | (let _ := _ in _) = _ => cbv zeta in H
  end.

Ltac solve_retags :=
  first [ apply retags_refl
        | eapply retags_trans;
          [ first [ eapply wr_ts_retags; [eassumption|]
                  | eapply wr_dur_retags; [eassumption|] ]; auto
          | solve_retags ] ].

Lemma flood_step_retags : forall pt h ws wu e1 e2 h' fl,
  flood_step_h pt h ws wu e1 e2 = Ok (h', fl) -> retags (fun l => l = e1 \/ l = e2) h h'.
Proof.
  unfold flood_step_h. intros pt h ws wu e1 e2 h' fl H.
  repeat step_ok H; inversion H; subst; clear H; solve_retags.
Qed.

Lemma flood_loop_retags : forall pt ks h ws wu h',
  flood_loop_h pt h ws wu ks = Ok h' -> retags (fun l => In l ks) h h'.
Proof.
  intros pt. induction ks as [|e1 rest IH]; cbn [flood_loop_h]; intros h ws wu h' H.
  - inversion H; subst. constructor.
  - destruct rest as [|e2 rest'].
    + inversion H; subst. constructor.
    + destruct (flood_step_h pt h ws wu e1 e2) as [[h1 [ws1 wu1]]| |] eqn:S; cbn [bind fst snd] in H; try discriminate.
      eapply retags_trans.
      * eapply retags_mono; [|eapply flood_step_retags; eauto].
        cbn. intros l [-> | ->]; auto.
      * eapply retags_mono; [|eapply IH; eauto]. cbn. intros l I. right. exact I.
Qed.

(* the deep copy of a list object: its elements are copies *)
Lemma copied_list : forall h L h1 m L1 ks1, copied h L h1 m L1 -> list_elems h1 L1 = Ok ks1 ->
  exists p ks, lookup h1 L = Some (Cell (TNode p) ks) /\ Forall2 (related m) ks ks1 /\
               forall k, In k ks1 -> length h <= k < length h1.
Proof.
  intros h L h1 m L1 ks1 C LE. destruct (list_elems_inv _ _ _ LE) as (p & L1c).
  destruct (copied_cell _ _ _ _ _ _ _ C (cp_root _ _ _ _ _ C)) as (B & t & ks & ks' & L0 & L1' & F).
  rewrite L1c in L1'. inversion L1'; subst t ks'.
  exists p, ks. split; auto. split; auto.
  intros k I. clear -F I C. induction F; [destruct I|]. destruct I as [<-|I]; auto.
  apply (copied_cell _ _ _ _ _ _ _ C H).
Qed.

Lemma new_list_framed : forall h0 h out,
  framed h0 h -> (forall k, In k out -> length h0 <= k < length h) ->
  framed h0 (fst (new_list h out)) /\ length h0 <= snd (new_list h out) < length (fst (new_list h out)) /\
  lookup (fst (new_list h out)) (snd (new_list h out)) = Some (Cell (TNode EVENT_LIST) out).
Proof.
  intros h0 h out F K. unfold new_list, alloc. cbn [fst snd].
  split; [apply framed_alloc; auto|]. destruct F as (G & _).
  split; [rewrite app_length; cbn; lia|apply lookup_alloc_new].
Qed.

Theorem flood_h_framed : forall h L pt h' L',
  flood_h h L pt = Ok (h', L') ->
  framed h h' /\ length h <= L' < length h' /\
  exists out, lookup h' L' = Some (Cell (TNode EVENT_LIST) out) /\
              forall k, In k out -> length h <= k < length h'.
Proof.
  unfold flood_h. intros h L pt h' L' H.
  destruct (pdeepcopy h L) as [[h1 L1]| |] eqn:P; cbn [bind fst snd] in H; try discriminate.
  destruct (list_elems h1 L1) as [ks1| |] eqn:LE; cbn [bind] in H; try discriminate.
  destruct (sorted_ts h1 ks1) as [srt| |] eqn:SO; cbn [bind] in H; try discriminate.
  destruct (flood_loop_h pt h1 false false srt) as [h2| |] eqn:FL; cbn [bind] in H; try discriminate.
  destruct (filter_pos h2 srt) as [out| |] eqn:FP; cbn [bind] in H; try discriminate.
  destruct (pdeepcopy_inv _ _ _ _ P) as (m & C).
  destruct (copied_list _ _ _ _ _ _ C LE) as (p & ks & _ & _ & FR).
  assert (F1 : framed h h1) by (eapply framed_copied; [apply framed_refl|eauto]).
  pose proof (flood_loop_retags _ _ _ _ _ _ FL) as R.
  assert (FRs : forall k, In k srt -> length h <= k < length h1).
  { intros k I. apply FR. apply (proj1 (sorted_ts_in _ _ _ k SO)). exact I. }
  assert (F2 : framed h h2).
  { eapply retags_framed; [exact R| |exact F1]. intros l I. apply (FRs l I). }
  pose proof (retags_length _ _ _ R) as LEN.
  assert (FO : forall k, In k out -> length h <= k < length h2).
  { intros k I. rewrite LEN. apply FRs. eapply filter_res_incl; eauto. }
  destruct (new_list_framed h h2 out F2 FO) as (F3 & B3 & L3).
  inversion H; subst h' L'. split; auto. split; auto. exists out. split; auto.
  intros k I. specialize (FO _ I). unfold new_list, alloc; cbn [fst]. rewrite app_length; cbn. lia.
Qed.

(* ------------------------------------------------------------------------- *)
(* B. refinement *)

Local Open Scope Z_scope.

Ltac wr_ts_step l o N :=
  match goal with
  | Hl : ev_at ?h l = Some ?v, Ho : ev_at ?h o = Some ?vo |- context [wr_ts ?h l ?t] =>
      let h' := fresh "h" in let W := fresh "W" in let Hs := fresh "Hs" in
      let Hot := fresh "Hot" in let Ho' := fresh "Ho" in
      destruct (wr_ts_valid h l v t Hl) as (h' & W & Hs & Hot); rewrite W; cbn [bind];
      assert (Ho' : ev_at h' o = Some vo) by (rewrite (Hot o N); exact Ho);
      clear W Hot
  end.

Ltac wr_dur_step l o N :=
  match goal with
  | Hl : ev_at ?h l = Some ?v, Ho : ev_at ?h o = Some ?vo |- context [wr_dur ?h l ?t] =>
      let h' := fresh "h" in let W := fresh "W" in let Hs := fresh "Hs" in
      let Hot := fresh "Hot" in let Ho' := fresh "Ho" in
      destruct (wr_dur_valid h l v t Hl) as (h' & W & Hs & Hot); rewrite W; cbn [bind];
      assert (Ho' : ev_at h' o = Some vo) by (rewrite (Hot o N); exact Ho);
      clear W Hot
  end.

Ltac finish_step := eexists; split; [reflexivity|split; eassumption].

Lemma flood_step_refines : forall pt h ws wu e1 e2 v1 v2,
  e1 <> e2 -> ev_at h e1 = Some v1 -> ev_at h e2 = Some v2 ->
  exists h', flood_step_h pt h ws wu e1 e2 = Ok (h', snd (flood_step pt ws wu v1 v2)) /\
             ev_at h' e1 = Some (fst (fst (flood_step pt ws wu v1 v2))) /\
             ev_at h' e2 = Some (snd (fst (flood_step pt ws wu v1 v2))).
Proof.
  intros pt h ws wu e1 e2 v1 v2 N H1 H2.
  assert (N' : e2 <> e1) by congruence.
  unfold flood_step_h, flood_step.
  unfold TransformHeap.negative_gap_trim_thres, Flood.negative_gap_trim_thres.
  rewrite (rd_ts_ok _ _ _ H2), (rd_ts_ok _ _ _ H1), (rd_dur_ok _ _ _ H1). cbn [bind]. cbv zeta.
  destruct (ts v2 - (ts v1 + dur v1) =? 0) eqn:G0; [cbn [fst snd]; finish_step|].
  rewrite (data_eq_ok _ _ _ _ _ H1 H2), (rd_dur_ok _ _ _ H2).
  destruct (ts v2 - (ts v1 + dur v1) <? 0) eqn:G1; cbn [bind andb].
  - destruct (data v1 =? data v2) eqn:D.
    + wr_ts_step e1 e2 N'. wr_dur_step e1 e2 N'. wr_ts_step e2 e1 N. wr_dur_step e2 e1 N.
      cbn [fst snd]. finish_step.
    + destruct ((ts v2 - (ts v1 + dur v1) <? Z.opp 100000) && negb wu) eqn:G2;
        [cbn [fst snd]; finish_step|].
      destruct ((Z.opp 100000 <? ts v2 - (ts v1 + dur v1)) && (ts v2 - (ts v1 + dur v1) <=? pt)) eqn:G3;
        [|cbn [fst snd]; finish_step].
      cbn [bind]. destruct (dur v1 >=? dur v2) eqn:G4.
      * wr_dur_step e1 e2 N'. cbn [fst snd]. finish_step.
      * wr_ts_step e2 e1 N. erewrite rd_ts_ok by eassumption. cbn [bind].
        wr_dur_step e2 e1 N. cbn [fst snd]. finish_step.
  - destruct ((ts v2 - (ts v1 + dur v1) <? Z.opp 100000) && negb wu) eqn:G2;
      [cbn [fst snd]; finish_step|].
    destruct ((Z.opp 100000 <? ts v2 - (ts v1 + dur v1)) && (ts v2 - (ts v1 + dur v1) <=? pt)) eqn:G3;
      [|cbn [fst snd]; finish_step].
    destruct (dur v1 >=? dur v2) eqn:G4; destruct (data v1 =? data v2) eqn:D.
    + wr_dur_step e1 e2 N'. wr_ts_step e2 e1 N. wr_dur_step e2 e1 N. cbn [fst snd]. finish_step.
    + wr_dur_step e1 e2 N'. cbn [fst snd]. finish_step.
    + wr_ts_step e2 e1 N. erewrite rd_ts_ok by eassumption. cbn [bind].
      wr_dur_step e2 e1 N. wr_dur_step e1 e2 N'. cbn [fst snd]. finish_step.
    + wr_ts_step e2 e1 N. erewrite rd_ts_ok by eassumption. cbn [bind].
      wr_dur_step e2 e1 N. cbn [fst snd]. finish_step.
Qed.

Local Open Scope nat_scope.

Definition reads (h : heap) (k : loc) (v : event) : Prop := ev_at h k = Some v.

Lemma flood_loop_refines : forall pt ks vs h ws wu k v,
  NoDup (k :: ks) -> reads h k v -> Forall2 (reads h) ks vs ->
  exists h', flood_loop_h pt h ws wu (k :: ks) = Ok h' /\
             Forall2 (reads h') (k :: ks) (flood_walk pt ws wu v vs).
Proof.
  intros pt. induction ks as [|k2 ks IH]; intros vs h ws wu k v ND Hk F.
  - inversion F; subst. exists h. split; [reflexivity|]. cbn. constructor; auto.
  - inversion F as [|? v2 ? vs' Hk2 F']; subst. cbn [flood_loop_h flood_walk].
    inversion ND as [|? ? NI ND']; subst.
    assert (N : k <> k2) by (intros ->; apply NI; left; reflexivity).
    destruct (flood_step_refines pt h ws wu k k2 v v2 N Hk Hk2) as (h1 & S & R1 & R2).
    destruct (flood_step pt ws wu v v2) as [[v1' v2'] [ws' wu']] eqn:FS. cbn [fst snd] in *.
    rewrite S. cbn [bind fst snd].
    pose proof (flood_step_retags _ _ _ _ _ _ _ _ S) as RT.
    assert (F1 : Forall2 (reads h1) ks vs').
    { inversion ND' as [|? ? NI2 _]; subst. clear -F' RT NI NI2.
      induction F' as [|a b l l' Hab F' IHF]; constructor.
      - unfold reads. rewrite (retags_ev_other _ _ _ RT); auto.
        intros [-> | ->]; [apply NI; right; left; reflexivity|apply NI2; left; reflexivity].
      - apply IHF; intro I; [apply NI|apply NI2]; cbn in *; tauto. }
    destruct (IH vs' h1 ws' wu' k2 v2' ND' R2 F1) as (h' & L & F2).
    exists h'. split; [exact L|]. constructor; [|exact F2].
    unfold reads. rewrite (retags_ev_other _ _ _ (flood_loop_retags _ _ _ _ _ _ L)); auto.
Qed.

Lemma evs_at_ext : forall h h' ks vs, ext h h' -> evs_at h ks = Some vs -> evs_at h' ks = Some vs.
Proof.
  intros h h' ks vs E H. apply evs_at_Forall2. apply evs_at_Forall2 in H.
  induction H; constructor; auto. eapply ev_at_ext; eauto.
Qed.

Lemma list_at_new_list : forall h out vs, evs_at h out = Some vs ->
  list_at (fst (new_list h out)) (snd (new_list h out)) = Some vs.
Proof.
  intros h out vs H. unfold new_list, alloc, list_at. cbn [fst snd].
  rewrite lookup_alloc_new. eapply evs_at_ext; [apply ext_alloc|exact H].
Qed.

Lemma list_at_inv : forall h L vs, list_at h L = Some vs ->
  exists p ks, lookup h L = Some (Cell (TNode p) ks) /\ evs_at h ks = Some vs.
Proof.
  unfold list_at. intros h L vs H. destruct (lookup h L) as [[[? ? ?|p] ks]|]; try discriminate. eauto.
Qed.

(* distinct objects have distinct copies; every copy reads as its original *)
Lemma copied_elems : forall h L h1 m L1 ks ks1 vs,
  copied h L h1 m L1 -> Forall2 (related m) ks ks1 -> evs_at h ks = Some vs ->
  evs_at h1 ks1 = Some vs /\ (NoDup ks -> NoDup ks1).
Proof.
  intros h L h1 m L1 ks ks1 vs C F H. apply evs_at_Forall2 in H. split.
  - apply evs_at_Forall2. revert vs H. induction F as [|a b l l' Rab F IHF]; intros vs H; inversion H; subst; constructor; auto.
    eapply copied_ev_at; eauto.
  - clear H. induction F as [|a b l l' Rab F IHF]; intro ND; [constructor|].
    inversion ND as [|? ? NI ND']; subst. constructor; auto.
    intro I. apply NI. clear -F I Rab C. induction F as [|a2 b2 l l' Rab2 F IHF]; [destruct I|].
    destruct I as [<-|I]; [left; eapply (cp_inj _ _ _ _ _ C); eauto|right; auto].
Qed.

Theorem flood_h_refines : forall h L pt vs,
  wf h -> list_at h L = Some vs ->
  (forall p ks, lookup h L = Some (Cell (TNode p) ks) -> NoDup ks) ->
  exists h' L', flood_h h L pt = Ok (h', L') /\ list_at h' L' = Some (flood vs pt).
Proof.
  intros h L pt vs W LA ND.
  destruct (list_at_inv _ _ _ LA) as (p & ks & LL & EV). specialize (ND _ _ LL).
  destruct (pdeepcopy_total h L W (lookup_lt _ _ _ LL)) as (h1 & L1 & P).
  destruct (pdeepcopy_inv _ _ _ _ P) as (m & C).
  unfold flood_h. rewrite P. cbn [bind fst snd].
  destruct (copied_cell _ _ _ _ _ _ _ C (cp_root _ _ _ _ _ C)) as (_ & t & ks0 & ks1 & L0 & L1c & F).
  rewrite (ext_lookup_some _ _ _ _ (cp_ext _ _ _ _ _ C) LL) in L0. inversion L0; subst t ks0.
  unfold list_elems. rewrite L1c. cbn [bind].
  destruct (copied_elems _ _ _ _ _ _ _ _ C F EV) as (EV1 & ND1). specialize (ND1 ND).
  destruct (sorted_ts_valid _ _ _ EV1) as (srt & SO & EVs). rewrite SO. cbn [bind].
  assert (NDs : NoDup srt).
  { eapply Permutation_NoDup; [apply Permutation_sym; eapply sorted_ts_perm; eauto|exact ND1]. }
  unfold flood. apply evs_at_Forall2 in EVs.
  destruct (sort_by ts vs) as [|first rest].
  - inversion EVs; subst. cbn [flood_loop_h bind filter_pos filter_res].
    do 2 eexists. split; [reflexivity|]. now apply list_at_new_list.
  - inversion EVs as [|k ? srt' ? Hk F']; subst.
    destruct (flood_loop_refines pt srt' rest h1 false false k first NDs Hk F') as (h2 & FL & F2).
    rewrite FL. cbn [bind].
    apply evs_at_Forall2 in F2. destruct (filter_pos_valid _ _ _ F2) as (out & FP & EVo).
    rewrite FP. cbn [bind]. do 2 eexists. split; [reflexivity|]. now apply list_at_new_list.
Qed.

(* ------------------------------------------------------------------------- *)
(* C. flood never raises on a list of Events, whatever the aliasing (so the frame theorem
   always applies) *)

Definition valid (h : heap) (l : loc) : Prop := exists v, ev_at h l = Some v.

Lemma wr_ts_keeps_valid : forall h l t, valid h l ->
  exists h', wr_ts h l t = Ok h' /\ forall m, valid h m -> valid h' m.
Proof.
  intros h l t (v & H). destruct (wr_ts_valid h l v t H) as (h' & W & Hs & Ho).
  exists h'. split; auto. intros m (x & Hm). destruct (Nat.eq_dec m l) as [->|N]; [eexists; eauto|].
  exists x. rewrite Ho; auto.
Qed.

Lemma wr_dur_keeps_valid : forall h l t, valid h l ->
  exists h', wr_dur h l t = Ok h' /\ forall m, valid h m -> valid h' m.
Proof.
  intros h l t (v & H). destruct (wr_dur_valid h l v t H) as (h' & W & Hs & Ho).
  exists h'. split; auto. intros m (x & Hm). destruct (Nat.eq_dec m l) as [->|N]; [eexists; eauto|].
  exists x. rewrite Ho; auto.
Qed.

Ltac wv_ts l :=
  match goal with
  | V1 : valid ?h ?a, V2 : valid ?h ?b |- context [wr_ts ?h l ?t] =>
      let h' := fresh "h" in let W := fresh "W" in let K := fresh "K" in
      let Vl := fresh "Vl" in
      assert (Vl : valid h l) by assumption;
      destruct (wr_ts_keeps_valid h l t Vl) as (h' & W & K); rewrite W; cbn [bind];
      pose proof (K _ V1); pose proof (K _ V2); clear V1 V2 Vl W
  end.

Ltac wv_dur l :=
  match goal with
  | V1 : valid ?h ?a, V2 : valid ?h ?b |- context [wr_dur ?h l ?t] =>
      let h' := fresh "h" in let W := fresh "W" in let K := fresh "K" in
      let Vl := fresh "Vl" in
      assert (Vl : valid h l) by assumption;
      destruct (wr_dur_keeps_valid h l t Vl) as (h' & W & K); rewrite W; cbn [bind];
      pose proof (K _ V1); pose proof (K _ V2); clear V1 V2 Vl W
  end.

Lemma keeps_valid_trans : forall (a b c : heap),
  (forall m, valid a m -> valid b m) -> (forall m, valid b m -> valid c m) -> forall m, valid a m -> valid c m.
Proof. auto. Qed.

Ltac done_valid := do 2 eexists; split; [reflexivity|]; intros; repeat (match goal with K : forall m, valid _ m -> valid _ m |- _ => apply K; clear K end); assumption.

Lemma flood_step_total : forall pt h ws wu e1 e2,
  valid h e1 -> valid h e2 ->
  exists h' fl, flood_step_h pt h ws wu e1 e2 = Ok (h', fl) /\ forall m, valid h m -> valid h' m.
Proof.
  intros pt h ws wu e1 e2 V1 V2. pose proof V1 as (v1 & H1). pose proof V2 as (v2 & H2).
  unfold flood_step_h.
  rewrite (rd_ts_ok _ _ _ H2), (rd_ts_ok _ _ _ H1), (rd_dur_ok _ _ _ H1). cbn [bind]. cbv zeta.
  destruct (ts v2 - (ts v1 + dur v1) =? 0)%Z; [do 2 eexists; split; [reflexivity|auto]|].
  rewrite (data_eq_ok _ _ _ _ _ H1 H2), (rd_dur_ok _ _ _ H2).
  destruct (ts v2 - (ts v1 + dur v1) <? 0)%Z; cbn [bind].
  - destruct (data v1 =? data v2)%Z.
    + wv_ts e1. wv_dur e1. wv_ts e2. wv_dur e2. done_valid.
    + destruct ((ts v2 - (ts v1 + dur v1) <? - TransformHeap.negative_gap_trim_thres)%Z && negb wu);
        [do 2 eexists; split; [reflexivity|auto]|].
      destruct ((- TransformHeap.negative_gap_trim_thres <? ts v2 - (ts v1 + dur v1))%Z && (ts v2 - (ts v1 + dur v1) <=? pt)%Z);
        [|do 2 eexists; split; [reflexivity|auto]].
      cbn [bind]. destruct (dur v1 >=? dur v2)%Z.
      * wv_dur e1. done_valid.
      * wv_ts e2.
        match goal with V : valid ?h e2 |- context [rd_ts ?h e2] => destruct V as (x & Hx); rewrite (rd_ts_ok _ _ _ Hx); cbn [bind];
          assert (valid h e2) by (eexists; eauto) end.
        wv_dur e2. done_valid.
  - destruct ((ts v2 - (ts v1 + dur v1) <? - TransformHeap.negative_gap_trim_thres)%Z && negb wu);
      [do 2 eexists; split; [reflexivity|auto]|].
    destruct ((- TransformHeap.negative_gap_trim_thres <? ts v2 - (ts v1 + dur v1))%Z && (ts v2 - (ts v1 + dur v1) <=? pt)%Z);
      [|do 2 eexists; split; [reflexivity|auto]].
    destruct (dur v1 >=? dur v2)%Z; destruct (data v1 =? data v2)%Z.
    + wv_dur e1. wv_ts e2. wv_dur e2. done_valid.
    + wv_dur e1. done_valid.
    + wv_ts e2.
      match goal with V : valid ?h e2 |- context [rd_ts ?h e2] => destruct V as (x & Hx); rewrite (rd_ts_ok _ _ _ Hx); cbn [bind];
        assert (valid h e2) by (eexists; eauto) end.
      wv_dur e2. wv_dur e1. done_valid.
    + wv_ts e2.
      match goal with V : valid ?h e2 |- context [rd_ts ?h e2] => destruct V as (x & Hx); rewrite (rd_ts_ok _ _ _ Hx); cbn [bind];
        assert (valid h e2) by (eexists; eauto) end.
      wv_dur e2. done_valid.
Qed.

Lemma flood_loop_total : forall pt ks h ws wu,
  (forall k, In k ks -> valid h k) ->
  exists h', flood_loop_h pt h ws wu ks = Ok h' /\ forall m, valid h m -> valid h' m.
Proof.
  intros pt. induction ks as [|e1 rest IH]; intros h ws wu V; cbn [flood_loop_h].
  - exists h. auto.
  - destruct rest as [|e2 rest']; [exists h; auto|].
    destruct (flood_step_total pt h ws wu e1 e2) as (h1 & [ws1 wu1] & S & K1).
    { apply V. left. reflexivity. } { apply V. right. left. reflexivity. }
    rewrite S. cbn [bind fst snd].
    destruct (IH h1 ws1 wu1) as (h' & L & K2).
    { intros k I. apply K1. apply V. right. exact I. }
    exists h'. split; auto.
Qed.

Lemma valid_evs_at : forall h ks, (forall k, In k ks -> valid h k) -> exists vs, evs_at h ks = Some vs.
Proof.
  intros h. induction ks as [|k ks IH]; intro V; [exists []; reflexivity|].
  destruct (V k (or_introl eq_refl)) as (v & Hk). destruct IH as (vs & E); [intros; apply V; right; auto|].
  exists (v :: vs). rewrite evs_at_cons, Hk, E. reflexivity.
Qed.

Lemma evs_at_valid : forall h ks vs, evs_at h ks = Some vs -> forall k, In k ks -> valid h k.
Proof.
  intros h ks vs H. apply evs_at_Forall2 in H. induction H; intros k I; [destruct I|].
  destruct I as [<-|I]; [eexists; eauto|auto].
Qed.

(* any list of Events, any aliasing: flood returns *)
Theorem flood_h_total : forall h L pt vs,
  wf h -> list_at h L = Some vs -> exists h' L', flood_h h L pt = Ok (h', L').
Proof.
  intros h L pt vs W LA.
  destruct (list_at_inv _ _ _ LA) as (p & ks & LL & EV).
  destruct (pdeepcopy_total h L W (lookup_lt _ _ _ LL)) as (h1 & L1 & P).
  destruct (pdeepcopy_inv _ _ _ _ P) as (m & C).
  unfold flood_h. rewrite P. cbn [bind fst snd].
  destruct (copied_cell _ _ _ _ _ _ _ C (cp_root _ _ _ _ _ C)) as (_ & t & ks0 & ks1 & L0 & L1c & F).
  rewrite (ext_lookup_some _ _ _ _ (cp_ext _ _ _ _ _ C) LL) in L0. inversion L0; subst t ks0.
  unfold list_elems. rewrite L1c. cbn [bind].
  destruct (copied_elems _ _ _ _ _ _ _ _ C F EV) as (EV1 & _).
  destruct (sorted_ts_valid _ _ _ EV1) as (srt & SO & EVs). rewrite SO. cbn [bind].
  destruct (flood_loop_total pt srt h1 false false (evs_at_valid _ _ _ EVs)) as (h2 & FL & K).
  rewrite FL. cbn [bind].
  destruct (valid_evs_at h2 srt) as (vs2 & E2).
  { intros k I. apply K. eapply evs_at_valid; eauto. }
  destruct (filter_pos_valid _ _ _ E2) as (out & FP & _). rewrite FP. cbn [bind].
  do 2 eexists. unfold new_list, alloc. reflexivity.
Qed.
