(* Lemmas behind Props/C06fault.v: the crash-prefix property over histories of CALLS in which
   the engine raises (Model/CommitFault.v, Model/CommitFaultCalls.v).  The fault-free lemmas of
   Proofs/CommitProofs.v are reused: a call that returned normally is a run of Model/Commit.v
   ([returned_run]). *)
From AwVerif Require Import Base.Prelude Model.Commit Model.CommitFault Model.CommitFaultCalls
  Proofs.CommitProofs Proofs.CommitAge Proofs.CommitFaultProofs.
From Coq Require Import ZifyBool.


(* ---- specification vocabulary ---- *)

(* conditional_commit is never called with a negative count (the code passes 1 or a len()) *)
Definition nonneg_count (x : fin) : Prop := 0 <= step_count x.
Definition nonneg_counts (tr : list fin) : Prop := Forall nonneg_count tr.

(* What is assumed about the steps [tro] of one call issued in state [fs]: if it RETURNED
   NORMALLY it ran the whole script of a storage method; if it raised it may have run anything
   (any statements, any commit attempts, in any order).  Nothing else. *)
Definition call_ok (lazy : bool) (fs : fstate) (tro : list fin) : Prop :=
  (returned lazy fs tro -> exists o, map fm tro = map Step (expand o)) /\ nonneg_counts tro.

Fixpoint calls_ok (lazy : bool) (fs : fstate) (calls : list (list fin)) : Prop :=
  match calls with
  | [] => True
  | tro :: rest => call_ok lazy fs tro /\ calls_ok lazy (frun lazy fs tro) rest
  end.

(* The shapes the code gives a call: the whole script of its method (whatever the engine answers
   at its commits), or what [fault_script] leaves of it when the engine raises once - and then
   the call did raise. *)
Inductive call_shape (lazy : bool) (fs : fstate) (tro : list fin) : Prop :=
  | shape_full : forall o, map fm tro = map Step (expand o) -> call_shape lazy fs tro
  | shape_fault : forall o f ms, fault_script o f = Some ms -> map fm tro = ms ->
      ~ returned lazy fs tro -> call_shape lazy fs tro.

Fixpoint calls_shaped (lazy : bool) (fs : fstate) (calls : list (list fin)) : Prop :=
  match calls with
  | [] => True
  | tro :: rest => call_shape lazy fs tro /\ calls_shaped lazy (frun lazy fs tro) rest
  end.

(* ---- one step ---- *)

Lemma fstep_shape : forall lazy fs x, nonneg_count x ->
  let r := fst (fmicro_step lazy fs x) in
  (committed (cs r) = committed (cs fs) /\ pending (cs r) = pending (cs fs) ++ fwrites (fm x) /\
   n_unc (cs fs) <= n_unc (cs r) /\ n_unc (cs r) <= n_unc (cs fs) + step_count x)
  \/ (fwrites (fm x) = [] /\ pending (cs r) = [] /\
      committed (cs r) = committed (cs fs) ++ pending (cs fs) /\ n_unc (cs r) = 0).
Proof.
  intros lazy [[cm pd n lc] lo] [m c [e1 e2 e3]] Hk. unfold nonneg_count, step_count in Hk. cbn [fm] in Hk.
  unfold fmicro_step, fmicro_step_with, step_count. cbn [fm fc fe].
  destruct m as [[w|ws| | |k]| |done].
  - left. cbn. repeat split; lia.
  - left. cbn. repeat split; lia.
  - left. cbn. rewrite app_nil_r. repeat split; lia.
  - unfold commit_f_with, code_commit_raises. cbn [ok1 cs last_ok fst snd].
    destruct e1; cbn.
    + right. repeat split; reflexivity.
    + left. rewrite app_nil_r. repeat split; lia.
  - unfold cond_commit_f_with, commit_f_with, code_commit_raises, fbind, upd.
    cbn -[Z.gtb Z.add Z.sub].
    destruct lazy; cbn -[Z.gtb Z.add Z.sub];
      repeat (match goal with |- context [if ?b then _ else _] => destruct b eqn:? end; cbn -[Z.gtb Z.add Z.sub]).
    all: try (right; repeat split; rewrite ?app_nil_r; reflexivity).
    all: left; rewrite ?app_nil_r; repeat split; try reflexivity; lia.
  - left. cbn. rewrite app_nil_r. repeat split; lia.
  - left. cbn. repeat split; lia.
Qed.

(* without any hypothesis: what is committed or pending is what was, plus what the step wrote *)
Lemma fstep_all : forall lazy fs x,
  let r := fst (fmicro_step lazy fs x) in
  (committed (cs r) = committed (cs fs) /\ pending (cs r) = pending (cs fs) ++ fwrites (fm x))
  \/ (fwrites (fm x) = [] /\ pending (cs r) = [] /\ committed (cs r) = committed (cs fs) ++ pending (cs fs)).
Proof.
  intros lazy [[cm pd n lc] lo] [m c [e1 e2 e3]].
  unfold fmicro_step, fmicro_step_with. cbn [fm fc fe].
  destruct m as [[w|ws| | |k]| |done].
  - left. cbn. split; reflexivity.
  - left. cbn. split; reflexivity.
  - left. cbn. rewrite app_nil_r. split; reflexivity.
  - unfold commit_f_with, code_commit_raises. cbn [ok1 cs last_ok fst snd].
    destruct e1; cbn.
    + right. repeat split; reflexivity.
    + left. rewrite app_nil_r. split; reflexivity.
  - unfold cond_commit_f_with, commit_f_with, code_commit_raises, fbind, upd.
    cbn -[Z.gtb Z.add Z.sub].
    destruct lazy; cbn -[Z.gtb Z.add Z.sub];
      repeat (match goal with |- context [if ?b then _ else _] => destruct b eqn:? end; cbn -[Z.gtb Z.add Z.sub]).
    all: try (right; repeat split; rewrite ?app_nil_r; reflexivity).
    all: left; rewrite ?app_nil_r; split; reflexivity.
  - left. cbn. rewrite app_nil_r. split; reflexivity.
  - left. cbn. split; reflexivity.
Qed.


(* ---- runs: everything issued is committed or pending, in issue order ---- *)

Lemma fwrites_all_app : forall a b, fwrites_all (a ++ b) = fwrites_all a ++ fwrites_all b.
Proof. intros. unfold fwrites_all. apply flat_map_app. Qed.

Lemma fwrites_all_cons : forall x tr, fwrites_all (x :: tr) = fwrites (fm x) ++ fwrites_all tr.
Proof. reflexivity. Qed.

Lemma frun_all : forall lazy tr fs,
  committed (cs (frun lazy fs tr)) ++ pending (cs (frun lazy fs tr))
  = committed (cs fs) ++ pending (cs fs) ++ fwrites_all tr.
Proof.
  intros lazy tr. induction tr as [|x tr IH]; intros fs.
  - cbn. rewrite app_nil_r. reflexivity.
  - rewrite frun_cons, IH, fwrites_all_cons.
    destruct (fstep_all lazy fs x) as [(H1 & H2)|(H0 & H1 & H2)].
    + rewrite H1, H2, <- !app_assoc. reflexivity.
    + rewrite H1, H2, H0. cbn [app]. rewrite <- app_assoc. reflexivity.
Qed.

Lemma frun_committed_ext : forall lazy tr fs,
  exists x, committed (cs (frun lazy fs tr)) = committed (cs fs) ++ x.
Proof.
  intros lazy tr. induction tr as [|x tr IH]; intros fs.
  - exists []. cbn. symmetry. apply app_nil_r.
  - rewrite frun_cons. destruct (IH (fst (fmicro_step lazy fs x))) as [y Hy].
    destruct (fstep_all lazy fs x) as [(H1 & _)|(_ & _ & H2)].
    + rewrite H1 in Hy. eauto.
    + rewrite H2 in Hy. exists (pending (cs fs) ++ y). rewrite Hy. apply app_assoc_reverse.
Qed.

Lemma frun_committed_all_or_nothing : forall lazy tr fs,
  committed (cs (frun lazy fs tr)) = committed (cs fs) \/
  exists x, committed (cs (frun lazy fs tr)) = committed (cs fs) ++ pending (cs fs) ++ x.
Proof.
  intros lazy tr. induction tr as [|x tr IH]; intros fs.
  - left. reflexivity.
  - rewrite frun_cons.
    destruct (fstep_all lazy fs x) as [(H1 & H2)|(_ & _ & H2)].
    + destruct (IH (fst (fmicro_step lazy fs x))) as [H|[y H]]; rewrite H, H1.
      * left. reflexivity.
      * right. rewrite H2. exists (fwrites (fm x) ++ y). rewrite <- !app_assoc. reflexivity.
    + right. destruct (frun_committed_ext lazy tr (fst (fmicro_step lazy fs x))) as [y Hy].
      rewrite Hy, H2. exists y. apply app_assoc_reverse.
Qed.

(* steps that take no commit decision (statements, reads, statements that raise) leave the
   committed part alone *)
Definition fno_commit (x : fin) : Prop := is_decision (fm x) = false.

Lemma frun_no_commit : forall lazy tr fs,
  Forall fno_commit tr -> committed (cs (frun lazy fs tr)) = committed (cs fs).
Proof.
  intros lazy tr. induction tr as [|x tr IH]; intros fs H; [reflexivity|].
  inversion H as [|? ? Hx Hr]; subst. rewrite frun_cons, IH by exact Hr.
  destruct x as [m c e]. unfold fno_commit in Hx. cbn [fm] in Hx.
  destruct m as [[w|ws| | |k]| |done]; try discriminate Hx; reflexivity.
Qed.

Lemma firstn_fwrites_prefix : forall k tr, prefix (fwrites_all (firstn k tr)) (fwrites_all tr).
Proof.
  intros k tr. exists (fwrites_all (skipn k tr)). rewrite <- fwrites_all_app, firstn_skipn. reflexivity.
Qed.

(* ---- C06f_prefix ---- *)

Lemma fcrash_prefix : forall lazy c0 t0 tr k,
  let s := cs (frun lazy (finit c0 t0) (firstn k tr)) in
  exists p,
    prefix p (fwrites_all tr) /\
    recover s = c0 ++ p /\
    p ++ pending s = fwrites_all (firstn k tr).
Proof.
  intros lazy c0 t0 tr k s.
  destruct (frun_committed_ext lazy (firstn k tr) (finit c0 t0)) as [p Hp].
  fold s in Hp. cbn [finit cs init committed] in Hp.
  pose proof (frun_all lazy (firstn k tr) (finit c0 t0)) as Hall. fold s in Hall.
  cbn [finit cs init committed pending app] in Hall. rewrite Hp in Hall.
  rewrite <- app_assoc in Hall. apply app_inv_head in Hall.
  exists p. split; [|split].
  - apply prefix_trans with (fwrites_all (firstn k tr)).
    + exists (pending s). exact Hall.
    + apply firstn_fwrites_prefix.
  - exact Hp.
  - exact Hall.
Qed.

(* ---- flags ---- *)

Lemma ntrue_app : forall a b, ntrue (a ++ b) = (ntrue a + ntrue b)%nat.
Proof. intros. unfold ntrue. rewrite filter_app, app_length. reflexivity. Qed.

Lemma nfalse_app : forall a b, nfalse (a ++ b) = (nfalse a + nfalse b)%nat.
Proof. intros. unfold nfalse. rewrite filter_app, app_length. reflexivity. Qed.

Lemma ntrue_repeat_false : forall n, ntrue (repeat false n) = 0%nat.
Proof. induction n; [reflexivity|exact IHn]. Qed.

Lemma ntrue_repeat_true : forall n, ntrue (repeat true n) = n.
Proof. induction n; [reflexivity|]. unfold ntrue in *. cbn. rewrite IHn. reflexivity. Qed.

Lemma ntrue_nfalse : forall l, (ntrue l + nfalse l = length l)%nat.
Proof.
  induction l as [|b l IH]; [reflexivity|]. unfold ntrue, nfalse in *. destruct b; cbn; lia.
Qed.

Lemma ntrue_skipn_all_le : forall l n, (ntrue (skipn n l) <= ntrue l)%nat.
Proof.
  intros l n. rewrite <- (firstn_skipn n l) at 2. rewrite ntrue_app. lia.
Qed.

Lemma ntrue_skipn_le : forall a l b, (a <= b)%nat -> (ntrue (skipn b l) <= ntrue (skipn a l))%nat.
Proof.
  induction a as [|a IH]; intros l b H.
  - cbn [skipn]. apply ntrue_skipn_all_le.
  - destruct b as [|b]; [lia|]. destruct l as [|h t]; [cbn; lia|].
    cbn [skipn]. apply IH. lia.
Qed.

(* the bookkeeping of the proof: the flags issued so far split into those of the committed
   writes and those of the pending ones; the acknowledged pending writes are counted and at
   most THRESHOLD *)
Definition Inv (c0 : list Z) (s : cstate) (fl : list bool) : Prop :=
  exists fC fP, fl = fC ++ fP /\
    length (committed s) = (length c0 + length fC)%nat /\
    length fP = length (pending s) /\
    Z.of_nat (ntrue fP) <= n_unc s /\ (ntrue fP <= 50)%nat.

Lemma Inv_missing : forall c0 s fl, Inv c0 s fl ->
  Z.of_nat (missing_acked c0 s fl) <= n_unc s /\ (missing_acked c0 s fl <= 50)%nat /\
  length (pending s) = (missing_acked c0 s fl + missing_raised c0 s fl)%nat /\
  (length (committed s) + length (pending s) = length c0 + length fl)%nat.
Proof.
  intros c0 s fl (fC & fP & -> & Hc & Hp & Hn & H50).
  unfold missing_acked, missing_raised, missing_flags. rewrite Hc.
  replace (length c0 + length fC - length c0)%nat with (length fC) by lia.
  rewrite skipn_app, skipn_all, Nat.sub_diag. cbn [app skipn].
  repeat split; try assumption.
  - rewrite <- Hp. symmetry. apply ntrue_nfalse.
  - rewrite app_length. lia.
Qed.

Lemma Inv_init : forall c0 t0, Inv c0 (cs (finit c0 t0)) [].
Proof. intros. exists [], []. cbn. repeat split; lia. Qed.

(* any step, its writes flagged false (they belong to a call that raised) *)
Lemma Inv_step_false : forall lazy c0 fs x fl, nonneg_count x ->
  Inv c0 (cs fs) fl ->
  Inv c0 (cs (fst (fmicro_step lazy fs x))) (fl ++ repeat false (length (fwrites (fm x)))).
Proof.
  intros lazy c0 fs x fl Hk (fC & fP & -> & Hc & Hp & Hn & H50).
  destruct (fstep_shape lazy fs x Hk) as [(H1 & H2 & H3 & _)|(H0 & H1 & H2 & H3)].
  - exists fC, (fP ++ repeat false (length (fwrites (fm x)))).
    rewrite H1, H2, ntrue_app, ntrue_repeat_false, !app_length, repeat_length.
    repeat split; try lia. apply app_assoc_reverse.
  - exists (fC ++ fP), []. rewrite H0, H1, H2, H3. cbn [length repeat]. rewrite app_nil_r, !app_length.
    repeat split; try lia; cbn; lia.
Qed.

Lemma repeat_app_len : forall (b : bool) n m, repeat b (n + m) = repeat b n ++ repeat b m.
Proof. intros. apply repeat_app. Qed.

Lemma Inv_run_false : forall lazy c0 tr fs fl, nonneg_counts tr ->
  Inv c0 (cs fs) fl ->
  Inv c0 (cs (frun lazy fs tr)) (fl ++ repeat false (length (fwrites_all tr))).
Proof.
  intros lazy c0 tr. induction tr as [|x tr IH]; intros fs fl Hk HI.
  - cbn. rewrite app_nil_r. exact HI.
  - inversion Hk as [|? ? Hx Hr]; subst.
    rewrite frun_cons, fwrites_all_cons, app_length, repeat_app, app_assoc.
    apply IH; [exact Hr|]. apply Inv_step_false; assumption.
Qed.


(* ---- a call that returned normally is a run of Model/Commit.v ---- *)

(* the steps of a trace that are micro-steps of Model/Commit.v, with their clock readings *)
Definition strip (tr : list fin) : list (micro * clk) :=
  flat_map (fun x => match fm x with Step m => [(m, fc x)] | _ => [] end) tr.

Lemma strip_steps : forall tr ms, map fm tr = map Step ms -> map fst (strip tr) = ms.
Proof.
  induction tr as [|x tr IH]; intros [|m ms] H; try discriminate; [reflexivity|].
  cbn in H. inversion H as [[Hx Hr]]. unfold strip. cbn [flat_map]. rewrite Hx. cbn. f_equal.
  apply IH. exact Hr.
Qed.

Lemma strip_twrites : forall tr ms, map fm tr = map Step ms -> twrites (strip tr) = fwrites_all tr.
Proof.
  induction tr as [|x tr IH]; intros [|m ms] H; try discriminate; [reflexivity|].
  cbn in H. inversion H as [[Hx Hr]]. rewrite fwrites_all_cons, Hx.
  unfold strip. cbn [flat_map]. rewrite Hx. cbn [app]. fold (strip tr).
  change ((m, fc x) :: strip tr) with ([(m, fc x)] ++ strip tr). rewrite twrites_app, (IH ms Hr).
  unfold twrites. cbn. rewrite app_nil_r. reflexivity.
Qed.

Lemma returned_step_is_micro_step : forall lazy fs m c e,
  snd (fmicro_step lazy fs (mkIn (Step m) c e)) = false ->
  cs (fst (fmicro_step lazy fs (mkIn (Step m) c e))) = micro_step lazy (cs fs) (m, c).
Proof.
  intros lazy [[cm pd n lc] lo] m c [e1 e2 e3].
  unfold fmicro_step, fmicro_step_with, micro_step. cbn [fm fc fe fst snd].
  destruct m as [w|ws| | |k]; try reflexivity.
  - unfold commit_f_with, code_commit_raises. cbn [ok1 cs last_ok fst snd].
    destruct e1; cbn; [reflexivity|discriminate].
  - unfold cond_commit_f_with, cond_commit, commit_f_with, code_commit_raises, fbind, upd.
    cbn -[Z.gtb Z.add Z.sub do_commit].
    destruct lazy; cbn -[Z.gtb Z.add Z.sub do_commit].
    + destruct (n + k >? THRESHOLD) eqn:EA; cbn -[Z.gtb Z.add Z.sub do_commit].
      * destruct e1; cbn -[Z.gtb Z.add Z.sub do_commit]; [|discriminate].
        change (last_commit (do_commit (r1 c) (set_n (mkC cm pd n lc) (n + k)))) with (r1 c).
        destruct (r2 c - r1 c >? MAX_AGE); cbn -[Z.gtb Z.add Z.sub do_commit]; [|reflexivity].
        destruct e3; cbn -[Z.gtb Z.add Z.sub do_commit]; [reflexivity|discriminate].
      * destruct (r2 c - lc >? MAX_AGE); cbn -[Z.gtb Z.add Z.sub do_commit]; [|reflexivity].
        destruct e3; cbn -[Z.gtb Z.add Z.sub do_commit]; [reflexivity|discriminate].
    + destruct e1; cbn -[Z.gtb Z.add Z.sub do_commit]; [reflexivity|discriminate].
Qed.

Lemma returned_run : forall lazy tr ms fs,
  map fm tr = map Step ms -> returned lazy fs tr ->
  cs (frun lazy fs tr) = run lazy (cs fs) (strip tr).
Proof.
  intros lazy tr. induction tr as [|x tr IH]; intros [|m ms] fs H Hret; try discriminate; [reflexivity|].
  cbn in H. inversion H as [[Hx Hr]].
  unfold returned in Hret. cbn [returned_with] in Hret. destruct Hret as [H1 H2].
  rewrite frun_cons. unfold strip. cbn [flat_map]. rewrite Hx. cbn [app]. fold (strip tr).
  rewrite run_cons. destruct x as [mx c e]. cbn [fm fc] in *. subst mx.
  rewrite <- (returned_step_is_micro_step lazy fs m c e H1).
  apply (IH ms); assumption.
Qed.

(* ---- the flags of a call that returned normally ---- *)

Lemma Inv_commit : forall c0 t s fl, Inv c0 s fl -> Inv c0 (do_commit t s) fl.
Proof.
  intros c0 t s fl (fC & fP & -> & Hc & Hp & Hn & H50).
  exists (fC ++ fP), []. cbn. rewrite app_nil_r, !app_length. repeat split; lia.
Qed.

Lemma Inv_block : forall lazy c0 s fl ws k c,
  Inv c0 s fl -> Z.of_nat (length ws) <= k ->
  Inv c0 (cond_commit lazy k c (add_pending s ws)) (fl ++ repeat true (length ws)).
Proof.
  intros lazy c0 s fl ws k c (fC & fP & -> & Hc & Hp & Hn & H50) Hk.
  destruct (cond_commit_cases lazy k c (add_pending s ws)) as [(_ & -> & H1 & _)|(Hpe & Hco & Hn' & _)].
  - exists fC, (fP ++ repeat true (length ws)). cbn in *.
    rewrite ntrue_app, ntrue_repeat_true, !app_length, repeat_length. unfold THRESHOLD in H1.
    repeat split; try lia. apply app_assoc_reverse.
  - exists ((fC ++ fP) ++ repeat true (length ws)), [].
    rewrite Hpe, Hco, Hn'. cbn [add_pending committed pending]. rewrite app_nil_r, !app_length, repeat_length.
    repeat split; try lia; cbn; lia.
Qed.

Lemma qscript_Inv : forall ms, qscript ms ->
  forall lazy c0 tr s fl, map fst tr = ms -> Inv c0 s fl ->
  Inv c0 (run lazy s tr) (fl ++ repeat true (length (twrites tr))).
Proof.
  induction 1 as [|ms Hq IH|ms Hq IH|pre k ms Hpre Hk Hq IH|w ms Hq IH|w1 w2 ms Hq IH];
    intros lazy c0 tr s fl Htr Hs.
  - destruct tr; [|discriminate]. cbn. rewrite app_nil_r. exact Hs.
  - apply map_fst_cons in Htr. destruct Htr as (c & tr' & -> & Htr).
    rewrite run_cons. change (twrites ((Read, c) :: tr')) with (twrites tr').
    apply IH; assumption.
  - apply map_fst_cons in Htr. destruct Htr as (c & tr' & -> & Htr).
    rewrite run_cons. change (twrites ((Commit, c) :: tr')) with (twrites tr').
    apply IH; [assumption|]. apply Inv_commit. exact Hs.
  - apply map_fst_block in Htr. destruct Htr as (tpre & c & tr' & -> & Hmpre & Htr).
    rewrite run_app, run_cons, twrites_app.
    change (twrites ((CondCommit k, c) :: tr')) with (twrites tr').
    rewrite app_length, repeat_app, app_assoc.
    apply IH; [assumption|].
    rewrite run_writes by (rewrite Hmpre; exact Hpre).
    unfold micro_step. cbn [fst snd]. apply Inv_block; [assumption|].
    unfold twrites. rewrite Hmpre. exact Hk.
  - apply map_fst_cons in Htr. destruct Htr as (c1 & tr1 & -> & Htr).
    apply map_fst_cons in Htr. destruct Htr as (c2 & tr2 & -> & Htr).
    rewrite !run_cons.
    change (twrites ((Exec w, c1) :: (Commit, c2) :: tr2)) with (w :: twrites tr2).
    cbn [length repeat]. change (true :: repeat true (length (twrites tr2))) with ([true] ++ repeat true (length (twrites tr2))).
    rewrite app_assoc. apply IH; [assumption|].
    unfold micro_step at 1. cbn [fst snd].
    destruct Hs as (fC & fP & -> & Hc & Hp & Hn & H50).
    exists ((fC ++ fP) ++ [true]), []. cbn. rewrite app_nil_r, !app_length. cbn. repeat split; lia.
  - apply map_fst_cons in Htr. destruct Htr as (c1 & tr1 & -> & Htr).
    apply map_fst_cons in Htr. destruct Htr as (c2 & tr2 & -> & Htr).
    apply map_fst_cons in Htr. destruct Htr as (c3 & tr3 & -> & Htr).
    rewrite !run_cons.
    change (twrites ((Exec w1, c1) :: (Exec w2, c2) :: (Commit, c3) :: tr3)) with (w1 :: w2 :: twrites tr3).
    cbn [length repeat].
    change (true :: true :: repeat true (length (twrites tr3))) with ([true; true] ++ repeat true (length (twrites tr3))).
    rewrite app_assoc. apply IH; [assumption|].
    unfold micro_step at 1. cbn [fst snd].
    destruct Hs as (fC & fP & -> & Hc & Hp & Hn & H50).
    exists ((fC ++ fP) ++ [true; true]), []. cbn. rewrite app_nil_r, !app_length. cbn. repeat split; lia.
Qed.

Lemma Inv_call_returned : forall lazy c0 fs tro o fl,
  map fm tro = map Step (expand o) -> returned lazy fs tro ->
  Inv c0 (cs fs) fl ->
  Inv c0 (cs (frun lazy fs tro)) (fl ++ repeat true (length (fwrites_all tro))).
Proof.
  intros lazy c0 fs tro o fl Hs Hret HI.
  rewrite (returned_run lazy tro (expand o) fs Hs Hret), <- (strip_twrites tro (expand o) Hs).
  apply (qscript_Inv (expand o) (qscript_expand o)); [apply strip_steps; exact Hs|exact HI].
Qed.

Lemma returnedb_spec : forall lazy tr fs, returnedb lazy fs tr = true <-> returned lazy fs tr.
Proof.
  intros lazy tr. induction tr as [|x tr IH]; intros fs.
  - cbn. tauto.
  - unfold returnedb, returned in *. cbn [returnedb_with returned_with].
    rewrite Bool.andb_true_iff, Bool.negb_true_iff, IH. tauto.
Qed.

Lemma Inv_call : forall lazy c0 fs tro fl,
  call_ok lazy fs tro -> Inv c0 (cs fs) fl ->
  Inv c0 (cs (frun lazy fs tro)) (fl ++ repeat (returnedb lazy fs tro) (length (fwrites_all tro))).
Proof.
  intros lazy c0 fs tro fl [Hfull Hk] HI.
  destruct (returnedb lazy fs tro) eqn:E.
  - apply returnedb_spec in E. destruct (Hfull E) as [o Ho].
    eapply Inv_call_returned; eassumption.
  - apply Inv_run_false; assumption.
Qed.

Lemma frun_concat_cons : forall lazy fs tro rest,
  frun lazy fs (concat (tro :: rest)) = frun lazy (frun lazy fs tro) (concat rest).
Proof. intros. cbn [concat]. apply frun_app. Qed.

Lemma Inv_calls : forall lazy c0 calls fs fl,
  calls_ok lazy fs calls -> Inv c0 (cs fs) fl ->
  Inv c0 (cs (frun lazy fs (concat calls))) (fl ++ ack_flags lazy fs calls).
Proof.
  intros lazy c0 calls. induction calls as [|tro rest IH]; intros fs fl Hok HI.
  - cbn. rewrite app_nil_r. exact HI.
  - destruct Hok as [H1 H2]. rewrite frun_concat_cons.
    unfold ack_flags. cbn [ack_flags_with]. rewrite app_assoc.
    apply IH; [exact H2|]. apply Inv_call; assumption.
Qed.

(* ---- bounded loss of acknowledged writes ---- *)

Lemma fbounded_loss : forall lazy c0 t0 calls,
  calls_ok lazy (finit c0 t0) calls ->
  let fl := ack_flags lazy (finit c0 t0) calls in
  let s := cs (frun lazy (finit c0 t0) (concat calls)) in
  (missing_acked c0 s fl <= 50)%nat /\
  Z.of_nat (missing_acked c0 s fl) <= n_unc s /\
  length (pending s) = (missing_acked c0 s fl + missing_raised c0 s fl)%nat /\
  length fl = length (fwrites_all (concat calls)).
Proof.
  intros lazy c0 t0 calls Hok fl s.
  pose proof (Inv_calls lazy c0 calls (finit c0 t0) [] Hok (Inv_init c0 t0)) as HI.
  cbn [app] in HI. fold fl s in HI.
  destruct (Inv_missing c0 s fl HI) as (H1 & H2 & H3 & H4).
  repeat split; try assumption.
  pose proof (frun_all lazy (concat calls) (finit c0 t0)) as Hall. fold s in Hall.
  cbn [finit cs init committed pending app] in Hall.
  apply (f_equal (@length Z)) in Hall. rewrite !app_length in Hall. lia.
Qed.

(* a crash inside a later call, after ANY of its steps: the committed part only grows *)
Lemma fbounded_loss_in_flight : forall lazy c0 t0 calls tro,
  calls_ok lazy (finit c0 t0) calls ->
  let fl := ack_flags lazy (finit c0 t0) calls in
  let s := cs (frun lazy (finit c0 t0) (concat calls ++ tro)) in
  (missing_acked c0 s fl <= 50)%nat.
Proof.
  intros lazy c0 t0 calls tro Hok fl s.
  destruct (fbounded_loss lazy c0 t0 calls Hok) as (H1 & _). fold fl in H1.
  unfold s. rewrite frun_app.
  destruct (frun_committed_ext lazy tro (frun lazy (finit c0 t0) (concat calls))) as [x Hx].
  unfold missing_acked, missing_flags in *. rewrite Hx, app_length.
  eapply Nat.le_trans; [|exact H1]. apply ntrue_skipn_le. lia.
Qed.


(* ---- the shapes the storage methods give a call meet [call_ok] ---- *)

Definition nonneg_micro (m : micro) : Prop := match m with CondCommit k => 0 <= k | _ => True end.
Definition nonneg_fmicro (m : fmicro) : Prop := match m with Step m => nonneg_micro m | _ => True end.

Lemma nonneg_upserts : forall ups, Forall nonneg_micro (flat_map script__replace ups).
Proof. induction ups as [|u ups IH]; cbn; constructor; [exact I|exact IH]. Qed.

Lemma nonneg_expand : forall o, Forall nonneg_micro (expand o).
Proof.
  destruct o; cbn [expand script_replace script__replace script_get_metadata app];
    repeat (first [apply Forall_nil | apply Forall_cons; [cbn; lia|]]).
  - apply Forall_app. split; [apply nonneg_upserts|]. repeat (apply Forall_cons; [cbn; lia|]). constructor.
  - destruct limit0; repeat (first [apply Forall_nil | apply Forall_cons; [cbn; lia|]]).
  - apply Forall_app. split; [apply nonneg_upserts|]. repeat (apply Forall_cons; [cbn; lia|]). constructor.
Qed.

Lemma nonneg_finally : forall o, Forall nonneg_micro (finally_of o).
Proof. destruct o; cbn; repeat (first [apply Forall_nil | apply Forall_cons; [cbn; lia|]]). Qed.

Lemma nonneg_map_step : forall ms, Forall nonneg_micro ms -> Forall nonneg_fmicro (map Step ms).
Proof. induction 1; cbn; constructor; assumption. Qed.

Lemma nonneg_fault_walk : forall fin_ ms at_commit p r,
  Forall nonneg_micro fin_ -> Forall nonneg_micro ms ->
  fault_walk fin_ ms at_commit p = Some r -> Forall nonneg_fmicro r.
Proof.
  intros fin_ ms. induction ms as [|m ms IH]; intros at_commit p r Hf Hm H; [discriminate|].
  inversion Hm as [|? ? Hm1 Hm2]; subst.
  assert (Hfin : Forall nonneg_fmicro (map Step fin_)) by (apply nonneg_map_step; exact Hf).
  cbn [fault_walk] in H. destruct p as [|p].
  - destruct at_commit.
    + destruct m as [w|ws| | |k]; try discriminate.
      * destruct ws; [|discriminate].
        destruct (fault_walk fin_ ms true 0) eqn:E; [|discriminate]. inversion H; subst.
        constructor; [exact I|]. eapply IH; eassumption.
      * inversion H; subst. repeat constructor.
      * inversion H; subst. constructor; [exact Hm1|constructor].
    + destruct m as [w|ws| | |k]; try discriminate; inversion H; subst; constructor; try exact I; exact Hfin.
  - destruct m as [w|ws| | |k].
    2: { destruct (S p <? length ws)%nat.
         - destruct at_commit; [discriminate|]. inversion H; subst. constructor; [exact I|exact Hfin].
         - destruct (fault_walk fin_ ms at_commit (S p - length ws)) eqn:E; [|discriminate].
           inversion H; subst. constructor; [exact I|]. eapply IH; eassumption. }
    all: destruct (fault_walk fin_ ms at_commit (S p - 1)) eqn:E; [|discriminate];
         inversion H; subst; (constructor; [first [exact I|exact Hm1]|]); eapply IH; eassumption.
Qed.

Lemma Forall_firstn : forall A (P : A -> Prop) n l, Forall P l -> Forall P (firstn n l).
Proof.
  intros A P n l H. rewrite <- (firstn_skipn n l) in H. apply Forall_app in H. tauto.
Qed.

Lemma nonneg_fault_script : forall o f ms, fault_script o f = Some ms -> Forall nonneg_fmicro ms.
Proof.
  intros o [p|p] ms H; unfold fault_script in H.
  - eapply nonneg_fault_walk; [constructor|apply nonneg_expand|exact H].
  - eapply nonneg_fault_walk; [apply nonneg_finally| |exact H].
    apply Forall_firstn, nonneg_expand.
Qed.

Lemma nonneg_counts_of_fm : forall tro, Forall nonneg_fmicro (map fm tro) -> nonneg_counts tro.
Proof.
  induction tro as [|x tro IH]; intros H; [constructor|].
  cbn in H. inversion H as [|? ? H1 H2]; subst. constructor; [|apply IH; exact H2].
  unfold nonneg_count, step_count. destruct (fm x) as [[w|ws| | |k]| |done]; cbn in H1; lia.
Qed.

Lemma call_shape_ok : forall lazy fs tro, call_shape lazy fs tro -> call_ok lazy fs tro.
Proof.
  intros lazy fs tro [o Ho|o f ms Hf Hms Hnr]; split.
  - intros _. exists o. exact Ho.
  - apply nonneg_counts_of_fm. rewrite Ho. apply nonneg_map_step, nonneg_expand.
  - intros Hr. contradiction.
  - apply nonneg_counts_of_fm. rewrite Hms. eapply nonneg_fault_script. exact Hf.
Qed.

Lemma calls_shaped_ok : forall lazy calls fs, calls_shaped lazy fs calls -> calls_ok lazy fs calls.
Proof.
  intros lazy calls. induction calls as [|tro rest IH]; intros fs H; [exact I|].
  destruct H as [H1 H2]. split; [apply call_shape_ok; exact H1|apply IH; exact H2].
Qed.

Lemma fbounded_loss_shaped : forall lazy c0 t0 calls tro,
  calls_shaped lazy (finit c0 t0) calls ->
  let fl := ack_flags lazy (finit c0 t0) calls in
  let s := cs (frun lazy (finit c0 t0) (concat calls ++ tro)) in
  (missing_acked c0 s fl <= 50)%nat.
Proof. intros. apply fbounded_loss_in_flight, calls_shaped_ok. assumption. Qed.

(* ---- bucket operations that return normally are durable ---- *)

Lemma fbucket_ops_durable : forall lazy fs o tro,
  bucket_op o -> map fm tro = map Step (expand o) -> returned lazy fs tro ->
  pending (cs (frun lazy fs tro)) = [] /\
  recover (cs (frun lazy fs tro)) = committed (cs fs) ++ pending (cs fs) ++ writes_of (expand o).
Proof.
  intros lazy fs o tro Hb Hs Hret.
  rewrite (returned_run lazy tro (expand o) fs Hs Hret).
  apply bucket_ops_durable; [exact Hb|apply strip_steps; exact Hs].
Qed.

(* the auto-committing store: a write or bucket call that returned normally leaves nothing
   pending, whatever earlier calls that raised left behind *)
Lemma feager_returned_durable : forall fs o tro,
  event_write_op o \/ bucket_op o ->
  map fm tro = map Step (expand o) -> returned false fs tro ->
  pending (cs (frun false fs tro)) = [].
Proof.
  intros fs o tro [Ho|Ho] Hs Hret.
  - rewrite (returned_run false tro (expand o) fs Hs Hret).
    pose proof (strip_steps tro (expand o) Hs) as Hst.
    destruct (event_write_split o Ho) as (pre & k & E & Hpre). rewrite E in Hst.
    apply map_fst_block in Hst. destruct Hst as (tpre & c & tr' & Ht & Hmpre & Hnil).
    apply map_eq_nil in Hnil. subst tr'. rewrite Ht, run_app. reflexivity.
  - apply (fbucket_ops_durable false fs o tro Ho Hs Hret).
Qed.

(* ---- a failed flush is retried by the next write ---- *)

Lemma count_fires_block : forall lazy fs tpre x k,
  Forall is_fwrite tpre -> fm x = Step (CondCommit k) -> 0 <= k ->
  n_unc (cs fs) > THRESHOLD ->
  returned lazy fs (tpre ++ [x]) ->
  pending (cs (frun lazy fs (tpre ++ [x]))) = [].
Proof.
  intros lazy fs tpre x k Hw Hx Hk Hn Hret.
  assert (Hs : map fm (tpre ++ [x]) = map Step (map (fun y => match fm y with Step m => m | _ => Read end) tpre ++ [CondCommit k])).
  { rewrite !map_app. cbn [map]. rewrite Hx. f_equal.
    clear -Hw. induction Hw as [|y l Hy Hl IH]; [reflexivity|]. cbn [map]. rewrite IH. f_equal.
    unfold is_fwrite in Hy. destruct (fm y) as [[w|ws| | |k']| |done]; try contradiction; reflexivity. }
  rewrite (returned_run lazy _ _ fs Hs Hret).
  unfold strip. rewrite flat_map_app. cbn [flat_map]. rewrite Hx. cbn [app]. fold (strip tpre).
  rewrite run_app.
  assert (Hpre : Forall is_write (map fst (strip tpre))).
  { clear -Hw. induction Hw as [|y l Hy Hl IH]; [constructor|].
    unfold strip. cbn [flat_map]. fold (strip l). unfold is_fwrite in Hy.
    destruct (fm y) as [[w|ws| | |k']| |done]; try contradiction; cbn; constructor; try exact I; exact IH. }
  rewrite (run_writes lazy (strip tpre) (cs fs) Hpre).
  cbn [run fold_left]. unfold micro_step. cbn [fst snd].
  destruct lazy.
  - apply cond_commit_lazy_fires. left. cbn. lia.
  - reflexivity.
Qed.

Lemma ffailed_flush_retried : forall lazy fs o tro,
  event_write_op o -> map fm tro = map Step (expand o) ->
  n_unc (cs fs) > THRESHOLD -> returned lazy fs tro ->
  pending (cs (frun lazy fs tro)) = [].
Proof.
  intros lazy fs o tro Ho Htro Hn Hret.
  destruct (event_write_split o Ho) as (pre & k & E & Hpre).
  assert (Hk : 0 <= k).
  { pose proof (nonneg_expand o) as Hnn. rewrite E in Hnn. apply Forall_app in Hnn.
    destruct Hnn as [_ Hnn]. inversion Hnn; subst. assumption. }
  rewrite E, map_app in Htro.
  apply map_eq_app in Htro. destruct Htro as (tpre & tl & -> & Hmpre & Htl).
  destruct tl as [|x [|y tl]]; try discriminate. cbn in Htl. inversion Htl as [Hx].
  eapply count_fires_block; try eassumption.
  eapply fwrites_of_steps; eassumption.
Qed.

(* ---- the counter ---- *)

Lemma sum_counts_cons : forall x tr, sum_counts (x :: tr) = step_count x + sum_counts tr.
Proof. reflexivity. Qed.

Lemma sum_counts_nonneg : forall tr, nonneg_counts tr -> 0 <= sum_counts tr.
Proof.
  induction 1 as [|y l Hy Hl IHl]; [cbn; lia|]. rewrite sum_counts_cons. unfold nonneg_count in Hy. lia.
Qed.

Lemma fcounter_growth : forall lazy tr fs, nonneg_counts tr ->
  n_unc (cs (frun lazy fs tr)) <= Z.max 0 (n_unc (cs fs)) + sum_counts tr.
Proof.
  intros lazy tr. induction tr as [|x tr IH]; intros fs Hk.
  - cbn. lia.
  - inversion Hk as [|? ? Hx Hr]; subst. rewrite frun_cons.
    specialize (IH (fst (fmicro_step lazy fs x)) Hr).
    pose proof (sum_counts_nonneg tr Hr) as Hs.
    rewrite sum_counts_cons.
    destruct (fstep_shape lazy fs x Hx) as [(_ & _ & _ & H4)|(_ & _ & _ & H3)];
      unfold nonneg_count in Hx; lia.
Qed.

(* a call with a commit decision that returned normally leaves the counter within the threshold *)
Lemma fcounter_after_return : forall lazy fs o tro,
  event_write_op o \/ bucket_op o ->
  map fm tro = map Step (expand o) -> returned lazy fs tro ->
  n_unc (cs (frun lazy fs tro)) <= THRESHOLD.
Proof.
  intros lazy fs o tro Ho Hs Hret.
  rewrite (returned_run lazy tro (expand o) fs Hs Hret).
  pose proof (strip_steps tro (expand o) Hs) as Hst.
  destruct Ho as [Ho|Ho].
  - destruct (event_write_split o Ho) as (pre & k & E & Hpre). rewrite E in Hst.
    apply map_fst_block in Hst. destruct Hst as (tpre & c & tr' & Ht & Hmpre & Hnil).
    apply map_eq_nil in Hnil. subst tr'. rewrite Ht, run_app.
    cbn [run fold_left]. unfold micro_step. cbn [fst snd].
    destruct (cond_commit_cases lazy k c (run lazy (cs fs) tpre)) as [(_ & -> & H1 & _)|(_ & _ & -> & _)].
    + cbn. exact H1.
    + unfold THRESHOLD. lia.
  - destruct o; cbn in Ho; try contradiction; cbn [expand script_get_metadata app] in Hst;
      repeat (apply map_fst_cons in Hst; destruct Hst as (? & ? & -> & Hst));
      apply map_eq_nil in Hst; subst; cbn; unfold THRESHOLD; lia.
Qed.

(* ---- a single-event or bucket-level call all of whose statements ran is never split ---- *)

Lemma frun_firstn_committed_le : forall lazy fs tr k,
  (length (committed (cs (frun lazy fs (firstn k tr))))
   <= length (committed (cs fs) ++ pending (cs fs) ++ fwrites_all tr))%nat.
Proof.
  intros lazy fs tr k.
  pose proof (frun_all lazy (firstn k tr) fs) as H. apply (f_equal (@length Z)) in H.
  destruct (firstn_fwrites_prefix k tr) as [q Hq]. apply (f_equal (@length Z)) in Hq.
  rewrite !app_length in *. lia.
Qed.

Lemma map_step_app : forall tro a b, map fm tro = map Step (a ++ b) ->
  exists ta tb, tro = ta ++ tb /\ map fm ta = map Step a /\ map fm tb = map Step b.
Proof.
  intros tro a b H. rewrite map_app in H. apply map_eq_app in H.
  destruct H as (ta & tb & -> & Ha & Hb). eauto.
Qed.

Lemma steps_no_commit : forall ta pre, map fm ta = map Step pre -> Forall no_commit pre -> Forall fno_commit ta.
Proof.
  induction ta as [|x ta IH]; intros [|m pre] H Hp; try discriminate; [constructor|].
  cbn in H. inversion H as [[Hx Hr]]. inversion Hp as [|? ? Hm Hpre]; subst.
  constructor; [|eapply IH; eassumption].
  unfold fno_commit. rewrite Hx. destruct m; cbn in Hm; try contradiction; reflexivity.
Qed.

Lemma steps_fwrites : forall ta pre, map fm ta = map Step pre -> fwrites_all ta = writes_of pre.
Proof.
  induction ta as [|x ta IH]; intros [|m pre] H; try discriminate; [reflexivity|].
  cbn in H. inversion H as [[Hx Hr]]. rewrite fwrites_all_cons, Hx, (IH pre Hr). reflexivity.
Qed.

Lemma fsingle_op_atomic : forall lazy c0 t0 tr1 tro tr2 o k,
  atomic_op o -> map fm tro = map Step (expand o) ->
  let s := cs (frun lazy (finit c0 t0) (firstn k (tr1 ++ tro ++ tr2))) in
  (length (recover s) <= length c0 + length (fwrites_all tr1))%nat \/
  (length c0 + length (fwrites_all tr1) + length (writes_of (expand o)) <= length (recover s))%nat.
Proof.
  intros lazy c0 t0 tr1 tro tr2 o k Ha Htro s. unfold recover.
  destruct (atomic_split o Ha) as (pre & post & Hex & Hpre & Hpost).
  rewrite Hex in Htro. apply map_step_app in Htro. destruct Htro as (tpre & tpost & -> & Hmpre & Hmpost).
  assert (Hw : writes_of (expand o) = fwrites_all tpre).
  { rewrite Hex, writes_of_app, Hpost, app_nil_r. symmetry. apply steps_fwrites. exact Hmpre. }
  rewrite Hw.
  pose proof (steps_no_commit tpre pre Hmpre Hpre) as Hnc.
  destruct (firstn_app_cases _ tr1 ((tpre ++ tpost) ++ tr2) k) as [E|[k1 E]]; unfold s; rewrite E.
  - left. pose proof (frun_firstn_committed_le lazy (finit c0 t0) tr1 k) as H.
    cbn [finit cs init committed pending app] in H. rewrite app_length in H. exact H.
  - rewrite frun_app. set (s1 := frun lazy (finit c0 t0) tr1).
    assert (H1 : committed (cs s1) ++ pending (cs s1) = c0 ++ fwrites_all tr1).
    { unfold s1. rewrite frun_all. reflexivity. }
    apply (f_equal (@length Z)) in H1. rewrite !app_length in H1.
    rewrite <- app_assoc.
    destruct (firstn_app_cases _ tpre (tpost ++ tr2) k1) as [E1|[k2 E1]]; rewrite E1.
    + left. rewrite frun_no_commit; [lia|]. apply Forall_firstn. exact Hnc.
    + rewrite frun_app. set (s2 := frun lazy s1 tpre).
      assert (Hc2 : committed (cs s2) = committed (cs s1)) by (apply frun_no_commit; exact Hnc).
      assert (H2 : committed (cs s2) ++ pending (cs s2) = committed (cs s1) ++ pending (cs s1) ++ fwrites_all tpre)
        by (unfold s2; apply frun_all).
      apply (f_equal (@length Z)) in H2. rewrite !app_length in H2.
      destruct (frun_committed_all_or_nothing lazy (firstn k2 (tpost ++ tr2)) s2) as [H|[x H]]; rewrite H.
      * left. rewrite Hc2. lia.
      * right. rewrite !app_length. lia.
Qed.

(* a single-event call in which the engine raises once has issued its one write or none *)
Lemma fsingle_event_fault_all_or_none : forall o f ms,
  single_event_op o -> fault_script o f = Some ms ->
  flat_map fwrites ms = [] \/ flat_map fwrites ms = writes_of (expand o).
Proof.
  intros o f ms Ho H.
  destruct o; cbn in Ho; try contradiction;
    destruct f as [p|p]; destruct p as [|[|[|p]]]; cbn in H; try discriminate;
    inversion H; subst; cbn; auto.
Qed.

(* ---- histories for the examples of Props/C06fault.v ---- *)

Definition at_ (t : Z) : clk := mkClk t t t.
(* insert_one of token i at t ms; [e] = the engine's answers during its conditional_commit *)
Definition ins (e : eng) (i : Z) : list fin :=
  [mkIn (Step (Exec i)) (at_ (1000 * i)) all_ok; mkIn (Step (CondCommit 1)) (at_ (1000 * i)) e].
Definition commit_raises : eng := mkEng false true false.
Definition burst (e : eng) (a n : nat) : list (list fin) := map (fun i => ins e (Z.of_nat i)) (seq a n).

Lemma ins_shaped : forall e i, map fm (ins e i) = map Step (expand (InsertOne i)).
Proof. reflexivity. Qed.

Lemma burst_ok : forall e n a fs, calls_ok true fs (burst e a n).
Proof.
  intros e n. induction n as [|n IH]; intros a fs; [exact I|].
  cbn [burst seq map]. split; [|apply IH].
  split; [intros _; eexists; apply ins_shaped|].
  repeat constructor; unfold nonneg_count, step_count; cbn; discriminate.
Qed.

Lemma calls_ok_app : forall lazy a b fs,
  calls_ok lazy fs a -> calls_ok lazy (frun lazy fs (concat a)) b -> calls_ok lazy fs (a ++ b).
Proof.
  intros lazy a. induction a as [|tro a IH]; intros b fs Ha Hb; [exact Hb|].
  destruct Ha as [H1 H2]. split; [exact H1|]. apply IH; [exact H2|].
  cbn [concat] in Hb. rewrite frun_app in Hb. exact Hb.
Qed.
