(* Facts about the I/O script of load_config_toml (Model/Config.v, load_config). *)
From AwVerif Require Import Base.Prelude Model.Config.

Definition is_write {text} (e : io_event text) : bool :=
  match e with EvWrite _ => true | _ => false end.

Definition writes {text} (tr : list (io_event text)) : list (io_event text) := filter is_write tr.

Section IO.
  Context {text : Type}.
  Variable parse : text -> res table.
  Variable comment : text -> text.

  (* An existing file is only read: same content afterwards, no write operation at all,
     whatever the defaults and the file contain (valid TOML or not). *)
  Lemma load_existing_untouched : forall default user,
    let r := load_config parse comment default (Some user) in
    lr_file r = Some user /\ writes (lr_trace r) = [].
  Proof.
    intros default user. cbv [load_config].
    destruct (parse default); [destruct (parse user)| |]; cbn; split; reflexivity.
  Qed.

  (* With an existing file and two valid documents the value is _merge(defaults, user). *)
  Lemma load_existing_value : forall default user d u,
    parse default = Ok d -> parse user = Ok u ->
    lr_value (load_config parse comment default (Some user)) = Ok (merge d u).
  Proof.
    intros default user d u Hd Hu. cbv [load_config]. rewrite Hd, Hu. reflexivity.
  Qed.

  (* No file: exactly one write, of comment(default), after the defaults were parsed. *)
  Lemma load_first_run : forall default d,
    parse default = Ok d ->
    let r := load_config parse comment default None in
    lr_file r = Some (comment default) /\
    writes (lr_trace r) = [EvWrite (comment default)] /\
    lr_value r = Ok (merge d []).
  Proof.
    intros default d Hd. cbv [load_config]. rewrite Hd. cbn. repeat split; reflexivity.
  Qed.

  (* Defaults that do not parse: the exception leaves before any file operation. *)
  Lemma load_invalid_default : forall default file c,
    parse default = Err c ->
    let r := load_config parse comment default file in
    lr_file r = file /\ lr_trace r = [] /\ lr_value r = Err c.
  Proof.
    intros default file c Hd. cbv [load_config]. rewrite Hd. cbn. repeat split; reflexivity.
  Qed.
End IO.
