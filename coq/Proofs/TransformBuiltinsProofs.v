(* [builtins_confined] (Proofs/MemHeapQueryProofs.v, the hypothesis of Props/C12.v's
   C12_store_unchanged) PROVED for the transform-backed built-ins of Model/TransformBuiltins.v:
   for every code-to-call map, every argument list and every closed acyclic heap, the call
   changes only cells its arguments reach (or new ones), stores only references to such
   cells, keeps the heap closed and acyclic, and returns a new cell or one its arguments
   reach.  Per family:
     flood / union_no_overlap / filter_period_intersect / simplify_string   [framed]
     sort / limit / filter / filter_regex / concat / merge / chunk          [grown]
     categorize / tag / split_url_events                                     [rewrites]
     period_union                                                            [pu_h_frame] + what the merged list holds. *)
From AwVerif Require Import Base.Prelude Model.MemHeap Model.Timeslot Model.TransformHeap Model.DictHeap
  Model.Group Model.GroupHeap Model.ClassifyBase Model.Classify Model.ClassifyHeap Model.FilterRegexHeap
  Model.TransformBuiltins Model.MemHeapQuery
  Proofs.MemHeapBase Proofs.MemHeapCopy Proofs.MemHeapFrame Proofs.TransformHeapCopy
  Proofs.TransformHeapBase Proofs.TransformHeapFlood Proofs.TransformHeapUnion Proofs.TransformHeapIntersect
  Proofs.DictHeapBase Proofs.GroupHeapFrame Proofs.ClassifyHeapFrame Proofs.MemHeapQueryProofs
  Proofs.FilterRegexHeapProofs.
From Coq Require Import Arith Relations Sorting.Permutation.
Local Open Scope nat_scope.
Local Notation lookup := MemHeap.lookup.

(* what [builtins_confined] asks of one call *)
Definition conf3 (h : heap) (args : list loc) (r : heap * option (list loc)) : Prop :=
  confined h args (fst r) /\ wf (fst r) /\
  forall o, In o (outs_of (snd r)) -> o < length (fst r) /\ (length h <= o \/ reach h args o).

Lemma conf3_raise : forall h args, wf h -> conf3 h args (h, None).
Proof. intros h args W. split; [apply confined_refl|]. split; auto. intros o []. Qed.

Lemma conf3_framed : forall h args h' L', framed h h' -> wf h' -> length h <= L' < length h' ->
  conf3 h args (h', Some [L']).
Proof.
  intros h args h' L' F W B. split; [|split; auto].
  - eapply confined_mono; [|apply framed_confined; eauto]. intros l (r & [] & _).
  - cbn. intros o [<-|[]]. split; [lia|left; lia].
Qed.

Lemma conf3_grown : forall (P : loc -> Prop) h args h' L', wf h -> grown P h h' ->
  (forall k, P k -> reach h args k) -> L' < length h' -> (length h <= L' \/ reach h args L') ->
  conf3 h args (h', Some [L']).
Proof.
  intros P h args h' L' W G M B O. split; [eapply grown_confined; eauto|]. split; [eapply grown_wf; eauto|].
  cbn. intros o [<-|[]]. auto.
Qed.

(* ------------------------------------------------------------------------- *)
(* reachability from the arguments *)

Lemma reach_elem : forall h args L t ks e, In L args -> lookup h L = Some (Cell t ks) -> In e ks -> reach h args e.
Proof.
  intros h args L t ks e IL Lk Ie. eapply reach_step; [apply reach_root; eauto|]. exists (Cell t ks). auto.
Qed.

Lemma reach_data_of : forall h args L t ks dl, In L args -> lookup h L = Some (Cell t ks) ->
  data_of h ks dl -> reach h args dl.
Proof.
  intros h args L t ks dl IL Lk (e & i & t0 & d & Ie & Le).
  eapply reach_step; [eapply reach_elem; eauto|]. exists (Cell (TEv i t0 d) [dl]). cbn. auto.
Qed.

Lemma reach_data_member : forall h args L t ks k, In L args -> lookup h L = Some (Cell t ks) ->
  data_member h ks k -> reach h args k.
Proof.
  intros h args L t ks k IL Lk (e & i & t0 & d & dl & p & kk & Ie & Le & Ld & Ik).
  assert (R : reach h args dl) by (eapply reach_data_of; eauto; exists e, i, t0, d; auto).
  eapply reach_step; [exact R|]. exists (Cell (TNode p) kk). auto.
Qed.

(* ------------------------------------------------------------------------- *)
(* closedness and acyclicity of the copy-and-retag transforms *)

Inductive okstep : heap -> heap -> Prop :=
  | ok_refl : forall h, okstep h h
  | ok_trans : forall a b c, okstep a b -> okstep b c -> okstep a c
  | ok_copy : forall h l h' m l', copied h l h' m l' -> okstep h h'
  | ok_retags : forall S h h', retags S h h' -> okstep h h'
  | ok_alloc : forall h c, (forall k, In k (children c) -> k < length h) -> okstep h (h ++ [c])
  | ok_clear : forall h k h', clear_data h k = Ok h' -> okstep h h'.

Lemma okstep_wf : forall h h', okstep h h' -> wf h -> wf h'.
Proof.
  intros h h' O. induction O; intro W; auto.
  - eapply cp_wf; eauto.
  - eapply retags_wf; eauto.
  - now apply wf_alloc.
  - destruct (clear_data_inv _ _ _ H) as (i & t & d & ks & Lk & ->).
    assert (W1 : wf (h ++ [Cell (TNode EMPTY_DICT) []])) by (apply wf_alloc; auto; intros k0 []).
    apply wf_update; auto.
    + rewrite app_length; cbn. apply lookup_lt in Lk. lia.
    + cbn. intros k0 [<-|[]]. split; [rewrite app_length; cbn; lia|].
      intro R. apply leaf_rt with (t := TNode EMPTY_DICT) in R; [|apply lookup_alloc_new].
      apply lookup_lt in Lk. lia.
Qed.

Lemma pdeepcopy_ok : forall h l h' l', pdeepcopy h l = Ok (h', l') -> okstep h h'.
Proof. intros h l h' l' P. destruct (pdeepcopy_inv _ _ _ _ P) as (m & C). eapply ok_copy; eauto. Qed.

Lemma wr_ts_ok : forall h l t h', wr_ts h l t = Ok h' -> okstep h h'.
Proof. intros h l t h' W. apply ok_retags with (S := fun _ => True). eapply wr_ts_retags; eauto. Qed.

Lemma wr_dur_ok : forall h l t h', wr_dur h l t = Ok h' -> okstep h h'.
Proof. intros h l t h' W. apply ok_retags with (S := fun _ => True). eapply wr_dur_retags; eauto. Qed.

Ltac ok_chain :=
  repeat first [ apply ok_refl
               | eapply ok_trans; [first [eapply pdeepcopy_ok; eassumption | eapply wr_ts_ok; eassumption
                                         | eapply wr_dur_ok; eassumption]|] ].

Lemma replace_period_ok : forall h e p h' e', replace_period_h h e p = Ok (h', e') -> okstep h h'.
Proof.
  unfold replace_period_h. intros h e p h' e' H.
  destruct (pdeepcopy h e) as [[h1 e1]| |] eqn:P; cbn [bind fst snd] in H; try discriminate.
  destruct (wr_ts h1 e1 (tstart p)) as [h2| |] eqn:W2; cbn [bind] in H; try discriminate.
  destruct (wr_dur h2 e1 (slot_duration p)) as [h3| |] eqn:W3; cbn [bind] in H; try discriminate.
  inversion H; subst. ok_chain.
Qed.

Lemma split_event_ok : forall h e dt h' r, split_event_h h e dt = Ok (h', r) -> okstep h h'.
Proof.
  unfold split_event_h. intros h e dt h' r H.
  destruct (rd_ts h e) as [t| |]; cbn [bind] in H; try discriminate.
  destruct (rd_dur h e) as [d| |]; cbn [bind] in H; try discriminate.
  destruct ((t <? dt)%Z && (dt <? t + d)%Z); [|inversion H; subst; apply ok_refl].
  destruct (pdeepcopy h e) as [[h1 e1]| |] eqn:P1; cbn [bind fst snd] in H; try discriminate.
  destruct (pdeepcopy h1 e) as [[h2 e2]| |] eqn:P2; cbn [bind fst snd] in H; try discriminate.
  destruct (rd_ts h2 e) as [t'| |]; cbn [bind] in H; try discriminate.
  destruct (wr_dur h2 e1 (dt - t')) as [h3| |] eqn:W3; cbn [bind] in H; try discriminate.
  destruct (wr_ts h3 e2 dt) as [h4| |] eqn:W4; cbn [bind] in H; try discriminate.
  destruct (rd_ts h4 e) as [t''| |]; cbn [bind] in H; try discriminate.
  destruct (rd_dur h4 e) as [d''| |]; cbn [bind] in H; try discriminate.
  destruct (wr_dur h4 e2 (t'' + d'' - dt)) as [h5| |] eqn:W5; cbn [bind] in H; try discriminate.
  inversion H; subst. ok_chain.
Qed.

Lemma uno_step_ok : forall h e1 r1 e2 r2 h' r, uno_step_h h e1 r1 e2 r2 = Ok (h', r) -> okstep h h'.
Proof.
  unfold uno_step_h. intros h e1 r1 e2 r2 h' r H.
  destruct (rd_ts h e1) as [t1| |]; cbn [bind] in H; try discriminate.
  destruct (rd_dur h e1) as [d1| |]; cbn [bind] in H; try discriminate.
  destruct (rd_ts h e2) as [t2| |]; cbn [bind] in H; try discriminate.
  destruct (rd_dur h e2) as [d2| |]; cbn [bind] in H; try discriminate.
  destruct (t2 + d2 <=? t1)%Z; [inversion H; subst; apply ok_refl|].
  destruct (t1 + d1 <=? t2)%Z; [inversion H; subst; apply ok_refl|].
  assert (X : exists hm x, okstep h hm /\
            (if (t2 + d2 >? t1 + d1)%Z
             then match snd x with
                  | None => Err AttributeError
                  | Some e2' => bind (split_event_h hm e2' (t1 + d1)%Z) (fun r' =>
                      let head := match snd (snd r') with Some a => a | None => e2' end in
                      Ok (fst r', (fst x ++ [e1], (r1, head :: r2))))
                  end
             else Ok (hm, (fst x, (e1 :: r1, r2)))) = Ok (h', r)).
  { destruct (t2 <? t1)%Z.
    - destruct (split_event_h h e2 t1) as [[hs rs]| |] eqn:S; cbn [bind fst snd] in H; try discriminate.
      exists hs, ([fst rs], snd rs). split; [eapply split_event_ok; eauto|exact H].
    - cbn [bind fst snd] in H. exists h, ([], Some e2). split; [apply ok_refl|exact H]. }
  destruct X as (hm & x & O & H1). clear H.
  destruct (t2 + d2 >? t1 + d1)%Z.
  - destruct (snd x) as [e2'|]; try discriminate.
    destruct (split_event_h hm e2' (t1 + d1)%Z) as [[hs rs]| |] eqn:S; cbn [bind fst snd] in H1; try discriminate.
    inversion H1; subst. eapply ok_trans; [exact O|eapply split_event_ok; eauto].
  - inversion H1; subst. exact O.
Qed.

Lemma uno_loop_ok : forall fuel h l1 l2 out h' res, uno_loop_h fuel h l1 l2 out = Ok (h', res) -> okstep h h'.
Proof.
  induction fuel as [|fuel IH]; intros h l1 l2 out h' res H;
    (destruct l1 as [|e1 r1]; [|destruct l2 as [|e2 r2]]); cbn [uno_loop_h] in H; try discriminate;
    try (inversion H; subst; apply ok_refl).
  destruct (uno_step_h h e1 r1 e2 r2) as [[h1 x]| |] eqn:S; cbn [bind fst snd] in H; try discriminate.
  eapply ok_trans; [eapply uno_step_ok; eauto|eapply IH; eauto].
Qed.

Lemma sweep_ok : forall fuel h l1 l2 h' out, sweep_h fuel h l1 l2 = Ok (h', out) -> okstep h h'.
Proof.
  induction fuel as [|fuel IH]; intros h l1 l2 h' out H;
    (destruct l1 as [|e1 r1]; [|destruct l2 as [|e2 r2]]); cbn [sweep_h] in H; try discriminate;
    try (inversion H; subst; apply ok_refl).
  destruct (get_period_h h e1) as [p1| |]; cbn [bind] in H; try discriminate.
  destruct (get_period_h h e2) as [p2| |]; cbn [bind] in H; try discriminate.
  destruct (slot_intersection p1 p2) as [ip|].
  - destruct (replace_period_h h e1 ip) as [[h1 e']| |] eqn:RP; cbn [bind fst snd] in H; try discriminate.
    match type of H with bind ?r _ = _ => destruct r as [[h2 rest]| |] eqn:SW end;
      cbn [bind fst snd] in H; try discriminate.
    inversion H; subst. eapply ok_trans; [eapply replace_period_ok; eauto|].
    destruct (tend p1 <=? tend p2)%Z; eapply IH; eauto.
  - destruct (tend p1 <=? tstart p2)%Z; [eapply IH; eauto|].
    destruct (tend p2 <=? tstart p1)%Z; eapply IH; eauto.
Qed.

(* ------------------------------------------------------------------------- *)
(* the [framed] family *)

Lemma flood_conf3 : forall h args L pt, wf h -> conf3 h args (of_res h (flood_h h L pt)).
Proof.
  intros h args L pt W. destruct (flood_h h L pt) as [[h' L']| |] eqn:H; cbn [of_res]; try now apply conf3_raise.
  destruct (flood_h_framed _ _ _ _ _ H) as (F & B & _). cbn [fst snd]. apply conf3_framed; auto.
  unfold flood_h in H.
  destruct (pdeepcopy h L) as [[h1 L1]| |] eqn:P; cbn [bind fst snd] in H; try discriminate.
  destruct (list_elems h1 L1) as [ks1| |] eqn:LE; cbn [bind] in H; try discriminate.
  destruct (sorted_ts h1 ks1) as [srt| |] eqn:SO; cbn [bind] in H; try discriminate.
  destruct (flood_loop_h pt h1 false false srt) as [h2| |] eqn:FL; cbn [bind] in H; try discriminate.
  destruct (filter_pos h2 srt) as [out| |] eqn:FP; cbn [bind] in H; try discriminate.
  inversion H; subst h' L'. unfold new_list, alloc. cbn [fst].
  assert (O : okstep h h2).
  { eapply ok_trans; [eapply pdeepcopy_ok; eauto|]. eapply ok_retags. eapply flood_loop_retags; eauto. }
  apply wf_alloc; [eapply okstep_wf; eauto|]. cbn. intros k I.
  (* an element of out was read in h2 *)
  clear -FP I. unfold filter_pos in FP. revert out FP I. induction srt as [|x srt IH]; cbn [filter_res]; intros out FP I.
  - inversion FP; subst. destruct I.
  - destruct (rd_dur h2 x) as [d| |] eqn:R; cbn [bind] in FP; try discriminate.
    destruct (filter_res _ srt) as [r| |] eqn:FR; cbn [bind] in FP; try discriminate.
    inversion FP; subst. destruct (d >? 0)%Z.
    + destruct I as [<-|I]; [|eapply IH; eauto].
      unfold rd_dur, ev_fields in R. destruct (lookup h2 x) eqn:Lx; [eapply lookup_lt; eauto|discriminate].
    + eapply IH; eauto.
Qed.

Lemma uno_conf3 : forall h args L1 L2, wf h -> conf3 h args (of_res h (union_no_overlap_h h L1 L2)).
Proof.
  intros h args L1 L2 W. destruct (union_no_overlap_h h L1 L2) as [[h' L']| |] eqn:H; cbn [of_res]; try now apply conf3_raise.
  destruct (uno_h_framed _ _ _ _ _ H) as (F & B & _). cbn [fst snd]. apply conf3_framed; auto.
  unfold union_no_overlap_h in H.
  destruct (pdeepcopy h L1) as [[h1 L1']| |] eqn:P1; cbn [bind fst snd] in H; try discriminate.
  destruct (pdeepcopy h1 L2) as [[h2 L2']| |] eqn:P2; cbn [bind fst snd] in H; try discriminate.
  destruct (list_elems h2 L1') as [ks1| |] eqn:LE1; cbn [bind] in H; try discriminate.
  destruct (list_elems h2 L2') as [ks2| |] eqn:LE2; cbn [bind] in H; try discriminate.
  destruct (uno_loop_h _ h2 ks1 ks2 []) as [[h3 out]| |] eqn:LP; cbn [bind fst snd] in H; try discriminate.
  destruct (pdeepcopy_inv _ _ _ _ P1) as (m1 & C1). destruct (pdeepcopy_inv _ _ _ _ P2) as (m2 & C2).
  pose proof (ext_length _ _ (cp_ext _ _ _ _ _ C1)) as G1.
  pose proof (ext_length _ _ (cp_ext _ _ _ _ _ C2)) as G2.
  assert (LE1' : list_elems h1 L1' = Ok ks1).
  { unfold list_elems in *. rewrite <- (ext_lookup _ _ _ (cp_ext _ _ _ _ _ C2)); auto.
    apply (copied_fresh _ _ _ _ _ C1). }
  destruct (copied_list _ _ _ _ _ _ C1 LE1') as (_ & _ & _ & _ & FR1).
  destruct (copied_list _ _ _ _ _ _ C2 LE2) as (_ & _ & _ & _ & FR2).
  assert (F2 : framed h h2) by (eapply framed_copied; [eapply framed_copied; [apply framed_refl|eauto]|eauto]).
  destruct (uno_loop_framed h (length ks1 + length ks2) h2 ks1 ks2 [] h3 out F2) as (F3 & Ao); [| | |exact LP|].
  { intros k I. specialize (FR1 _ I). unfold fresh_in. lia. }
  { intros k I. specialize (FR2 _ I). unfold fresh_in. lia. }
  { apply all_fresh_nil. }
  inversion H; subst h' L'. unfold new_list, alloc. cbn [fst].
  apply wf_alloc.
  - eapply okstep_wf; [|exact W]. eapply ok_trans; [eapply ok_copy; eauto|].
    eapply ok_trans; [eapply ok_copy; eauto|]. eapply uno_loop_ok; eauto.
  - cbn. intros k I. apply (Ao k I).
Qed.

Lemma fpi_conf3 : forall h args L1 L2, wf h -> conf3 h args (of_res h (filter_period_intersect_h h L1 L2)).
Proof.
  intros h args L1 L2 W. destruct (filter_period_intersect_h h L1 L2) as [[h' L']| |] eqn:H; cbn [of_res]; try now apply conf3_raise.
  destruct (fpi_h_framed _ _ _ _ _ H) as (F & B & _). cbn [fst snd]. apply conf3_framed; auto.
  unfold filter_period_intersect_h in H.
  destruct (list_elems h L1) as [ks1| |]; cbn [bind] in H; try discriminate.
  destruct (list_elems h L2) as [ks2| |]; cbn [bind] in H; try discriminate.
  destruct (sorted_lt h ks1) as [s1| |]; cbn [bind] in H; try discriminate.
  destruct (sorted_lt h ks2) as [s2| |]; cbn [bind] in H; try discriminate.
  destruct (sorted_ts h s1) as [s1'| |]; cbn [bind] in H; try discriminate.
  destruct (sorted_ts h s2) as [s2'| |]; cbn [bind] in H; try discriminate.
  destruct (sweep_h _ h s1' s2') as [[h1 out]| |] eqn:SW; cbn [bind fst snd] in H; try discriminate.
  destruct (sweep_framed h _ h s1' s2' h1 out (framed_refl h) SW) as (F1 & G1 & Ao).
  inversion H; subst h' L'. unfold new_list, alloc. cbn [fst].
  apply wf_alloc; [eapply okstep_wf; [eapply sweep_ok; eauto|exact W]|].
  cbn. intros k I. apply (Ao k I).
Qed.

(* simplify_string: deepcopy, then writes into copied dicts that keep their members *)
Lemma simplify_one_wf : forall sp sf sd key h e h', wf h ->
  simplify_one_h sp sf sd key h e = Ok h' -> wf h'.
Proof.
  intros sp sf sd key h e h' W H. unfold simplify_one_h in H.
  destruct (bind_ok _ _ _ H) as (dl & RD & H1). clear H.
  destruct (bind_ok _ _ _ H1) as (z & RZ & H2). clear H1.
  destruct (bind_ok _ _ _ H2) as (z' & SZ & H3). clear H2.
  destruct (wr_dict_inv _ _ _ _ H3) as (p & kk & Ld & ->). clear H3.
  destruct (rd_dict_inv _ _ _ RZ) as (p0 & kk0 & Ld0 & _ & _ & UK).
  assert (UK' : unzip_k z = kk) by congruence.
  assert (KS : forall z1 z2 f, zsub f key z1 = Ok z2 -> forall k, In k (unzip_k z2) -> In k (unzip_k z1)).
  { intros z1 z2 f Hs k I. unfold zsub in Hs. destruct (zget key z1) as [[v|?]|]; try discriminate.
    destruct (Z.even v); inversion Hs; subst. apply unzip_k_zset in I. destruct I as [I|I]; [auto|discriminate]. }
  assert (KZ : forall k, In k (unzip_k z') -> In k kk).
  { intros k I. rewrite <- UK'. unfold simplify_zdict in SZ.
    destruct (bind_ok _ _ _ SZ) as (z1 & S1 & SZ1).
    destruct ((key =? K_title)%Z && zhas K_app z1).
    - destruct (bind_ok _ _ _ SZ1) as (z2 & S2 & S3). eauto.
    - inversion SZ1; subst. eauto. }
  pose proof (lookup_lt _ _ _ Ld) as Bd.
  apply wf_update; [exact W|exact Bd|].
  unfold dict_cell. cbn [children]. intros k I. specialize (KZ k I). destruct W as [C A].
  split; [eapply (C dl); [exact Ld|exact KZ]|eapply child_not_back; [exact A|exact Ld|exact KZ]].
Qed.

Lemma simplify_conf3 : forall sp sf sd key h args L, wf h ->
  conf3 h args (of_res h (simplify_string_h sp sf sd h L key)).
Proof.
  intros sp sf sd key h args L W.
  destruct (simplify_string_h sp sf sd h L key) as [[h' L']| |] eqn:H; cbn [of_res]; try now apply conf3_raise.
  destruct (simplify_h_framed _ _ _ _ _ _ _ _ H) as (F & B). cbn [fst snd]. apply conf3_framed; auto.
  unfold simplify_string_h in H.
  destruct (bind_ok _ _ _ H) as ([h1 L1] & PD & H1). clear H. cbn [fst snd] in H1.
  destruct (bind_ok _ _ _ H1) as (ks & E & H2). clear H1.
  destruct (bind_ok _ _ _ H2) as (u & OK & H3). clear H2. inversion H3; subst h' L'. clear H3.
  assert (W1 : wf h1) by (eapply okstep_wf; [eapply pdeepcopy_ok; eauto|auto]).
  clear -W1. revert h1 W1. induction ks as [|e ks IH]; cbn [each_h]; intros h1 W1; auto.
  destruct (simplify_one_h sp sf sd key h1 e) as [h2| |] eqn:S1; cbn [fst]; auto.
  apply IH. eapply simplify_one_wf; eauto.
Qed.

(* ------------------------------------------------------------------------- *)
(* the [grown] family *)

Lemma one_new_list_conf3 : forall h args L p ks h' L' out, wf h -> In L args ->
  lookup h L = Some (Cell (TNode p) ks) -> one_new_list h h' L' out -> incl out ks ->
  conf3 h args (h', Some [L']).
Proof.
  intros h args L p ks h' L' out W IL Lk O I.
  assert (B : forall k, In k out -> k < length h) by (intros k Ik; destruct W as [C _]; eapply C; eauto).
  eapply conf3_grown with (P := fun k => In k ks); auto.
  - eapply one_new_list_grown; eauto.
  - intros k Ik. eapply reach_elem; eauto.
  - destruct O as [-> ->]. rewrite app_length; cbn; lia.
  - destruct O as [_ ->]. left; lia.
Qed.

Lemma perm_incl : forall (a b : list loc), Permutation a b -> incl a b.
Proof. intros a b P x I. eapply Permutation_in; eauto. Qed.

Lemma merge_conf3 : forall h L keys, wf h -> L < length h ->
  conf3 h [L] (of_res h (merge_events_by_keys_h h L keys)).
Proof.
  intros h L keys W BL.
  destruct (merge_events_by_keys_h h L keys) as [[h' L']| |] eqn:H; cbn [of_res]; try now apply conf3_raise.
  destruct (merge_h_shape _ _ _ _ _ H) as [(-> & -> & ->)|(NE & p & ks & out & Lk & K & B & LL & OF & GR)]; cbn [fst snd].
  - split; [apply confined_refl|]. split; auto. cbn. intros o [<-|[]]. split; auto. right. apply reach_root. left; auto.
  - destruct W as [C A]. eapply conf3_grown; [split; auto|apply (GR C)| | |]; try lia.
    + intros k (DM & _). eapply reach_data_member; eauto. left; auto.
Qed.

Lemma chunk_conf3 : forall sk h L key pulse, wf h ->
  conf3 h [L] (of_res h (chunk_events_by_key_h sk h L key pulse)).
Proof.
  intros sk h L key pulse W.
  destruct (chunk_events_by_key_h sk h L key pulse) as [[h' L']| |] eqn:H; cbn [of_res]; try now apply conf3_raise.
  destruct (chunk_h_shape _ _ _ _ _ _ _ H) as (p & ks & out & Lk & K & B & LL & CO & GR). cbn [fst snd].
  destruct W as [C A]. eapply conf3_grown; [split; auto|apply (GR C)| | |]; try lia.
  intros k [Ik|DM].
  - eapply reach_elem; eauto. left; auto.
  - eapply reach_data_member; eauto. left; auto.
Qed.

(* ------------------------------------------------------------------------- *)
(* the [rewrites] family *)

Lemma conf3_rewrites : forall (S N : loc -> Prop) owned h args h' outs, wf h ->
  rewrites S N owned h h' ->
  (forall l, S l -> reach h args l) -> (forall k, N k -> length h <= k \/ reach h args k) ->
  (forall o, In o (outs_of outs) -> o < length h' /\ (length h <= o \/ reach h args o)) ->
  conf3 h args (h', outs).
Proof.
  intros S N owned h args h' outs W R HS HN HO. split; [|split; auto].
  - eapply rewrites_confined; eauto. apply confined_refl.
  - eapply rewrites_wf; eauto.
Qed.

Lemma cat_class_locs : forall rule_of h prs classes, map_res (cat_class rule_of h) prs = Ok classes ->
  forall c, In c (map fst classes) -> exists pr p rd, In pr prs /\ lookup h pr = Some (Cell (TNode p) [c; rd]).
Proof.
  intros rule_of h. induction prs as [|pr prs IH]; cbn [map_res]; intros classes H c I.
  - inversion H; subst. destruct I.
  - destruct (cat_class rule_of h pr) as [x| |] eqn:CC; cbn [bind] in H; try discriminate.
    destruct (map_res _ prs) as [r| |] eqn:M; cbn [bind] in H; try discriminate.
    inversion H; subst. cbn in I. destruct I as [<-|I].
    + unfold cat_class in CC. destruct (lookup h pr) as [[[? ? ?|p] [|c0 [|rd [|? ?]]]]|] eqn:Lp; try discriminate.
      inversion CC; subst. exists pr, p, rd. split; [left; auto|auto].
    + destruct (IH _ eq_refl c I) as (pr' & p & rd & Ip & Lp). exists pr', p, rd. split; [right; auto|auto].
Qed.

Lemma categorize_conf3 : forall re rule_of h L C, wf h ->
  conf3 h [L; C] (run_call (CCategorize re rule_of) [L; C] h).
Proof.
  intros re rule_of h L C W. cbn [run_call].
  destruct (list_elems h C) as [prs| |] eqn:EC; try now apply conf3_raise.
  destruct (map_res (cat_class rule_of h) prs) as [classes| |] eqn:MC; try now apply conf3_raise.
  destruct (categorize_h re h L classes) as [h' r] eqn:H. unfold of_hres. cbn [fst snd].
  destruct (list_elems_inv _ _ _ EC) as (pc & LC).
  destruct (categorize_h_frame _ _ _ _ _ _ H) as [(_ & -> & NO)|(p & ks & Lk & RW & OUT)].
  - destruct r as [L'| |]; [exfalso; eapply NO; eauto| |]; now apply conf3_raise.
  - assert (X : forall outs, (forall o, In o (outs_of outs) -> o < length h' /\ (length h <= o \/ reach h [L; C] o)) ->
                conf3 h [L; C] (h', outs)).
    { intros outs HO. eapply conf3_rewrites; eauto.
      - intros l D. eapply reach_data_of; eauto. left; auto.
      - intros k [Ik|[Ic|G]]; auto.
        + right. eapply reach_elem; eauto. left; auto.
        + right. destruct (cat_class_locs _ _ _ _ MC _ Ic) as (pr & pp & rd & Ip & Lp).
          eapply reach_step; [eapply reach_elem with (L := C); eauto; right; left; auto|].
          exists (Cell (TNode pp) [k; rd]). cbn. auto. }
    destruct r as [L'| |]; apply X; cbn [outs_of snd].
    + intros o' [<-|[]]. destruct (OUT L' eq_refl) as [G LL]. split; [eapply lookup_lt; eauto|auto].
    + intros o' [].
    + intros o' [].
Qed.

Lemma tag_conf3 : forall re tag_of rule_of h L C, wf h ->
  conf3 h [L; C] (run_call (CTag re tag_of rule_of) [L; C] h).
Proof.
  intros re tag_of rule_of h L C W. cbn [run_call].
  destruct (list_elems h C) as [prs| |] eqn:EC; try now apply conf3_raise.
  destruct (map_res (tag_class tag_of rule_of h) prs) as [classes| |] eqn:MC; try now apply conf3_raise.
  destruct (tag_h re h L classes) as [h' r] eqn:H. unfold of_hres. cbn [fst snd].
  destruct (tag_h_frame _ _ _ _ _ _ H) as [(_ & -> & NO)|(p & ks & Lk & RW & OUT)].
  - destruct r as [L'| |]; [exfalso; eapply NO; eauto| |]; now apply conf3_raise.
  - assert (X : forall outs, (forall o, In o (outs_of outs) -> o < length h' /\ (length h <= o \/ reach h [L; C] o)) ->
                conf3 h [L; C] (h', outs)).
    { intros outs HO. eapply conf3_rewrites; eauto.
      - intros l D. eapply reach_data_of; eauto. left; auto.
      - intros k [Ik|G]; auto. right. eapply reach_elem; eauto. left; auto. }
    destruct r as [L'| |]; apply X; cbn [outs_of snd].
    + intros o' [<-|[]]. destruct (OUT L' eq_refl) as [G LL]. split; [eapply lookup_lt; eauto|auto].
    + intros o' [].
    + intros o' [].
Qed.

Lemma split_conf3 : forall up sw d4 h L, wf h -> L < length h ->
  conf3 h [L] (of_hres (split_url_events_h up sw d4 h L)).
Proof.
  intros up sw d4 h L W BL.
  destruct (split_url_events_h up sw d4 h L) as [h' r] eqn:H. unfold of_hres. cbn [fst snd].
  destruct (split_h_frame _ _ _ _ _ _ _ H) as [(_ & -> & NO)|(p & ks & Lk & RW & OUT)].
  - destruct r as [L'| |]; [exfalso; eapply NO; eauto| |]; now apply conf3_raise.
  - assert (X : forall outs, (forall o, In o (outs_of outs) -> o < length h' /\ (length h <= o \/ reach h [L] o)) ->
                conf3 h [L] (h', outs)).
    { intros outs HO. eapply conf3_rewrites; eauto.
      - intros l D. eapply reach_data_of; eauto. left; auto.
      - intros k []. }
    destruct r as [L'| |]; apply X; cbn [outs_of snd].
    + intros o' [<-|[]]. rewrite (OUT L' eq_refl). pose proof (rewrites_length _ _ _ _ _ RW).
      split; [lia|]. right. apply reach_root. left; auto.
    + intros o' [].
    + intros o' [].
Qed.

(* ------------------------------------------------------------------------- *)
(* period_union: the caller's own Events that end up in the result get `event.data = {}` *)

Lemma union_loop_elems : forall h0 evs h mrev h' res, framed h0 h -> union_loop_h h mrev evs = Ok (h', res) ->
  okstep h h' /\ forall r, In r res -> In r mrev \/ In r evs \/ length h0 <= r.
Proof.
  intros h0. induction evs as [|e evs IH]; intros h mrev h' res F H; cbn [union_loop_h] in H.
  - inversion H; subst. split; [apply ok_refl|]. intros r I. left. now apply in_rev.
  - destruct mrev as [|l older]; [discriminate|].
    destruct (get_period_h h e) as [ep| |]; cbn [bind] in H; try discriminate.
    destruct (get_period_h h l) as [lp| |]; cbn [bind] in H; try discriminate.
    destruct (slot_gap ep lp).
    + destruct (IH _ _ _ _ F H) as (O & E). split; auto. intros r I.
      destruct (E r I) as [[<-|J]|[J|J]]; auto.
      * right. left. left. auto.
      * right. left. right. auto.
    + destruct (slot_union ep lp) as [np| |]; cbn [bind] in H; try discriminate.
      destruct (replace_period_h h l np) as [[h1 l']| |] eqn:RP; cbn [bind fst snd] in H; try discriminate.
      destruct (replace_period_framed _ _ _ _ _ _ F RP) as (F1 & _ & FL).
      destruct (IH _ _ _ _ F1 H) as (O & E). split; [eapply ok_trans; [eapply replace_period_ok; eauto|auto]|].
      intros r I. destruct (E r I) as [[<-|J]|[J|J]]; auto.
      * right. right. apply FL.
      * left. right. auto.
      * right. left. right. auto.
Qed.

Lemma clear_all_ok : forall ks h h', clear_all h ks = Ok h' ->
  okstep h h' /\ length h <= length h' /\ forall k, In k ks -> k < length h'.
Proof.
  induction ks as [|k ks IH]; intros h h' H; cbn [clear_all] in H.
  - inversion H; subst. split; [apply ok_refl|]. split; auto. intros k [].
  - destruct (clear_data h k) as [h1| |] eqn:CD; cbn [bind] in H; try discriminate.
    destruct (IH _ _ H) as (O & G & B).
    destruct (clear_data_inv _ _ _ CD) as (i & t & d & kk & Lk & E).
    assert (G1 : length h < length h1) by (subst h1; rewrite update_length, app_length; cbn; lia).
    split; [eapply ok_trans; [eapply ok_clear; eauto|auto]|]. split; [lia|].
    intros x [<-|I]; auto. apply lookup_lt in Lk. lia.
Qed.

Lemma pu_conf3 : forall h L1 L2, wf h -> conf3 h [L1; L2] (of_res h (period_union_h h L1 L2)).
Proof.
  intros h L1 L2 W.
  destruct (period_union_h h L1 L2) as [[h' L']| |] eqn:H; cbn [of_res]; try now apply conf3_raise.
  destruct (pu_h_frame _ _ _ _ _ H) as (B & out & LL & OLD & NEW). cbn [fst snd].
  unfold period_union_h in H.
  destruct (list_elems h L1) as [ks1| |] eqn:E1; cbn [bind] in H; try discriminate.
  destruct (list_elems h L2) as [ks2| |] eqn:E2; cbn [bind] in H; try discriminate.
  destruct (sorted_lt h (ks1 ++ ks2)) as [evs| |] eqn:SL; cbn [bind] in H; try discriminate.
  match type of H with bind ?r _ = _ => destruct r as [[h1 res]| |] eqn:UL end; cbn [bind fst snd] in H; try discriminate.
  destruct (clear_all h1 res) as [h2| |] eqn:CA; cbn [bind] in H; try discriminate.
  unfold new_list, alloc in H. inversion H; subst h' L'; clear H.
  rewrite lookup_alloc_new in LL. inversion LL; subst out. clear LL.
  destruct (list_elems_inv _ _ _ E1) as (p1 & Lk1). destruct (list_elems_inv _ _ _ E2) as (p2 & Lk2).
  assert (EV : forall r, In r evs -> In r (ks1 ++ ks2)).
  { intros r I. apply sorted_lt_inv in SL. apply (proj1 (sorted_ts_in _ _ _ r SL)). exact I. }
  assert (UE : okstep h h1 /\ forall r, In r res -> In r (ks1 ++ ks2) \/ length h <= r).
  { destruct evs as [|first rest].
    - inversion UL; subst. split; [apply ok_refl|intros r []].
    - destruct (union_loop_elems h rest h [first] h1 res (framed_refl h) UL) as (O & E). split; auto.
      intros r I. destruct (E r I) as [[<-|[]]|[J|J]]; auto; left; apply EV; [left|right]; auto. }
  destruct UE as (O1 & RE).
  destruct (clear_all_ok _ _ _ CA) as (O2 & G2 & B2).
  assert (RR : forall r, In r (ks1 ++ ks2) -> reach h [L1; L2] r).
  { intros r I. apply in_app_or in I. destruct I.
    - eapply reach_elem with (L := L1); eauto. left; auto.
    - eapply reach_elem with (L := L2); eauto. right; left; auto. }
  split; [|split]; cbn [fst snd outs_of].
  - constructor.
    + lia.
    + intros l Bl NR. destruct (OLD l Bl) as [E|[_ I]]; auto.
      exfalso. apply NR. destruct (RE l I) as [J|J]; [auto|lia].
    + intros l c k Lc D I.
      destruct (Nat.lt_ge_cases l (length h)) as [Y|Y].
      * destruct D as [D|D]; [lia|].
        destruct (OLD l Y) as [E|[(i & t & d & kk & dl & L0 & La & Gd & Ld) _]]; [congruence|].
        rewrite La in Lc. inversion Lc; subst c. destruct I as [<-|[]]. left; auto.
      * destruct (Nat.eq_dec l (length h2)) as [->|Ne].
        -- rewrite lookup_alloc_new in Lc. inversion Lc; subst c. cbn in I.
           destruct (RE k I) as [J|J]; auto.
        -- left. apply (NEW l c k Y Ne Lc I).
  - apply wf_alloc; [eapply okstep_wf; [exact (ok_trans _ _ _ O1 O2)|exact W]|]. cbn. exact B2.
  - cbn. intros o [<-|[]]. split; [lia|left; lia].
Qed.

(* ------------------------------------------------------------------------- *)
(* every call *)

Lemma of_res_one_new_list : forall h args L (r : res (heap * loc)),
  wf h -> In L args ->
  (forall h' L', r = Ok (h', L') -> exists p ks out, lookup h L = Some (Cell (TNode p) ks) /\
                                       one_new_list h h' L' out /\ incl out ks) ->
  conf3 h args (of_res h r).
Proof.
  intros h args L r W IL X. destruct r as [[h' L']| |]; cbn [of_res]; try now apply conf3_raise.
  destruct (X h' L' eq_refl) as (p & ks & out & Lk & O & I). cbn [fst snd].
  eapply one_new_list_conf3; eauto.
Qed.

Theorem run_call_conf3 : forall c args h, wf h -> allocated h args ->
  conf3 h args (run_call c args h).
Proof.
  intros c args h W AL.
  destruct c; cbn [run_call];
    repeat match goal with
    | |- conf3 _ ?a (match ?a with _ => _ end) => destruct a as [|? ?]
    | |- conf3 _ (_ :: ?a) (match ?a with _ => _ end) => destruct a as [|? ?]
    | |- conf3 _ (_ :: _ :: ?a) (match ?a with _ => _ end) => destruct a as [|? ?]
    end; try (now apply conf3_raise).
  - apply flood_conf3; auto.
  - apply uno_conf3; auto.
  - apply fpi_conf3; auto.
  - apply pu_conf3; auto.
  - apply merge_conf3; auto. apply AL. left; auto.
  - apply chunk_conf3; auto.
  - eapply of_res_one_new_list with (L := l); auto; [left; auto|]. intros h' L' E.
    destruct (sort_ts_h_shape _ _ _ _ E) as (p & ks & out & Lk & O & P). exists p, ks, out.
    split; auto. split; auto. now apply perm_incl.
  - eapply of_res_one_new_list with (L := l); auto; [left; auto|]. intros h' L' E.
    destruct (sort_dur_h_shape _ _ _ _ E) as (p & ks & out & Lk & O & P). exists p, ks, out.
    split; auto. split; auto. now apply perm_incl.
  - eapply of_res_one_new_list with (L := l); auto; [left; auto|]. intros h' L' E.
    destruct (limit_h_shape _ _ _ _ _ E) as (p & ks & Lk & O). exists p, ks, (limit_l ks count).
    split; auto. split; auto. apply limit_l_incl.
  - eapply of_res_one_new_list with (L := l); auto; [left; auto|]. intros h' L' E.
    destruct (filter_h_shape _ _ _ _ _ _ _ E) as (p & ks & out & Lk & O & I). exists p, ks, out. auto.
  - (* concat: elements of both lists *)
    destruct (concat_h h l l0) as [[h' L']| |] eqn:E; cbn [of_res]; try now apply conf3_raise.
    destruct (concat_h_shape _ _ _ _ _ E) as (p1 & ks1 & p2 & ks2 & Lk1 & Lk2 & O). cbn [fst snd].
    assert (B : forall k, In k (ks1 ++ ks2) -> k < length h).
    { intros k Ik. destruct W as [C _]. apply in_app_or in Ik.
      destruct Ik as [Ik|Ik]; [eapply (C l); [exact Lk1|exact Ik]|eapply (C l0); [exact Lk2|exact Ik]]. }
    destruct O as [-> ->].
    eapply conf3_grown with (P := fun k => In k (ks1 ++ ks2)); [exact W| | | |].
    + apply grown_alloc; [apply grown_refl|]. cbn [children]. intros k Ik. split; auto.
    + intros k Ik. apply in_app_or in Ik. destruct Ik.
      * eapply reach_elem with (L := l); eauto. left; auto.
      * eapply reach_elem with (L := l0); eauto. right; left; auto.
    + rewrite app_length; cbn; lia.
    + left; lia.
  - destruct (sum_durations_h h l); now apply conf3_raise.   (* (h, Some []) and (h, None) are the same claim *)
  - apply categorize_conf3; auto.
  - apply tag_conf3; auto.
  - apply split_conf3; auto. apply AL. left; auto.
  - apply simplify_conf3; auto.
  - (* filter_keyvals_regex: one new list of the argument's own elements *)
    eapply of_res_one_new_list with (L := l); auto; [left; auto|]. intros h' L' E.
    destruct (fregex_h_shape _ _ _ _ _ _ _ E) as (_ & p & ks & out & Lk & O & S). exists p, ks, out.
    split; auto. split; auto. now apply subseq_incl.
Qed.

Theorem transform_builtins_confined : forall dc, builtins_confined (transform_builtin dc).
Proof.
  intros dc f args h W AL. unfold transform_builtin.
  destruct (run_call_conf3 (dc f) args h W AL) as (A & B & C). auto.
Qed.
