(* C11 round trip: QDict.parse's entry loop over the printed, comma-separated "key : value" text.
   One small lemma per phase of an iteration (skip the comma, key token, colon, value token,
   insertion), the fuel arithmetic isolated, then the induction over the entries. *)
From AwVerif Require Import Base.Prelude Model.PyStr Model.Query Model.QueryRef
  Proofs.QueryScan Proofs.QueryTotal Proofs.QueryClasses Proofs.QueryRefStr Proofs.QueryRefScan
  Proofs.QueryRefToken Proofs.QueryRefParse Proofs.QueryRefLoops.
From Coq Require Import ZifyBool Lia.
Open Scope Z_scope.

(* ---- fuel arithmetic, on plain lists ---- *)
Lemma dict_fuel_value (b K c1 c2 V R e : str) f :
  (2 * length (b ++ (K ++ c1 ++ [c_colon] ++ c2 ++ V ++ R) ++ e) + 2 <= S f)%nat ->
  (2 * length V + 1 <= f)%nat.
Proof. rewrite !app_length. cbn [length]. lia. Qed.

Lemma dict_fuel_rest (b K c1 c2 V l1 l2 core e : str) f :
  (2 * length (b ++ (K ++ c1 ++ [c_colon] ++ c2 ++ V ++ l1 ++ [c_comma] ++ l2 ++ core) ++ e) + 2 <= S f)%nat ->
  (2 * length (l2 ++ core ++ []) + 2 <= f)%nat.
Proof. rewrite !app_length. cbn [length]. lia. Qed.

Lemma dict_fuel_two (b K c1 c2 V R e : str) f :
  (2 * length (b ++ (K ++ c1 ++ [c_colon] ++ c2 ++ V ++ R) ++ e) + 2 <= S f)%nat -> (2 <= f)%nat.
Proof. rewrite !app_length. cbn [length]. lia. Qed.

Lemma parse_token_lead_blank b s : all_space b = true -> s <> [] -> parse_token (b ++ s) = parse_token s.
Proof.
  intros Hb Hs. unfold parse_token.
  replace (is_empty (b ++ s)) with false by (destruct b; [destruct s; [congruence|reflexivity]|reflexivity]).
  replace (is_empty s) with false by (destruct s; [congruence|reflexivity]).
  unfold strip. rewrite lstrip_app_space by assumption. reflexivity.
Qed.

Lemma last_nonspace_tail_app (x y z : str) : last_nonspace y = true -> (z = [] \/ last_nonspace z = true) ->
  last_nonspace (x ++ y ++ z) = true.
Proof.
  intros Hy [->|Hz].
  - rewrite app_nil_r. rewrite last_nonspace_app; [assumption|]. intro E; rewrite E in Hy; discriminate.
  - rewrite app_assoc. rewrite last_nonspace_app; [assumption|]. intro E; rewrite E in Hz; discriminate.
Qed.

Section DictLoop.
  Variable lay : layout.
  Hypothesis Hlay : wf_layout lay.
  Variable md : nat.
  Variable ns : namespace.

  Notation txt := (txt lay).
  Notation ptok := (parse_tok md ns).

  (* ---- phase 1: after at least one entry, a leading comma is dropped ---- *)
  Lemma parse_dict_skip_comma f l1 l2 s e c0 x (acc : list (str * qtoken)) :
    acc <> [] -> all_space l1 = true -> all_space l2 = true -> all_space e = true ->
    s = c0 :: x -> is_space c0 = false -> (c0 =? c_comma) = false -> last_nonspace s = true ->
    parse_dict md ns (S f) ((l1 ++ [c_comma] ++ l2) ++ s ++ e) acc = parse_dict md ns (S f) (l2 ++ s ++ e) acc.
  Proof.
    intros Hacc Hl1 Hl2 He Es Hc0 Hcm Hl. cbn [parse_dict].
    assert (Hfs : first_nonspace s = true) by (subst s; cbn; rewrite Hc0; reflexivity).
    assert (E1 : strip ((l1 ++ [c_comma] ++ l2) ++ s ++ e) = [c_comma] ++ l2 ++ s).
    { replace ((l1 ++ [c_comma] ++ l2) ++ s ++ e) with (l1 ++ ([c_comma] ++ l2 ++ s) ++ e) by reassoc.
      rewrite strip_tok; [rewrite rstrip_all_space by assumption; apply app_nil_r|assumption|reflexivity|].
      rewrite !app_assoc. rewrite last_nonspace_app; [assumption|subst s; discriminate]. }
    assert (E2 : strip (l2 ++ s ++ e) = s).
    { rewrite strip_tok by assumption. rewrite rstrip_all_space by assumption. apply app_nil_r. }
    rewrite E1, E2.
    assert (N1 : [c_comma] ++ l2 ++ s <> []) by discriminate.
    assert (N2 : s <> []) by (subst s; discriminate).
    rewrite (ltb_length_pos _ N1), (ltb_length_pos _ N2).
    assert (F2 : first_char s = Ok c0) by (subst s; reflexivity). rewrite F2.
    cbn [app first_char bind]. rewrite (ltb_length_pos acc Hacc), Hcm.
    replace (c_comma =? c_comma) with true by reflexivity. cbn [andb drop skipn].
    rewrite parse_token_lead_blank by assumption. reflexivity.
  Qed.

  (* ---- phase 2: the key token (a string literal) and QString.parse on it ---- *)
  Definition after_key (f : nat) (k : str) (acc : list (str * qtoken)) (r : str) : res (list (str * qtoken)) :=
    match strip r with
    | [] => Err ParseError
    | c :: rest =>
        if negb (c =? c_colon) then Err ParseError
        else
          bind (parse_token rest) (fun '((val_t, val_str), entries_str) =>
          match val_t with
          | None => Err ParseError
          | Some t => bind (ptok f t val_str) (fun val => parse_dict md ns f entries_str (dict_set acc k val))
          end)
    end.

  Lemma parse_dict_key f b e q k r0 acc :
    all_space b = true -> all_space e = true -> wf_str q k ->
    sep_start r0 = true -> last_nonspace r0 = true ->
    parse_dict md ns (S f) (b ++ (str_txt q k ++ r0) ++ e) acc = after_key f k acc r0.
  Proof.
    intros Hb He (Hq & Hek & Hsemi) Hs Hl. cbn [parse_dict].
    assert (Hr0n : r0 <> []) by (intro E; rewrite E in Hl; discriminate).
    assert (HKf : first_nonspace (str_txt q k ++ r0) = true)
      by (unfold str_txt; destruct Hq as [->| ->]; reflexivity).
    assert (HKl : last_nonspace (str_txt q k ++ r0) = true) by (rewrite last_nonspace_app; assumption).
    assert (Es : strip (b ++ (str_txt q k ++ r0) ++ e) = str_txt q k ++ r0).
    { rewrite strip_tok by assumption. rewrite rstrip_all_space by assumption. apply app_nil_r. }
    rewrite Es.
    assert (Hnn : str_txt q k ++ r0 <> []) by (unfold str_txt; discriminate).
    assert (Hfc : first_char (str_txt q k ++ r0) = Ok q) by reflexivity.
    rewrite (ltb_length_pos _ Hnn), Hfc. cbn [bind].
    replace (q =? c_comma) with false by (destruct Hq as [->| ->]; reflexivity). rewrite andb_false_r.
    assert (Wk : wf md (TStr q k)) by (cbn; repeat split; assumption).
    pose proof (parse_token_exact lay Hlay md (TStr q k) [] [] r0 eq_refl Wk Hs) as Et.
    cbn [QueryRef.txt kind app] in Et. rewrite Et. cbn [bind].
    rewrite parse_string_exact by assumption. cbn [bind].
    rewrite (rstrip_tok r0 Hl). reflexivity.
  Qed.

  (* ---- phases 3 and 4: the colon, then the value token and its parse ---- *)
  Lemma after_key_value f k acc c1 c2 v pv R tv :
    all_space c1 = true -> all_space c2 = true -> wf md v ->
    sep_start R = true -> (R = [] \/ last_nonspace R = true) ->
    ptok f (kind v) (txt pv v) = Ok tv ->
    after_key f k acc (c1 ++ [c_colon] ++ c2 ++ txt pv v ++ R) = parse_dict md ns f R (dict_set acc k tv).
  Proof.
    intros Hc1 Hc2 Wv HsR HR Hp. unfold after_key.
    destruct (txt_edges lay md v pv Wv) as [Vf Vl].
    assert (Es2 : strip (c1 ++ [c_colon] ++ c2 ++ txt pv v ++ R) = [c_colon] ++ c2 ++ txt pv v ++ R).
    { replace (c1 ++ [c_colon] ++ c2 ++ txt pv v ++ R) with (c1 ++ ([c_colon] ++ c2 ++ txt pv v ++ R) ++ [])
        by (rewrite app_nil_r; reflexivity).
      rewrite strip_tok; [apply app_nil_r|assumption|reflexivity|].
      rewrite app_assoc. apply last_nonspace_tail_app; assumption. }
    rewrite Es2. cbn [app]. replace (c_colon =? c_colon) with true by reflexivity. cbn [negb].
    rewrite (parse_token_exact lay Hlay md v pv c2 R Hc2 Wv HsR). cbn [bind].
    rewrite Hp. cbn [bind].
    replace (rstrip R) with R by (destruct HR as [->|H]; [reflexivity|symmetry; apply rstrip_tok; exact H]).
    reflexivity.
  Qed.

  (* ---- one whole iteration on "key : value" followed by R (nothing, or blank comma ...) ---- *)
  Lemma parse_dict_entry f b e q k c1 c2 v pv R acc tv :
    all_space b = true -> all_space e = true -> wf_str q k ->
    all_space c1 = true -> all_space c2 = true -> wf md v ->
    sep_start R = true -> (R = [] \/ last_nonspace R = true) ->
    ptok f (kind v) (txt pv v) = Ok tv ->
    parse_dict md ns (S f) (b ++ (str_txt q k ++ c1 ++ [c_colon] ++ c2 ++ txt pv v ++ R) ++ e) acc
    = parse_dict md ns f R (dict_set acc k tv).
  Proof.
    intros Hb He Wk Hc1 Hc2 Wv HsR HR Hp.
    destruct (txt_edges lay md v pv Wv) as [Vf Vl].
    rewrite parse_dict_key; [apply after_key_value; assumption|assumption|assumption|assumption| |].
    - apply sep_start_space; [assumption|reflexivity].
    - rewrite !app_assoc. rewrite <- (app_assoc _ (txt pv v) R). apply last_nonspace_tail_app; assumption.
  Qed.

  Lemma parse_dict_blank f b acc : all_space b = true -> parse_dict md ns (S f) b acc = Ok acc.
  Proof. intro H. cbn [parse_dict]. rewrite strip_all_space by assumption. reflexivity. Qed.

  (* ---- the printed entries ---- *)
  Definition prd (pe : list nat) (e : (Z * str) * term) : str :=
    str_txt (fst (fst e)) (snd (fst e)) ++ lay pe 0%nat ++ [c_colon] ++ lay pe 1%nat ++ txt (0%nat :: pe) (snd e).
  Definition entry_tok (e : (Z * str) * term) : str * qtoken := (snd (fst e), tok_of ns (snd e)).
  Definition entry_wf (e : (Z * str) * term) : Prop := wf_str (fst (fst e)) (snd (fst e)) /\ wf md (snd e).

  Lemma prd_edges pe e : entry_wf e -> first_nonspace (prd pe e) = true /\ last_nonspace (prd pe e) = true.
  Proof.
    intros [Hs Hv]. unfold prd. destruct (txt_edges lay md (snd e) (0%nat :: pe) Hv) as [Vf Vl].
    split.
    - destruct Hs as ([E|E] & _); rewrite E; reflexivity.
    - rewrite !app_assoc. rewrite last_nonspace_app; [assumption|]. apply (txt_nonempty lay md). assumption.
  Qed.

  Lemma prd_head pe e : entry_wf e -> exists c x, prd pe e = c :: x /\ is_space c = false /\ (c =? c_comma) = false.
  Proof.
    intros [([E|E] & _) _]; unfold prd, str_txt; rewrite E; eexists; eexists; (split; [reflexivity|split; reflexivity]).
  Qed.

  Lemma sep_core_prd_edges p i d : Forall entry_wf d -> d <> [] ->
    last_nonspace (sep_core lay prd p i d) = true /\
    exists c x, sep_core lay prd p i d = c :: x /\ is_space c = false /\ (c =? c_comma) = false.
  Proof.
    intros Hw Hne.
    assert (Hedges : forall pth x, In x d -> first_nonspace (prd pth x) = true /\ last_nonspace (prd pth x) = true).
    { intros pth x Hx. apply prd_edges. rewrite Forall_forall in Hw. apply Hw. assumption. }
    destruct (sep_core_edges_in lay prd p i d Hedges Hne) as (_ & Cl & _). split; [exact Cl|].
    destruct d as [|a r]; [congruence|]. inversion Hw as [|? ? Wa _]; subst.
    destruct (prd_head (i :: p) a Wa) as (c & x & E & H1 & H2).
    cbn [sep_core]. rewrite E. cbn [app]. eexists; eexists. split; [reflexivity|split; assumption].
  Qed.

  (* the text that follows the first printed entry *)
  Definition dict_rest (p : list nat) (i : nat) (rest : list ((Z * str) * term)) : str :=
    match rest with
    | [] => []
    | _ => lay p (2 * i + 2)%nat ++ [c_comma] ++ lay p (2 * i + 3)%nat ++ sep_core lay prd p (S i) rest
    end.

  Lemma sep_core_prd_cons p i q k v rest :
    sep_core lay prd p i (((q, k), v) :: rest) =
    str_txt q k ++ lay (i :: p) 0%nat ++ [c_colon] ++ lay (i :: p) 1%nat ++ txt (0%nat :: i :: p) v ++ dict_rest p i rest.
  Proof. cbn [sep_core]. unfold prd at 1. cbn [fst snd]. unfold dict_rest. reassoc. Qed.

  Lemma dict_rest_ok p i rest : Forall entry_wf rest ->
    sep_start (dict_rest p i rest) = true /\ (dict_rest p i rest = [] \/ last_nonspace (dict_rest p i rest) = true).
  Proof.
    intro Hw. unfold dict_rest. destruct rest as [|a2 rest2]; [split; [reflexivity|left; reflexivity]|].
    destruct (sep_core_prd_edges p (S i) (a2 :: rest2) Hw ltac:(congruence)) as (Cl & _).
    split; [apply sep_start_space; [apply Hlay|reflexivity]|right].
    rewrite !app_assoc. rewrite last_nonspace_app; [assumption|]. intro E; rewrite E in Cl; discriminate.
  Qed.

  (* ---- QDict.parse's while loop over all printed entries ---- *)
  Lemma parse_dict_exact d : Forall (fun e => P lay md ns (snd e)) d -> Forall entry_wf d -> d <> [] ->
    forall p i b e acc fuel, all_space b = true -> all_space e = true ->
    keys_distinct (map (fun x => snd (fst x)) d) ->
    (forall x, In x d -> ~ In (snd (fst x)) (map fst acc)) ->
    (2 * length (b ++ sep_core lay prd p i d ++ e) + 2 <= fuel)%nat ->
    parse_dict md ns fuel (b ++ sep_core lay prd p i d ++ e) acc = Ok (acc ++ map entry_tok d).
  Proof.
    induction d as [|a rest IH]; [congruence|]. intros HP Hw _ p i b e acc fuel Hb He Hkd Hka Hf.
    inversion HP as [|? ? Pa Prest]; subst. inversion Hw as [|? ? Wa Wrest]; subst. clear HP Hw.
    destruct a as [[q k] v]. destruct Wa as [Ws Wv]. cbn [fst snd] in Ws, Wv, Pa.
    destruct fuel as [|f]; [clear -Hf; lia|].
    rewrite sep_core_prd_cons in Hf |- *.
    destruct (dict_rest_ok p i rest Wrest) as [HsR HR].
    assert (Hfr : ~ In k (map fst acc)) by (apply (Hka ((q, k), v)); left; reflexivity).
    assert (Hpv : ptok f (kind v) (txt (0%nat :: i :: p) v) = Ok (tok_of ns v)).
    { apply (Pa Wv). exact (dict_fuel_value _ _ _ _ _ _ _ _ Hf). }
    rewrite (parse_dict_entry f b e q k _ _ v _ _ acc (tok_of ns v) Hb He Ws (Hlay _ _) (Hlay _ _) Wv HsR HR Hpv).
    rewrite (dict_set_fresh acc k _ Hfr).
    pose proof (dict_fuel_two _ _ _ _ _ _ _ _ Hf) as Hf2.
    destruct f as [|f']; [clear -Hf2; lia|]. clear Hf2 Hpv HsR HR Pa.
    destruct rest as [|a2 rest2].
    - cbn [dict_rest]. rewrite parse_dict_blank by reflexivity. reflexivity.
    - unfold dict_rest in Hf |- *.
      destruct (sep_core_prd_edges p (S i) (a2 :: rest2) Wrest ltac:(congruence)) as (Cl & c0 & x0 & Ec & Hc0 & Hcm).
      pose proof (dict_fuel_rest _ _ _ _ _ _ _ _ _ _ Hf) as Hfi. clear Hf.
      set (core2 := sep_core lay prd p (S i) (a2 :: rest2)) in *.
      replace (lay p (2 * i + 2)%nat ++ [c_comma] ++ lay p (2 * i + 3)%nat ++ core2)
        with ((lay p (2 * i + 2)%nat ++ [c_comma] ++ lay p (2 * i + 3)%nat) ++ core2 ++ [])
        by (rewrite app_nil_r; reassoc).
      rewrite (parse_dict_skip_comma f' _ _ core2 [] c0 x0);
        [|destruct acc; discriminate|apply Hlay|apply Hlay|reflexivity|assumption|assumption|assumption|assumption].
      destruct Hkd as [Hk1 Hk2].
      unfold core2 in *. clear core2.
      rewrite IH; [cbn [map]; rewrite <- app_assoc; reflexivity|assumption|assumption|congruence|apply Hlay|reflexivity
                  |assumption| |assumption].
      intros x Hx. rewrite map_app. cbn [map fst]. intro Hi. apply in_app_or in Hi. destruct Hi as [Hi|[Hi|[]]].
      + apply (Hka x); [right; assumption|assumption].
      + apply Hk1. cbn [fst snd]. rewrite Hi. apply (in_map (fun x => snd (fst x))). assumption.
  Qed.
End DictLoop.
