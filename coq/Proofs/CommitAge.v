(* Lemmas behind C18: the age test of conditional_commit under a monotone clock. *)
From AwVerif Require Import Base.Prelude Model.Commit Proofs.CommitProofs.
From Coq Require Import ZifyBool.

(* ---- specification vocabulary ---- *)

(* The clock never runs backwards: all readings of a trace, in the order in which they
   are (or would be) taken, are non-decreasing, starting from [t]. *)
Fixpoint mono_from (t : Z) (tr : list (micro * clk)) : Prop :=
  match tr with
  | [] => True
  | (_, c) :: rest => t <= r1 c /\ r1 c <= r2 c /\ r2 c <= r3 c /\ mono_from (r3 c) rest
  end.

(* every write with the instant at which it was issued *)
Definition stamp (mc : micro * clk) : list (Z * Z) :=
  map (fun w => (w, r1 (snd mc))) (writes_of_micro (fst mc)).
Definition issued_t (tr : list (micro * clk)) : list (Z * Z) := flat_map stamp tr.

(* the stamped writes that a crash now would lose: by C06_prefix the committed part is
   c0 followed by a prefix of the issued writes, so the lost ones are the rest *)
Definition pending_stamped (c0 : list Z) (tr : list (micro * clk)) (s : cstate) : list (Z * Z) :=
  skipn (length (committed s) - length c0) (issued_t tr).

(* event-write calls: insert_one, replace, replace_last, delete and insert_many with any mix
   of id-carrying and id-less events (also an insert_many in which a statement raises).  Each
   is a block of write statements followed by ONE conditional_commit (insert_many: since
   a00ceb1). *)
Definition event_write_op (o : op) : Prop :=
  match o with
  | InsertOne _ | ReplaceLast _ | Replace _ | Delete _ => True
  | InsertMany _ _ | InsertManyFailed _ _ _ => True
  | _ => False
  end.

(* ---- age flush ---- *)

Lemma age_flush_cond : forall lazy s ws k c,
  r2 c - last_commit s > MAX_AGE ->
  pending (cond_commit lazy k c (add_pending s ws)) = [].
Proof.
  intros lazy s ws k c H.
  destruct (cond_commit_cases lazy k c (add_pending s ws)) as [(_ & _ & _ & H2)|(H1 & _)].
  - cbn [last_commit add_pending] in H2. lia.
  - exact H1.
Qed.

Lemma mono_from_le : forall tr t t', t' <= t -> mono_from t tr -> mono_from t' tr.
Proof. intros [|[m c] tr] t t' H; cbn; [auto|]. intros (H1 & H2); split; [lia|exact H2]. Qed.

(* the readings of a step inside a monotone trace *)
Lemma mono_from_mid : forall a t m c rest,
  mono_from t (a ++ (m, c) :: rest) ->
  t <= r1 c /\ r1 c <= r2 c /\ r2 c <= r3 c /\ mono_from (r3 c) rest.
Proof.
  induction a as [|[m0 c0] a IH]; intros t m c rest H.
  - cbn in H. tauto.
  - cbn [app mono_from] in H. destruct H as (H1 & H2 & H3 & H4).
    destruct (IH _ _ _ _ H4) as (K1 & K2 & K3 & K4). repeat split; try assumption. lia.
Qed.

(* a block: any number of write statements, then one conditional_commit *)
Lemma age_flush_block : forall lazy s tpre k c t,
  Forall is_write (map fst tpre) ->
  mono_from t (tpre ++ [(CondCommit k, c)]) ->
  t - last_commit s > MAX_AGE ->
  pending (run lazy s (tpre ++ [(CondCommit k, c)])) = [].
Proof.
  intros lazy s tpre k c t Hw Hm Hage.
  apply mono_from_mid in Hm. destruct Hm as (H1 & H2 & _).
  rewrite run_app, (run_writes lazy tpre s Hw). cbn [run fold_left]. unfold micro_step. cbn [fst snd].
  apply age_flush_cond. lia.
Qed.

Lemma event_write_split : forall o, event_write_op o ->
  exists pre k, expand o = pre ++ [CondCommit k] /\ Forall is_write pre.
Proof.
  intros o Ho. destruct o; cbn in Ho; try contradiction;
    cbn [expand script_replace script__replace app].
  - exists [Exec w], 1. split; [reflexivity|repeat constructor].
  - exists (flat_map script__replace ups ++ [ExecMany rows]), (Z.of_nat (length ups + length rows)).
    split; [rewrite <- app_assoc; reflexivity|].
    apply Forall_app. split; [apply upserts_are_writes|repeat constructor].
  - exists [Exec w], 1. split; [reflexivity|repeat constructor].
  - exists [Exec w], 1. split; [reflexivity|repeat constructor].
  - exists [Exec w], 1. split; [reflexivity|repeat constructor].
  - exists (flat_map script__replace ups ++ [ExecMany done]),
      (Z.of_nat (length ups + (length done + rest))).
    split; [rewrite <- app_assoc; reflexivity|].
    apply Forall_app. split; [apply upserts_are_writes|repeat constructor].
Qed.

Lemma age_flush_op : forall lazy s o tro t,
  event_write_op o -> map fst tro = expand o ->
  mono_from t tro -> t - last_commit s > MAX_AGE ->
  pending (run lazy s tro) = [].
Proof.
  intros lazy s o tro t Ho Htro Hm Hage.
  destruct (event_write_split o Ho) as (pre & k & E & Hpre). rewrite E in Htro.
  apply map_fst_block in Htro. destruct Htro as (tpre & c & tr' & -> & Hmpre & Hnil).
  apply map_eq_nil in Hnil. subst tr'.
  eapply age_flush_block; [rewrite Hmpre; exact Hpre|exact Hm|exact Hage].
Qed.

(* ---- age bound ---- *)

(* G: the stamped open transaction *)
Definition age_inv (s : cstate) (G : list (Z * Z)) : Prop :=
  map fst G = pending s /\ forall w t, In (w, t) G -> t - last_commit s <= MAX_AGE.

Lemma stamp_fst : forall mc, map fst (stamp mc) = writes_of_micro (fst mc).
Proof.
  intros [m c]. unfold stamp. cbn [fst snd]. rewrite map_map. cbn. apply map_id.
Qed.

Lemma issued_t_fst : forall tr, map fst (issued_t tr) = twrites tr.
Proof.
  induction tr as [|mc tr IH]; [reflexivity|].
  unfold issued_t, twrites in *. cbn [flat_map map writes_of]. rewrite map_app, stamp_fst, IH. reflexivity.
Qed.

(* every write of a run of write statements was issued before the step that follows it *)
Lemma issued_before : forall a t m c rest w ti,
  mono_from t (a ++ (m, c) :: rest) -> In (w, ti) (issued_t a) -> ti <= r1 c.
Proof.
  induction a as [|[m0 c0] a IH]; intros t m c rest w ti Hm Hin; [destruct Hin|].
  cbn [app mono_from] in Hm. destruct Hm as (H1 & H2 & H3 & H4).
  unfold issued_t in Hin. cbn [flat_map] in Hin. apply in_app_or in Hin. destruct Hin as [Hin|Hin].
  - unfold stamp in Hin. cbn [fst snd] in Hin. apply in_map_iff in Hin.
    destruct Hin as (w' & Heq & _). inversion Heq; subst.
    apply mono_from_mid in H4. lia.
  - eapply IH; [exact H4|exact Hin].
Qed.

(* one counted block: write statements followed by their conditional_commit *)
Lemma age_block : forall lazy s G tpre k c2 t,
  age_inv s G -> Forall is_write (map fst tpre) ->
  mono_from t (tpre ++ [(CondCommit k, c2)]) ->
  let s' := run lazy s (tpre ++ [(CondCommit k, c2)]) in
  (age_inv s' (G ++ issued_t tpre) /\ committed s' = committed s) \/
  (age_inv s' [] /\ committed s' = committed s ++ map fst (G ++ issued_t tpre)).
Proof.
  intros lazy s G tpre k c2 t [HG Hage] Hw Hm s'.
  pose proof (mono_from_mid _ _ _ _ _ Hm) as (_ & H12 & _).
  set (s1 := add_pending s (twrites tpre)).
  assert (Hs' : s' = cond_commit lazy k c2 s1).
  { unfold s'. rewrite run_app, (run_writes lazy tpre s Hw). reflexivity. }
  destruct (cond_commit_cases lazy k c2 s1) as [(_ & E & _ & Ht)|(Hp & Hc & _ & _)].
  - left. rewrite Hs', E. unfold s1. cbn [committed set_n add_pending]. split; [|reflexivity].
    split.
    + cbn [pending]. rewrite map_app, issued_t_fst, HG. reflexivity.
    + intros w t' Hin. cbn [last_commit set_n add_pending]. apply in_app_or in Hin. destruct Hin as [Hin|Hin].
      * eapply Hage. exact Hin.
      * pose proof (issued_before _ _ _ _ _ _ _ Hm Hin) as Hle.
        unfold s1 in Ht. cbn [last_commit add_pending] in Ht. lia.
  - right. rewrite Hs'. split.
    + split; [symmetry; exact Hp|]. intros w t' [].
    + rewrite Hc. unfold s1. cbn [committed pending add_pending].
      rewrite map_app, issued_t_fst, HG. reflexivity.
Qed.

Lemma issued_t_app : forall a b, issued_t (a ++ b) = issued_t a ++ issued_t b.
Proof. intros. unfold issued_t. apply flat_map_app. Qed.

Lemma age_inv_commit : forall t s, age_inv (do_commit t s) [].
Proof. intros. split; [reflexivity|]. intros w t' []. Qed.

(* the general step: a complete script run from a quiescent state *)
Lemma qscript_age : forall ms, qscript ms ->
  forall lazy tr s G X c0 t,
    map fst tr = ms -> mono_from t tr -> age_inv s G -> committed s = c0 ++ map fst X ->
    exists G' X',
      age_inv (run lazy s tr) G' /\ committed (run lazy s tr) = c0 ++ map fst X' /\
      X ++ G ++ issued_t tr = X' ++ G'.
Proof.
  induction 1 as [|ms Hq IH|ms Hq IH|pre k ms Hpre Hk Hq IH|w ms Hq IH|w1 w2 ms Hq IH];
    intros lazy tr s G X c0 t Htr Hm Hinv Hc.
  - destruct tr; [|discriminate]. exists G, X. cbn. rewrite app_nil_r. auto.
  - (* Read *)
    apply map_fst_cons in Htr. destruct Htr as (c & tr' & -> & Htr).
    destruct Hm as (_ & _ & _ & Hm).
    rewrite run_cons. cbn [issued_t flat_map stamp fst writes_of_micro map app].
    eapply IH; eauto.
  - (* Commit *)
    apply map_fst_cons in Htr. destruct Htr as (c & tr' & -> & Htr).
    destruct Hm as (_ & _ & _ & Hm).
    rewrite run_cons. cbn [issued_t flat_map stamp fst writes_of_micro map app].
    unfold micro_step. cbn [fst snd].
    destruct (IH lazy tr' (do_commit (r1 c) s) [] (X ++ G) c0 (r3 c) Htr Hm (age_inv_commit _ _))
      as (G' & X' & H1 & H2 & H3).
    { cbn [do_commit set_n set_last flush committed]. destruct Hinv as [HG _].
      rewrite Hc, map_app, HG. apply app_assoc_reverse. }
    exists G', X'. split; [exact H1|split; [exact H2|]].
    rewrite <- H3. cbn [app]. rewrite app_assoc. reflexivity.
  - (* write statements; CondCommit k *)
    apply map_fst_block in Htr. destruct Htr as (tpre & c2 & tr2 & -> & Hmpre & Htr).
    assert (Hw : Forall is_write (map fst tpre)) by (rewrite Hmpre; exact Hpre).
    pose proof (mono_from_mid _ _ _ _ _ Hm) as (_ & _ & _ & Hm3).
    assert (Hm2 : mono_from t (tpre ++ [(CondCommit k, c2)])).
    { clear - Hm. revert t Hm. induction tpre as [|[m0 c0'] a IHa]; intros t Hm.
      - cbn in *. tauto.
      - cbn [app mono_from] in *. destruct Hm as (K1 & K2 & K3 & K4). auto. }
    change (tpre ++ (CondCommit k, c2) :: tr2) with (tpre ++ [(CondCommit k, c2)] ++ tr2).
    rewrite app_assoc, run_app.
    assert (Hiss : issued_t ((tpre ++ [(CondCommit k, c2)]) ++ tr2) = issued_t tpre ++ issued_t tr2).
    { rewrite !issued_t_app. unfold issued_t at 2. cbn. rewrite app_nil_r. reflexivity. }
    rewrite Hiss.
    destruct (age_block lazy s G tpre k c2 t Hinv Hw Hm2) as [(Ha & Hcm)|(Ha & Hcm)].
    + destruct (IH lazy tr2 _ _ X c0 (r3 c2) Htr Hm3 Ha) as (G' & X' & H1 & H2 & H3).
      { rewrite Hcm. exact Hc. }
      exists G', X'. split; [exact H1|split; [exact H2|]].
      rewrite <- H3. rewrite <- !app_assoc. reflexivity.
    + destruct (IH lazy tr2 _ _ (X ++ G ++ issued_t tpre) c0 (r3 c2) Htr Hm3 Ha) as (G' & X' & H1 & H2 & H3).
      { rewrite Hcm, Hc, !map_app. rewrite <- !app_assoc. reflexivity. }
      exists G', X'. split; [exact H1|split; [exact H2|]].
      rewrite <- H3. cbn [app]. rewrite <- !app_assoc. reflexivity.
  - (* Exec w; Commit *)
    apply map_fst_cons in Htr. destruct Htr as (c1 & tr1 & -> & Htr).
    apply map_fst_cons in Htr. destruct Htr as (c2 & tr2 & -> & Htr).
    assert (Hm3 : mono_from (r3 c2) tr2) by (cbn in Hm; tauto).
    rewrite !run_cons. unfold micro_step at 1 2. cbn [fst snd].
    destruct (IH lazy tr2 (do_commit (r1 c2) (add_pending s [w])) []
                 (X ++ G ++ stamp (Exec w, c1)) c0 (r3 c2) Htr Hm3 (age_inv_commit _ _))
      as (G' & X' & H1 & H2 & H3).
    { cbn [do_commit set_n set_last flush add_pending committed pending]. destruct Hinv as [HG _].
      rewrite Hc, !map_app, HG. cbn. rewrite <- !app_assoc. reflexivity. }
    exists G', X'. split; [exact H1|split; [exact H2|]].
    rewrite <- H3. cbn [issued_t flat_map app]. fold (issued_t tr2).
    cbn [stamp fst snd writes_of_micro map app]. rewrite <- !app_assoc. reflexivity.
  - (* Exec w1; Exec w2; Commit *)
    apply map_fst_cons in Htr. destruct Htr as (c1 & tr1 & -> & Htr).
    apply map_fst_cons in Htr. destruct Htr as (c2 & tr2 & -> & Htr).
    apply map_fst_cons in Htr. destruct Htr as (c3 & tr3 & -> & Htr).
    assert (Hm3 : mono_from (r3 c3) tr3) by (cbn in Hm; tauto).
    rewrite !run_cons. unfold micro_step at 1 2 3. cbn [fst snd].
    destruct (IH lazy tr3 (do_commit (r1 c3) (add_pending (add_pending s [w1]) [w2])) []
                 (X ++ G ++ stamp (Exec w1, c1) ++ stamp (Exec w2, c2)) c0 (r3 c3) Htr Hm3
                 (age_inv_commit _ _))
      as (G' & X' & H1 & H2 & H3).
    { cbn [do_commit set_n set_last flush add_pending committed pending]. destruct Hinv as [HG _].
      rewrite Hc, !map_app, HG. cbn. rewrite <- !app_assoc. reflexivity. }
    exists G', X'. split; [exact H1|split; [exact H2|]].
    rewrite <- H3. cbn [issued_t flat_map app]. fold (issued_t tr3).
    cbn [stamp fst snd writes_of_micro map app]. rewrite <- !app_assoc. reflexivity.
Qed.

Lemma age_bound : forall lazy c0 t0 h tr t,
  map fst tr = expand_all h -> mono_from t tr ->
  let s := run lazy (init c0 t0) tr in
  map fst (pending_stamped c0 tr s) = pending s /\
  forall w ti, In (w, ti) (pending_stamped c0 tr s) -> ti - last_commit s <= MAX_AGE.
Proof.
  intros lazy c0 t0 h tr t Htr Hm s.
  destruct (qscript_age (expand_all h) (qscript_expand_all h) lazy tr (init c0 t0) [] [] c0 t Htr Hm)
    as (G' & X' & [HG Hage] & Hc & Hiss).
  { split; [reflexivity|]. intros w t' []. }
  { cbn. symmetry. apply app_nil_r. }
  fold s in HG, Hage, Hc. cbn [app] in Hiss.
  assert (E : pending_stamped c0 tr s = G').
  { unfold pending_stamped. rewrite Hc, Hiss, app_length, map_length.
    replace (length c0 + length X' - length c0)%nat with (length X') by lia.
    rewrite skipn_app, skipn_all, Nat.sub_diag. reflexivity. }
  rewrite E. split; assumption.
Qed.

(* sensitivity: with the script insert_many had before ec39c3d, the rows of a bulk insert
   that raised part-way 100 s after the last commit stay pending when the call returns,
   without ever having passed the age test *)
Lemma pre_fix_failed_bulk_breaks_age_bound :
  let tr := map (fun m => (m, mkClk 100000000 100000000 100000000))
                (pre_ec39c3d_insert_many_failed [] [7; 8]) in
  let s := run true (init [] 0) tr in
  mono_from 0 tr /\
  exists w ti, In (w, ti) (pending_stamped [] tr s) /\ ti - last_commit s > MAX_AGE.
Proof.
  split; [cbn; lia|].
  exists 7, 100000000. split; [left; reflexivity|]. vm_compute. reflexivity.
Qed.

(* sensitivity: the script insert_many had before a00ceb1 (every upsert a counted block of
   its own).  A list of three id-carrying events handed over 30 s after the last commit: the
   first upsert flushes and restarts the ten seconds, the other two are young and are still
   pending when the call returns.  With the script of [expand] nothing is pending. *)
Lemma pre_fix_bulk_partly_flushed :
  let at_ t := mkClk t t t in
  let tr_old := map (fun m => (m, at_ 30000000)) (pre_a00ceb1_insert_many [1; 2; 3] []) in
  let tr_new := map (fun m => (m, at_ 30000000)) (expand (InsertMany [1; 2; 3] [])) in
  mono_from 30000000 tr_old /\ 30000000 - last_commit (init [] 0) > MAX_AGE /\
  pending (run true (init [] 0) tr_old) = [2; 3] /\ recover (run true (init [] 0) tr_old) = [1] /\
  pending (run true (init [] 0) tr_new) = [] /\ recover (run true (init [] 0) tr_new) = [1; 2; 3].
Proof. vm_compute. repeat split; try reflexivity; intros H; discriminate H. Qed.
