(* Lemmas behind C18: the age test of conditional_commit under a monotone clock. *)
From AwVerif Require Import Base.Prelude Model.Commit Proofs.CommitProofs.
From Coq Require Import ZifyBool.

(* ---- specification vocabulary ---- *)

(* The clock never runs backwards: all readings of a trace, in the order in which they
   are (or would be) taken, are non-decreasing, starting from [t]. *)
Fixpoint mono_from (t : Z) (tr : list (micro * clk)) : Prop :=
  match tr with
  | [] => True
  | (_, c) :: rest => t <= r1 c /\ r1 c <= r2 c /\ r2 c <= r3 c /\ mono_from (r3 c) rest
  end.

(* every write with the instant at which it was issued *)
Definition stamp (mc : micro * clk) : list (Z * Z) :=
  map (fun w => (w, r1 (snd mc))) (writes_of_micro (fst mc)).
Definition issued_t (tr : list (micro * clk)) : list (Z * Z) := flat_map stamp tr.

(* the stamped writes that a crash now would lose: by C06_prefix the committed part is
   c0 followed by a prefix of the issued writes, so the lost ones are the rest *)
Definition pending_stamped (c0 : list Z) (tr : list (micro * clk)) (s : cstate) : list (Z * Z) :=
  skipn (length (committed s) - length c0) (issued_t tr).

(* event-write calls made of one statement block *)
Definition single_block_op (o : op) : Prop :=
  match o with
  | InsertOne _ | ReplaceLast _ | Replace _ | Delete _ => True
  | InsertMany [] _ => True
  | _ => False
  end.

(* ---- age flush ---- *)

Lemma age_flush_cond : forall lazy s ws k c,
  r2 c - last_commit s > MAX_AGE ->
  pending (cond_commit lazy k c (add_pending s ws)) = [].
Proof.
  intros lazy s ws k c H.
  destruct (cond_commit_cases lazy k c (add_pending s ws)) as [(_ & _ & _ & H2)|(H1 & _)].
  - cbn [last_commit add_pending] in H2. lia.
  - exact H1.
Qed.

Lemma age_flush_block : forall lazy s m k c1 c2 t,
  writes_of_micro m <> [] \/ m = ExecMany [] ->
  mono_from t [(m, c1); (CondCommit k, c2)] ->
  t - last_commit s > MAX_AGE ->
  pending (run lazy s [(m, c1); (CondCommit k, c2)]) = [].
Proof.
  intros lazy s m k c1 c2 t Hm (H1 & H2 & H3 & H4 & H5 & H6 & _) Hage.
  cbn [run fold_left]. unfold micro_step. cbn [fst snd].
  destruct m; cbn in Hm; try (destruct Hm; congruence);
    apply age_flush_cond; cbn; lia.
Qed.

Lemma age_flush_op : forall lazy s o tro t,
  single_block_op o -> map fst tro = expand o ->
  mono_from t tro -> t - last_commit s > MAX_AGE ->
  pending (run lazy s tro) = [].
Proof.
  intros lazy s o tro t Ho Htro Hm Hage.
  destruct o; cbn in Ho; try contradiction;
    try (destruct ups; [|contradiction]);
    cbn [expand script_replace flat_map app] in Htro;
    repeat (apply map_fst_cons in Htro; destruct Htro as (? & ? & -> & Htro));
    apply map_eq_nil in Htro; subst;
    (eapply age_flush_block; [|exact Hm|exact Hage]);
    try (left; discriminate).
  destruct rows; [right; reflexivity|left; discriminate].
Qed.

(* ---- age bound ---- *)

(* G: the stamped open transaction *)
Definition age_inv (s : cstate) (G : list (Z * Z)) : Prop :=
  map fst G = pending s /\ forall w t, In (w, t) G -> t - last_commit s <= MAX_AGE.

Lemma mono_from_le : forall tr t t', t' <= t -> mono_from t tr -> mono_from t' tr.
Proof. intros [|[m c] tr] t t' H; cbn; [auto|]. intros (H1 & H2); split; [lia|exact H2]. Qed.

Lemma stamp_fst : forall mc, map fst (stamp mc) = writes_of_micro (fst mc).
Proof.
  intros [m c]. unfold stamp. cbn [fst snd]. rewrite map_map. cbn. apply map_id.
Qed.

(* one counted block: statement(s) followed by their conditional_commit *)
Lemma age_block : forall lazy s G m k c1 c2 t,
  age_inv s G -> no_commit m ->
  mono_from t [(m, c1); (CondCommit k, c2)] ->
  let s' := run lazy s [(m, c1); (CondCommit k, c2)] in
  (age_inv s' (G ++ stamp (m, c1)) /\ committed s' = committed s) \/
  (age_inv s' [] /\ committed s' = committed s ++ map fst (G ++ stamp (m, c1))).
Proof.
  intros lazy s G m k c1 c2 t [HG Hage] Hm (H1 & H2 & H3 & H4 & H5 & H6 & _) s'.
  set (s1 := micro_step lazy s (m, c1)).
  assert (Hs1 : s1 = add_pending s (writes_of_micro m)).
  { unfold s1, micro_step. cbn [fst]. destruct m; cbn in Hm; try contradiction; cbn [writes_of_micro].
    - reflexivity.
    - reflexivity.
    - unfold add_pending. rewrite app_nil_r. destruct s; reflexivity. }
  assert (Hs' : s' = cond_commit lazy k c2 s1) by reflexivity.
  destruct (cond_commit_cases lazy k c2 s1) as [(_ & E & _ & Ht)|(Hp & Hc & _ & _)].
  - left. rewrite Hs', E, Hs1. cbn [committed set_n add_pending]. split; [|reflexivity].
    split.
    + cbn [pending]. rewrite map_app, stamp_fst, HG. reflexivity.
    + intros w t' Hin. cbn [last_commit set_n add_pending]. apply in_app_or in Hin. destruct Hin as [Hin|Hin].
      * eapply Hage. exact Hin.
      * unfold stamp in Hin. cbn [fst snd] in Hin. apply in_map_iff in Hin.
        destruct Hin as (w' & Heq & _). inversion Heq; subst.
        rewrite Hs1 in Ht. cbn [last_commit add_pending] in Ht. lia.
  - right. rewrite Hs'. split.
    + split; [symmetry; exact Hp|]. intros w t' [].
    + rewrite Hc, Hs1. cbn [committed pending add_pending].
      rewrite map_app, stamp_fst, HG. reflexivity.
Qed.

Lemma age_inv_commit : forall t s, age_inv (do_commit t s) [].
Proof. intros. split; [reflexivity|]. intros w t' []. Qed.

(* the general step: a complete script run from a quiescent state *)
Lemma qscript_age : forall ms, qscript ms ->
  forall lazy tr s G X c0 t,
    map fst tr = ms -> mono_from t tr -> age_inv s G -> committed s = c0 ++ map fst X ->
    exists G' X',
      age_inv (run lazy s tr) G' /\ committed (run lazy s tr) = c0 ++ map fst X' /\
      X ++ G ++ issued_t tr = X' ++ G'.
Proof.
  induction 1 as [|ms Hq IH|ms Hq IH|w ms Hq IH|ws k ms Hk Hq IH|w ms Hq IH|w1 w2 ms Hq IH];
    intros lazy tr s G X c0 t Htr Hm Hinv Hc.
  - destruct tr; [|discriminate]. exists G, X. cbn. rewrite app_nil_r. auto.
  - (* Read *)
    apply map_fst_cons in Htr. destruct Htr as (c & tr' & -> & Htr).
    destruct Hm as (_ & _ & _ & Hm).
    rewrite run_cons. cbn [issued_t flat_map stamp fst writes_of_micro map app].
    eapply IH; eauto.
  - (* Commit *)
    apply map_fst_cons in Htr. destruct Htr as (c & tr' & -> & Htr).
    destruct Hm as (_ & _ & _ & Hm).
    rewrite run_cons. cbn [issued_t flat_map stamp fst writes_of_micro map app].
    unfold micro_step. cbn [fst snd].
    destruct (IH lazy tr' (do_commit (r1 c) s) [] (X ++ G) c0 (r3 c) Htr Hm (age_inv_commit _ _))
      as (G' & X' & H1 & H2 & H3).
    { cbn [do_commit set_n set_last flush committed]. destruct Hinv as [HG _].
      rewrite Hc, map_app, HG. apply app_assoc_reverse. }
    exists G', X'. split; [exact H1|split; [exact H2|]].
    rewrite <- H3. cbn [app]. rewrite app_assoc. reflexivity.
  - (* Exec w; CondCommit 1 *)
    apply map_fst_cons in Htr. destruct Htr as (c1 & tr1 & -> & Htr).
    apply map_fst_cons in Htr. destruct Htr as (c2 & tr2 & -> & Htr).
    assert (Hm2 : mono_from t [(Exec w, c1); (CondCommit 1, c2)]) by (cbn in *; tauto).
    assert (Hm3 : mono_from (r3 c2) tr2) by (cbn in Hm; tauto).
    change ((Exec w, c1) :: (CondCommit 1, c2) :: tr2)
      with ([(Exec w, c1); (CondCommit 1, c2)] ++ tr2).
    rewrite run_app.
    destruct (age_block lazy s G (Exec w) 1 c1 c2 t Hinv I Hm2) as [(Ha & Hcm)|(Ha & Hcm)].
    + destruct (IH lazy tr2 _ _ X c0 (r3 c2) Htr Hm3 Ha) as (G' & X' & H1 & H2 & H3).
      { rewrite Hcm. exact Hc. }
      exists G', X'. split; [exact H1|split; [exact H2|]].
      rewrite <- H3. unfold issued_t. rewrite flat_map_app. cbn [flat_map]. rewrite app_nil_r.
      rewrite <- !app_assoc. reflexivity.
    + destruct (IH lazy tr2 _ _ (X ++ G ++ stamp (Exec w, c1)) c0 (r3 c2) Htr Hm3 Ha) as (G' & X' & H1 & H2 & H3).
      { rewrite Hcm, Hc, !map_app. rewrite <- !app_assoc. reflexivity. }
      exists G', X'. split; [exact H1|split; [exact H2|]].
      rewrite <- H3. unfold issued_t. rewrite flat_map_app. cbn [flat_map app]. rewrite app_nil_r.
      rewrite <- !app_assoc. reflexivity.
  - (* ExecMany ws; CondCommit k *)
    apply map_fst_cons in Htr. destruct Htr as (c1 & tr1 & -> & Htr).
    apply map_fst_cons in Htr. destruct Htr as (c2 & tr2 & -> & Htr).
    assert (Hm2 : mono_from t [(ExecMany ws, c1); (CondCommit k, c2)]) by (cbn in *; tauto).
    assert (Hm3 : mono_from (r3 c2) tr2) by (cbn in Hm; tauto).
    change ((ExecMany ws, c1) :: (CondCommit k, c2) :: tr2)
      with ([(ExecMany ws, c1); (CondCommit k, c2)] ++ tr2).
    rewrite run_app.
    destruct (age_block lazy s G (ExecMany ws) k c1 c2 t Hinv I Hm2) as [(Ha & Hcm)|(Ha & Hcm)].
    + destruct (IH lazy tr2 _ _ X c0 (r3 c2) Htr Hm3 Ha) as (G' & X' & H1 & H2 & H3).
      { rewrite Hcm. exact Hc. }
      exists G', X'. split; [exact H1|split; [exact H2|]].
      rewrite <- H3. unfold issued_t. rewrite flat_map_app. cbn [flat_map]. rewrite app_nil_r.
      rewrite <- !app_assoc. reflexivity.
    + destruct (IH lazy tr2 _ _ (X ++ G ++ stamp (ExecMany ws, c1)) c0 (r3 c2) Htr Hm3 Ha) as (G' & X' & H1 & H2 & H3).
      { rewrite Hcm, Hc, !map_app. rewrite <- !app_assoc. reflexivity. }
      exists G', X'. split; [exact H1|split; [exact H2|]].
      rewrite <- H3. unfold issued_t. rewrite flat_map_app. cbn [flat_map app]. rewrite app_nil_r.
      rewrite <- !app_assoc. reflexivity.
  - (* Exec w; Commit *)
    apply map_fst_cons in Htr. destruct Htr as (c1 & tr1 & -> & Htr).
    apply map_fst_cons in Htr. destruct Htr as (c2 & tr2 & -> & Htr).
    assert (Hm3 : mono_from (r3 c2) tr2) by (cbn in Hm; tauto).
    rewrite !run_cons. unfold micro_step at 1 2. cbn [fst snd].
    destruct (IH lazy tr2 (do_commit (r1 c2) (add_pending s [w])) []
                 (X ++ G ++ stamp (Exec w, c1)) c0 (r3 c2) Htr Hm3 (age_inv_commit _ _))
      as (G' & X' & H1 & H2 & H3).
    { cbn [do_commit set_n set_last flush add_pending committed pending]. destruct Hinv as [HG _].
      rewrite Hc, !map_app, HG. cbn. rewrite <- !app_assoc. reflexivity. }
    exists G', X'. split; [exact H1|split; [exact H2|]].
    rewrite <- H3. cbn [issued_t flat_map app]. fold (issued_t tr2).
    cbn [stamp fst snd writes_of_micro map app]. rewrite <- !app_assoc. reflexivity.
  - (* Exec w1; Exec w2; Commit *)
    apply map_fst_cons in Htr. destruct Htr as (c1 & tr1 & -> & Htr).
    apply map_fst_cons in Htr. destruct Htr as (c2 & tr2 & -> & Htr).
    apply map_fst_cons in Htr. destruct Htr as (c3 & tr3 & -> & Htr).
    assert (Hm3 : mono_from (r3 c3) tr3) by (cbn in Hm; tauto).
    rewrite !run_cons. unfold micro_step at 1 2 3. cbn [fst snd].
    destruct (IH lazy tr3 (do_commit (r1 c3) (add_pending (add_pending s [w1]) [w2])) []
                 (X ++ G ++ stamp (Exec w1, c1) ++ stamp (Exec w2, c2)) c0 (r3 c3) Htr Hm3
                 (age_inv_commit _ _))
      as (G' & X' & H1 & H2 & H3).
    { cbn [do_commit set_n set_last flush add_pending committed pending]. destruct Hinv as [HG _].
      rewrite Hc, !map_app, HG. cbn. rewrite <- !app_assoc. reflexivity. }
    exists G', X'. split; [exact H1|split; [exact H2|]].
    rewrite <- H3. cbn [issued_t flat_map app]. fold (issued_t tr3).
    cbn [stamp fst snd writes_of_micro map app]. rewrite <- !app_assoc. reflexivity.
Qed.

Lemma age_bound : forall lazy c0 t0 h tr t,
  map fst tr = expand_all h -> mono_from t tr ->
  let s := run lazy (init c0 t0) tr in
  map fst (pending_stamped c0 tr s) = pending s /\
  forall w ti, In (w, ti) (pending_stamped c0 tr s) -> ti - last_commit s <= MAX_AGE.
Proof.
  intros lazy c0 t0 h tr t Htr Hm s.
  destruct (qscript_age (expand_all h) (qscript_expand_all h) lazy tr (init c0 t0) [] [] c0 t Htr Hm)
    as (G' & X' & [HG Hage] & Hc & Hiss).
  { split; [reflexivity|]. intros w t' []. }
  { cbn. symmetry. apply app_nil_r. }
  fold s in HG, Hage, Hc. cbn [app] in Hiss.
  assert (E : pending_stamped c0 tr s = G').
  { unfold pending_stamped. rewrite Hc, Hiss, app_length, map_length.
    replace (length c0 + length X' - length c0)%nat with (length X') by lia.
    rewrite skipn_app, skipn_all, Nat.sub_diag. reflexivity. }
  rewrite E. split; assumption.
Qed.

(* sensitivity: with the script insert_many had before ec39c3d, the rows of a bulk insert
   that raised part-way 100 s after the last commit stay pending when the call returns,
   without ever having passed the age test *)
Lemma pre_fix_failed_bulk_breaks_age_bound :
  let tr := map (fun m => (m, mkClk 100000000 100000000 100000000))
                (pre_ec39c3d_insert_many_failed [] [7; 8]) in
  let s := run true (init [] 0) tr in
  mono_from 0 tr /\
  exists w ti, In (w, ti) (pending_stamped [] tr s) /\ ti - last_commit s > MAX_AGE.
Proof.
  split; [cbn; lia|].
  exists 7, 100000000. split; [left; reflexivity|]. vm_compute. reflexivity.
Qed.
