(* C07: the representation invariants used by IngestSqlite.v / IngestPeewee.v follow from
   the invariants the store proofs (C02/C04, Proofs/Store*Proofs.v) establish for every
   state reachable from the empty database by ANY history of operations with ANY
   arguments; hence the C07 theorems hold after every history. *)
From Coq Require Import Sorted.
From AwVerif Require Import Base.Prelude Model.Heartbeat Model.StoreBase Model.MemStore
  Model.SqliteStore Model.PeeweeStore Model.Ingest
  Proofs.StoreSqliteProofs Proofs.StorePeeweeProofs
  Proofs.IngestBase Proofs.IngestSqlite Proofs.IngestPeewee.

Lemma sq_Inv_inv : forall c, sq_Inv c -> sq_inv c.
Proof.
  intros c H. split; [exact (sqi_rowids c H)|]. split; [exact (sqi_eids c H)|].
  apply Forall_forall. exact (sqi_eid_bound c H).
Qed.

Lemma pw_Inv_inv : forall c, pw_Inv c -> pw_inv c.
Proof.
  intros c H. split; [exact (pwi_keys c H)|]. split; [exact (pwi_eids c H)|exact (pwi_cache c H)].
Qed.

Lemma sq_reachable_inv : forall h, sq_inv (sq_run sq_init h).
Proof. intros h. apply sq_Inv_inv, sq_run_Inv, sq_Inv_init. Qed.

Lemma pw_reachable_inv : forall h, pw_inv (pw_run pw_init h).
Proof. intros h. apply pw_Inv_inv, pw_run_Inv, pw_Inv_init. Qed.

Lemma sq_ingest_eq_reduce_reachable : forall h b p m stream,
  sq_view (sq_run sq_init h) b = Some (m, []) ->
  Forall (fun e => eid e = None /\ 0 <= eend e /\ ts e <= MAX_TIMESTAMP) stream ->
  StronglySorted (fun a c => ts a < ts c) stream ->
  exists st' o es',
    ingest_stream sq_step (sq_run sq_init h) b p stream = (st', Ok o) /\
    sq_view st' b = Some (m, es') /\
    map strip_id es' = heartbeat_reduce stream p /\
    (forall b', b' <> b -> sq_view st' b' = sq_view (sq_run sq_init h) b').
Proof.
  intros h b p m stream Hv Hst Hs.
  destruct (sq_ingest_eq_reduce _ b p m stream (sq_reachable_inv h) Hv Hst Hs)
    as (st' & o & es' & H1 & H2 & H3 & H4 & _).
  exists st', o, es'. tauto.
Qed.

Lemma pw_ingest_eq_reduce_reachable : forall h b p m stream,
  pw_view (pw_run pw_init h) b = Some (m, []) ->
  Forall (fun e => eid e = None) stream ->
  StronglySorted (fun a c => ts a < ts c) stream ->
  exists st' o es',
    ingest_stream pw_step (pw_run pw_init h) b p stream = (st', Ok o) /\
    pw_view st' b = Some (m, es') /\
    map strip_id es' = heartbeat_reduce stream p /\
    (forall b', b' <> b -> pw_view st' b' = pw_view (pw_run pw_init h) b').
Proof.
  intros h b p m stream Hv Hst Hs.
  destruct (pw_ingest_eq_reduce _ b p m stream (pw_reachable_inv h) Hv Hst Hs)
    as (st' & o & es' & H1 & H2 & H3 & H4 & _).
  exists st', o, es'. tauto.
Qed.
