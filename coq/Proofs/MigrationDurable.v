(* C14, durability of the migrated data: when SqliteStorage.__init__ returns from a
   migration nothing is left in the open transaction, whatever the lazy-commit flag and
   the clock.  Lemmas about Model/MigrationCommit.v over Model/Commit.v. *)
From AwVerif Require Import Base.Prelude Model.MigrationCommit.
From AwVerif Require Model.Commit.

Definition total (s : Commit.cstate) : list Z := Commit.committed s ++ Commit.pending s.

Definition writes_of (m : Commit.micro) : list Z :=
  match m with
  | Commit.Exec w => [w]
  | Commit.ExecMany ws => ws
  | _ => []
  end.

Lemma total_do_commit : forall t s, total (Commit.do_commit t s) = total s.
Proof. intros t s. unfold total, Commit.do_commit. cbn. rewrite app_nil_r. reflexivity. Qed.

Lemma total_set_n : forall s n, total (Commit.set_n s n) = total s.
Proof. reflexivity. Qed.

Lemma total_cond_commit : forall lazy k c s, total (Commit.cond_commit lazy k c s) = total s.
Proof.
  intros lazy k c s. unfold Commit.cond_commit. destruct lazy; [|apply total_do_commit].
  cbv zeta.
  destruct (Commit.n_unc (Commit.set_n s (Commit.n_unc s + k)) >? Commit.THRESHOLD);
  match goal with |- context [if ?b then _ else _] => destruct b end;
  rewrite ?total_do_commit, ?total_set_n; reflexivity.
Qed.

Lemma total_micro_step : forall lazy s mc,
  total (Commit.micro_step lazy s mc) = total s ++ writes_of (fst mc).
Proof.
  intros lazy s [m c]. unfold Commit.micro_step. cbn [fst snd]. destruct m; cbn [writes_of].
  - unfold total, Commit.add_pending. cbn. rewrite app_assoc. reflexivity.
  - unfold total, Commit.add_pending. cbn. rewrite app_assoc. reflexivity.
  - rewrite app_nil_r. reflexivity.
  - rewrite total_do_commit, app_nil_r. reflexivity.
  - rewrite total_cond_commit, app_nil_r. reflexivity.
Qed.

Lemma total_run : forall lazy tr s,
  total (Commit.run lazy s tr) = total s ++ flat_map writes_of (map fst tr).
Proof.
  unfold Commit.run. induction tr as [|mc tr IH]; intros s; cbn [fold_left map flat_map].
  - rewrite app_nil_r. reflexivity.
  - rewrite IH, total_micro_step, app_assoc. reflexivity.
Qed.

Lemma writes_bucket_micro : forall b, flat_map writes_of (bucket_micro b) = fst b :: snd b.
Proof. intros [w rows]. cbn. rewrite app_nil_r. reflexivity. Qed.

Lemma writes_loop : forall bs, flat_map writes_of (flat_map bucket_micro bs) = all_writes bs.
Proof.
  induction bs as [|b bs IH]; [reflexivity|].
  cbn [flat_map]. rewrite flat_map_app, writes_bucket_micro, IH. reflexivity.
Qed.

Lemma pending_after_commit : forall lazy s c,
  Commit.pending (Commit.micro_step lazy s (Commit.Commit, c)) = [].
Proof. reflexivity. Qed.

Theorem migration_durable : forall lazy t0 bs tr,
  map fst tr = migration_micro bs ->
  let s := Commit.run lazy (Commit.init [] t0) tr in
  Commit.pending s = [] /\ Commit.recover s = all_writes bs.
Proof.
  intros lazy t0 bs tr Htr. cbv zeta.
  assert (Hp : Commit.pending (Commit.run lazy (Commit.init [] t0) tr) = []).
  { unfold migration_micro in Htr. cbn [INIT_COMMITS_AFTER_MIGRATION] in Htr.
    apply map_eq_app in Htr. destruct Htr as [tr1 [tr2 [-> [_ H2]]]].
    destruct tr2 as [|[m c] [|? ?]]; try discriminate. cbn in H2. inversion H2; subst m.
    unfold Commit.run. rewrite fold_left_app. cbn [fold_left]. apply pending_after_commit. }
  split; [exact Hp|].
  pose proof (total_run lazy tr (Commit.init [] t0)) as Ht.
  unfold total in Ht. rewrite Hp, app_nil_r in Ht. unfold Commit.recover. rewrite Ht.
  rewrite Htr. unfold migration_micro. rewrite flat_map_app, writes_loop. cbn. rewrite app_nil_r. reflexivity.
Qed.

(* without the final commit the last bucket's rows can stay pending: the clause is needed *)
Lemma migration_tail_pending_without_commit :
  let tr := map (fun m => (m, Commit.mkClk 0 0 0)) (flat_map bucket_micro [(1, [2; 3])]) in
  Commit.pending (Commit.run true (Commit.init [] 0) tr) = [2; 3].
Proof. vm_compute. reflexivity. Qed.
