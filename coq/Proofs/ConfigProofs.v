(* Lemmas about _merge (Model/Config.v): the overlay law at one level and along key paths,
   the key list of the result, and the skeleton lemma (merging a table with a skeleton of
   empty tables of itself changes nothing). *)
From AwVerif Require Import Base.Prelude Model.Config.

(* ------------------------------------------------------------------------------------ *)
(* vocabulary of the statements *)

(* The value below a path of keys; [] is the value itself. *)
Fixpoint get_in (p : list Z) (v : toml) : option toml :=
  match p with
  | [] => Some v
  | k :: p' =>
      match v with
      | Tab t => match lookup k t with Some v' => get_in p' v' | None => None end
      | _ => None
      end
  end.

Definition get (p : list Z) (t : table) : option toml := get_in p (Tab t).

(* The document does not set path p: walking p leaves the document at a key that a table
   of the document does not have (it is not cut short by a non-table value either). *)
Fixpoint unset (p : list Z) (t : table) : Prop :=
  match p with
  | [] => False
  | k :: p' =>
      match lookup k t with
      | None => True
      | Some (Tab t') => unset p' t'
      | Some _ => False
      end
  end.

(* No table of the value has the same key twice (TOML forbids it; a Python dict cannot). *)
Inductive wf : toml -> Prop :=
  | wf_leaf : forall l, wf (Leaf l)
  | wf_aot : forall xs, wf (Aot xs)
  | wf_tab : forall es, NoDup (keys es) -> (forall k v, In (k, v) es -> wf v) -> wf (Tab es).

(* ------------------------------------------------------------------------------------ *)
(* association lists *)

Lemma lookup_In : forall k t v, lookup k t = Some v -> In (k, v) t.
Proof.
  induction t as [|[k' v'] t IH]; cbn; intros v H; [discriminate|].
  destruct (k' =? k) eqn:E.
  - apply Z.eqb_eq in E. inversion H. subst. now left.
  - right. now apply IH.
Qed.

Lemma lookup_None_notin : forall k t, lookup k t = None <-> ~ In k (keys t).
Proof.
  induction t as [|[k' v'] t IH]; cbn.
  - tauto.
  - destruct (k' =? k) eqn:E.
    + apply Z.eqb_eq in E. split; [discriminate|]. intros H. exfalso. apply H. now left.
    + apply Z.eqb_neq in E. rewrite IH. tauto.
Qed.

Lemma In_lookup_nodup : forall t k v, NoDup (keys t) -> In (k, v) t -> lookup k t = Some v.
Proof.
  induction t as [|[k' v'] t IH]; cbn; intros k v ND H; [contradiction|].
  inversion ND as [|? ? Hnotin ND']; subst.
  destruct H as [H|H].
  - inversion H; subst. now rewrite Z.eqb_refl.
  - destruct (k' =? k) eqn:E.
    + apply Z.eqb_eq in E. subst. exfalso. apply Hnotin.
      change k with (fst (k, v)). now apply in_map.
    + now apply IH.
Qed.

Lemma lookup_upsert_same : forall k f a, lookup k (upsert k f a) = Some (f (lookup k a)).
Proof.
  induction a as [|[k' v'] a IH]; cbn.
  - now rewrite Z.eqb_refl.
  - destruct (k' =? k) eqn:E; cbn; rewrite E; [reflexivity|exact IH].
Qed.

Lemma lookup_upsert_other : forall k k0 f a, k0 <> k -> lookup k (upsert k0 f a) = lookup k a.
Proof.
  induction a as [|[k' v'] a IH]; cbn; intros Hne.
  - destruct (k0 =? k) eqn:E; [apply Z.eqb_eq in E; contradiction|reflexivity].
  - destruct (k' =? k0) eqn:E0; cbn.
    + apply Z.eqb_eq in E0. subst k'.
      destruct (k0 =? k) eqn:E; [apply Z.eqb_eq in E; contradiction|reflexivity].
    + destruct (k' =? k); [reflexivity|now apply IH].
Qed.

Lemma keys_upsert : forall k f a,
  keys (upsert k f a) = if mem k a then keys a else keys a ++ [k].
Proof.
  unfold mem, keys. induction a as [|[k' v'] a IH]; cbn [upsert map fst lookup app]; [reflexivity|].
  destruct (k' =? k) eqn:E; cbn [map fst]; [reflexivity|].
  rewrite IH. now destruct (lookup k a).
Qed.

Lemma mem_upsert : forall k k0 f a, mem k (upsert k0 f a) = mem k a || (k0 =? k).
Proof.
  intros k k0 f a. unfold mem. destruct (k0 =? k) eqn:E.
  - apply Z.eqb_eq in E. subst. rewrite lookup_upsert_same. now rewrite orb_true_r.
  - apply Z.eqb_neq in E. rewrite lookup_upsert_other by assumption. now rewrite orb_false_r.
Qed.

(* a[key] = v where a[key] already is v *)
Lemma upsert_same_value : forall k f a v,
  lookup k a = Some v -> f (Some v) = v -> upsert k f a = a.
Proof.
  induction a as [|[k' v'] a IH]; cbn; intros v H Hf; [discriminate|].
  destruct (k' =? k) eqn:E.
  - inversion H; subst. now rewrite Hf.
  - f_equal. now apply IH with v.
Qed.

(* ------------------------------------------------------------------------------------ *)
(* unfolding _merge *)

Lemma merge_nil : forall a, merge a [] = a.
Proof. reflexivity. Qed.

Lemma merge_cons : forall a k vb b,
  merge a ((k, vb) :: b) = merge (upsert k (overlay vb) a) b.
Proof. reflexivity. Qed.

(* what one key of b does to a's value: the code's three branches *)
Lemma overlay_eq : forall vb va,
  overlay vb va = match va, vb with
                  | Some (Tab ta), Tab tb => Tab (merge ta tb)
                  | _, _ => vb
                  end.
Proof.
  intros vb va. destruct vb as [l|tb|xs]; cbn.
  - now destruct va as [[| |]|].
  - now destruct va as [[| |]|].
  - now destruct va as [[| |]|].
Qed.

Lemma overlay_None : forall vb, overlay vb None = vb.
Proof. intros vb. now rewrite overlay_eq. Qed.

(* ------------------------------------------------------------------------------------ *)
(* the overlay law, one level *)

Lemma merge_lookup : forall b a k,
  NoDup (keys b) ->
  lookup k (merge a b) =
  match lookup k b with
  | None => lookup k a
  | Some vb => Some (overlay vb (lookup k a))
  end.
Proof.
  induction b as [|[k0 v0] b IH]; intros a k ND.
  - reflexivity.
  - rewrite merge_cons. cbn [keys map fst] in ND. inversion ND as [|? ? Hnotin ND']; subst.
    rewrite IH by assumption. cbn [lookup].
    destruct (k0 =? k) eqn:E.
    + apply Z.eqb_eq in E. subst k0.
      apply lookup_None_notin in Hnotin. rewrite Hnotin.
      now rewrite lookup_upsert_same.
    + apply Z.eqb_neq in E. now rewrite lookup_upsert_other by assumption.
Qed.

(* DESIGN section 5, C20: the statement with the three branches written out *)
Lemma merge_overlay_law : forall a b k,
  NoDup (keys b) ->
  lookup k (merge a b) =
  match lookup k b with
  | None => lookup k a
  | Some vb =>
      match lookup k a, vb with
      | Some (Tab ta), Tab tb => Some (Tab (merge ta tb))
      | _, _ => Some vb
      end
  end.
Proof.
  intros a b k ND. rewrite merge_lookup by assumption.
  destruct (lookup k b) as [vb|]; [|reflexivity].
  rewrite overlay_eq. destruct (lookup k a) as [[| |]|]; destruct vb; reflexivity.
Qed.

(* ------------------------------------------------------------------------------------ *)
(* the key list of the result: a's keys in a's order, then b's new keys in b's order *)

Lemma merge_keys : forall b a,
  NoDup (keys b) ->
  keys (merge a b) = keys a ++ filter (fun k => negb (mem k a)) (keys b).
Proof.
  induction b as [|[k0 v0] b IH]; intros a ND.
  - cbn. now rewrite app_nil_r.
  - rewrite merge_cons. cbn [keys map fst] in ND. inversion ND as [|? ? Hnotin ND']; subst.
    rewrite IH by assumption. rewrite keys_upsert. cbn [keys map fst filter].
    assert (Hf : filter (fun k => negb (mem k (upsert k0 (overlay v0) a))) (map fst b)
                 = filter (fun k => negb (mem k a)) (map fst b)).
    { apply filter_ext_in. intros k Hk. rewrite mem_upsert.
      destruct (k0 =? k) eqn:E; [|now rewrite orb_false_r].
      apply Z.eqb_eq in E. subst. contradiction. }
    unfold keys in *. rewrite Hf.
    destruct (mem k0 a); cbn [negb]; [reflexivity|].
    now rewrite <- app_assoc.
Qed.

Lemma merge_keys_law : forall a b,
  NoDup (keys b) ->
  keys (merge a b) = keys a ++ filter (fun k => negb (mem k a)) (keys b).
Proof. intros a b. exact (merge_keys b a). Qed.

(* ------------------------------------------------------------------------------------ *)
(* the overlay law along key paths, at any depth *)

Lemma wf_tab_inv : forall es, wf (Tab es) -> NoDup (keys es) /\ forall k v, lookup k es = Some v -> wf v.
Proof.
  intros es H. inversion H as [| |? ND Hall]; subst. split; [assumption|].
  intros k v Hl. apply (Hall k). now apply lookup_In.
Qed.

(* Where the user's file sets path p (to vb), the effective configuration has, at p, vb laid
   over whatever the defaults have at p: vb itself unless both are tables, which are merged. *)
Lemma merge_get_set : forall p a b vb,
  wf (Tab b) ->
  get p b = Some vb ->
  get p (merge a b) = Some (overlay vb (get p a)).
Proof.
  unfold get. induction p as [|k p IH]; intros a b vb Hwf Hb.
  - cbn in *. inversion Hb; subst. reflexivity.
  - destruct (wf_tab_inv _ Hwf) as [ND Hsub].
    cbn [get_in] in *. rewrite merge_lookup by assumption.
    destruct (lookup k b) as [vb0|] eqn:Ekb; [|discriminate].
    destruct vb0 as [l|tb|xs].
    + destruct p; [|discriminate]. cbn in Hb. inversion Hb; subst. cbn [get_in].
      now destruct (lookup k a).
    + destruct (lookup k a) as [[la|ta|xa]|] eqn:Eka.
      * rewrite overlay_eq. destruct p; cbn in Hb |- *; [inversion Hb; reflexivity|].
        destruct (lookup z tb); [|discriminate].
        now rewrite Hb, overlay_None.
      * rewrite overlay_eq. apply IH; [now apply (Hsub k)|assumption].
      * rewrite overlay_eq. destruct p; cbn in Hb |- *; [inversion Hb; reflexivity|].
        destruct (lookup z tb); [|discriminate].
        now rewrite Hb, overlay_None.
      * rewrite overlay_None. destruct p; cbn in Hb |- *; [inversion Hb; reflexivity|].
        destruct (lookup z tb); [|discriminate].
        now rewrite Hb, overlay_None.
    + destruct p; [|discriminate]. cbn in Hb. inversion Hb; subst. cbn [get_in].
      now destruct (lookup k a).
Qed.

Lemma merge_get_set_law : forall p a b vb,
  wf (Tab b) ->
  get p b = Some vb ->
  get p (merge a b) =
  Some match get p a, vb with
       | Some (Tab ta), Tab tb => Tab (merge ta tb)
       | _, _ => vb
       end.
Proof.
  intros p a b vb Hwf Hb. rewrite (merge_get_set p a b vb Hwf Hb). now rewrite overlay_eq.
Qed.

Lemma unset_get_None : forall p t, unset p t -> get p t = None.
Proof.
  unfold get. induction p as [|k p IH]; intros t H; [contradiction|].
  cbn in *. destruct (lookup k t) as [[| |]|]; try contradiction; try reflexivity.
  now apply IH.
Qed.

(* Where the user's file does not set path p, the effective configuration has the default. *)
Lemma merge_get_unset : forall p a b,
  wf (Tab b) ->
  unset p b ->
  get p (merge a b) = get p a.
Proof.
  unfold get. induction p as [|k p IH]; intros a b Hwf Hu; [contradiction|].
  destruct (wf_tab_inv _ Hwf) as [ND Hsub].
  cbn [get_in unset] in *. rewrite merge_lookup by assumption.
  destruct (lookup k b) as [[l|tb|xs]|] eqn:Ekb; try contradiction; [|reflexivity].
  rewrite overlay_eq.
  destruct (lookup k a) as [[la|ta|xa]|] eqn:Eka.
  - pose proof (unset_get_None _ _ Hu) as Hn. unfold get in Hn. rewrite Hn.
    destruct p; [contradiction|reflexivity].
  - apply IH; [now apply (Hsub k)|assumption].
  - pose proof (unset_get_None _ _ Hu) as Hn. unfold get in Hn. rewrite Hn.
    destruct p; [contradiction|reflexivity].
  - pose proof (unset_get_None _ _ Hu) as Hn. unfold get in Hn. now rewrite Hn.
Qed.

(* ------------------------------------------------------------------------------------ *)
(* the skeleton lemma *)

(* s consists of tables only, and every table of s sits on a table of t *)
Inductive sub_skel : table -> table -> Prop :=
  | ss_nil : forall t, sub_skel [] t
  | ss_cons : forall k s1 t1 s t,
      lookup k t = Some (Tab t1) -> sub_skel s1 t1 -> sub_skel s t ->
      sub_skel ((k, Tab s1) :: s) t.

Lemma merge_sub_skel : forall s t, sub_skel s t -> merge t s = t.
Proof.
  intros s t H. induction H as [t|k s1 t1 s t Hl H1 IH1 H2 IH2].
  - reflexivity.
  - rewrite merge_cons.
    rewrite (upsert_same_value k _ t (Tab t1)); [exact IH2|exact Hl|].
    rewrite overlay_eq. now rewrite IH1.
Qed.

(* the skeleton of a value: its tables, emptied of everything that is not a table *)
Fixpoint skel (v : toml) : toml :=
  match v with
  | Tab es =>
      Tab ((fix go (es : table) : table :=
              match es with
              | [] => []
              | (k, (Tab _) as v') :: r => (k, skel v') :: go r
              | _ :: r => go r
              end) es)
  | _ => v
  end.

Definition skeleton (t : table) : table :=
  match skel (Tab t) with Tab s => s | _ => [] end.

Fixpoint skel_entries (es : table) : table :=
  match es with
  | [] => []
  | (k, Tab t') :: r => (k, Tab (skeleton t')) :: skel_entries r
  | _ :: r => skel_entries r
  end.

Lemma skeleton_eq : forall t, skeleton t = skel_entries t.
Proof.
  unfold skeleton. cbn [skel].
  induction t as [|[k [l|t'|xs]] r IH]; cbn [skel_entries]; try assumption; [reflexivity|].
  f_equal. exact IH.
Qed.

Fixpoint tsize (v : toml) : nat :=
  match v with
  | Tab es => S ((fix go (es : table) : nat :=
                    match es with [] => O | (_, v') :: r => (tsize v' + go r)%nat end) es)
  | _ => 1%nat
  end.

Fixpoint esize (es : table) : nat :=
  match es with [] => O | (_, v) :: r => (tsize v + esize r)%nat end.

Lemma tsize_tab : forall es, tsize (Tab es) = S (esize es).
Proof.
  induction es as [|[k v] r IH]; [reflexivity|].
  simpl in *. apply eq_add_S in IH. now rewrite IH.
Qed.

Lemma sub_skel_skeleton : forall n t, (esize t < n)%nat -> wf (Tab t) -> sub_skel (skeleton t) t.
Proof.
  induction n as [|n IHn]; intros t Hn Hwf; [lia|].
  rewrite skeleton_eq.
  destruct (wf_tab_inv _ Hwf) as [ND Hsub].
  assert (Hgen : forall es, (esize es <= esize t)%nat ->
                   (forall k v, In (k, v) es -> lookup k t = Some v) ->
                   sub_skel (skel_entries es) t).
  { induction es as [|[k v] r IHr]; intros Hsz Hin; cbn [skel_entries].
    - constructor.
    - cbn [esize] in Hsz.
      assert (Hr : sub_skel (skel_entries r) t).
      { apply IHr; [lia|]. intros k' v' H'. apply Hin. now right. }
      destruct v as [l|t'|xs]; try exact Hr.
      apply ss_cons with (t1 := t').
      + apply Hin. now left.
      + apply IHn.
        * rewrite tsize_tab in Hsz. lia.
        * apply (Hsub k). apply Hin. now left.
      + exact Hr. }
  apply Hgen; [lia|].
  intros k v H. now apply In_lookup_nodup.
Qed.

(* Merging a table with its own skeleton of empty tables is the identity. *)
Lemma merge_own_skeleton : forall t, wf (Tab t) -> merge t (skeleton t) = t.
Proof.
  intros t Hwf. apply merge_sub_skel. apply (sub_skel_skeleton (S (esize t))); [lia|assumption].
Qed.
