(* C20, round 2 — text level of `_comment_out_toml` (Model/ConfigText.v): for EVERY text the
   lines of the first-run file (split at LF) are one for one the lines of the default
   document, each unchanged or prefixed by one '#'; which lines are unchanged is decided by
   the first two non-space characters.  This is the step below the line model of
   Props/C20.v (which takes the document as a list of classified lines). *)
From AwVerif Require Import Base.Prelude Model.ConfigText Proofs.ConfigTextProofs.

Theorem C20_text_lines_preserved : forall s,
  split_lf (comment_out_text s) = map comment_line_text (split_lf s).
Proof. exact comment_out_text_lines. Qed.
Print Assumptions C20_text_lines_preserved.

Theorem C20_text_line_count : forall s,
  length (split_lf (comment_out_text s)) = length (split_lf s).
Proof. exact comment_out_text_line_count. Qed.
Print Assumptions C20_text_line_count.

Theorem C20_text_each_line : forall s i l, nth_error (split_lf s) i = Some l ->
  nth_error (split_lf (comment_out_text s)) i = Some (if kept_text l then l else HASH :: l).
Proof. exact comment_out_text_nth. Qed.
Print Assumptions C20_text_each_line.

Theorem C20_text_split_join : forall ls, ls <> [] -> Forall no_lf ls -> split_lf (join_lf ls) = ls.
Proof. exact split_join. Qed.
Print Assumptions C20_text_split_join.

Theorem C20_text_join_split : forall s, join_lf (split_lf s) = s.
Proof. exact join_split. Qed.
Print Assumptions C20_text_join_split.

Theorem C20_text_all_kept_unchanged : forall s,
  Forall (fun l => kept_text l = true) (split_lf s) -> comment_out_text s = s.
Proof. exact comment_out_text_all_kept. Qed.
Print Assumptions C20_text_all_kept_unchanged.

Theorem C20_text_kept_blank : forall l, lstrip l = [] -> kept_text l = true.
Proof. exact kept_text_blank. Qed.
Print Assumptions C20_text_kept_blank.

Theorem C20_text_kept_header : forall l r, lstrip l = LBRACK :: r ->
  (match r with d :: _ => d <> LBRACK | [] => True end) -> kept_text l = true.
Proof. exact kept_text_header. Qed.
Print Assumptions C20_text_kept_header.

Theorem C20_text_commented_array_header : forall l r,
  lstrip l = LBRACK :: LBRACK :: r -> kept_text l = false.
Proof. exact kept_text_array_header. Qed.
Print Assumptions C20_text_commented_array_header.

Theorem C20_text_commented_other : forall l c r, lstrip l = c :: r -> c <> LBRACK -> kept_text l = false.
Proof. exact kept_text_other. Qed.
Print Assumptions C20_text_commented_other.

(* non-vacuity and sensitivity:  c = "p<U+2028>[zz]"  stays one commented line; with
   str.splitlines()'s line ends it becomes  #c = "p  /  [zz]"  and the second line is live *)
Example C20_text_splitlines_variant_breaks :
  split_lf (comment_out_text witness_ls) = [HASH :: witness_ls]
  /\ split_lf (comment_out_text_splitlines witness_ls)
     = [[HASH; 99; 32; 61; 32; 34; 112]; [91; 122; 122; 93; 34]]
  /\ kept_text [91; 122; 122; 93; 34] = true.
Proof. exact splitlines_variant_breaks_lines. Qed.

(* a = 1 LF LF [t] LF FF [[u]] LF <U+2028> # x  ->  #a = 1 LF LF [t] LF #FF [[u]] LF #<U+2028> # x *)
Example C20_text_nonvacuous :
  comment_out_text [97; 32; 61; 32; 49; 10; 10; 91; 116; 93; 10; 12; 91; 91; 117; 93; 93; 10; 8232; 35; 32; 120]
  = [35; 97; 32; 61; 32; 49; 10; 10; 91; 116; 93; 10; 35; 12; 91; 91; 117; 93; 93; 10; 35; 8232; 35; 32; 120].
Proof. vm_compute. reflexivity. Qed.
