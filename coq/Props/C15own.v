(* C15, last sentence: "Inputs are not modified."  Property statements only; each theorem is
   closed by [exact <lemma>] and followed by Print Assumptions.
   Model: Model/TransformHeap.v (union_no_overlap_h: the two top-level deepcopy calls with
   their own memos, the two-index loop over locations, _split_event with its two deep
   copies and three attribute assignments, `events2[e2_i] = ...` on the copied list).
   Proofs: Proofs/TransformHeapCopy.v, TransformHeapBase.v, TransformHeapUnion.v,
   TransformHeapTheorems.v.  Tie to the code: harness/theap.py.
   Vocabulary as in Props/C10own.v (framed, list_at, wf, rt). *)
From AwVerif Require Import Base.Prelude Model.MemHeap Model.TransformHeap Model.UnionNoOverlap
  Proofs.MemHeapBase Proofs.MemHeapCopy Proofs.MemHeapFrame
  Proofs.TransformHeapCopy Proofs.TransformHeapBase Proofs.TransformHeapFlood
  Proofs.TransformHeapUnion Proofs.TransformHeapTheorems.
Local Open Scope nat_scope.

(* (a) FRAME and (b) FRESHNESS for every heap and every pair of arguments: the same list
   object as both arguments, lists sharing events, events sharing data, the same event
   several times, ill-typed cells.  Whenever the call returns, every object that existed
   is exactly as it was; the returned list and all its elements are new objects and new
   objects refer to new objects only (so the result shares nothing with the arguments:
   C15_result_shares_nothing). *)
Theorem C15_inputs_not_modified : forall h L1 L2 h' L',
  union_no_overlap_h h L1 L2 = Ok (h', L') ->
  framed h h' /\ length h <= L' < length h' /\
  exists out, lookup h' L' = Some (Cell (TNode EVENT_LIST) out) /\
              forall k, In k out -> length h <= k < length h'.
Proof. exact uno_h_framed. Qed.
Print Assumptions C15_inputs_not_modified.

Theorem C15_frame_on_values : forall h h' L vs,
  framed h h' -> list_at h L = Some vs -> list_at h' L = Some vs.
Proof. exact framed_list_at. Qed.
Print Assumptions C15_frame_on_values.

Theorem C15_result_shares_nothing : forall h h' L' l,
  framed h h' -> length h <= L' -> rt h' L' l -> length h <= l.
Proof. exact framed_result_fresh. Qed.
Print Assumptions C15_result_shares_nothing.

(* _split_event on its own: the event passed in is untouched, the halves are new *)
Theorem C15_split_event_frame : forall h0 h e dt h' a ob,
  framed h0 h -> fresh_in h0 h e -> split_event_h h e dt = Ok (h', (a, ob)) ->
  framed h0 h' /\ length h <= length h' /\ fresh_in h0 h' a /\
  (forall b, ob = Some b -> fresh_in h0 h' b).
Proof. exact split_event_framed. Qed.
Print Assumptions C15_split_event_frame.

(* (c) REFINEMENT for every aliasing of the arguments: on a closed acyclic heap whose two
   arguments are lists of Events, the heap-level run raises/succeeds exactly as
   Model/UnionNoOverlap.v's union_no_overlap on the read-back arguments and the returned
   list reads back as its result. *)
Theorem C15_refines : forall h L1 L2 vs1 vs2,
  wf h -> list_at h L1 = Some vs1 -> list_at h L2 = Some vs2 ->
  match union_no_overlap vs1 vs2 with
  | Ok r => exists h' L', union_no_overlap_h h L1 L2 = Ok (h', L') /\ list_at h' L' = Some r
  | Err c => union_no_overlap_h h L1 L2 = Err c
  | OutOfFuel => union_no_overlap_h h L1 L2 = OutOfFuel
  end.
Proof. exact uno_h_refines. Qed.
Print Assumptions C15_refines.

(* with C15_fuel_enough: it always succeeds *)
Theorem C15_refines_total : forall h L1 L2 vs1 vs2,
  wf h -> list_at h L1 = Some vs1 -> list_at h L2 = Some vs2 ->
  exists h' L' r, union_no_overlap_h h L1 L2 = Ok (h', L') /\ list_at h' L' = Some r /\
                  union_no_overlap vs1 vs2 = Ok r.
Proof. exact uno_h_total. Qed.
Print Assumptions C15_refines_total.

(* Non-vacuity: ex_heap (Proofs/TransformHeapTheorems.v), the list [a; b] at location 3 as
   first argument and the list [a; b; a] (the same objects) at location 4 as second; and
   the same list object as both arguments. *)
Example C15own_nonvacuous :
  wf ex_heap /\
  (exists h', union_no_overlap_h ex_heap 3 4 = Ok (h', 14) /\
              list_at h' 14 = Some [mkEvent (Some 1%Z) 1000 2000 5; mkEvent (Some 1%Z) 1000 2000 5;
                                    mkEvent (Some 2%Z) 4000 1000 5] /\
              list_at h' 3 = list_at ex_heap 3 /\ list_at h' 4 = list_at ex_heap 4) /\
  (exists h', union_no_overlap_h ex_heap 4 4 = Ok (h', 14) /\
              list_at h' 14 = Some [mkEvent (Some 1%Z) 1000 2000 5; mkEvent (Some 1%Z) 1000 2000 5;
                                    mkEvent (Some 2%Z) 4000 1000 5; mkEvent (Some 1%Z) 1000 2000 5]).
Proof.
  split; [exact ex_heap_wf|]. split; eexists; (split; [vm_compute; reflexivity|]); repeat split; reflexivity.
Qed.
