(* C01 — "Stored events come back exactly as inserted, and the store owns its copy."
   (properties.jsonl, fixed text:)
     On every storage backend, an event inserted without an id is assigned an id that is
     unique within its bucket and is returned by both listing and lookup-by-id with the
     same instant (to the millisecond), the same duration (to the microsecond) and equal
     JSON data, for any date between 1970 and 2100.  What is stored is independent of the
     caller's objects: mutating the event that was passed in, or an event or metadata dict
     that was handed out, never changes what later reads return.
   Quantifier: all events (timestamps 1970..2100 at any timezone offset, durations 0..~30
   days at microsecond granularity, arbitrary nested JSON data), each of the three
   backends, single and bulk insertion.

   Property statements only.  Four groups:
   (1) ids and read-back on the store models Model/{Mem,Sqlite,Peewee}Store.v (exact integer
       microseconds, data labels), per back end, for EVERY state satisfying the back end's
       representation invariant (which holds in every reachable state) — Proofs/ReadBack*.v;
   (2) the time codecs of the SQL back ends (bit-exact PrimFloat / text models
       Model/Codec.v; Proofs/Codec.v, Flocq) and their tie to the rows of the store models
       — Proofs/ReadBackCodec.v;
   (3) ownership (heap model Model/MemHeap.v of memory.py; all eleven statements are in
       Props/C01own.v, the main ones are re-stated here) — Proofs/Ownership.v;
   (4) non-vacuity examples.
   NOT proved (oracle, exercised by harness/c01.py on generated nested data): JSON data
   fidelity through json.dumps / SQLite TEXT / json.loads — data is a label here. *)
From Coq Require Import ZArith Reals List Permutation PrimFloat.
From Flocq Require Import Core IEEE754.BinarySingleNaN IEEE754.PrimFloat.
From AwVerif Require Import Base.Prelude Model.StoreBase Model.MemStore Model.SqliteStore
  Model.PeeweeStore Model.StoreSpec Model.PyFloat Model.IsoTime Model.EventModel Model.Codec
  Proofs.StoreMemProofs Proofs.StoreSqliteProofs Proofs.StorePeeweeProofs
  Proofs.EventProofs Proofs.PyFloatSpec Proofs.Codec
  Proofs.ReadBackBase Proofs.ReadBackMem Proofs.ReadBackSqlite Proofs.ReadBackPeewee
  Proofs.ReadBackCodec.
(* the heap model re-uses constructor names of StoreBase.op (InsertOne, ...): not imported,
   referred to by qualified names in group (3) *)
From AwVerif Require Model.MemHeap Proofs.Ownership.
Import ListNotations.
Open Scope Z_scope.

(* ===================================================================================== *)
(* (1) ids and read-back.  `X_view c b = Some (m, es)`: bucket b exists in state c with
       metadata m and events es (storage order).  same_payload e e' := ts e' = ts e /\
       dur e' = dur e /\ data e' = data e.  stamp news ids = the k-th event of news under
       the k-th id of ids. *)

(* ---- the representation invariants hold in every reachable state ---- *)
Theorem C01_reachable_Inv_memory : forall h, mem_Inv (mem_run mem_init h).
Proof. intros h. apply mem_run_Inv, mem_Inv_init. Qed.
Print Assumptions C01_reachable_Inv_memory.

Theorem C01_reachable_Inv_sqlite : forall h, sq_Inv (sq_run sq_init h).
Proof. intros h. apply sq_run_Inv, sq_Inv_init. Qed.
Print Assumptions C01_reachable_Inv_sqlite.

Theorem C01_reachable_Inv_peewee : forall h, pw_Inv (pw_run pw_init h).
Proof. intros h. apply pw_run_Inv, pw_Inv_init. Qed.
Print Assumptions C01_reachable_Inv_peewee.

(* ---- memory ---- *)
Theorem C01_insert_fresh_id_memory : forall c b e m es,
  mem_Inv c -> mem_view c b = Some (m, es) -> eid e = None ->
  exists c' e' i,
    mem_step c (InsertOne b e) = (c', Ok (OEvent (Some e'))) /\
    eid e' = Some i /\ (forall x, In x es -> eid x <> Some i) /\
    ts e' = ts e /\ dur e' = dur e /\ data e' = data e /\
    mem_view c' b = Some (m, es ++ [e']) /\ mem_Inv c'.
Proof. exact insert_fresh_id_mem. Qed.
Print Assumptions C01_insert_fresh_id_memory.

(* the listing after the insert = the listing before + the new event, and the new event is
   the only listed event with its id *)
Theorem C01_listing_returns_memory : forall c b e m es l0,
  mem_Inv c -> mem_view c b = Some (m, es) -> eid e = None ->
  snd (mem_step c (GetEvents b (-1) None None)) = Ok (OEvents l0) ->
  exists c' e' l,
    mem_step c (InsertOne b e) = (c', Ok (OEvent (Some e'))) /\ same_payload e e' /\
    mem_step c' (GetEvents b (-1) None None) = (c', Ok (OEvents l)) /\
    Permutation l (e' :: l0) /\
    (forall x, In x l -> eid x = eid e' -> x = e').
Proof. exact listing_returns_mem. Qed.
Print Assumptions C01_listing_returns_memory.

Theorem C01_lookup_returns_memory : forall c b e m es,
  mem_Inv c -> mem_view c b = Some (m, es) -> eid e = None ->
  exists c' e' i,
    mem_step c (InsertOne b e) = (c', Ok (OEvent (Some e'))) /\ eid e' = Some i /\ same_payload e e' /\
    mem_step c' (GetEvent b i) = (c', Ok (OEvent (Some e'))).
Proof. exact lookup_returns_mem. Qed.
Print Assumptions C01_lookup_returns_memory.

(* invariant form (preserved by every op with every argument) and reachable form *)
Theorem C01_Inv_preserved_memory : forall c o, mem_Inv c -> mem_Inv (fst (mem_step c o)).
Proof. exact mem_step_Inv. Qed.
Print Assumptions C01_Inv_preserved_memory.

Theorem C01_ids_unique_memory : forall c b m es,
  mem_Inv c -> mem_view c b = Some (m, es) -> NoDup (map eid es) /\ forall x, In x es -> eid x <> None.
Proof. exact ids_unique_mem. Qed.
Print Assumptions C01_ids_unique_memory.

Theorem C01_ids_unique_reachable_memory : forall h b m es,
  mem_view (mem_run mem_init h) b = Some (m, es) ->
  NoDup (map eid es) /\ forall x, In x es -> eid x <> None.
Proof. exact ids_unique_reachable_mem. Qed.
Print Assumptions C01_ids_unique_reachable_memory.

Theorem C01_bulk_memory : forall c b news m es,
  mem_Inv c -> mem_view c b = Some (m, es) -> (forall e, In e news -> eid e = None) ->
  exists c' ids,
    mem_step c (InsertMany b news) = (c', Ok ONone) /\
    length ids = length news /\ NoDup ids /\ (forall i x, In i ids -> In x es -> eid x <> Some i) /\
    mem_view c' b = Some (m, es ++ stamp news ids) /\ mem_Inv c'.
Proof. exact bulk_mem. Qed.
Print Assumptions C01_bulk_memory.

Theorem C01_bulk_read_back_memory : forall c b news m es l0,
  mem_Inv c -> mem_view c b = Some (m, es) -> (forall e, In e news -> eid e = None) ->
  snd (mem_step c (GetEvents b (-1) None None)) = Ok (OEvents l0) ->
  exists c' ids l,
    mem_step c (InsertMany b news) = (c', Ok ONone) /\ length ids = length news /\
    mem_step c' (GetEvents b (-1) None None) = (c', Ok (OEvents l)) /\
    Permutation l (l0 ++ stamp news ids) /\
    (forall x i, In x (stamp news ids) -> eid x = Some i ->
       mem_step c' (GetEvent b i) = (c', Ok (OEvent (Some x)))).
Proof. exact bulk_read_back_mem. Qed.
Print Assumptions C01_bulk_read_back_memory.

(* ---- sqlite (insert_one ignores an id the event carries, so no `eid e = None`; the
        unwindowed listing is `endtime >= 0 AND starttime <= 2^63-1`, hence ev_dom e :=
        0 <= ts e + dur e /\ ts e <= 2^63-1 for the listing clauses) ---- *)
Theorem C01_insert_fresh_id_sqlite : forall c b e m es,
  sq_Inv c -> sq_view c b = Some (m, es) ->
  exists c' e' i,
    sq_step c (InsertOne b e) = (c', Ok (OEvent (Some e'))) /\
    eid e' = Some i /\ (forall x, In x es -> eid x <> Some i) /\
    ts e' = ts e /\ dur e' = dur e /\ data e' = data e /\
    sq_view c' b = Some (m, es ++ [e']) /\ sq_Inv c'.
Proof. exact insert_fresh_id_sqlite. Qed.
Print Assumptions C01_insert_fresh_id_sqlite.

Theorem C01_listing_returns_sqlite : forall c b e m es l0,
  sq_Inv c -> sq_view c b = Some (m, es) -> ev_dom e ->
  snd (sq_step c (GetEvents b (-1) None None)) = Ok (OEvents l0) ->
  exists c' e' l,
    sq_step c (InsertOne b e) = (c', Ok (OEvent (Some e'))) /\ same_payload e e' /\
    sq_step c' (GetEvents b (-1) None None) = (c', Ok (OEvents l)) /\
    Permutation l (e' :: l0) /\
    (forall x, In x l -> eid x = eid e' -> x = e').
Proof. exact listing_returns_sqlite. Qed.
Print Assumptions C01_listing_returns_sqlite.

Theorem C01_lookup_returns_sqlite : forall c b e m es,
  sq_Inv c -> sq_view c b = Some (m, es) ->
  exists c' e' i,
    sq_step c (InsertOne b e) = (c', Ok (OEvent (Some e'))) /\ eid e' = Some i /\ same_payload e e' /\
    sq_step c' (GetEvent b i) = (c', Ok (OEvent (Some e'))).
Proof. exact lookup_returns_sqlite. Qed.
Print Assumptions C01_lookup_returns_sqlite.

Theorem C01_Inv_preserved_sqlite : forall c o, sq_Inv c -> sq_Inv (fst (sq_step c o)).
Proof. exact sq_step_Inv. Qed.
Print Assumptions C01_Inv_preserved_sqlite.

Theorem C01_ids_unique_sqlite : forall c b m es,
  sq_Inv c -> sq_view c b = Some (m, es) -> NoDup (map eid es) /\ forall x, In x es -> eid x <> None.
Proof. exact ids_unique_sqlite. Qed.
Print Assumptions C01_ids_unique_sqlite.

Theorem C01_ids_unique_reachable_sqlite : forall h b m es,
  sq_view (sq_run sq_init h) b = Some (m, es) ->
  NoDup (map eid es) /\ forall x, In x es -> eid x <> None.
Proof. exact ids_unique_reachable_sqlite. Qed.
Print Assumptions C01_ids_unique_reachable_sqlite.

Theorem C01_bulk_sqlite : forall c b news m es,
  sq_Inv c -> sq_view c b = Some (m, es) -> (forall e, In e news -> eid e = None) ->
  exists c' ids,
    sq_step c (InsertMany b news) = (c', Ok ONone) /\
    length ids = length news /\ NoDup ids /\ (forall i x, In i ids -> In x es -> eid x <> Some i) /\
    sq_view c' b = Some (m, es ++ stamp news ids) /\ sq_Inv c'.
Proof. exact bulk_sqlite. Qed.
Print Assumptions C01_bulk_sqlite.

Theorem C01_bulk_read_back_sqlite : forall c b news m es l0,
  sq_Inv c -> sq_view c b = Some (m, es) -> (forall e, In e news -> eid e = None) ->
  (forall e, In e news -> ev_dom e) ->
  snd (sq_step c (GetEvents b (-1) None None)) = Ok (OEvents l0) ->
  exists c' ids l,
    sq_step c (InsertMany b news) = (c', Ok ONone) /\ length ids = length news /\
    sq_step c' (GetEvents b (-1) None None) = (c', Ok (OEvents l)) /\
    Permutation l (l0 ++ stamp news ids) /\
    (forall x i, In x (stamp news ids) -> eid x = Some i ->
       sq_step c' (GetEvent b i) = (c', Ok (OEvent (Some x)))).
Proof. exact bulk_read_back_sqlite. Qed.
Print Assumptions C01_bulk_read_back_sqlite.

(* ---- peewee ---- *)
Theorem C01_insert_fresh_id_peewee : forall c b e m es,
  pw_Inv c -> pw_view c b = Some (m, es) -> eid e = None ->
  exists c' e' i,
    pw_step c (InsertOne b e) = (c', Ok (OEvent (Some e'))) /\
    eid e' = Some i /\ (forall x, In x es -> eid x <> Some i) /\
    ts e' = ts e /\ dur e' = dur e /\ data e' = data e /\
    pw_view c' b = Some (m, es ++ [e']) /\ pw_Inv c'.
Proof. exact insert_fresh_id_peewee. Qed.
Print Assumptions C01_insert_fresh_id_peewee.

Theorem C01_listing_returns_peewee : forall c b e m es l0,
  pw_Inv c -> pw_view c b = Some (m, es) -> eid e = None ->
  snd (pw_step c (GetEvents b (-1) None None)) = Ok (OEvents l0) ->
  exists c' e' l,
    pw_step c (InsertOne b e) = (c', Ok (OEvent (Some e'))) /\ same_payload e e' /\
    pw_step c' (GetEvents b (-1) None None) = (c', Ok (OEvents l)) /\
    Permutation l (e' :: l0) /\
    (forall x, In x l -> eid x = eid e' -> x = e').
Proof. exact listing_returns_peewee. Qed.
Print Assumptions C01_listing_returns_peewee.

Theorem C01_lookup_returns_peewee : forall c b e m es,
  pw_Inv c -> pw_view c b = Some (m, es) -> eid e = None ->
  exists c' e' i,
    pw_step c (InsertOne b e) = (c', Ok (OEvent (Some e'))) /\ eid e' = Some i /\ same_payload e e' /\
    pw_step c' (GetEvent b i) = (c', Ok (OEvent (Some e'))).
Proof. exact lookup_returns_peewee. Qed.
Print Assumptions C01_lookup_returns_peewee.

Theorem C01_Inv_preserved_peewee : forall c o, pw_Inv c -> pw_Inv (fst (pw_step c o)).
Proof. exact pw_step_Inv. Qed.
Print Assumptions C01_Inv_preserved_peewee.

Theorem C01_ids_unique_peewee : forall c b m es,
  pw_Inv c -> pw_view c b = Some (m, es) -> NoDup (map eid es) /\ forall x, In x es -> eid x <> None.
Proof. exact ids_unique_peewee. Qed.
Print Assumptions C01_ids_unique_peewee.

Theorem C01_ids_unique_reachable_peewee : forall h b m es,
  pw_view (pw_run pw_init h) b = Some (m, es) ->
  NoDup (map eid es) /\ forall x, In x es -> eid x <> None.
Proof. exact ids_unique_reachable_peewee. Qed.
Print Assumptions C01_ids_unique_reachable_peewee.

(* peewee's `chunks(ls, 100)`: concatenating the chunks gives the list back (nothing lost,
   duplicated or reordered), every chunk holds 1..n elements *)
Theorem C01_chunks_concat : forall (A : Type) (n : nat) (l : list A), concat (chunks n l) = l.
Proof. intros. apply chunks_concat. Qed.
Print Assumptions C01_chunks_concat.

Theorem C01_chunks_sizes : forall (A : Type) (n : nat) (l ch : list A),
  (1 <= n)%nat -> In ch (chunks n l) -> (1 <= length ch <= n)%nat.
Proof. intros A n l ch. apply chunks_sizes. Qed.
Print Assumptions C01_chunks_sizes.

Theorem C01_bulk_peewee : forall c b news m es,
  pw_Inv c -> pw_view c b = Some (m, es) -> (forall e, In e news -> eid e = None) ->
  exists c' ids,
    pw_step c (InsertMany b news) = (c', Ok ONone) /\
    length ids = length news /\ NoDup ids /\ (forall i x, In i ids -> In x es -> eid x <> Some i) /\
    pw_view c' b = Some (m, es ++ stamp news ids) /\ pw_Inv c'.
Proof. exact bulk_peewee. Qed.
Print Assumptions C01_bulk_peewee.

Theorem C01_bulk_read_back_peewee : forall c b news m es l0,
  pw_Inv c -> pw_view c b = Some (m, es) -> (forall e, In e news -> eid e = None) ->
  snd (pw_step c (GetEvents b (-1) None None)) = Ok (OEvents l0) ->
  exists c' ids l,
    pw_step c (InsertMany b news) = (c', Ok ONone) /\ length ids = length news /\
    pw_step c' (GetEvents b (-1) None None) = (c', Ok (OEvents l)) /\
    Permutation l (l0 ++ stamp news ids) /\
    (forall x i, In x (stamp news ids) -> eid x = Some i ->
       pw_step c' (GetEvent b i) = (c', Ok (OEvent (Some x)))).
Proof. exact bulk_read_back_peewee. Qed.
Print Assumptions C01_bulk_read_back_peewee.

(* what `stamp` means: as many events as inserted, the k-th carrying the k-th inserted
   event's instant, duration and data and the k-th new id *)
Theorem C01_stamp_payload : forall news ids, length ids = length news ->
  Forall2 same_payload news (stamp news ids) /\ map eid (stamp news ids) = map Some ids.
Proof. intros news ids L. split; [now apply stamp_payload|now apply stamp_ids]. Qed.
Print Assumptions C01_stamp_payload.

(* ===================================================================================== *)
(* (2) time codecs (these go through Flocq: Print Assumptions lists the stdlib real-number
       and primitive-float axioms, nothing else).  ms_aligned t := t mod 1000 = 0 — the
       Event constructor floors every instant to the millisecond (C13), so every stored
       instant is ms-aligned. *)

(* sqlite: INTEGER cells (start, end) in exact microseconds; decode = int/int true division,
   datetime.fromtimestamp (round-half-even), end - start, Event(...) *)
Theorem C01_sqlite_codec : forall ts dur,
  ms_aligned ts -> 0 <= ts -> 0 <= dur -> ts + dur < 2 ^ 52 ->
  sqlite_dec (sqlite_enc ts dur) = Ok (ts, dur).
Proof. exact sqlite_codec_roundtrip_52. Qed.
Print Assumptions C01_sqlite_codec.

(* ... and up to the bound the proof actually reaches: 2^33 s (year 2242) *)
Theorem C01_sqlite_codec_2242 : forall ts dur,
  ms_aligned ts -> 0 <= ts -> 0 <= dur -> ts + dur < 2 ^ 33 * 1000000 ->
  sqlite_dec (sqlite_enc ts dur) = Ok (ts, dur).
Proof. exact sqlite_codec_roundtrip. Qed.
Print Assumptions C01_sqlite_codec_2242.

(* peewee: timestamp = str(datetime) text parsed back by iso8601 + the Event constructor;
   duration = total_seconds() float, read back (the DECIMAL cell returning the stored
   binary64) through timedelta(seconds = float) *)
Theorem C01_peewee_codec : forall ts dur,
  ms_aligned ts -> 0 <= ts <= y2100 -> Z.abs dur < 2 ^ 33 * 1000000 ->
  peewee_ts_dec (peewee_ts_enc ts) = Ok ts /\ bind (peewee_dur_enc dur) peewee_dur_dec = Ok dur.
Proof. exact peewee_codec_roundtrip. Qed.
Print Assumptions C01_peewee_codec.

(* ... and when SQLite's text -> REAL conversion of the DECIMAL cell is off by up to 2^-22 s
   (one ulp and more for |dur| < 2^31 s = 68 years) the duration still reads back exactly *)
Theorem C01_peewee_codec_cell_ulp : forall dur f cell,
  Z.abs dur < 2 ^ 31 * 1000000 -> peewee_dur_enc dur = Ok f -> fin cell ->
  (Rabs (FR cell - FR f) <= bpow radix2 (-22))%R ->
  peewee_dur_dec cell = Ok dur.
Proof. exact peewee_duration_roundtrip_ulp. Qed.
Print Assumptions C01_peewee_codec_cell_ulp.

(* from the caller's aware datetime (instant u, utcoffset off a whole number of ms — every
   tz database zone) through Event(...) and the codec: the instant comes back floored to
   the millisecond, the duration to the microsecond *)
Theorem C01_sqlite_end_to_end : forall u off d,
  0 <= u <= y2100 -> off mod 1000 = 0 -> 0 <= d -> u + d < 2 ^ 52 ->
  bind (set_timestamp (TsDt u off)) (fun t => sqlite_dec (sqlite_enc t d)) = Ok (floor_ms u, d).
Proof. exact sqlite_end_to_end. Qed.
Print Assumptions C01_sqlite_end_to_end.

Theorem C01_peewee_end_to_end : forall u off d,
  0 <= u <= y2100 -> off mod 1000 = 0 -> Z.abs d < 2 ^ 33 * 1000000 ->
  bind (set_timestamp (TsDt u off)) (fun t => peewee_ts_dec (peewee_ts_enc t)) = Ok (floor_ms u) /\
  bind (peewee_dur_enc d) peewee_dur_dec = Ok d.
Proof. exact peewee_end_to_end. Qed.
Print Assumptions C01_peewee_end_to_end.

(* tie between (1) and (2): the store models read a row back with the identity codec
   (row_event / prow_event); that is what the float / text decode computes from the row *)
Theorem C01_sqlite_row_decode : forall r,
  ms_aligned (er_start r) -> 0 <= er_start r <= er_end r -> er_end r < 2 ^ 52 ->
  sqlite_dec (er_start r, er_end r) = Ok (ts (row_event r), dur (row_event r)).
Proof. exact sqlite_row_decode. Qed.
Print Assumptions C01_sqlite_row_decode.

Theorem C01_sqlite_insert_cells : forall c b e c' i,
  sql_insert_event c b e = Ok (c', i) ->
  exists r, In r (sq_events c') /\ er_id r = i /\ (er_start r, er_end r) = sqlite_enc (ts e) (dur e).
Proof. exact sqlite_insert_cells_are_enc. Qed.
Print Assumptions C01_sqlite_insert_cells.

Theorem C01_peewee_row_decode : forall r,
  ms_aligned (pe_ts r) -> 0 <= pe_ts r <= y2100 -> Z.abs (pe_dur r) < 2 ^ 33 * 1000000 ->
  peewee_ts_dec (peewee_ts_enc (pe_ts r)) = Ok (ts (prow_event r)) /\
  bind (peewee_dur_enc (pe_dur r)) peewee_dur_dec = Ok (dur (prow_event r)).
Proof. exact peewee_row_decode. Qed.
Print Assumptions C01_peewee_row_decode.

(* one INSERT of the model, then the real decode of the cells of the row it wrote *)
Theorem C01_sqlite_insert_reads_back : forall c b e c' i,
  sql_insert_event c b e = Ok (c', i) ->
  ms_aligned (ts e) -> 0 <= ts e -> 0 <= dur e -> ts e + dur e < 2 ^ 52 ->
  exists r, In r (sq_events c') /\ er_id r = i /\ sqlite_dec (er_start r, er_end r) = Ok (ts e, dur e).
Proof. exact sqlite_insert_reads_back. Qed.
Print Assumptions C01_sqlite_insert_reads_back.

Theorem C01_peewee_insert_reads_back : forall c k e,
  ms_aligned (ts e) -> 0 <= ts e <= y2100 -> Z.abs (dur e) < 2 ^ 33 * 1000000 ->
  exists r, In r (pw_events (fst (pw_insert_event c k e))) /\ pe_id r = snd (pw_insert_event c k e) /\
            pe_bucket r = k /\ pe_data r = data e /\
            peewee_ts_dec (peewee_ts_enc (pe_ts r)) = Ok (ts e) /\
            bind (peewee_dur_enc (pe_dur r)) peewee_dur_dec = Ok (dur e).
Proof. exact peewee_insert_reads_back. Qed.
Print Assumptions C01_peewee_insert_reads_back.

(* ===================================================================================== *)
(* (3) ownership (memory back end; heap model).  The full list is Props/C01own.v. *)

Theorem C01_store_owns_copy : forall acts a,
  Ownership.ok_trace MemHeap.init (acts ++ [a]) -> MemHeap.is_caller a = true ->
  Ownership.Sep (MemHeap.run (acts ++ [a]) MemHeap.init) /\
  MemHeap.content_store (MemHeap.run (acts ++ [a]) MemHeap.init)
  = MemHeap.content_store (MemHeap.run acts MemHeap.init).
Proof. exact Ownership.store_owns_copy. Qed.
Print Assumptions C01_store_owns_copy.

Theorem C01_caller_cannot_change_store : forall s a,
  Ownership.Sep s -> Ownership.caller_ok s a -> MemHeap.is_caller a = true ->
  MemHeap.store (MemHeap.step_state s a) = MemHeap.store s /\
  MemHeap.content_store (MemHeap.step_state s a) = MemHeap.content_store s.
Proof. exact Ownership.caller_step_content. Qed.
Print Assumptions C01_caller_cannot_change_store.

(* ===================================================================================== *)
(* (4) non-vacuity: concrete reachable states that meet the hypotheses, and what the
       theorems then give, computed. *)

Definition ex_meta : meta := mkMeta 1 2 3 0 None 0.
Definition ex_e1 : event := mkEvent None 1600000000000000 5000000 7.
Definition ex_e2 : event := mkEvent None 1600000000001000 0 8.
Definition ex_e3 : event := mkEvent None 1599999999999000 2592000000001 9.   (* 30 d + 1 us *)
Definition ex_hist : list op :=
  [CreateBucket 1 ex_meta; CreateBucket 2 ex_meta; InsertOne 2 ex_e2; InsertOne 1 ex_e1;
   InsertOne 1 ex_e2; GetEvents 1 1 None None].

Example C01_nonvacuous_memory :
  let c := mem_run mem_init ex_hist in
  mem_Inv c /\ (exists m es, mem_view c 1 = Some (m, es) /\ es <> []) /\
  snd (mem_step c (InsertOne 1 ex_e3)) = Ok (OEvent (Some (set_eid ex_e3 (Some 2)))) /\
  snd (mem_step (fst (mem_step c (InsertOne 1 ex_e3))) (GetEvents 1 (-1) None None))
    = Ok (OEvents [set_eid ex_e2 (Some 1); set_eid ex_e1 (Some 0); set_eid ex_e3 (Some 2)]) /\
  snd (mem_step (fst (mem_step c (InsertOne 1 ex_e3))) (GetEvent 1 2))
    = Ok (OEvent (Some (set_eid ex_e3 (Some 2)))).
Proof.
  split; [apply C01_reachable_Inv_memory|]. split; [eexists; eexists; split; [vm_compute; reflexivity|discriminate]|].
  vm_compute. repeat split; reflexivity.
Qed.

Example C01_nonvacuous_sqlite :
  let c := sq_run sq_init ex_hist in
  sq_Inv c /\ (exists m es, sq_view c 1 = Some (m, es) /\ es <> []) /\ ev_dom ex_e3 /\
  snd (sq_step c (InsertOne 1 ex_e3)) = Ok (OEvent (Some (set_eid ex_e3 (Some 4)))) /\
  snd (sq_step (fst (sq_step c (InsertOne 1 ex_e3))) (GetEvents 1 (-1) None None))
    = Ok (OEvents [set_eid ex_e2 (Some 3); set_eid ex_e1 (Some 2); set_eid ex_e3 (Some 4)]) /\
  snd (sq_step (fst (sq_step c (InsertOne 1 ex_e3))) (GetEvent 1 4))
    = Ok (OEvent (Some (set_eid ex_e3 (Some 4)))).
Proof.
  split; [apply C01_reachable_Inv_sqlite|]. split; [eexists; eexists; split; [vm_compute; reflexivity|discriminate]|].
  split; [unfold ev_dom; vm_compute; split; discriminate|].
  vm_compute. repeat split; reflexivity.
Qed.

(* bulk of 201 events on peewee: three chunks (100, 100, 1), 201 new rows with 201
   pairwise distinct fresh ids; each is found by id *)
Example C01_nonvacuous_peewee_bulk :
  let c := pw_run pw_init ex_hist in
  let news := repeat ex_e3 201 in
  let c' := fst (pw_step c (InsertMany 1 news)) in
  pw_Inv c /\ (exists m es, pw_view c 1 = Some (m, es) /\ es <> []) /\
  (forall e, In e news -> eid e = None) /\
  map (@length event) (chunks 100 news) = [100; 100; 1]%nat /\
  snd (pw_step c (InsertMany 1 news)) = Ok ONone /\
  option_map (fun v => map eid (snd v)) (pw_view c' 1)
    = Some (Some 2 :: Some 3 :: map (fun k => Some (Z.of_nat k)) (seq 4 201)) /\
  snd (pw_step c' (GetEvent 1 204)) = Ok (OEvent (Some (set_eid ex_e3 (Some 204)))).
Proof.
  split; [apply C01_reachable_Inv_peewee|]. split; [eexists; eexists; split; [vm_compute; reflexivity|discriminate]|].
  split; [intros e He; apply repeat_spec in He; now subst|].
  vm_compute. repeat split; reflexivity.
Qed.

(* the witness of the old float encoding (fixed by /repo 028752f): start below 2^51 us,
   end above; reads back exactly in the model of the current code *)
Example C01_nonvacuous_codec :
  ms_aligned 2250122380221000 /\ 2250122380221000 + 2141079079834 < 2 ^ 52 /\
  sqlite_dec (sqlite_enc 2250122380221000 2141079079834) = Ok (2250122380221000, 2141079079834) /\
  peewee_ts_dec (peewee_ts_enc 2250122380221000) = Ok 2250122380221000 /\
  bind (peewee_dur_enc 2141079079834) peewee_dur_dec = Ok 2141079079834.
Proof. vm_compute. repeat split; reflexivity. Qed.
