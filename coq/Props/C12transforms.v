(* C12, first sentence, with the hypothesis [builtins_confined] of Props/C12.v's
   C12_store_unchanged DISCHARGED for the transform-backed built-ins of
   aw_query/functions.py.  Property statements only.

   Model/TransformBuiltins.v makes the Section variable [builtin] of Model/MemHeapQuery.v
   concrete: [transform_builtin dc f args] runs the heap-level program
   (Model/TransformHeap.v, GroupHeap.v, ClassifyHeap.v) of the q2_* function that the code
   f stands for ([dc f : call]: which function and its immutable arguments - pulsetime,
   keys, vals, count, the regex / urlparse / substitution engines, how rule dicts are read)
   on the argument locations.  Covered: flood, union_no_overlap, filter_period_intersect,
   period_union (which overwrites `.data` of the caller's own events that end up in its result),
   merge_events_by_keys, chunk_events_by_key, sort_by_timestamp, sort_by_duration,
   limit_events, filter_keyvals, exclude_keyvals, filter_keyvals_regex, concat, sum_durations,
   nop, categorize, tag, split_url_events, simplify_window_titles; wrong arity / wrong type
   raise before anything is touched.  The bucket readers (query_bucket, query_bucket_eventcount,
   find_bucket / buckets / metadata) are the steps QQueryBucket, QEventcount, QBuckets,
   QMetadata of [run_query]; their confinement is the memory-store model's read lemmas
   (Proofs/Ownership.v), already part of C12_store_unchanged.

   filter_keyvals_regex (Model/FilterRegexHeap.v; not part of C16's statement, stated here
   where C12 needs it): its frame, sharing and refinement theorems are at the end of this
   file.  With it EVERY function registered in aw_query/functions.py is covered: the
   transform-backed ones by [transform_builtin], the bucket readers by [run_query]'s own
   steps (notes/agents/THEAP3.md has the list). *)
From AwVerif Require Import Base.Prelude Model.MemHeap Model.MemHeapQuery Model.TransformBuiltins
  Proofs.MemHeapBase Proofs.MemHeapCopy Proofs.MemHeapFrame Proofs.Ownership Proofs.MemHeapQueryProofs
  Proofs.TransformBuiltinsProofs.

(* every covered built-in, on every closed acyclic heap and for every argument list:
   it changes only cells its arguments reach (or new ones), stores only references to
   such cells, keeps the heap closed and acyclic, returns a new cell or one its arguments
   reach - also when it raises midway (categorize / tag / split_url_events) *)
Theorem C12_transform_builtins_confined : forall dc, builtins_confined (transform_builtin dc).
Proof. exact transform_builtins_confined. Qed.
Print Assumptions C12_transform_builtins_confined.

(* C12_store_unchanged without the hypothesis about built-ins *)
Theorem C12_store_unchanged_transforms :
  forall (str : Type) (parse_date : str -> option adt) (dc : Z -> call),
    forall (ns : namespace str) (prog : list qstep) (s : state),
      Sep s ->
      Sep (run_query str parse_date (transform_builtin dc) ns prog s) /\
      store (run_query str parse_date (transform_builtin dc) ns prog s) = store s /\
      content_store (run_query str parse_date (transform_builtin dc) ns prog s) = content_store s.
Proof.
  intros str parse_date dc. apply query_store_unchanged. apply transform_builtins_confined.
Qed.
Print Assumptions C12_store_unchanged_transforms.

(* what one call is asked to satisfy, for reference *)
Theorem C12_run_call_confined : forall c args h, wf h -> allocated h args ->
  confined h args (fst (run_call c args h)) /\ wf (fst (run_call c args h)) /\
  forall o, In o (outs_of (snd (run_call c args h))) ->
            (o < length (fst (run_call c args h)) /\ (length h <= o \/ reach h args o))%nat.
Proof. exact run_call_conf3. Qed.
Print Assumptions C12_run_call_confined.

(* Non-vacuity: on a closed acyclic heap (an Event list [a; b; a] at 5, a's data holding a
   list object at 0) merge_events_by_keys returns a new root and the new data dict (6)
   refers to the caller's list object 0; a call with the wrong arity raises and touches
   nothing. *)
From AwVerif Require Import Model.TransformHeap Model.DictHeap Proofs.TransformHeapTheorems.
Definition ex12 : heap :=
  [ Cell (TNode 7) [];
    dict_cell [(100, ZS 1); (101, ZK 0%nat)];
    Cell (TEv (Some 1) 1000 2000) [1%nat];
    dict_cell [(100, ZS 1)];
    Cell (TEv None 5000 1000) [3%nat];
    Cell (TNode EVENT_LIST) [2%nat; 4%nat; 2%nat] ].
Definition dc12 (f : Z) : call := if f =? 0 then CMerge [100; 101] else if f =? 1 then CSortDur else CNop.

Example C12transforms_nonvacuous :
  wf ex12 /\
  snd (transform_builtin dc12 0 [5%nat] ex12) = Some [12%nat] /\
  (exists p, lookup (fst (transform_builtin dc12 0 [5%nat] ex12)) 6%nat = Some (Cell (TNode p) [0%nat])) /\
  transform_builtin dc12 1 [] ex12 = (ex12, None).
Proof.
  split; [apply ordered_wf; vm_compute; reflexivity|].
  split; [vm_compute; reflexivity|]. split; [eexists; vm_compute; reflexivity|reflexivity].
Qed.

(* ---- filter_keyvals_regex (aw_transform/filter_keyvals.py; built-in q2_filter_keyvals_regex) ----
   Model/FilterRegexHeap.v, Proofs/FilterRegexHeapProofs.v.  The regex engine is a pair of
   parameters: [c] = re.compile(regex) returned, [fa q] = bool(r.findall(v)) for a value with
   label q (Err TypeError when v is not a str); every theorem holds for every engine. *)
From AwVerif Require Import Model.Group Model.GroupHeap Model.FilterRegexHeap
  Proofs.DictHeapBase Proofs.GroupHeapFrame Proofs.FilterRegexHeapProofs.

(* FRAME + SHARING: whenever the call returns, the pattern compiled, h' = h ++ [returned list]
   (one new cell; nothing that existed is written) and the elements of the returned list are
   a sub-sequence, in order, of the argument's own elements - for every heap, any aliasing *)
Theorem C12_filter_regex_shares : forall c fa h L key h' L',
  filter_keyvals_regex_h c fa h L key = Ok (h', L') ->
  c = true /\
  exists p ks out, MemHeap.lookup h L = Some (Cell (TNode p) ks) /\ one_new_list h h' L' out /\ subseq out ks.
Proof. exact fregex_h_shape. Qed.
Print Assumptions C12_filter_regex_shares.

Theorem C12_subseq_incl : forall (a b : list loc), subseq a b -> incl a b.
Proof. exact (@subseq_incl loc). Qed.
Print Assumptions C12_subseq_incl.

Theorem C12_filter_regex_frame : forall h h' L' out, one_new_list h h' L' out -> kept h h'.
Proof. exact one_new_list_kept. Qed.
Print Assumptions C12_filter_regex_frame.

(* REFINEMENT to the functional model: same outcome (returns / exception class: re.error for a
   pattern that does not compile, TypeError at the first listed event whose value under the
   key is not a str, AttributeError for a non-Event), the result reads back as the model's,
   the argument reads back unchanged - every heap on which the argument reads back at all
   (the same Event several times, shared data dicts, shared list values) *)
Theorem C12_filter_regex_refines : forall c fa h L key vs, glist_at h L = Some vs ->
  match filter_keyvals_regex c fa vs key with
  | Ok out => exists h' L', filter_keyvals_regex_h c fa h L key = Ok (h', L') /\
                            glist_at h' L' = Some out /\ glist_at h' L = Some vs
  | Err e => filter_keyvals_regex_h c fa h L key = Err e
  | OutOfFuel => filter_keyvals_regex_h c fa h L key = OutOfFuel
  end.
Proof. exact fregex_h_refines. Qed.
Print Assumptions C12_filter_regex_refines.

(* Non-vacuity on ex12 ([a; b; a], a and b carry the value label 1 under key 100; a also a
   list object under 101): an engine that finds the pattern in label 1 returns the new list
   [a; b; a] of the SAME objects at 6; filtering on key 101 meets a list value: TypeError,
   nothing allocated; a pattern that does not compile raises before anything is read; as a
   built-in the call returns the new root 6. *)
Definition fa12 (q : Z) : res bool := if q =? 1 then Ok true else if q =? 2 then Ok false else Err TypeError.
Definition dc12r (f : Z) : call := CFilterKeyvalsRegex 100 true fa12.

Example C12transforms_filter_regex_nonvacuous :
  glist_at ex12 5%nat = Some [mkG (Some 1) 1000 2000 [(100, 1); (101, 7)]; mkG None 5000 1000 [(100, 1)];
                              mkG (Some 1) 1000 2000 [(100, 1); (101, 7)]] /\
  filter_keyvals_regex_h true fa12 ex12 5%nat 100 = Ok (ex12 ++ [Cell (TNode EVENT_LIST) [2%nat; 4%nat; 2%nat]], 6%nat) /\
  filter_keyvals_regex_h true fa12 ex12 5%nat 101 = Err TypeError /\
  filter_keyvals_regex_h false fa12 ex12 5%nat 100 = Err OtherError /\
  transform_builtin dc12r 0 [5%nat] ex12 = (ex12 ++ [Cell (TNode EVENT_LIST) [2%nat; 4%nat; 2%nat]], Some [6%nat]).
Proof. repeat split; vm_compute; reflexivity. Qed.
