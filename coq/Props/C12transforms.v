(* C12, first sentence, with the hypothesis [builtins_confined] of Props/C12.v's
   C12_store_unchanged DISCHARGED for the transform-backed built-ins of
   aw_query/functions.py.  Property statements only.

   Model/TransformBuiltins.v makes the Section variable [builtin] of Model/MemHeapQuery.v
   concrete: [transform_builtin dc f args] runs the heap-level program
   (Model/TransformHeap.v, GroupHeap.v, ClassifyHeap.v) of the q2_* function that the code
   f stands for ([dc f : call]: which function and its immutable arguments - pulsetime,
   keys, vals, count, the regex / urlparse / substitution engines, how rule dicts are read)
   on the argument locations.  Covered: flood, union_no_overlap, filter_period_intersect,
   period_union (which overwrites `.data` of the caller's own events that end up in its result),
   merge_events_by_keys, chunk_events_by_key, sort_by_timestamp, sort_by_duration,
   limit_events, filter_keyvals, exclude_keyvals, concat, sum_durations, nop, categorize,
   tag, split_url_events, simplify_window_titles; wrong arity / wrong type raise before
   anything is touched.  The bucket readers (query_bucket, query_bucket_eventcount,
   find_bucket / buckets / metadata) are the steps QQueryBucket, QEventcount, QBuckets,
   QMetadata of [run_query]; their confinement is the memory-store model's read lemmas
   (Proofs/Ownership.v), already part of C12_store_unchanged.

   NOT covered: filter_keyvals_regex (no heap program; it builds a new list of the same
   objects like filter_keyvals). *)
From AwVerif Require Import Base.Prelude Model.MemHeap Model.MemHeapQuery Model.TransformBuiltins
  Proofs.MemHeapBase Proofs.MemHeapCopy Proofs.MemHeapFrame Proofs.Ownership Proofs.MemHeapQueryProofs
  Proofs.TransformBuiltinsProofs.

(* every covered built-in, on every closed acyclic heap and for every argument list:
   it changes only cells its arguments reach (or new ones), stores only references to
   such cells, keeps the heap closed and acyclic, returns a new cell or one its arguments
   reach - also when it raises midway (categorize / tag / split_url_events) *)
Theorem C12_transform_builtins_confined : forall dc, builtins_confined (transform_builtin dc).
Proof. exact transform_builtins_confined. Qed.
Print Assumptions C12_transform_builtins_confined.

(* C12_store_unchanged without the hypothesis about built-ins *)
Theorem C12_store_unchanged_transforms :
  forall (str : Type) (parse_date : str -> option adt) (dc : Z -> call),
    forall (ns : namespace str) (prog : list qstep) (s : state),
      Sep s ->
      Sep (run_query str parse_date (transform_builtin dc) ns prog s) /\
      store (run_query str parse_date (transform_builtin dc) ns prog s) = store s /\
      content_store (run_query str parse_date (transform_builtin dc) ns prog s) = content_store s.
Proof.
  intros str parse_date dc. apply query_store_unchanged. apply transform_builtins_confined.
Qed.
Print Assumptions C12_store_unchanged_transforms.

(* what one call is asked to satisfy, for reference *)
Theorem C12_run_call_confined : forall c args h, wf h -> allocated h args ->
  confined h args (fst (run_call c args h)) /\ wf (fst (run_call c args h)) /\
  forall o, In o (outs_of (snd (run_call c args h))) ->
            (o < length (fst (run_call c args h)) /\ (length h <= o \/ reach h args o))%nat.
Proof. exact run_call_conf3. Qed.
Print Assumptions C12_run_call_confined.

(* Non-vacuity: on a closed acyclic heap (an Event list [a; b; a] at 5, a's data holding a
   list object at 0) merge_events_by_keys returns a new root and the new data dict (6)
   refers to the caller's list object 0; a call with the wrong arity raises and touches
   nothing. *)
From AwVerif Require Import Model.TransformHeap Model.DictHeap Proofs.TransformHeapTheorems.
Definition ex12 : heap :=
  [ Cell (TNode 7) [];
    dict_cell [(100, ZS 1); (101, ZK 0%nat)];
    Cell (TEv (Some 1) 1000 2000) [1%nat];
    dict_cell [(100, ZS 1)];
    Cell (TEv None 5000 1000) [3%nat];
    Cell (TNode EVENT_LIST) [2%nat; 4%nat; 2%nat] ].
Definition dc12 (f : Z) : call := if f =? 0 then CMerge [100; 101] else if f =? 1 then CSortDur else CNop.

Example C12transforms_nonvacuous :
  wf ex12 /\
  snd (transform_builtin dc12 0 [5%nat] ex12) = Some [12%nat] /\
  (exists p, lookup (fst (transform_builtin dc12 0 [5%nat] ex12)) 6%nat = Some (Cell (TNode p) [0%nat])) /\
  transform_builtin dc12 1 [] ex12 = (ex12, None).
Proof.
  split; [apply ordered_wf; vm_compute; reflexivity|].
  split; [vm_compute; reflexivity|]. split; [eexists; vm_compute; reflexivity|reflexivity].
Qed.
