(* C01, ownership clause — "What is stored is independent of the caller's objects:
   mutating the event that was passed in, or an event or metadata dict that was handed
   out, never changes what later reads return."  (properties.jsonl, C01, second sentence;
   the first sentence - ids and round trip - is the business of Props/C01.v.)

   Property statements only, over the heap model Model/MemHeap.v of memory.py; proofs in
   Proofs/MemHeap*.v and Proofs/Ownership.v.  The SQL back ends decode every row into new
   objects, so they hand out fresh objects by construction; the harness checks that. *)
From AwVerif Require Import Base.Prelude Model.MemHeap
  Proofs.MemHeapBase Proofs.MemHeapCopy Proofs.MemHeapFrame Proofs.Ownership.

(* The separation invariant: the heap is closed and acyclic, and no location reachable
   from a root the caller holds is reachable from a root of the store. *)
Theorem C01_Sep_init : Sep init.
Proof. exact Sep_init. Qed.
Print Assumptions C01_Sep_init.

(* Every operation of the memory back end, with any arguments, and every caller action
   that touches and stores only what the caller reaches (and creates no cycle) keeps the
   invariant; a failing operation reports a Python exception class, never OutOfFuel. *)
Theorem C01_step_preserves_Sep : forall s a,
  Sep s -> caller_ok s a ->
  match step s a with
  | Ok sr => Sep (fst sr)
  | Err _ => True
  | OutOfFuel => False
  end.
Proof. exact step_Sep. Qed.
Print Assumptions C01_step_preserves_Sep.

Theorem C01_history_Sep : forall acts, ok_trace init acts -> Sep (run acts init).
Proof. intros acts H. apply run_Sep; [exact Sep_init|exact H]. Qed.
Print Assumptions C01_history_Sep.

(* In a separated state a caller action (allocation, or a write of ANY cell - any
   scalars, any references the caller can reach - to ANY location the caller can reach)
   changes neither the store's roots nor the tree any of them unfolds to. *)
Theorem C01_caller_cannot_change_store : forall s a,
  Sep s -> caller_ok s a -> is_caller a = true ->
  store (step_state s a) = store s /\ content_store (step_state s a) = content_store s.
Proof. exact caller_step_content. Qed.
Print Assumptions C01_caller_cannot_change_store.

(* For every history of operations and caller actions from the empty store: the content
   of the store is never changed by a caller action. *)
Theorem C01_store_owns_copy : forall acts a,
  ok_trace init (acts ++ [a]) -> is_caller a = true ->
  Sep (run (acts ++ [a]) init) /\
  content_store (run (acts ++ [a]) init) = content_store (run acts init).
Proof. exact store_owns_copy. Qed.
Print Assumptions C01_store_owns_copy.

(* Reads return trees equal to the stored ones (and, by the invariant, objects disjoint
   from them). *)
Theorem C01_get_event_returns_stored : forall s b i s' r,
  get_event s b i = Ok (s', RRoot r) ->
  exists bk stored t, find_bucket (store s) b = Some bk /\ In stored (b_events bk) /\
    content_of (heap_of s') stored = Ok t /\ content_of (heap_of s') r = Ok t.
Proof. exact get_event_returns_stored. Qed.
Print Assumptions C01_get_event_returns_stored.

(* insert (event without id): what is handed back unfolds to the same tree as the event
   now stored, which carries the caller's timestamp and duration and the new id *)
Theorem C01_insert_returns_stored : forall s b e s' r t d ks,
  lookup (heap_of s) e = Some (Cell (TEv None t d) ks) ->
  insert_one s b e = Ok (s', RRoot r) ->
  exists bk' c tr i,
    find_bucket (store s') b = Some bk' /\ In c (b_events bk') /\
    content_of (heap_of s') c = Ok tr /\ content_of (heap_of s') r = Ok tr /\
    option_map ctag (lookup (heap_of s') c) = Some (TEv (Some i) t d).
Proof. exact insert_one_returns_stored. Qed.
Print Assumptions C01_insert_returns_stored.

Theorem C01_get_metadata_returns_stored : forall s b s' r bk,
  Sep s -> get_metadata s b = Ok (s', RRoot r) -> find_bucket (store s) b = Some bk ->
  content_of (heap_of s') r = content_of (heap_of s') (b_meta bk) /\
  exists t, content_of (heap_of s') r = Ok t.
Proof. exact get_metadata_returns_stored. Qed.
Print Assumptions C01_get_metadata_returns_stored.

(* deepcopy: a self-contained fresh region with the same content; the heap size (+1) is
   enough fuel on closed acyclic heaps *)
Theorem C01_deepcopy_fresh : forall h l, wf h ->
  match deepcopy h l with
  | Ok hl => ext h (fst hl) /\ (length h <= snd hl < length (fst hl))%nat /\
             fresh_closed h (fst hl) /\
             exists t, content_of (fst hl) l = Ok t /\ content_of (fst hl) (snd hl) = Ok t
  | Err _ => True
  | OutOfFuel => False
  end.
Proof.
  intros h l W. pose proof (deepcopy_cases h l W) as D.
  destruct (deepcopy h l); auto. destruct D as (E & B & F & _ & T). auto.
Qed.
Print Assumptions C01_deepcopy_fresh.

(* Non-vacuity.  The w01 scenario: an event with nested data {"k": {"n": 1}} is inserted;
   the caller then overwrites the innermost dict of the event it passed in, the event
   object handed back by insert, and the metadata dict handed out.  The history is
   legitimate, the caller's own objects do change, the store's content does not. *)
Definition w01_history : list action :=
  [CallerAlloc (Cell (TNode 5) []);               (* 0: {"n": 1} *)
   CallerAlloc (Cell (TNode 6) [0%nat]);          (* 1: {"k": <0>} *)
   CallerAlloc (Cell (TEv None 0 1000000) [1%nat]);  (* 2: the event *)
   CreateBucket 1 7 None;
   InsertOne 1 2%nat;                             (* stored 5,6,7; handed back 8,9,10 *)
   CallerWrite 0%nat (Cell (TNode 99) []);        (* e.data["k"]["n"] = 2 *)
   CallerWrite 10%nat (Cell (TEv (Some 0) 0 9000000) [9%nat]);   (* r.duration = 9 s *)
   CallerWrite 8%nat (Cell (TNode 98) []);        (* r.data["k"]["n"] = 3 *)
   GetMetadata 1;                                 (* handed out 11,12 *)
   CallerWrite 12%nat (Cell (TNode 97) [11%nat])].  (* m["type"] = "changed" *)

Example C01own_nonvacuous :
  ok_trace init w01_history /\
  content_store (run w01_history init) =
    [(1, Ok (T (TNode 7) [T (TNode EMPTY_DICT) []]),
      [Ok (T (TEv (Some 0) 0 1000000) [T (TNode 6) [T (TNode 5) []]])])] /\
  content_of (heap_of (run w01_history init)) 2%nat =
    Ok (T (TEv None 0 1000000) [T (TNode 6) [T (TNode 99) []]]) /\
  content_of (heap_of (run w01_history init)) 10%nat =
    Ok (T (TEv (Some 0) 0 9000000) [T (TNode 6) [T (TNode 98) []]]) /\
  content_of (heap_of (run w01_history init)) 12%nat =
    Ok (T (TNode 97) [T (TNode EMPTY_DICT) []]).
Proof.
  split; [|vm_compute; repeat split; reflexivity].
  unfold w01_history.
  pose proof Sep_init as SP.
  (* three allocations *)
  apply ok_trace_cons; [exact SP|cbn; intros k []|clear SP; intro SP].
  apply ok_trace_cons; [exact SP| |clear SP; intro SP].
  { cbn [caller_ok children]. intros k [<-|[]].
    apply (reach_by_path _ _ 0%nat [] 0%nat); vm_compute; reflexivity. }
  apply ok_trace_cons; [exact SP| |clear SP; intro SP].
  { cbn [caller_ok children]. intros k [<-|[]].
    apply (reach_by_path _ _ 1%nat [] 1%nat); vm_compute; reflexivity. }
  (* create_bucket, insert_one: store operations, no obligation *)
  apply ok_trace_cons; [exact SP|exact I|clear SP; intro SP].
  apply ok_trace_cons; [exact SP|exact I|clear SP; intro SP].
  (* e.data["k"]["n"] = 2: location 0 through the event the caller passed in *)
  apply ok_trace_cons; [exact SP| |clear SP; intro SP].
  { eapply caller_retag_ok; [exact SP| |vm_compute; reflexivity].
    apply (reach_by_path _ _ 2%nat [0%nat; 0%nat] 2%nat); vm_compute; reflexivity. }
  (* the event handed back by insert *)
  apply ok_trace_cons; [exact SP| |clear SP; intro SP].
  { eapply caller_retag_ok; [exact SP| |vm_compute; reflexivity].
    apply (reach_by_path _ _ 3%nat [] 10%nat); vm_compute; reflexivity. }
  apply ok_trace_cons; [exact SP| |clear SP; intro SP].
  { eapply caller_retag_ok; [exact SP| |vm_compute; reflexivity].
    apply (reach_by_path _ _ 3%nat [0%nat; 0%nat] 10%nat); vm_compute; reflexivity. }
  apply ok_trace_cons; [exact SP|exact I|clear SP; intro SP].
  (* the metadata dict handed out *)
  apply ok_trace_cons; [exact SP| |intros _; exact I].
  { eapply caller_retag_ok; [exact SP| |vm_compute; reflexivity].
    apply (reach_by_path _ _ 4%nat [] 12%nat); vm_compute; reflexivity. }
Qed.

(* Contrast: copy.copy (what insert_one and replace used before /repo 97358ba) yields a
   top cell that shares every child with the original, so the separation fails. *)
Theorem C01_shallow_copy_shares : forall h l h' l' c,
  shallow_copy h l = Ok (h', l') -> lookup h l = Some c ->
  lookup h' l' = Some c /\ forall k, In k (children c) -> edge h' l k /\ edge h' l' k.
Proof. exact shallow_copy_shares. Qed.
Print Assumptions C01_shallow_copy_shares.
