(* C07 — heartbeat ingestion through the store equals heartbeat_reduce of the stream.
   (theorems are added as they are proved; see notes/agents/C07.md) *)
From AwVerif Require Import Base.Prelude Model.Heartbeat Model.StoreBase Model.MemStore
  Model.SqliteStore Model.PeeweeStore Model.Ingest.

Example C07_nonvacuous_sqlite :
  let m := mkMeta 1 1 1 0 None 0 in
  let e t d x := mkEvent None t d x in
  let st := sq_run sq_init [CreateBucket 2 m; CreateBucket 1 m; InsertOne 2 (e 0 10 7); InsertOne 2 (e 10 0 7)] in
  let stream := [e 0 10 1; e 10 0 2; e 11 3 2; e 20 1 2] in
  option_map (fun v => map strip_id (snd v)) (sq_view (fst (sq_ingest_stream st 1 2 stream)) 1)
  = Some (heartbeat_reduce stream 2).
Proof. vm_compute. reflexivity. Qed.
