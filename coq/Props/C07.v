(* C07 — heartbeat ingestion through the store equals heartbeat_reduce of the stream.
   Property statements only: each theorem is closed by [exact <lemma>] and followed by
   Print Assumptions.  Models: Model/Ingest.v (the loop, generic in the back end) over
   Model/{Mem,Sqlite,Peewee}Store.v and Model/Heartbeat.v; proofs: Proofs/Ingest*.v.

   Representation invariants (Proofs/IngestSqlite.v, IngestPeewee.v; the memory model needs none):
     sq_inv c := NoDup (map br_rowid (sq_buckets c)) /\ NoDup (map er_id (sq_events c)) /\
                 Forall (fun r => er_id r <= sq_seq_e c) (sq_events c)
     pw_inv c := NoDup (map pb_key (pw_buckets c)) /\ NoDup (map pe_id (pw_events c)) /\
                 pw_keys c = map (fun r => (pb_id r, pb_key r)) (pw_buckets c)
   Both hold in every state reachable from the empty database by any history of operations
   (C07_invariants_reachable, through the store proofs of C02/C04).

   Hypotheses actually used: heartbeats carry no id; timestamps strictly increasing.  NOT used:
   non-decreasing end instants, non-negative durations, any bound on the pulsetime.  Sqlite
   only: every heartbeat ends at or after 1970 and starts at most at MAX_TIMESTAMP (the
   unwindowed read of sqlite.py filters `endtime >= 0 AND starttime <= 2^63-1`);
   C07_sqlite_pre1970_refuted shows that this hypothesis cannot be dropped. *)
From Coq Require Import Sorted.
From AwVerif Require Import Base.Prelude Model.Heartbeat Model.StoreBase Model.MemStore
  Model.SqliteStore Model.PeeweeStore Model.Ingest
  Proofs.IngestBase Proofs.IngestMem Proofs.IngestSqlite Proofs.IngestPeewee Proofs.IngestReach.

(* ---- the loop leaves heartbeat_reduce of the stream, other buckets untouched ---- *)

Theorem C07_ingest_eq_reduce_memory : forall st b p m stream,
  mem_view st b = Some (m, []) ->
  Forall (fun h => eid h = None) stream ->
  StronglySorted (fun a c => ts a < ts c) stream ->
  exists st' o es',
    ingest_stream mem_step st b p stream = (st', Ok o) /\
    mem_view st' b = Some (m, es') /\
    map strip_id es' = heartbeat_reduce stream p /\
    (forall b', b' <> b -> mem_view st' b' = mem_view st b').
Proof. exact mem_ingest_eq_reduce. Qed.
Print Assumptions C07_ingest_eq_reduce_memory.

Theorem C07_ingest_eq_reduce_sqlite : forall st b p m stream,
  sq_inv st -> sq_view st b = Some (m, []) ->
  Forall (fun h => eid h = None /\ 0 <= eend h /\ ts h <= MAX_TIMESTAMP) stream ->
  StronglySorted (fun a c => ts a < ts c) stream ->
  exists st' o es',
    ingest_stream sq_step st b p stream = (st', Ok o) /\
    sq_view st' b = Some (m, es') /\
    map strip_id es' = heartbeat_reduce stream p /\
    (forall b', b' <> b -> sq_view st' b' = sq_view st b') /\ sq_inv st'.
Proof. exact sq_ingest_eq_reduce. Qed.
Print Assumptions C07_ingest_eq_reduce_sqlite.

Theorem C07_ingest_eq_reduce_peewee : forall st b p m stream,
  pw_inv st -> pw_view st b = Some (m, []) ->
  Forall (fun h => eid h = None) stream ->
  StronglySorted (fun a c => ts a < ts c) stream ->
  exists st' o es',
    ingest_stream pw_step st b p stream = (st', Ok o) /\
    pw_view st' b = Some (m, es') /\
    map strip_id es' = heartbeat_reduce stream p /\
    (forall b', b' <> b -> pw_view st' b' = pw_view st b') /\ pw_inv st'.
Proof. exact pw_ingest_eq_reduce. Qed.
Print Assumptions C07_ingest_eq_reduce_peewee.

(* ---- one heartbeat changes at most the newest event of the bucket and removes none ----
   (the bucket is in the state the loop keeps it in: timestamps strictly increasing in
   storage order; the heartbeat's own timestamp is NOT constrained here) *)

Theorem C07_earlier_untouched_memory : forall st b p m es hb,
  mem_view st b = Some (m, es) ->
  StronglySorted (fun a c => ts a < ts c) es ->
  NoDup (map eid es) -> Forall (fun e => eid e <> None) es ->
  eid hb = None ->
  exists st' o es',
    ingest_step mem_step st b p hb = (st', Ok o) /\ mem_view st' b = Some (m, es') /\
    (forall b', b' <> b -> mem_view st' b' = mem_view st b') /\
    ((exists x, es' = es ++ [x] /\ ts x = ts hb /\ dur x = dur hb /\ data x = data hb) \/
     (exists old l x, es = old ++ [l] /\ es' = old ++ [x] /\
                      eid x = eid l /\ ts x = ts l /\ data x = data l /\ dur l <= dur x)).
Proof. exact mem_earlier_untouched. Qed.
Print Assumptions C07_earlier_untouched_memory.

Theorem C07_earlier_untouched_sqlite : forall st b p m es hb,
  sq_inv st -> sq_view st b = Some (m, es) ->
  StronglySorted (fun a c => ts a < ts c) es ->
  Forall (fun e => 0 <= eend e /\ ts e <= MAX_TIMESTAMP) es ->
  eid hb = None ->
  exists st' o es',
    ingest_step sq_step st b p hb = (st', Ok o) /\ sq_view st' b = Some (m, es') /\
    (forall b', b' <> b -> sq_view st' b' = sq_view st b') /\ sq_inv st' /\
    ((exists x, es' = es ++ [x] /\ ts x = ts hb /\ dur x = dur hb /\ data x = data hb) \/
     (exists old l x, es = old ++ [l] /\ es' = old ++ [x] /\
                      eid x = eid l /\ ts x = ts l /\ data x = data l /\ dur l <= dur x)).
Proof. exact sq_earlier_untouched. Qed.
Print Assumptions C07_earlier_untouched_sqlite.

Theorem C07_earlier_untouched_peewee : forall st b p m es hb,
  pw_inv st -> pw_view st b = Some (m, es) ->
  StronglySorted (fun a c => ts a < ts c) es ->
  eid hb = None ->
  exists st' o es',
    ingest_step pw_step st b p hb = (st', Ok o) /\ pw_view st' b = Some (m, es') /\
    (forall b', b' <> b -> pw_view st' b' = pw_view st b') /\ pw_inv st' /\
    ((exists x, es' = es ++ [x] /\ ts x = ts hb /\ dur x = dur hb /\ data x = data hb) \/
     (exists old l x, es = old ++ [l] /\ es' = old ++ [x] /\
                      eid x = eid l /\ ts x = ts l /\ data x = data l /\ dur l <= dur x)).
Proof. exact pw_earlier_untouched. Qed.
Print Assumptions C07_earlier_untouched_peewee.

(* ---- the invariants are not assumptions about special states ---- *)

Theorem C07_invariants_reachable : forall h,
  sq_inv (sq_run sq_init h) /\ pw_inv (pw_run pw_init h).
Proof. exact (fun h => conj (sq_reachable_inv h) (pw_reachable_inv h)). Qed.
Print Assumptions C07_invariants_reachable.

Theorem C07_ingest_eq_reduce_sqlite_reachable : forall h b p m stream,
  sq_view (sq_run sq_init h) b = Some (m, []) ->
  Forall (fun e => eid e = None /\ 0 <= eend e /\ ts e <= MAX_TIMESTAMP) stream ->
  StronglySorted (fun a c => ts a < ts c) stream ->
  exists st' o es',
    ingest_stream sq_step (sq_run sq_init h) b p stream = (st', Ok o) /\
    sq_view st' b = Some (m, es') /\
    map strip_id es' = heartbeat_reduce stream p /\
    (forall b', b' <> b -> sq_view st' b' = sq_view (sq_run sq_init h) b').
Proof. exact sq_ingest_eq_reduce_reachable. Qed.
Print Assumptions C07_ingest_eq_reduce_sqlite_reachable.

Theorem C07_ingest_eq_reduce_peewee_reachable : forall h b p m stream,
  pw_view (pw_run pw_init h) b = Some (m, []) ->
  Forall (fun e => eid e = None) stream ->
  StronglySorted (fun a c => ts a < ts c) stream ->
  exists st' o es',
    ingest_stream pw_step (pw_run pw_init h) b p stream = (st', Ok o) /\
    pw_view st' b = Some (m, es') /\
    map strip_id es' = heartbeat_reduce stream p /\
    (forall b', b' <> b -> pw_view st' b' = pw_view (pw_run pw_init h) b').
Proof. exact pw_ingest_eq_reduce_reachable. Qed.
Print Assumptions C07_ingest_eq_reduce_peewee_reachable.

(* ---- finding: on sqlite the statement fails for streams before 1970 ---- *)

Theorem C07_sqlite_pre1970_refuted :
  exists h b p m stream,
    sq_view (sq_run sq_init h) b = Some (m, []) /\
    Forall (fun e => eid e = None /\ 0 <= dur e) stream /\
    StronglySorted (fun a c => ts a < ts c) stream /\
    option_map (fun v => map strip_id (snd v))
               (sq_view (fst (ingest_stream sq_step (sq_run sq_init h) b p stream)) b)
    = Some stream /\
    heartbeat_reduce stream p <> stream.
Proof. exact sq_pre1970_counterexample. Qed.
Print Assumptions C07_sqlite_pre1970_refuted.

(* ---- non-vacuity: the hypotheses are met by a populated database and a stream with a
        merge, an end-instant tie ([0,10]A then zero-length B at 10), a refusal on data and
        a refusal on a gap above the pulsetime; the second bucket holds the same instants ---- *)

Example C07_nonvacuous_sqlite :
  let m := mkMeta 1 1 1 0 None 0 in
  let e t d x := mkEvent None t d x in
  let h := [CreateBucket 2 m; CreateBucket 1 m; InsertOne 2 (e 0 10 7); InsertOne 2 (e 10 0 7);
            InsertOne 2 (e 40 9 8)] in
  let st := sq_run sq_init h in
  let stream := [e 0 10 1; e 10 0 2; e 11 3 2; e 20 1 2; e 21 0 1] in
  sq_inv st /\ sq_view st 1 = Some (m, []) /\
  Forall (fun h => eid h = None /\ 0 <= eend h /\ ts h <= MAX_TIMESTAMP) stream /\
  StronglySorted (fun a c => ts a < ts c) stream /\
  sq_view (fst (sq_ingest_stream st 1 2 stream)) 1
  = Some (m, [mkEvent (Some 4) 0 10 1; mkEvent (Some 5) 10 4 2; mkEvent (Some 6) 20 1 2; mkEvent (Some 7) 21 0 1]) /\
  heartbeat_reduce stream 2 = [e 0 10 1; e 10 4 2; e 20 1 2; e 21 0 1].
Proof.
  cbv zeta. split; [apply sq_reachable_inv|]. split; [reflexivity|].
  split; [repeat constructor; vm_compute; discriminate|].
  split; [repeat constructor|]. split; vm_compute; reflexivity.
Qed.

Example C07_nonvacuous_memory_peewee :
  let m := mkMeta 1 1 1 0 (Some 1) 0 in
  let e t d x := mkEvent None t d x in
  let h := [CreateBucket 2 m; CreateBucket 1 m; InsertOne 2 (e 0 10 7); InsertOne 2 (e 10 0 7)] in
  let stream := [e 0 10 1; e 10 0 2; e 11 3 2; e 20 1 2] in
  option_map (fun v => map strip_id (snd v)) (mem_view (fst (mem_ingest_stream (mem_run mem_init h) 1 2 stream)) 1)
  = Some (heartbeat_reduce stream 2) /\
  pw_inv (pw_run pw_init h) /\ pw_view (pw_run pw_init h) 1 = Some (mkMeta 1 1 1 0 (Some 1) 0, []) /\
  option_map (fun v => map strip_id (snd v)) (pw_view (fst (pw_ingest_stream (pw_run pw_init h) 1 2 stream)) 1)
  = Some (heartbeat_reduce stream 2).
Proof.
  cbv zeta. split; [vm_compute; reflexivity|]. split; [apply pw_reachable_inv|].
  split; vm_compute; reflexivity.
Qed.
