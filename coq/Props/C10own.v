(* C10, last sentence: "The input is not modified."  Property statements only; each theorem
   is closed by [exact <lemma>] and followed by Print Assumptions.
   Model: Model/TransformHeap.v (flood_h: flood.py on a heap of mutable objects, with
   copy.deepcopy's memo, sorted(), the in-place walk through locations, the millisecond
   floor of the timestamp setter, the final list comprehension).
   Proofs: Proofs/TransformHeapCopy.v, TransformHeapBase.v, TransformHeapFlood.v,
   TransformHeapTheorems.v.  Tie to the code: harness/theap.py (sharing graph, before/after
   snapshot and values, on inputs with aliasing).

   Vocabulary:
     framed h h'   := length h <= length h' /\ every location of h holds in h' the cell it
                      held in h /\ every later cell refers only to later cells
     list_at h L   := the list of events (id, ts, dur, data label) the list object at L holds
     wf h          := closed (no dangling reference) and acyclic
     rt h a b      := b is reachable from a *)
From AwVerif Require Import Base.Prelude Model.MemHeap Model.TransformHeap Model.Flood
  Proofs.MemHeapBase Proofs.MemHeapCopy Proofs.MemHeapFrame
  Proofs.TransformHeapCopy Proofs.TransformHeapBase Proofs.TransformHeapFlood
  Proofs.TransformHeapTheorems Proofs.FloodStep Proofs.FloodWalk.
Local Open Scope nat_scope.

(* (a) FRAME and (b) FRESHNESS, for every heap, every argument and every pulsetime -- the
   same Event object any number of times in the list, data dicts and their members shared
   between events, dangling or ill-typed cells: whenever the call returns, every object
   that existed before the call (the argument list, its events, their data, anything
   else) is exactly as it was, the returned list is a new object, so are its elements, and
   new objects refer to new objects only. *)
Theorem C10_flood_input_not_modified : forall h L pt h' L',
  flood_h h L pt = Ok (h', L') ->
  framed h h' /\ length h <= L' < length h' /\
  exists out, lookup h' L' = Some (Cell (TNode EVENT_LIST) out) /\
              forall k, In k out -> length h <= k < length h'.
Proof. exact flood_h_framed. Qed.
Print Assumptions C10_flood_input_not_modified.

(* the premise is met by every list of Events, whatever the aliasing (the same object several
   times included): on a closed acyclic heap flood returns, so the statement above applies *)
Theorem C10_flood_returns : forall h L pt vs,
  wf h -> list_at h L = Some vs -> exists h' L', flood_h h L pt = Ok (h', L').
Proof. exact flood_h_total. Qed.
Print Assumptions C10_flood_returns.

(* the frame in the vocabulary of the ownership theorem (Proofs/MemHeapFrame.v): flood is
   confined to the empty set of roots *)
Theorem C10_flood_confined : forall h h', framed h h' -> confined h [] h'.
Proof. exact framed_confined. Qed.
Print Assumptions C10_flood_confined.

(* read on values: any list of events that existed reads after the call as before;
   the tree unfolding of every old location is unchanged *)
Theorem C10_frame_on_values : forall h h' L vs,
  framed h h' -> list_at h L = Some vs -> list_at h' L = Some vs.
Proof. exact framed_list_at. Qed.
Print Assumptions C10_frame_on_values.

Theorem C10_frame_on_content : forall h h' r f,
  framed h h' -> closed h -> r < length h -> content f h' r = content f h r.
Proof. exact framed_content. Qed.
Print Assumptions C10_frame_on_content.

(* nothing the result reaches is an object of the caller *)
Theorem C10_result_shares_nothing : forall h h' L' l,
  framed h h' -> length h <= L' -> rt h' L' l -> length h <= l.
Proof. exact framed_result_fresh. Qed.
Print Assumptions C10_result_shares_nothing.

(* (c) REFINEMENT.  On a closed acyclic heap, if the argument is a list of pairwise distinct
   Event objects (their data may be shared in any way), the call succeeds and the returned
   list reads back as Model/Flood.v's [flood] of the read-back argument -- so every theorem
   of Props/C10.v speaks about the heap-level run. *)
Theorem C10_flood_refines : forall h L pt vs,
  wf h -> list_at h L = Some vs ->
  (forall p ks, lookup h L = Some (Cell (TNode p) ks) -> NoDup ks) ->
  exists h' L', flood_h h L pt = Ok (h', L') /\ list_at h' L' = Some (flood vs pt).
Proof. exact flood_h_refines. Qed.
Print Assumptions C10_flood_refines.

(* C10's domain ("distinct timestamps") implies the distinctness: inside the domain of the
   property the refinement holds for every aliasing Python allows, and the argument reads
   back unchanged *)
Theorem C10_flood_refines_in_domain : forall h L pt vs,
  wf h -> list_at h L = Some vs -> NoDup (map ts vs) ->
  exists h' L', flood_h h L pt = Ok (h', L') /\ list_at h' L' = Some (flood vs pt) /\ list_at h' L = Some vs.
Proof. exact flood_h_refines_distinct_ts. Qed.
Print Assumptions C10_flood_refines_in_domain.

(* an instance of the transfer (C10_out_nonoverlapping_positive), with the frame *)
Theorem C10_flood_heap_out_nonoverlapping_positive : forall h L pt vs,
  wf h -> list_at h L = Some vs ->
  (forall p ks, lookup h L = Some (Cell (TNode p) ks) -> NoDup ks) ->
  flood_domain vs ->
  exists h' L' out, flood_h h L pt = Ok (h', L') /\ list_at h' L' = Some out /\
                    list_at h' L = Some vs /\
                    FloodStep.nonoverlapping out /\ Forall (fun e => (0 < dur e)%Z) out.
Proof. exact flood_h_out_nonoverlapping_positive. Qed.
Print Assumptions C10_flood_heap_out_nonoverlapping_positive.

(* the deep copy at the start of flood: memo = graph isomorphism onto a new region *)
Theorem C10_deepcopy_memo : forall h l h' m l',
  deepcopy_memo h l = Ok (h', m, l') -> copied h l h' m l'.
Proof. exact deepcopy_memo_spec. Qed.
Print Assumptions C10_deepcopy_memo.

Theorem C10_deepcopy_memo_total : forall h l, wf h -> l < length h ->
  exists h' m l', deepcopy_memo h l = Ok (h', m, l').
Proof. exact deepcopy_memo_total. Qed.
Print Assumptions C10_deepcopy_memo_total.

(* sharing inside the copy is exactly the sharing inside the original (the same Event twice in
   the list -> the same copy twice; two events with one data dict -> two copies with one
   copied dict), so what the result shares internally is determined by the argument *)
Theorem C10_deepcopy_memo_bijective : forall h l h' m l',
  wf h -> deepcopy_memo h l = Ok (h', m, l') ->
  forall a a' b b', In (a, a') m -> In (b, b') m -> (a = b <-> a' = b').
Proof. exact deepcopy_memo_bijective. Qed.
Print Assumptions C10_deepcopy_memo_bijective.

(* Non-vacuity.  ex_heap: one data dict shared by two events a = (1000, 2000) and
   b = (4000, 1000); location 3 is the list [a; b], location 4 the list [a; b; a], 5 an empty list. *)
Example C10own_nonvacuous :
  wf ex_heap /\
  list_at ex_heap 3 = Some [mkEvent (Some 1%Z) 1000 2000 5; mkEvent (Some 2%Z) 4000 1000 5] /\
  NoDup [1; 2] /\
  (exists h', flood_h ex_heap 3 1000%Z = Ok (h', 10) /\
              list_at h' 10 = Some [mkEvent (Some 1%Z) 1000 4000 5] /\
              list_at h' 3 = list_at ex_heap 3).
Proof.
  split; [exact ex_heap_wf|]. split; [reflexivity|].
  split; [repeat constructor; cbn; intuition discriminate|].
  eexists. split; [vm_compute; reflexivity|]. split; reflexivity.
Qed.

(* Why (c) asks for distinct objects: with the same Event object twice in the list the deep
   copy holds one object at two positions, the walk writes through both, and the result
   is not what the functional model computes on the values [a; b; a]. *)
Example C10own_aliased_elements_differ :
  (exists h', flood_h ex_heap 4 1000%Z = Ok (h', 10) /\
              list_at h' 10 = Some [mkEvent (Some 2%Z) 3000 2000 5]) /\
  flood [mkEvent (Some 1%Z) 1000 2000 5; mkEvent (Some 2%Z) 4000 1000 5; mkEvent (Some 1%Z) 1000 2000 5] 1000
    = [mkEvent (Some 1%Z) 1000 2000 5; mkEvent (Some 2%Z) 3000 2000 5].
Proof. split; [eexists; split; vm_compute; reflexivity|vm_compute; reflexivity]. Qed.
