(* C15 — union_no_overlap keeps list one intact and only the uncovered parts of list two.
   Property statements only: each theorem is closed by [exact <lemma>] and followed by
   Print Assumptions.  Model: Model/UnionNoOverlap.v; proofs and the vocabulary
   (inside / covers / disjoint: half-open point sets; sorted_nonoverlap: durations >= 0 and
   consecutive end <= next start; ms_aligned: start and duration multiples of 1000 us;
   Interleave x y z: z is an order-preserving merge of x and y; piece_of f p: p has f's id
   and data and lies inside f): Proofs/UnionNoOverlapProofs.v.

   Domain of the theorems: both lists time-sorted and internally non-overlapping with
   durations >= 0, and list one millisecond-aligned (Event.timestamp floors to the
   millisecond, so list one's ends must be on that grid; C15_alignment_needed shows the
   hypothesis cannot be dropped).  Nothing is assumed about list two's alignment. *)
From AwVerif Require Import Base.Prelude Model.UnionNoOverlap Proofs.UnionNoOverlapProofs Proofs.UnionNoOverlapUnits.

(* (5) For all inputs whatsoever (no sortedness needed): the loop terminates within the fuel
   length a + length b, and the AttributeError path (_split_event(None, ...)) is unreachable. *)
Theorem C15_fuel_enough : forall a b, exists out, union_no_overlap a b = Ok out.
Proof. exact union_no_overlap_total. Qed.
Print Assumptions C15_fuel_enough.

(* (1) every event of list one is returned unchanged, exactly once, in order: the result is an
   order-preserving merge of list one with some other events (which ones: next theorem) *)
Theorem C15_list_one_intact : forall a b out,
  sorted_nonoverlap a -> sorted_nonoverlap b -> Forall ms_aligned a ->
  union_no_overlap a b = Ok out ->
  exists rest, Interleave a rest out.
Proof. exact uno_list_one_intact. Qed.
Print Assumptions C15_list_one_intact.

(* (1)+(2) the other returned events are, for each list-two event f in turn, pieces of f (same
   id and data, inside f) that are pairwise disjoint and cover exactly the part of f not
   covered by list one *)
Theorem C15_list_two_uncovered_parts : forall a b out,
  sorted_nonoverlap a -> sorted_nonoverlap b -> Forall ms_aligned a ->
  union_no_overlap a b = Ok out ->
  exists ps : list (list event),
    Interleave a (concat ps) out /\
    Forall2 (fun f pf =>
               Forall (piece_of f) pf /\
               ForallOrdPairs disjoint pf /\
               (forall t, covers pf t <-> inside f t /\ ~ covers a t)) b ps.
Proof. exact uno_list_two_uncovered_parts. Qed.
Print Assumptions C15_list_two_uncovered_parts.

(* (3) no two returned events (at different positions) share a point of time *)
Theorem C15_no_overlap : forall a b out,
  sorted_nonoverlap a -> sorted_nonoverlap b -> Forall ms_aligned a ->
  union_no_overlap a b = Ok out ->
  ForallOrdPairs (fun x y => forall t, ~ (inside x t /\ inside y t)) out.
Proof. exact uno_no_overlap. Qed.
Print Assumptions C15_no_overlap.

(* (4) the covered time is the union of both inputs *)
Theorem C15_cover_is_union : forall a b out,
  sorted_nonoverlap a -> sorted_nonoverlap b -> Forall ms_aligned a ->
  union_no_overlap a b = Ok out ->
  forall t, covers out t <-> covers a t \/ covers b t.
Proof. exact uno_cover_is_union. Qed.
Print Assumptions C15_cover_is_union.

(* The millisecond hypothesis is needed: a list-one event ending off the millisecond grid
   makes the trimmed list-two remainder start before that end (its start is floored). *)
Theorem C15_alignment_needed :
  let a := [mkEvent None 0 1500 1] in
  let b := [mkEvent None 0 3000 2] in
  sorted_nonoverlap a /\ sorted_nonoverlap b /\
  union_no_overlap a b = Ok [mkEvent None 0 1500 1; mkEvent None 1000 1500 2] /\
  ~ ForallOrdPairs disjoint [mkEvent None 0 1500 1; mkEvent None 1000 1500 2].
Proof. exact uno_alignment_needed. Qed.
Print Assumptions C15_alignment_needed.

(* Non-vacuity: inputs in the domain (ms grid) on which every branch fires — a list-two event
   before list one, one cut in two by a list-one event, a list-one event spanning two
   list-two events (the old defect w11), a zero-length list-one event at the start of and
   inside a list-two event, a shared edge, a list-two tail. *)
Example C15_nonvacuous :
  let e i t d x := mkEvent i (1000 * t) (1000 * d) x in
  let a := [e None 2 2 1; e None 6 6 1; e None 14 0 1; e None 16 0 1; e None 20 1 1] in
  let b := [e (Some 1) 0 1 2; e (Some 2) 1 4 3; e (Some 3) 6 2 4; e (Some 4) 10 3 5;
            e (Some 5) 14 4 6; e (Some 6) 21 2 7] in
  sorted_nonoverlap a /\ sorted_nonoverlap b /\ Forall ms_aligned a /\
  union_no_overlap a b =
    Ok [e (Some 1) 0 1 2; e (Some 2) 1 1 3; e None 2 2 1; e (Some 2) 4 1 3; e None 6 6 1;
        e (Some 4) 12 1 5; e None 14 0 1; e (Some 5) 14 2 6; e None 16 0 1; e (Some 5) 16 2 6;
        e None 20 1 1; e (Some 6) 21 2 7].
Proof.
  cbv zeta. split; [cbn; lia|]. split; [cbn; lia|].
  split; [repeat constructor|]. vm_compute. reflexivity.
Qed.

(* The empty list is a unit on either side, for every other argument (sorted or not, aligned or
   not): nothing is cut, reordered or dropped when there is nothing to overlap with. *)
Theorem C15_unit_right : forall a, union_no_overlap a [] = Ok a.
Proof. exact uno_unit_right. Qed.
Print Assumptions C15_unit_right.

Theorem C15_unit_left : forall b, union_no_overlap [] b = Ok b.
Proof. exact uno_unit_left. Qed.
Print Assumptions C15_unit_left.
