(* C02 — every back end behaves like one simple per-bucket event list under any history.
   Property statements only.  Models: Model/{Mem,Sqlite,Peewee}Store.v, reference model
   Model/StoreSpec.v (spec_step: fresh id = any id not live in the bucket, newest = any event of
   maximal timestamp, pre = the quantifier's side condition).  Proofs: Proofs/Store*.v.
   Proved here: memory, sqlite and peewee refine the reference model step by step and over
   all histories; the corollaries named in the property text on all three; and the
   interchangeability of the back ends up to an id renaming, for corresponding histories in
   which every replace_last is unambiguous (without that proviso it is false, see the notes). *)
From AwVerif Require Import Base.Prelude Model.StoreBase Model.MemStore Model.SqliteStore
  Model.PeeweeStore Model.StoreSpec Proofs.StoreMemProofs Proofs.StoreMemRefine
  Proofs.StoreSpecFacts Proofs.StoreSqliteProofs Proofs.StoreSqliteRefine
  Proofs.StorePeeweeProofs Proofs.StorePeeweeRefine Proofs.StoreC02 Proofs.StoreSpecSim
  Proofs.StoreC02More.

(* --- refinement, one step: the step returns (does not raise) and is a step of the
       reference model between the abstractions (memory: the state itself) --- *)
Theorem C02_mem_refines : forall c op, mem_Inv c -> pre c op ->
  exists out, snd (mem_step c op) = Ok out /\ spec_step c op (fst (mem_step c op)) out.
Proof. exact mem_refines. Qed.
Print Assumptions C02_mem_refines.

Theorem C02_sqlite_refines : forall c op, sq_Inv c -> sq_Dom c -> pre (sq_abs c) op ->
  exists out, snd (sq_step c op) = Ok out /\
              spec_step (sq_abs c) op (sq_abs (fst (sq_step c op))) out.
Proof. exact sq_refines. Qed.
Print Assumptions C02_sqlite_refines.

Theorem C02_peewee_refines : forall c op, pw_Inv c -> pre (pw_abs c) op ->
  exists out, snd (pw_step c op) = Ok out /\
              spec_step (pw_abs c) op (pw_abs (fst (pw_step c op))) out.
Proof. exact pw_refines. Qed.
Print Assumptions C02_peewee_refines.

Theorem C02_peewee_abs_is_view : forall c b, aget b (pw_abs c) = pw_view c b.
Proof. exact aget_pw_abs. Qed.
Print Assumptions C02_peewee_abs_is_view.

(* the abstraction is the read-back: looking a bucket up in sq_abs is sq_view *)
Theorem C02_sqlite_abs_is_view : forall c b, aget b (sq_abs c) = sq_view c b.
Proof. exact aget_sq_abs. Qed.
Print Assumptions C02_sqlite_abs_is_view.

(* the domain invariant of the sqlite refinement (no event ends before the epoch) holds
   initially and is kept by operations whose events are in the domain *)
Theorem C02_sqlite_dom_step : forall c op, sq_Dom c -> op_dom op -> sq_Dom (fst (sq_step c op)).
Proof. exact sq_step_Dom. Qed.
Print Assumptions C02_sqlite_dom_step.

(* --- refinement, all histories --- *)
Theorem C02_mem_refines_histories : forall h c, mem_Inv c -> mem_hist_ok c h ->
  spec_run c h (mem_run c h) /\ mem_Inv (mem_run c h).
Proof. exact mem_refines_run. Qed.
Print Assumptions C02_mem_refines_histories.

Theorem C02_sqlite_refines_histories : forall h c, sq_Inv c -> sq_Dom c -> sq_hist_ok c h ->
  spec_run (sq_abs c) h (sq_abs (sq_run c h)) /\ sq_Inv (sq_run c h) /\ sq_Dom (sq_run c h).
Proof. exact sq_refines_run. Qed.
Print Assumptions C02_sqlite_refines_histories.

Theorem C02_peewee_refines_histories : forall h c, pw_Inv c -> pw_hist_ok c h ->
  spec_run (pw_abs c) h (pw_abs (pw_run c h)) /\ pw_Inv (pw_run c h).
Proof. exact pw_refines_run. Qed.
Print Assumptions C02_peewee_refines_histories.

(* --- replace_last rewrites exactly the event the limit-1 read returned immediately
       before it: same id, the rest of the bucket as it was (other buckets: C04) --- *)
Theorem C02_replace_last_hits_limit1_mem : forall c b e x m es,
  mem_Inv c -> mem_view c b = Some (m, es) ->
  snd (mem_step c (GetEvents b 1 None None)) = Ok (OEvents [x]) ->
  exists i, eid x = Some i /\ In x es /\
            mem_view (fst (mem_step c (ReplaceLast b e))) b = Some (m, spec_replace i e es).
Proof. exact mem_replace_last_hits_limit1. Qed.
Print Assumptions C02_replace_last_hits_limit1_mem.

Theorem C02_replace_last_hits_limit1_sqlite : forall c b e x m es,
  sq_Dom c -> sq_view c b = Some (m, es) ->
  snd (sq_step c (GetEvents b 1 None None)) = Ok (OEvents [x]) ->
  exists i, eid x = Some i /\ In x es /\
            sq_view (fst (sq_step c (ReplaceLast b e))) b = Some (m, spec_replace i e es).
Proof. exact sq_replace_last_hits_limit1. Qed.
Print Assumptions C02_replace_last_hits_limit1_sqlite.

Theorem C02_replace_last_hits_limit1_peewee : forall c b e x m es,
  pw_Inv c -> pw_view c b = Some (m, es) ->
  snd (pw_step c (GetEvents b 1 None None)) = Ok (OEvents [x]) ->
  exists i, eid x = Some i /\ In x es /\
            pw_view (fst (pw_step c (ReplaceLast b e))) b = Some (m, spec_replace i e es).
Proof. exact pw_replace_last_hits_limit1. Qed.
Print Assumptions C02_replace_last_hits_limit1_peewee.

(* --- delete removes exactly the addressed event and says whether it existed: ANY id --- *)
Theorem C02_delete_exact_mem : forall c b i m es,
  mem_Inv c -> mem_view c b = Some (m, es) ->
  mem_view (fst (mem_step c (Delete b i))) b = Some (m, spec_delete i es) /\
  snd (mem_step c (Delete b i)) = Ok (OBool (if in_dec Z.eq_dec i (live_ids es) then true else false)).
Proof. exact mem_delete_exact. Qed.
Print Assumptions C02_delete_exact_mem.

Theorem C02_delete_exact_sqlite : forall c b i m es,
  sq_Inv c -> sq_view c b = Some (m, es) ->
  sq_view (fst (sq_step c (Delete b i))) b = Some (m, spec_delete i es) /\
  snd (sq_step c (Delete b i)) = Ok (OBool (if in_dec Z.eq_dec i (live_ids es) then true else false)).
Proof. exact sq_delete_exact. Qed.
Print Assumptions C02_delete_exact_sqlite.

Theorem C02_delete_exact_peewee : forall c b i m es,
  pw_Inv c -> pw_view c b = Some (m, es) ->
  pw_view (fst (pw_step c (Delete b i))) b = Some (m, spec_delete i es) /\
  snd (pw_step c (Delete b i)) = Ok (OBool (if in_dec Z.eq_dec i (live_ids es) then true else false)).
Proof. exact pw_delete_exact. Qed.
Print Assumptions C02_delete_exact_peewee.

(* --- at every moment an id names at most one live event of its bucket (after ANY history,
       no side condition), and replace / replace_last never change an id --- *)
Theorem C02_ids_unique_among_live_mem : forall h b m es,
  mem_view (mem_run mem_init h) b = Some (m, es) -> ids_unique es.
Proof. exact mem_ids_unique_reachable. Qed.
Print Assumptions C02_ids_unique_among_live_mem.

Theorem C02_ids_unique_among_live_sqlite : forall h b m es,
  sq_view (sq_run sq_init h) b = Some (m, es) -> ids_unique es.
Proof. exact sq_ids_unique_reachable. Qed.
Print Assumptions C02_ids_unique_among_live_sqlite.

Theorem C02_ids_unique_among_live_peewee : forall h b m es,
  pw_view (pw_run pw_init h) b = Some (m, es) -> ids_unique es.
Proof. exact pw_ids_unique_reachable. Qed.
Print Assumptions C02_ids_unique_among_live_peewee.

Theorem C02_replace_keeps_ids : forall i e es, live_ids (spec_replace i e es) = live_ids es.
Proof. exact replace_keeps_ids. Qed.
Print Assumptions C02_replace_keeps_ids.

(* --- bulk upsert-then-insert (what the SQL back ends do) is the sequential bulk operation
       of the reference model when the upsert ids are live beforehand --- *)
Theorem C02_bulk_reorder : forall es cur R,
  (forall e i, In e es -> eid e = Some i -> is_live i cur) ->
  spec_many (ups cur es) (filter noid es) R -> spec_many cur es R.
Proof. exact spec_many_reorder. Qed.
Print Assumptions C02_bulk_reorder.

(* --- interchangeability.
   `sim s1 s2`: same buckets in the same order, metadata equal (name aside: memory defaults it
   to the bucket id), and per bucket es2 = map (rename f) es1 for an f injective on the live
   ids of es1 -- the same contents up to an id renaming (C02_sim_is_renaming).
   `ms_ok / mp_ok / sp_ok cA cB hA hB` (StoreSpecSim.pair_ok): the two histories have the same
   length and correspond op by op (`op_sim`: same operation, bucket and event contents; ids
   passed to replace / delete / upsert name the event at the same POSITION of the bucket's list
   on both sides, or are live on neither), each step meets its back end's side condition, and
   every replace_last is issued when all newest events of the bucket carry one id (`unamb`).
   Without `unamb` the statement is false: A@t, B@t, replace_last X leaves [A, X] on memory
   and sqlite and [X, B] on peewee. --- *)
Theorem C02_spec_deterministic_up_to_ids : forall s1 s2 o1 o2 s1' s2' out1 out2,
  sim s1 s2 -> op_sim s1 s2 o1 o2 -> unamb s1 o1 -> pre s1 o1 ->
  spec_step s1 o1 s1' out1 -> spec_step s2 o2 s2' out2 -> sim s1' s2'.
Proof. exact spec_step_sim. Qed.
Print Assumptions C02_spec_deterministic_up_to_ids.

Theorem C02_sim_is_renaming : forall s1 s2 b, sim s1 s2 ->
  match aget b s1, aget b s2 with
  | Some (m1, es1), Some (m2, es2) =>
      meta_sim m1 m2 /\ exists f, inj_on f (live_ids es1) /\ es2 = map (rename f) es1
  | None, None => True
  | _, _ => False
  end.
Proof. exact sim_views. Qed.
Print Assumptions C02_sim_is_renaming.

Theorem C02_backends_interchangeable_mem_sqlite : forall hM hS,
  ms_ok mem_init sq_init hM hS -> sim (mem_run mem_init hM) (sq_abs (sq_run sq_init hS)).
Proof. exact interchangeable_mem_sqlite. Qed.
Print Assumptions C02_backends_interchangeable_mem_sqlite.

Theorem C02_backends_interchangeable_mem_peewee : forall hM hP,
  mp_ok mem_init pw_init hM hP -> sim (mem_run mem_init hM) (pw_abs (pw_run pw_init hP)).
Proof. exact interchangeable_mem_peewee. Qed.
Print Assumptions C02_backends_interchangeable_mem_peewee.

Theorem C02_backends_interchangeable_sqlite_peewee : forall hS hP,
  sp_ok sq_init pw_init hS hP -> sim (sq_abs (sq_run sq_init hS)) (pw_abs (pw_run pw_init hP)).
Proof. exact interchangeable_sqlite_peewee. Qed.
Print Assumptions C02_backends_interchangeable_sqlite_peewee.

(* all three at once *)
Theorem C02_backends_interchangeable : forall hM hS hP,
  ms_ok mem_init sq_init hM hS -> mp_ok mem_init pw_init hM hP -> sp_ok sq_init pw_init hS hP ->
  sim (mem_run mem_init hM) (sq_abs (sq_run sq_init hS)) /\
  sim (mem_run mem_init hM) (pw_abs (pw_run pw_init hP)) /\
  sim (sq_abs (sq_run sq_init hS)) (pw_abs (pw_run pw_init hP)).
Proof. exact interchangeable_all. Qed.
Print Assumptions C02_backends_interchangeable.

(* fed literally the same history (possible when it passes no ids, or ids that happen to
   coincide), all three end in states of the one reference run *)
Theorem C02_backends_reach_one_spec : forall h,
  mem_hist_ok mem_init h -> sq_hist_ok sq_init h -> pw_hist_ok pw_init h ->
  spec_run spec_init h (mem_run mem_init h) /\ spec_run spec_init h (sq_abs (sq_run sq_init h)) /\
  spec_run spec_init h (pw_abs (pw_run pw_init h)).
Proof. exact three_same_spec. Qed.
Print Assumptions C02_backends_reach_one_spec.

(* Non-vacuity.  (1) The tie pattern of the repaired defect: [0,10] then a zero-length event at
   10: the limit-1 read returns id 2 and replace_last rewrites id 2.  (2) A history with a tie
   in the start instants, a bulk upsert+insert, delete and replace_last meets the side
   condition at every step on the sqlite model, so the refinement theorem applies to it. *)
Example C02_nonvacuous_sqlite :
  let m := mkMeta 1 1 1 0 None 0 in
  let h := [CreateBucket 1 m; InsertOne 1 (mkEvent None 0 10 1); InsertOne 1 (mkEvent None 10 0 2)] in
  snd (sq_step (sq_run sq_init h) (GetEvents 1 1 None None)) = Ok (OEvents [mkEvent (Some 2) 10 0 2]) /\
  sq_view (sq_run sq_init (h ++ [ReplaceLast 1 (mkEvent None 10 5 3)])) 1
  = Some (m, [mkEvent (Some 1) 0 10 1; mkEvent (Some 2) 10 5 3]).
Proof. vm_compute. split; reflexivity. Qed.

Example C02_nonvacuous_history :
  let m := mkMeta 1 1 1 0 None 0 in
  sq_hist_ok sq_init
    [CreateBucket 1 m; CreateBucket 2 m; InsertOne 1 (mkEvent None 5 1 1); InsertOne 1 (mkEvent None 5 0 2);
     InsertMany 1 [mkEvent None 5 2 3; mkEvent (Some 1) 7 0 4]; Delete 1 2;
     GetEvents 1 1 None None; ReplaceLast 1 (mkEvent None 7 3 5); GetEventCount 1 None None].
Proof.
  cbn -[Z.pow]. unfold ev_dom, is_live. cbn -[Z.pow].
  repeat (split; try discriminate; try lia; try reflexivity); try tauto.
  - eexists. eexists. split; [reflexivity|]. intros e0 i [<-|[<-|[]]] H; inversion H. cbn. tauto.
  - destruct H as [<-|[<-|[]]]; cbn; lia.
  - destruct H as [<-|[<-|[]]]; cbn -[Z.pow]; lia.
  - eexists. eexists. split; [reflexivity|]. discriminate.
Qed.

(* Non-vacuity of the interchangeability hypothesis: the same logical history on memory (ids
   from 0 per bucket) and peewee (global ids from 1, the id of the deleted newest event is
   issued again), with a tie in the start instants, replace and delete by corresponding ids
   and an unambiguous replace_last. *)
Example C02_nonvacuous_interchangeable :
  let m := mkMeta 1 1 1 0 None 0 in
  let e t d x := mkEvent None t d x in
  mp_ok mem_init pw_init
    [CreateBucket 1 m; InsertOne 1 (e 5 1 1); InsertOne 1 (e 5 0 2); Replace 1 0 (e 7 0 4); Delete 1 1;
     InsertOne 1 (e 9 0 5); ReplaceLast 1 (e 9 3 6)]
    [CreateBucket 1 m; InsertOne 1 (e 5 1 1); InsertOne 1 (e 5 0 2); Replace 1 1 (e 7 0 4); Delete 1 2;
     InsertOne 1 (e 9 0 5); ReplaceLast 1 (e 9 3 6)].
Proof.
  unfold mp_ok. cbn. unfold same_content, is_live, evs_of, ident. cbn.
  repeat (split; try discriminate; try reflexivity; try lia); try tauto.
  - eexists. eexists. split; [reflexivity|]. cbn. tauto.
  - eexists. eexists. split; [reflexivity|]. cbn. tauto.
  - left. exists 0%nat. eexists. eexists. repeat split; reflexivity.
  - left. exists 1%nat. eexists. eexists. repeat split; reflexivity.
  - eexists. eexists. split; [reflexivity|discriminate].
  - eexists. eexists. split; [reflexivity|discriminate].
  - intros l l' [I1 M1] [I2 M2]. cbn in I1, I2.
    destruct I1 as [<-|[<-|[]]], I2 as [<-|[<-|[]]]; try reflexivity; exfalso.
    + specialize (M1 _ (or_intror (or_introl eq_refl))). cbn in M1. lia.
    + specialize (M2 _ (or_intror (or_introl eq_refl))). cbn in M2. lia.
Qed.
