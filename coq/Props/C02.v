(* C02 — every back end behaves like one per-bucket event list.  (theorems are added as
   they are proved; see notes/agents/C02.md) *)
From AwVerif Require Import Base.Prelude Model.StoreBase Model.MemStore Model.SqliteStore
  Model.PeeweeStore Model.StoreSpec.

(* Non-vacuity / the tie pattern of the repaired defect: [0,10] then a zero-length event at
   10, then replace_last: every model rewrites the event its own limit-1 read returns. *)
Example C02_nonvacuous_sqlite :
  let m := mkMeta 1 1 1 0 None 0 in
  let h := [CreateBucket 1 m; InsertOne 1 (mkEvent None 0 10 1); InsertOne 1 (mkEvent None 10 0 2)] in
  snd (sq_step (sq_run sq_init h) (GetEvents 1 1 None None)) = Ok (OEvents [mkEvent (Some 2) 10 0 2]) /\
  sq_view (sq_run sq_init (h ++ [ReplaceLast 1 (mkEvent None 10 5 3)])) 1
  = Some (m, [mkEvent (Some 1) 0 10 1; mkEvent (Some 2) 10 5 3]).
Proof. vm_compute. split; reflexivity. Qed.
