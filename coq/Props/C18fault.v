(* C18 over histories in which the ENGINE RAISES - a COMMIT ('database is locked', a transient
   I/O error), an execute, an executemany part-way - the storage call propagates the exception
   and the caller carries on with the same store.  Property statements only.  Model:
   Model/CommitFault.v (Model/Commit.v plus the engine's answer to every COMMIT a step attempts,
   statements that raise, and a ghost [last_ok] = the clock reading of the commit() whose engine
   COMMIT last SUCCEEDED); proofs: Proofs/CommitFaultProofs.v.

   "The previous flush" of the property is a flush that happened: [last_ok], not what the store
   believes ([last_commit]).  What makes the two agree is the statement order of commit():
   `self.conn.commit()` comes FIRST, so a COMMIT that raises leaves last_commit and the counter
   as they were ([code_commit_raises]; regenerated from the source and bridged in
   Bridge/BridgeCommitFault.v). *)
From AwVerif Require Import Base.Prelude Model.Commit Model.CommitFault
  Proofs.CommitProofs Proofs.CommitAge Proofs.CommitFaultProofs.

(* The bookkeeping tells the truth: after ANY sequence of steps - any number of failed COMMITs,
   raising statements, partly executed bulk statements, at any positions, with any clock -
   the store's last_commit is the instant of the last commit that really flushed. *)
Theorem C18f_bookkeeping_truthful : forall lazy c0 t0 tr,
  last_commit (cs (frun lazy (finit c0 t0) tr)) = last_ok (frun lazy (finit c0 t0) tr).
Proof. intros. apply truthful_run, truthful_init. Qed.
Print Assumptions C18f_bookkeeping_truthful.

(* Age flush relative to the last SUCCESSFUL flush.  [hist] is any sequence of steps with any
   faults (no hypothesis on it at all); an event-write call - insert_one, replace, replace_last,
   delete, insert_many of any list - all of whose steps run and that RETURNS NORMALLY
   ([returned]: no step raised; the hypothesis is about the exception, not about the engine),
   issued at [t] more than 10 s after the last successful flush of [hist], leaves NOTHING
   pending: its own writes, and everything earlier calls left behind when their commit raised,
   are durable. *)
Theorem C18f_age_flush : forall lazy c0 t0 hist o tro t,
  event_write_op o -> map fm tro = map Step (expand o) ->
  returned lazy (frun lazy (finit c0 t0) hist) tro ->
  fmono_from t tro ->
  t - last_ok (frun lazy (finit c0 t0) hist) > MAX_AGE ->
  pending (cs (frun lazy (finit c0 t0) (hist ++ tro))) = [].
Proof. exact fage_flush. Qed.
Print Assumptions C18f_age_flush.

(* The same from any state in which the bookkeeping is truthful (e.g. a store opened on an
   existing file at [last_ok]). *)
Theorem C18f_age_flush_from : forall lazy fs o tro t,
  truthful fs -> event_write_op o -> map fm tro = map Step (expand o) ->
  returned lazy fs tro -> fmono_from t tro -> t - last_ok fs > MAX_AGE ->
  pending (cs (frun lazy fs tro)) = [].
Proof. exact fage_flush_op. Qed.
Print Assumptions C18f_age_flush_from.

(* Age bound, all histories with faults, monotone clock.  [fpending_stamped] are the issued
   writes beyond the committed prefix with their issue instants; [unchecked] counts the writes
   issued since the last commit decision (commit() / conditional_commit()) that RETURNED
   NORMALLY.  Every write a crash would lose, except the last [unchecked] ones, was issued at
   most 10 s after the last SUCCESSFUL flush.  The exempt ones were issued by calls that raised
   since then (their caller was told) or by the call in flight: a write whose commit raised is
   at risk, and old, until the next write returns - nothing the code could do about it. *)
Theorem C18f_age_bound : forall lazy c0 t0 tr t,
  fmono_from t tr ->
  let fs := frun lazy (finit c0 t0) tr in
  let G := fpending_stamped c0 tr fs in
  map fst G = pending (cs fs) /\
  last_commit (cs fs) = last_ok fs /\
  Forall (fun wt => snd wt - last_ok fs <= MAX_AGE)
         (firstn (length G - unchecked lazy (finit c0 t0) tr 0) G).
Proof. exact fage_bound. Qed.
Print Assumptions C18f_age_bound.

(* In terms of calls: whenever an event write has RETURNED NORMALLY - after any history of
   faults - EVERY write a crash would lose was issued at most 10 s after the last successful
   flush (nothing is exempt). *)
Theorem C18f_age_bound_after_write : forall lazy c0 t0 hist o tro t,
  event_write_op o -> map fm tro = map Step (expand o) ->
  returned lazy (frun lazy (finit c0 t0) hist) tro ->
  fmono_from t (hist ++ tro) ->
  let tr := hist ++ tro in
  let fs := frun lazy (finit c0 t0) tr in
  map fst (fpending_stamped c0 tr fs) = pending (cs fs) /\
  forall w ti, In (w, ti) (fpending_stamped c0 tr fs) -> ti - last_ok fs <= MAX_AGE.
Proof. exact fage_bound_after_write. Qed.
Print Assumptions C18f_age_bound_after_write.

(* and after any commit decision that returned normally (a bucket operation, a read that
   commits first) *)
Theorem C18f_age_bound_after_decision : forall lazy c0 t0 hist tro x t,
  is_decision (fm x) = true ->
  returned lazy (frun lazy (finit c0 t0) hist) (tro ++ [x]) ->
  fmono_from t (hist ++ tro ++ [x]) ->
  let tr := hist ++ tro ++ [x] in
  let fs := frun lazy (finit c0 t0) tr in
  map fst (fpending_stamped c0 tr fs) = pending (cs fs) /\
  forall w ti, In (w, ti) (fpending_stamped c0 tr fs) -> ti - last_ok fs <= MAX_AGE.
Proof. exact fage_bound_after_return. Qed.
Print Assumptions C18f_age_bound_after_decision.

(* With an engine that never raises the machine is Model/Commit.v (under any behaviour of the
   failing path): Props/C18.v is the special case. *)
Theorem C18f_fault_free_is_commit_model : forall cr lazy tr fs,
  cs (frun_with cr lazy fs (map with_all_ok tr)) = run lazy (cs fs) tr /\
  returned_with cr lazy fs (map with_all_ok tr).
Proof. exact run_all_ok. Qed.
Print Assumptions C18f_fault_free_is_commit_model.

(* ---- examples ---- *)

Definition at_ (t : Z) : clk := mkClk t t t.
(* insert_one of token i at t; [e] = the engine's answers during its conditional_commit *)
Definition ins (i t : Z) (e : eng) : list fin :=
  [mkIn (Step (Exec i)) (at_ t) all_ok; mkIn (Step (CondCommit 1)) (at_ t) e].
Definition age_commit_raises : eng := mkEng true true false.
Definition count_commit_raises : eng := mkEng false true true.

(* Non-vacuity, the seed's scenario on the code as it is.  Store opened at 0; an insert at 4 s
   stays buffered; the insert at 12 s is old, its age COMMIT raises: the call raises, nothing
   became durable, both writes are pending, the bookkeeping still says "last flush at 0"; the
   caller carries on; the insert at 15 s (3 s after the failed COMMIT, 15 s after the last flush
   that happened) meets every hypothesis of C18f_age_flush and returns with all three writes
   durable.  Before it the write of 12 s is pending although 12 s old relative to the last
   flush: it is the one [unchecked] write. *)
Example C18f_nonvacuous :
  let hist := ins 1 4000000 all_ok ++ ins 2 12000000 age_commit_raises in
  let tro := ins 3 15000000 all_ok in
  let fs1 := frun true (finit [] 0) hist in
  ~ returned true (finit [] 0) hist /\
  pending (cs fs1) = [1; 2] /\ last_commit (cs fs1) = 0 /\ last_ok fs1 = 0 /\ n_unc (cs fs1) = 2 /\
  unchecked true (finit [] 0) hist 0 = 1%nat /\
  fpending_stamped [] hist fs1 = [(1, 4000000); (2, 12000000)] /\
  event_write_op (InsertOne 3) /\ map fm tro = map Step (expand (InsertOne 3)) /\
  returned true fs1 tro /\ fmono_from 15000000 tro /\ fmono_from 0 (hist ++ tro) /\
  15000000 - last_ok fs1 > MAX_AGE /\
  pending (cs (frun true (finit [] 0) (hist ++ tro))) = [] /\
  committed (cs (frun true (finit [] 0) (hist ++ tro))) = [1; 2; 3] /\
  last_ok (frun true (finit [] 0) (hist ++ tro)) = 15000000.
Proof.
  vm_compute. repeat split; try reflexivity; try (intros H; discriminate H).
  intros (_ & _ & _ & H & _). discriminate H.
Qed.

(* the count branch: 50 buffered writes, the 51st's COMMIT raises; the counter keeps its 51, so
   the next write (1 ms later, young) tries again and flushes all 52 *)
Example C18f_count_commit_retried :
  let burst := flat_map (fun i => ins i (1000 * i) all_ok) (map Z.of_nat (seq 1 50)) in
  let hist := burst ++ ins 51 51000 count_commit_raises in
  let fs1 := frun true (finit [] 0) hist in
  length (pending (cs fs1)) = 51%nat /\ n_unc (cs fs1) = 51 /\ last_commit (cs fs1) = 0 /\
  length (pending (cs (frun true fs1 (ins 52 52000 all_ok)))) = 0%nat /\
  length (committed (cs (frun true fs1 (ins 52 52000 all_ok)))) = 52%nat.
Proof. vm_compute. repeat split; reflexivity. Qed.

(* Sensitivity: commit() with the bookkeeping BEFORE the engine call
   (`self.last_commit = datetime.now(); self.num_uncommitted_statements = 0; self.conn.commit()`,
   behaviour [bookkeeping_first]).  Same history: the failed COMMIT at 12 s already moved
   last_commit to 12 s and reset the counter; the insert at 15 s returns normally, 15 s after
   the last flush that happened, with all three writes still pending - C18f_age_flush,
   C18f_age_bound_after_write and C18f_bookkeeping_truthful all fail for it.  Without a fault
   the two orders are indistinguishable (C18f_fault_free_is_commit_model holds for any
   behaviour). *)
Example C18f_bookkeeping_first_breaks_it :
  let hist := ins 1 4000000 all_ok ++ ins 2 12000000 age_commit_raises in
  let tro := ins 3 15000000 all_ok in
  let fs1 := frun_with bookkeeping_first true (finit [] 0) hist in
  let fs2 := frun_with bookkeeping_first true (finit [] 0) (hist ++ tro) in
  returned_with bookkeeping_first true fs1 tro /\ fmono_from 0 (hist ++ tro) /\
  15000000 - last_ok fs1 > MAX_AGE /\
  last_commit (cs fs1) = 12000000 /\ last_ok fs1 = 0 /\ n_unc (cs fs1) = 0 /\
  pending (cs fs2) = [1; 2; 3] /\ committed (cs fs2) = [] /\
  fpending_stamped [] (hist ++ tro) fs2 = [(1, 4000000); (2, 12000000); (3, 15000000)] /\
  (exists w ti, In (w, ti) (fpending_stamped [] (hist ++ tro) fs2) /\ ti - last_ok fs2 > MAX_AGE).
Proof.
  intros hist tro fs1 fs2.
  assert (E : fpending_stamped [] (hist ++ tro) fs2 = [(1, 4000000); (2, 12000000); (3, 15000000)])
    by (vm_compute; reflexivity).
  repeat match goal with |- _ /\ _ => split end.
  10: { exists 3, 15000000. rewrite E. split; [right; right; left; reflexivity|vm_compute; reflexivity]. }
  all: vm_compute; repeat split; try reflexivity; intros H; discriminate H.
Qed.

(* Sensitivity: a commit() that swallows the exception (`try: self.conn.commit() except
   OperationalError: pass`, then the assignments).  The insert at 12 s now RETURNS NORMALLY,
   12 s after the last flush, with both writes pending. *)
Example C18f_exception_swallowed_breaks_it :
  let hist := ins 1 4000000 all_ok in
  let tro := ins 2 12000000 age_commit_raises in
  let fs1 := frun_with exception_swallowed true (finit [] 0) hist in
  returned_with exception_swallowed true fs1 tro /\ fmono_from 0 (hist ++ tro) /\
  12000000 - last_ok fs1 > MAX_AGE /\
  pending (cs (frun_with exception_swallowed true fs1 tro)) = [1; 2] /\
  last_commit (cs (frun_with exception_swallowed true fs1 tro)) = 12000000 /\
  last_ok (frun_with exception_swallowed true fs1 tro) = 0.
Proof. vm_compute. repeat split; try reflexivity; intros H; discriminate H. Qed.

(* Only the counter reset placed before the engine call: last_commit stays truthful, so the age
   statements survive (the write at 15 s flushes everything) - what breaks is the COUNT: after
   the failed COMMIT two writes are pending and the counter says 0 (C06's invariant
   |pending| <= n). *)
Example C18f_counter_reset_first_keeps_the_age_bound :
  let hist := ins 1 4000000 all_ok ++ ins 2 12000000 age_commit_raises in
  let fs1 := frun_with counter_reset_first true (finit [] 0) hist in
  pending (cs fs1) = [1; 2] /\ n_unc (cs fs1) = 0 /\ last_commit (cs fs1) = 0 /\ last_ok fs1 = 0 /\
  pending (cs (frun_with counter_reset_first true fs1 (ins 3 15000000 all_ok))) = [].
Proof. vm_compute. repeat split; reflexivity. Qed.

(* Which steps of a call run when the engine raises once.  insert_one: a failing statement
   ends the call before conditional_commit; a failing COMMIT is its last step.  insert_many
   (2 ids, 3 rows): the finally clause's conditional_commit(5) still runs after a statement
   fault - after the second UPDATE raised, and after the bulk INSERT raised on its third row;
   when the finally clause's own COMMIT raises the call ends there.  delete_bucket: when its
   second DELETE raises the first stays in the open transaction and no commit runs.  A commit
   fault cannot be aimed at a statement. *)
Example C18f_fault_scripts :
  fault_script (InsertOne 7) (StatementFault 0) = Some [ExecRaises] /\
  fault_script (InsertOne 7) (CommitFault 1) = Some [Step (Exec 7); Step (CondCommit 1)] /\
  fault_script (InsertMany [1; 2] [3; 4; 5]) (StatementFault 1) =
    Some [Step (Exec 1); ExecRaises; Step (CondCommit 5)] /\
  fault_script (InsertMany [1; 2] [3; 4; 5]) (StatementFault 4) =
    Some [Step (Exec 1); Step (Exec 2); ExecManyRaises [3; 4]; Step (CondCommit 5)] /\
  fault_script (InsertMany [1; 2] [3; 4; 5]) (CommitFault 5) =
    Some [Step (Exec 1); Step (Exec 2); Step (ExecMany [3; 4; 5]); Step (CondCommit 5)] /\
  fault_script (DeleteBucket 8 9) (StatementFault 1) = Some [Step (Exec 8); ExecRaises] /\
  fault_script (CreateBucket 8) (CommitFault 1) = Some [Step (Exec 8); Step Commit] /\
  fault_script (GetEvents false) (CommitFault 0) = Some [Step Commit] /\
  fault_script (InsertOne 7) (CommitFault 0) = None /\
  fault_script (InsertOne 7) (StatementFault 1) = None.
Proof. vm_compute. repeat split; reflexivity. Qed.
