(* C04 through the public API (round 2).  Property statements only.
   A call of the Datastore / Bucket layer (Model/Datastore.v) - issued as `api_call o`
   (Model/DatastoreApi.v: Datastore.create_bucket = storage call then self[bucket_id],
   update_bucket, delete_bucket, buckets; every per-bucket operation = the method of a Bucket
   object, Bucket.insert(Event) / Bucket.insert(list) / replace / replace_last / delete / reads) -
   addressed to one bucket leaves the view (metadata + events with ids) of every OTHER bucket of
   the storage underneath as it was: every call, every argument (foreign ids, dead ids, events
   carrying ids of other buckets, missing buckets), whether it returns or raises.
   Proofs: Proofs/StoreC04Ds.v. *)
From AwVerif Require Import Base.Prelude Model.StoreBase Model.MemStore Model.SqliteStore
  Model.PeeweeStore Model.Datastore Model.DatastoreApi
  Proofs.StoreMemProofs Proofs.StoreSqliteProofs Proofs.StorePeeweeProofs Proofs.StoreC04Ds.

Theorem C04ds_frame_mem : forall d o b', mem_Inv (ds_store d) -> target o <> Some b' ->
  mem_view (ds_store (fst (api_step mem_step d o))) b' = mem_view (ds_store d) b'.
Proof. exact mem_api_frame. Qed.
Print Assumptions C04ds_frame_mem.

Theorem C04ds_frame_sqlite : forall d o b', sq_Inv (ds_store d) -> target o <> Some b' ->
  sq_view (ds_store (fst (api_step sq_step d o))) b' = sq_view (ds_store d) b'.
Proof. exact sq_api_frame. Qed.
Print Assumptions C04ds_frame_sqlite.

Theorem C04ds_frame_peewee : forall d o b', pw_Inv (ds_store d) -> target o <> Some b' ->
  pw_view (ds_store (fst (api_step pw_step d o))) b' = pw_view (ds_store d) b'.
Proof. exact pw_api_frame. Qed.
Print Assumptions C04ds_frame_peewee.

(* the same after ANY history of public calls from the empty store, without the invariant *)
Theorem C04ds_frame_mem_reachable : forall h o b', target o <> Some b' ->
  let d := api_run mem_step (ds_init mem_init) h in
  mem_view (ds_store (fst (api_step mem_step d o))) b' = mem_view (ds_store d) b'.
Proof. exact mem_api_frame_reachable. Qed.
Print Assumptions C04ds_frame_mem_reachable.

Theorem C04ds_frame_sqlite_reachable : forall h o b', target o <> Some b' ->
  let d := api_run sq_step (ds_init sq_init) h in
  sq_view (ds_store (fst (api_step sq_step d o))) b' = sq_view (ds_store d) b'.
Proof. exact sq_api_frame_reachable. Qed.
Print Assumptions C04ds_frame_sqlite_reachable.

Theorem C04ds_frame_peewee_reachable : forall h o b', target o <> Some b' ->
  let d := api_run pw_step (ds_init pw_init) h in
  pw_view (ds_store (fst (api_step pw_step d o))) b' = pw_view (ds_store d) b'.
Proof. exact pw_api_frame_reachable. Qed.
Print Assumptions C04ds_frame_peewee_reachable.

(* non-vacuity: two populated buckets on peewee (global ids); through the public API, a replace on
   bucket 2 addressing its own event 2 with an event that CARRIES the id 1 of bucket 1's event, and a
   replace_last on bucket 2 with such an event: bucket 1 reads back unchanged, bucket 2 does change *)
Example C04ds_nonvacuous :
  let m := mkMeta 1 1 1 0 None 0 in
  let d := api_run pw_step (ds_init pw_init)
             [CreateBucket 1 m; CreateBucket 2 m; InsertOne 1 (mkEvent None 5 1 1); InsertOne 2 (mkEvent None 5 1 2)] in
  let d1 := fst (api_step pw_step d (Replace 2 2 (mkEvent (Some 1) 9 0 7))) in
  let d2 := fst (api_step pw_step d1 (ReplaceLast 2 (mkEvent (Some 1) 8 0 8))) in
  pw_view (ds_store d1) 1 = pw_view (ds_store d) 1 /\ pw_view (ds_store d2) 1 = pw_view (ds_store d) 1 /\
  option_map snd (pw_view (ds_store d) 1) = Some [mkEvent (Some 1) 5 1 1] /\
  option_map snd (pw_view (ds_store d1) 2) = Some [mkEvent (Some 2) 9 0 7] /\
  option_map snd (pw_view (ds_store d2) 2) = Some [mkEvent (Some 2) 8 0 8].
Proof. vm_compute. repeat split; reflexivity. Qed.
