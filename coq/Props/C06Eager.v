(* C06, last clause: "on the auto-committing store every completed operation is durable",
   for the sqlite back end opened with enable_lazy_commit=False - directly or through
   Datastore(storage_strategy, testing, **options) - and: the options decide which of the
   two machines of Model/Commit.v a program gets.  Property statements only; model:
   Model/Commit.v, Model/CommitOpen.v; proofs: Proofs/CommitEager.v.  (The same clause for
   the peewee back end is C06_peewee_completed_durable in Props/C06.v.) *)
From AwVerif Require Import Base.Prelude Model.Commit Model.CommitOpen Proofs.CommitProofs Proofs.CommitEager.

(* No call in flight (calls that raise included): nothing is pending; a reopen finds every
   write of the history. *)
Theorem C06_eager_completed_durable : forall c0 t0 h tr,
  map fst tr = expand_all h ->
  let s := run false (init c0 t0) tr in
  pending s = [] /\ recover s = c0 ++ writes_of (expand_all h).
Proof. exact eager_completed_durable. Qed.
Print Assumptions C06_eager_completed_durable.

(* A crash inside a call, after any k of its micro-steps: every write of every completed
   call is there, followed by a prefix of the writes of the call in flight. *)
Theorem C06_eager_in_flight : forall c0 t0 h o tr tro k,
  map fst tr = expand_all h -> map fst tro = expand o ->
  exists p, prefix p (writes_of (expand o)) /\
    recover (run false (init c0 t0) (tr ++ firstn k tro)) = c0 ++ writes_of (expand_all h) ++ p.
Proof. exact eager_in_flight. Qed.
Print Assumptions C06_eager_in_flight.

(* Opened with enable_lazy_commit=False (whatever else is given): the eager machine, hence
   the two statements above; opened any other way (option absent, or True): the lazy machine,
   of which Props/C06.v speaks. *)
Theorem C06_opened_eager : forall o c0 t0 tr,
  asked_eager o -> ds_run o c0 t0 tr = run false (init c0 t0) tr.
Proof. exact opened_eager. Qed.
Print Assumptions C06_opened_eager.

Theorem C06_opened_lazy : forall o c0 t0 tr,
  opt_lazy o <> Some false -> ds_run o c0 t0 tr = run true (init c0 t0) tr.
Proof. exact opened_lazy. Qed.
Print Assumptions C06_opened_lazy.

Theorem C06_opened_eager_completed_durable : forall o c0 t0 h tr,
  asked_eager o -> map fst tr = expand_all h ->
  pending (ds_run o c0 t0 tr) = [] /\ recover (ds_run o c0 t0 tr) = c0 ++ writes_of (expand_all h).
Proof.
  intros o c0 t0 h tr Ho Htr. rewrite (opened_eager o c0 t0 tr Ho). exact (eager_completed_durable c0 t0 h tr Htr).
Qed.
Print Assumptions C06_opened_eager_completed_durable.

(* Non-vacuity and sensitivity.  Three acknowledged single-event writes and nothing else:
   opened eager they are all in the file; the same calls on the store one gets when the
   option is dropped on the way (None) are all still pending - what a kill would lose. *)
Definition ack3 : list op := [InsertOne 1; Replace 2; Delete 3].
Definition ack3_tr : list (micro * clk) := timed0 (expand_all ack3).

Example C06_eager_nonvacuous :
  map fst ack3_tr = expand_all ack3 /\
  recover (ds_run (mkOpts (Some 7) (Some false)) [0] 0 ack3_tr) = [0; 1; 2; 3] /\
  recover (ds_run (mkOpts None (Some false)) [0] 0 ack3_tr) = [0; 1; 2; 3] /\
  recover (ds_run (mkOpts (Some 7) None) [0] 0 ack3_tr) = [0] /\
  pending (ds_run (mkOpts (Some 7) None) [0] 0 ack3_tr) = [1; 2; 3] /\
  recover (ds_run (mkOpts (Some 7) (Some true)) [0] 0 ack3_tr) = [0].
Proof. vm_compute. repeat split; reflexivity. Qed.
