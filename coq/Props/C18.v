(* C18 — buffered writes are flushed once they are about ten seconds old.
   Property statements only.  Model: Model/Commit.v with the clock as an input of every
   micro-step; proofs: Proofs/CommitAge.v.  Clock assumption, explicit in every theorem:
   [mono_from t tr] — the readings taken along the trace never decrease (and start at or
   after [t]). *)
From AwVerif Require Import Base.Prelude Model.Commit Proofs.CommitProofs Proofs.CommitAge.

(* An event-write call — insert_one, replace, replace_last, delete, and insert_many of ANY
   list (id-carrying events, id-less events or both; also an insert_many in which a statement
   raises) — issued at an instant [t] more than 10 s after the last commit returns with
   nothing pending: every write of the call and everything buffered before it are durable.
   "The write is made durable before it returns" is about the CALL: since a00ceb1 insert_many
   makes one conditional_commit decision for the whole batch (before it, the first id-carrying
   event flushed and the rest of the same call stayed buffered; example
   [C18_pre_fix_bulk_partly_flushed] below). *)
Theorem C18_age_flush : forall lazy s o tro t,
  event_write_op o -> map fst tro = expand o ->
  mono_from t tro -> t - last_commit s > MAX_AGE ->
  pending (run lazy s tro) = [].
Proof. exact age_flush_op. Qed.
Print Assumptions C18_age_flush.

(* The shape behind it, for any script: a block of write statements (any number, none
   included) followed by one conditional_commit, entered more than 10 s after the last
   commit, leaves nothing pending. *)
Theorem C18_age_flush_block : forall lazy s tpre k c t,
  Forall is_write (map fst tpre) ->
  mono_from t (tpre ++ [(CondCommit k, c)]) ->
  t - last_commit s > MAX_AGE ->
  pending (run lazy s (tpre ++ [(CondCommit k, c)])) = [].
Proof. exact age_flush_block. Qed.
Print Assumptions C18_age_flush_block.

(* When no call is in flight, every write a crash would lose was issued at most 10 s
   after the last commit: the data at risk is bounded in age relative to the last flush
   (C06_bounded_loss bounds its count).  [pending_stamped] are the issued writes beyond
   the committed prefix, each with its issue instant.  Calls that raise are included (the rows of
   a bulk insert that failed part-way pass the age test in its finally clause).  With
   C18_age_flush: a write is at risk only while it is young, and an old CALL leaves nothing. *)
Theorem C18_age_bound : forall lazy c0 t0 h tr t,
  map fst tr = expand_all h -> mono_from t tr ->
  let s := run lazy (init c0 t0) tr in
  map fst (pending_stamped c0 tr s) = pending s /\
  forall w ti, In (w, ti) (pending_stamped c0 tr s) -> ti - last_commit s <= MAX_AGE.
Proof. exact age_bound. Qed.
Print Assumptions C18_age_bound.

(* Non-vacuity: a trickle of one insert every 4 s (far below the count threshold).  The
   writes at 4 s and 8 s stay pending, the one at 12 s (12 s after the flush at 0) flushes
   all three; 10 s exactly does not flush, 10.000001 s does. *)
Example C18_nonvacuous :
  let at_ t := mkClk t t t in
  let call i t := [(Exec i, at_ t); (CondCommit 1, at_ t)] in
  let st tr := run true (init [] 0) tr in
  pending (st (call 1 4000000 ++ call 2 8000000)) = [1; 2] /\
  mono_from 0 (call 1 4000000 ++ call 2 8000000 ++ call 3 12000000) /\
  pending (st (call 1 4000000 ++ call 2 8000000 ++ call 3 12000000)) = [] /\
  recover (st (call 1 4000000 ++ call 2 8000000 ++ call 3 12000000)) = [1; 2; 3] /\
  pending (st (call 1 10000000)) = [1] /\
  pending (st (call 1 10000001)) = [] /\
  pending_stamped [] (call 1 4000000 ++ call 2 8000000) (st (call 1 4000000 ++ call 2 8000000))
    = [(1, 4000000); (2, 8000000)].
Proof. vm_compute. repeat split; try reflexivity; intros H; discriminate H. Qed.

(* Non-vacuity of the call-level statement for a bulk write: a list of two id-carrying and
   two new events, handed over 10.000001 s after the last commit with three young writes
   already buffered: all seven writes are durable on return; at exactly 10 s none is. *)
Example C18_bulk_nonvacuous :
  let at_ t := mkClk t t t in
  let o := InsertMany [10; 11] [12; 13] in
  let young := [(Exec 1, at_ 1); (CondCommit 1, at_ 1); (ExecMany [2; 3], at_ 2); (CondCommit 2, at_ 2)] in
  let call t := map (fun m => (m, at_ t)) (expand o) in
  event_write_op o /\ mono_from 0 (young ++ call 10000001) /\
  pending (run true (init [] 0) young) = [1; 2; 3] /\
  pending (run true (init [] 0) (young ++ call 10000001)) = [] /\
  recover (run true (init [] 0) (young ++ call 10000001)) = [1; 2; 3; 10; 11; 12; 13] /\
  pending (run true (init [] 0) (young ++ call 10000000)) = [1; 2; 3; 10; 11; 12; 13].
Proof. vm_compute. repeat split; try reflexivity; intros H; discriminate H. Qed.

(* Sensitivity: the script insert_many had before a00ceb1 (every id-carrying event a counted
   block of its own, [pre_a00ceb1_insert_many] in Proofs/CommitProofs.v; what tie B reads off
   the source if that repair is reverted).  Three id-carrying events handed over 30 s after the
   last commit: the first flushes and restarts the ten seconds, the other two are still
   pending when the call returns.  With the script of [expand] nothing is pending. *)
Example C18_pre_fix_bulk_partly_flushed :
  let at_ t := mkClk t t t in
  let tr_old := map (fun m => (m, at_ 30000000)) (pre_a00ceb1_insert_many [1; 2; 3] []) in
  let tr_new := map (fun m => (m, at_ 30000000)) (expand (InsertMany [1; 2; 3] [])) in
  mono_from 30000000 tr_old /\ 30000000 - last_commit (init [] 0) > MAX_AGE /\
  pending (run true (init [] 0) tr_old) = [2; 3] /\ recover (run true (init [] 0) tr_old) = [1] /\
  pending (run true (init [] 0) tr_new) = [] /\ recover (run true (init [] 0) tr_new) = [1; 2; 3].
Proof. exact pre_fix_bulk_partly_flushed. Qed.

(* Sensitivity: with the operands of the age subtraction reversed (the pre-repair code:
   last_commit - now) a write 30 s after the last flush stays pending. *)
Example C18_reversed_operands_never_flush :
  let reversed_age_test (now last : Z) := last - now >? MAX_AGE in
  reversed_age_test 30000000 0 = false /\ (30000000 - 0 >? MAX_AGE) = true.
Proof. vm_compute. split; reflexivity. Qed.

(* Sensitivity: with the script insert_many had before ec39c3d (no conditional_commit on the
   failing path) rows issued 100 s after the last commit are pending when the call returns. *)
Example C18_pre_fix_failed_bulk_breaks_age_bound :
  let tr := map (fun m => (m, mkClk 100000000 100000000 100000000))
                (pre_ec39c3d_insert_many_failed [] [7; 8]) in
  let s := run true (init [] 0) tr in
  mono_from 0 tr /\
  exists w ti, In (w, ti) (pending_stamped [] tr s) /\ ti - last_commit s > MAX_AGE.
Proof. exact pre_fix_failed_bulk_breaks_age_bound. Qed.
