(* C03, peewee -- SQLite's date arithmetic at the text level (Model/SqliteDate.v).  Kept apart from
   Props/C03Float.v: these statements rest on a kernel evaluation over the 47484 days 1970-01-01 ..
   2100-01-02 (Proofs/SqliteDateText.v: cal_all, integers only) besides the Flocq lemmas.
   Statements only.

   sd_end_text ts cell   the TEXT that the model of
                           strftime('%Y-%m-%d %H:%M:%f+00:00',
                                    (julianday(ts) - 2440587.5) * 86400.0 + cell, 'unixepoch')
                         prints: parseYyyyMmDd / parseHhMmSs / parseTimezone, computeJD, binary64
                         arithmetic, the 'unixepoch' modifier, computeYMD, computeHMS, %f
   str_utc t             str(datetime) of the UTC instant t (us): what peewee stores (Model/IsoTime.v)
   sd_ms_text v          "YYYY-MM-DD HH:MM:SS.mmm+00:00" of the instant v, exact integer arithmetic
   sd_end_us t cell      the arithmetic core alone (Props/C03Float.v: C03_sql_end_model_bound)
   cell_near d cell      the duration cell is a finite double within 1/64 us of the duration d *)
From Coq Require Import ZArith List Ascii String.
From AwVerif Require Import Base.Prelude Model.PyFloat Model.IsoTime Model.SqliteDate
  Proofs.IsoTimeProofs Proofs.SqliteDate Proofs.SqliteDateText.
Open Scope Z_scope.

(* the stored TEXT parses to the exact Julian day number in milliseconds *)
Theorem C03_sql_parse_text : forall t, 0 <= t <= y2100_us -> t mod 1000 = 0 ->
  sd_ijd_of_text (str_utc t) = Ok (EPOCH_MS + t / 1000).
Proof. exact sd_ijd_of_text_str. Qed.
Print Assumptions C03_sql_parse_text.

(* computeYMD / computeHMS / %f print a Julian day number in milliseconds exactly *)
Theorem C03_sql_strftime_exact : forall T, 0 <= T < 47484 * 86400000 ->
  sd_strftime (EPOCH_MS + T) = Ok (sd_ms_text (1000 * T)).
Proof. exact sd_strftime_exact. Qed.
Print Assumptions C03_sql_strftime_exact.

(* the whole expression: for a stored row (whole-millisecond timestamp 1970 .. 2100, duration
   0 .. 24 h) SQLite's end instant is printed as the whole millisecond v of the arithmetic core,
   and v is within 562 us of timestamp + duration *)
Theorem C03_sql_end_text : forall t d cell,
  t mod 1000 = 0 -> 0 <= t <= y2100_us -> 0 <= d <= 86400000000 -> cell_near d cell ->
  exists v, sd_end_us t cell = Ok v /\ sd_end_text (str_utc t) cell = Ok (sd_ms_text v) /\
            v mod 1000 = 0 /\ Z.abs (v - (t + d)) <= 562.
Proof. exact sd_end_text_exact. Qed.
Print Assumptions C03_sql_end_text.

(* non-vacuity: the witness row of the negative-duration finding (event of 0.9996 s from
   2020-09-13 12:26:40) prints as the next whole second *)
Example ex_sql_end_text :
  sd_end_text (str_utc 1600000000000000) (peewee_cell 999600)
  = Ok (sd_str "2020-09-13 12:26:41.000+00:00"%string) /\
  sd_ms_text 1600000001000000 = sd_str "2020-09-13 12:26:41.000+00:00"%string.
Proof. split; vm_compute; reflexivity. Qed.
