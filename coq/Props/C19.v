(* C19 — annotating transforms add their keys and leave everything else alone.
   Property statements only: each theorem is closed by [exact <lemma>] and followed by
   Print Assumptions.  Models: Model/ClassifyBase.v, Model/Classify.v; proofs:
   Proofs/ClassifyProofs.v, Proofs/ClassifyFrame.v.

   The regex engine (re), urlparse, the two netloc slices and the three title substitutions
   are arbitrary functions here (the universally quantified re / urlparse / starts_www /
   drop4 / sub_parens / sub_fps / sub_dot): every theorem holds for every engine, no hypothesis about them is used.
   What a regex *means* (including what IGNORECASE does) is therefore outside these
   theorems: the model passes the rule's ignore_case flag to the engine, that is all. *)
From AwVerif Require Import Base.Prelude Model.ClassifyBase Model.Classify
  Proofs.ClassifyProofs Proofs.ClassifyFrame.

(* ---- the frame ------------------------------------------------------------------ *)

(* What [frame owned es es'] says: same number of events, position by position the same id,
   timestamp and duration, and the dict outside the keys owned for that event is the same
   list of (key, value) pairs (same values, same relative order); in particular every
   unowned key reads the same. *)
Theorem C19_frame_meaning : forall owned es es',
  frame owned es es' ->
  length es' = length es /\
  map c_eid es' = map c_eid es /\ map c_ts es' = map c_ts es /\ map c_dur es' = map c_dur es /\
  (forall i e e', nth_error es i = Some e -> nth_error es' i = Some e' ->
     others (owned e) (c_data e') = others (owned e) (c_data e) /\
     forall k, ~ In k (owned e) -> dget k (c_data e') = dget k (c_data e)).
Proof. exact frame_unfold. Qed.
Print Assumptions C19_frame_meaning.

Theorem C19_frame_categorize : forall re evs classes,
  frame (fun _ => [K_category]) evs (categorize re evs classes).
Proof. exact categorize_frame. Qed.
Print Assumptions C19_frame_categorize.

Theorem C19_frame_tag : forall re evs classes,
  frame (fun _ => [K_tags]) evs (tag re evs classes).
Proof. exact tag_frame. Qed.
Print Assumptions C19_frame_tag.

(* split_url_events owns the six url keys of an event that has "url", nothing otherwise *)
Theorem C19_frame_split_url : forall urlparse starts_www drop4 evs evs',
  split_url_events urlparse starts_www drop4 evs = Ok evs' ->
  frame (fun e => if dhas K_url (c_data e)
                  then [K_protocol; K_domain; K_path; K_params; K_options; K_identifier]
                  else []) evs evs'.
Proof. exact split_frame. Qed.
Print Assumptions C19_frame_split_url.

Theorem C19_frame_simplify : forall sub_parens sub_fps sub_dot key evs evs',
  simplify_string sub_parens sub_fps sub_dot evs key = Ok evs' ->
  frame (fun _ => [key]) evs evs'.
Proof. exact simplify_frame. Qed.
Print Assumptions C19_frame_simplify.

(* ---- the owned keys --------------------------------------------------------------- *)

(* [placed k v d d']: d' reads v at k; k keeps its position when it was present (all keys
   in the same order) and is appended at the end when it is new. *)

(* split_url_events: an event without "url" is returned unchanged; with a url the six keys
   hold the components urlparse returned (domain = netloc without a leading "www.") *)
Theorem C19_split_url_writes : forall urlparse starts_www drop4 evs evs',
  split_url_events urlparse starts_www drop4 evs = Ok evs' ->
  Forall2 (fun e e' =>
    match dget K_url (c_data e) with
    | None => e' = e
    | Some u => exists p, urlparse u = Ok p /\
        (dget K_protocol (c_data e') = Some (u_scheme p) /\
         dget K_domain (c_data e') = Some (if starts_www (u_netloc p) then drop4 (u_netloc p)
                                           else u_netloc p) /\
         dget K_path (c_data e') = Some (u_path p) /\ dget K_params (c_data e') = Some (u_params p) /\
         dget K_options (c_data e') = Some (u_query p) /\
         dget K_identifier (c_data e') = Some (u_fragment p)) /\
        dget K_url (c_data e') = Some u
    end) evs evs'.
Proof. exact split_writes. Qed.
Print Assumptions C19_split_url_writes.

(* simplify_string: the key held a string and now holds its simplification (all three
   substitutions iff key is "title" and the event has "app", else the first only); the
   dict keeps its keys in the same order *)
Theorem C19_simplify_writes : forall sub_parens sub_fps sub_dot key evs evs',
  simplify_string sub_parens sub_fps sub_dot evs key = Ok evs' ->
  Forall2 (fun e e' => exists s,
    dget key (c_data e) = Some (VStr s) /\
    dget key (c_data e') =
      Some (VStr (if (key =? K_title) && dhas K_app (c_data e)
                  then sub_dot (sub_fps (sub_parens s)) else sub_parens s)) /\
    map fst (c_data e') = map fst (c_data e)) evs evs'.
Proof. exact simplify_pointwise. Qed.
Print Assumptions C19_simplify_writes.

(* when the two partial transforms return at all *)
Theorem C19_simplify_returns_iff : forall sub_parens sub_fps sub_dot key evs,
  (exists evs', simplify_string sub_parens sub_fps sub_dot evs key = Ok evs') <->
  (forall e, In e evs -> exists s, dget key (c_data e) = Some (VStr s)).
Proof. exact simplify_ok_iff. Qed.
Print Assumptions C19_simplify_returns_iff.

Theorem C19_simplify_raises : forall sub_parens sub_fps sub_dot key l1 e l2,
  (forall a, In a l1 -> exists s, dget key (c_data a) = Some (VStr s)) ->
  (dget key (c_data e) = None ->
   simplify_string sub_parens sub_fps sub_dot (l1 ++ e :: l2) key = Err KeyError) /\
  (forall v, dget key (c_data e) = Some v -> (forall s, v <> VStr s) ->
   simplify_string sub_parens sub_fps sub_dot (l1 ++ e :: l2) key = Err TypeError).
Proof. exact simplify_raises. Qed.
Print Assumptions C19_simplify_raises.

Theorem C19_split_url_returns_iff : forall urlparse starts_www drop4 evs,
  (exists evs', split_url_events urlparse starts_www drop4 evs = Ok evs') <->
  (forall e u, In e evs -> dget K_url (c_data e) = Some u -> exists p, urlparse u = Ok p).
Proof. exact split_ok_iff. Qed.
Print Assumptions C19_split_url_returns_iff.

(* ---- Rule.match ------------------------------------------------------------------- *)

(* A rule built by Rule(spec) matches iff its regex is present and not the empty string and
   the engine finds it (with the rule's ignore_case flag) in some selected string value:
   the values of the select_keys that are present when select_keys is a non-empty list,
   every value of the dict otherwise; missing keys and non-string values never match.
   Partial: what the engine finds, and what ignore_case changes, is the Section variable. *)
Theorem C19_match_def_partial : forall re spec d,
  rule_match re (rule_init spec) d = true <->
  exists p, s_regex spec = Some p /\ p <> S_empty /\
    exists s, (match s_select spec with
               | Some (k :: ks) => exists key, In key (k :: ks) /\ dget key d = Some (VStr s)
               | _ => In (VStr s) (dvalues d)
               end) /\ re p (s_icase spec) s = true.
Proof. exact rule_match_iff. Qed.
Print Assumptions C19_match_def_partial.

(* ---- tag -------------------------------------------------------------------------- *)

(* [picks P classes l]: l lists the classes of the rules satisfying P, in rule order, one
   entry per matching rule (duplicates kept).  It determines l. *)
Theorem C19_tag_exact : forall re evs classes i e,
  nth_error evs i = Some e ->
  exists e' l, nth_error (tag re evs classes) i = Some e' /\
    placed K_tags (VList l) (c_data e) (c_data e') /\
    picks (fun r => rule_match re r (c_data e)) classes l.
Proof. exact tag_writes. Qed.
Print Assumptions C19_tag_exact.

Theorem C19_tag_exact_unique : forall (P : rule -> bool) (classes : list (Z * rule)) l1 l2,
  picks P classes l1 -> picks P classes l2 -> l1 = l2.
Proof. exact (@picks_functional Z). Qed.
Print Assumptions C19_tag_exact_unique.

Theorem C19_tag_membership : forall re (classes : list (Z * rule)) d t,
  In t (matching re classes d) <-> exists r, In (t, r) classes /\ rule_match re r d = true.
Proof. exact (@matching_in Z). Qed.
Print Assumptions C19_tag_membership.

(* ---- categorize ------------------------------------------------------------------- *)

(* The category written for the event at position i:
   - if some matching rule has a non-empty category: the category c of a rule at a position
     such that the rule matches, no matching rule before it is deeper, and every matching
     rule after it is strictly shallower (the deepest; among equally deep ones the last);
   - if every matching rule has the empty category [] — in particular if no rule matches —
     ["Uncategorized"].
   The two cases are exhaustive.  A matching rule whose category is the empty list never
   wins (length 0 < length of ["Uncategorized"]), see C19_category_empty_loses. *)
Theorem C19_category_deepest_last_wins : forall re evs classes i e,
  nth_error evs i = Some e ->
  exists e' c, nth_error (categorize re evs classes) i = Some e' /\
    placed K_category (VList c) (c_data e) (c_data e') /\
    ((exists c0 r, In (c0, r) classes /\ rule_match re r (c_data e) = true /\ c0 <> []) ->
     exists k1 r k2, classes = k1 ++ (c, r) :: k2 /\ rule_match re r (c_data e) = true /\
       (forall c' r', In (c', r') k1 -> rule_match re r' (c_data e) = true ->
                      (length c' <= length c)%nat) /\
       (forall c' r', In (c', r') k2 -> rule_match re r' (c_data e) = true ->
                      (length c' < length c)%nat)) /\
    ((forall c0 r, In (c0, r) classes -> rule_match re r (c_data e) = true -> c0 = []) ->
     c = [S_uncategorized]).
Proof. exact categorize_writes. Qed.
Print Assumptions C19_category_deepest_last_wins.

(* the plain reading of "Uncategorized when nothing matches" *)
Theorem C19_category_uncategorized_when_nothing_matches : forall re classes e,
  (forall c r, In (c, r) classes -> rule_match re r (c_data e) = false) ->
  dget K_category (c_data (categorize_one re classes e)) = Some (VList [S_uncategorized]).
Proof. exact nothing_matches_uncategorized. Qed.
Print Assumptions C19_category_uncategorized_when_nothing_matches.

(* _pick_category on its own, for any list of categories *)
Theorem C19_pick_category : forall cats,
  ((exists c, In c cats /\ c <> []) ->
   exists l1 l2, cats = l1 ++ pick_category cats :: l2 /\
     (forall x, In x l1 -> (length x <= length (pick_category cats))%nat) /\
     (forall x, In x l2 -> (length x < length (pick_category cats))%nat)) /\
  ((forall c, In c cats -> c = []) -> pick_category cats = [S_uncategorized]).
Proof. exact (fun cats => conj (pick_category_nonempty cats) (pick_category_all_empty cats)). Qed.
Print Assumptions C19_pick_category.

(* Honest edge: a rule that matches but carries the empty category loses to the default. *)
Theorem C19_category_empty_loses :
  exists re classes e, (exists r, In ([], r) classes /\ rule_match re r (c_data e) = true) /\
    dget K_category (c_data (categorize_one re classes e)) = Some (VList [S_uncategorized]).
Proof. exact empty_category_loses. Qed.
Print Assumptions C19_category_empty_loses.

(* writing a key keeps the keys of a dict unique *)
Theorem C19_set_keeps_keys_unique : forall k v d,
  NoDup (map fst d) -> NoDup (map fst (dset k v d)).
Proof. exact dset_nodup. Qed.
Print Assumptions C19_set_keeps_keys_unique.

(* ---- non-vacuity ------------------------------------------------------------------- *)

(* toy_re (Proofs/ClassifyFrame.v): pattern p is found in string s iff s = p, or ignore_case
   and s = p + 100 *)

(* three overlapping rules, a depth tie (the later wins), an empty regex, a select_keys that
   hits a missing key and a non-string value; the frame keeps "app", "n" and their order *)
Example C19_nonvacuous_categorize :
  let r rx sel ic := rule_init (mkSpec rx sel ic) in
  let classes := [([10; 11], r (Some 5) None false);
                  ([12; 13], r (Some 5) (Some [K_app; 200; 201]) true);
                  ([14; 15; 16], r (Some 0) None false);
                  ([17; 18; 19], r (Some 5) (Some [200; 201]) false);
                  ([20], r (Some 105) None false)] in
  let e := mkCE (Some 3) 1000 2000 [(K_app, VStr 105); (201, VOther 7); (K_title, VStr 5)] in
  categorize toy_re [e] classes
  = [mkCE (Some 3) 1000 2000
       [(K_app, VStr 105); (201, VOther 7); (K_title, VStr 5); (K_category, VList [12; 13])]]
  /\ (exists c0 r, In (c0, r) classes /\ rule_match toy_re r (c_data e) = true /\ c0 <> []).
Proof.
  cbv zeta. split; [vm_compute; reflexivity|].
  eexists. eexists. split; [left; reflexivity|]. split; [vm_compute; reflexivity|discriminate].
Qed.

Example C19_nonvacuous_tag :
  let r rx sel ic := rule_init (mkSpec rx sel ic) in
  tag toy_re [mkCE None 0 1 [(K_tags, VStr 5); (K_title, VStr 105)]]
      [(30, r (Some 5) None true); (31, r None None true); (32, r (Some 5) (Some []) false);
       (30, r (Some 105) (Some [K_title]) false)]
  = [mkCE None 0 1 [(K_tags, VList [30; 32; 30]); (K_title, VStr 105)]].
Proof. vm_compute. reflexivity. Qed.

Example C19_nonvacuous_split_simplify :
  let parts := mkUrl (VStr 40) (VStr 41) (VStr 42) (VStr 0) (VStr 43) (VStr 0) in
  split_url_events (fun _ => Ok parts) (fun v => match v with VStr 41 => true | _ => false end)
                   (fun _ => VStr 44)
                   [mkCE None 0 1 [(K_domain, VStr 9); (K_url, VStr 50)]; mkCE None 5 1 [(K_title, VStr 1)]]
  = Ok [mkCE None 0 1 [(K_domain, VStr 44); (K_url, VStr 50); (K_protocol, VStr 40); (K_path, VStr 42);
                       (K_params, VStr 0); (K_options, VStr 43); (K_identifier, VStr 0)];
        mkCE None 5 1 [(K_title, VStr 1)]]
  /\ simplify_string (Z.add 1) (Z.add 10) (Z.add 100)
       [mkCE None 0 1 [(K_title, VStr 1000); (K_app, VStr 2)]; mkCE None 0 1 [(K_title, VStr 1000)]] K_title
     = Ok [mkCE None 0 1 [(K_title, VStr 1111); (K_app, VStr 2)]; mkCE None 0 1 [(K_title, VStr 1001)]]
  /\ simplify_string (Z.add 1) (Z.add 10) (Z.add 100)
       [mkCE None 0 1 [(K_title, VStr 1000)]; mkCE None 0 1 [(K_app, VStr 2)]] K_title = Err KeyError.
Proof. vm_compute. repeat split; reflexivity. Qed.

(* ------------------------------------------------------------------ round 2: keys not asked for *)

(* simplify_string(events, key) with any key: whatever else the event carries (app, a title
   with a bullet or an FPS counter, ...), every key other than `key` reads exactly as before, at
   every position; in particular a key other than "title" leaves every title as it was. *)
From AwVerif Require Import Proofs.ClassifyCross.

Theorem C19_simplify_other_keys_untouched : forall sub_parens sub_fps sub_dot key evs evs',
  simplify_string sub_parens sub_fps sub_dot evs key = Ok evs' ->
  forall i e e' k, nth_error evs i = Some e -> nth_error evs' i = Some e' ->
    k <> key -> dget k (c_data e') = dget k (c_data e).
Proof. exact simplify_other_keys. Qed.
Print Assumptions C19_simplify_other_keys_untouched.

Theorem C19_simplify_title_untouched : forall sub_parens sub_fps sub_dot key evs evs',
  simplify_string sub_parens sub_fps sub_dot evs key = Ok evs' -> key <> K_title ->
  map (fun e => dget K_title (c_data e)) evs' = map (fun e => dget K_title (c_data e)) evs.
Proof. exact simplify_title_untouched. Qed.
Print Assumptions C19_simplify_title_untouched.

(* key = app on a window event (app and title both rewritable by every substitution: the toy
   substitutions add 1 / 10 / 100 to any string label): only app changes, by the parens step alone *)
Example C19_nonvacuous_simplify_other_key :
  simplify_string (Z.add 1) (Z.add 10) (Z.add 100)
    [mkCE (Some 4) 7 9 [(K_app, VStr 2000); (K_title, VStr 1000); (201, VStr 3000)]] K_app
  = Ok [mkCE (Some 4) 7 9 [(K_app, VStr 2001); (K_title, VStr 1000); (201, VStr 3000)]].
Proof. vm_compute. reflexivity. Qed.
