(* C14 -- migrating a legacy (peewee v2) database to the SQLite store loses nothing.
   Property statements only: each theorem is closed by [exact <lemma>] and followed by
   Print Assumptions.  Model: Model/Migration.v (+ Model/MigrationCommit.v) over
   Model/PeeweeStore.v and Model/SqliteStore.v; proofs: Proofs/Migration*.v.

   Vocabulary (Proofs/MigrationCopy.v, MigrationNames.v):
     payload e      = (ts e, dur e, data e)          what the property compares per event
     pw_view / sq_view c b = Some (metadata, events in table order) of bucket b, None if absent
     store_files    = the eight names the two stores create in the data dir
                      (peewee-sqlite[-testing].v2.db, sqlite[-testing].v1.db and its -shm / -wal)
     legacy_match t n = n.split(".")[0] == "peewee-sqlite"+("-testing" if t) and n.split(".")[1] == "v2" *)
From AwVerif Require Import Base.Prelude Model.StoreBase Model.SqliteStore Model.PeeweeStore
  Model.Migration Model.MigrationCommit
  Proofs.MigrationNames Proofs.MigrationCopy Proofs.MigrationOpen Proofs.MigrationDurable
  Proofs.MigrationReachable.
From AwVerif Require Model.Commit.
From Coq Require Import Permutation.

(* ---- trigger ---- *)

(* For the file names the two stores actually use: the first construction of
   SqliteStorage(testing) at the default path runs the migration iff its own file is not
   there yet and the legacy file of the SAME profile is; the other profile's legacy file,
   or a new-format file alone, never triggers.  It never raises. *)
Theorem C14_trigger : forall testing listing,
  (forall n, In n listing -> In n store_files) ->
  exists b, sq_init_migrates testing DefaultPath listing = Ok b /\
            (b = true <-> ~ In (sq_filename testing) listing /\ In (pw_filename testing) listing).
Proof. exact trigger_store_names_iff. Qed.
Print Assumptions C14_trigger.

(* Arbitrary directory contents: the decision is the (name, "v2") test on some entry,
   provided no entry is exactly the dot-less name "peewee-sqlite[-testing]". *)
Theorem C14_trigger_general : forall testing listing,
  ~ In (pw_ds_name testing) listing ->
  sq_init_migrates testing DefaultPath listing =
  Ok (negb (existsb (name_eqb (sq_filename testing)) listing) && existsb (legacy_match testing) listing).
Proof. exact trigger_general. Qed.
Print Assumptions C14_trigger_general.

(* ... and that proviso is needed: with such an entry the constructor raises IndexError
   (the sqlite file exists by then, so the next start does not migrate either). *)
Theorem C14_trigger_dotless_name_raises : forall testing,
  sq_init_migrates testing DefaultPath [pw_ds_name testing; pw_filename testing] = Err IndexError.
Proof. exact trigger_index_error. Qed.
Print Assumptions C14_trigger_dotless_name_raises.

(* Normal and testing never cross, whatever else the directory holds. *)
Theorem C14_trigger_never_cross : forall testing listing,
  (forall n, In n listing -> component0 n <> pw_ds_name testing) ->
  sq_init_migrates testing DefaultPath listing = Ok false.
Proof. exact trigger_never_cross. Qed.
Print Assumptions C14_trigger_never_cross.

Theorem C14_trigger_custom_path : forall testing e listing,
  sq_init_migrates testing (CustomPath e) listing = Ok false.
Proof. exact trigger_custom_path. Qed.
Print Assumptions C14_trigger_custom_path.

Theorem C14_trigger_existing_file : forall testing listing,
  In (sq_filename testing) listing -> sq_init_migrates testing DefaultPath listing = Ok false.
Proof. exact trigger_existing_file. Qed.
Print Assumptions C14_trigger_existing_file.

(* ---- the copy ---- *)

(* For every legacy store whose bucket ids are distinct (id is UNIQUE in bucketmodel):
   the migration into a fresh store terminates without an exception; the new store lists
   exactly the legacy buckets (same ids, same order); every bucket has the same metadata
   (type, client, hostname, created, name, data) and its events are the legacy events up to
   order and ids: the same multiset of (instant, duration, data).  A bucket the legacy
   store does not have is not in the new store. *)
Theorem C14_lossless : forall pw,
  NoDup (map pb_id (pw_buckets pw)) ->
  exists sq,
    migrate pw sq_init = (pw_open pw, sq, Ok tt) /\
    map br_id (sq_buckets sq) = map pb_id (pw_buckets pw) /\
    forall b,
      match pw_view pw b with
      | Some (m, es) => exists es', sq_view sq b = Some (m, es') /\
                                    Permutation (map payload es') (map payload es)
      | None => sq_view sq b = None
      end.
Proof. exact migrate_lossless. Qed.
Print Assumptions C14_lossless.

(* The hypothesis is met by every legacy store the API can produce: for EVERY history of
   storage calls (any arguments, failing calls included) on an empty peewee store, migrating
   the resulting tables loses nothing.  (Distinct bucket ids are part of the peewee model's
   representation invariant, Proofs/StorePeeweeProofs.v.) *)
Theorem C14_lossless_all_histories : forall h,
  let pw := pw_run pw_init h in
  exists sq,
    migrate pw sq_init = (pw_open pw, sq, Ok tt) /\
    map br_id (sq_buckets sq) = map pb_id (pw_buckets pw) /\
    forall b,
      match pw_view pw b with
      | Some (m, es) => exists es', sq_view sq b = Some (m, es') /\
                                    Permutation (map payload es') (map payload es)
      | None => sq_view sq b = None
      end.
Proof. exact migrate_lossless_reachable. Qed.
Print Assumptions C14_lossless_all_histories.

(* None dropped and none duplicated: per bucket the number of events is the same and every
   (instant, duration, data) triple occurs exactly as often as in the legacy bucket. *)
Theorem C14_no_duplicates : forall pw,
  NoDup (map pb_id (pw_buckets pw)) ->
  exists sq,
    migrate pw sq_init = (pw_open pw, sq, Ok tt) /\
    forall b m es, pw_view pw b = Some (m, es) ->
      exists es', sq_view sq b = Some (m, es') /\
                  length es' = length es /\
                  forall p, count_occ payload_eq_dec (map payload es') p =
                            count_occ payload_eq_dec (map payload es) p.
Proof. exact migrate_counts. Qed.
Print Assumptions C14_no_duplicates.

(* The legacy store is only read: whatever the legacy tables and the new store are (also
   when the copy fails half way), the tables the function leaves are the ones it found.
   (Model level; the real PeeweeStorage constructor's create_table(safe=True) /
   auto_migrate are I/O outside the model: SHA-256 oracle of the harness.) *)
Theorem C14_legacy_readonly : forall pw sq,
  let pw' := fst (fst (migrate pw sq)) in
  pw_buckets pw' = pw_buckets pw /\ pw_events pw' = pw_events pw.
Proof. exact migrate_tables_unchanged. Qed.
Print Assumptions C14_legacy_readonly.

(* ---- trigger + copy: the statement of the property ---- *)
Theorem C14_end_to_end : forall testing listing pw existing,
  ~ In (pw_ds_name testing) listing ->
  ~ In (sq_filename testing) listing ->
  In (pw_filename testing) listing ->
  NoDup (map pb_id (pw_buckets pw)) ->
  exists sq,
    sqlite_open testing DefaultPath listing pw existing = (pw_open pw, sq, Ok tt) /\
    map br_id (sq_buckets sq) = map pb_id (pw_buckets pw) /\
    forall b,
      match pw_view pw b with
      | Some (m, es) => exists es', sq_view sq b = Some (m, es') /\
                                    Permutation (map payload es') (map payload es)
      | None => sq_view sq b = None
      end.
Proof. exact sqlite_open_lossless. Qed.
Print Assumptions C14_end_to_end.

(* Only the other profile's legacy file is there: nothing is copied. *)
Theorem C14_other_profile_untouched : forall testing listing pw existing,
  (forall n, In n listing -> n = pw_filename (negb testing)) ->
  sqlite_open testing DefaultPath listing pw existing = (pw, sq_init, Ok tt).
Proof. exact sqlite_open_other_profile_only. Qed.
Print Assumptions C14_other_profile_untouched.

(* ---- durability (commit bookkeeping of Model/Commit.v) ---- *)

(* When the constructor returns from a migration, nothing is left in the open transaction
   and a fresh connection sees every migrated row: for every lazy-commit flag, every clock,
   every list of buckets (token of the bucket row, tokens of its event rows). *)
Theorem C14_migration_durable : forall lazy t0 bs tr,
  map fst tr = migration_micro bs ->
  let s := Commit.run lazy (Commit.init [] t0) tr in
  Commit.pending s = [] /\ Commit.recover s = all_writes bs.
Proof. exact migration_durable. Qed.
Print Assumptions C14_migration_durable.

(* ---- non-vacuity ---- *)

(* A legacy store with two buckets (ids 10 and 11; the second without name and data),
   events with a tie, a zero-length event and an id hole left by a delete; the first start
   of the testing-profile sqlite store next to both profiles' legacy files migrates it
   (newest first, new ids), and the hypotheses of C14_end_to_end hold for it. *)
Definition ex_legacy : pwstate :=
  pw_run pw_init
    [CreateBucket 10 (mkMeta 1 2 3 4 (Some 5) 6); CreateBucket 11 (mkMeta 1 1 1 1 None 0);
     InsertMany 10 [mkEvent None 5000 1000 7; mkEvent None 9000 0 8; mkEvent None 5000 2000 9];
     InsertOne 11 (mkEvent None 1000 1000 1); Delete 10 2; InsertOne 10 (mkEvent None 7000 0 7)].
Definition ex_listing : list name := [pw_filename true; pw_filename false].

Example C14_nonvacuous :
  let '(pw', sq, r) := sqlite_open true DefaultPath ex_listing ex_legacy sq_init in
  r = Ok tt /\
  sq_view sq 10 = Some (mkMeta 1 2 3 4 (Some 5) 6,
                        [mkEvent (Some 1) 7000 0 7; mkEvent (Some 2) 5000 1000 7; mkEvent (Some 3) 5000 2000 9]) /\
  pw_view ex_legacy 10 = Some (mkMeta 1 2 3 4 (Some 5) 6,
                        [mkEvent (Some 1) 5000 1000 7; mkEvent (Some 3) 5000 2000 9; mkEvent (Some 5) 7000 0 7]) /\
  sq_view sq 11 = Some (mkMeta 1 1 1 1 None 0, [mkEvent (Some 4) 1000 1000 1]) /\
  sq_view sq 12 = None.
Proof. vm_compute. repeat split; reflexivity. Qed.

Example C14_hypotheses_inhabited :
  ~ In (pw_ds_name true) ex_listing /\ ~ In (sq_filename true) ex_listing /\
  In (pw_filename true) ex_listing /\ NoDup (map pb_id (pw_buckets ex_legacy)) /\
  (forall n, In n ex_listing -> In n store_files).
Proof.
  vm_compute. repeat split; try (intuition discriminate); try (left; reflexivity).
  repeat constructor; cbn; intuition discriminate.
Qed.

(* the durability theorem's trace hypothesis is met by a two-bucket migration *)
Example C14_durable_nonvacuous :
  let bs := [(1, [2; 3]); (4, [])] in
  let tr := map (fun m => (m, Commit.mkClk 0 0 0)) (migration_micro bs) in
  map fst tr = migration_micro bs /\
  Commit.recover (Commit.run true (Commit.init [] 0) tr) = [1; 2; 3; 4].
Proof. vm_compute. split; reflexivity. Qed.

(* ---- "the legacy file itself is left untouched": what PeeweeStorage.__init__ does to the file ----
   Model/PeeweeOpen.v: the constructor as an I/O script (INIT_SCRIPT) over the process-wide
   handle (hstate: never initialised / closed on a file / open on a file) and an abstract file
   system (file label -> schema objects); auto_migrate as AM_SCRIPT; every statement that
   reaches SQLite is an effect token carrying its file.  Tie B re-reads the script, the
   pragmas of the handle's declaration, auto_migrate's body and the table declarations from
   peewee.py on every run (Bridge/BridgePeeweeOpen.v).
   Vocabulary: pw_open_io fs h f = (world after PeeweeStorage(.., filepath = f), exception?);
   writes tr = the tokens other than the bucket-list read; current_schema s = both tables, their
   three indexes and bucketmodel.datastr are among the objects of s. *)
From AwVerif Require Import Model.PeeweeOpen Proofs.PeeweeOpenProofs.

(* The handle is (re)initialised with the requested file on EVERY construction: for every
   state an earlier store of the process left it in, the constructor returns normally with
   the handle open on f, its one read (bucket_keys refresh; the migration's buckets() /
   get_events() go through the same handle) and all its writes go to f, no other file changes. *)
Theorem C14_open_is_unconditional : forall fs h f,
  let '(w, r) := pw_open_io fs h f in
  r = Ok tt /\ w_h w = HOpen f /\ reads (w_tr w) = [ESelectBuckets f] /\
  (forall e, In e (w_tr w) -> effect_file e = f) /\ (forall g, g <> f -> w_fs w g = fs g).
Proof. exact open_is_unconditional. Qed.
Print Assumptions C14_open_is_unconditional.

(* A file that already has the current schema is not written: the only statement that
   reaches any file is the read of the bucket list of f, and the file system is unchanged. *)
Theorem C14_open_current_schema_writes_nothing : forall fs h f s,
  fs f = Some s -> current_schema s = true ->
  let '(w, r) := pw_open_io fs h f in
  r = Ok tt /\ w_tr w = [ESelectBuckets f] /\ writes (w_tr w) = [] /\ writes_to f (w_tr w) = [] /\
  (forall g, w_fs w g = fs g).
Proof. exact open_current_schema_writes_nothing. Qed.
Print Assumptions C14_open_current_schema_writes_nothing.

(* Sensitivity (a variant that is NOT the code): the same statements under
   `if self.db.is_closed():` leave a handle that is open on another file g where it is, and
   the construction for f reads g. *)
Theorem C14_open_guarded_variant_reads_stale_file : forall fs g f s,
  fs g = Some s -> has s (STable N_BUCKETMODEL) = true ->
  let '(w, r) := run_osteps DB_PRAGMAS AM_SCRIPT f GUARDED_SCRIPT (mkW fs (HOpen g) []) in
  r = Ok tt /\ w_h w = HOpen g /\ w_tr w = [ESelectBuckets g].
Proof. exact guarded_open_reads_stale_file. Qed.
Print Assumptions C14_open_guarded_variant_reads_stale_file.

(* non-vacuity: file 7 has the current schema (and an extra table), file 8 is a pre-datastr
   legacy file, file 9 does not exist; the handle was left open on 8 *)
Definition ex_fs : fsys := fun g =>
  if g =? 7 then Some (STable [120] :: CURRENT_OBJECTS)
  else if g =? 8 then Some (removelast CURRENT_OBJECTS)
  else None.

Example C14_open_nonvacuous :
  current_schema (STable [120] :: CURRENT_OBJECTS) = true /\
  current_schema (removelast CURRENT_OBJECTS) = false /\
  (let '(w, r) := pw_open_io ex_fs (HOpen 8) 7 in
   r = Ok tt /\ w_h w = HOpen 7 /\ w_tr w = [ESelectBuckets 7]) /\
  (* the clause does NOT hold for an older schema: auto_migrate adds the column (recorded in
     notes/agents/C14.md since round 1; read at content level) *)
  (let '(w, r) := pw_open_io ex_fs HDeferred 8 in
   r = Ok tt /\ w_tr w = [EAddColumn 8 N_BUCKETMODEL N_DATASTR; ESelectBuckets 8]) /\
  (* a missing file is created with both tables and the three indexes *)
  (let '(w, r) := pw_open_io ex_fs (HClosed 7) 9 in
   r = Ok tt /\ length (writes (w_tr w)) = 6%nat /\ current_schema (fs_schema (w_fs w) 9) = true) /\
  (* a pragma in the handle's declaration reaches the file on both connects *)
  (let '(w, r) := run_osteps [([106], [119])] AM_SCRIPT 7 INIT_SCRIPT (mkW ex_fs HDeferred []) in
   r = Ok tt /\ w_tr w = [EPragma 7 [106] [119]; EPragma 7 [106] [119]; ESelectBuckets 7]).
Proof. vm_compute. repeat split; reflexivity. Qed.
