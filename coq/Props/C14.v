(* C14 -- migrating a legacy (peewee v2) database to the SQLite store loses nothing.
   Property statements only: each theorem is closed by [exact <lemma>] and followed by
   Print Assumptions.  Model: Model/Migration.v over Model/PeeweeStore.v and
   Model/SqliteStore.v; proofs: Proofs/Migration*.v. *)
From AwVerif Require Import Base.Prelude Model.StoreBase Model.SqliteStore Model.PeeweeStore
  Model.Migration.

(* Non-vacuity: a legacy store with two buckets (ids 10 and 11; the second without name and
   data), events with a tie, a zero-length event and an id hole left by a delete; the
   first start of the testing-profile sqlite store next to its legacy file migrates it. *)
Definition ex_legacy : pwstate :=
  pw_run pw_init
    [CreateBucket 10 (mkMeta 1 2 3 4 (Some 5) 6); CreateBucket 11 (mkMeta 1 1 1 1 None 0);
     InsertMany 10 [mkEvent None 5000 1000 7; mkEvent None 9000 0 8; mkEvent None 5000 2000 9];
     InsertOne 11 (mkEvent None 1000 1000 1); Delete 10 2; InsertOne 10 (mkEvent None 7000 0 7)].

Example C14_nonvacuous :
  let '(pw', sq, r) := sqlite_open true DefaultPath [pw_filename true; pw_filename false] ex_legacy sq_init in
  r = Ok tt /\
  sq_view sq 10 = Some (mkMeta 1 2 3 4 (Some 5) 6,
                        [mkEvent (Some 1) 7000 0 7; mkEvent (Some 2) 5000 1000 7; mkEvent (Some 3) 5000 2000 9]) /\
  pw_view ex_legacy 10 = Some (mkMeta 1 2 3 4 (Some 5) 6,
                        [mkEvent (Some 1) 5000 1000 7; mkEvent (Some 3) 5000 2000 9; mkEvent (Some 5) 7000 0 7]) /\
  sq_view sq 11 = Some (mkMeta 1 1 1 1 None 0, [mkEvent (Some 4) 1000 1000 1]) /\
  sq_view sq 12 = None.
Proof. vm_compute. repeat split; reflexivity. Qed.
