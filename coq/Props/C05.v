(* C05 — bucket lifecycle is a keyed map (work in progress: statements are added as they are proved). *)
From AwVerif Require Import Base.Prelude Model.StoreBase Model.Datastore.

Theorem C05_handle_is_a_name : forall S (step : S -> op -> S * res out) d h o,
  ds_step step d (DsVia h o) = ds_call step d (hop_op (h_bucket h) o).
Proof. reflexivity. Qed.
Print Assumptions C05_handle_is_a_name.
