(* C05 — bucket lifecycle: create, list, describe, update, delete behave as a keyed map.
   Property statements only: each theorem is closed by [exact <lemma>] and followed by
   Print Assumptions.

   Models: Model/Datastore.v (Datastore / Bucket classes: `ds_step`) over Model/MemStore.v,
   SqliteStore.v, PeeweeStore.v (the three storages).  Vocabulary (Proofs/LifecycleBase.v,
   Proofs/Lifecycle.v):
     backend            a storage model with its observation b_view, the keyed map b_map its
                        states denote and the invariant b_inv of its reachable states;
     is_backend B       B is memB, sqB or pwB;
     ds_do B d o        one Datastore / Bucket call o on state d = (storage state,
                        bucket_instances, number of Bucket objects built): new state and result;
     ds_after B d h     state after the history h;  ds_start B the fresh Datastore;
     ds_view B d b      Some (metadata, events in storage order) of bucket b, None if absent;
     ds_map B d         the whole keyed map (listing order);  ds_listing B d = what ds.buckets() returns;
     ds_inv B d         storage invariant + every cached handle names an existing bucket
                        (holds after every history without a delete behind the Datastore's back:
                        C05_reachable_inv);
     stored_as m m'     m' carries exactly the type, client, hostname, creation instant and data of m,
                        and its name when one was given (label 0 = empty string);
     updated_meta ..    exactly the supplied fields replaced;  nonempty o: a supplied value is not
                        the empty string / empty dict. *)
From AwVerif Require Import Base.Prelude Model.StoreBase Model.MemStore Model.SqliteStore
  Model.PeeweeStore Model.Datastore
  Proofs.LifecycleBase Proofs.LifecycleMem Proofs.LifecycleSqlite Proofs.LifecyclePeewee
  Proofs.Lifecycle Proofs.LifecycleTheorems.

(* The abstraction the theorems speak about is what the API shows: ds_view is a lookup in the
   keyed map, buckets() returns its listing (state unchanged), ids are listed once. *)
Theorem C05_map_is_view_and_listing : forall B, is_backend B -> forall d : ds_state B,
  (forall b, ds_view B d b = aget b (ds_map B d)) /\
  b_step B (ds_store d) Buckets = (ds_store d, Ok (OBuckets (ds_listing B d))) /\
  (ds_inv B d -> NoDup (map fst (ds_listing B d))).
Proof. exact t_map_view_listing. Qed.
Print Assumptions C05_map_is_view_and_listing.

(* A created bucket is listed (last) with exactly the metadata it was given and starts empty;
   nothing else moves; the call returns a handle on a Bucket object built by this very call. *)
Theorem C05_create : forall B, is_backend B -> forall (d : ds_state B) b m,
  ds_inv B d -> ds_view B d b = None ->
  exists d' m',
    ds_do B d (DsCreate b m) = (d', Ok (DHandle (mkHandle (ds_next d) b))) /\
    stored_as m m' /\
    ds_map B d' = ds_map B d ++ [(b, (m', []))] /\
    ds_listing B d' = ds_listing B d ++ [(b, m')] /\
    ds_view B d' b = Some (m', []) /\
    (forall b', b' <> b -> ds_view B d' b' = ds_view B d b') /\
    aget b (ds_cache d') = Some (ds_next d) /\
    ds_inv B d'.
Proof. exact t_create. Qed.
Print Assumptions C05_create.

(* An update (non-empty values) changes exactly the supplied fields of that bucket; its events,
   every other bucket, the set and order of listed ids and the cache stay.  (With no field at
   all sqlite raises ValueError, the others return; nothing changes either way.) *)
Theorem C05_update : forall B, is_backend B -> forall (d : ds_state B) b ty cl ho na da m es,
  ds_inv B d -> ds_view B d b = Some (m, es) ->
  nonempty ty -> nonempty cl -> nonempty ho -> nonempty na -> nonempty da ->
  exists d' r,
    ds_do B d (DsUpdate b ty cl ho na da) = (d', r) /\
    ((exists o, r = Ok (DOut o)) \/
     (r = Err ValueError /\ ty = None /\ cl = None /\ ho = None /\ na = None /\ da = None)) /\
    ds_map B d' = aset b (updated_meta ty cl ho na da m, es) (ds_map B d) /\
    ds_view B d' b = Some (updated_meta ty cl ho na da m, es) /\
    (forall b', b' <> b -> ds_view B d' b' = ds_view B d b') /\
    map fst (ds_listing B d') = map fst (ds_listing B d) /\
    ds_cache d' = ds_cache d /\
    ds_inv B d'.
Proof. exact t_update. Qed.
Print Assumptions C05_update.

(* Deleting removes the entry (with its events) and the cached handle; other buckets stay. *)
Theorem C05_delete : forall B, is_backend B -> forall (d : ds_state B) b v,
  ds_inv B d -> ds_view B d b = Some v ->
  exists d' o,
    ds_do B d (DsDelete b) = (d', Ok (DOut o)) /\
    ds_map B d' = adel b (ds_map B d) /\
    ds_listing B d' = adel b (ds_listing B d) /\
    ds_view B d' b = None /\
    (forall b', b' <> b -> ds_view B d' b' = ds_view B d b') /\
    aget b (ds_cache d') = None /\
    ds_inv B d'.
Proof. exact t_delete. Qed.
Print Assumptions C05_delete.

(* "together with all of its events", at the level of the tables: no event row of the deleted
   bucket's rowid / key is left (this, not the vanished bucket row, is why a re-used peewee key
   cannot adopt old events), and no reachable state holds a row without a listed owner. *)
Theorem C05_delete_rows_sqlite : forall c b r,
  In r (sq_buckets c) -> br_id r = b ->
  forall e, In e (sq_events (fst (sq_step c (DeleteBucket b)))) -> er_bucket e <> br_rowid r.
Proof. exact t_delete_rows_sqlite. Qed.
Print Assumptions C05_delete_rows_sqlite.

Theorem C05_delete_rows_peewee : forall c b k,
  pw_key c b = Some k ->
  forall e, In e (pw_events (fst (pw_step c (DeleteBucket b)))) -> pe_bucket e <> k.
Proof. exact t_delete_rows_peewee. Qed.
Print Assumptions C05_delete_rows_peewee.

Theorem C05_no_orphan_rows_sqlite : forall h,
  Forall (fun e => In (er_bucket e) (map br_rowid (sq_buckets (ds_store (ds_after sqB (ds_start sqB) h)))))
         (sq_events (ds_store (ds_after sqB (ds_start sqB) h))).
Proof. exact t_no_orphan_rows_sqlite. Qed.
Print Assumptions C05_no_orphan_rows_sqlite.

Theorem C05_no_orphan_rows_peewee : forall h,
  Forall (fun e => In (pe_bucket e) (map pb_key (pw_buckets (ds_store (ds_after pwB (ds_start pwB) h)))))
         (pw_events (ds_store (ds_after pwB (ds_start pwB) h))).
Proof. exact t_no_orphan_rows_peewee. Qed.
Print Assumptions C05_no_orphan_rows_peewee.

(* Delete, then ANY further history (other buckets created and deleted, events written,
   reads and writes through handles of the deleted bucket ...) that leaves the id absent, then
   create: the bucket is empty. *)
Theorem C05_recreate_empty : forall B, is_backend B -> forall (d : ds_state B) b v m h,
  ds_inv B d -> ds_view B d b = Some v -> Forall cache_safe h ->
  let d1 := fst (ds_do B d (DsDelete b)) in
  let d2 := ds_after B d1 h in
  ds_view B d2 b = None ->
  exists d3 m',
    ds_do B d2 (DsCreate b m) = (d3, Ok (DHandle (mkHandle (ds_next d2) b))) /\
    stored_as m m' /\ ds_view B d3 b = Some (m', []).
Proof. exact t_recreate_empty. Qed.
Print Assumptions C05_recreate_empty.

(* A bucket that does not exist: lookup raises KeyError, describing / updating (any
   arguments) / deleting raises ValueError, and the whole state (storage, cache) is unchanged. *)
Theorem C05_missing_raises : forall B, is_backend B -> forall (d : ds_state B) b,
  ds_inv B d -> ds_view B d b = None ->
  ds_do B d (DsGetItem b) = (d, Err KeyError) /\
  (forall h, h_bucket h = b -> ds_do B d (DsVia h HMetadata) = (d, Err ValueError)) /\
  (forall ty cl ho na da, ds_do B d (DsUpdate b ty cl ho na da) = (d, Err ValueError)) /\
  ds_do B d (DsDelete b) = (d, Err ValueError).
Proof. exact t_missing_raises. Qed.
Print Assumptions C05_missing_raises.

(* Describing an existing bucket returns its id and metadata and changes nothing. *)
Theorem C05_describe : forall B, is_backend B -> forall (d : ds_state B) h m es,
  ds_inv B d -> ds_view B d (h_bucket h) = Some (m, es) ->
  ds_do B d (DsVia h HMetadata) = (d, Ok (DOut (OMeta (h_bucket h) m))).
Proof. exact t_describe. Qed.
Print Assumptions C05_describe.

(* ds_inv holds after every history of Datastore / Bucket / direct storage calls that does not
   delete a bucket behind the Datastore's back (arguments arbitrary: existing ids re-created,
   empty update values, dead or foreign event ids, missing buckets). *)
Theorem C05_reachable_inv : forall B, is_backend B -> forall h,
  Forall cache_safe h -> ds_inv B (ds_after B (ds_start B) h).
Proof. exact t_reachable_inv. Qed.
Print Assumptions C05_reachable_inv.

(* The cache: every cached handle names an existing bucket; ds[b] succeeds exactly for existing
   buckets, returns a handle addressing b (the cached one from then on) and leaves the storage
   alone. *)
Theorem C05_cache_coherent : forall B, is_backend B -> forall (d : ds_state B), ds_inv B d ->
  (forall b n, aget b (ds_cache d) = Some n -> ds_view B d b <> None) /\
  (forall b, (exists d' hd, ds_do B d (DsGetItem b) = (d', Ok (DHandle hd))) <-> ds_view B d b <> None) /\
  (forall b d' hd, ds_do B d (DsGetItem b) = (d', Ok (DHandle hd)) ->
     h_bucket hd = b /\ ds_store d' = ds_store d /\ aget b (ds_cache d') = Some (h_serial hd) /\ ds_inv B d').
Proof. exact t_cache_coherent. Qed.
Print Assumptions C05_cache_coherent.

(* A handle is only a name: a handle obtained before a delete + re-create and the one obtained
   after it issue the same storage call, so both address the new bucket. *)
Theorem C05_handle_is_a_name : forall B (d : ds_state B) h1 h2 o,
  h_bucket h1 = h_bucket h2 -> ds_do B d (DsVia h1 o) = ds_do B d (DsVia h2 o).
Proof. exact t_handle_is_a_name. Qed.
Print Assumptions C05_handle_is_a_name.

(* What the cache does NOT guarantee: delete a bucket through ds.storage_strategy and ds[b]
   keeps succeeding for a bucket that does not exist; describing it raises ValueError. *)
Theorem C05_cache_stale_after_raw_delete : forall B, is_backend B ->
  let d := ds_after B (ds_start B) [DsCreate 1 (mkMeta 1 2 3 0 None 0); DsRaw (DeleteBucket 1)] in
  ds_view B d 1 = None /\
  ds_do B d (DsGetItem 1) = (d, Ok (DHandle (mkHandle 0 1))) /\
  snd (ds_do B d (DsVia (mkHandle 0 1) HMetadata)) = Err ValueError.
Proof. exact t_stale_after_raw_delete. Qed.
Print Assumptions C05_cache_stale_after_raw_delete.

(* Histories: for every history of lifecycle calls mixed with event reads and writes (through
   any handle) and direct storage calls, in which ids are created only while absent and update
   values are non-empty, ds.buckets() lists exactly the reference keyed map: same ids, same
   order, each with the metadata it was given and then updated to. *)
Theorem C05_refines_map : forall B, is_backend B -> forall h,
  admissible_history [] h ->
  agrees (ref_run [] h) (ds_listing B (ds_after B (ds_start B) h)).
Proof. exact t_refines_map. Qed.
Print Assumptions C05_refines_map.

(* ---- non-vacuity ---- *)

(* an admissible, cache-safe history with updates, a delete of a non-empty bucket, writes through
   the stale handle while the id is absent, and a re-creation; what each back end lists at the
   end, and the re-created bucket 1 holding only the event written after the re-creation *)
Definition demo : list dsop :=
  let h1 := mkHandle 0 1 in
  [DsCreate 1 (mkMeta 4 5 6 0 None 2); DsCreate 2 (mkMeta 4 5 6 1 (Some 8) 0);
   DsVia h1 (HInsert (mkEvent None 10 5 1)); DsVia h1 (HInsertMany [mkEvent None 20 5 2; mkEvent None 30 0 3]);
   DsUpdate 1 (Some 7) None None (Some 9) None; DsGetItem 1; DsBuckets;
   DsDelete 1; DsGetItem 1; DsVia h1 HMetadata; DsVia h1 (HInsert (mkEvent None 40 1 4));
   DsUpdate 1 (Some 4) None None None None; DsDelete 1;
   DsCreate 1 (mkMeta 1 2 3 2 None 0); DsVia h1 (HInsert (mkEvent None 50 1 5));
   DsVia (mkHandle 2 1) (HGet (-1) None None)].

Example C05_demo_in_domain : admissible_history [] demo /\ Forall cache_safe demo.
Proof.
  split.
  - cbn. repeat split; try discriminate; exact I.
  - repeat constructor.
Qed.

Example C05_demo_reference :
  ref_run [] demo = [(2, mkMeta 4 5 6 1 (Some 8) 0); (1, mkMeta 1 2 3 2 None 0)].
Proof. vm_compute. reflexivity. Qed.

Example C05_demo_memory :
  ds_map memB (ds_after memB (ds_start memB) demo) =
  [(2, (mkMeta 4 5 6 1 (Some 8) 0, [])); (1, (mkMeta 1 2 3 2 (Some 1) 0, [mkEvent (Some 0) 50 1 5]))].
Proof. vm_compute. reflexivity. Qed.

Example C05_demo_sqlite :
  ds_map sqB (ds_after sqB (ds_start sqB) demo) =
  [(2, (mkMeta 4 5 6 1 (Some 8) 0, [])); (1, (mkMeta 1 2 3 2 None 0, [mkEvent (Some 4) 50 1 5]))].
Proof. vm_compute. reflexivity. Qed.

Example C05_demo_peewee :
  ds_map pwB (ds_after pwB (ds_start pwB) demo) =
  [(2, (mkMeta 4 5 6 1 (Some 8) 0, [])); (1, (mkMeta 1 2 3 2 None 0, [mkEvent (Some 1) 50 1 5]))].
Proof. vm_compute. reflexivity. Qed.

(* peewee: delete the NEWEST bucket (key 2) while it holds events, create another id: it is
   issued key 2 again and starts empty; the events table holds no row of key 2 *)
Example C05_peewee_key_reuse :
  let h := [DsCreate 1 (mkMeta 1 1 1 0 None 0); DsCreate 2 (mkMeta 1 1 1 0 None 0);
            DsVia (mkHandle 1 2) (HInsertMany [mkEvent None 10 1 1; mkEvent None 20 1 2]);
            DsDelete 2; DsCreate 3 (mkMeta 2 2 2 1 None 0)] in
  let c := ds_store (ds_after pwB (ds_start pwB) h) in
  map (fun r => (pb_id r, pb_key r)) (pw_buckets c) = [(1, 1); (3, 2)] /\
  pw_events c = [] /\
  pw_view c 3 = Some (mkMeta 2 2 2 1 None 0, []).
Proof. vm_compute. auto. Qed.
